import ExprModel.Gen.ParserTables
import ExprModel.Proofs.ParsePrintTop
import ExprModel.Proofs.ParserMono
import ExprModel.Proofs.ParserFuel
import ExprModel.Proofs.ParserCanonAll2
import ExprModel.Proofs.ParserErase5
import ExprModel.Proofs.ParseLayout5
import ExprModel.Proofs.ParseLexNum
import ExprModel.Gen.UnicodeTables
import ExprModel.Syntax.ParserNum
import ExprModel.Props.C12
/-
C11 — Parsing follows the documented precedence and associativity.

Tie: `Gen.parserTables` is regenerated from parser/parser.go on every run; `tables_as_documented`
re-checks that the code's tables are the documented ones pinned here (`Ref`).
-/
namespace ExprModel.C11
open ExprModel ExprModel.Parser

/-! The documented binding powers (DESIGN Appendix B), pinned by hand: `Ref`. -/
namespace Ref
def unary : List (String × Nat × Assoc) :=
  [("!", 50, .left), ("+", 500, .left), ("-", 500, .left), ("not", 50, .left)]
def binary : List (String × Nat × Assoc) :=
  [("!=", 20, .left), ("%", 60, .left), ("&&", 15, .left), ("*", 60, .left), ("**", 70, .right),
   ("+", 30, .left), ("-", 30, .left), ("..", 25, .left), ("/", 60, .left), ("<", 20, .left),
   ("<=", 20, .left), ("==", 20, .left), (">", 20, .left), (">=", 20, .left), ("and", 15, .left),
   ("contains", 20, .left), ("endsWith", 20, .left), ("in", 20, .left), ("matches", 20, .left),
   ("not in", 20, .left), ("or", 10, .left), ("startsWith", 20, .left), ("||", 10, .left)]
def builtins : List (String × Nat) :=
  [("all", 2), ("any", 2), ("count", 2), ("filter", 2), ("len", 1), ("map", 2), ("none", 2), ("one", 2)]
def tables : Tables := { unary := unary, binary := binary, builtins := builtins }
end Ref

/-- The tables in parser.go are the documented ones. -/
theorem tables_as_documented :
    Gen.unaryOperators = Ref.unary ∧ Gen.binaryOperators = Ref.binary ∧ Gen.builtins = Ref.builtins := by
  decide +kernel

theorem tables_eq : Gen.parserTables = Ref.tables := by
  unfold Gen.parserTables Ref.tables
  rw [tables_as_documented.1, tables_as_documented.2.1, tables_as_documented.2.2]

/-- equal binding power ⇒ equal associativity (the round trip needs it) -/
def Coherent (tb : Tables) : Prop :=
  ∀ x ∈ tb.binary, ∀ y ∈ tb.binary, x.2.1 = y.2.1 → x.2.2 = y.2.2

theorem table_coherent : Coherent Gen.parserTables := by
  unfold Coherent; decide +kernel

/-- keys are unique (so `List.lookup` is the Go map lookup) -/
theorem table_keys_nodup :
    (Gen.unaryOperators.map (·.1)).Nodup ∧ (Gen.binaryOperators.map (·.1)).Nodup ∧ (Gen.builtins.map (·.1)).Nodup := by
  decide +kernel

/-! ### The round trip: parsing the printed text of a canonical tree gives the tree back -/

/-- the code's tables satisfy everything the round trip needs (coherence, positive powers, operator
    names distinct from the punctuation of the grammar, builtin names not reserved words) -/
theorem tables_ok : TbOK Gen.parserTables := tbOK_of_check (by decide +kernel)

/-- The parser configuration of the theorems: the tables are those generated from parser.go; the number
    conversion is a parameter constrained only by "reading a printed literal gives its value" (C12). -/
structure Setting (cfg : Cfg) (sh : NumShow) : Prop where
  tables : cfg.tb = Gen.parserTables
  int_rt : ∀ n : Nat, n < 2 ^ 63 → cfg.num (sh.showInt n) = some (.int n)
  float_rt : ∀ b : UInt64, floatLit b = true → cfg.num (sh.showFloat b) = some (.float b)

theorem Setting.hyp {cfg : Cfg} {sh : NumShow} (s : Setting cfg sh) : Hyp cfg sh :=
  ⟨s.tables ▸ tables_ok, s.int_rt, s.float_rt⟩

/-- **Round trip.** For every canonical tree `t` (the decidable predicate `canon cfg 0 t`: operators in
    the tables, literals non-negative, closures/`#` only where the grammar puts them, `NilSafe`
    identifiers only directly before `?.`, no types attached), every choice `pc` of redundant parentheses
    and every location of the EOF token: with enough fuel, parsing the text printed with the parentheses
    the documented rule requires (plus the redundant ones) yields exactly `t` — including all locations,
    since `print` gives each defining token its node's location. -/
theorem parse_print {cfg : Cfg} {sh : NumShow} (hs : Setting cfg sh) (t : Node) (hc : canon cfg 0 t = true)
    (pc : ParenChoice) (l : Loc) :
    ∃ f₀, ∀ f, f₀ ≤ f → parseFuel cfg f (printEof cfg sh pc l t) = .ok t :=
  parse_print_fuel cfg sh pc hs.hyp t hc l

/-- The round trip with the integer side of the number conversion discharged by the lexer model (C12):
    the parser model's `num` is `parseNumber` with the classification chain regenerated from parser.go,
    integers are printed in decimal; only `strconv.ParseFloat`/`FormatFloat` remain a parameter (`pf`, `sf`,
    constrained by: a printed float is classified as a float and reads back as itself). -/
theorem parse_print_lexnum (pf : String → Option UInt64) (sf : UInt64 → String) (bad : String → Bool)
    (hfloat : ∀ b, floatLit b = true → numVia Gen.numCfg pf (sf b) = some (.float b))
    (t : Node) (pc : ParenChoice) (l : Loc) :
    let cfg : Cfg := { tb := Gen.parserTables, num := numVia Gen.numCfg pf, badRegex := bad }
    let sh : NumShow := { showInt := fun n => C12.decimalSpelling n [], showFloat := sf }
    canon cfg 0 t = true → ∃ f₀, ∀ f, f₀ ≤ f → parseFuel cfg f (printEof cfg sh pc l t) = .ok t := by
  intro cfg sh hc
  refine parse_print ⟨rfl, ?_, hfloat⟩ t hc pc l
  intro n hn
  show numVia Gen.numCfg pf (C12.decimalSpelling n []) = some (.int n)
  unfold numVia
  rw [C12.decimal_roundtrip_code n hn []]

/-- Redundant parentheses never change the tree: any two parenthesis choices parse to the same tree. -/
theorem paren_invariance {cfg : Cfg} {sh : NumShow} (hs : Setting cfg sh) (t : Node) (hc : canon cfg 0 t = true)
    (pc pc' : ParenChoice) (l : Loc) :
    ∃ f₀, ∀ f, f₀ ≤ f →
      parseFuel cfg f (printEof cfg sh pc l t) = parseFuel cfg f (printEof cfg sh pc' l t) := by
  obtain ⟨f1, h1⟩ := parse_print hs t hc pc l
  obtain ⟨f2, h2⟩ := parse_print hs t hc pc' l
  exact ⟨max f1 f2, fun f hf => by rw [h1 f (by omega), h2 f (by omega)]⟩

/-- Fuel monotonicity: once the parser model has an answer (tree or error), more fuel gives the same answer. -/
theorem parse_mono (cfg : Cfg) {f f' : Nat} (hf : f ≤ f') (ts : List Token) (h : parseFuel cfg f ts ≠ .outOfFuel) :
    parseFuel cfg f' ts = parseFuel cfg f ts :=
  parseFuel_mono cfg hf ts h

/-- The same for every parser function (`Le a b`: `a` is out of fuel or equal to `b`). -/
theorem parse_mono_all (cfg : Cfg) (f : Nat) : MonoAt cfg f := monoAt cfg f

/-- **Termination / fuel sufficiency**: with the fuel `fuelFor ts = 12·|ts| + 16` (call depth linear in the
    number of tokens) the model never runs out of fuel, on any token list whatsoever — the parser model
    "never hangs", and the fuel-free `parse` below is a total function that always reports a tree or an error. -/
theorem parse_fuel_sufficient (cfg : Cfg) (ts : List Token) : parseFuel cfg (fuelFor ts) ts ≠ .outOfFuel :=
  parseFuel_sufficient cfg ts

/-- The round trip for the fuel-free parser `parse` (the function the driver runs). -/
theorem parse_print_total {cfg : Cfg} {sh : NumShow} (hs : Setting cfg sh) (t : Node) (hc : canon cfg 0 t = true)
    (pc : ParenChoice) (l : Loc) : parse cfg (printEof cfg sh pc l t) = .ok t := by
  obtain ⟨f0, h⟩ := parse_print hs t hc pc l
  have hsuf := parse_fuel_sufficient cfg (printEof cfg sh pc l t)
  have hm := parse_mono cfg (Nat.le_max_right f0 (fuelFor (printEof cfg sh pc l t))) _ hsuf
  rw [h _ (Nat.le_max_left _ _)] at hm
  unfold parse
  rw [← hm]

/-! ### The rejection side: the parser accepts nothing but printings of canonical trees -/

/-- the generated builtin table has arities 1 and 2 only -/
theorem builtin_arities : ∀ n ar, Gen.parserTables.builtins.lookup n = some ar → ar = 1 ∨ ar = 2 := by
  intro n ar h
  have hm := mem_of_lookup _ _ _ h
  have hall : Gen.parserTables.builtins.all (fun x => x.2 == 1 || x.2 == 2) = true := by decide +kernel
  have := List.all_eq_true.mp hall _ hm
  simpa using this

/-- what the image theorem assumes: the generated tables, and integer literals read in range (true of
    `numVia Gen.numCfg`, i.e. of strconv.ParseInt(·, 64)) -/
structure ImageSetting (cfg : Cfg) : Prop where
  tables : cfg.tb = Gen.parserTables
  num_ok : ∀ s v, cfg.num s = some (.int v) → 0 ≤ v ∧ v < 9223372036854775808
  float_ok : ∀ s b, cfg.num s = some (.float b) → floatLit b = true

theorem ImageSetting.hyp {cfg : Cfg} (h : ImageSetting cfg) : ImgHyp cfg :=
  ⟨h.num_ok, h.float_ok, by rw [h.tables]; exact builtin_arities⟩

/-- **`Setting ∧ ImageSetting` hold for the real integer conversion.**  `guardedNum Gen.numCfg pf` is the
    lexer model's `parseNumber` (strconv.ParseInt behind the classification chain regenerated from parser.go) on
    the texts a Number token can have (first rune a digit or `.`: what the lexer produces; other texts, which
    no lexer output contains, are refused), integers printed in decimal.  The float side stays a parameter:
    `pf` (strconv.ParseFloat) yields only literal-denotable bit patterns, and the printed float `sf b` reads back. -/
theorem lexnum_setting (pf : String → Option UInt64) (sf : UInt64 → String) (bad : String → Bool)
    (hpf : ∀ text b, pf text = some b → floatLit b = true)
    (hfloat : ∀ b, floatLit b = true → guardedNum Gen.numCfg pf (sf b) = some (.float b)) :
    let cfg : Cfg := { tb := Gen.parserTables, num := guardedNum Gen.numCfg pf, badRegex := bad }
    let sh : NumShow := { showInt := fun n => C12.decimalSpelling n [], showFloat := sf }
    Setting cfg sh ∧ ImageSetting cfg := by
  intro cfg sh
  refine ⟨⟨rfl, ?_, hfloat⟩, ⟨rfl, ?_, ?_⟩⟩
  · intro n hn
    show guardedNum Gen.numCfg pf (C12.decimalSpelling n []) = some (.int n)
    have hne := Lex.digitsOf_ne_nil 10 n
    have hlt := Lex.digitsOf_lt 10 (by decide) n
    have htl : (C12.decimalSpelling n []).toList = (Lex.digitsOf 10 n).map Lex.decChar := by
      simp [C12.decimalSpelling, withSeps_nil]
    unfold guardedNum
    rw [htl]
    cases hd : Lex.digitsOf 10 n with
    | nil => exact absurd hd hne
    | cons d ds =>
      simp only [List.map_cons]
      have hdig := Lex.decChar_digit d (hlt d (by rw [hd]; simp))
      rw [if_pos (Or.inl hdig)]
      unfold numVia
      rw [C12.decimal_roundtrip_code n hn []]
  · intro s v h
    exact guardedNum_int_range Gen.numCfg pf s v h
  · intro s b h
    obtain ⟨text, ht⟩ := guardedNum_float Gen.numCfg pf s b h
    exact hpf text b ht

/-- **The image of the parser is canonical**: whatever tree the parser model returns — for any fuel and any
    token list whose EOF tokens do not carry the value `?.` (the lexer's EOF has the empty value) — satisfies
    `canon`: every operator is in the tables, `matches` carries a compiled pattern iff its right operand is a
    string literal, closures and `#` occur only where the grammar puts them, pair nodes exactly inside map
    literals with the map's location, a `NilSafe` identifier only directly before `?.`, no types attached.
    Proof: induction over the fuel with one invariant per parser function (`CanAt`). -/
theorem parse_canonical {cfg : Cfg} (hs : ImageSetting cfg) (f : Nat) (ts : List Token) (hE : EofPlain ts)
    (t : Node) (h : parseFuel cfg f ts = .ok t) : canon cfg 0 t = true :=
  parseFuel_canonical cfg hs.hyp f ts hE t h

theorem parse_canonical_total {cfg : Cfg} (hs : ImageSetting cfg) (ts : List Token) (hE : EofPlain ts)
    (t : Node) (h : parse cfg ts = .ok t) : canon cfg 0 t = true := by
  unfold parse at h
  cases hp : parseFuel cfg (fuelFor ts) ts with
  | ok n => rw [hp] at h; cases h; exact parse_canonical hs _ ts hE t hp
  | error e => rw [hp] at h; cases h
  | outOfFuel => rw [hp] at h; cases h

/-- **Soundness of acceptance**: every accepted token list denotes the tree that *every* printing of its
    result denotes — `ts` and `print pc t` (for every choice `pc` of redundant parentheses) parse to the same
    tree `t`.  With `parse_print` (every printing of a canonical tree is accepted) and `parse_fuel_sufficient`
    (everything else is rejected with an error) this characterises the accepted language as the token lists
    that parse like the printings of canonical trees; together with `print_injective` distinct canonical trees
    never share a text. -/
theorem parse_sound {cfg : Cfg} {sh : NumShow} (hs : Setting cfg sh) (hi : ImageSetting cfg) (ts : List Token)
    (hE : EofPlain ts) (t : Node) (h : parse cfg ts = .ok t) (pc : ParenChoice) (l : Loc) :
    parse cfg (printEof cfg sh pc l t) = parse cfg ts := by
  rw [h]
  exact parse_print_total hs t (parse_canonical_total hi ts hE t h) pc l

/-- two canonical trees with a common printing are equal -/
theorem print_injective {cfg : Cfg} {sh : NumShow} (hs : Setting cfg sh) (t t' : Node)
    (hc : canon cfg 0 t = true) (hc' : canon cfg 0 t' = true) (pc pc' : ParenChoice) (l : Loc)
    (h : printEof cfg sh pc l t = printEof cfg sh pc' l t') : t = t' := by
  have h1 := parse_print_total hs t hc pc l
  have h2 := parse_print_total hs t' hc' pc' l
  rw [h, h2] at h1
  cases h1; rfl

/-! ### An accepted token list *is* a printing of its tree

`eraseText` (Proofs/ParserEraseDefs): the text of a token list up to the spellings the grammar treats alike —
parentheses and `#` dropped (`.x` is `#.x`), `?.` read as `.` (a plain link after `?.` is nil-safe anyway),
token kinds forgotten (`{a: 1}` is `{"a": 1}`).  `altFree`: no `?:`, no trailing comma.  `numbersPlain`:
number tokens spelled the way the printer spells their value. -/

theorem tables_no_hash : EraHyp { tb := Gen.parserTables, num := fun _ => none } :=
  ⟨by decide +kernel, by decide +kernel⟩

/-- **The accepted language is the set of printings.**  If the parser accepts `ts0 ++ [EOF]` (its only EOF
    token) with tree `t`, and `ts0` uses neither `?:`, a trailing comma nor an unusual number spelling, then the
    token list is the printing of `t` — for every choice of redundant parentheses — up to `eraseText`.  With
    `parse_print` (every printing of a canonical tree is accepted, with that tree) and `parse_canonical` this
    characterises acceptance exactly: the accepted token lists are the printings of canonical trees, up to
    parentheses and the listed alternative spellings; everything else is rejected with an error
    (`parse_fuel_sufficient`). -/
theorem parse_erase {cfg : Cfg} {sh : NumShow} (hi : ImageSetting cfg) (ts0 : List Token) (t : Node)
    (h0 : noEof ts0) (h : parse cfg (ts0 ++ [eofTok]) = .ok t)
    (ha : altFree ts0 = true) (hn : numbersPlain cfg sh ts0) (pc : ParenChoice) :
    eraseText (ts0 ++ [eofTok]) = eraseText (printEof cfg sh pc {} t) := by
  have hy : EraHyp cfg := by
    have := tables_no_hash
    exact ⟨by rw [hi.tables]; exact this.bin_hash, by rw [hi.tables]; exact this.un_hash⟩
  unfold parse at h
  cases hp : parseFuel cfg (fuelFor (ts0 ++ [eofTok])) (ts0 ++ [eofTok]) with
  | ok n => rw [hp] at h; cases h; exact parseFuel_erase cfg sh hy hi.hyp _ ts0 t h0 hp ha hn pc
  | error e => rw [hp] at h; cases h
  | outOfFuel => rw [hp] at h; cases h

/-! ### White space never changes the tree (text level)

The theorems above are about token lists.  Composed with the lexer model of C12 (`Lex.lex`, with the tables
`Gen.lexTables` regenerated from the lexer source and any ASCII-exact classification `cc` of runes): -/

/-- **Locations do not matter to the parser**: token lists with the same kinds and values are accepted together
    and give trees that differ only in locations (`Node.eraseLoc`). -/
theorem parse_locations_irrelevant (cfg : Cfg) {ts ts' : List Token} (h : noLocs ts = noLocs ts') {t : Node}
    (ht : parse cfg ts = .ok t) : ∃ t', parse cfg ts' = .ok t' ∧ t'.eraseLoc = t.eraseLoc :=
  parse_same_text cfg h ht

/-- **whitespace_invariance.**  Print a canonical tree `t` with any redundant parentheses; write the `i`-th token
    in its canonical spelling `tokRaw` (identifiers, keywords, operators and brackets as they are, decimal
    integers, string literals in double quotes) after the white space `gaps[i]`, and `trail` at the end —
    any runs of `IsSpace` runes, including none, as long as neighbouring tokens do not fuse (`NoFuse`: after an
    identifier, keyword or number no alphanumeric rune (nor `.` after a number); after `?` no `.`; after `?.` no
    `?`/`.`; after `.` no `.`/digit; after `<`, `>`, `!`, `*` none of `& | = *`; after `not` not blanks-`in`-end;
    after `not in` a rune of `cc.wordEnd` or the end — with the fixed shape of acceptWord
    (`cc.notInAnySpace = true`, `word_end_fixed`) that is the rule of every other keyword: no alphanumeric rune;
    with the old shape (`word_end_old`) it is "U+0020 or the end", the deviation recorded as known finding
    `c11:whitespace:not-in`, see `not_in_whitespace_witness`).  Then `lex` yields the printed tokens up to locations and `parse` yields
    `t` up to locations.  Hypothesis `hprint`: every printed token has a proved spelling (`Printable`: every operator, bracket and
    string; numbers whose text is digits, optional fraction, optional exponent; identifiers that do not collide with
    keywords — a printed member name such as `a.in` is an Identifier token that the lexer would read as an operator). -/
theorem whitespace_invariance {cfg : Cfg} {sh : NumShow} (hs : Setting cfg sh) (t : Node) (hc : canon cfg 0 t = true)
    (pc : ParenChoice) (cc : Lex.CharClass) (hcc : cc.AsciiExact) (gaps : List (List Char)) (trail : List Char)
    (hlen : (pr cfg sh pc [] 0 (eofAt {}) t).length = gaps.length)
    (hprint : ∀ x ∈ pr cfg sh pc [] 0 (eofAt {}) t, Printable cc x)
    (hsep : NoFuse cc (pr cfg sh pc [] 0 (eofAt {}) t) gaps trail) :
    ∃ toks t', Lex.lex cc Gen.lexTables
        (String.ofList (Lex.renderItems (layoutItems (pr cfg sh pc [] 0 (eofAt {}) t) gaps) trail)) = .ok toks ∧
      noLocs toks = noLocs (printEof cfg sh pc {} t) ∧
      parse cfg toks = .ok t' ∧ t'.eraseLoc = t.eraseLoc := by
  rw [C12.tables_pinned]
  exact lex_parse_text cfg sh hs.hyp t hc pc cc hcc gaps trail hlen hprint hsep

/-- **The syntactic layout rule** (the harness's `needSpace`, as a theorem): it is enough to look at each pair of
    neighbouring tokens.  `SepOK`: every gap is white space; where the gap between two tokens is EMPTY the
    spelling of the second must not continue the first (`tokOk` of the first on the spelling of the second:
    identifier/keyword/number before an alphanumeric rune, number before `.`, `?` before `.`, `?.` before
    `?`/`.`, `.` before `.`/digit, one of `< > ! *` before one of `& | = *`); `not in` is followed by a rune of
    `cc.wordEnd` (fixed acceptWord: anything but an alphanumeric rune; old acceptWord: U+0020) or ends the text; `not` is not directly followed by the token `in`.  Any non-empty gap separates (for a
    classification in which no white space is alphanumeric, as in Go's `unicode` tables). -/
theorem layout_rule (cc : Lex.CharClass) (hcc : cc.AsciiExact) (hsw : SpaceNotWord cc)
    (ts : List Token) (gaps : List (List Char)) (trail : List Char) (hlen : ts.length = gaps.length)
    (hprint : ∀ x ∈ ts, Printable cc x) (hsep : SepOK cc ts gaps trail) : NoFuse cc ts gaps trail :=
  noFuse_of_sepOK hcc hsw ts gaps trail hlen hprint hsep

/-- `whitespace_invariance` with the syntactic rule -/
theorem whitespace_invariance_rule {cfg : Cfg} {sh : NumShow} (hs : Setting cfg sh) (t : Node)
    (hc : canon cfg 0 t = true) (pc : ParenChoice) (cc : Lex.CharClass) (hcc : cc.AsciiExact)
    (hsw : SpaceNotWord cc) (gaps : List (List Char)) (trail : List Char)
    (hlen : (pr cfg sh pc [] 0 (eofAt {}) t).length = gaps.length)
    (hprint : ∀ x ∈ pr cfg sh pc [] 0 (eofAt {}) t, Printable cc x)
    (hsep : SepOK cc (pr cfg sh pc [] 0 (eofAt {}) t) gaps trail) :
    ∃ toks t', Lex.lex cc Gen.lexTables
        (String.ofList (Lex.renderItems (layoutItems (pr cfg sh pc [] 0 (eofAt {}) t) gaps) trail)) = .ok toks ∧
      noLocs toks = noLocs (printEof cfg sh pc {} t) ∧
      parse cfg toks = .ok t' ∧ t'.eraseLoc = t.eraseLoc :=
  whitespace_invariance hs t hc pc cc hcc gaps trail hlen hprint (layout_rule cc hcc hsw _ gaps trail hlen hprint hsep)

/-! #### … at the classification of runes regenerated from Go's `unicode` tables -/

/-- the classification dumped from the Go toolchain agrees with the ASCII tables below U+0080 -/
theorem go_charclass_ascii_exact : Gen.goCharClass.AsciiExact :=
  Lex.CharClass.asciiExact_with (Lex.CharClass.ofRanges_asciiExact _ _ _) _

private theorem go_spaces_enum (n : Nat) (h : Lex.CharClass.inRanges Gen.unicodeSpace n = true) :
    n ∈ [9,10,11,12,13,32,133,160,5760,8192,8193,8194,8195,8196,8197,8198,8199,8200,8201,8202,8232,8233,8239,8287,12288] := by
  simp only [Lex.CharClass.inRanges, Gen.unicodeSpace, List.any_cons, List.any_nil, Bool.or_false, Bool.or_eq_true,
    Bool.and_eq_true, decide_eq_true_eq, beq_iff_eq] at h
  simp only [List.mem_cons, List.mem_nil_iff, or_false]
  omega

/-- no rune that `unicode.IsSpace` accepts is a letter, a digit, `_` or `$` -/
theorem go_charclass_space_not_word : SpaceNotWord Gen.goCharClass := by
  intro x hx
  by_cases h : x.toNat < 128
  · have hs := go_charclass_ascii_exact.space x h
    rw [hs] at hx
    unfold Lex.CharClass.isAlphaNumeric Lex.CharClass.isAlphabetic
    rw [go_charclass_ascii_exact.letter x h, go_charclass_ascii_exact.digit x h]
    have hb : ∀ n : Fin 128, Lex.CharClass.asciiSpace (Char.ofNat n.val) = true →
      ((Char.ofNat n.val == '_' || Char.ofNat n.val == '$' || Lex.CharClass.asciiLetter (Char.ofNat n.val)) ||
        Lex.CharClass.asciiDigit (Char.ofNat n.val)) = false := by decide +kernel
    have := hb ⟨x.toNat, h⟩
    simp only [Char.ofNat_toNat] at this
    exact this hx
  · have hsp : Lex.CharClass.inRanges Gen.unicodeSpace x.toNat = true := by
      simpa [Gen.goCharClass, Lex.CharClass.ofRanges, h] using hx
    have hm := go_spaces_enum _ hsp
    have hall : ∀ n ∈ [9,10,11,12,13,32,133,160,5760,8192,8193,8194,8195,8196,8197,8198,8199,8200,8201,8202,8232,8233,8239,8287,12288],
        128 ≤ n → (n ≠ 95 ∧ n ≠ 36 ∧ Lex.CharClass.inRanges Gen.unicodeLetter n = false ∧
          Lex.CharClass.inRanges Gen.unicodeDigit n = false) := by
      decide +kernel
    obtain ⟨h1, h2, h3, h4⟩ := hall _ hm (by omega)
    have e1 : (x == '_') = false := by
      apply beq_false_of_ne; intro he; apply h1; rw [he]; rfl
    have e2 : (x == '$') = false := by
      apply beq_false_of_ne; intro he; apply h2; rw [he]; rfl
    simp [Lex.CharClass.isAlphaNumeric, Lex.CharClass.isAlphabetic, Gen.goCharClass, Lex.CharClass.ofRanges, h, h3, h4, e1, e2]

/-- **whitespace_invariance at the generated tables**: the rule theorem for the rune classification dumped from
    Go's `unicode` package (`Gen.goCharClass`), the lexer tables regenerated from the lexer source
    (`Gen.lexTables`), and the parser configuration of `lexnum_setting` (tables from parser.go, integers through
    the lexer model's parseNumber with the chain regenerated from parser.go; strconv.ParseFloat/FormatFloat a
    parameter `pf`/`sf`). -/
theorem whitespace_invariance_go (pf : String → Option UInt64) (sf : UInt64 → String) (bad : String → Bool)
    (hpf : ∀ text b, pf text = some b → floatLit b = true)
    (hfloat : ∀ b, floatLit b = true → guardedNum Gen.numCfg pf (sf b) = some (.float b))
    (t : Node) (pc : ParenChoice) (gaps : List (List Char)) (trail : List Char) :
    let cfg : Cfg := { tb := Gen.parserTables, num := guardedNum Gen.numCfg pf, badRegex := bad }
    let sh : NumShow := { showInt := fun n => C12.decimalSpelling n [], showFloat := sf }
    canon cfg 0 t = true →
    (pr cfg sh pc [] 0 (eofAt {}) t).length = gaps.length →
    (∀ x ∈ pr cfg sh pc [] 0 (eofAt {}) t, Printable Gen.goCharClass x) →
    SepOK Gen.goCharClass (pr cfg sh pc [] 0 (eofAt {}) t) gaps trail →
    ∃ toks t', Lex.lex Gen.goCharClass Gen.lexTables
        (String.ofList (Lex.renderItems (layoutItems (pr cfg sh pc [] 0 (eofAt {}) t) gaps) trail)) = .ok toks ∧
      noLocs toks = noLocs (printEof cfg sh pc {} t) ∧
      parse cfg toks = .ok t' ∧ t'.eraseLoc = t.eraseLoc := by
  intro cfg sh hc hlen hprint hsep
  exact whitespace_invariance_rule (lexnum_setting pf sf bad hpf hfloat).1 t hc pc Gen.goCharClass
    go_charclass_ascii_exact go_charclass_space_not_word gaps trail hlen hprint hsep

/-- **Number spellings**: digits (with `_` separators), an optional fraction and an optional exponent with at
    least one digit — decimal integers and every decimal/exponent float spelling — are read back by the lexer
    whatever follows them that is neither alphanumeric nor `.`.  This makes float tokens `Printable` whenever
    the printer's `showFloat` produces such a spelling (as strconv.FormatFloat does for finite values, cf. C12). -/
theorem float_spelling (cc : Lex.CharClass) (hcc : cc.AsciiExact) (p : Lex.FloatParts) (hp : p.WF)
    (hx : p.ExpDigits) : Lex.Spells cc .number (String.ofList p.text) p.text (Lex.IntFollow cc) :=
  Lex.spells_float hcc p hp hx

/-! ### Non-vacuity and the witness of the one deviation found -/

/-- a concrete setting: decimal integers, one float spelling -/
def demoCfg : Cfg :=
  { tb := Gen.parserTables,
    num := fun s => if s == "1.5" then some (.float 4609434218613702656) else s.toNat?.map (fun n => .int n) }

private def i (n : String) : Node := .ident {} n false

/-- `a * (not b) * c ? -x.y[1:] : f(len(zs), [1, {k: 2}])?.m()` as a tree -/
def demoTree : Node :=
  .cond {}
    (.binary {} "*" (.binary {} "*" (i "a") (.unary {} "not" (i "b"))) (i "c"))
    (.unary {} "-" (.slice {} (.prop {} (i "x") "y" false) (some (.int {} 1)) none))
    (.method {} (.func {} "f" [.builtin {} "len" [i "zs"],
        .array {} [.int {} 1, .map {} [.pair {} (.str {} "k") (.int {} 2)]]] false) "m" [] true)

example : canon demoCfg 0 demoTree = true := by decide +kernel

/-- the minimal printing inserts exactly the parentheses around `not b` -/
example : (print demoCfg ⟨toString, fun _ => "1.5"⟩ (fun _ => 0)
      (.binary {} "*" (.binary {} "*" (i "a") (.unary {} "not" (i "b"))) (i "c"))).map (·.value) =
    ["a", "*", "(", "not", "b", ")", "*", "c"] := by decide +kernel

/-- **Witness of the deviation** (known finding `c11:paren-ident-nilsafe`): redundant parentheses around
    an identifier that is followed by `?.` change the tree — the identifier loses `NilSafe`.  This is why
    `print` never parenthesises a nil-safe identifier and `canon` ties the flag to the following `?.`. -/
def identFlagOf : Outcome → Option (String × Bool × String × Bool)
  | .ok (.prop _ (.ident _ n ns) p s) => some (n, ns, p, s)
  | _ => none

theorem paren_ident_nilsafe_witness :
    identFlagOf (parseFuel demoCfg 12
      [tok .identifier "a", tok .operator "?.", tok .identifier "b", eofTok]) = some ("a", true, "b", true) ∧
    identFlagOf (parseFuel demoCfg 12
      [lparen, tok .identifier "a", rparen, tok .operator "?.", tok .identifier "b", eofTok]) =
        some ("a", false, "b", true) := by
  decide +kernel

/-! #### `Setting ∧ ImageSetting` is inhabited by a non-constant number conversion

An artificial but total pair: the integer `n` is spelled as `n` letters `i`, the float with bit pattern `b` as
`f` followed by `b` letters `i`; `unaryNum` reads both back and nothing else.  (The real conversions are Go's
strconv functions: integers are covered by `parse_print_lexnum`, floats stay a parameter.) -/

def unaryShow : NumShow :=
  { showInt := fun n => String.ofList (List.replicate n 'i'),
    showFloat := fun b => String.ofList ('f' :: List.replicate b.toNat 'i') }

def unaryNum (s : String) : Option NumVal :=
  if s.toList.head? = some 'f' then
    (if s.toList.tail.all (· == 'i') && floatLit (UInt64.ofNat s.toList.tail.length) &&
        decide (s.toList.tail.length < 2 ^ 64)
     then some (.float (UInt64.ofNat s.toList.tail.length)) else none)
  else if s.toList.all (· == 'i') && decide (s.toList.length < 2 ^ 63) then some (.int s.toList.length) else none

def unaryCfg : Cfg := { tb := Gen.parserTables, num := unaryNum }

private theorem all_replicate_i (n : Nat) : (List.replicate n 'i').all (· == 'i') = true := by
  induction n with
  | zero => rfl
  | succ n ih => simp [List.replicate_succ, ih]

private theorem head_replicate_i (n : Nat) : (List.replicate n 'i').head? ≠ some 'f' := by
  cases n with
  | zero => simp
  | succ n => simp [List.replicate_succ]

theorem unary_setting : Setting unaryCfg unaryShow ∧ ImageSetting unaryCfg := by
  refine ⟨⟨rfl, ?_, ?_⟩, ⟨rfl, ?_, ?_⟩⟩
  · intro n hn
    show unaryNum (String.ofList (List.replicate n 'i')) = some (.int n)
    unfold unaryNum
    simp only [String.toList_ofList, if_neg (head_replicate_i n), all_replicate_i, List.length_replicate,
      Bool.true_and, decide_eq_true_eq]
    rw [if_pos hn]
  · intro b hb
    show unaryNum (String.ofList ('f' :: List.replicate b.toNat 'i')) = some (.float b)
    unfold unaryNum
    have hlt : b.toNat < 2 ^ 64 := b.toNat_lt
    simp only [String.toList_ofList, List.head?_cons, if_true, List.tail_cons, all_replicate_i,
      List.length_replicate, UInt64.ofNat_toNat, hb, Bool.true_and, decide_eq_true_eq]
    rw [if_pos hlt]
  · intro s v h
    unfold unaryCfg unaryNum at h
    simp only at h
    split at h
    · split at h <;> cases h
    · split at h
      · next hc =>
        cases h
        simp only [Bool.and_eq_true, decide_eq_true_eq] at hc
        exact ⟨Int.natCast_nonneg _, by have := hc.2; omega⟩
      · cases h
  · intro s b h
    unfold unaryCfg unaryNum at h
    simp only at h
    split at h
    · split at h
      · next hc =>
        cases h
        simp only [Bool.and_eq_true] at hc
        exact hc.1.2
      · cases h
    · split at h <;> cases h

/-- the conversion is not constant: `3` and `1.5` print differently and read back -/
example : unaryShow.showInt 3 = "iii" ∧ unaryShow.showFloat 2 = "fii" ∧
    unaryShow.showFloat 2 ≠ unaryShow.showFloat 3 ∧ (unaryNum "fii").isSome = true ∧ (unaryNum "fx").isSome = false := by
  decide +kernel

/-! #### a concrete instance of `whitespace_invariance`: `a?.b+not<TAB>c<NEWLINE>` -/

def wsTree : Node :=
  .binary {} "+" (.prop {} (.ident {} "a" true) "b" true) (.unary {} "not" (.ident {} "c" false))

def wsGaps : List (List Char) := [[], [], [], [], [], ['\t']]

private theorem wsTokens : pr unaryCfg unaryShow (fun _ => 0) [] 0 (eofAt {}) wsTree =
    [tok .identifier "a", tok .operator "?.", tok .identifier "b", tok .operator "+", tok .operator "not",
     tok .identifier "c"] := by decide +kernel

example : String.ofList (Lex.renderItems (layoutItems (pr unaryCfg unaryShow (fun _ => 0) [] 0 (eofAt {}) wsTree)
    wsGaps) ['\n']) = "a?.b+not\tc\n" := by decide +kernel

private theorem printable_ident1 (c : Char) (h : Lex.CharClass.asciiLetter c = true)
    (hk : Lex.LexTables.std.kwOps.contains (String.ofList [c]) = false) :
    Printable Lex.CharClass.ascii (tok .identifier (String.ofList [c])) := by
  refine ⟨c, [], by simp [tok], Lex.idStart_ascii (Lex.CharClass.ofRanges_asciiExact [] [] []) (Or.inl h),
    by simp, ?_, hk⟩
  intro he
  have := congrArg String.length he
  simp [tok] at this
  exact absurd this (by decide)

/-- the hypotheses of `whitespace_invariance` are satisfiable with tight and unusual white space -/
example : ∃ toks t', Lex.lex Lex.CharClass.ascii Gen.lexTables "a?.b+not\tc\n" = .ok toks ∧
    parse unaryCfg toks = .ok t' ∧ t'.eraseLoc = wsTree.eraseLoc := by
  have hcc := Lex.CharClass.ofRanges_asciiExact [] [] []
  have h := whitespace_invariance unary_setting.1 wsTree (by decide +kernel) (fun _ => 0) Lex.CharClass.ascii hcc
    wsGaps ['\n'] (by rw [wsTokens]; rfl)
    (by
      rw [wsTokens]
      intro x hx
      simp only [List.mem_cons, List.mem_nil_iff, or_false] at hx
      rcases hx with rfl | rfl | rfl | rfl | rfl | rfl
      · exact printable_ident1 'a' (by decide) (by decide)
      · show "?." ∈ opValues; decide
      · exact printable_ident1 'b' (by decide) (by decide)
      · show "+" ∈ opValues; decide
      · show "not" ∈ opValues; decide
      · exact printable_ident1 'c' (by decide) (by decide))
    (by
      rw [wsTokens]
      refine ⟨by simp, ?_, by simp, ?_, by simp, ?_, by simp, ?_, by simp, ?_, (by intro c hc'; simp [wsGaps] at hc'; subst hc'; decide), ?_, ?_⟩
      · -- `a` then `?.`
        intro x hx; simp [layoutItems, Lex.renderItems, tokRaw, tok] at hx; subst hx; decide
      · -- `?.` then `b`
        show ∀ c, _ → _
        intro c hc'; simp [layoutItems, Lex.renderItems, tokRaw, tok, wsGaps] at hc'; subst hc'; decide
      · intro x hx; simp [layoutItems, Lex.renderItems, tokRaw, tok, wsGaps] at hx; subst hx; decide
      · trivial
      · -- `not` then TAB `c`
        show Lex.NotFollow _ _
        refine ⟨?_, ?_⟩
        · intro x hx; simp [layoutItems, Lex.renderItems, tokRaw, tok, wsGaps] at hx; subst hx; decide
        · rintro ⟨mid, r', hm, he, _⟩
          simp [layoutItems, Lex.renderItems, tokRaw, tok, wsGaps] at he
          cases mid with
          | nil => simp at he
          | cons c cs =>
            simp at he
            have := hm c (by simp)
            rw [← he.1] at this
            exact absurd this (by decide)
      · intro x hx; simp [layoutItems, Lex.renderItems, tokRaw, tok, wsGaps] at hx; subst hx; decide
      · intro c hc'; simp at hc'; subst hc'; decide)
  obtain ⟨toks, t', h1, _, h3, h4⟩ := h
  refine ⟨toks, t', ?_, h3, h4⟩
  have : String.ofList (Lex.renderItems (layoutItems (pr unaryCfg unaryShow (fun _ => 0) [] 0 (eofAt {}) wsTree)
      wsGaps) ['\n']) = "a?.b+not\tc\n" := by decide +kernel
  rw [this] at h1
  exact h1

/-! #### `whitespace_invariance_go` on a text with a number, a string, a no-break space and an ideographic space -/

def goTree : Node := .binary {} "+" (.int {} 42) (.str {} "s")

/-- `42<U+00A0>+<U+3000>"\U00000073"<U+2028>` lexes (Go's rune classes, generated tables) and parses to `42 + "s"`
    up to locations — whatever strconv.ParseFloat/FormatFloat (`pf`, `sf`) are, as long as they satisfy the two
    float hypotheses of `lexnum_setting`. -/
theorem whitespace_invariance_go_instance (pf : String → Option UInt64) (sf : UInt64 → String)
    (hpf : ∀ text b, pf text = some b → floatLit b = true)
    (hfloat : ∀ b, floatLit b = true → guardedNum Gen.numCfg pf (sf b) = some (.float b)) :
    ∃ toks t', Lex.lex Gen.goCharClass Gen.lexTables "42\u00a0+\u3000\"\\U00000073\"\u2028" = .ok toks ∧
      parse { tb := Gen.parserTables, num := guardedNum Gen.numCfg pf, badRegex := fun _ => false } toks = .ok t' ∧
      t'.eraseLoc = goTree.eraseLoc := by
  have htoks : pr { tb := Gen.parserTables, num := guardedNum Gen.numCfg pf, badRegex := fun _ => false }
      { showInt := fun n => C12.decimalSpelling n [], showFloat := sf } (fun _ => 0) [] 0 (eofAt {}) goTree =
      [tok .number "42", tok .operator "+", tok .string "s"] := by
    have h42 : C12.decimalSpelling 42 [] = "42" := by decide +kernel
    simp [pr, parenthesize, needParens, body, goTree, Gen.parserTables, Gen.binaryOperators, lprec, rprec, h42, tok,
      List.lookup]
  have h := whitespace_invariance_go pf sf (fun _ => false) hpf hfloat goTree (fun _ => 0)
    [[], ['\u00a0'], ['\u3000']] ['\u2028'] (by simp [canon, goTree, inv, Gen.parserTables, Gen.binaryOperators])
    (by rw [htoks]; rfl)
    (by
      rw [htoks]
      intro x hx
      simp only [List.mem_cons, List.mem_nil_iff, or_false] at hx
      rcases hx with rfl | rfl | rfl
      · refine ⟨⟨'4', ['2'], none, none⟩, ⟨(by decide), (by decide), (by intro fs h; cases h),
          (by intro e sg xs h; cases h)⟩, (by intro e sg xs h; cases h), (by decide)⟩
      · show "+" ∈ opValues; decide
      · trivial)
    (by
      rw [htoks]
      have sp : ∀ l : List Char, l.all Gen.goCharClass.isSpace = true → ∀ c ∈ l, Gen.goCharClass.isSpace c = true :=
        fun l h c hc => List.all_eq_true.mp h c hc
      refine ⟨sp _ (by decide +kernel), ?_, sp _ (by decide +kernel), ?_, sp _ (by decide +kernel), ?_,
        sp _ (by decide +kernel)⟩
      · exact ⟨fun h => absurd h.1 (by decide), fun h => absurd h.1 (by decide), fun _ _ hg => absurd hg (by decide)⟩
      · exact ⟨fun h => absurd h.2 (by decide), fun h => absurd h.2 (by decide), fun _ _ hg => absurd hg (by decide)⟩
      · intro h; exact absurd h.1 (by decide))
  obtain ⟨toks, t', h1, _, h3, h4⟩ := h
  refine ⟨toks, t', ?_, h3, h4⟩
  rw [htoks] at h1
  have htext : String.ofList (Lex.renderItems (layoutItems [tok .number "42", tok .operator "+", tok .string "s"]
      [[], ['\u00a0'], ['\u3000']]) ['\u2028']) = "42\u00a0+\u3000\"\\U00000073\"\u2028" := by decide +kernel
  rw [htext] at h1
  exact h1

/-! #### `not in` and white space (finding `c11:whitespace:not-in`): both shapes of lexer.acceptWord

The lexer model takes the shape of `acceptWord` from the source (`Gen.acceptWordAnySpace`, read by the translator,
stored in `Gen.goCharClass.notInAnySpace`).  All the theorems above hold for both shapes; `tokOk`/`PairOK` phrase
the `not in` conditions through `cc.wordBlank` / `cc.wordEnd`, characterised below. -/

/-- the generated classification carries the shape of acceptWord the translator found in the source -/
theorem go_charclass_accept_word : Gen.goCharClass.notInAnySpace = Gen.acceptWordAnySpace := rfl

/-- old shape: `not in` must be followed by U+0020 or the end of the text, and only U+0020 is skipped between
    `not` and `in` -/
theorem word_end_old (cc : Lex.CharClass) (h : cc.notInAnySpace = false) (rest : List Char) :
    (Lex.WordEnd cc rest ↔ ∀ x, rest.head? = some x → x = ' ') ∧ (∀ c, cc.wordBlank c = true ↔ c = ' ') := by
  simp [Lex.WordEnd, Lex.CharClass.wordEnd, Lex.CharClass.wordBlank, h]

/-- fixed shape: `not in` must not be followed by an alphanumeric rune (as every other keyword), and every white
    space rune is skipped between `not` and `in` -/
theorem word_end_fixed (cc : Lex.CharClass) (h : cc.notInAnySpace = true) (rest : List Char) :
    (Lex.WordEnd cc rest ↔ ∀ x, rest.head? = some x → cc.isAlphaNumeric x = false) ∧
    (∀ c, cc.wordBlank c = true ↔ cc.isSpace c = true) := by
  simp [Lex.WordEnd, Lex.CharClass.wordEnd, Lex.CharClass.wordBlank, h]

/-- fixed shape, the lexer level in general: `not`, ANY non-empty run of white space, `in`, then anything but an
    alphanumeric rune, is read back as the one operator token `not in` located at `not` (`Spells`: from a fresh
    lexer state `root` yields exactly that token and stops right after `in`). -/
theorem not_in_any_space (cc : Lex.CharClass) (hcc : cc.AsciiExact) (hsw : SpaceNotWord cc)
    (h : cc.notInAnySpace = true) (mid : List Char) (hne : mid ≠ []) (hm : ∀ c ∈ mid, cc.isSpace c = true) :
    Lex.Spells cc .operator "not in" ("not".toList ++ (mid ++ "in".toList))
      (fun rest => ∀ x, rest.head? = some x → cc.isAlphaNumeric x = false) := by
  have := Lex.spells_notin hcc mid hne (fun c hc => ((word_end_fixed cc h []).2 c).mpr (hm c hc))
    (fun c hc => hsw c (hm c hc))
  exact ⟨this.1, fun s L rest hf hok => this.2 s L rest hf (((word_end_fixed cc h rest).1).mpr hok)⟩

/-- the kinds and values the lexer model produces under the given shape of acceptWord, and whether the parser
    model accepts them -/
def lexParse (anySpace : Bool) (src : String) : Option (List (TokKind × String) × Bool) :=
  match Lex.lex { Lex.CharClass.ascii with notInAnySpace := anySpace } Gen.lexTables src with
  | .ok toks => some (toks.map (fun t => (t.kind, t.value)),
      match parse demoCfg toks with | .ok _ => true | .error _ => false)
  | .error _ => none

/-- **Witness** (the OLD shape of acceptWord, `notInAnySpace = false`): white space other than U+0020 inside or
    after `not in` changes the outcome.  `a not in b` is one operator token `not in` and parses; with a TAB or a
    line feed between the words the lexer yields the two operators `not`, `in` and the parser rejects; with a line
    feed (or `[`) right after `in` likewise.  This is finding `c11:whitespace:not-in`; proposed patch
    `proposed/c11-not-in.patch`. -/
theorem not_in_whitespace_witness :
    lexParse false "a not in b" =
      some ([(.identifier, "a"), (.operator, "not in"), (.identifier, "b"), (.eof, "")], true) ∧
    lexParse false "a not\tin b" =
      some ([(.identifier, "a"), (.operator, "not"), (.operator, "in"), (.identifier, "b"), (.eof, "")], false) ∧
    lexParse false "a not\nin b" =
      some ([(.identifier, "a"), (.operator, "not"), (.operator, "in"), (.identifier, "b"), (.eof, "")], false) ∧
    lexParse false "a not in\nb" =
      some ([(.identifier, "a"), (.operator, "not"), (.operator, "in"), (.identifier, "b"), (.eof, "")], false) ∧
    lexParse false "a not in[b]" =
      some ([(.identifier, "a"), (.operator, "not"), (.operator, "in"), (.bracket, "["), (.identifier, "b"),
        (.bracket, "]"), (.eof, "")], false) := by
  refine ⟨?_, ?_, ?_, ?_, ?_⟩ <;> decide +kernel

/-- the same five texts under the FIXED shape (`notInAnySpace = true`): one operator `not in` each, all accepted;
    and `not inside` still is `not` followed by an identifier -/
theorem not_in_whitespace_fixed :
    lexParse true "a not in b" =
      some ([(.identifier, "a"), (.operator, "not in"), (.identifier, "b"), (.eof, "")], true) ∧
    lexParse true "a not\tin b" =
      some ([(.identifier, "a"), (.operator, "not in"), (.identifier, "b"), (.eof, "")], true) ∧
    lexParse true "a not\nin b" =
      some ([(.identifier, "a"), (.operator, "not in"), (.identifier, "b"), (.eof, "")], true) ∧
    lexParse true "a not in\nb" =
      some ([(.identifier, "a"), (.operator, "not in"), (.identifier, "b"), (.eof, "")], true) ∧
    lexParse true "a not in[b]" =
      some ([(.identifier, "a"), (.operator, "not in"), (.bracket, "["), (.identifier, "b"),
        (.bracket, "]"), (.eof, "")], true) ∧
    lexParse true "not inside" = some ([(.operator, "not"), (.identifier, "inside"), (.eof, "")], true) ∧
    lexParse false "not inside" = some ([(.operator, "not"), (.identifier, "inside"), (.eof, "")], true) := by
  refine ⟨?_, ?_, ?_, ?_, ?_, ?_, ?_⟩ <;> decide +kernel

def identNs : Outcome → Option Bool
  | .ok (.ident _ _ ns) => some ns
  | _ => none

/-- The hypothesis `EofPlain` of `parse_canonical` is needed: an EOF token spelled `?.` (which the lexer never
    produces) marks the identifier before it as nil-safe. -/
theorem eof_plain_needed :
    identNs (parseFuel demoCfg 8 [tok .identifier "a", { kind := .eof, value := "?." }]) = some true := by
  decide +kernel

end ExprModel.C11
