import ExprModel.Proofs.SpecOps
/-
C18 — Collection builtins satisfy their defining identities.

All theorems are about the reference evaluator `Spec.eval` (tied to the real compiler + VM by the
C01 correspondence and by the C18 harness, which runs both sides of every identity on the real code
and through the `speceval` stage).  Closure bodies, collections, environments, contexts and start
states are arbitrary.  Evaluation has effects (call log, allocation counters) and can fail, so every
identity says which observables it preserves:

* `=` between two `SM` computations: same value or error class **and** the same final state (call
  log, memory total, created total) from every start state;
* identities whose one side builds an intermediate array (`filter`, `map`, a run-time range) are
  exact equations up to an explicit allocation charge (`chargeLen`, `chargeRange`), from which the
  equal-value / equal-log corollaries follow when the budget is not reached.
-/
namespace ExprModel.C18
open ExprModel ExprModel.Spec

/-! ### all / none / one -/

/-- `all(xs, {p}) = not any(xs, {not p})`: equal as computations — same value or error class (a
    predicate failing, or returning a non-bool, at element k fails both sides at element k with the
    same class), same call log (both stop at the first falsifying element), same allocation totals. -/
theorem all_eq_not_any_not (c : SCfg) (ctx : Ctx) (m m' mu mc mc' mn : Meta) (op op' : String)
    (hop : isNotOp op) (hop' : isNotOp op') (xs p : Node) :
    eval c ctx (.builtin m "all" [xs, .closure mc p]) =
    eval c ctx (.unary mu op (.builtin m' "any" [xs, .closure mc' (.unary mn op' p)])) := by
  rw [eval_all, eval_not _ _ _ _ hop, eval_any]
  simp only [bind_assoc]
  congr 1; funext coll
  congr 1; funext n
  rw [predAt_closure, predAt_closure, allM_eq_not_anyM_not]
  simp only [bind_assoc, pure_bind]
  have : predAt c ctx coll (.unary mn op' p) = (fun i => do
      let b ← predAt c ctx coll p i
      pure !b) := by
    funext i; exact predAt_not c ctx coll mn op' hop' p i
  rw [this]
  rfl

example : isNotOp "not" ∧ isNotOp "!" := ⟨Or.inl rfl, Or.inr rfl⟩

/-- `none(xs, {p}) = not any(xs, {p})`: equal as computations (value / error class, call log,
    allocation totals). -/
theorem none_eq_not_any (c : SCfg) (ctx : Ctx) (m m' mu : Meta) (op : String) (hop : isNotOp op)
    (xs b : Node) :
    eval c ctx (.builtin m "none" [xs, b]) =
    eval c ctx (.unary mu op (.builtin m' "any" [xs, b])) := by
  rw [eval_none, eval_not _ _ _ _ hop, eval_any]
  simp only [bind_assoc]
  congr 1

/-- `one(xs, {p}) = (count(xs, {p}) == 1)`: equal as computations (value / error class, call log,
    allocation totals), for a literal `1` that denotes the `int` 1 (any annotation except a float or a
    narrower integer kind) and a `count` node not annotated as a string — with the checker's annotation
    (`int` on both) the comparison is the specialised `OpEqualInt`, without annotation the generic one. -/
theorem one_eq_count_one (c : SCfg) (ctx : Ctx) (m m' me m1 : Meta) (xs b : Node)
    (h1 : intConst m1.kd 1 = .int .int 1) (hk : m'.kd ≠ .string) :
    eval c ctx (.builtin m "one" [xs, b]) =
    eval c ctx (.binary me "==" (.builtin m' "count" [xs, b]) (.int m1 1)) := by
  rw [eval_one, eval_eq, eval_count]
  have hlit : eval c ctx (.int m1 1) = pure (.int .int 1) := by rw [eval, h1]
  simp only [bind_assoc, hlit, pure_bind]
  congr 1; funext coll
  congr 1; funext n
  congr 1; funext bs
  split
  · rfl
  · split
    · rename_i h2 h3
      simp [Node.kd, Node.getMeta] at h3
      exact absurd h3.2 hk
    · rw [equalV_int_int]

example : intConst ({ kd := .num .int } : Meta).kd 1 = .int .int 1 ∧ intConst ({} : Meta).kd 1 = .int .int 1 :=
  ⟨by simp [intConst, wrap, Kind.bits, Kind.isSigned], by simp [intConst]⟩

end ExprModel.C18
