import ExprModel.Proofs.SpecOps
import ExprModel.Proofs.SpecCtx
import ExprModel.Proofs.SpecSlice
import ExprModel.Props.C01
/-
C18 — Collection builtins satisfy their defining identities.

The theorems are first proved about the reference evaluator `Spec.eval`, then (last section, "transferred
to the VM") restated about runs of the compiled programs through C01's refinement theorem.  The C18
harness runs both sides of every identity on the real code and through the `speceval` stage.  Closure bodies, collections, environments, contexts and start
states are arbitrary.  Evaluation has effects (call log, allocation counters) and can fail, so every
identity says which observables it preserves:

* `=` between two `SM` computations: same value or error class **and** the same final state (call
  log, memory total, created total) from every start state;
* identities whose one side builds an intermediate array (`filter`, `map`, a run-time range) are
  exact equations up to an explicit allocation charge (`chargeLen`, `chargeRange`), from which the
  equal-value / equal-log corollaries follow when the budget is not reached.
-/
namespace ExprModel.C18
open ExprModel ExprModel.Spec

/-! ### all / none / one -/

/-- `all(xs, {p}) = not any(xs, {not p})`: equal as computations — same value or error class (a
    predicate failing, or returning a non-bool, at element k fails both sides at element k with the
    same class), same call log (both stop at the first falsifying element), same allocation totals. -/
theorem all_eq_not_any_not (c : SCfg) (ctx : Ctx) (m m' mu mc mc' mn : Meta) (op op' : String)
    (hop : isNotOp op) (hop' : isNotOp op') (xs p : Node) :
    eval c ctx (.builtin m "all" [xs, .closure mc p]) =
    eval c ctx (.unary mu op (.builtin m' "any" [xs, .closure mc' (.unary mn op' p)])) := by
  rw [eval_all, eval_not _ _ _ _ hop, eval_any]
  simp only [bind_assoc]
  congr 1; funext coll
  congr 1; funext n
  rw [predAt_closure, predAt_closure, allM_eq_not_anyM_not]
  simp only [bind_assoc, pure_bind]
  have : predAt c ctx coll (.unary mn op' p) = (fun i => do
      let b ← predAt c ctx coll p i
      pure !b) := by
    funext i; exact predAt_not c ctx coll mn op' hop' p i
  rw [this]
  rfl

example : isNotOp "not" ∧ isNotOp "!" := ⟨Or.inl rfl, Or.inr rfl⟩

/-- `none(xs, {p}) = not any(xs, {p})`: equal as computations (value / error class, call log,
    allocation totals). -/
theorem none_eq_not_any (c : SCfg) (ctx : Ctx) (m m' mu : Meta) (op : String) (hop : isNotOp op)
    (xs b : Node) :
    eval c ctx (.builtin m "none" [xs, b]) =
    eval c ctx (.unary mu op (.builtin m' "any" [xs, b])) := by
  rw [eval_none, eval_not _ _ _ _ hop, eval_any]
  simp only [bind_assoc]
  congr 1

/-- `one(xs, {p}) = (count(xs, {p}) == 1)`: equal as computations (value / error class, call log,
    allocation totals), for a literal `1` that denotes the `int` 1 (any annotation except a float or a
    narrower integer kind) and a `count` node not annotated as a string — with the checker's annotation
    (`int` on both) the comparison is the specialised `OpEqualInt`, without annotation the generic one. -/
theorem one_eq_count_one (c : SCfg) (ctx : Ctx) (m m' me m1 : Meta) (xs b : Node)
    (h1 : intConst m1.kd 1 = .int .int 1) (hk : m'.kd ≠ .string) :
    eval c ctx (.builtin m "one" [xs, b]) =
    eval c ctx (.binary me "==" (.builtin m' "count" [xs, b]) (.int m1 1)) := by
  rw [eval_one, eval_eq, eval_count]
  have hlit : eval c ctx (.int m1 1) = pure (.int .int 1) := by rw [eval, h1]
  simp only [bind_assoc, hlit, pure_bind]
  congr 1; funext coll
  congr 1; funext n
  congr 1; funext bs
  split
  · rfl
  · split
    · rename_i h2 h3
      simp [Node.kd, Node.getMeta] at h3
      exact absurd h3.2 hk
    · rw [equalV_int_int]

example : intConst ({ kd := .num .int } : Meta).kd 1 = .int .int 1 ∧ intConst ({} : Meta).kd 1 = .int .int 1 :=
  ⟨by simp [intConst, wrap, Kind.bits, Kind.isSigned], by simp [intConst]⟩

/-! ### count / filter / map -/

/-- what `len(filter(…))` adds to `count(…)`: the kept elements are built and charged to the budget -/
def chargeLen (budget : Int) : R Val × SState → R Val × SState
  | (.ok (.int .int k), s) =>
    let s' := { s with memory := s.memory + k, created := s.created + k.toNat }
    if s'.memory ≥ budget then (.error .budget, s') else (.ok (.int .int k), s')
  | r => r

/-- `len(filter(xs, {p})) = count(xs, {p})` up to the allocation of the filtered array, exactly: for a
    collection that is an array (or string), the left side is the right side followed by charging the
    `k` kept elements (`chargeLen`).  Hence (corollaries below): same call log always, same error when
    `count` fails (same element, same class, same state), same value unless the budget is reached. -/
theorem count_eq_len_filter (c : SCfg) (ctx : Ctx) (m m' ml : Meta) (xs b : Node) (s : SState)
    (hseq : ∀ coll s', eval c ctx xs s = (.ok coll, s') → SeqVal coll) :
    eval c ctx (.builtin ml "len" [.builtin m' "filter" [xs, b]]) s =
    chargeLen c.budget (eval c ctx (.builtin m "count" [xs, b]) s) := by
  rw [eval_len, SM.bind_apply, eval_filter_seq c ctx m' xs b s hseq, eval_count_seq c ctx m xs b s hseq,
    SM.bind_apply, SM.bind_apply]
  rcases h : eval c ctx xs s with ⟨r, s1⟩
  cases r with
  | error e => rfl
  | ok coll =>
    simp only [filterOn, countOn, SM.bind_apply]
    rcases h2 : seqIdx (predAt c ctx coll b) (elemsOf coll).length 0 s1 with ⟨r2, s2⟩
    cases r2 with
    | error e => rfl
    | ok bs =>
      have hl := seqIdx_length _ _ _ _ _ _ h2
      have hk := keep_length (elemsOf coll) bs hl
      have hn : (countTrue bs).toNat = (keep (elemsOf coll) bs).length := by rw [← hk]; simp
      simp only [SM.pure_apply, SM.allocAfter, chargeLen, hk, hn]
      by_cases hb : s2.memory + countTrue bs ≥ c.budget
      · simp only [hb, if_true]
      · simp only [hb, if_false, lengthV, SM.lift_ok, SM.pure_apply, hk]

/-! concrete instances used as non-vacuity witnesses -/
def w0 : World := { call := fun _ _ => .error .type_, regexMatch := fun _ _ => none, pow := fun x _ => x }
def c0 : SCfg := { world := w0, env := .map [("M", .map [("a", .int .int 1)])], budget := 1000 }
/-- `[5, 6]` -/
def xs0 : Node := .array {} [.int {} 5, .int {} 6]
theorem xs0_eval : eval c0 [] xs0 {} = (.ok (.arr .iface [.int .int 5, .int .int 6]), { memory := 2, created := 2 }) := rfl

example : ∀ coll s', eval c0 [] xs0 {} = (.ok coll, s') → SeqVal coll := by
  intro coll s' h
  rw [xs0_eval] at h
  simp only [Prod.mk.injEq, Except.ok.injEq] at h
  rw [← h.1]
  exact ⟨rfl, by simp [elemsOf]⟩

/-- the call log of `len(filter(…))` equals that of `count(…)`, budget reached or not -/
theorem count_len_filter_log (c : SCfg) (ctx : Ctx) (m m' ml : Meta) (xs b : Node) (s : SState)
    (hseq : ∀ coll s', eval c ctx xs s = (.ok coll, s') → SeqVal coll) :
    (eval c ctx (.builtin ml "len" [.builtin m' "filter" [xs, b]]) s).2.log =
    (eval c ctx (.builtin m "count" [xs, b]) s).2.log := by
  rw [count_eq_len_filter c ctx m m' ml xs b s hseq]
  rcases eval c ctx (.builtin m "count" [xs, b]) s with ⟨r, s1⟩
  cases r with
  | error e => rfl
  | ok v =>
    unfold chargeLen
    split
    · rename_i h; simp only [Prod.mk.injEq, Except.ok.injEq] at h
      simp only [← h.2]
      split <;> rfl
    · rfl

/-- a failure of `count` (collection, predicate at element k, non-bool) is the failure of `len(filter)`:
    same class, same state -/
theorem count_len_filter_error (c : SCfg) (ctx : Ctx) (m m' ml : Meta) (xs b : Node) (s s1 : SState)
    (e : ErrClass)
    (hseq : ∀ coll s', eval c ctx xs s = (.ok coll, s') → SeqVal coll)
    (h : eval c ctx (.builtin m "count" [xs, b]) s = (.error e, s1)) :
    eval c ctx (.builtin ml "len" [.builtin m' "filter" [xs, b]]) s = (.error e, s1) := by
  rw [count_eq_len_filter c ctx m m' ml xs b s hseq, h]; rfl

/-- same value when the budget is not reached; `budget` otherwise -/
theorem count_len_filter_value (c : SCfg) (ctx : Ctx) (m m' ml : Meta) (xs b : Node) (s s1 : SState)
    (k : Int)
    (hseq : ∀ coll s', eval c ctx xs s = (.ok coll, s') → SeqVal coll)
    (h : eval c ctx (.builtin m "count" [xs, b]) s = (.ok (.int .int k), s1)) :
    (eval c ctx (.builtin ml "len" [.builtin m' "filter" [xs, b]]) s).1 =
      if s1.memory + k ≥ c.budget then .error .budget else .ok (.int .int k) := by
  rw [count_eq_len_filter c ctx m m' ml xs b s hseq, h]
  simp only [chargeLen]
  split <;> rfl

/-- `count` only ever returns an `int` -/
theorem count_returns_int (c : SCfg) (ctx : Ctx) (m : Meta) (xs b : Node) (s s1 : SState) (v : Val)
    (h : eval c ctx (.builtin m "count" [xs, b]) s = (.ok v, s1)) : ∃ k, v = .int .int k := by
  rw [eval_count] at h
  simp only [SM.bind_apply] at h
  rcases h0 : eval c ctx xs s with ⟨r, s0⟩
  rw [h0] at h
  cases r with
  | error e => simp at h
  | ok coll =>
    simp only at h
    rcases h1 : SM.lift (lengthV coll) s0 with ⟨r1, s2⟩
    rw [h1] at h
    cases r1 with
    | error e => simp at h
    | ok n =>
      simp only at h
      rcases h2 : seqIdx (predAt c ctx coll b) n.toNat 0 s2 with ⟨r2, s3⟩
      rw [h2] at h
      cases r2 with
      | error e => simp at h
      | ok bs => simp at h; exact ⟨_, h.1.symm⟩

/-! ### filter keeps exactly the satisfying elements, in order -/

/-- `filter(xs, {p})` keeps exactly the satisfying elements, in index order: when it succeeds on an array
    (or string) `coll`, the predicate was evaluated at every index in order (`seqIdx`, outcomes `bs`,
    one per element), and the result is the `[]interface{}` of the elements whose outcome is `true`
    (`keep`, = filter of the zipped list), a sublist of the elements; the state is that after the
    predicate evaluations plus the charge for the kept elements.  (`seqIdx_get` says what `bs[k]` is:
    the predicate's result at element k in the state reached after the first k evaluations.) -/
theorem filter_keeps_in_order (c : SCfg) (ctx : Ctx) (m : Meta) (xs b : Node) (s s1 : SState) (v : Val)
    (hseq : ∀ coll s', eval c ctx xs s = (.ok coll, s') → SeqVal coll)
    (h : eval c ctx (.builtin m "filter" [xs, b]) s = (.ok v, s1)) :
    ∃ coll s0 bs s2,
      eval c ctx xs s = (.ok coll, s0) ∧
      seqIdx (predAt c ctx coll b) (elemsOf coll).length 0 s0 = (.ok bs, s2) ∧
      bs.length = (elemsOf coll).length ∧
      v = .arr .iface (keep (elemsOf coll) bs) ∧
      keep (elemsOf coll) bs = (((elemsOf coll).zip bs).filter (fun q => q.2)).map (fun q => q.1) ∧
      List.Sublist (keep (elemsOf coll) bs) (elemsOf coll) ∧
      s1 = { s2 with memory := s2.memory + (keep (elemsOf coll) bs).length,
                     created := s2.created + (keep (elemsOf coll) bs).length } := by
  rw [eval_filter_seq c ctx m xs b s hseq, SM.bind_apply] at h
  rcases hx : eval c ctx xs s with ⟨r, s0⟩
  rw [hx] at h
  cases r with
  | error e => simp at h
  | ok coll =>
    simp only [filterOn, SM.bind_apply] at h
    rcases hb : seqIdx (predAt c ctx coll b) (elemsOf coll).length 0 s0 with ⟨r2, s2⟩
    rw [hb] at h
    cases r2 with
    | error e => simp at h
    | ok bs =>
      simp only [SM.allocAfter] at h
      by_cases hbud : s2.memory + ((keep (elemsOf coll) bs).length : Nat) ≥ c.budget
      · simp [hbud] at h
      · simp only [hbud, if_false, SM.pure_apply, Prod.mk.injEq, Except.ok.injEq] at h
        exact ⟨coll, s0, bs, s2, rfl, hb, seqIdx_length _ _ _ _ _ _ hb, h.1.symm, keep_eq_zip _ _,
          keep_sublist _ _, h.2.symm⟩

/-! ### map -/

/-- `map` after its collection has been evaluated: run the mapper at every index, then charge `n` -/
def mapOutcome (budget n : Int) : R (List Val) × SState → R Val × SState
  | (.ok vs, s1) =>
    let s2 := { s1 with memory := s1.memory + n, created := s1.created + vs.length }
    if s2.memory ≥ budget then (.error .budget, s2) else (.ok (.arr .iface vs), s2)
  | (.error e, s1) => (.error e, s1)

theorem map_eq (c : SCfg) (ctx : Ctx) (m : Meta) (xs f : Node) (s s0 : SState) (coll : Val) (n : Int)
    (hx : eval c ctx xs s = (.ok coll, s0)) (hn : lengthV coll = .ok n) :
    eval c ctx (.builtin m "map" [xs, f]) s =
      mapOutcome c.budget n (seqIdx (bodyAt c ctx coll f) n.toNat 0 s0) := by
  rw [eval_map, SM.bind_apply, hx]
  simp only [hn, SM.lift_ok, SM.bind_apply, SM.pure_apply]
  rcases h1 : seqIdx (bodyAt c ctx coll f) n.toNat 0 s0 with ⟨r1, s1⟩
  cases r1 with
  | error e => rfl
  | ok vs =>
    simp only [SM.allocAfter, mapOutcome]
    by_cases hb : s1.memory + n ≥ c.budget
    · simp only [hb, if_true]
    · simp only [hb, if_false]

/-- `len(map(xs, {f}))` and `len(xs)`: whenever the left side succeeds, the right side (from the same
    start state) succeeds with the same value.  Only the value is preserved: the left side also logs
    the calls made by `f` and charges the mapped array. -/
theorem len_map (c : SCfg) (ctx : Ctx) (ml ml' m : Meta) (xs f : Node) (s s1 : SState) (v : Val)
    (h : eval c ctx (.builtin ml "len" [.builtin m "map" [xs, f]]) s = (.ok v, s1)) :
    ∃ s0, eval c ctx (.builtin ml' "len" [xs]) s = (.ok v, s0) := by
  rw [eval_len, SM.bind_apply] at h
  rw [eval_len, SM.bind_apply]
  rcases hx : eval c ctx xs s with ⟨rx, s0⟩
  cases rx with
  | error e =>
    rw [eval_map, SM.bind_apply, hx] at h; simp at h
  | ok coll =>
    simp only
    cases hn : lengthV coll with
    | error e =>
      rw [eval_map, SM.bind_apply, hx] at h; simp [hn, SM.bind_apply] at h
    | ok n =>
      rw [map_eq c ctx m xs f s s0 coll n hx hn] at h
      rcases h1 : seqIdx (bodyAt c ctx coll f) n.toNat 0 s0 with ⟨r1, s2⟩
      rw [h1] at h
      cases r1 with
      | error e => simp [mapOutcome] at h
      | ok vs =>
        have hl := seqIdx_length _ _ _ _ _ _ h1
        have hn0 := lengthV_nonneg hn
        simp only [mapOutcome] at h
        by_cases hb : s2.memory + n ≥ c.budget
        · simp [hb] at h
        · simp only [hb, if_false, lengthV, SM.lift_ok, SM.bind_apply, SM.pure_apply, Prod.mk.injEq, Except.ok.injEq] at h
          refine ⟨s0, ?_⟩
          simp only [SM.lift_ok, SM.bind_apply, SM.pure_apply, Prod.mk.injEq, Except.ok.injEq, and_true]
          rw [← h.1, hl]; congr 1; omega

/-- conversely, when every evaluation of `f` succeeds and the budget is not reached, both sides
    succeed with the length of the collection -/
theorem len_map_ok (c : SCfg) (ctx : Ctx) (ml ml' m : Meta) (xs f : Node) (s s0 s1 : SState) (coll : Val)
    (n : Int) (vs : List Val)
    (hx : eval c ctx xs s = (.ok coll, s0)) (hn : lengthV coll = .ok n)
    (hf : seqIdx (bodyAt c ctx coll f) n.toNat 0 s0 = (.ok vs, s1))
    (hb : s1.memory + n < c.budget) :
    eval c ctx (.builtin ml "len" [.builtin m "map" [xs, f]]) s =
      (.ok (.int .int n), { s1 with memory := s1.memory + n, created := s1.created + vs.length }) ∧
    eval c ctx (.builtin ml' "len" [xs]) s = (.ok (.int .int n), s0) := by
  have hl := seqIdx_length _ _ _ _ _ _ hf
  have hn0 := lengthV_nonneg hn
  constructor
  · rw [eval_len, SM.bind_apply, map_eq c ctx m xs f s s0 coll n hx hn, hf]
    have : ¬ (s1.memory + n ≥ c.budget) := by omega
    simp only [mapOutcome, this, if_false, lengthV, SM.lift_ok, SM.bind_apply, SM.pure_apply, hl]
    congr 3; omega
  · rw [eval_len, SM.bind_apply, hx]
    simp only [hn, SM.lift_ok, SM.bind_apply, SM.pure_apply]

/-- error behaviour of `map`: once the collection is evaluated, `map` fails iff some evaluation of `f`
    fails (at the first such index `k`, with that class and in that state, all earlier ones having
    succeeded), or the budget is reached after all of them succeeded -/
theorem map_fails_iff (c : SCfg) (ctx : Ctx) (m : Meta) (xs f : Node) (s s0 s' : SState) (coll : Val)
    (n : Int) (e : ErrClass)
    (hx : eval c ctx xs s = (.ok coll, s0)) (hn : lengthV coll = .ok n) :
    eval c ctx (.builtin m "map" [xs, f]) s = (.error e, s') ↔
      (∃ k, k < n.toNat ∧ ∃ vs sk, seqIdx (bodyAt c ctx coll f) k 0 s0 = (.ok vs, sk) ∧
          bodyAt c ctx coll f k sk = (.error e, s')) ∨
      (∃ vs s1, seqIdx (bodyAt c ctx coll f) n.toNat 0 s0 = (.ok vs, s1) ∧ s1.memory + n ≥ c.budget ∧
          e = .budget ∧ s' = { s1 with memory := s1.memory + n, created := s1.created + vs.length }) := by
  rw [map_eq c ctx m xs f s s0 coll n hx hn]
  rcases h1 : seqIdx (bodyAt c ctx coll f) n.toNat 0 s0 with ⟨r1, s1⟩
  cases r1 with
  | error e1 =>
    have := seqIdx_error_iff (bodyAt c ctx coll f) n.toNat 0 s0 s' e
    simp only [Nat.zero_add] at this
    rw [← this, h1]
    simp [mapOutcome]
  | ok vs =>
    have hno : ¬ ∃ k, k < n.toNat ∧ ∃ vs sk, seqIdx (bodyAt c ctx coll f) k 0 s0 = (.ok vs, sk) ∧
          bodyAt c ctx coll f k sk = (.error e, s') := by
      intro hh
      have := (seqIdx_error_iff (bodyAt c ctx coll f) n.toNat 0 s0 s' e).2 (by simpa using hh)
      rw [h1] at this; simp at this
    simp only [hno, false_or, mapOutcome]
    constructor
    · intro h
      split at h
      · rename_i hb
        simp only [Prod.mk.injEq, Except.error.injEq] at h
        exact ⟨vs, s1, rfl, hb, h.1.symm, h.2.symm⟩
      · simp at h
    · rintro ⟨vs', s1', hh, hb, he, hs⟩
      simp only [Prod.mk.injEq, Except.ok.injEq] at hh
      rw [← hh.1, ← hh.2] at hs
      rw [← hh.2] at hb
      simp [hb, he, hs]

/-! ### closures see the element of their own innermost collection -/

/-- Evaluation looks at nothing of the closure context but its innermost entry: two contexts with the
    same head give the same computation, for every tree (any nesting of builtins inside). -/
theorem eval_depends_on_innermost_only (c : SCfg) (ctx1 ctx2 : Ctx) (h : ctx1.head? = ctx2.head?) (n : Node) :
    eval c ctx1 n = eval c ctx2 n := eval_ctx_head c ctx1 ctx2 h n

/-- `closure_sees_innermost`: inside `name(xs, {b})` (for each of all/none/any/one/count/filter/map, see
    `eval_all` … `eval_map`: the body at element i is `bodyAt c ctx coll b i`) the body is evaluated with
    the context extended by (collection, i); its meaning does not depend on the enclosing context at
    all — whatever the nesting depth, it is the same computation as at top level — and `#` denotes
    element i of that innermost collection. -/
theorem closure_sees_innermost (c : SCfg) (ctx : Ctx) (coll : Val) (b : Node) (i : Nat) (mp : Meta) :
    bodyAt c ctx coll b i = bodyAt c [] coll b i ∧
    bodyAt c ctx coll (.pointer mp) i = SM.lift (fetchV coll (.int .int (i : Int)) false) := by
  constructor
  · exact eval_ctx_head c ((coll, (i : Int)) :: ctx) [(coll, (i : Int))] rfl b
  · simp only [bodyAt, eval]

/-- after a nested builtin the outer element is visible again: in the context of element `i` of `coll`,
    `[#, inner(…), #]` evaluates `#` to element `i` of `coll` before and after the inner builtin,
    whatever collection the inner builtin iterates over -/
theorem outer_element_restored (c : SCfg) (ctx : Ctx) (coll : Val) (i : Int) (m m1 m2 mi : Meta)
    (name : String) (args : List Node) :
    eval c ((coll, i) :: ctx) (.array m [.pointer m1, .builtin mi name args, .pointer m2]) = (do
      let e ← SM.lift (fetchV coll (.int .int i) false)
      let v ← eval c [(coll, i)] (.builtin mi name args)
      let e' ← SM.lift (fetchV coll (.int .int i) false)
      SM.allocAfter c.budget 3 3
      pure (.arr .iface [e, v, e'])) := by
  have h := eval_ctx_head c ((coll, i) :: ctx) [(coll, i)] rfl (.builtin mi name args)
  have hp : ∀ mp, eval c ((coll, i) :: ctx) (.pointer mp) = SM.lift (fetchV coll (.int .int i) false) :=
    fun mp => by rw [eval]
  conv => lhs; rw [eval]
  simp only [evalList, hp, h, bind_assoc, pure_bind, List.length_cons, List.length_nil]
  rfl

/-! ### membership in an integer range -/

/-- what a run-time range adds: refused *before* it is built when the total would reach the budget -/
def chargeRange (budget counted : Int) (built : Nat) : R Val × SState → R Val × SState
  | (r, s) =>
    if s.memory + counted ≥ budget then (.error .budget, s)
    else (r, { s with memory := s.memory + counted, created := s.created + built })

/-- elements a range `lo..hi` is charged for (`rangeSizeSigned` mirrors the unchanged code, C06) -/
def rangeCounted (c : SCfg) (lo hi : Int) : Int :=
  if c.rangeSizeSigned = true then hi - lo + 1 else if hi - lo + 1 < 0 then 0 else hi - lo + 1

theorem two_sided_value (c : SCfg) (ctx : Ctx) (ma mg ml : Meta) (x lo hi : Node) (s : SState)
    (k : Kind) (v lo' hi' : Int)
    (hx : eval c ctx x s = (.ok (.int k v), s))
    (hlo : eval c ctx lo s = (.ok (.int .int lo'), s))
    (hhi : eval c ctx hi s = (.ok (.int .int hi'), s))
    (hk : k.isInt = true) (hb : BoundsFit k lo' hi') :
    eval c ctx (.binary ma "and" (.binary mg ">=" x lo) (.binary ml "<=" x hi)) s =
      (.ok (.bool (decide (lo' ≤ normInt k v ∧ normInt k v ≤ hi'))), s) := by
  have h1 : normBound k lo' = lo' := normBound_fit k hk lo' (fun hr => (hb hr).1)
  have h2 : normBound k hi' = hi' := normBound_fit k hk hi' (fun hr => (hb hr).2)
  rw [eval_and, SM.bind_apply, eval_arith c ctx mg ">=" .moreOrEqual rfl, SM.bind_apply, hx]
  simp only [SM.bind_apply, hlo, ge_int_kind k hk, h1, SM.lift_ok, SM.pure_apply, asBool]
  by_cases hge : normInt k v ≥ lo'
  · simp only [hge, decide_true, if_true]
    rw [eval_arith c ctx ml "<=" .lessOrEqual rfl, SM.bind_apply, hx]
    simp only [SM.bind_apply, hhi, le_int_kind k hk, h2, SM.lift_ok, SM.pure_apply]
    have : lo' ≤ normInt k v := hge
    simp
  · have : ¬ lo' ≤ normInt k v := hge
    simp [hge]

theorem in_range_eq_two_sided (c : SCfg) (ctx : Ctx) (mi mr ma mg ml : Meta) (x lo hi : Node) (s : SState)
    (k : Kind) (v lo' hi' : Int)
    (hx : eval c ctx x s = (.ok (.int k v), s))
    (hlo : eval c ctx lo s = (.ok (.int .int lo'), s))
    (hhi : eval c ctx hi s = (.ok (.int .int hi'), s))
    (hlo64 : inRange .int lo') (hhi64 : inRange .int hi')
    (hk : k.isInt = true) (hb : BoundsFit k lo' hi') :
    eval c ctx (.binary mi "in" x (.binary mr ".." lo hi)) s =
      chargeRange c.budget (rangeCounted c lo' hi') (rangeElems lo' hi').length
        (eval c ctx (.binary ma "and" (.binary mg ">=" x lo) (.binary ml "<=" x hi)) s) := by
  rw [two_sided_value c ctx ma mg ml x lo hi s k v lo' hi' hx hlo hhi hk hb]
  rw [eval_in, SM.bind_apply, hx]
  simp only [eval_range, SM.bind_apply, hlo, hhi, toIntR_int' _ hlo64, toIntR_int' _ hhi64, SM.lift_ok,
    SM.pure_apply, SM.allocBefore, chargeRange]
  by_cases hbud : s.memory + rangeCounted c lo' hi' ≥ c.budget
  · simp only [rangeCounted] at hbud
    simp only [rangeCounted, hbud, if_true]
  · simp only [rangeCounted] at hbud
    simp only [rangeCounted, hbud, if_false, inV, SM.lift_ok, SM.pure_apply, range_any_eq k hk lo' hi' v hb]

/-- error propagation: a left operand that fails makes both sides fail with that class in that state
    (before the range is built or any comparison is made) -/
theorem in_range_error (c : SCfg) (ctx : Ctx) (mi mr ma mg ml : Meta) (x lo hi : Node) (s s1 : SState)
    (e : ErrClass) (hx : eval c ctx x s = (.error e, s1)) :
    eval c ctx (.binary mi "in" x (.binary mr ".." lo hi)) s = (.error e, s1) ∧
    eval c ctx (.binary ma "and" (.binary mg ">=" x lo) (.binary ml "<=" x hi)) s = (.error e, s1) := by
  constructor
  · rw [eval_in, SM.bind_apply, hx]
  · rw [eval_and, SM.bind_apply, eval_arith c ctx mg ">=" .moreOrEqual rfl, SM.bind_apply, hx]

/-- corollary: same value when the budget is not reached, same call log always -/
theorem in_range_value_log (c : SCfg) (ctx : Ctx) (mi mr ma mg ml : Meta) (x lo hi : Node) (s : SState)
    (k : Kind) (v lo' hi' : Int)
    (hx : eval c ctx x s = (.ok (.int k v), s))
    (hlo : eval c ctx lo s = (.ok (.int .int lo'), s))
    (hhi : eval c ctx hi s = (.ok (.int .int hi'), s))
    (hlo64 : inRange .int lo') (hhi64 : inRange .int hi')
    (hk : k.isInt = true) (hb : BoundsFit k lo' hi') :
    (eval c ctx (.binary mi "in" x (.binary mr ".." lo hi)) s).2.log =
      (eval c ctx (.binary ma "and" (.binary mg ">=" x lo) (.binary ml "<=" x hi)) s).2.log ∧
    (s.memory + rangeCounted c lo' hi' < c.budget →
      (eval c ctx (.binary mi "in" x (.binary mr ".." lo hi)) s).1 =
        (eval c ctx (.binary ma "and" (.binary mg ">=" x lo) (.binary ml "<=" x hi)) s).1) := by
  rw [in_range_eq_two_sided c ctx mi mr ma mg ml x lo hi s k v lo' hi' hx hlo hhi hlo64 hhi64 hk hb,
    two_sided_value c ctx ma mg ml x lo hi s k v lo' hi' hx hlo hhi hk hb]
  constructor
  · simp only [chargeRange]; split <;> rfl
  · intro hbud
    have : ¬ (s.memory + rangeCounted c lo' hi' ≥ c.budget) := by omega
    simp only [chargeRange, this, if_false]

/-- `-128 : int8` -/
def xI8 : Node := .const {} (.int .int8 (-128))

/-- The identity genuinely fails (on the Spec, as on the real VM) for a left operand of a signed kind
    narrower than `int` when a bound does not fit that kind: `int8(-128) in 127..129` is `true` (the
    element 128 is converted to `int8`, giving -128) while `int8(-128) >= 127 and …` is `false`. -/
theorem in_range_narrow_kind_witness :
    (eval c0 [] (.binary {} "in" xI8 (.binary {} ".." (.int {} 127) (.int {} 129))) {}).1 = .ok (.bool true) ∧
    (eval c0 [] (.binary {} "and" (.binary {} ">=" xI8 (.int {} 127)) (.binary {} "<=" xI8 (.int {} 129))) {}).1
      = .ok (.bool false) ∧
    ¬ BoundsFit .int8 127 129 := by
  refine ⟨rfl, rfl, ?_⟩
  simp [BoundsFit, Kind.rank, inRange, Kind.isSigned, Kind.bits]

/-- the statement without the `BoundsFit` hypothesis (every integer kind of the left operand, any bounds) — still
    for operands whose evaluation leaves the state unchanged and an integer left operand, so already narrower
    than the property's sentence.  `in_range_eq_two_sided` above is its `_partial` form: operands whose
    evaluation leaves the state unchanged (the right-hand side evaluates `x` twice), an integer left operand, and
    bounds that fit the operand's kind. -/
def in_range_eq_two_sided_goal : Prop :=
  ∀ (c : SCfg) (ctx : Ctx) (mi mr ma mg ml : Meta) (x lo hi : Node) (s : SState) (k : Kind) (v lo' hi' : Int),
    eval c ctx x s = (.ok (.int k v), s) → eval c ctx lo s = (.ok (.int .int lo'), s) →
    eval c ctx hi s = (.ok (.int .int hi'), s) → inRange .int lo' → inRange .int hi' → k.isInt = true →
    eval c ctx (.binary mi "in" x (.binary mr ".." lo hi)) s =
      chargeRange c.budget (rangeCounted c lo' hi') (rangeElems lo' hi').length
        (eval c ctx (.binary ma "and" (.binary mg ">=" x lo) (.binary ml "<=" x hi)) s)

/-- … and it is false (known finding `c18:in-range-narrow-kind`): `BoundsFit` cannot be dropped -/
theorem in_range_eq_two_sided_goal_false : ¬ in_range_eq_two_sided_goal := by
  intro h
  have := h c0 [] {} {} {} {} {} xI8 (.int {} 127) (.int {} 129) {} .int8 (-128) 127 129 rfl rfl rfl
    (by decide) (by decide) rfl
  have h1 := congrArg Prod.fst this
  rw [in_range_narrow_kind_witness.1] at h1
  have e : eval c0 [] (.binary {} "and" (.binary {} ">=" xI8 (.int {} 127)) (.binary {} "<=" xI8 (.int {} 129))) {} =
      (.ok (.bool false), {}) := rfl
  rw [e] at h1
  have hc : (chargeRange c0.budget (rangeCounted c0 127 129) (rangeElems 127 129).length
      ((.ok (.bool false), {}) : R Val × SState)).1 = .ok (.bool false) := rfl
  rw [hc] at h1
  injection h1 with h1
  injection h1 with h1
  cases h1

/-- `M` is a map: `count(M, {true})` is 1 but `len(filter(M, {true}))` is a type error (a map cannot be
    indexed by position) — the identity is about arrays, as the property says -/
theorem count_len_filter_map_witness :
    (eval c0 [] (.builtin {} "count" [.ident {} "M" false, .closure {} (.bool {} true)]) {}).1 = .ok (.int .int 1) ∧
    (eval c0 [] (.builtin {} "len" [.builtin {} "filter" [.ident {} "M" false, .closure {} (.bool {} true)]]) {}).1
      = .error .type_ := ⟨rfl, rfl⟩

/-- non-vacuity of `in_range_eq_two_sided`: `uint8(200) in 1..300` -/
example : eval c0 [] (.const {} (.int .uint8 200)) {} = (.ok (.int .uint8 200), {}) ∧
    eval c0 [] (.int {} 1) {} = (.ok (.int .int 1), {}) ∧ eval c0 [] (.int {} 300) {} = (.ok (.int .int 300), {}) ∧
    inRange .int 1 ∧ inRange .int 300 ∧ Kind.uint8.isInt = true ∧ BoundsFit .uint8 1 300 :=
  ⟨rfl, rfl, rfl, by decide, by decide, rfl, by simp [BoundsFit, Kind.rank]⟩
/-- … and for a signed narrow kind with fitting bounds: `int8(-1) in -5..100` -/
example : BoundsFit .int8 (-5) 100 := by
  intro _; constructor <;> decide

/-! ### slicing at i partitions a sequence -/

/-- arrays: for `0 ≤ i`, `xs[:i]` and `xs[i:]` (at the level of `sliceV`, with the defaults `0` and
    `len xs` the evaluator supplies) are the first `i` elements and the rest — clamped when `i > len` —
    and concatenate to `xs`; the element type tag is kept -/
theorem slice_partitions (t : ElemT) (xs : List Val) (i : Int) (h0 : 0 ≤ i) (hi : inRange .int i)
    (hlen : inRange .int (xs.length : Nat)) :
    ∃ l r, sliceV (.arr t xs) (.int .int 0) (.int .int i) = .ok (.arr t l) ∧
           sliceV (.arr t xs) (.int .int i) (.int .int (xs.length : Nat)) = .ok (.arr t r) ∧
           l ++ r = xs ∧ l.length = min i.toNat xs.length :=
  ⟨xs.take i.toNat, xs.drop i.toNat, sliceV_arr_prefix t xs i h0 hi, sliceV_arr_suffix t xs i h0 hi hlen,
    List.take_append_drop _ _, List.length_take⟩

example : inRange .int 2 ∧ inRange .int (([Val.nil, Val.nil, Val.nil].length : Nat) : Int) := by decide

/-- a negative `i` fails on both sides, with class `index` -/
theorem slice_negative_fails (t : ElemT) (xs : List Val) (i : Int) (h0 : i < 0) (hi : inRange .int i)
    (hlen : inRange .int (xs.length : Nat)) :
    sliceV (.arr t xs) (.int .int 0) (.int .int i) = .error .index ∧
    sliceV (.arr t xs) (.int .int i) (.int .int (xs.length : Nat)) = .error .index :=
  sliceV_arr_neg t xs i h0 hi hlen

/-- strings (sliced by bytes): for `0 ≤ i`, whenever both pieces are strings — i.e. valid UTF-8, which
    is the case when the cut falls on a character boundary, always for ASCII — `s[:i] + s[i:] = s` -/
theorem slice_partitions_str (s : String) (i : Int) (h0 : 0 ≤ i) (hi : inRange .int i)
    (hlen : inRange .int ((strBytes s).length : Nat)) (a b : String)
    (ha : sliceV (.str s) (.int .int 0) (.int .int i) = .ok (.str a))
    (hb : sliceV (.str s) (.int .int i) (.int .int ((strBytes s).length : Nat)) = .ok (.str b)) :
    a ++ b = s := by
  rw [sliceV_str_prefix s i h0 hi] at ha
  rw [sliceV_str_suffix s i h0 hi hlen] at hb
  exact strCut_partition s i.toNat a b ha hb

theorem slice_negative_fails_str (s : String) (i : Int) (h0 : i < 0) (hi : inRange .int i)
    (hlen : inRange .int ((strBytes s).length : Nat)) :
    sliceV (.str s) (.int .int 0) (.int .int i) = .error .index ∧
    sliceV (.str s) (.int .int i) (.int .int ((strBytes s).length : Nat)) = .error .index :=
  sliceV_str_neg s i h0 hi hlen

/-- `x[:i]` at the level of `eval`: the collection, then the bound, then `sliceV` with the default lower
    bound `0` (for either order in which the code evaluates the two bounds) -/
theorem eval_slice_prefix (c : SCfg) (ctx : Ctx) (m : Meta) (x i : Node) (s s0 s1 : SState) (a iv : Val)
    (hx : eval c ctx x s = (.ok a, s0)) (hi : eval c ctx i s0 = (.ok iv, s1)) :
    eval c ctx (.slice m x none (some i)) s = (sliceV a (.int .int 0) iv, s1) := by
  rw [eval]
  cases c.sliceToFirst <;> simp only [SM.bind_apply, hx, hi, SM.pure_apply, if_true, Bool.false_eq_true, if_false] <;>
    cases sliceV a (.int .int 0) iv <;> rfl

/-- `x[i:]`: the default upper bound is `len x` -/
theorem eval_slice_suffix (c : SCfg) (ctx : Ctx) (m : Meta) (x i : Node) (s s0 s1 : SState) (a iv : Val) (n : Int)
    (hx : eval c ctx x s = (.ok a, s0)) (hi : eval c ctx i s0 = (.ok iv, s1)) (hn : lengthV a = .ok n) :
    eval c ctx (.slice m x (some i) none) s = (sliceV a iv (.int .int n), s1) := by
  rw [eval]
  cases c.sliceToFirst <;>
    simp only [SM.bind_apply, hx, hi, hn, SM.lift_ok, SM.pure_apply, if_true, Bool.false_eq_true, if_false] <;>
    cases sliceV a iv (.int .int n) <;> rfl

/-- `slice_partitions` on expressions: for an array-valued `x` and a bound evaluating to the int `i ≥ 0`,
    `x[:i]` and `x[i:]` (two programs from the same start state) succeed with the first `i` elements and
    the rest, which concatenate to the value of `x`; both end in the same state -/
theorem slice_partitions_eval (c : SCfg) (ctx : Ctx) (m m' : Meta) (x i : Node) (s s0 s1 : SState)
    (t : ElemT) (xs : List Val) (iv : Int)
    (hx : eval c ctx x s = (.ok (.arr t xs), s0)) (hi : eval c ctx i s0 = (.ok (.int .int iv), s1))
    (h0 : 0 ≤ iv) (hr : inRange .int iv) (hlen : inRange .int (xs.length : Nat)) :
    ∃ l r, eval c ctx (.slice m x none (some i)) s = (.ok (.arr t l), s1) ∧
           eval c ctx (.slice m' x (some i) none) s = (.ok (.arr t r), s1) ∧ l ++ r = xs := by
  refine ⟨xs.take iv.toNat, xs.drop iv.toNat, ?_, ?_, List.take_append_drop _ _⟩
  · rw [eval_slice_prefix c ctx m x i s s0 s1 _ _ hx hi, sliceV_arr_prefix t xs iv h0 hr]
  · rw [eval_slice_suffix c ctx m' x i s s0 s1 _ _ _ hx hi rfl, sliceV_arr_suffix t xs iv h0 hr hlen]

/-- ASCII strings: both pieces are strings and concatenate to `s`, for every `i ≥ 0` -/
theorem slice_partitions_ascii (s : String) (h : IsAscii s) (i : Int) (h0 : 0 ≤ i) (hi : inRange .int i)
    (hlen : inRange .int ((strBytes s).length : Nat)) :
    ∃ a b, sliceV (.str s) (.int .int 0) (.int .int i) = .ok (.str a) ∧
           sliceV (.str s) (.int .int i) (.int .int ((strBytes s).length : Nat)) = .ok (.str b) ∧
           a ++ b = s := by
  obtain ⟨a, ha⟩ := strCut_ascii_take s h i.toNat
  obtain ⟨b, hb⟩ := strCut_ascii_drop s h i.toNat
  refine ⟨a, b, ?_, ?_, strCut_partition s i.toNat a b ha hb⟩
  · rw [sliceV_str_prefix s i h0 hi, ha]
  · rw [sliceV_str_suffix s i h0 hi hlen, hb]

example : IsAscii "hello world" := by
  unfold IsAscii
  decide

/-! ### further non-vacuity instances (collection `[5, 6]`, budget 1000) -/

example : (eval c0 [] (.builtin {} "filter" [xs0, .closure {} (.binary {} ">" (.pointer {}) (.int {} 5))]) {}).1
    = .ok (.arr .iface [.int .int 6]) := rfl
example : (eval c0 [] (.builtin {} "len" [.builtin {} "filter" [xs0, .closure {} (.bool {} true)]]) {}).1
    = .ok (.int .int 2) ∧
    (eval c0 [] (.builtin {} "count" [xs0, .closure {} (.bool {} true)]) {}).1 = .ok (.int .int 2) := ⟨rfl, rfl⟩
/-- hypotheses of `len_map_ok` / `map_fails_iff` for `map([5, 6], {#})` -/
example : lengthV (.arr .iface [.int .int 5, .int .int 6]) = .ok 2 ∧
    seqIdx (bodyAt c0 [] (.arr .iface [.int .int 5, .int .int 6]) (.closure {} (.pointer {}))) (2 : Int).toNat 0
      { memory := 2, created := 2 } = (.ok [.int .int 5, .int .int 6], { memory := 2, created := 2 }) ∧
    ((2 : Int) + 2 < c0.budget) := ⟨rfl, rfl, by decide⟩
/-- a mapper that fails at the second element: `map([5, 6], {1 / (# - 6)})` fails with `divzero` -/
example : (eval c0 [] (.builtin {} "map" [xs0, .closure {} (.binary {} "/" (.int {} 1)
      (.binary {} "-" (.pointer {}) (.int {} 6)))]) {}).1 = .error .divzero := rfl

open ExprModel.Refine (specOf obs RunAgrees progOf FitsU16 EnvOK Good SmallColl floatsOK)
open ExprModel.C01 (m0)

/-! ## transferred to the VM

Every identity above, restated about *runs of the compiled programs*: `compileProgram` (= compiler.Compile,
byte for byte) followed by the byte-level `run` (= (*VM).Run).  The bridge is C01's refinement theorem
`run_conforms_checked`; `Conf` bundles its side conditions for one (tree, compiled program) pair. -/

/-- C01's side conditions for one compiled tree: it compiles to `cp`; its float constants are literals
    no two of which are `==` with different bits (`floatsOK`, decidable); every operand fits 16 bits
    (`FitsU16`, decidable); a map-environment compilation runs on a map; the tree is well-formed and its
    loop collections have fewer than 2^63 elements -/
structure Conf (c : Cfg) (cfg : CompCfg) (n : Node) (cp : Compiled) : Prop where
  compiles : compileProgram cfg n = .ok cp
  floats : floatsOK n = true
  fits : FitsU16 cp.code
  env : EnvOK c cfg
  good : Good (SmallColl c) n

/-- what a VM run is observed on: value or error class, and (memory total, created total, call log) -/
def vmOut (c : Cfg) (cp : Compiled) (fuel : Nat) : R Val × SState :=
  ((run c (progOf cp) fuel).1, obs (run c (progOf cp) fuel).2)

/-- C01, as an equation: for enough fuel the observable outcome of the compiled program's run is `Spec.run` -/
theorem vm_conforms {c : Cfg} {cfg : CompCfg} {n : Node} {cp : Compiled} (h : Conf c cfg n cp) :
    ∃ N, ∀ fuel, N ≤ fuel → vmOut c cp fuel = Spec.run (specOf c) cfg.cast n := by
  obtain ⟨N, hN⟩ := C01.run_conforms_checked cfg n cp c h.compiles h.floats h.fits h.env h.good
  exact ⟨N, fun fuel hf => Prod.ext (hN fuel hf).1 (hN fuel hf).2.1⟩

/-- the generic transfer: any relation between the two `Spec.run` outcomes holds between the observable
    outcomes of the two compiled programs' runs, for enough fuel -/
theorem transfer {c : Cfg} {cfgL cfgR : CompCfg} {nL nR : Node} {cpL cpR : Compiled}
    (hL : Conf c cfgL nL cpL) (hR : Conf c cfgR nR cpR)
    (rel : R Val × SState → R Val × SState → Prop)
    (hspec : rel (Spec.run (specOf c) cfgL.cast nL) (Spec.run (specOf c) cfgR.cast nR)) :
    ∃ N, ∀ fuel, N ≤ fuel → rel (vmOut c cpL fuel) (vmOut c cpR fuel) := by
  obtain ⟨N1, h1⟩ := vm_conforms hL
  obtain ⟨N2, h2⟩ := vm_conforms hR
  refine ⟨max N1 N2, fun fuel hf => ?_⟩
  rw [h1 fuel (by omega), h2 fuel (by omega)]
  exact hspec

theorem specRun_congr (sc : SCfg) (cast : Option Nat) (nL nR : Node) (h : eval sc [] nL = eval sc [] nR) :
    Spec.run sc cast nL = Spec.run sc cast nR := by
  unfold Spec.run; rw [h]

theorem specRun_none (sc : SCfg) (n : Node) : Spec.run sc none n = eval sc [] n {} := by
  unfold Spec.run
  rcases eval sc [] n {} with ⟨r, s⟩
  cases r <;> rfl

/-- `all(xs, {p})` and `not any(xs, {not p})`, compiled and run: for enough fuel both runs end with the same
    value or error class, the same call log and the same allocation totals -/
theorem all_eq_not_any_not_vm (c : Cfg) (cfgL cfgR : CompCfg) (hcast : cfgL.cast = cfgR.cast)
    (m m' mu mc mc' mn : Meta) (op op' : String) (hop : isNotOp op) (hop' : isNotOp op') (xs p : Node)
    (cpL cpR : Compiled)
    (hL : Conf c cfgL (.builtin m "all" [xs, .closure mc p]) cpL)
    (hR : Conf c cfgR (.unary mu op (.builtin m' "any" [xs, .closure mc' (.unary mn op' p)])) cpR) :
    ∃ N, ∀ fuel, N ≤ fuel → vmOut c cpL fuel = vmOut c cpR fuel :=
  transfer hL hR (· = ·) (by
    rw [hcast]
    exact specRun_congr _ _ _ _ (all_eq_not_any_not (specOf c) [] m m' mu mc mc' mn op op' hop hop' xs p))

theorem none_eq_not_any_vm (c : Cfg) (cfgL cfgR : CompCfg) (hcast : cfgL.cast = cfgR.cast)
    (m m' mu : Meta) (op : String) (hop : isNotOp op) (xs b : Node) (cpL cpR : Compiled)
    (hL : Conf c cfgL (.builtin m "none" [xs, b]) cpL)
    (hR : Conf c cfgR (.unary mu op (.builtin m' "any" [xs, b])) cpR) :
    ∃ N, ∀ fuel, N ≤ fuel → vmOut c cpL fuel = vmOut c cpR fuel :=
  transfer hL hR (· = ·) (by
    rw [hcast]; exact specRun_congr _ _ _ _ (none_eq_not_any (specOf c) [] m m' mu op hop xs b))

theorem one_eq_count_one_vm (c : Cfg) (cfgL cfgR : CompCfg) (hcast : cfgL.cast = cfgR.cast)
    (m m' me m1 : Meta) (xs b : Node) (h1 : intConst m1.kd 1 = .int .int 1) (hk : m'.kd ≠ .string)
    (cpL cpR : Compiled)
    (hL : Conf c cfgL (.builtin m "one" [xs, b]) cpL)
    (hR : Conf c cfgR (.binary me "==" (.builtin m' "count" [xs, b]) (.int m1 1)) cpR) :
    ∃ N, ∀ fuel, N ≤ fuel → vmOut c cpL fuel = vmOut c cpR fuel :=
  transfer hL hR (· = ·) (by
    rw [hcast]; exact specRun_congr _ _ _ _ (one_eq_count_one (specOf c) [] m m' me m1 xs b h1 hk))

/-- `len(filter(xs, {p}))` run on the VM is `count(xs, {p})` run on the VM followed by the allocation
    charge: same log always, same error, same value below the budget -/
theorem count_eq_len_filter_vm (c : Cfg) (cfgL cfgR : CompCfg) (hcL : cfgL.cast = none) (hcR : cfgR.cast = none)
    (m m' ml : Meta) (xs b : Node) (cpL cpR : Compiled)
    (hseq : ∀ coll s', eval (specOf c) [] xs {} = (.ok coll, s') → SeqVal coll)
    (hL : Conf c cfgL (.builtin m "count" [xs, b]) cpL)
    (hR : Conf c cfgR (.builtin ml "len" [.builtin m' "filter" [xs, b]]) cpR) :
    ∃ N, ∀ fuel, N ≤ fuel → vmOut c cpR fuel = chargeLen c.budget (vmOut c cpL fuel) :=
  transfer hL hR (fun a b => b = chargeLen c.budget a) (by
    rw [hcL, hcR, specRun_none, specRun_none]
    exact count_eq_len_filter (specOf c) [] m m' ml xs b {} hseq)

/-- whenever the run of `len(map(xs, {f}))` succeeds, the run of `len(xs)` succeeds with the same value -/
theorem len_map_vm (c : Cfg) (cfgL cfgR : CompCfg) (hcL : cfgL.cast = none) (hcR : cfgR.cast = none)
    (ml ml' m : Meta) (xs f : Node) (cpL cpR : Compiled)
    (hL : Conf c cfgL (.builtin ml "len" [.builtin m "map" [xs, f]]) cpL)
    (hR : Conf c cfgR (.builtin ml' "len" [xs]) cpR) :
    ∃ N, ∀ fuel, N ≤ fuel → ∀ v, (vmOut c cpL fuel).1 = .ok v → (vmOut c cpR fuel).1 = .ok v :=
  transfer hL hR (fun a b => ∀ v, a.1 = .ok v → b.1 = .ok v) (by
    rw [hcL, hcR, specRun_none, specRun_none]
    intro v hv
    rcases h : eval (specOf c) [] (.builtin ml "len" [.builtin m "map" [xs, f]]) {} with ⟨r, s1⟩
    rw [h] at hv
    simp only at hv
    subst hv
    obtain ⟨s0, h0⟩ := len_map (specOf c) [] ml ml' m xs f {} s1 v h
    rw [h0])

/-- the run of `filter(xs, {p})`, when it succeeds, returns exactly the elements whose predicate outcome is
    `true`, in index order -/
theorem filter_keeps_in_order_vm (c : Cfg) (cfg : CompCfg) (hc : cfg.cast = none) (m : Meta) (xs b : Node)
    (cp : Compiled)
    (hseq : ∀ coll s', eval (specOf c) [] xs {} = (.ok coll, s') → SeqVal coll)
    (h : Conf c cfg (.builtin m "filter" [xs, b]) cp) :
    ∃ N, ∀ fuel, N ≤ fuel → ∀ v, (vmOut c cp fuel).1 = .ok v →
      ∃ coll s0 bs s2, eval (specOf c) [] xs {} = (.ok coll, s0) ∧
        seqIdx (predAt (specOf c) [] coll b) (elemsOf coll).length 0 s0 = (.ok bs, s2) ∧
        bs.length = (elemsOf coll).length ∧ v = .arr .iface (keep (elemsOf coll) bs) ∧
        List.Sublist (keep (elemsOf coll) bs) (elemsOf coll) := by
  obtain ⟨N, hN⟩ := vm_conforms h
  refine ⟨N, fun fuel hf v hv => ?_⟩
  rw [hN fuel hf, hc, specRun_none] at hv
  rcases he : eval (specOf c) [] (.builtin m "filter" [xs, b]) {} with ⟨r, s1⟩
  rw [he] at hv
  simp only at hv
  subst hv
  obtain ⟨coll, s0, bs, s2, h1, h2, h3, h4, _, h6, _⟩ :=
    filter_keeps_in_order (specOf c) [] m xs b {} s1 v hseq he
  exact ⟨coll, s0, bs, s2, h1, h2, h3, h4, h6⟩

/-- `x in lo..hi` run on the VM is `x >= lo and x <= hi` run on the VM up to the range's allocation -/
theorem in_range_eq_two_sided_vm (c : Cfg) (cfgL cfgR : CompCfg) (hcL : cfgL.cast = none) (hcR : cfgR.cast = none)
    (mi mr ma mg ml : Meta) (x lo hi : Node) (k : Kind) (v lo' hi' : Int) (cpL cpR : Compiled)
    (hx : eval (specOf c) [] x {} = (.ok (.int k v), {}))
    (hlo : eval (specOf c) [] lo {} = (.ok (.int .int lo'), {}))
    (hhi : eval (specOf c) [] hi {} = (.ok (.int .int hi'), {}))
    (hlo64 : inRange .int lo') (hhi64 : inRange .int hi')
    (hk : k.isInt = true) (hb : BoundsFit k lo' hi')
    (hL : Conf c cfgL (.binary mi "in" x (.binary mr ".." lo hi)) cpL)
    (hR : Conf c cfgR (.binary ma "and" (.binary mg ">=" x lo) (.binary ml "<=" x hi)) cpR) :
    ∃ N, ∀ fuel, N ≤ fuel →
      vmOut c cpL fuel = chargeRange c.budget (rangeCounted (specOf c) lo' hi') (rangeElems lo' hi').length
        (vmOut c cpR fuel) ∧
      (vmOut c cpR fuel).1 = .ok (.bool (decide (lo' ≤ normInt k v ∧ normInt k v ≤ hi'))) :=
  transfer hL hR (fun a b => a = chargeRange c.budget (rangeCounted (specOf c) lo' hi') (rangeElems lo' hi').length b ∧
      b.1 = .ok (.bool (decide (lo' ≤ normInt k v ∧ normInt k v ≤ hi')))) (by
    rw [hcL, hcR, specRun_none, specRun_none]
    refine ⟨in_range_eq_two_sided (specOf c) [] mi mr ma mg ml x lo hi {} k v lo' hi' hx hlo hhi hlo64 hhi64 hk hb, ?_⟩
    rw [two_sided_value (specOf c) [] ma mg ml x lo hi {} k v lo' hi' hx hlo hhi hk hb])

/-- `x[:i]` and `x[i:]` compiled and run: the first `i` elements and the rest, which concatenate to the
    value of `x`; both runs end with the same counters and log -/
theorem slice_partitions_vm (c : Cfg) (cfgL cfgR : CompCfg) (hcL : cfgL.cast = none) (hcR : cfgR.cast = none)
    (m m' : Meta) (x i : Node) (s0 s1 : SState) (t : ElemT) (xs : List Val) (iv : Int) (cpL cpR : Compiled)
    (hx : eval (specOf c) [] x {} = (.ok (.arr t xs), s0)) (hi : eval (specOf c) [] i s0 = (.ok (.int .int iv), s1))
    (h0 : 0 ≤ iv) (hr : inRange .int iv) (hlen : inRange .int (xs.length : Nat))
    (hL : Conf c cfgL (.slice m x none (some i)) cpL) (hR : Conf c cfgR (.slice m' x (some i) none) cpR) :
    ∃ l r, l ++ r = xs ∧ ∃ N, ∀ fuel, N ≤ fuel →
      vmOut c cpL fuel = (.ok (.arr t l), s1) ∧ vmOut c cpR fuel = (.ok (.arr t r), s1) := by
  obtain ⟨l, r, h1, h2, h3⟩ := slice_partitions_eval (specOf c) [] m m' x i {} s0 s1 t xs iv hx hi h0 hr hlen
  refine ⟨l, r, h3, ?_⟩
  exact transfer hL hR (fun a b => a = (.ok (.arr t l), s1) ∧ b = (.ok (.arr t r), s1)) (by
    rw [hcL, hcR, specRun_none, specRun_none]; exact ⟨h1, h2⟩)


/-! ### non-vacuity of the transferred statements: concrete trees over `1..3`, in every world, environment and budget -/

def rng : Node := .binary m0 ".." (.int m0 1) (.int m0 3)
/-- `# > k` -/
def gt (k : Int) : Node := .binary m0 ">" (.pointer m0) (.int m0 k)

def compiled (n : Node) : Compiled :=
  match compileProgram {} n with
  | .ok cp => cp
  | .error _ => default

def tAll : Node := .builtin m0 "all" [rng, .closure m0 (gt 0)]
def tNotAny : Node := .unary m0 "not" (.builtin m0 "any" [rng, .closure m0 (.unary m0 "not" (gt 0))])
def tNone : Node := .builtin m0 "none" [rng, .closure m0 (gt 2)]
def tNotAny2 : Node := .unary m0 "not" (.builtin m0 "any" [rng, .closure m0 (gt 2)])
def tOne : Node := .builtin m0 "one" [rng, .closure m0 (gt 2)]
def tCountEq1 : Node := .binary m0 "==" (.builtin m0 "count" [rng, .closure m0 (gt 2)]) (.int m0 1)
def tCount : Node := .builtin m0 "count" [rng, .closure m0 (gt 1)]
def tLenFilter : Node := .builtin m0 "len" [.builtin m0 "filter" [rng, .closure m0 (gt 1)]]
def tFilter : Node := .builtin m0 "filter" [rng, .closure m0 (gt 1)]
def tLenMap : Node := .builtin m0 "len" [.builtin m0 "map" [rng, .closure m0 (.pointer m0)]]
def tLen : Node := .builtin m0 "len" [rng]
def tIn : Node := .binary m0 "in" (.int m0 2) rng
def tTwoSided : Node := .binary m0 "and" (.binary m0 ">=" (.int m0 2) (.int m0 1)) (.binary m0 "<=" (.int m0 2) (.int m0 3))

set_option maxRecDepth 8000 in
theorem conf_tAll (c : Cfg) : Conf c {} tAll (compiled tAll) :=
  ⟨by unfold compiled; rfl, by decide, by decide, (fun h => by cases h),
   ⟨.inr (C01.ex_small c), ⟨trivial, trivial⟩, ⟨trivial, trivial⟩, trivial⟩⟩

set_option maxRecDepth 8000 in
theorem conf_tNotAny (c : Cfg) : Conf c {} tNotAny (compiled tNotAny) :=
  ⟨by unfold compiled; rfl, by decide, by decide, (fun h => by cases h),
   ⟨.inr (C01.ex_small c), ⟨trivial, trivial⟩, ⟨trivial, trivial⟩, trivial⟩⟩

example (c : Cfg) : ∃ N, ∀ fuel, N ≤ fuel → vmOut c (compiled tAll) fuel = vmOut c (compiled tNotAny) fuel :=
  all_eq_not_any_not_vm c {} {} rfl m0 m0 m0 m0 m0 m0 "not" "not" (.inl rfl) (.inl rfl) rng (gt 0) _ _
    (conf_tAll c) (conf_tNotAny c)

set_option maxRecDepth 8000 in
theorem conf_loop (c : Cfg) (name : String) (_hn : name ≠ "len") (body : Node) (hb : Good (SmallColl c) body)
    (hcomp : compileProgram {} (.builtin m0 name [rng, .closure m0 body]) = .ok (compiled (.builtin m0 name [rng, .closure m0 body])))
    (hfl : floatsOK (.builtin m0 name [rng, .closure m0 body]) = true)
    (hfit : FitsU16 (compiled (.builtin m0 name [rng, .closure m0 body])).code) :
    Conf c {} (.builtin m0 name [rng, .closure m0 body]) (compiled (.builtin m0 name [rng, .closure m0 body])) :=
  ⟨hcomp, hfl, hfit, (fun h => by cases h), ⟨.inr (C01.ex_small c), ⟨trivial, trivial⟩, hb, trivial⟩⟩

set_option maxRecDepth 8000 in
example (c : Cfg) : ∃ N, ∀ fuel, N ≤ fuel → vmOut c (compiled tNone) fuel = vmOut c (compiled tNotAny2) fuel :=
  none_eq_not_any_vm c {} {} rfl m0 m0 m0 "not" (.inl rfl) rng (.closure m0 (gt 2)) _ _
    (conf_loop c "none" (by decide) (gt 2) ⟨trivial, trivial⟩ (by unfold compiled; rfl) (by decide) (by decide))
    ⟨by unfold compiled; rfl, by decide, by decide, (fun h => by cases h),
      ⟨.inr (C01.ex_small c), ⟨trivial, trivial⟩, ⟨trivial, trivial⟩, trivial⟩⟩

set_option maxRecDepth 8000 in
example (c : Cfg) : ∃ N, ∀ fuel, N ≤ fuel → vmOut c (compiled tOne) fuel = vmOut c (compiled tCountEq1) fuel :=
  one_eq_count_one_vm c {} {} rfl m0 m0 m0 m0 rng (.closure m0 (gt 2)) rfl (by decide) _ _
    (conf_loop c "one" (by decide) (gt 2) ⟨trivial, trivial⟩ (by unfold compiled; rfl) (by decide) (by decide))
    ⟨by unfold compiled; rfl, by decide, by decide, (fun h => by cases h),
      ⟨⟨.inr (C01.ex_small c), ⟨trivial, trivial⟩, ⟨trivial, trivial⟩, trivial⟩, trivial⟩⟩

/-- the range `1..3` evaluates (when the budget allows) to a sequence -/
theorem rng_seq (sc : SCfg) (ctx : Ctx) (σ : SState) : ∀ coll s', eval sc ctx rng σ = (.ok coll, s') → SeqVal coll := by
  intro coll s' h
  unfold rng at h
  rw [eval_range] at h
  have e1 : eval sc ctx (.int m0 1) = pure (.int .int 1) := by rw [eval]; rfl
  have e3 : eval sc ctx (.int m0 3) = pure (.int .int 3) := by rw [eval]; rfl
  rw [e1, e3] at h
  simp only [pure_bind, toIntR_int' 1 (by decide), toIntR_int' 3 (by decide), SM.lift_ok] at h
  rw [SM.bind_apply] at h
  simp only [SM.allocBefore] at h
  generalize (if sc.rangeSizeSigned = true then (3 : Int) - 1 + 1 else if (3 : Int) - 1 + 1 < 0 then 0 else 3 - 1 + 1) = counted at h
  by_cases hb : σ.memory + counted ≥ sc.budget
  · simp [hb] at h
  · simp only [hb, if_false, SM.pure_apply, Prod.mk.injEq, Except.ok.injEq] at h
    rw [← h.1]
    exact ⟨rfl, by decide⟩

set_option maxRecDepth 8000 in
example (c : Cfg) : ∃ N, ∀ fuel, N ≤ fuel →
    vmOut c (compiled tLenFilter) fuel = chargeLen c.budget (vmOut c (compiled tCount) fuel) :=
  count_eq_len_filter_vm c {} {} rfl rfl m0 m0 m0 rng (.closure m0 (gt 1)) _ _ (rng_seq _ _ _)
    (conf_loop c "count" (by decide) (gt 1) ⟨trivial, trivial⟩ (by unfold compiled; rfl) (by decide) (by decide))
    ⟨by unfold compiled; rfl, by decide, by decide, (fun h => by cases h),
      ⟨.inl rfl, ⟨.inr (C01.ex_small c), ⟨trivial, trivial⟩, ⟨trivial, trivial⟩, trivial⟩, trivial⟩⟩

set_option maxRecDepth 8000 in
example (c : Cfg) : ∃ N, ∀ fuel, N ≤ fuel → ∀ v, (vmOut c (compiled tLenMap) fuel).1 = .ok v →
    (vmOut c (compiled tLen) fuel).1 = .ok v :=
  len_map_vm c {} {} rfl rfl m0 m0 m0 rng (.closure m0 (.pointer m0)) _ _
    ⟨by unfold compiled; rfl, by decide, by decide, (fun h => by cases h),
      ⟨.inl rfl, ⟨.inr (C01.ex_small c), ⟨trivial, trivial⟩, trivial, trivial⟩, trivial⟩⟩
    ⟨by unfold compiled; rfl, by decide, by decide, (fun h => by cases h), ⟨.inl rfl, ⟨trivial, trivial⟩, trivial⟩⟩

set_option maxRecDepth 8000 in
example (c : Cfg) : Conf c {} tFilter (compiled tFilter) :=
  conf_loop c "filter" (by decide) (gt 1) ⟨trivial, trivial⟩ (by unfold compiled; rfl) (by decide) (by decide)

set_option maxRecDepth 8000 in
example (c : Cfg) : ∃ N, ∀ fuel, N ≤ fuel →
    vmOut c (compiled tIn) fuel = chargeRange c.budget (rangeCounted (specOf c) 1 3) (rangeElems 1 3).length
      (vmOut c (compiled tTwoSided) fuel) ∧
    (vmOut c (compiled tTwoSided) fuel).1 = .ok (.bool (decide ((1 : Int) ≤ normInt .int 2 ∧ normInt .int 2 ≤ 3))) :=
  in_range_eq_two_sided_vm c {} {} rfl rfl m0 m0 m0 m0 m0 (.int m0 2) (.int m0 1) (.int m0 3) .int 2 1 3 _ _
    rfl rfl rfl (by decide) (by decide) rfl (by intro h; exact absurd h (by decide))
    ⟨by unfold compiled; rfl, by decide, by decide, (fun h => by cases h), ⟨trivial, trivial, trivial⟩⟩
    ⟨by unfold compiled; rfl, by decide, by decide, (fun h => by cases h), ⟨⟨trivial, trivial⟩, trivial, trivial⟩⟩

/-- `[5, 6, 7]` as a constant, sliced at 1 -/
def arr3 : Node := .const m0 (.arr (.num .int) [.int .int 5, .int .int 6, .int .int 7])
def tPrefix : Node := .slice m0 arr3 none (some (.int m0 1))
def tSuffix : Node := .slice m0 arr3 (some (.int m0 1)) none

set_option maxRecDepth 8000 in
example (c : Cfg) : ∃ l r, l ++ r = [Val.int .int 5, .int .int 6, .int .int 7] ∧ ∃ N, ∀ fuel, N ≤ fuel →
    vmOut c (compiled tPrefix) fuel = (.ok (.arr (.num .int) l), {}) ∧
    vmOut c (compiled tSuffix) fuel = (.ok (.arr (.num .int) r), {}) :=
  slice_partitions_vm c {} {} rfl rfl m0 m0 arr3 (.int m0 1) {} {} (.num .int) _ 1 _ _ rfl rfl (by decide) (by decide)
    (by decide)
    ⟨by unfold compiled; rfl, by decide, by decide, (fun h => by cases h), ⟨trivial, trivial, trivial⟩⟩
    ⟨by unfold compiled; rfl, by decide, by decide, (fun h => by cases h), ⟨trivial, trivial, trivial⟩⟩


/-! ### closures see their innermost collection — on the VM -/

open ExprModel.Refine ExprModel in
/-- **`closure_sees_innermost_vm`**: the compiled code of any tree `n` (in particular the body of a closure, at any
    nesting depth), placed anywhere in a program, run by the byte-level VM from two states whose scope stacks
    represent two closure contexts with the **same innermost entry** (collection and index) — whatever lies below
    it, however deep the nesting — and the same counters, ends alike: the same value pushed, or the same failure
    class, with the same counters and call log.  C01's refinement (for an arbitrary context) composed with
    `eval_depends_on_innermost_only`.  Hypotheses as in C01 `compile_correct_partial`. -/
theorem closure_sees_innermost_vm (n : Node) (cfg : CompCfg) (pool pool' : Pool) (code : List LInstr) (F : Val → Prop)
    (hc : compileNode cfg n pool = .ok (code, pool')) (hF : AliasFree F) (hinv : PoolInv F pool) (hfl : FloatsIn F n)
    (P : Prog) (pre post : List LInstr)
    (hP : P.code = (encodeAll ((pre ++ code ++ post).map (·.instr))).toArray) (hK : PoolExt pool' P.consts)
    (hfit : FitsU16 code) (c : Cfg) (henv : EnvOK c cfg) (hg : Good (SmallColl c) n)
    (ctx1 ctx2 : Ctx) (hhead : ctx1.head? = ctx2.head?) (s1 s2 : VM)
    (hip1 : s1.ip = lsize pre) (hip2 : s2.ip = lsize pre) (hl1 : s1.limit = c.budget) (hl2 : s2.limit = c.budget)
    (hsc1 : ScopesOK ctx1 s1.scopes) (hsc2 : ScopesOK ctx2 s2.scopes) (hobs : obs s1 = obs s2) :
    (∃ v σ' t1 t2, Steps c P s1 t1 ∧ Steps c P s2 t2 ∧ t1.stack = v :: s1.stack ∧ t2.stack = v :: s2.stack ∧
        t1.scopes = s1.scopes ∧ t2.scopes = s2.scopes ∧ obs t1 = σ' ∧ obs t2 = σ') ∨
    (∃ e σ' a1 b1 a2 b2, Steps c P s1 a1 ∧ step c P a1 = .error (e, b1) ∧ Steps c P s2 a2 ∧
        step c P a2 = .error (e, b2) ∧ obs b1 = σ' ∧ obs b2 = σ') := by
  have h1 := C01.compile_correct_partial n cfg pool pool' code F hc hF hinv hfl P pre post hP hK hfit c henv hg ctx1
    s1 hip1 hl1 hsc1
  have h2 := C01.compile_correct_partial n cfg pool pool' code F hc hF hinv hfl P pre post hP hK hfit c henv hg ctx2
    s2 hip2 hl2 hsc2
  have heq : eval (specOf c) ctx2 n (obs s2) = eval (specOf c) ctx1 n (obs s1) := by
    rw [eval_depends_on_innermost_only (specOf c) ctx1 ctx2 hhead n, hobs]
  rcases hr : eval (specOf c) ctx1 n (obs s1) with ⟨r, σ'⟩
  have g1 := h1 r σ' hr
  have g2 := h2 r σ' (heq.trans hr)
  cases r with
  | ok v =>
    obtain ⟨t1, st1, _, hs1, hc1, _, ho1⟩ := g1
    obtain ⟨t2, st2, _, hs2, hc2, _, ho2⟩ := g2
    exact Or.inl ⟨v, σ', t1, t2, st1, st2, hs1, hs2, hc1, hc2, ho1, ho2⟩
  | error e =>
    obtain ⟨a1, b1, sa1, _, hb1, ho1⟩ := g1
    obtain ⟨a2, b2, sa2, _, hb2, ho2⟩ := g2
    exact Or.inr ⟨e, σ', a1, b1, a2, b2, sa1, hb1, sa2, hb2, ho1, ho2⟩

/-- non-vacuity of the scope hypotheses: the same innermost scope (element 1 of `[5, 6]`) on top of nothing, and on
    top of two enclosing loops over other collections — both represent contexts with the same head -/
example :
    let coll : Val := .arr .iface [.int .int 5, .int .int 6]
    let sc : Scope := [("array", coll), ("i", .int .int 1)]
    let out1 : Scope := [("array", .arr .iface [.str "x"]), ("i", .int .int 0)]
    let out2 : Scope := [("array", .arr .iface []), ("i", .int .int 7), ("count", .int .int 3)]
    Refine.ScopesOK [(coll, 1)] [sc] ∧
    Refine.ScopesOK [(coll, 1), (.arr .iface [.str "x"], 0), (.arr .iface [], 7)] [sc, out1, out2] ∧
    ([(coll, (1 : Int))] : Ctx).head? = ([(coll, 1), (.arr .iface [.str "x"], 0), (.arr .iface [], 7)] : Ctx).head? := by
  refine ⟨⟨_, _, rfl, rfl, rfl⟩, ⟨_, _, rfl, rfl, rfl⟩, rfl⟩

end ExprModel.C18
