import ExprModel.Proofs.SpecLoops
/-
C18 — Collection builtins satisfy their defining identities.

All theorems are about the reference evaluator `Spec.eval` (tied to the real compiler + VM by the
C01 correspondence and by the C18 harness, which runs both sides of every identity on the real code
and through the `speceval` stage).  Closure bodies, collections, environments, contexts and start
states are arbitrary.  Evaluation has effects (call log, allocation counters) and can fail, so every
identity says which observables it preserves:

* `=` between two `SM` computations: same value or error class **and** the same final state (call
  log, memory total, created total) from every start state;
* identities whose one side builds an intermediate array (`filter`, `map`, a run-time range) are
  exact equations up to an explicit allocation charge (`chargeLen`, `chargeRange`), from which the
  equal-value / equal-log corollaries follow when the budget is not reached.
-/
namespace ExprModel.C18
open ExprModel ExprModel.Spec

/-! ### all / none / one -/

/-- `all(xs, {p}) = not any(xs, {not p})`: equal as computations — same value or error class (a
    predicate failing, or returning a non-bool, at element k fails both sides at element k with the
    same class), same call log (both stop at the first falsifying element), same allocation totals. -/
theorem all_eq_not_any_not (c : SCfg) (ctx : Ctx) (m m' mu mc mc' mn : Meta) (op op' : String)
    (hop : isNotOp op) (hop' : isNotOp op') (xs p : Node) :
    eval c ctx (.builtin m "all" [xs, .closure mc p]) =
    eval c ctx (.unary mu op (.builtin m' "any" [xs, .closure mc' (.unary mn op' p)])) := by
  rw [eval_all, eval_not _ _ _ _ hop, eval_any]
  simp only [bind_assoc]
  congr 1; funext coll
  congr 1; funext n
  rw [predAt_closure, predAt_closure, allM_eq_not_anyM_not]
  simp only [bind_assoc, pure_bind]
  have : predAt c ctx coll (.unary mn op' p) = (fun i => do
      let b ← predAt c ctx coll p i
      pure !b) := by
    funext i; exact predAt_not c ctx coll mn op' hop' p i
  rw [this]
  rfl

example : isNotOp "not" ∧ isNotOp "!" := ⟨Or.inl rfl, Or.inr rfl⟩

/-- `none(xs, {p}) = not any(xs, {p})`: equal as computations (value / error class, call log,
    allocation totals). -/
theorem none_eq_not_any (c : SCfg) (ctx : Ctx) (m m' mu : Meta) (op : String) (hop : isNotOp op)
    (xs b : Node) :
    eval c ctx (.builtin m "none" [xs, b]) =
    eval c ctx (.unary mu op (.builtin m' "any" [xs, b])) := by
  rw [eval_none, eval_not _ _ _ _ hop, eval_any]
  simp only [bind_assoc]
  congr 1

end ExprModel.C18
