import ExprModel.Proofs.SpecOps
/-
C18 — Collection builtins satisfy their defining identities.

All theorems are about the reference evaluator `Spec.eval` (tied to the real compiler + VM by the
C01 correspondence and by the C18 harness, which runs both sides of every identity on the real code
and through the `speceval` stage).  Closure bodies, collections, environments, contexts and start
states are arbitrary.  Evaluation has effects (call log, allocation counters) and can fail, so every
identity says which observables it preserves:

* `=` between two `SM` computations: same value or error class **and** the same final state (call
  log, memory total, created total) from every start state;
* identities whose one side builds an intermediate array (`filter`, `map`, a run-time range) are
  exact equations up to an explicit allocation charge (`chargeLen`, `chargeRange`), from which the
  equal-value / equal-log corollaries follow when the budget is not reached.
-/
namespace ExprModel.C18
open ExprModel ExprModel.Spec

/-! ### all / none / one -/

/-- `all(xs, {p}) = not any(xs, {not p})`: equal as computations — same value or error class (a
    predicate failing, or returning a non-bool, at element k fails both sides at element k with the
    same class), same call log (both stop at the first falsifying element), same allocation totals. -/
theorem all_eq_not_any_not (c : SCfg) (ctx : Ctx) (m m' mu mc mc' mn : Meta) (op op' : String)
    (hop : isNotOp op) (hop' : isNotOp op') (xs p : Node) :
    eval c ctx (.builtin m "all" [xs, .closure mc p]) =
    eval c ctx (.unary mu op (.builtin m' "any" [xs, .closure mc' (.unary mn op' p)])) := by
  rw [eval_all, eval_not _ _ _ _ hop, eval_any]
  simp only [bind_assoc]
  congr 1; funext coll
  congr 1; funext n
  rw [predAt_closure, predAt_closure, allM_eq_not_anyM_not]
  simp only [bind_assoc, pure_bind]
  have : predAt c ctx coll (.unary mn op' p) = (fun i => do
      let b ← predAt c ctx coll p i
      pure !b) := by
    funext i; exact predAt_not c ctx coll mn op' hop' p i
  rw [this]
  rfl

example : isNotOp "not" ∧ isNotOp "!" := ⟨Or.inl rfl, Or.inr rfl⟩

/-- `none(xs, {p}) = not any(xs, {p})`: equal as computations (value / error class, call log,
    allocation totals). -/
theorem none_eq_not_any (c : SCfg) (ctx : Ctx) (m m' mu : Meta) (op : String) (hop : isNotOp op)
    (xs b : Node) :
    eval c ctx (.builtin m "none" [xs, b]) =
    eval c ctx (.unary mu op (.builtin m' "any" [xs, b])) := by
  rw [eval_none, eval_not _ _ _ _ hop, eval_any]
  simp only [bind_assoc]
  congr 1

/-- `one(xs, {p}) = (count(xs, {p}) == 1)`: equal as computations (value / error class, call log,
    allocation totals), for a literal `1` that denotes the `int` 1 (any annotation except a float or a
    narrower integer kind) and a `count` node not annotated as a string — with the checker's annotation
    (`int` on both) the comparison is the specialised `OpEqualInt`, without annotation the generic one. -/
theorem one_eq_count_one (c : SCfg) (ctx : Ctx) (m m' me m1 : Meta) (xs b : Node)
    (h1 : intConst m1.kd 1 = .int .int 1) (hk : m'.kd ≠ .string) :
    eval c ctx (.builtin m "one" [xs, b]) =
    eval c ctx (.binary me "==" (.builtin m' "count" [xs, b]) (.int m1 1)) := by
  rw [eval_one, eval_eq, eval_count]
  have hlit : eval c ctx (.int m1 1) = pure (.int .int 1) := by rw [eval, h1]
  simp only [bind_assoc, hlit, pure_bind]
  congr 1; funext coll
  congr 1; funext n
  congr 1; funext bs
  split
  · rfl
  · split
    · rename_i h2 h3
      simp [Node.kd, Node.getMeta] at h3
      exact absurd h3.2 hk
    · rw [equalV_int_int]

example : intConst ({ kd := .num .int } : Meta).kd 1 = .int .int 1 ∧ intConst ({} : Meta).kd 1 = .int .int 1 :=
  ⟨by simp [intConst, wrap, Kind.bits, Kind.isSigned], by simp [intConst]⟩

/-! ### count / filter / map -/

/-- what `len(filter(…))` adds to `count(…)`: the kept elements are built and charged to the budget -/
def chargeLen (budget : Int) : R Val × SState → R Val × SState
  | (.ok (.int .int k), s) =>
    let s' := { s with memory := s.memory + k, created := s.created + k.toNat }
    if s'.memory ≥ budget then (.error .budget, s') else (.ok (.int .int k), s')
  | r => r

/-- `len(filter(xs, {p})) = count(xs, {p})` up to the allocation of the filtered array, exactly: for a
    collection that is an array (or string), the left side is the right side followed by charging the
    `k` kept elements (`chargeLen`).  Hence (corollaries below): same call log always, same error when
    `count` fails (same element, same class, same state), same value unless the budget is reached. -/
theorem count_eq_len_filter (c : SCfg) (ctx : Ctx) (m m' ml : Meta) (xs b : Node) (s : SState)
    (hseq : ∀ coll s', eval c ctx xs s = (.ok coll, s') → SeqVal coll) :
    eval c ctx (.builtin ml "len" [.builtin m' "filter" [xs, b]]) s =
    chargeLen c.budget (eval c ctx (.builtin m "count" [xs, b]) s) := by
  rw [eval_len, SM.bind_apply, eval_filter_seq c ctx m' xs b s hseq, eval_count_seq c ctx m xs b s hseq,
    SM.bind_apply, SM.bind_apply]
  rcases h : eval c ctx xs s with ⟨r, s1⟩
  cases r with
  | error e => rfl
  | ok coll =>
    simp only [filterOn, countOn, SM.bind_apply]
    rcases h2 : seqIdx (predAt c ctx coll b) (elemsOf coll).length 0 s1 with ⟨r2, s2⟩
    cases r2 with
    | error e => rfl
    | ok bs =>
      have hl := seqIdx_length _ _ _ _ _ _ h2
      have hk := keep_length (elemsOf coll) bs hl
      have hn : (countTrue bs).toNat = (keep (elemsOf coll) bs).length := by rw [← hk]; simp
      simp only [SM.pure_apply, SM.allocAfter, chargeLen, hk, hn]
      by_cases hb : s2.memory + countTrue bs ≥ c.budget
      · simp only [hb, if_true]
      · simp only [hb, if_false, lengthV, SM.lift_ok, SM.pure_apply, hk]

/-! concrete instances used as non-vacuity witnesses -/
def w0 : World := { call := fun _ _ => .error .type_, regexMatch := fun _ _ => none, pow := fun x _ => x }
def c0 : SCfg := { world := w0, env := .map [("M", .map [("a", .int .int 1)])], budget := 1000 }
/-- `[5, 6]` -/
def xs0 : Node := .array {} [.int {} 5, .int {} 6]
theorem xs0_eval : eval c0 [] xs0 {} = (.ok (.arr .iface [.int .int 5, .int .int 6]), { memory := 2, created := 2 }) := rfl

example : ∀ coll s', eval c0 [] xs0 {} = (.ok coll, s') → SeqVal coll := by
  intro coll s' h
  rw [xs0_eval] at h
  simp only [Prod.mk.injEq, Except.ok.injEq] at h
  rw [← h.1]
  exact ⟨rfl, by simp [elemsOf]⟩

/-- the call log of `len(filter(…))` equals that of `count(…)`, budget reached or not -/
theorem count_len_filter_log (c : SCfg) (ctx : Ctx) (m m' ml : Meta) (xs b : Node) (s : SState)
    (hseq : ∀ coll s', eval c ctx xs s = (.ok coll, s') → SeqVal coll) :
    (eval c ctx (.builtin ml "len" [.builtin m' "filter" [xs, b]]) s).2.log =
    (eval c ctx (.builtin m "count" [xs, b]) s).2.log := by
  rw [count_eq_len_filter c ctx m m' ml xs b s hseq]
  rcases eval c ctx (.builtin m "count" [xs, b]) s with ⟨r, s1⟩
  cases r with
  | error e => rfl
  | ok v =>
    unfold chargeLen
    split
    · rename_i h; simp only [Prod.mk.injEq, Except.ok.injEq] at h
      simp only [← h.2]
      split <;> rfl
    · rfl

/-- a failure of `count` (collection, predicate at element k, non-bool) is the failure of `len(filter)`:
    same class, same state -/
theorem count_len_filter_error (c : SCfg) (ctx : Ctx) (m m' ml : Meta) (xs b : Node) (s s1 : SState)
    (e : ErrClass)
    (hseq : ∀ coll s', eval c ctx xs s = (.ok coll, s') → SeqVal coll)
    (h : eval c ctx (.builtin m "count" [xs, b]) s = (.error e, s1)) :
    eval c ctx (.builtin ml "len" [.builtin m' "filter" [xs, b]]) s = (.error e, s1) := by
  rw [count_eq_len_filter c ctx m m' ml xs b s hseq, h]; rfl

/-- same value when the budget is not reached; `budget` otherwise -/
theorem count_len_filter_value (c : SCfg) (ctx : Ctx) (m m' ml : Meta) (xs b : Node) (s s1 : SState)
    (k : Int)
    (hseq : ∀ coll s', eval c ctx xs s = (.ok coll, s') → SeqVal coll)
    (h : eval c ctx (.builtin m "count" [xs, b]) s = (.ok (.int .int k), s1)) :
    (eval c ctx (.builtin ml "len" [.builtin m' "filter" [xs, b]]) s).1 =
      if s1.memory + k ≥ c.budget then .error .budget else .ok (.int .int k) := by
  rw [count_eq_len_filter c ctx m m' ml xs b s hseq, h]
  simp only [chargeLen]
  split <;> rfl

/-- `count` only ever returns an `int` -/
theorem count_returns_int (c : SCfg) (ctx : Ctx) (m : Meta) (xs b : Node) (s s1 : SState) (v : Val)
    (h : eval c ctx (.builtin m "count" [xs, b]) s = (.ok v, s1)) : ∃ k, v = .int .int k := by
  rw [eval_count] at h
  simp only [SM.bind_apply] at h
  rcases h0 : eval c ctx xs s with ⟨r, s0⟩
  rw [h0] at h
  cases r with
  | error e => simp at h
  | ok coll =>
    simp only at h
    rcases h1 : SM.lift (lengthV coll) s0 with ⟨r1, s2⟩
    rw [h1] at h
    cases r1 with
    | error e => simp at h
    | ok n =>
      simp only at h
      rcases h2 : seqIdx (predAt c ctx coll b) n.toNat 0 s2 with ⟨r2, s3⟩
      rw [h2] at h
      cases r2 with
      | error e => simp at h
      | ok bs => simp at h; exact ⟨_, h.1.symm⟩

/-! ### map -/

/-- `map` after its collection has been evaluated: run the mapper at every index, then charge `n` -/
def mapOutcome (budget n : Int) : R (List Val) × SState → R Val × SState
  | (.ok vs, s1) =>
    let s2 := { s1 with memory := s1.memory + n, created := s1.created + vs.length }
    if s2.memory ≥ budget then (.error .budget, s2) else (.ok (.arr .iface vs), s2)
  | (.error e, s1) => (.error e, s1)

theorem map_eq (c : SCfg) (ctx : Ctx) (m : Meta) (xs f : Node) (s s0 : SState) (coll : Val) (n : Int)
    (hx : eval c ctx xs s = (.ok coll, s0)) (hn : lengthV coll = .ok n) :
    eval c ctx (.builtin m "map" [xs, f]) s =
      mapOutcome c.budget n (seqIdx (bodyAt c ctx coll f) n.toNat 0 s0) := by
  rw [eval_map, SM.bind_apply, hx]
  simp only [hn, SM.lift_ok, SM.bind_apply, SM.pure_apply]
  rcases h1 : seqIdx (bodyAt c ctx coll f) n.toNat 0 s0 with ⟨r1, s1⟩
  cases r1 with
  | error e => rfl
  | ok vs =>
    simp only [SM.allocAfter, mapOutcome]
    by_cases hb : s1.memory + n ≥ c.budget
    · simp only [hb, if_true]
    · simp only [hb, if_false]

/-- `len(map(xs, {f}))` and `len(xs)`: whenever the left side succeeds, the right side (from the same
    start state) succeeds with the same value.  Only the value is preserved: the left side also logs
    the calls made by `f` and charges the mapped array. -/
theorem len_map (c : SCfg) (ctx : Ctx) (ml ml' m : Meta) (xs f : Node) (s s1 : SState) (v : Val)
    (h : eval c ctx (.builtin ml "len" [.builtin m "map" [xs, f]]) s = (.ok v, s1)) :
    ∃ s0, eval c ctx (.builtin ml' "len" [xs]) s = (.ok v, s0) := by
  rw [eval_len, SM.bind_apply] at h
  rw [eval_len, SM.bind_apply]
  rcases hx : eval c ctx xs s with ⟨rx, s0⟩
  cases rx with
  | error e =>
    rw [eval_map, SM.bind_apply, hx] at h; simp at h
  | ok coll =>
    simp only
    cases hn : lengthV coll with
    | error e =>
      rw [eval_map, SM.bind_apply, hx] at h; simp [hn, SM.bind_apply] at h
    | ok n =>
      rw [map_eq c ctx m xs f s s0 coll n hx hn] at h
      rcases h1 : seqIdx (bodyAt c ctx coll f) n.toNat 0 s0 with ⟨r1, s2⟩
      rw [h1] at h
      cases r1 with
      | error e => simp [mapOutcome] at h
      | ok vs =>
        have hl := seqIdx_length _ _ _ _ _ _ h1
        have hn0 := lengthV_nonneg hn
        simp only [mapOutcome] at h
        by_cases hb : s2.memory + n ≥ c.budget
        · simp [hb] at h
        · simp only [hb, if_false, lengthV, SM.lift_ok, SM.bind_apply, SM.pure_apply, Prod.mk.injEq, Except.ok.injEq] at h
          refine ⟨s0, ?_⟩
          simp only [SM.lift_ok, SM.bind_apply, SM.pure_apply, Prod.mk.injEq, Except.ok.injEq, and_true]
          rw [← h.1, hl]; congr 1; omega

/-- conversely, when every evaluation of `f` succeeds and the budget is not reached, both sides
    succeed with the length of the collection -/
theorem len_map_ok (c : SCfg) (ctx : Ctx) (ml ml' m : Meta) (xs f : Node) (s s0 s1 : SState) (coll : Val)
    (n : Int) (vs : List Val)
    (hx : eval c ctx xs s = (.ok coll, s0)) (hn : lengthV coll = .ok n)
    (hf : seqIdx (bodyAt c ctx coll f) n.toNat 0 s0 = (.ok vs, s1))
    (hb : s1.memory + n < c.budget) :
    eval c ctx (.builtin ml "len" [.builtin m "map" [xs, f]]) s =
      (.ok (.int .int n), { s1 with memory := s1.memory + n, created := s1.created + vs.length }) ∧
    eval c ctx (.builtin ml' "len" [xs]) s = (.ok (.int .int n), s0) := by
  have hl := seqIdx_length _ _ _ _ _ _ hf
  have hn0 := lengthV_nonneg hn
  constructor
  · rw [eval_len, SM.bind_apply, map_eq c ctx m xs f s s0 coll n hx hn, hf]
    have : ¬ (s1.memory + n ≥ c.budget) := by omega
    simp only [mapOutcome, this, if_false, lengthV, SM.lift_ok, SM.bind_apply, SM.pure_apply, hl]
    congr 3; omega
  · rw [eval_len, SM.bind_apply, hx]
    simp only [hn, SM.lift_ok, SM.bind_apply, SM.pure_apply]

/-- error behaviour of `map`: once the collection is evaluated, `map` fails iff some evaluation of `f`
    fails (at the first such index `k`, with that class and in that state, all earlier ones having
    succeeded), or the budget is reached after all of them succeeded -/
theorem map_fails_iff (c : SCfg) (ctx : Ctx) (m : Meta) (xs f : Node) (s s0 s' : SState) (coll : Val)
    (n : Int) (e : ErrClass)
    (hx : eval c ctx xs s = (.ok coll, s0)) (hn : lengthV coll = .ok n) :
    eval c ctx (.builtin m "map" [xs, f]) s = (.error e, s') ↔
      (∃ k, k < n.toNat ∧ ∃ vs sk, seqIdx (bodyAt c ctx coll f) k 0 s0 = (.ok vs, sk) ∧
          bodyAt c ctx coll f k sk = (.error e, s')) ∨
      (∃ vs s1, seqIdx (bodyAt c ctx coll f) n.toNat 0 s0 = (.ok vs, s1) ∧ s1.memory + n ≥ c.budget ∧
          e = .budget ∧ s' = { s1 with memory := s1.memory + n, created := s1.created + vs.length }) := by
  rw [map_eq c ctx m xs f s s0 coll n hx hn]
  rcases h1 : seqIdx (bodyAt c ctx coll f) n.toNat 0 s0 with ⟨r1, s1⟩
  cases r1 with
  | error e1 =>
    have := seqIdx_error_iff (bodyAt c ctx coll f) n.toNat 0 s0 s' e
    simp only [Nat.zero_add] at this
    rw [← this, h1]
    simp [mapOutcome]
  | ok vs =>
    have hno : ¬ ∃ k, k < n.toNat ∧ ∃ vs sk, seqIdx (bodyAt c ctx coll f) k 0 s0 = (.ok vs, sk) ∧
          bodyAt c ctx coll f k sk = (.error e, s') := by
      intro hh
      have := (seqIdx_error_iff (bodyAt c ctx coll f) n.toNat 0 s0 s' e).2 (by simpa using hh)
      rw [h1] at this; simp at this
    simp only [hno, false_or, mapOutcome]
    constructor
    · intro h
      split at h
      · rename_i hb
        simp only [Prod.mk.injEq, Except.error.injEq] at h
        exact ⟨vs, s1, rfl, hb, h.1.symm, h.2.symm⟩
      · simp at h
    · rintro ⟨vs', s1', hh, hb, he, hs⟩
      simp only [Prod.mk.injEq, Except.ok.injEq] at hh
      rw [← hh.1, ← hh.2] at hs
      rw [← hh.2] at hb
      simp [hb, he, hs]

end ExprModel.C18
