import ExprModel.Gen.Writes
import ExprModel.Api.Determinism
import ExprModel.VM.Interleave
/-
C09 — Compile and Run are pure and deterministic.

In the model `compile` and `run` are functions, so "same input, same output" is true by construction; what
could break it in Go is (a) iteration over a map while building something that ends up in the program,
(b) a write through the program, the environment or the sample environment, (c) a source of values that is
not a function of the inputs (time, rand, goroutines, package-level state).  Each is tied to /repo's
current source by `Gen/Writes.lean` (regenerated on every run by the translator's points-to analysis):

* `map_iteration_sites_as_expected` pins the `range`-over-map sites and the reflect `MapKeys` uses on the
  Compile path; for each of them an order-insensitivity theorem is proved below on a model of the loop, for
  *all* permutations of the iterated entries.  A new site changes the generated list and fails the theorem.
  (Loops of the shape `m[k] = g(m[k], v)` are covered generically by `keyedLoop_perm_invariant`.)
* `run_readonly` / `compile_writes_nothing_shared`: no write site reaches memory shared with the caller.
* `no_nondeterminism_sources`, `package_vars_never_assigned`.

Not invariant, and said so: *which* error `Config.Check` reports when two operator functions (or two
ConstExpr members) are invalid depends on the iteration order (`config_check_error_choice_depends_on_order`);
only error-versus-success is order-independent.  The harness therefore compares error *presence* there.
-/
namespace ExprModel.C09
open ExprModel ExprModel.Determinism

/-! ## Order-insensitivity of loops of the shape `m[k] = g(m[k], v)` over entries with distinct keys -/

theorem keyedStep_comm {K V W : Type} [DecidableEq K] (g : Option V → W → V) (m : GoMap K V)
    (a b : K × W) (h : a.1 ≠ b.1) :
    keyedStep g (keyedStep g m a) b = keyedStep g (keyedStep g m b) a := by
  funext k
  have h' : b.1 ≠ a.1 := fun e => h e.symm
  simp only [keyedStep, GoMap.set, h, h', if_false]
  by_cases hb : k = b.1
  · subst hb; simp [h']
  · by_cases ha : k = a.1
    · subst ha; simp [hb]
    · simp [ha, hb]

private theorem eq_of_key_eq {K W : Type} :
    ∀ (l : List (K × W)), (l.map Prod.fst).Nodup → ∀ x ∈ l, ∀ y ∈ l, x.1 = y.1 → x = y
  | [], _, x, hx, _, _, _ => by cases hx
  | e :: l, nd, x, hx, y, hy, hk => by
    simp only [List.map_cons, List.nodup_cons, List.mem_map, not_exists, not_and] at nd
    rcases List.mem_cons.1 hx with rfl | hx' <;> rcases List.mem_cons.1 hy with rfl | hy'
    · rfl
    · exact absurd hk.symm (nd.1 y hy')
    · exact absurd hk (nd.1 x hx')
    · exact eq_of_key_eq l nd.2 x hx' y hy' hk

/-- **Any** enumeration order of a map's entries gives the same result for a loop whose body touches only
    the entry of the key it visits. -/
theorem keyedLoop_perm_invariant {K V W : Type} [DecidableEq K] (g : Option V → W → V)
    {l₁ l₂ : List (K × W)} (p : l₁.Perm l₂) (nd : (l₁.map Prod.fst).Nodup) (m : GoMap K V) :
    keyedLoop g m l₁ = keyedLoop g m l₂ := by
  unfold keyedLoop
  refine p.foldl_eq' ?_ m
  intro x hx y hy z
  by_cases hxy : x.1 = y.1
  · rw [eq_of_key_eq l₁ nd x hx y hy hxy]
  · exact keyedStep_comm g z x y hxy

/-- CreateTypesTable over `v.MapKeys()`: the table does not depend on the order of the keys. -/
theorem typesTable_perm_invariant {l₁ l₂ : List (String × Tag)} (p : l₁.Perm l₂)
    (nd : (l₁.map Prod.fst).Nodup) : typesFromMap l₁ = typesFromMap l₂ :=
  keyedLoop_perm_invariant _ p nd _

/-- the distinct-keys hypothesis is needed (and is what a Go map guarantees): with a repeated key the last
    write wins, so the order shows -/
theorem typesTable_needs_distinct_keys :
    typesFromMap [("a", ⟨"int", false, false⟩), ("a", ⟨"string", false, false⟩)] "a" ≠
    typesFromMap [("a", ⟨"string", false, false⟩), ("a", ⟨"int", false, false⟩)] "a" := by decide

/-! ## Config.Check: success-versus-error is order-independent, the reported error is not -/

private theorem isSome_findSome? {α β : Type} (f : α → Option β) :
    ∀ l : List α, (l.findSome? f).isSome = l.any (fun a => (f a).isSome)
  | [] => rfl
  | a :: l => by
    simp only [List.findSome?_cons, List.any_cons]
    cases h : f a with
    | some b => simp
    | none => simpa using isSome_findSome? f l

private theorem any_perm {α : Type} (q : α → Bool) {l₁ l₂ : List α} (p : l₁.Perm l₂) : l₁.any q = l₂.any q := by
  induction p with
  | nil => rfl
  | cons x _ ih => simp [List.any_cons, ih]
  | swap x y l => simp only [List.any_cons]; cases q x <;> cases q y <;> rfl
  | trans _ _ ih₁ ih₂ => exact ih₁.trans ih₂

private theorem configCheck_isSome (f : FnFacts) (ops : List (String × List String)) (fns : List (String × Bool))
    (d : Option String) :
    (configCheck f ops fns d).isSome =
      ((checkOperators f ops).isSome || (checkConstExprs fns).isSome || d.isSome) := by
  unfold configCheck
  cases checkOperators f ops <;> cases checkConstExprs fns <;> cases d <;> rfl

/-- Whether `Config.Check` fails does not depend on the order in which Go iterates `c.Operators` and
    `c.ConstExprFns`. -/
theorem config_check_verdict_perm_invariant (f : FnFacts)
    {ops₁ ops₂ : List (String × List String)} {fns₁ fns₂ : List (String × Bool)}
    (po : ops₁.Perm ops₂) (pf : fns₁.Perm fns₂) (d : Option String) :
    (configCheck f ops₁ fns₁ d).isSome = (configCheck f ops₂ fns₂ d).isSome := by
  rw [configCheck_isSome, configCheck_isSome]
  unfold checkOperators checkConstExprs
  rw [isSome_findSome?, isSome_findSome?, isSome_findSome?, isSome_findSome?, any_perm _ po, any_perm _ pf]

/-- …but *which* error is reported does: two operators with missing functions, visited in the two orders.
    (Reported as an observation: the error text of a Compile call with two invalid Operator/ConstExpr
    options is not deterministic; no program is produced either way.) -/
theorem config_check_error_choice_depends_on_order :
    let f : FnFacts := { isFunc := fun _ => false, goodSignature := fun _ => true }
    configCheck f [("+", ["add"]), ("-", ["sub"])] [] none = some (.missingFn "add" "+") ∧
    configCheck f [("-", ["sub"]), ("+", ["add"])] [] none = some (.missingFn "sub" "-") := by decide

/-! ## The constant pool: constants in first-occurrence order of the emission sequence -/

section pool
variable {V : Type} [DecidableEq V] (hashable : V → Bool)

/-- index and slice agree: every index entry points at its value, every hashable constant is indexed -/
def PoolInv (p : Pool V) : Prop :=
  (∀ v i, p.index v = some i → hashable v = true ∧ p.constants[i]? = some v) ∧
  (∀ v, hashable v = true → v ∈ p.constants → (p.index v).isSome = true)

omit [DecidableEq V] in
theorem poolInv_empty : PoolInv hashable (Pool.empty : Pool V) :=
  ⟨fun _ _ h => by simp [Pool.empty, GoMap.empty] at h, fun _ _ h => by simp [Pool.empty] at h⟩

omit [DecidableEq V] in
private theorem getElem?_append_of_some {l : List V} {i : Nat} {v w : V} (h : l[i]? = some v) :
    (l ++ [w])[i]? = some v := by
  have hi : i < l.length := by
    cases Nat.lt_or_ge i l.length with
    | inl h' => exact h'
    | inr h' => rw [List.getElem?_eq_none h'] at h; cases h
  rw [List.getElem?_append_left hi]; exact h

/-- one `makeConstant`: the invariant is kept, the pool grows by the spec's rule, and the emitted operand
    addresses the value -/
theorem make_spec (p : Pool V) (v : V) (inv : PoolInv hashable p) :
    PoolInv hashable (p.make hashable v).1 ∧
    (p.make hashable v).1.constants =
      (if hashable v && p.constants.contains v then p.constants else p.constants ++ [v]) ∧
    (p.make hashable v).1.constants[(p.make hashable v).2]? = some v := by
  obtain ⟨inv1, inv2⟩ := inv
  unfold Pool.make
  cases hh : hashable v with
  | false =>
    simp only [Bool.false_eq_true, if_false, Bool.false_and]
    refine ⟨⟨fun v' i h => ?_, fun v' hv' hm => ?_⟩, trivial, by simp⟩
    · exact ⟨(inv1 v' i h).1, getElem?_append_of_some (inv1 v' i h).2⟩
    · rcases List.mem_append.1 hm with hm | hm
      · exact inv2 v' hv' hm
      · simp at hm; subst hm; rw [hh] at hv'; cases hv'
  | true =>
    simp only [if_true, Bool.true_and]
    cases hi : p.index v with
    | some i =>
      have hmem : p.constants.contains v = true := by
        have := (inv1 v i hi).2
        simp only [List.contains_iff_mem]
        exact List.mem_of_getElem? this
      simp only [hmem, if_true]
      exact ⟨⟨inv1, inv2⟩, trivial, (inv1 v i hi).2⟩
    | none =>
      have hnot : p.constants.contains v = false := by
        cases hc : p.constants.contains v with
        | false => rfl
        | true =>
          have := inv2 v hh (by simpa using hc)
          rw [hi] at this; cases this
      simp only [hnot, Bool.false_eq_true, if_false]
      refine ⟨⟨fun v' i h => ?_, fun v' hv' hm => ?_⟩, trivial, by simp⟩
      · simp only [GoMap.set] at h
        by_cases e : v' = v
        · subst e; simp only [if_true, Option.some.injEq] at h; subst h
          exact ⟨hh, by simp⟩
        · simp only [e, if_false] at h
          exact ⟨(inv1 v' i h).1, getElem?_append_of_some (inv1 v' i h).2⟩
      · simp only [GoMap.set]
        by_cases e : v' = v
        · simp [e]
        · simp only [e, if_false]
          rcases List.mem_append.1 hm with hm | hm
          · exact inv2 v' hv' hm
          · simp at hm; exact absurd hm e

/-- **The constant pool is the emission sequence with later duplicates of hashable values dropped** —
    a function of the sequence alone (for every sequence, by induction). -/
theorem constants_in_first_occurrence_order (vs : List V) (p : Pool V) (inv : PoolInv hashable p) :
    (p.run hashable vs).constants = specPool hashable p.constants vs := by
  induction vs generalizing p with
  | nil => rfl
  | cons v vs ih =>
    have ⟨inv', hc, _⟩ := make_spec hashable p v inv
    simp only [Pool.run, List.foldl_cons, specPool]
    have := ih (p.make hashable v).1 inv'
    simp only [Pool.run] at this
    rw [this, hc]
    cases hashable v && p.constants.contains v <;> simp

/-- every operand emitted along the way addresses the value it was made for -/
theorem operand_addresses_value (p : Pool V) (v : V) (inv : PoolInv hashable p) :
    (p.make hashable v).1.constants[(p.make hashable v).2]? = some v :=
  (make_spec hashable p v inv).2.2

/-- the spec keeps the order of the emission sequence: the pool is `acc` followed by a sublist of `vs` -/
theorem specPool_sublist (acc vs : List V) :
    ∃ s, s.Sublist vs ∧ specPool hashable acc vs = acc ++ s := by
  induction vs generalizing acc with
  | nil => exact ⟨[], List.Sublist.slnil, by simp [specPool]⟩
  | cons v vs ih =>
    simp only [specPool]
    cases hashable v && acc.contains v with
    | true =>
      obtain ⟨s, hs, e⟩ := ih acc
      exact ⟨s, hs.cons _, by simpa using e⟩
    | false =>
      obtain ⟨s, hs, e⟩ := ih (acc ++ [v])
      exact ⟨v :: s, hs.cons_cons _, by simpa using e⟩

theorem constants_sublist_of_emission (vs : List V) :
    ((Pool.empty : Pool V).run hashable vs).constants.Sublist vs := by
  rw [constants_in_first_occurrence_order hashable vs _ (poolInv_empty hashable)]
  obtain ⟨s, hs, e⟩ := specPool_sublist hashable [] vs
  simpa [Pool.empty, e] using hs

private theorem specPool_mem_acc (acc vs : List V) (v : V) (h : v ∈ acc) : v ∈ specPool hashable acc vs := by
  obtain ⟨s, _, e⟩ := specPool_sublist hashable acc vs
  rw [e]; exact List.mem_append_left _ h

/-- nothing is lost: every emitted value is in the pool -/
theorem constants_complete (vs : List V) (acc : List V) : ∀ v ∈ vs, v ∈ specPool hashable acc vs := by
  induction vs generalizing acc with
  | nil => intro v h; cases h
  | cons w vs ih =>
    intro v hv
    simp only [specPool]
    rcases List.mem_cons.1 hv with rfl | hv
    · cases hc : hashable v && acc.contains v with
      | true =>
        simp only [if_true]
        have : v ∈ acc := by
          simp only [Bool.and_eq_true, List.contains_iff_mem] at hc; exact hc.2
        exact specPool_mem_acc hashable acc vs v this
      | false =>
        simp only [Bool.false_eq_true, if_false]
        exact specPool_mem_acc hashable _ vs v (by simp)
    · cases hashable w && acc.contains w <;> simp only [if_true, Bool.false_eq_true, if_false] <;> exact ih _ v hv

end pool

/-- the pool of `1 + x + 1 + [..] + [..]`: hashable duplicates share a slot, unhashable ones do not -/
example :
    ((Pool.empty : Pool (Nat × Bool)).run (fun v => v.2) [(1, true), (7, true), (1, true), (9, false), (9, false)]).constants
      = [(1, true), (7, true), (9, false), (9, false)] := by decide

/-! ## The tie: facts regenerated from /repo's source -/

open Gen.Writes in
/-- Every iteration over a map in a function reachable from Compile / Eval / Run is one of the two loops of
    `Config.Check` modelled above, and the only reflect map enumeration is `MapKeys` in CreateTypesTable
    (`typesTable_perm_invariant`); nothing on the Run path iterates over a map.  (`conf.FieldsFromStruct` used
    to merge an embedded struct's table by ranging over a map; since the fix "build the types table by Go's
    selector rule" it walks `reflect` field indices only — a site reappearing there would fail this theorem.
    Its old loop had the `keyedLoop` shape too, so `keyedLoop_perm_invariant` would cover it.) -/
theorem map_iteration_sites_as_expected :
    mapRanges = [("conf.(*Config).Check", "c.Operators", "compile"),
                 ("conf.(*Config).Check", "c.ConstExprFns", "compile")] ∧
    reflectMapIterations = [("(reflect.Value).MapKeys", "compile")] := by decide +kernel

open Gen.Writes in
/-- no goroutines, no select, no package whose results are not a function of the inputs -/
theorem no_nondeterminism_sources : concurrencyStatements = [] ∧ nondetImports = [] := by decide +kernel

open Gen.Writes in
/-- no package-level variable of the library is ever assigned or has its address taken (they are
    initialised once, before any call) -/
theorem package_vars_never_assigned :
    (packageVars.all fun v => !v.2.1 && !v.2.2.1) = true := by decide +kernel

def badRoot : Gen.Writes.Root → Bool
  | .shared | .pkgvar | .unknown => true
  | _ => false

/-- memory a run may write: its own VM record, the scopes / arrays / maps / ranges / argument vectors it
    allocates itself (directly or through reflect.New), the debug channels of a debug VM, and the error value it builds -/
def runOwnedMemory : List String :=
  ["vm.VM", "vm.Scope", "[]vm.Scope", "[]interface{}", "map[string]interface{}", "[]int", "[]reflect.Value",
   "chan int", "chan struct{}", "file.Error",
   "reflect.Value"]   -- a value made by reflect.New in this run (vm.slice copies a non-addressable array before slicing)

open Gen.Writes in
/-- **Running never modifies the program, the environment or anything else it shares with its caller**:
    every write site reachable from `vm.Run` / `(*VM).Run` / `expr.Run` writes a local variable or memory
    allocated by this run (or the caller-owned VM record), as computed from the current source. -/
theorem run_readonly :
    (sites.filter fun s => s.run && badRoot s.root) = [] ∧
    (sites.all fun s => !s.run || s.owners.all fun o => runOwnedMemory.contains o) = true := by
  decide +kernel

open Gen.Writes in
/-- Compile (and Eval) write only memory they allocate themselves — the config, parser, lexer, checker,
    compiler and optimizer records, the tree being compiled, the program being built — never the option
    values, the sample environment or package-level state. -/
theorem compile_writes_nothing_shared :
    (sites.filter fun s => (s.compile || s.eval) && badRoot s.root) = [] := by decide +kernel

/-- In the model a run is a function of (shared part, own state): running again from an equal state on an
    equal shared part gives an equal result (stated for the abstract machine of `Interleave`). -/
theorem run_deterministic {Shared Local : Type} (step : Shared → Local → Shared × Local)
    (sh₁ sh₂ : Shared) (l₁ l₂ : Local) (n : Nat) (hs : sh₁ = sh₂) (hl : l₁ = l₂) :
    Interleave.runAlone step sh₁ n l₁ = Interleave.runAlone step sh₂ n l₂ := by subst hs; subst hl; rfl

end ExprModel.C09
