import ExprModel.Props.C13
import ExprModel.Props.C12
import ExprModel.Proofs.LocBridge
import ExprModel.Proofs.ParserLocs
import ExprModel.Proofs.CompileLocs
import ExprModel.Props.C01
import ExprModel.Proofs.StepBoundary
import ExprModel.Walk.Spec
import ExprModel.Proofs.RefineBlame
/-
C13, end to end: the layers of Props/C13.lean (source / snippet / bind, location facts, location map)
composed with the lexer (C12), parser (C11) and compiler / VM (C01) models.
-/
namespace ExprModel.C13
open ExprModel ExprModel.Src ExprModel.Lex

/-! ## (1) Tokens: `token_positions_goal` discharged from `C12.token_positions` -/

/-- what it means for a location to point at a rune of the source whose line the snippet shows -/
def PointsAt (src : List Char) (loc : Loc) (c : Char) : Prop :=
  InSource src loc ∧ ∃ l, snippet src (loc.line : Int) = .ok (l, true) ∧ l[loc.col]? = some c

/-- **Every token location produced by `lex` lies inside the source, and the snippet of its line
    carries the token's first rune at the token's column** — for every source (multi-line, multi-byte)
    and every rune classification that treats the line feed as white space.  EOF excepted (it is
    placed at `prev`, the position *of* the last rune read: C12 `lex_ends_with_eof`, I5). -/
theorem token_locations_in_source (cc : CharClass) (hnl : cc.isSpace '\n' = true) (src : String) (toks : List Token)
    (h : Lex.lex cc LexTables.std src = .ok toks) :
    ∀ t ∈ toks, t.kind ≠ .eof →
      ∃ k c, src.toList[k]? = some c ∧ cc.isSpace c = false ∧ t.loc = posOf src.toList k ∧ PointsAt src.toList t.loc c := by
  intro t ht hk
  obtain ⟨pre, raw, post, hsrc, hne, hfirst, hloc, _⟩ := C12.token_positions_each cc src toks h t ht hk
  cases raw with
  | nil => exact absurd rfl hne
  | cons c raw' =>
    have hsp : cc.isSpace c = false := hfirst c rfl
    have hcnl : c ≠ '\n' := by intro e; rw [e, hnl] at hsp; cases hsp
    have hk' : src.toList[pre.length]? = some c := by rw [hsrc]; simp
    have hpos : t.loc = posOf src.toList pre.length := by
      rw [hloc, hsrc, List.append_assoc]; exact lexPosOf_eq pre _
    have hlen : pre.length ≤ src.toList.length := by rw [hsrc]; simp
    refine ⟨pre.length, c, hk', hsp, hpos, ?_, ?_⟩
    · rw [hpos]; exact loc_in_source _ _ hlen
    · rw [hpos]; exact snippet_contains_rune _ _ c hk' hcnl

/-- the same for the tables regenerated from the source on this run and any classification that is
    exact on ASCII (Go's `unicode.IsSpace` is) -/
theorem token_locations_in_source_code (cc : CharClass) (hcc : cc.AsciiExact) (src : String) (toks : List Token)
    (h : Lex.lex cc Gen.lexTables src = .ok toks) :
    ∀ t ∈ toks, t.kind ≠ .eof → ∃ c, cc.isSpace c = false ∧ PointsAt src.toList t.loc c := by
  intro t ht hk
  have hnl : cc.isSpace '\n' = true := by rw [hcc.space '\n' (by decide)]; decide
  obtain ⟨_, c, _, hsp, _, hp⟩ := token_locations_in_source cc hnl src toks (C12.tables_pinned ▸ h) t ht hk
  exact ⟨c, hsp, hp⟩

/-- `Bind` of an error at a token's location renders that token's source line (C13 part 1 composed) -/
theorem token_error_snippet_is_its_line (cc : CharClass) (hnl : cc.isSpace '\n' = true) (src : String)
    (toks : List Token) (h : Lex.lex cc LexTables.std src = .ok toks) (t : Token) (ht : t ∈ toks) (hk : t.kind ≠ .eof)
    (msg : List Char) :
    ∃ l e', nthLine src.toList (t.loc.line - 1) = some l ∧
      Src.bind src.toList { line := t.loc.line, col := t.loc.col, msg := msg } = .ok e' ∧
      (e'.snippet = gutter ++ tabsToSpaces l ∨
       e'.snippet = gutter ++ tabsToSpaces l ++ gutter ++ (List.replicate (min t.loc.col l.length) '.' ++ ['^'])) := by
  obtain ⟨k, c, hkc, _, _, ⟨h1, l0, hl0, _⟩, l, hsn, _⟩ := token_locations_in_source cc hnl src toks h t ht hk
  have hs : src.toList ≠ [] := by intro e; rw [e] at hkc; simp at hkc
  have hrange : ((t.loc.line : Nat) : Int) ≤ numLines src.toList :=
    ((snippet_found_iff _ _).mp ⟨l, hsn⟩).2.2
  obtain ⟨l', e', hl', hb, hs'⟩ := bind_snippet_is_line src.toList
    { line := t.loc.line, col := t.loc.col, msg := msg } hs (by simp; omega) hrange
  refine ⟨l', e', ?_, hb, ?_⟩
  · simpa using hl'
  · simpa using hs'

/-- non-vacuity: a two-line, multi-byte source -/
example : (Lex.lex CharClass.ascii LexTables.std "'é' +\n  xy").toOption.map (·.map (·.loc)) =
    some [⟨1, 0⟩, ⟨1, 4⟩, ⟨2, 2⟩, ⟨2, 3⟩] := by decide

/-! ## (2) Nodes: `node_locations_goal` discharged from the parser model -/

/-- **`parse_locs_from_tokens`**: every node of a successfully parsed tree (at any depth; conditionals
    included since fix 4de6c8c) carries the location of one of the input tokens — for every token list,
    every table of operators and every number / regexp oracle. -/
theorem parse_locs_from_tokens (cfg : Parser.Cfg) (ts : List Token) (root : Node)
    (h : Parser.parse cfg ts = .ok root) : root.AllLoc (fun l => ∃ t ∈ ts, t.loc = l) := by
  refine Parser.parse_allLoc _ cfg ts root ⟨?_, ?_⟩ h
  · intro t ht; exact ⟨t, (List.dropLast_subset _ ht), rfl⟩
  · intro t ht _; exact ⟨t, List.mem_of_getLast? ht, rfl⟩

/-- … and never the location of the EOF token, when EOF occurs only at the end (as `lex` guarantees) -/
theorem parse_locs_from_proper_tokens (cfg : Parser.Cfg) (ts : List Token) (root : Node)
    (heof : ∀ t ∈ ts.dropLast, t.kind ≠ .eof) (h : Parser.parse cfg ts = .ok root) :
    root.AllLoc (fun l => ∃ t ∈ ts, t.kind ≠ .eof ∧ t.loc = l) := by
  refine Parser.parse_allLoc _ cfg ts root ⟨?_, ?_⟩ h
  · intro t ht; exact ⟨t, (List.dropLast_subset _ ht), heof t ht, rfl⟩
  · intro t ht hk; exact ⟨t, List.mem_of_getLast? ht, hk, rfl⟩

/-- **Lexer and parser composed**: every node of the tree parsed from a source has a location inside
    that source, at which the snippet shows the first rune of the node's defining token (a non-blank
    rune).  For every source, multi-line and non-ASCII alike. -/
theorem node_locations_in_source (cc : CharClass) (hnl : cc.isSpace '\n' = true) (cfg : Parser.Cfg) (src : String)
    (toks : List Token) (root : Node) (hl : Lex.lex cc LexTables.std src = .ok toks)
    (hp : Parser.parse cfg toks = .ok root) :
    root.AllLoc (fun l => ∃ c, cc.isSpace c = false ∧ PointsAt src.toList l c) := by
  obtain ⟨pre, e, hpre, _, hall⟩ := C12.lex_ends_with_eof cc src toks hl
  have heof : ∀ t ∈ toks.dropLast, t.kind ≠ .eof := by
    rw [hpre, List.dropLast_concat]; exact hall
  refine Node.allLoc_mono ?_ root (parse_locs_from_proper_tokens cfg toks root heof hp)
  rintro l ⟨t, ht, hk, rfl⟩
  obtain ⟨_, c, _, hsp, _, hpt⟩ := token_locations_in_source cc hnl src toks hl t ht hk
  exact ⟨c, hsp, hpt⟩

/-- in particular the root, i.e. the location a checker error about the whole expression gets -/
theorem root_location_in_source (cc : CharClass) (hnl : cc.isSpace '\n' = true) (cfg : Parser.Cfg) (src : String)
    (toks : List Token) (root : Node) (hl : Lex.lex cc LexTables.std src = .ok toks)
    (hp : Parser.parse cfg toks = .ok root) : InSource src.toList root.loc := by
  obtain ⟨_, _, hpt⟩ := Node.allLoc_root root (node_locations_in_source cc hnl cfg src toks root hl hp)
  exact hpt.1

/-! ## (3) Instructions, the `Locations` table and run-time errors -/

open ExprModel.LocMap (report)

/-- **`compile_locations`** (discharges `compile_locations_goal` against the real compiler model): every
    instruction of `compileProgram cfg n` carries the location of a node of `n` — stated as: whatever
    holds of all node locations of the tree holds of the instruction's location.  The one exception is
    the `OpCast` epilogue of `AsInt64` / `AsFloat64`, emitted when the node stack is empty (location 0:0). -/
theorem compile_locations (cfg : CompCfg) (n : Node) (cp : Compiled) (hc : compileProgram cfg n = .ok cp)
    (P : Loc → Prop) (hn : n.AllLoc P) :
    ∀ i ∈ cp.code, P i.loc ∨ (i.loc = {} ∧ i.instr.op = .cast ∧ cfg.cast ≠ none) :=
  compileProgram_locs hc hn

/-- `k` is the byte offset of an opcode of the program -/
def OpcodeOffset (code : List LInstr) (k : Nat) : Prop := ∃ l, (k, l) ∈ locTable 0 code

/-- `program.Locations[k]` at the offset of an opcode is the location that opcode was emitted with -/
theorem report_locTable (code : List LInstr) (k : Nat) (l : Loc) (h : (k, l) ∈ locTable 0 code) :
    report (locTable 0 code) k = l := by
  have hd : ((locTable 0 code).reverse).Pairwise (fun a b => a.1 ≠ b.1) := by
    rw [List.pairwise_reverse]
    exact (locTable_sorted 0 code).imp (fun hab => by omega)
  unfold report
  rw [LocMap.lookup_of_mem_distinct _ hd k l (by simpa using h)]

/-- **A failure at the opcode at offset `k` is reported at the location of a node of the tree** (or at
    0:0 when it is the cast epilogue that fails). -/
theorem error_location_is_a_node (cfg : CompCfg) (n : Node) (cp : Compiled) (hc : compileProgram cfg n = .ok cp)
    (k : Nat) (hk : OpcodeOffset cp.code k) (P : Loc → Prop) (hn : n.AllLoc P) :
    P (report (locTable 0 cp.code) k) ∨ (report (locTable 0 cp.code) k = {} ∧ cfg.cast ≠ none) := by
  obtain ⟨l, hl⟩ := hk
  rw [report_locTable _ _ _ hl]
  obtain ⟨_, i, hi, rfl⟩ := locTable_mem hl
  rcases compile_locations cfg n cp hc P hn i hi with h | ⟨h1, _, h3⟩
  · exact Or.inl h
  · exact Or.inr ⟨h1, h3⟩

/-- **Source to run-time error, composed**: lex, parse and compile a source without `AsInt64`/`AsFloat64`;
    a failure at any opcode of the program is reported at a location that lies inside the source and whose
    snippet shows the first rune of the defining token of a node of the tree. -/
theorem runtime_error_location_in_source (cc : CharClass) (hnl : cc.isSpace '\n' = true) (pcfg : Parser.Cfg)
    (src : String) (toks : List Token) (root : Node) (cfg : CompCfg) (cp : Compiled)
    (hl : Lex.lex cc LexTables.std src = .ok toks) (hp : Parser.parse pcfg toks = .ok root)
    (hc : compileProgram cfg root = .ok cp) (hcast : cfg.cast = none) (k : Nat) (hk : OpcodeOffset cp.code k) :
    ∃ c, cc.isSpace c = false ∧ PointsAt src.toList (report (locTable 0 cp.code) k) c := by
  rcases error_location_is_a_node cfg root cp hc k hk _ (node_locations_in_source cc hnl pcfg src toks root hl hp)
    with h | ⟨_, h⟩
  · exact h
  · exact absurd hcast h

open ExprModel.Refine ExprModel.Spec in
/-- **`runtime_error_location_partial`**: when the language definition fails on the tree, the VM model
    reaches a failing step (C01 `Conforms`, error case) and — provided that step starts at an opcode of
    the program (`hb`: every reachable `ip` is an opcode offset; for compiled programs all jumps land on
    instruction boundaries, C05 `compile_wfStatic`, but the run-time invariant is not proved) — the
    location reported for it (`Locations[pp]`, `pp` = the `ip` the step starts from) is the location of a
    node of the tree, or 0:0 for the cast epilogue. -/
theorem runtime_error_location_partial (c : Cfg) (Pg : Prog) (len : Nat) (ctx : Ctx) (n : Node) (cfg : CompCfg)
    (cp : Compiled) (hc : compileProgram cfg n = .ok cp) (hconf : C01.Conforms c Pg 0 len ctx n)
    (s : VM) (hip : s.ip = 0) (hlim : s.limit = c.budget) (hsc : ScopesOK ctx s.scopes)
    (e : ErrClass) (σ' : SState) (hev : eval (specOf c) ctx n (obs s) = (.error e, σ'))
    (hb : ∀ s1, Steps c Pg s s1 → OpcodeOffset cp.code s1.ip) :
    ∃ s1 s2, Steps c Pg s s1 ∧ step c Pg s1 = .error (e, s2) ∧
      ∀ P : Loc → Prop, n.AllLoc P →
        P (report (locTable 0 cp.code) s1.ip) ∨ (report (locTable 0 cp.code) s1.ip = {} ∧ cfg.cast ≠ none) := by
  obtain ⟨s1, s2, hst, _, hstep, _⟩ := hconf s hip hlim hsc _ _ hev
  exact ⟨s1, s2, hst, hstep, fun P hn => error_location_is_a_node cfg n cp hc s1.ip (hb s1 hst) P hn⟩

/-! ### the run-time invariant, proved: every `ip` a compiled program reaches is an opcode offset -/

/-- **`pp` of a failing step is the offset of its opcode** (all 52 opcodes of the VM model) -/
theorem failing_step_pp {c : Cfg} {Pg : Prog} {s1 s2 : VM} {e : ErrClass} (h : step c Pg s1 = .error (e, s2)) :
    s2.pp = s1.ip := step_error_pp h

/-- **In a compiled program every reachable `ip` is an instruction boundary**: a successful step leaves
    `ip` right after its instruction or at its jump target (`step_ip`), and the compiler's jumps land on
    boundaries (C05 `compileProgram_frag`). -/
theorem reachable_ip_is_boundary (cfg : CompCfg) (hcfg : Bc.CompCfgOk cfg) (n : Node) (cp : Compiled)
    (hc : compileProgram cfg n = .ok cp) (hfit : Refine.FitsU16 cp.code) (c : Cfg) (s s1 : VM)
    (hs : s.ip = 0) (hst : Refine.Steps c (Refine.progOf cp) s s1) :
    instrBoundary (Bc.instrs cp.code) s1.ip = true :=
  steps_boundary hfit (Bc.compileProgram_frag cfg hcfg n cp hc).1.jumps hst (by rw [hs]; exact Bc.boundary_zero' _ _ rfl)

/-- **`runtime_error_location`**: whenever a run of a compiled program fails (with anything but the
    model's own `fuel`), the location the VM reports — `Locations[pp]` of the state the failing step
    reports — is the location of a node of the tree, or 0:0 when the failing opcode is the `OpCast`
    epilogue.  Exclusion as in C01: operands fit 16 bits (`FitsU16`; beyond it `patchJump` truncates,
    finding 18). -/
theorem runtime_error_location (cfg : CompCfg) (hcfg : Bc.CompCfgOk cfg) (n : Node) (cp : Compiled)
    (hc : compileProgram cfg n = .ok cp) (hfit : Refine.FitsU16 cp.code) (c : Cfg) (fuel : Nat) (e : ErrClass)
    (s' : VM) (hrun : run c (Refine.progOf cp) fuel = (.error e, s')) (he : e ≠ .fuel)
    (P : Loc → Prop) (hn : n.AllLoc P) :
    P (report (locTable 0 cp.code) s'.pp) ∨ (report (locTable 0 cp.code) s'.pp = {} ∧ cfg.cast ≠ none) := by
  unfold run runOn at hrun
  obtain ⟨s1, hst, hlt, hstep⟩ := loop_error fuel _ e s' hrun he
  have hb := reachable_ip_is_boundary cfg hcfg n cp hc hfit c _ s1 rfl hst
  have hsz : (Refine.progOf cp).code.size = lsize cp.code := by
    simp [Refine.progOf, Compiled.bytes, Refine.encodeAll_length, lsize]
  obtain ⟨pre, i, post, hcode, hpre⟩ := split_at_boundary cp.code s1.ip hb (by omega)
  have hoff : OpcodeOffset cp.code s1.ip := ⟨i.loc, by rw [hcode, ← hpre]; exact locTable_at⟩
  rw [failing_step_pp hstep]
  exact error_location_is_a_node cfg n cp hc s1.ip hoff P hn

/-- **Source to reported run-time location** (`expr.Eval`-style pipeline: lex, parse, compile without
    cast, run): whatever fails at run time is reported at a location inside the source, at which the
    snippet shows the first rune of the defining token of a node of the parsed tree. -/
theorem eval_error_location_in_source (cc : CharClass) (hnl : cc.isSpace '\n' = true) (pcfg : Parser.Cfg)
    (src : String) (toks : List Token) (root : Node) (cfg : CompCfg) (hcast : cfg.cast = none) (cp : Compiled)
    (hl : Lex.lex cc LexTables.std src = .ok toks) (hp : Parser.parse pcfg toks = .ok root)
    (hc : compileProgram cfg root = .ok cp) (hfit : Refine.FitsU16 cp.code) (c : Cfg) (fuel : Nat) (e : ErrClass)
    (s' : VM) (hrun : run c (Refine.progOf cp) fuel = (.error e, s')) (he : e ≠ .fuel) :
    ∃ ch, cc.isSpace ch = false ∧ PointsAt src.toList (report (locTable 0 cp.code) s'.pp) ch := by
  have hcfg : Bc.CompCfgOk cfg := by intro t ht; rw [hcast] at ht; cases ht
  rcases runtime_error_location cfg hcfg root cp hc hfit c fuel e s' hrun he _
    (node_locations_in_source cc hnl pcfg src toks root hl hp) with h | ⟨_, h⟩
  · exact h
  · exact absurd hcast h

/-- non-vacuity, and the rule at work: `1 / 0` (tokens at 1:0, 1:2, 1:4) compiles to `Push; Push; Divide`,
    the run fails with `divzero` in the step at byte offset 6, and `Locations[6]` is 1:2 — the `/`. -/
example :
    let w : World := { call := fun _ _ => .ok .nil, regexMatch := fun _ _ => none, pow := fun a _ => a }
    let c : Cfg := { world := w, env := .nil, budget := 1000, defects := Defects.none }
    let tree : Node := .binary ⟨⟨1, 2⟩, .invalid⟩ "/" (.int ⟨⟨1, 0⟩, .invalid⟩ 1) (.int ⟨⟨1, 4⟩, .invalid⟩ 0)
    (match compileProgram {} tree with
     | .ok cp =>
       (match (run c (Refine.progOf cp) 50).1 with | .error .divzero => true | _ => false) &&
       ((run c (Refine.progOf cp) 50).2.pp == 6) && (report (locTable 0 cp.code) 6 == (⟨1, 2⟩ : Loc))
     | .error _ => false) = true := by decide

/-- **the property at full strength: errors are located at the offending occurrence.**  When a run of a compiled
    program fails with class `e`, the location it reports is THE location the language definition gives the
    failure: the instrumented reference evaluator `Spec.runLoc` (`Spec/EvalLoc.lean`: `Spec.eval` whose failures
    carry the location of the node that raises them) fails on the whole tree with `(e, that location)`.
    Proved below (`runtime_error_location_exact_partial`) under the hypotheses of C01's refinement theorem, without
    which the run of a compiled program is not tied to the language definition at all (a tree with a pair
    node outside a map literal, `+0.0` and `-0.0` constants sharing a pool slot, a collection of 2^63 elements). -/
def runtime_error_location_exact_goal : Prop :=
  ∀ (cfg : CompCfg) (n : Node) (cp : Compiled) (c : Cfg), compileProgram cfg n = .ok cp → cfg.cast = none →
    Refine.FitsU16 cp.code →
    ∀ (fuel : Nat) (e : ErrClass) (s' : VM), run c (Refine.progOf cp) fuel = (.error e, s') → e ≠ .fuel →
      (Spec.runLoc (Refine.specOf c) cfg.cast n).1 = .error (e, report (locTable 0 cp.code) s'.pp)

/-- the weaker reading kept for reference (it does NOT say "innermost": every ancestor of the failing node also
    fails with `e` in some context, so the statement alone would be satisfied by a VM that always reported the
    root): the reported location is the location of *some* node whose own evaluation can fail with `e`. -/
def runtime_error_blames_failing_node_goal : Prop :=
  ∀ (cfg : CompCfg) (n : Node) (cp : Compiled) (c : Cfg), compileProgram cfg n = .ok cp → cfg.cast = none →
    Refine.FitsU16 cp.code →
    ∀ (fuel : Nat) (e : ErrClass) (s' : VM), run c (Refine.progOf cp) fuel = (.error e, s') → e ≠ .fuel →
      ∃ m ∈ Node.preorder n, m.loc = report (locTable 0 cp.code) s'.pp ∧
        ∃ ctx σ, (Spec.eval (Refine.specOf c) ctx m σ).1 = .error e

open ExprModel.Refine in
/-- the simulation's failure direction, for any blame relation `bl` that the located evaluation of the whole
    tree satisfies (`BAt`): the class of a failing run and the location it reports are blamed.  C01's simulation
    hands the obligation down evaluation by evaluation (`Sim`), every failing instruction discharges it for its
    own location (`ReachErr`), and the failing step of a run is unique. -/
theorem failing_step_blamed (bl : ErrClass → Loc → Prop) (cfg : CompCfg) (n : Node) (cp : Compiled) (c : Cfg)
    (F : Val → Prop) (hc : compileProgram cfg n = .ok cp) (hcast : cfg.cast = none) (hfit : FitsU16 cp.code)
    (hF : AliasFree F) (hfl : FloatsIn F n) (henv : EnvOK c cfg) (hg : Good (SmallColl c) n)
    (hB : BAt bl (Spec.evalLoc (specOf c) [] n) {})
    (fuel : Nat) (e : ErrClass) (s' : VM) (hrun : run c (progOf cp) fuel = (.error e, s')) (he : e ≠ .fuel) :
    bl e (report (locTable 0 cp.code) s'.pp) := by
  have hR := program_runs bl hc hF hfl hg hfit henv (loopCase_holds c _) hB
    (fun t _ _ ht => by rw [hcast] at ht; cases ht)
  unfold run runOn at hrun
  rw [prologue_fresh] at hrun
  obtain ⟨s1, hst, hlt, hstep⟩ := loop_error fuel _ e s' hrun he
  have hsz : (progOf cp).code.size = lsize cp.code := by
    simp [progOf, Compiled.bytes, encodeAll_length, lsize]
  unfold progOutcome at hR
  cases hsr : Spec.run (specOf c) cfg.cast n with
  | mk r σ' =>
  rw [hsr] at hR
  cases r with
  | ok v =>
    obtain ⟨t, ht, htt⟩ : Reach c (lprogOf cp bl) _ _ := by simpa using hR
    have hip : t.ip = lsize cp.code := congrArg VM.ip htt
    exact (steps_fail_not_halted hst hlt hstep ht (by rw [hip, hsz]; exact Nat.le_refl _)).elim
  | error e' =>
    obtain ⟨s1', s2', hst', hlt', hstep', _, i, r, hat, hbl⟩ : ReachErr c (lprogOf cp bl) _ e' σ' := by
      simpa using hR
    have h1 : s1 = s1' := steps_fail_unique hst hstep hst' hstep'
    subst h1
    have h2 : e = e' := by
      have := hstep.symm.trans hstep'
      simp only [Except.error.injEq, Prod.mk.injEq] at this
      exact this.1
    subst h2
    obtain ⟨pre, post, hfull, hpre, _⟩ := hat
    have hfull' : cp.code = pre ++ i :: (r ++ post) := by
      have : cp.code = pre ++ (i :: r) ++ post := hfull
      simpa [List.append_assoc] using this
    have hloc : report (locTable 0 cp.code) s1.ip = i.loc := by
      apply report_locTable
      rw [hfull', ← hpre]
      exact locTable_at
    rw [failing_step_pp hstep, hloc]
    exact hbl

open ExprModel.Refine in
/-- **`runtime_error_location_exact_partial`: errors are located at the offending occurrence.**
    Whenever a run of a compiled program fails with class `e` (anything but the model's `fuel`), the location the
    VM reports — `Locations[pp]` of the failing step — is exactly the location at which the language definition
    raises the failure: `Spec.runLoc` of the whole tree fails with `(e, that location)`.  `runLoc`/`evalLoc` is the
    reference evaluator instrumented with the location of the node whose own rule fails after the sub-evaluations
    it needed succeeded (`Spec/EvalLoc.lean` lists what raises where; `evalLoc_dropLoc`: forgetting the locations
    gives `Spec.eval` back).  It holds for every construct, the slice included (its bounds are evaluated `to` before
    `from`, the listed finding, mirrored by `specOf`) and the seven loop builtins.
    Hypotheses: those of `C01.run_conforms_partial` (`AliasFree`/`FloatsIn`, `FitsU16`, `EnvOK`, `Good`), and no
    `AsInt64`/`AsFloat64` epilogue (its `OpCast` carries the location 0:0 of no node). -/
theorem runtime_error_location_exact_partial (cfg : CompCfg) (n : Node) (cp : Compiled) (c : Cfg) (F : Val → Prop)
    (hc : compileProgram cfg n = .ok cp) (hcast : cfg.cast = none) (hfit : FitsU16 cp.code)
    (hF : AliasFree F) (hfl : FloatsIn F n) (henv : EnvOK c cfg) (hg : Good (SmallColl c) n)
    (fuel : Nat) (e : ErrClass) (s' : VM) (hrun : run c (progOf cp) fuel = (.error e, s')) (he : e ≠ .fuel) :
    (Spec.runLoc (specOf c) cfg.cast n).1 = .error (e, report (locTable 0 cp.code) s'.pp) := by
  have h := failing_step_blamed (ExactBlame c n) cfg n cp c F hc hcast hfit hF hfl henv hg (exactBlame_root c n)
    fuel e s' hrun he
  unfold ExactBlame at h
  unfold Spec.runLoc
  rw [hcast]
  cases hev : Spec.evalLoc (specOf c) [] n {} with
  | mk r σ =>
    rw [hev] at h
    cases r with
    | ok v => cases h
    | error x => exact h

open ExprModel.Refine in
/-- the weaker reading (see `runtime_error_blames_failing_node_goal`), a corollary: the node that raises the
    failure is a node of the tree, and its own evaluation fails with the class -/
theorem runtime_error_blames_failing_node_partial (cfg : CompCfg) (n : Node) (cp : Compiled) (c : Cfg) (F : Val → Prop)
    (hc : compileProgram cfg n = .ok cp) (hcast : cfg.cast = none) (hfit : FitsU16 cp.code)
    (hF : AliasFree F) (hfl : FloatsIn F n) (henv : EnvOK c cfg) (hg : Good (SmallColl c) n)
    (fuel : Nat) (e : ErrClass) (s' : VM) (hrun : run c (progOf cp) fuel = (.error e, s')) (he : e ≠ .fuel) :
    ∃ m ∈ Node.preorder n, m.loc = report (locTable 0 cp.code) s'.pp ∧
      ∃ ctx σ, (Spec.eval (specOf c) ctx m σ).1 = .error e :=
  failing_step_blamed (InnerBlame c n) cfg n cp c F hc hcast hfit hF hfl henv hg (innerBlame_root c n)
    fuel e s' hrun he

/-- non-vacuity, and the rule at work on a nested failure: in `[1, 2][I] + 1` with `I = 5` the index
    fails, and the location reported is that of the index node (1:6), not of the `+` (1:10) -/
example :
    let w : World := { call := fun _ _ => .ok .nil, regexMatch := fun _ _ => none, pow := fun a _ => a }
    let c : Cfg := { world := w, env := .map [("I", .int .int 5)], budget := 1000, defects := Defects.none }
    let tree : Node := .binary ⟨⟨1, 10⟩, .invalid⟩ "+"
      (.index ⟨⟨1, 6⟩, .invalid⟩ (.array ⟨⟨1, 0⟩, .invalid⟩ [.int ⟨⟨1, 1⟩, .invalid⟩ 1, .int ⟨⟨1, 4⟩, .invalid⟩ 2])
        (.ident ⟨⟨1, 7⟩, .invalid⟩ "I" false))
      (.int ⟨⟨1, 12⟩, .invalid⟩ 1)
    (match compileProgram {} tree with
     | .ok cp =>
       (match (run c (Refine.progOf cp) 50).1 with | .error .index => true | _ => false) &&
       (report (locTable 0 cp.code) (run c (Refine.progOf cp) 50).2.pp == (⟨1, 6⟩ : Loc))
     | .error _ => false) = true := by decide

/-- … and the theorem applied to that run: its hypotheses are satisfiable on a failing program -/
def innermostTree : Node := .binary ⟨⟨1, 10⟩, .invalid⟩ "+"
  (.index ⟨⟨1, 6⟩, .invalid⟩ (.array ⟨⟨1, 0⟩, .invalid⟩ [.int ⟨⟨1, 1⟩, .invalid⟩ 1, .int ⟨⟨1, 4⟩, .invalid⟩ 2])
    (.ident ⟨⟨1, 7⟩, .invalid⟩ "I" false))
  (.int ⟨⟨1, 12⟩, .invalid⟩ 1)

def innermostCompiled : Compiled :=
  match compileProgram {} innermostTree with
  | .ok cp => cp
  | .error _ => default

def innermostCfg : Cfg :=
  { world := { call := fun _ _ => .ok .nil, regexMatch := fun _ _ => none, pow := fun a _ => a },
    env := .map [("I", .int .int 5)], budget := 1000, defects := Defects.none }

/-- the language definition locates the failure of `[1, 2][I] + 1` (`I = 5`) at the index node, 1:6 … -/
theorem innermost_runLoc :
    (Spec.runLoc (Refine.specOf innermostCfg) none innermostTree).1 = .error (.index, ⟨1, 6⟩) := by
  have h1 : (match (Spec.runLoc (Refine.specOf innermostCfg) none innermostTree).1 with
      | .error (.index, l) => l == (⟨1, 6⟩ : Loc) | _ => false) = true := by decide
  revert h1
  cases (Spec.runLoc (Refine.specOf innermostCfg) none innermostTree).1 with
  | ok v => intro h; cases h
  | error x =>
    obtain ⟨e, l⟩ := x
    cases e <;> intro h <;> first | cases h | skip
    have : l = ⟨1, 6⟩ := by simpa using h
    rw [this]

/-- … and nowhere else: the statement with the location of the enclosing `+` (1:10) — which the weaker
    "some node whose evaluation fails" reading accepts, the `+` fails too — is false -/
example : ¬ (Spec.runLoc (Refine.specOf innermostCfg) none innermostTree).1 = .error (.index, ⟨1, 10⟩) := by
  rw [innermost_runLoc]
  intro h
  exact absurd (Prod.mk.inj (Except.error.inj h)).2 (by decide)

open ExprModel.Refine in
set_option maxRecDepth 20000 in
/-- the hypotheses of `runtime_error_location_exact_partial` hold of that failing program, and what the theorem
    gives is the equality of the two locations: the VM reports 1:6 -/
example : report (locTable 0 innermostCompiled.code) (run innermostCfg (progOf innermostCompiled) 50).2.pp = ⟨1, 6⟩ := by
  have hc : compileProgram {} innermostTree = .ok innermostCompiled := by unfold innermostCompiled; rfl
  have hfit : FitsU16 innermostCompiled.code := by decide
  have hfl : FloatsIn (fun _ => False) innermostTree := by
    refine ⟨⟨⟨?_, ?_, trivial⟩, trivial⟩, ?_⟩ <;> (intro h; exact absurd h (by decide))
  have hg : Good (SmallColl innermostCfg) innermostTree := ⟨⟨⟨trivial, trivial, trivial⟩, trivial⟩, trivial⟩
  have hrun : run innermostCfg (progOf innermostCompiled) 50 =
      (.error .index, (run innermostCfg (progOf innermostCompiled) 50).2) := by
    have h1 : (match (run innermostCfg (progOf innermostCompiled) 50).1 with
        | .error .index => true | _ => false) = true := by decide
    have : (run innermostCfg (progOf innermostCompiled) 50).1 = .error .index := by
      revert h1
      cases (run innermostCfg (progOf innermostCompiled) 50).1 with
      | ok v => intro h; cases h
      | error e => cases e <;> intro h <;> first | rfl | cases h
    rw [← this]
  have h := runtime_error_location_exact_partial {} innermostTree innermostCompiled innermostCfg (fun _ => False) hc rfl
    hfit (fun _ _ h => h.elim) hfl (fun h => by cases h) hg 50 .index _ hrun (by decide)
  have h' : (Spec.runLoc (specOf innermostCfg) none innermostTree).1 = _ := h
  rw [innermost_runLoc] at h'
  exact ((Prod.mk.inj (Except.error.inj h')).2).symm

/-- the same with the computable check of the float constants (`C01.run_conforms_checked`'s hypotheses) -/
theorem runtime_error_location_exact_checked (cfg : CompCfg) (n : Node) (cp : Compiled) (c : Cfg)
    (hc : compileProgram cfg n = .ok cp) (hcast : cfg.cast = none) (hfit : Refine.FitsU16 cp.code)
    (hfl : Refine.floatsOK n = true) (henv : Refine.EnvOK c cfg) (hg : Refine.Good (Refine.SmallColl c) n)
    (fuel : Nat) (e : ErrClass) (s' : VM) (hrun : run c (Refine.progOf cp) fuel = (.error e, s')) (he : e ≠ .fuel) :
    (Spec.runLoc (Refine.specOf c) cfg.cast n).1 = .error (e, report (locTable 0 cp.code) s'.pp) :=
  runtime_error_location_exact_partial cfg n cp c _ hc hcast hfit (Refine.floatsOK_spec hfl).1 (Refine.floatsOK_spec hfl).2
    henv hg fuel e s' hrun he

theorem runtime_error_blames_failing_node_checked (cfg : CompCfg) (n : Node) (cp : Compiled) (c : Cfg)
    (hc : compileProgram cfg n = .ok cp) (hcast : cfg.cast = none) (hfit : Refine.FitsU16 cp.code)
    (hfl : Refine.floatsOK n = true) (henv : Refine.EnvOK c cfg) (hg : Refine.Good (Refine.SmallColl c) n)
    (fuel : Nat) (e : ErrClass) (s' : VM) (hrun : run c (Refine.progOf cp) fuel = (.error e, s')) (he : e ≠ .fuel) :
    ∃ m ∈ Node.preorder n, m.loc = report (locTable 0 cp.code) s'.pp ∧
      ∃ ctx σ, (Spec.eval (Refine.specOf c) ctx m σ).1 = .error e :=
  runtime_error_blames_failing_node_partial cfg n cp c _ hc hcast hfit (Refine.floatsOK_spec hfl).1
    (Refine.floatsOK_spec hfl).2 henv hg fuel e s' hrun he

/-! #### why the hypotheses: the goal without them fails on an ill-formed tree

`-(1: "a")` — a pair node outside a map literal (the parser never builds one): the compiler emits both
components and `OpNegate`, the run fails with a *type* error at the `-`; the language definition rejects
the pair itself (`badop`), so no node at that location fails with a type error. -/

def illFormedTree : Node :=
  .unary ⟨⟨1, 0⟩, .invalid⟩ "-" (.pair ⟨⟨1, 2⟩, .invalid⟩ (.int ⟨⟨1, 3⟩, .invalid⟩ 1) (.str ⟨⟨1, 5⟩, .invalid⟩ "a"))

def illFormedCompiled : Compiled :=
  match compileProgram {} illFormedTree with
  | .ok cp => cp
  | .error _ => default

open ExprModel.Refine ExprModel.Spec in
set_option maxRecDepth 20000 in
theorem runtime_error_blames_failing_node_goal_witness : ¬ runtime_error_blames_failing_node_goal := by
  intro h
  have hc : compileProgram {} illFormedTree = .ok illFormedCompiled := by unfold illFormedCompiled; rfl
  have hfit : FitsU16 illFormedCompiled.code := by decide
  have h1 : (match (run innermostCfg (progOf illFormedCompiled) 50).1 with
      | .error .type_ => true | _ => false) = true := by decide
  have hres : (run innermostCfg (progOf illFormedCompiled) 50).1 = .error .type_ := by
    revert h1
    cases (run innermostCfg (progOf illFormedCompiled) 50).1 with
    | ok v => intro h; cases h
    | error e => cases e <;> intro h <;> first | rfl | cases h
  have hrun : run innermostCfg (progOf illFormedCompiled) 50 =
      (.error .type_, (run innermostCfg (progOf illFormedCompiled) 50).2) := by rw [← hres]
  have hloc : report (locTable 0 illFormedCompiled.code) (run innermostCfg (progOf illFormedCompiled) 50).2.pp
      = (⟨1, 0⟩ : Loc) := by decide
  obtain ⟨m, hm, hml, ctx, σ, hev⟩ := h {} illFormedTree illFormedCompiled innermostCfg hc rfl hfit 50 .type_ _ hrun
    (by decide)
  rw [hloc] at hml
  have hpre : Node.preorder illFormedTree = [illFormedTree,
      .pair ⟨⟨1, 2⟩, .invalid⟩ (.int ⟨⟨1, 3⟩, .invalid⟩ 1) (.str ⟨⟨1, 5⟩, .invalid⟩ "a"),
      .int ⟨⟨1, 3⟩, .invalid⟩ 1, .str ⟨⟨1, 5⟩, .invalid⟩ "a"] := rfl
  rw [hpre] at hm
  simp only [List.mem_cons, List.not_mem_nil, or_false] at hm
  rcases hm with rfl | rfl | rfl | rfl
  · -- the unary node: its operand is rejected by the language definition (`badop`), whatever the context
    have : ∀ ctx σ, (eval (specOf innermostCfg) ctx illFormedTree σ).1 = .error .badop := by
      intro ctx σ
      unfold illFormedTree
      rw [eval_unary, SM.bind_apply]
      rfl
    rw [this] at hev
    cases hev
  · exact absurd hml (by decide)
  · exact absurd hml (by decide)
  · exact absurd hml (by decide)

open ExprModel.Refine ExprModel.Spec in
set_option maxRecDepth 20000 in
/-- the exact statement fails on that tree as well: the run reports a type error at the `-` (1:0), the language
    definition rejects the pair (`badop` at 1:2) -/
theorem runtime_error_location_exact_goal_witness : ¬ runtime_error_location_exact_goal := by
  intro h
  have hc : compileProgram {} illFormedTree = .ok illFormedCompiled := by unfold illFormedCompiled; rfl
  have hfit : FitsU16 illFormedCompiled.code := by decide
  have h1 : (match (run innermostCfg (progOf illFormedCompiled) 50).1 with
      | .error .type_ => true | _ => false) = true := by decide
  have hres : (run innermostCfg (progOf illFormedCompiled) 50).1 = .error .type_ := by
    revert h1
    cases (run innermostCfg (progOf illFormedCompiled) 50).1 with
    | ok v => intro h; cases h
    | error e => cases e <;> intro h <;> first | rfl | cases h
  have hrun : run innermostCfg (progOf illFormedCompiled) 50 =
      (.error .type_, (run innermostCfg (progOf illFormedCompiled) 50).2) := by rw [← hres]
  have hx := h {} illFormedTree illFormedCompiled innermostCfg hc rfl hfit 50 .type_ _ hrun (by decide)
  have h2 : (match (Spec.runLoc (specOf innermostCfg) none illFormedTree).1 with
      | .error (.badop, _) => true | _ => false) = true := by decide
  have hx' : (Spec.runLoc (specOf innermostCfg) none illFormedTree).1 = _ := hx
  rw [hx'] at h2
  cases h2

end ExprModel.C13
