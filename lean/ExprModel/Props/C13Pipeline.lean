import ExprModel.Props.C13
import ExprModel.Props.C12
import ExprModel.Proofs.LocBridge
import ExprModel.Proofs.ParserLocs
/-
C13, end to end: the layers of Props/C13.lean (source / snippet / bind, location facts, location map)
composed with the lexer (C12), parser (C11) and compiler / VM (C01) models.
-/
namespace ExprModel.C13
open ExprModel ExprModel.Src ExprModel.Lex

/-! ## (1) Tokens: `token_positions_goal` discharged from `C12.token_positions` -/

/-- what it means for a location to point at a rune of the source whose line the snippet shows -/
def PointsAt (src : List Char) (loc : Loc) (c : Char) : Prop :=
  InSource src loc ∧ ∃ l, snippet src (loc.line : Int) = .ok (l, true) ∧ l[loc.col]? = some c

/-- **Every token location produced by `lex` lies inside the source, and the snippet of its line
    carries the token's first rune at the token's column** — for every source (multi-line, multi-byte)
    and every rune classification that treats the line feed as white space.  EOF excepted (it is
    placed at `prev`, the position *of* the last rune read: C12 `lex_ends_with_eof`, I5). -/
theorem token_locations_in_source (cc : CharClass) (hnl : cc.isSpace '\n' = true) (src : String) (toks : List Token)
    (h : Lex.lex cc LexTables.std src = .ok toks) :
    ∀ t ∈ toks, t.kind ≠ .eof →
      ∃ k c, src.toList[k]? = some c ∧ cc.isSpace c = false ∧ t.loc = posOf src.toList k ∧ PointsAt src.toList t.loc c := by
  intro t ht hk
  obtain ⟨pre, raw, post, hsrc, hne, hfirst, hloc, _⟩ := C12.token_positions_each cc src toks h t ht hk
  cases raw with
  | nil => exact absurd rfl hne
  | cons c raw' =>
    have hsp : cc.isSpace c = false := hfirst c rfl
    have hcnl : c ≠ '\n' := by intro e; rw [e, hnl] at hsp; cases hsp
    have hk' : src.toList[pre.length]? = some c := by rw [hsrc]; simp
    have hpos : t.loc = posOf src.toList pre.length := by
      rw [hloc, hsrc, List.append_assoc]; exact lexPosOf_eq pre _
    have hlen : pre.length ≤ src.toList.length := by rw [hsrc]; simp
    refine ⟨pre.length, c, hk', hsp, hpos, ?_, ?_⟩
    · rw [hpos]; exact loc_in_source _ _ hlen
    · rw [hpos]; exact snippet_contains_rune _ _ c hk' hcnl

/-- the same for the tables regenerated from the source on this run and any classification that is
    exact on ASCII (Go's `unicode.IsSpace` is) -/
theorem token_locations_in_source_code (cc : CharClass) (hcc : cc.AsciiExact) (src : String) (toks : List Token)
    (h : Lex.lex cc Gen.lexTables src = .ok toks) :
    ∀ t ∈ toks, t.kind ≠ .eof → ∃ c, cc.isSpace c = false ∧ PointsAt src.toList t.loc c := by
  intro t ht hk
  have hnl : cc.isSpace '\n' = true := by rw [hcc.space '\n' (by decide)]; decide
  obtain ⟨_, c, _, hsp, _, hp⟩ := token_locations_in_source cc hnl src toks (C12.tables_pinned ▸ h) t ht hk
  exact ⟨c, hsp, hp⟩

/-- `Bind` of an error at a token's location renders that token's source line (C13 part 1 composed) -/
theorem token_error_snippet_is_its_line (cc : CharClass) (hnl : cc.isSpace '\n' = true) (src : String)
    (toks : List Token) (h : Lex.lex cc LexTables.std src = .ok toks) (t : Token) (ht : t ∈ toks) (hk : t.kind ≠ .eof)
    (msg : List Char) :
    ∃ l e', nthLine src.toList (t.loc.line - 1) = some l ∧
      Src.bind src.toList { line := t.loc.line, col := t.loc.col, msg := msg } = .ok e' ∧
      (e'.snippet = gutter ++ tabsToSpaces l ∨
       e'.snippet = gutter ++ tabsToSpaces l ++ gutter ++ (List.replicate (min t.loc.col l.length) '.' ++ ['^'])) := by
  obtain ⟨k, c, hkc, _, _, ⟨h1, l0, hl0, _⟩, l, hsn, _⟩ := token_locations_in_source cc hnl src toks h t ht hk
  have hs : src.toList ≠ [] := by intro e; rw [e] at hkc; simp at hkc
  have hrange : ((t.loc.line : Nat) : Int) ≤ numLines src.toList :=
    ((snippet_found_iff _ _).mp ⟨l, hsn⟩).2.2
  obtain ⟨l', e', hl', hb, hs'⟩ := bind_snippet_is_line src.toList
    { line := t.loc.line, col := t.loc.col, msg := msg } hs (by simp; omega) hrange
  refine ⟨l', e', ?_, hb, ?_⟩
  · simpa using hl'
  · simpa using hs'

/-- non-vacuity: a two-line, multi-byte source -/
example : (Lex.lex CharClass.ascii LexTables.std "'é' +\n  xy").toOption.map (·.map (·.loc)) =
    some [⟨1, 0⟩, ⟨1, 4⟩, ⟨2, 2⟩, ⟨2, 3⟩] := by decide

/-! ## (2) Nodes: `node_locations_goal` discharged from the parser model -/

/-- **`parse_locs_from_tokens`**: every node of a successfully parsed tree (at any depth; conditionals
    included since fix 4de6c8c) carries the location of one of the input tokens — for every token list,
    every table of operators and every number / regexp oracle. -/
theorem parse_locs_from_tokens (cfg : Parser.Cfg) (ts : List Token) (root : Node)
    (h : Parser.parse cfg ts = .ok root) : root.AllLoc (fun l => ∃ t ∈ ts, t.loc = l) := by
  refine Parser.parse_allLoc _ cfg ts root ⟨?_, ?_⟩ h
  · intro t ht; exact ⟨t, (List.dropLast_subset _ ht), rfl⟩
  · intro t ht _; exact ⟨t, List.mem_of_getLast? ht, rfl⟩

/-- … and never the location of the EOF token, when EOF occurs only at the end (as `lex` guarantees) -/
theorem parse_locs_from_proper_tokens (cfg : Parser.Cfg) (ts : List Token) (root : Node)
    (heof : ∀ t ∈ ts.dropLast, t.kind ≠ .eof) (h : Parser.parse cfg ts = .ok root) :
    root.AllLoc (fun l => ∃ t ∈ ts, t.kind ≠ .eof ∧ t.loc = l) := by
  refine Parser.parse_allLoc _ cfg ts root ⟨?_, ?_⟩ h
  · intro t ht; exact ⟨t, (List.dropLast_subset _ ht), heof t ht, rfl⟩
  · intro t ht hk; exact ⟨t, List.mem_of_getLast? ht, hk, rfl⟩

/-- **Lexer and parser composed**: every node of the tree parsed from a source has a location inside
    that source, at which the snippet shows the first rune of the node's defining token (a non-blank
    rune).  For every source, multi-line and non-ASCII alike. -/
theorem node_locations_in_source (cc : CharClass) (hnl : cc.isSpace '\n' = true) (cfg : Parser.Cfg) (src : String)
    (toks : List Token) (root : Node) (hl : Lex.lex cc LexTables.std src = .ok toks)
    (hp : Parser.parse cfg toks = .ok root) :
    root.AllLoc (fun l => ∃ c, cc.isSpace c = false ∧ PointsAt src.toList l c) := by
  obtain ⟨pre, e, hpre, _, hall⟩ := C12.lex_ends_with_eof cc src toks hl
  have heof : ∀ t ∈ toks.dropLast, t.kind ≠ .eof := by
    rw [hpre, List.dropLast_concat]; exact hall
  refine Node.allLoc_mono ?_ root (parse_locs_from_proper_tokens cfg toks root heof hp)
  rintro l ⟨t, ht, hk, rfl⟩
  obtain ⟨_, c, _, hsp, _, hpt⟩ := token_locations_in_source cc hnl src toks hl t ht hk
  exact ⟨c, hsp, hpt⟩

/-- in particular the root, i.e. the location a checker error about the whole expression gets -/
theorem root_location_in_source (cc : CharClass) (hnl : cc.isSpace '\n' = true) (cfg : Parser.Cfg) (src : String)
    (toks : List Token) (root : Node) (hl : Lex.lex cc LexTables.std src = .ok toks)
    (hp : Parser.parse cfg toks = .ok root) : InSource src.toList root.loc := by
  obtain ⟨_, _, hpt⟩ := Node.allLoc_root root (node_locations_in_source cc hnl cfg src toks root hl hp)
  exact hpt.1

end ExprModel.C13
