import ExprModel.Gen.Opcodes
import ExprModel.Proofs.BcCompile
import ExprModel.Proofs.BcSound
import ExprModel.Proofs.BcBalance
import ExprModel.Proofs.BcSpecClass
import ExprModel.Props.C01
/-
C05 — Emitted bytecode is well-formed and stack-balanced.

Tie (facts regenerated from /repo on every run, `Gen/Opcodes.lean`): the opcode numbering, the operand
arity as read by (*VM).Run, as classified by Disassemble and as passed at every `c.emit` call site all
agree with the model's `Op.hasArg` / `Op.argClass`; the bodies of patchJump / calcBackwardJump /
placeholder / encode / makeConstant are the ones modelled, with or without the offset guard.

Theorems: `decode_encode`; `compile_wfStatic` (every program the compile model emits passes the static
checker `wfStatic`, for ALL trees and configurations, provided the jump operands fit 16 bits — which is
automatic once the compiler has the offset guard, `compile_wfStatic_guarded`); `wfStatic_sound` (what an
accepted program satisfies, stated without the checker); `patchJump_exact` and the truncation witness.
-/
namespace ExprModel.C05
open ExprModel ExprModel.Bc

/-! ### facts tied to the source -/

/-- the opcode numbering of vm/opcodes.go is the model's -/
theorem opcode_numbering : Gen.opcodeNames = Op.all.map Op.goName := by decide

def disasmName : Op.ArgClass → String
  | .none => "code" | .constant => "constant" | .jumpFwd => "jump" | .jumpBack => "back" | .castKind => "argument"

def emitKindOk : Op.ArgClass → String → Bool
  | .none, k => k == "none"
  | .constant, k => k == "constant"
  | .jumpFwd, k => k == "placeholder"
  | .jumpBack, k => k == "backjump"
  | .castKind, k => k == "encode:0" || k == "encode:1"

/-- (*VM).Run reads exactly one 16-bit operand for the opcodes with `hasArg` and none otherwise, and uses it as a
    constant index exactly for the `constant` class; Disassemble classifies every opcode as the model does; every
    `c.emit` call site passes operand bytes of the kind the opcode expects; every opcode is emitted somewhere;
    every placeholder is patched -/
theorem operand_arity_consistent :
    Gen.vmReads.map (·.1) = Op.all.map Op.goName ∧
    (List.zip Gen.vmReads Op.all).all (fun (r, o) =>
      r.2.1 + r.2.2.1 + r.2.2.2 == (if o.hasArg then 1 else 0) &&
      ((r.2.2.1 + r.2.2.2 == 1) == (o.argClass == .constant))) = true ∧
    Gen.disasmClass = Op.all.map (fun o => (o.goName, disasmName o.argClass)) ∧
    Gen.disasmClosures = [("code", 0, "none"), ("jump", 1, "fwd"), ("back", 1, "back"), ("argument", 1, "none"),
                          ("constant", 1, "none")] ∧
    Gen.emitSites.all (fun s => Op.all.any (fun o => o.goName == s.1 && emitKindOk o.argClass s.2.1)) = true ∧
    Op.all.all (fun o => Gen.emitSites.any (fun s => s.1 == o.goName)) = true ∧
    Gen.placeholderPatched.all (fun s => s.2.2) = true ∧
    Gen.vmDefaultPanics = true ∧ Gen.compileRecoversPanics = true := by
  decide +kernel

/-- operands are two bytes, little endian, on both sides; placeholders are two bytes; at most 65535 constants -/
theorem operand_encoding_as_modelled :
    Gen.vmArgBody = "{ b0, b1 := vm.bytecode[vm.ip], vm.bytecode[vm.ip+1] vm.ip += 2 return uint16(b0) | uint16(b1)<<8 }" ∧
    Gen.vmConstantBody = "{ return vm.constants[vm.arg()] }" ∧
    Gen.encodeBody = "{ b := make([]byte, 2) binary.LittleEndian.PutUint16(b, i) return b }" ∧
    Gen.placeholderBody = "{ return []byte{0xFF, 0xFF} }" ∧
    Gen.makeConstantGuard = "len(c.constants) > math.MaxUint16" := by
  decide +kernel

/-- patchJump / calcBackwardJump compute the offsets the model computes; either both carry the guard
    `offset > math.MaxUint16 → panic` (then `Gen.jumpGuard`, which the driver feeds to the compile model, is true)
    or neither does (the unfixed code: silent truncation by `uint16(offset)`) -/
theorem jump_patching_as_modelled :
    (Gen.jumpGuard = false ∧
      Gen.patchJumpBody = "{ offset := len(c.bytecode) - 2 - placeholder b := encode(uint16(offset)) c.bytecode[placeholder] = b[0] c.bytecode[placeholder+1] = b[1] }" ∧
      Gen.calcBackwardJumpBody = "{ return encode(uint16(len(c.bytecode) + 1 + 2 - to)) }") ∨
    (Gen.jumpGuard = true ∧
      Gen.patchJumpBody = "{ offset := len(c.bytecode) - 2 - placeholder if offset > math.MaxUint16 { panic(_) } b := encode(uint16(offset)) c.bytecode[placeholder] = b[0] c.bytecode[placeholder+1] = b[1] }" ∧
      Gen.calcBackwardJumpBody = "{ offset := len(c.bytecode) + 1 + 2 - to if offset > math.MaxUint16 { panic(_) } return encode(uint16(offset)) }") := by
  decide +kernel

/-- the current tree has the guard (fix ba2f082): this is the fact that discharges the `jumpGuard = true`
    hypotheses of `compile_wfStatic_guarded` and of C01's `run_conforms_guarded` / `eval_source_conforms_guarded`;
    a change that removes the guard re-opens the truncation defect and breaks this theorem -/
theorem offset_guard_present : Gen.jumpGuard = true := by decide

/-! ### decoding inverts encoding -/

/-- `decode ∘ encode = id` for operands that fit 16 bits (operand-less instructions carry `arg = 0`) -/
theorem decode_encode (is : List Instr) (hfit : ∀ i ∈ is, i.arg < 65536)
    (hcan : ∀ i ∈ is, i.op.hasArg = false → i.arg = 0) :
    decodeAll (encodeAll is).length (encodeAll is) = some is :=
  Bc.decode_encode is hfit hcan

theorem codeSize_eq_length (is : List Instr) : (encodeAll is).length = codeSize is :=
  Bc.codeSize_eq_length is

example : decodeAll 7 (encodeAll [⟨.push, 513⟩, ⟨.jumpIfFalse, 65535⟩, ⟨.pop, 0⟩]) =
    some [⟨.push, 513⟩, ⟨.jumpIfFalse, 65535⟩, ⟨.pop, 0⟩] := by decide

/-! ### everything the compiler emits is well-formed -/

/-- pool monotonicity: the index `makeConstant` returns is in range and the pool stays within 16 bits -/
theorem mkConst_index_lt {v : Val} {p p' : Pool} {k : Nat} (hp : PoolOk p) (h : mkConst v p = .ok (k, p')) :
    k < p'.consts.size ∧ p'.consts.size ≤ 65535 := Bc.mkConst_index_lt hp h

/-- pool monotonicity: existing entries are never changed -/
theorem mkConst_preserves {v : Val} {p p' : Pool} {k : Nat} (hp : PoolOk p) (h : mkConst v p = .ok (k, p')) :
    ∀ (j : Nat) (w : Val), p.consts[j]? = some w → p'.consts[j]? = some w := Bc.mkConst_preserves hp h

/-- Instruction level, unconditional: for every tree and configuration the compiled instruction list has
    operands in range and of the expected kind, every jump on a boundary of the program or at its end,
    Begin/End nested.  (No size hypothesis: the structured code's jump operands are the exact distances.) -/
theorem compile_wfInstrs (cfg : CompCfg) (hcfg : CompCfgOk cfg) (n : Node) (c : Compiled)
    (h : compileProgram cfg n = .ok c) : wfInstrs c.consts (instrs c.code) = true :=
  (compileProgram_frag cfg hcfg n c h).1.wfInstrs

/-- Byte level: every program produced by the compile model whose jump operands fit the encoding's 16 bits
    is accepted by the static checker. -/
theorem compile_wfStatic (cfg : CompCfg) (hcfg : CompCfgOk cfg) (n : Node) (c : Compiled)
    (h : compileProgram cfg n = .ok c) (hfit : JumpsFit c) : wfStatic c.bytes c.consts = true := by
  obtain ⟨hf, hsz, _⟩ := compileProgram_frag cfg hcfg n c h
  exact wfStatic_of_frag hf hsz hfit

/-- With the offset guard in patchJump / calcBackwardJump (the fix), no hypothesis on sizes is left:
    every program `Compile` returns is well-formed; oversized ones are rejected. -/
theorem compile_wfStatic_guarded (cfg : CompCfg) (hcfg : CompCfgOk cfg) (hg : cfg.jumpGuard = true) (n : Node)
    (c : Compiled) (h : compileProgram cfg n = .ok c) : wfStatic c.bytes c.consts = true := by
  obtain ⟨hf, hsz, hfit⟩ := compileProgram_frag cfg hcfg n c h
  exact wfStatic_of_frag hf hsz (hfit hg)

/-- non-vacuity: `true and (false or nil == nil)`-like program with jumps compiles, fits, and is accepted -/
example :
    (match compileProgram {} (.cond {} (.bool {} true) (.binary {} "and" (.bool {} true) (.bool {} false)) (.nil {})) with
     | .ok c => decide (∀ i ∈ c.code, i.instr.op.isJump = true → i.instr.arg < 65536) && wfStatic c.bytes c.consts
     | .error _ => false) = true := by decide

/-! ### what acceptance by the checker means -/

/-- An accepted program decodes faithfully, to exactly its end, into instructions whose operands are
    acceptable, whose jumps land on the total size of a prefix of the program (an instruction boundary inside
    it, or its end), and whose Begin/End nest. -/
theorem wfStatic_sound (bytes : List Nat) (consts : Array Val) (h : wfStatic bytes consts = true) :
    ∃ is : List Instr, encodeAll is = bytes ∧ (∀ i ∈ is, argOk consts i = true) ∧
      (∀ pre i post, is = pre ++ i :: post →
        (i.op.argClass = .jumpFwd → ∃ p q, is = p ++ q ∧ codeSize p = codeSize pre + i.size + i.arg) ∧
        (i.op.argClass = .jumpBack → i.arg ≤ codeSize pre + i.size ∧
            ∃ p q, is = p ++ q ∧ codeSize p = codeSize pre + i.size - i.arg)) ∧
      nestOk 0 is = some 0 := Bc.wfStatic_sound bytes consts h

/-- the checker does reject: an unknown opcode, a truncated operand, a jump into the middle of an instruction,
    a constant of the wrong class, an unmatched OpEnd -/
example : wfStatic [99] #[] = false ∧ wfStatic [0, 0] #[.nil] = false ∧
    wfStatic [14, 1, 0, 0, 0, 0] #[.nil] = false ∧ wfStatic [3, 0, 0] #[.int .int 1] = false ∧
    wfStatic [51] #[] = false ∧ wfStatic [14, 3, 0, 0, 0, 0] #[.nil] = true := by decide

/-! ### patchJump: exact below 64 KiB, truncated above -/

theorem patchJump_exact (pre body post : List Instr) (j : Instr) (hj : j.op.argClass = .jumpFwd)
    (hk : j.arg = codeSize body) (hfit : codeSize body < 65536) :
    ∃ j', decodeAt (encodeAll (pre ++ j :: (body ++ post))) (codeSize pre) = some j' ∧ j'.op = j.op ∧
      codeSize pre + j'.size + j'.arg = codeSize (pre ++ j :: body) :=
  Bc.patchJump_exact pre body post j hj hk hfit

theorem calcBackwardJump_exact (pre loop post : List Instr) (j : Instr) (hj : j.op.argClass = .jumpBack)
    (hk : j.arg = codeSize loop + 3) (hfit : codeSize loop + 3 < 65536) :
    ∃ j', decodeAt (encodeAll (pre ++ loop ++ j :: post)) (codeSize (pre ++ loop)) = some j' ∧ j'.op = j.op ∧
      codeSize (pre ++ loop) + j'.size - j'.arg = codeSize pre :=
  Bc.calcBackwardJump_exact pre loop post j hj hk hfit

/-- a body of 64 KiB or more: the stored operand is `|body| % 65536`; the jump falls short of its target -/
theorem patchJump_truncates (pre body post : List Instr) (j : Instr) (hj : j.op.argClass = .jumpFwd)
    (hk : j.arg = codeSize body) (hbig : 65536 ≤ codeSize body) :
    ∃ j', decodeAt (encodeAll (pre ++ j :: (body ++ post))) (codeSize pre) = some j' ∧
      j'.arg = codeSize body % 65536 ∧ codeSize pre + j'.size + j'.arg < codeSize (pre ++ j :: body) :=
  Bc.patchJump_truncates pre body post j hj hk hbig

/-- **Witness of the defect** (what the unguarded patchJump does): `JumpIfFalse 65540` over a 65540-byte
    body, once encoded, reads back as `JumpIfFalse 4` — the target is byte 7 instead of the boundary 65543. -/
theorem jump_truncation_witness :
    let body := List.replicate 65540 (⟨.pop, 0⟩ : Instr)
    let j : Instr := ⟨.jumpIfFalse, codeSize body⟩
    codeSize body = 65540 ∧
    decodeAt (encodeAll (j :: (body ++ [⟨.true_, 0⟩]))) 0 = some ⟨.jumpIfFalse, 4⟩ ∧
    0 + 3 + 4 ≠ codeSize (j :: body) := by
  intro body j
  have hb : codeSize body = 65540 := codeSize_replicate_pop 65540
  refine ⟨hb, ?_, ?_⟩
  · have := decodeAt_encode [] j (body ++ [⟨.true_, 0⟩])
    simp only [List.nil_append, codeSize_nil] at this
    rw [this]
    show some (⟨.jumpIfFalse, if Op.jumpIfFalse.hasArg then codeSize body % 65536 else 0⟩ : Instr) = _
    rw [hb]; rfl
  · simp [hb, Instr.size, Op.hasArg, j]

/-! ### stack balance (partial: the straight-line sub-language) -/

/-- Stack balance, fragment level, for `StraightLine` trees (literals, unary operators, the arithmetic and ordering
    operators): wherever the compiled fragment is placed in a program (`pre`, `post`, any pool extending its own)
    and with whatever stack `st` and scopes it is entered, the byte-level VM either fails with an ordinary run-time
    error — never a pop of an empty stack, never a malformed-program error — or reaches exactly the end of the
    fragment with `v :: st` and the scopes unchanged. -/
theorem compile_balanced_partial (cfg : CompCfg) {n : Node} (hsl : StraightLine n) (p0 : Pool) (code : List LInstr) (p1 : Pool)
    (hp : PoolOk p0) (h : compileNode cfg n p0 = .ok (code, p1)) (consts : Array Val) (he : PoolExt p1.consts consts)
    (pre post : List Instr) (vc : Cfg) (s : VM) (hip : s.ip = codeSize pre) :
    StackBal s.stack s.scopes (codeSize pre + lsize code)
      (stepN vc (progOfCode (pre ++ instrs code ++ post) consts) (instrs code).length s) :=
  balanced_sl cfg hsl p0 code p1 hp h consts he pre post vc s hip

/-- Whole runs of `StraightLine` programs: a successful run ends with exactly the result (the stack is empty after `Run`
    popped it) and no scope open; a failing run fails with an ordinary error, not by popping an empty stack. -/
theorem compile_run_balanced_partial (cfg : CompCfg) (hcast : cfg.cast = none) {n : Node} (hsl : StraightLine n) (c : Compiled)
    (h : compileProgram cfg n = .ok c) (vc : Cfg) (fuel : Nat) (hf : c.code.length < fuel) :
    match (run vc (progOfCode (instrs c.code) c.consts) fuel).1 with
    | .ok _ => (run vc (progOfCode (instrs c.code) c.consts) fuel).2.stack = [] ∧
               (run vc (progOfCode (instrs c.code) c.consts) fuel).2.scopes = []
    | .error e => e ≠ .underflow ∧ e ≠ .badop ∧ e ≠ .fuel := by
  unfold compileProgram at h
  obtain ⟨⟨code, p⟩, h1, h⟩ := cr_bind_ok h
  dsimp only at h
  split at h
  · cases h
  · simp only [hcast, pure, Except.pure, Except.ok.injEq] at h
    subst h
    simp only [List.append_nil] at hf ⊢
    exact run_of_balanced (balanced_sl cfg hsl _ _ _ PoolOk.empty h1 _ (PoolExt.refl _)) vc fuel (by simpa [instrs] using hf)

/-- non-vacuity: `1 + -2 < 3` is in the sub-language -/
example : StraightLine (.binary {} "<" (.binary {} "+" (.int {} 1) (.unary {} "-" (.int {} 2))) (.int {} 3)) :=
  .binary _ _ _ _ .less .less rfl rfl (.binary _ _ _ _ .add .add rfl rfl (.int _ _) (.unary _ _ _ (.int _ _))) (.int _ _)

/-! ### stack balance for every construct (from C01's refinement theorem) -/

/-- Fragment level, every construct (loops, conditionals, calls included): this is C01's `compile_balanced_partial`,
    restated here.  Wherever the fragment compiled from `n` is placed and with whatever stack it is entered (scopes
    matching the closure context), a successful evaluation ends exactly at the end of the fragment with one more
    value on the stack it found and the scope stack it found.  Hypotheses are C01's: operands fit 16 bits, no two
    distinct float constants that are `==` (`+0.0`/`-0.0` share a pool slot), `Good` (pair nodes exactly inside map
    literals, loop collections below 2^63 elements), a `mapEnv` program runs on a map. -/
theorem compile_balanced (n : Node) (cfg : CompCfg) (pool pool' : Pool) (code : List LInstr) (F : Val → Prop)
    (hc : compileNode cfg n pool = .ok (code, pool')) (hF : Refine.AliasFree F) (hinv : Refine.PoolInv F pool)
    (hfl : Refine.FloatsIn F n) (P : Prog) (pre post : List LInstr)
    (hP : P.code = (encodeAll ((pre ++ code ++ post).map (·.instr))).toArray) (hK : Refine.PoolExt pool' P.consts)
    (hfit : Refine.FitsU16 code) (c : Cfg) (henv : Refine.EnvOK c cfg) (hg : Refine.Good (Refine.SmallColl c) n)
    (ctx : Spec.Ctx) (s : VM) (hip : s.ip = lsize pre) (hlim : s.limit = c.budget) (hsc : Refine.ScopesOK ctx s.scopes)
    (v : Val) (σ' : Spec.SState) (hev : Spec.eval (Refine.specOf c) ctx n (Refine.obs s) = (.ok v, σ')) :
    ∃ t, Refine.Steps c P s t ∧ t.ip = lsize pre + lsize code ∧ t.stack.length = s.stack.length + 1 ∧
      t.stack.tail = s.stack ∧ t.scopes = s.scopes :=
  C01.compile_balanced_partial n cfg pool pool' code F hc hF hinv hfl P pre post hP hK hfit c henv hg ctx s hip hlim hsc
    v σ' hev

/-- **Whole runs, every construct.**  For enough fuel, a run of a compiled program on the byte-level VM either
    succeeds — and then ends with exactly the result (the stack is empty once `Run` has popped it) and no loop scope
    open — or fails with an ordinary error class: never by popping an empty stack / closing a missing scope
    (`underflow`), never by running out of the model's fuel.  Proof: C01's refinement (`run = Spec.run`, final stack
    and scopes empty) and `spec_run_ordinary` (the language definition itself never produces `underflow`, provided
    the environment's functions do not report it: `WorldOrd`). -/
theorem compile_run_balanced (cfg : CompCfg) (n : Node) (cp : Compiled) (F : Val → Prop) (c : Cfg)
    (hc : compileProgram cfg n = .ok cp) (hF : Refine.AliasFree F) (hfl : Refine.FloatsIn F n)
    (hfit : Refine.FitsU16 cp.code) (henv : Refine.EnvOK c cfg) (hg : Refine.Good (Refine.SmallColl c) n)
    (hw : WorldOrd c.world) :
    ∃ N, ∀ fuel, N ≤ fuel →
      match (run c (Refine.progOf cp) fuel).1 with
      | .ok _ => (run c (Refine.progOf cp) fuel).2.stack = [] ∧ (run c (Refine.progOf cp) fuel).2.scopes = []
      | .error e => e ≠ .underflow ∧ e ≠ .fuel := by
  obtain ⟨N, hN⟩ := C01.run_conforms_partial cfg n cp F c hc hF hfl hfit henv hg
  refine ⟨N, fun fuel hf => ?_⟩
  obtain ⟨h1, _, h3⟩ := hN fuel hf
  cases hr : (run c (Refine.progOf cp) fuel).1 with
  | ok v => exact h3 v hr
  | error e =>
    exact spec_run_ordinary (Refine.specOf c) hw _ cfg.cast n hg e (by rw [← h1, hr])

/-- non-vacuity: C01's example tree `all(1..3, {# > 0 and I == 1})` in every environment whose functions fail in
    ordinary ways -/
example (c : Cfg) (hw : WorldOrd c.world) : ∃ N, ∀ fuel, N ≤ fuel →
    match (run c (Refine.progOf C01.exCompiled) fuel).1 with
    | .ok _ => (run c (Refine.progOf C01.exCompiled) fuel).2.stack = [] ∧
               (run c (Refine.progOf C01.exCompiled) fuel).2.scopes = []
    | .error e => e ≠ .underflow ∧ e ≠ .fuel :=
  compile_run_balanced {} C01.exTree C01.exCompiled (fun _ => False) c C01.ex_compiles (fun _ _ h => h.elim)
    C01.ex_floats C01.ex_fits (fun h => by cases h) (C01.ex_good c) hw

/-- what is still assumed: the statement without C01's side conditions (float constants that are `==` but distinct,
    loop collections of 2^63 elements or more, ill-formed trees, environment functions reporting `underflow`) -/
def compile_balanced_goal : Prop :=
  ∀ (cfg : CompCfg) (n : Node) (c : Compiled), CompCfgOk cfg → compileProgram cfg n = .ok c → JumpsFit c →
    ∀ (vc : Cfg) (fuel : Nat),
      match (run vc (progOfCode (instrs c.code) c.consts) fuel).1 with
      | .ok _ => (run vc (progOfCode (instrs c.code) c.consts) fuel).2.stack = [] ∧
                 (run vc (progOfCode (instrs c.code) c.consts) fuel).2.scopes = []
      | .error e => e ≠ .underflow ∧ e ≠ .badop

/-! ### the offset guard of the source, consumed -/

/-- **C01's typed-pipeline theorem for the compiler as the translator reads it on this run**: `T.jumpGuard` is the
    fact `Gen.jumpGuard` regenerated from `compiler.go` (does `emit` / `patchJump` reject operands beyond 16 bits?),
    so the hypothesis `jumpGuard = true` of `C01.compile_source_conforms_guarded` is discharged from the source
    instead of being assumed; when the guard disappears from the code this theorem stops checking. -/
theorem compile_source_conforms_code (F : Api.Front) (T : Api.TypedCfg) (hguard : T.jumpGuard = Gen.jumpGuard)
    (c : Cfg) (src : String) (cp : Compiled) (checked final : Node)
    (h : Api.compileSource F T c.world src = .ok cp checked final)
    (hfl : Refine.floatsOK final = true) (henv : Refine.EnvOK c T.compCfg)
    (hg : Refine.Good (Refine.SmallColl c) final) :
    ∃ N, ∀ fuel, N ≤ fuel → ∃ res fin, Api.runSource F T c fuel src = .ran cp res fin ∧
      Refine.RunAgrees (res, fin) (Spec.run (Refine.specOf c) (Api.castOf T.check.expect) final) :=
  C01.compile_source_conforms_guarded F T (hguard.trans offset_guard_present) c src cp checked final h hfl henv hg

/-- every program the compiler model emits under the source's guard has operands that fit 16 bits -/
theorem compiled_fits_code (cfg : CompCfg) (hcfg : Bc.CompCfgOk cfg) (hguard : cfg.jumpGuard = Gen.jumpGuard)
    (n : Node) (cp : Compiled) (hc : compileProgram cfg n = .ok cp) : Refine.FitsU16 cp.code :=
  Refine.fitsU16_of_guard cfg hcfg (hguard.trans offset_guard_present) n cp hc

end ExprModel.C05
