import ExprModel.Gen.Helpers
/-
C14 — Mixed-kind arithmetic follows one promotion rule.

Tie: `Gen.arms` is regenerated from vm/helpers.go on every run; `table_is_rule` re-checks that the
code's 1402 arms are exactly the arms the rule prescribes.  `helper_eq_ref` then holds for *all values*.
-/
namespace ExprModel.C14
open ExprModel

/-- Every helper's table in the source is exactly the rule's table (kernel-evaluated, no axioms). -/
theorem table_is_rule : ∀ h ∈ Helper.all, Gen.arms h = ruleArms h := by decide +kernel

theorem table_is_rule' (h : Helper) : Gen.arms h = ruleArms h :=
  table_is_rule h (by cases h <;> simp [Helper.all])

/-- the generated file has exactly 9×144 + 100 + 6 arms -/
theorem arm_count : Gen.helperArmCount = 1402 ∧ (Helper.all.map fun h => (Gen.arms h).length).sum = 1402 := by
  decide +kernel

/-- after the type switch, the five ordered helpers panic and `equal` falls back to nil / DeepEqual -/
theorem fallthrough_pinned :
    Gen.equalTail = ["if isNil(a) && isNil(b) { return true }", "return reflect.DeepEqual(a, b)"] ∧
    Gen.lessTail = ["panic(fmt.Sprintf(\"invalid operation: %T %v %T\", a, \"<\", b))"] ∧
    Gen.addTail = ["panic(fmt.Sprintf(\"invalid operation: %T %v %T\", a, \"+\", b))"] ∧
    Gen.divideTail = ["panic(fmt.Sprintf(\"invalid operation: %T %v %T\", a, \"/\", b))"] ∧
    Gen.moduloTail = ["panic(fmt.Sprintf(\"invalid operation: %T %v %T\", a, \"%\", b))"] := by
  decide +kernel

private theorem findArm_rule_all :
    (Helper.all.all fun h => Kind.all.all fun ka => Kind.all.all fun kb =>
      findArm (ruleArms h) (some ka) (some kb) ==
        (if h.noFloat && (ka.isFloat || kb.isFloat) then none else some (ruleArm h ka kb))) = true := by
  decide +kernel

theorem findArm_rule (h : Helper) (ka kb : Kind) :
    findArm (ruleArms h) (some ka) (some kb) =
      (if h.noFloat && (ka.isFloat || kb.isFloat) then none else some (ruleArm h ka kb)) := by
  have := findArm_rule_all
  simp only [List.all_eq_true] at this
  have := this h (by cases h <;> simp [Helper.all]) ka (Kind.mem_all ka) kb (Kind.mem_all kb)
  exact eq_of_beq this

private theorem findArm_rule_str_all :
    (Helper.all.all fun h =>
      findArm (ruleArms h) none none ==
        (if h.hasString then some { ka := none, kb := none, op := h.op, cx := none, cy := none } else none)) = true := by
  decide +kernel

theorem findArm_rule_str (h : Helper) :
    findArm (ruleArms h) none none =
      (if h.hasString then some { ka := none, kb := none, op := h.op, cx := none, cy := none } else none) := by
  have := findArm_rule_str_all
  simp only [List.all_eq_true] at this
  exact eq_of_beq (this h (by cases h <;> simp [Helper.all]))

private theorem findArm_rule_mixed_all :
    (Helper.all.all fun h => Kind.all.all fun k =>
      (findArm (ruleArms h) (some k) none).isNone && (findArm (ruleArms h) none (some k)).isNone) = true := by
  decide +kernel

theorem findArm_rule_mixed (h : Helper) (k : Kind) :
    findArm (ruleArms h) (some k) none = none ∧ findArm (ruleArms h) none (some k) = none := by
  have := findArm_rule_mixed_all
  simp only [List.all_eq_true, Bool.and_eq_true, Option.isNone_iff_eq_none] at this
  exact this h (by cases h <;> simp [Helper.all]) k (Kind.mem_all k)

/-- **Main theorem.** For every helper and *all* operand values, what the code's table computes is
    what the promotion rule computes. -/
theorem helper_eq_ref (h : Helper) (a b : Val) :
    helperSem (Gen.arms h) a b = refSem h a b := by
  rw [table_is_rule' h]
  unfold helperSem refSem
  cases ha : armTypeOf a with
  | none => rfl
  | some ka =>
    cases hb : armTypeOf b with
    | none => cases ka <;> rfl
    | some kb =>
      cases ka with
      | none =>
        cases kb with
        | none => simp only [findArm_rule_str]; cases h <;> simp [Helper.hasString, convOpt]
        | some kb => simp only [(findArm_rule_mixed h kb).2]
      | some ka =>
        cases kb with
        | none => simp only [(findArm_rule_mixed h ka).1]
        | some kb =>
          simp only [findArm_rule]
          by_cases hf : (h.noFloat && (ka.isFloat || kb.isFloat)) = true
          · simp [hf]
          · simp only [hf, Bool.false_eq_true, ↓reduceIte, ruleArm, Kind.maxRank]
            rcases Nat.lt_trichotomy ka.rank kb.rank with hlt | heq | hgt
            · have hne : ¬ ka.rank > kb.rank := by omega
              have hk : ka ≠ kb := fun e => by subst e; omega
              simp [hlt, hne, hk, convOpt]
            · have := Kind.rank_inj ka kb heq
              subst this
              simp [convOpt]
            · have hne : ¬ ka.rank < kb.rank := by omega
              have hk : kb ≠ ka := fun e => by subst e; omega
              simp [hgt, hne, hk, convOpt]

theorem wrap_zero (k : Kind) : wrap k 0 = 0 := by cases k <;> decide

/-- integer division truncates toward zero (Go semantics at the promoted kind) -/
theorem int_div_truncates (k : Kind) (a b : Int) (hb : b ≠ 0) :
    refSem .divide (.int k a) (.int k b) = .ok (.int k (wrap k (Int.tdiv a b))) := by
  simp [refSem, armTypeOf, Helper.noFloat, Kind.maxRank, applyOp, hb, Helper.op]

/-- integer division and modulo by zero are errors, for every pair of integer kinds -/
theorem int_div_zero_errors (ka kb : Kind) (hka : ka.isFloat = false) (hkb : kb.isFloat = false) (a : Int) :
    refSem .divide (.int ka a) (.int kb 0) = .error .divZero ∧
    refSem .modulo (.int ka a) (.int kb 0) = .error .divZero := by
  cases ka <;> cases kb <;> simp_all [refSem, armTypeOf, Helper.noFloat, Kind.maxRank, Kind.rank, applyOp,
    Helper.op, conv, wrap_zero, Kind.isFloat]

/-- modulo takes the sign of the dividend (truncated remainder) -/
theorem modulo_sign (k : Kind) (hk : k.isFloat = false) (a b : Int) (hb : b ≠ 0) :
    refSem .modulo (.int k a) (.int k b) = .ok (.int k (wrap k (Int.tmod a b))) := by
  cases k <;> simp_all [refSem, armTypeOf, Helper.noFloat, Kind.maxRank, applyOp, Helper.op, Kind.isFloat]

/-- `checker.typeWeight` is the rank of the helper list, so `combined` picks `Kind.maxRank`. -/
theorem typeWeight_is_rank :
    Gen.typeWeightTable = Kind.all.map (fun k => (k, k.rank + 1)) ∧ Gen.typeWeightDefault = 0 ∧
    Gen.combinedBody = "{ if typeWeight(a) > typeWeight(b) { return a } else { return b } }" := by
  decide +kernel

theorem kindOf_conv (K : Kind) (a : Val) (k : Kind) (h : kindOfVal a = some k) :
    kindOfVal (conv K a) = some K := by
  cases a <;> simp [kindOfVal] at h <;> cases K <;> simp [conv, kindOfVal]

theorem applyOp_kind (op : BinOp) (hop : op = .add ∨ op = .sub ∨ op = .mul ∨ op = .div ∨ op = .mod)
    (x y v : Val) (K : Kind) (hx : kindOfVal x = some K) (hy : kindOfVal y = some K)
    (hr : applyOp op x y = .ok v) : kindOfVal v = some K := by
  cases x <;> simp [kindOfVal] at hx <;> cases y <;> simp [kindOfVal] at hy
  all_goals (try subst hx)
  all_goals (try subst hy)
  all_goals (rcases hop with h | h | h | h | h <;> subst h <;> simp only [applyOp] at hr)
  all_goals (repeat' split at hr)
  all_goals (first | cases hr | skip)
  all_goals simp_all [kindOfVal]

/-- result kind of an arithmetic helper on numbers = the kind the checker predicts (`combined`) -/
theorem result_kind_predicted (h : Helper) (hop : h.op = .add ∨ h.op = .sub ∨ h.op = .mul ∨ h.op = .div ∨ h.op = .mod)
    (a b v : Val) (ka kb : Kind) (ha : kindOfVal a = some ka) (hb : kindOfVal b = some kb)
    (hr : refSem h a b = .ok v) : kindOfVal v = some (Kind.maxRank ka kb) := by
  have haT : armTypeOf a = some (some ka) := by cases a <;> simp_all [kindOfVal, armTypeOf]
  have hbT : armTypeOf b = some (some kb) := by cases b <;> simp_all [kindOfVal, armTypeOf]
  simp only [refSem, haT, hbT] at hr
  split at hr
  · cases hr
  · refine applyOp_kind h.op hop _ _ v _ ?_ ?_ hr
    · split
      · next e => rw [← e]; exact ha
      · exact kindOf_conv _ a ka ha
    · split
      · next e => rw [← e]; exact hb
      · exact kindOf_conv _ b kb hb

/-- comparisons yield booleans -/
theorem comparison_yields_bool (h : Helper) (hop : h.op = .eq ∨ h.op = .lt ∨ h.op = .gt ∨ h.op = .le ∨ h.op = .ge)
    (x y v : Val) (hr : applyOp h.op x y = .ok v) : ∃ b, v = .bool b := by
  cases x <;> cases y <;> rcases hop with e | e | e | e | e <;> rw [e] at hr <;> simp only [applyOp] at hr
  all_goals (repeat' split at hr)
  all_goals (first | cases hr | skip)
  all_goals (first | exact ⟨_, rfl⟩ | simp_all)

/-- the unary helpers of vm/runtime.go are as modelled: `negate` is `-v` for all twelve kinds,
    `toInt`/`toInt64`/`toFloat64` are plain Go conversions, `exponent` is `math.Pow` on float64s -/
theorem unary_helpers_pinned :
    (∀ k ∈ Kind.all, (k, UnShape.neg) ∈ Gen.negateCases) ∧ Gen.negateCases.length = 12 ∧
    (∀ k ∈ Kind.all, (k, if k = .int then UnShape.same else .conv .int) ∈ Gen.toIntCases) ∧ Gen.toIntCases.length = 12 ∧
    (∀ k ∈ Kind.all, (k, if k = .int64 then UnShape.same else .conv .int64) ∈ Gen.toInt64Cases) ∧ Gen.toInt64Cases.length = 12 ∧
    (∀ k ∈ Kind.all, (k, if k = .float64 then UnShape.same else .conv .float64) ∈ Gen.toFloat64Cases) ∧ Gen.toFloat64Cases.length = 12 ∧
    Gen.exponentBody = "{ return math.Pow(toFloat64(a), toFloat64(b)) }" := by
  decide +kernel

/-- non-vacuity: a concrete mixed-kind case through the code's table: uint8(200) + int8(-1) at kind int8 -/
example : helperSem (Gen.arms .add) (.int .uint8 200) (.int .int8 (-1)) = .ok (.int .int8 (-57)) := by
  rw [helper_eq_ref]
  simp [refSem, armTypeOf, Helper.noFloat, Kind.maxRank, Kind.rank, conv, applyOp, Helper.op]
  decide

/-! ### Reading the property's rank literally ("by width")

The property text ranks kinds "unsigned kinds by width, then signed kinds by width, then float32, float64".
The code ranks the platform-sized `uint` and `int` FIRST in their groups (helpers.go's `types` list and
`typeWeight` agree on that, which is what `table_is_rule` and `typeWeight_is_rank` pin).  For all pairs of
explicitly sized kinds the two rankings coincide; for `int`/`uint` against a narrower kind of the same
signedness group — and `int` against any unsigned kind... — they do not: the code converts the 64-bit `int`
DOWN to `int8`.  Recorded as known finding `c14:platform-int-ranked-below-narrow-kinds`. -/

/-- the two rankings agree on every pair that does not involve `int` or `uint` -/
theorem rank_agrees_with_width_on_sized_kinds :
    ∀ ka ∈ Kind.all, ∀ kb ∈ Kind.all, ka ≠ .int → ka ≠ .uint → kb ≠ .int → kb ≠ .uint →
      Kind.maxRank ka kb = Kind.maxRankW ka kb := by decide

/-- … and where they differ the results differ: `int(200) + int8(1)` is `int8(-55)` by the code's rule
    (proved equal to what the helpers compute, `helper_eq_ref`) and `int(201)` by width -/
theorem width_rank_witness :
    helperSem (Gen.arms .add) (.int .int 200) (.int .int8 1) = .ok (.int .int8 (-55)) ∧
    refSemW .add (.int .int 200) (.int .int8 1) = .ok (.int .int 201) := by
  constructor
  · rw [helper_eq_ref]
    simp [refSem, armTypeOf, Helper.noFloat, Kind.maxRank, Kind.rank, conv, applyOp, Helper.op]
    decide
  · simp [refSemW, armTypeOf, Helper.noFloat, Kind.maxRankW, Kind.rankW, conv, applyOp, Helper.op]
    decide

end ExprModel.C14
