import ExprModel.Proofs.LexNumber
import ExprModel.Proofs.LexString
import ExprModel.Proofs.LexLoop
import ExprModel.Proofs.LexNumTok
import ExprModel.Proofs.LexFloatTok
import ExprModel.Gen.LexTables
/-
C12 — Literals and token positions are lexed faithfully.

Model: `ExprModel.Lex` (`lex`, `parseNumber`, `unescape`), parameterised by the literal tables of the lexer
source and by the if/else-if chain that classifies a Number token.  Tie: the translator regenerates both
(`Gen.lexTables`, `Gen.numCfg`); `tables_pinned` and `numcfg_known` re-check on every run that they are the
values the theorems below are stated for; the harness compares `lex` / `parseNumber` with the real code.
-/
namespace ExprModel.C12
open ExprModel ExprModel.Lex

/-! ## The regenerated facts -/

/-- the class strings, keyword operators and escape tables in lexer.go / state.go / utils.go today are the
ones every theorem here is stated for -/
theorem tables_pinned : Gen.lexTables = LexTables.std := by decide

/-- parser.go classifies a Number token by one of the two known chains: float test first (the code at the
pinned commit) or hexadecimal test first (the repair) -/
theorem numcfg_known : Gen.numCfg = NumCfg.asIs ∨ Gen.numCfg = NumCfg.repaired := by decide

/-- … and on /repo's current source it is the repaired chain (fix 01cf413): the theorems stated for
`NumCfg.repaired` below (`hex_roundtrip`, `hex_literal`) are theorems about the code as it is; a regression of
parser.go to the float-first chain breaks this theorem -/
theorem numcfg_is_repaired : Gen.numCfg = NumCfg.repaired := by decide

/-! ## Integer spellings -/

/-- a case choice per hexadecimal digit (missing choices = lower case) -/
def withCase : List Nat → List Bool → List (Nat × Bool)
  | [], _ => []
  | d :: ds, [] => (d, false) :: withCase ds []
  | d :: ds, u :: us => (d, u) :: withCase ds us

theorem withCase_fst (ds : List Nat) (us : List Bool) : (withCase ds us).map (·.1) = ds := by
  induction ds generalizing us with
  | nil => rfl
  | cons d ds ih => cases us <;> simp [withCase, ih]

theorem withCase_mem {ds : List Nat} {us : List Bool} {p : Nat × Bool} (h : p ∈ withCase ds us) : p.1 ∈ ds := by
  have : p.1 ∈ (withCase ds us).map (·.1) := List.mem_map.mpr ⟨p, h, rfl⟩
  rwa [withCase_fst] at this

/-- `n` in decimal, `seps[i]` underscores after the i-th digit -/
def decimalSpelling (n : Nat) (seps : List Nat) : String :=
  String.ofList (withSeps ((digitsOf 10 n).map decChar) seps)

/-- `0x` / `0X`, `k` underscores, then `n` in hexadecimal with a letter case per digit and `seps[i]`
underscores after the i-th digit -/
def hexSpelling (mark : Char) (n : Nat) (ups : List Bool) (k : Nat) (seps : List Nat) : String :=
  String.ofList ('0' :: mark :: (List.replicate k '_' ++ withSeps (hexChars (withCase (digitsOf 16 n) ups)) seps))

example : decimalSpelling 1234567 [0, 3, 0, 0, 1] = "12___345_67" := by decide
example : hexSpelling 'x' 0x1e5f [true, false, true] 1 [0, 2] = "0x_1e__5f" := by decide
example : hexSpelling 'X' 255 [true] 0 [] = "0XFf" := by decide

/-- Decimal digits (leading zeros allowed) with any placement of separators parse to their value. -/
theorem decimal_roundtrip_digits (cfg : NumCfg) (hcfg : cfg = .asIs ∨ cfg = .repaired)
    (ds : List Nat) (hne : ds ≠ []) (hd : ∀ d ∈ ds, d < 10) (hv : ofDigits 10 ds < 2 ^ 63) (seps : List Nat) :
    parseNumber cfg (String.ofList (withSeps (ds.map decChar) seps)) = .ok (.int (ofDigits 10 ds)) := by
  have h : cfg.DecimalOK := by
    rcases hcfg with rfl | rfl
    · exact asIs_decimalOK
    · exact repaired_decimalOK
  simp only [parseNumber, String.toList_ofList]
  exact parseNumberChars_decimal cfg h ds hne hd hv seps

/-- **decimal_roundtrip**: every `n < 2^63`, written in decimal with any admissible placement of `_`,
parses to exactly `n` — for the classification chain of the code as it is and for the repaired one. -/
theorem decimal_roundtrip (cfg : NumCfg) (hcfg : cfg = .asIs ∨ cfg = .repaired) (n : Nat) (hn : n < 2 ^ 63)
    (seps : List Nat) : parseNumber cfg (decimalSpelling n seps) = .ok (.int n) := by
  have := decimal_roundtrip_digits cfg hcfg (digitsOf 10 n) (digitsOf_ne_nil 10 n)
    (digitsOf_lt 10 (by decide) n) (by rw [ofDigits_digitsOf 10 (by decide)]; exact hn) seps
  rw [ofDigits_digitsOf 10 (by decide)] at this
  exact this

/-- … in particular for the chain regenerated from parser.go on this run -/
theorem decimal_roundtrip_code (n : Nat) (hn : n < 2 ^ 63) (seps : List Nat) :
    parseNumber Gen.numCfg (decimalSpelling n seps) = .ok (.int n) :=
  decimal_roundtrip Gen.numCfg numcfg_known n hn seps

/-- the full statement for hexadecimal spellings under a classification chain `cfg` -/
def hex_roundtrip_goal (cfg : NumCfg) : Prop :=
  ∀ (mark : Char), mark = 'x' ∨ mark = 'X' → ∀ (n : Nat), n < 2 ^ 63 → ∀ (ups : List Bool) (k : Nat) (seps : List Nat),
    parseNumber cfg (hexSpelling mark n ups k seps) = .ok (.int n)

/-- **hex_roundtrip** (repaired chain): every `n < 2^63` in hexadecimal — either prefix letter, any mix of
upper and lower case digits (`e`/`E` included), separators anywhere after the prefix — parses to `n`. -/
theorem hex_roundtrip : hex_roundtrip_goal NumCfg.repaired := by
  intro mark hm n hn ups k seps
  simp only [parseNumber, hexSpelling, String.toList_ofList]
  have := parseNumberChars_hex NumCfg.repaired mark hm (repaired_hexOK mark hm) (withCase (digitsOf 16 n) ups)
    (by intro h
        have := congrArg (List.map (·.1)) h
        rw [withCase_fst] at this
        exact digitsOf_ne_nil 16 n this)
    (fun p hp => digitsOf_lt 16 (by decide) n p.1 (withCase_mem hp))
    (by rw [withCase_fst, ofDigits_digitsOf 16 (by decide)]; exact hn) k seps
  rw [withCase_fst, ofDigits_digitsOf 16 (by decide)] at this
  exact this

/-- **hex_roundtrip_partial** (the code as it is): lower-case prefix `0x` and no hexadecimal digit `e`/`E`
(digit value 14) in the number. -/
theorem hex_roundtrip_partial (cfg : NumCfg) (hcfg : cfg = .asIs ∨ cfg = .repaired) (n : Nat) (hn : n < 2 ^ 63)
    (hnoE : ∀ d ∈ digitsOf 16 n, d ≠ 14) (ups : List Bool) (k : Nat) (seps : List Nat) :
    parseNumber cfg (hexSpelling 'x' n ups k seps) = .ok (.int n) := by
  have hc : cfg.HexNoEOK 'x' := by
    rcases hcfg with rfl | rfl
    · exact asIs_hexNoEOK
    · exact hexOK_noE (repaired_hexOK 'x' (Or.inl rfl))
  simp only [parseNumber, hexSpelling, String.toList_ofList]
  have := parseNumberChars_hex_noE cfg 'x' (Or.inl rfl) hc (withCase (digitsOf 16 n) ups)
    (by intro h
        have := congrArg (List.map (·.1)) h
        rw [withCase_fst] at this
        exact digitsOf_ne_nil 16 n this)
    (fun p hp => digitsOf_lt 16 (by decide) n p.1 (withCase_mem hp))
    (fun p hp => hnoE p.1 (withCase_mem hp))
    (by rw [withCase_fst, ofDigits_digitsOf 16 (by decide)]; exact hn) k seps
  rw [withCase_fst, ofDigits_digitsOf 16 (by decide)] at this
  exact this

/-- the hypotheses of `hex_roundtrip_partial` are satisfiable: 0x7fffffffffffffff has no digit 14 -/
example : (9223372036854775807 : Nat) < 2 ^ 63 ∧ ∀ d ∈ digitsOf 16 31, d ≠ 14 := by decide

/-- … for the chain regenerated from parser.go on this run -/
theorem hex_roundtrip_partial_code (n : Nat) (hn : n < 2 ^ 63) (hnoE : ∀ d ∈ digitsOf 16 n, d ≠ 14)
    (ups : List Bool) (k : Nat) (seps : List Nat) :
    parseNumber Gen.numCfg (hexSpelling 'x' n ups k seps) = .ok (.int n) :=
  hex_roundtrip_partial Gen.numCfg numcfg_known n hn hnoE ups k seps

/-- once parser.go asks the hexadecimal question first, the full round trip holds for the code's chain -/
theorem hex_roundtrip_code_of_repaired (h : Gen.numCfg = NumCfg.repaired) : hex_roundtrip_goal Gen.numCfg :=
  h ▸ hex_roundtrip

/-- **hex_roundtrip_code**: the full hexadecimal round trip for the chain regenerated from parser.go on this run -/
theorem hex_roundtrip_code : hex_roundtrip_goal Gen.numCfg := hex_roundtrip_code_of_repaired numcfg_is_repaired

/-- **hex_witness**: under the chain of the code as it is, `0xE` (= 14) is sent to ParseFloat, `0x1e5` too,
and `0X1F` goes to ParseInt base 10, which rejects it; the repaired chain reads all three. -/
theorem hex_witness :
    parseNumber NumCfg.asIs "0xE" = .ok (.float "0xE") ∧
    parseNumber NumCfg.asIs "0x1e5" = .ok (.float "0x1e5") ∧
    parseNumber NumCfg.asIs "0X1F" = .error "syntax" ∧
    parseNumber NumCfg.repaired "0xE" = .ok (.int 14) ∧
    parseNumber NumCfg.repaired "0x1e5" = .ok (.int 485) ∧
    parseNumber NumCfg.repaired "0X1F" = .ok (.int 31) := by decide

/-- hence the full statement fails for the chain of the code as it is -/
theorem hex_roundtrip_fails_asIs : ¬ hex_roundtrip_goal NumCfg.asIs := by
  intro h
  have := h 'x' (Or.inl rfl) 14 (by decide) [true] 0 []
  revert this
  decide

/-! ## Floats: which text reaches strconv.ParseFloat -/

/-- **float_classified**: a number text with a `.`, `e` or `E` and no `x`/`X` (every decimal or exponent
spelling) is handed to `strconv.ParseFloat` unchanged except for the removal of `_`. -/
theorem float_classified (cfg : NumCfg) (hcfg : cfg = .asIs ∨ cfg = .repaired) (text : List Char)
    (h1 : ∃ c ∈ text, c = '.' ∨ c = 'e' ∨ c = 'E') (h2 : ∀ c ∈ text, c ≠ 'x' ∧ c ≠ 'X') :
    parseNumber cfg (String.ofList text) = .ok (.float (String.ofList (stripUnderscores text))) := by
  simp only [parseNumber, String.toList_ofList, parseNumberChars]
  obtain ⟨c, hc, hc'⟩ := h1
  have hmem : c ∈ stripUnderscores text := by
    simp only [stripUnderscores, List.mem_filter]
    refine ⟨hc, ?_⟩
    rcases hc' with rfl | rfl | rfl <;> decide
  have hf : NumTest.holds (stripUnderscores text) (.containsAny ['.', 'e', 'E']) = true :=
    containsAny_true _ _ c hmem (by rcases hc' with rfl | rfl | rfl <;> simp)
  have hx : NumTest.holds (stripUnderscores text) (.containsAny ['x', 'X']) = false :=
    containsAny_false _ _ (by
      intro d hd x hx
      have hd' : d ∈ text := (List.mem_filter.mp hd).1
      have := h2 d hd'
      simp at hx
      rcases hx with rfl | rfl <;> simp [this])
  have hcl : cfg.classify (stripUnderscores text) = .float := by
    rcases hcfg with rfl | rfl
    · simp [NumCfg.classify, NumCfg.asIs, classifyIn, hf]
    · simp [NumCfg.classify, NumCfg.repaired, classifyIn, hf, hx]
  simp [hcl]

example : parseNumber NumCfg.asIs "1_0.5e-3" = .ok (.float "10.5e-3") := by decide

/-! ## String literals -/

/-- the literal a string value is written as: `cs` pairs every character of the value with the way it is
spelled (`Spell.raw`, `.named` = `\a \b \f \n \r \t \v \\` or the escaped quote, `.x` = `\xHH`, `.u` = `\uXXXX`,
`.U` = `\UXXXXXXXX` with a letter case per digit, `.oct` = `\NNN`) -/
def stringSpelling (q : Char) (cs : List (Char × Spell)) : String := String.ofList (renderLit q cs)

example : stringSpelling '"' [('a', .raw), ('\n', .named), ('"', .named), ('é', .x [true]), ('é', .u []),
    ('😀', .U [false, false, false, true, true]), ('A', .oct), ('\'', .raw), ('\t', .raw)]
    = "\"a\\n\\\"\\xE9\\u00e9\\U0001F600\\101'\t\"" := by decide

/-- **string_roundtrip**: for every string value (any Unicode scalar values: control characters, quotes,
backslashes, non-BMP), either quote, and every admissible choice of spelling per character, lexing the
literal yields exactly one String token holding that value, at 1:0, followed by EOF.  `cc` is any
classification of runes that does not call the quote a space (true of `unicode.IsSpace`). -/
theorem string_roundtrip (cc : CharClass) (q : Char) (hq : q = '"' ∨ q = '\'') (hsp : cc.isSpace q = false)
    (cs : List (Char × Spell)) (hok : ∀ p ∈ cs, p.2.Ok q p.1) :
    lex cc LexTables.std (stringSpelling q cs) =
      .ok [{ kind := .string, value := String.ofList (cs.map (·.1)), loc := ⟨1, 0⟩ },
           { kind := .eof, value := "", loc := ⟨1, (renderLit q cs).length - 1⟩ }] := by
  simp only [lex, stringSpelling, String.toList_ofList]
  exact lexChars_renderLit cc q hq hsp cs hok

/-- every character has at least one admissible spelling (`\U`), most have several: the quantification
over `Spell.Ok` choices is never empty -/
theorem spelling_exists (q c : Char) : ∃ sp : Spell, sp.Ok q c := ⟨.U [], trivial⟩

/-- … with the tables regenerated from the source on this run and any ASCII-exact classification -/
theorem string_roundtrip_code (cc : CharClass) (hcc : cc.AsciiExact) (q : Char) (hq : q = '"' ∨ q = '\'')
    (cs : List (Char × Spell)) (hok : ∀ p ∈ cs, p.2.Ok q p.1) :
    lex cc Gen.lexTables (stringSpelling q cs) =
      .ok [{ kind := .string, value := String.ofList (cs.map (·.1)), loc := ⟨1, 0⟩ },
           { kind := .eof, value := "", loc := ⟨1, (renderLit q cs).length - 1⟩ }] := by
  rw [tables_pinned]
  refine string_roundtrip cc q hq ?_ cs hok
  rcases hq with rfl | rfl
  · rw [hcc.space _ (by decide)]; decide
  · rw [hcc.space _ (by decide)]; decide

/-- quirks of the code the round trip has to respect (and the model mirrors): a raw carriage return inside a
literal becomes a line feed; `\'` inside a double-quoted literal is rejected by `scanEscape` although
`unescapeChar` knows it; `\400` passes `scanEscape` and is rejected by `unescapeChar` (error reported after
the closing quote); `\xE9` denotes U+00E9, not the byte E9; a surrogate `\uD800` becomes U+FFFD -/
theorem string_quirks :
    lexChars CharClass.ascii LexTables.std ['"', 'a', '\r', 'b', '"'] =
      .ok [⟨.string, "a\nb", ⟨1, 0⟩⟩, ⟨.eof, "", ⟨1, 4⟩⟩] ∧
    lexChars CharClass.ascii LexTables.std "\"\\'\"".toList = .error (⟨1, 3⟩, "escape") ∧
    lexChars CharClass.ascii LexTables.std "'\\''".toList = .ok [⟨.string, "'", ⟨1, 0⟩⟩, ⟨.eof, "", ⟨1, 3⟩⟩] ∧
    lexChars CharClass.ascii LexTables.std "\"\\400\"".toList = .error (⟨1, 6⟩, "unescape") ∧
    lexChars CharClass.ascii LexTables.std "\"\\xE9\"".toList = .ok [⟨.string, "é", ⟨1, 0⟩⟩, ⟨.eof, "", ⟨1, 5⟩⟩] ∧
    lexChars CharClass.ascii LexTables.std "\"\\uD800\"".toList = .ok [⟨.string, "\uFFFD", ⟨1, 0⟩⟩, ⟨.eof, "", ⟨1, 7⟩⟩] ∧
    lexChars CharClass.ascii LexTables.std "\"a\nb\"".toList = .error (⟨2, 0⟩, "unterminated") := by decide

/-! ## Token positions -/

/-- **token_positions**: for every source and every classification of runes, when `lex` succeeds its
tokens lie in the source one after the other, separated only by white space, each token located at the
position (`advLoc ⟨1,0⟩ (text before it)`: line 1-based, column 0-based, in runes) of the first character
of its raw text, whose relation to the token value is `TextOf` (identical text; or the text `unescape`s to
the value of a String token; or `not`, runes that `acceptWord` skips (`cc.wordBlank`), `in` for the operator `not in`); the last token is EOF.
From the invariants I1–I5 of DESIGN Appendix D (`Good`, `Fresh` in Proofs/LexPos). -/
theorem token_positions (cc : CharClass) (src : String) (toks : List Token)
    (h : lex cc LexTables.std src = .ok toks) : Laid cc LexTables.std ⟨1, 0⟩ src.toList toks :=
  lexChars_laid cc src.toList toks h

/-- … token by token: every token except EOF carries the position of the first character of its text -/
theorem token_positions_each (cc : CharClass) (src : String) (toks : List Token)
    (h : lex cc LexTables.std src = .ok toks) :
    ∀ t ∈ toks, t.kind ≠ .eof → ∃ pre raw post, src.toList = pre ++ raw ++ post ∧ raw ≠ [] ∧
      (∀ c, raw.head? = some c → cc.isSpace c = false) ∧ t.loc = posOf pre ∧ TextOf cc LexTables.std t raw :=
  (token_positions cc src toks h).positions

/-- `lex_nonempty`: a successful `lex` ends with EOF, and EOF occurs only there -/
theorem lex_ends_with_eof (cc : CharClass) (src : String) (toks : List Token)
    (h : lex cc LexTables.std src = .ok toks) :
    ∃ ts t, toks = ts ++ [t] ∧ t.kind = .eof ∧ ∀ x ∈ ts, x.kind ≠ .eof :=
  (token_positions cc src toks h).last_eof

/-- **lex_total**: the fuel of the model's main loop (`|source| + 1` root steps) is never what ends a run:
every step reads at least one rune or stops (the lexer's termination measure, DESIGN Appendix D) -/
theorem lex_total (cc : CharClass) (src : String) (e : LexErr) (h : lex cc LexTables.std src = .error e) :
    e.2 ≠ "fuel" := lexChars_no_fuel cc src.toList e h

/-- what `posOf` is: the line is 1 + the number of line feeds before, the column the number of runes
since the last line feed (or since the start) -/
theorem posOf_line (pre : List Char) : (posOf pre).line = 1 + pre.count '\n' := advLoc_line _ _
theorem posOf_col_first_line (pre : List Char) (h : ∀ c ∈ pre, c ≠ '\n') : (posOf pre).col = pre.length := by
  rw [posOf, advLoc_noNL _ _ h]; simp
theorem posOf_col_after_newline (a b : List Char) (h : ∀ c ∈ b, c ≠ '\n') :
    (posOf (a ++ '\n' :: b)).col = b.length := advLoc_col_afterNL _ a b h

/-- … for the tables regenerated from the source on this run -/
theorem token_positions_code (cc : CharClass) (src : String) (toks : List Token)
    (h : lex cc Gen.lexTables src = .ok toks) : Laid cc LexTables.std ⟨1, 0⟩ src.toList toks :=
  token_positions cc src toks (tables_pinned ▸ h)

/-- a concrete instance (the hypothesis is not vacuous): multi-line, multi-byte, `not in`, a range -/
example : lex CharClass.ascii LexTables.std "a\n  not  in [1..2,\n\t\"é\\n\"]" =
    .ok [⟨.identifier, "a", ⟨1, 0⟩⟩, ⟨.operator, "not in", ⟨2, 2⟩⟩, ⟨.bracket, "[", ⟨2, 10⟩⟩,
      ⟨.number, "1", ⟨2, 11⟩⟩, ⟨.operator, "..", ⟨2, 12⟩⟩, ⟨.number, "2", ⟨2, 14⟩⟩, ⟨.operator, ",", ⟨2, 15⟩⟩,
      ⟨.string, "é\n", ⟨3, 1⟩⟩, ⟨.bracket, "]", ⟨3, 6⟩⟩, ⟨.eof, "", ⟨3, 6⟩⟩] := by decide

/-- the same with the fixed shape of lexer.acceptWord (`notInAnySpace = true`): a line feed between `not` and `in`
and a bracket right after `in`; the operator is located at `not`, the tokens after it on the next line -/
example : lex { CharClass.ascii with notInAnySpace := true } LexTables.std "a not\n\tin[b]" =
    .ok [⟨.identifier, "a", ⟨1, 0⟩⟩, ⟨.operator, "not in", ⟨1, 2⟩⟩, ⟨.bracket, "[", ⟨2, 3⟩⟩,
      ⟨.identifier, "b", ⟨2, 4⟩⟩, ⟨.bracket, "]", ⟨2, 5⟩⟩, ⟨.eof, "", ⟨2, 5⟩⟩] := by decide

/-- … and with the old shape (`notInAnySpace = false`, the default) the same text is `not`, `in` -/
example : lex CharClass.ascii LexTables.std "a not\n\tin[b]" =
    .ok [⟨.identifier, "a", ⟨1, 0⟩⟩, ⟨.operator, "not", ⟨1, 2⟩⟩, ⟨.operator, "in", ⟨2, 1⟩⟩, ⟨.bracket, "[", ⟨2, 3⟩⟩,
      ⟨.identifier, "b", ⟨2, 4⟩⟩, ⟨.bracket, "]", ⟨2, 5⟩⟩, ⟨.eof, "", ⟨2, 5⟩⟩] := by decide

/-- I5 made visible: after the last token the recorded location is stale by one rune, which only the EOF
token (placed at `prev`) shows: here EOF is reported at 1:1, the position *of* the last character -/
example : lex CharClass.ascii LexTables.std "ab" = .ok [⟨.identifier, "ab", ⟨1, 0⟩⟩, ⟨.eof, "", ⟨1, 1⟩⟩] := by decide

/-! ## Integer literals through the lexer -/

/-- **decimal_lexes**: a decimal spelling alone in the source is exactly one Number token whose value is
the spelling (so `decimal_roundtrip` applies to what the parser receives) -/
theorem decimal_lexes (cc : CharClass) (hcc : cc.AsciiExact) (n : Nat) (seps : List Nat) :
    ∃ l, lex cc LexTables.std (decimalSpelling n seps) =
      .ok [{ kind := .number, value := decimalSpelling n seps, loc := ⟨1, 0⟩ }, { kind := .eof, value := "", loc := l }] := by
  simp only [lex, decimalSpelling, String.toList_ofList]
  exact lexChars_intShape cc hcc _ (intShape_decimal _ (digitsOf_ne_nil 10 n) (digitsOf_lt 10 (by decide) n) seps)

/-- **hex_lexes**: likewise for every hexadecimal spelling, either prefix letter, `e`/`E` digits included:
the lexer is not where hexadecimal literals with the digit `e` are lost -/
theorem hex_lexes (cc : CharClass) (hcc : cc.AsciiExact) (mark : Char) (hm : mark = 'x' ∨ mark = 'X') (n : Nat)
    (ups : List Bool) (k : Nat) (seps : List Nat) :
    ∃ l, lex cc LexTables.std (hexSpelling mark n ups k seps) =
      .ok [{ kind := .number, value := hexSpelling mark n ups k seps, loc := ⟨1, 0⟩ }, { kind := .eof, value := "", loc := l }] := by
  simp only [lex, hexSpelling, String.toList_ofList]
  exact lexChars_intShape cc hcc _ (intShape_hex mark hm _
    (fun p hp => digitsOf_lt 16 (by decide) n p.1 (withCase_mem hp)) k seps)

/-- **decimal_literal**: lexer and number conversion together, for the code's own tables and chain -/
theorem decimal_literal (cc : CharClass) (hcc : cc.AsciiExact) (n : Nat) (hn : n < 2 ^ 63) (seps : List Nat) :
    ∃ t l, lex cc Gen.lexTables (decimalSpelling n seps) = .ok [t, { kind := .eof, value := "", loc := l }] ∧
      t.kind = .number ∧ t.loc = ⟨1, 0⟩ ∧ parseNumber Gen.numCfg t.value = .ok (.int n) := by
  obtain ⟨l, h⟩ := decimal_lexes cc hcc n seps
  refine ⟨{ kind := .number, value := decimalSpelling n seps, loc := ⟨1, 0⟩ }, l, ?_, rfl, rfl,
    decimal_roundtrip_code n hn seps⟩
  rw [tables_pinned]
  exact h

/-- **hex_literal** for the repaired chain (full) -/
theorem hex_literal (cc : CharClass) (hcc : cc.AsciiExact) (mark : Char) (hm : mark = 'x' ∨ mark = 'X')
    (n : Nat) (hn : n < 2 ^ 63) (ups : List Bool) (k : Nat) (seps : List Nat) :
    ∃ t l, lex cc LexTables.std (hexSpelling mark n ups k seps) = .ok [t, { kind := .eof, value := "", loc := l }] ∧
      t.kind = .number ∧ t.loc = ⟨1, 0⟩ ∧ parseNumber NumCfg.repaired t.value = .ok (.int n) := by
  obtain ⟨l, h⟩ := hex_lexes cc hcc mark hm n ups k seps
  exact ⟨{ kind := .number, value := hexSpelling mark n ups k seps, loc := ⟨1, 0⟩ }, l, h, rfl, rfl,
    hex_roundtrip mark hm n hn ups k seps⟩

/-! ## Float literals through the lexer -/

/-- **float_lexes**: a digit, further digits / `_`, an optional `.` + digits, an optional `e`/`E` + optional
sign + digits (`FloatParts`: every text strconv.FormatFloat gives a finite non-negative value in the formats
e E f g G, and the same with separators) alone in the source is exactly one Number token with that text -/
theorem float_lexes (cc : CharClass) (hcc : cc.AsciiExact) (p : FloatParts) (hp : p.WF) :
    ∃ l, lex cc LexTables.std (String.ofList p.text) =
      .ok [{ kind := .number, value := String.ofList p.text, loc := ⟨1, 0⟩ }, { kind := .eof, value := "", loc := l }] := by
  simp only [lex, String.toList_ofList]
  exact lexChars_float cc hcc p hp

private theorem isDec_not_x {c : Char} (h : isDec c = true) : c ≠ 'x' ∧ c ≠ 'X' := by
  simp [isDec, LexTables.std] at h
  rcases h with rfl | rfl | rfl | rfl | rfl | rfl | rfl | rfl | rfl | rfl | rfl <;> decide

/-- **float_literal**: with a fraction or an exponent present, the token's text reaches
`strconv.ParseFloat` unchanged except for the removal of `_` (whose result is the FloatNode's value) -/
theorem float_literal (cc : CharClass) (hcc : cc.AsciiExact) (cfg : NumCfg) (hcfg : cfg = .asIs ∨ cfg = .repaired)
    (p : FloatParts) (hp : p.WF) (hfl : p.frac.isSome = true ∨ p.exp.isSome = true) :
    ∃ t l, lex cc LexTables.std (String.ofList p.text) = .ok [t, { kind := .eof, value := "", loc := l }] ∧
      t.kind = .number ∧ t.loc = ⟨1, 0⟩ ∧
      parseNumber cfg t.value = .ok (.float (String.ofList (stripUnderscores p.text))) := by
  obtain ⟨l, h⟩ := float_lexes cc hcc p hp
  refine ⟨{ kind := .number, value := String.ofList p.text, loc := ⟨1, 0⟩ }, l, h, rfl, rfl, ?_⟩
  refine float_classified cfg hcfg p.text ?_ ?_
  · rcases hfl with hf | he
    · cases hfr : p.frac with
      | none => simp [hfr] at hf
      | some fs => exact ⟨'.', by simp [FloatParts.text, FloatParts.fracText, hfr], Or.inl rfl⟩
    · cases hex : p.exp with
      | none => simp [hex] at he
      | some q =>
        obtain ⟨e, sg, xs⟩ := q
        exact ⟨e, by simp [FloatParts.text, FloatParts.expText, hex], Or.inr ((hp.exp _ _ _ hex).1)⟩
  · intro c hc
    simp only [FloatParts.text, List.mem_cons, List.mem_append] at hc
    rcases hc with rfl | hc | hc | hc
    · rcases ascii_digit_cases hp.d0 with h | h | h | h | h | h | h | h | h | h <;> rw [h] <;> decide
    · exact isDec_not_x (hp.ip c hc)
    · unfold FloatParts.fracText at hc
      cases hfr : p.frac with
      | none => simp [hfr] at hc
      | some fs =>
        simp only [hfr, List.mem_cons] at hc
        rcases hc with rfl | hc
        · decide
        · exact isDec_not_x (hp.frac fs hfr c hc)
    · unfold FloatParts.expText at hc
      cases hex : p.exp with
      | none => simp [hex] at hc
      | some q =>
        obtain ⟨e, sg, xs⟩ := q
        obtain ⟨h1, h2, h3⟩ := hp.exp _ _ _ hex
        simp only [hex, List.mem_cons, List.mem_append] at hc
        rcases hc with rfl | hc | hc
        · rcases h1 with rfl | rfl <;> decide
        · rcases h2 with rfl | rfl | rfl
          · simp at hc
          · simp at hc; subst hc; decide
          · simp at hc; subst hc; decide
        · exact isDec_not_x (h3 c hc)

/-- the shape is inhabited by what strconv prints: `1_0.5e-3`, `1e+06`, `0.000001`, `5.` -/
example : (FloatParts.mk '1' ['_', '0'] (some ['5']) (some ('e', ['-'], ['3']))).text = "1_0.5e-3".toList ∧
    (FloatParts.mk '1' [] none (some ('e', ['+'], ['0', '6']))).text = "1e+06".toList ∧
    (FloatParts.mk '0' [] (some "000001".toList) none).text = "0.000001".toList := by decide

example : (FloatParts.mk '1' ['_', '0'] (some ['5']) (some ('e', ['-'], ['3']))).WF := by
  refine ⟨by decide, by decide, ?_, ?_⟩
  · intro fs h; cases h; decide
  · intro e sg xs h; cases h; decide

end ExprModel.C12
