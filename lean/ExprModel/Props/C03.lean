import ExprModel.Proofs.CheckerSpec
import ExprModel.Proofs.SoundFrag
import ExprModel.Proofs.SoundAsm
import ExprModel.Proofs.NameRes
/-
C03 — Static typing is sound and rejects ill-typed expressions.

Model: `Types/Checker.lean` (`check`, the visitor of checker/checker.go clause by clause, with the
annotated tree, first-error-kept state, collection stack, explicit panic outcomes) tied to
`checker.Check` by harness/c03.go (verdict, type, error position and class, annotated tree).
Reference rules: `Types/HasType.lean` (`synth`, compositional; `HasType`/`WellTyped` = `synth` with the
documented rule set `TDefects.repaired`).

Rejection half of the property.  `check_accepts_iff` characterises acceptance completely: the stateful
visitor accepts exactly the expressions the compositional rules type (with the same flags), and reports
that type; so a violated rule is rejected *wherever in the expression it sits* (`check_rejects`), for the
documented rule set.  The code as it is (`TDefects.asIs`) deviates from the documented rules in three
places (literal retyping to any parameter type, loose index rule, `filter`/`map` result type): witnesses
below, harness keys `c03:…`.

Soundness half.  The full statement is given against an abstract evaluator (`check_sound_goal`); against
the reference evaluator `Spec.eval` it is proved for the scalar fragment (`check_sound_partial`,
`as_kind_exact_partial`; helper file `Proofs/SoundFrag.lean`), for the collection fragment
(`check_sound_collections_partial`, `as_kind_exact_collections_partial`; `Proofs/SoundColl.lean`,
`SoundCall.lean`, `SoundAsm.lean`) and, behind a hypothesis on the environment's functions, with calls
(`check_sound_calls_partial`, `as_kind_exact_calls_partial`), together with what can be said at the level
of types for all expressions (`as_kind_exact`, `accepted_type_is_synth`).
-/
namespace ExprModel.C03
open ExprModel

/-- the result directive is satisfied by the type -/
def expectOk (e : Expect) (τ : OTy) : Prop :=
  match e with
  | .none => True
  | .int64 | .float64 => isNumberT τ = true
  | .bool => τ.kind = .bool

theorem expectTest_none_iff (dt : TDefects) (e : Expect) (τ : OTy) :
    expectTest dt e τ = none ↔ expectOk e τ := by
  unfold expectTest expectOk
  cases e with
  | none => simp
  | int64 => by_cases h : isNumberT τ = true <;> simp [h]
  | float64 => by_cases h : isNumberT τ = true <;> simp [h]
  | bool =>
    cases τ with
    | none => by_cases h : dt.nilKindPanic = true <;> simp [h, OTy.kind]
    | some tt => by_cases h : tt.kind = RKind.bool <;> simp [h, OTy.kind]

theorem good_init : CkGood ({} : CState) := ⟨rfl, rfl⟩

theorem failResult_ne_ok (f : ExpectFail) (n' n'' : Node) (τ : OTy) : f.result n' ≠ .ok n'' τ := by
  cases f <;> simp [ExpectFail.result]

/-- `check` answers `ok` exactly when the visit ends clean and the result directive is satisfied -/
theorem check_ok_iff (cfg : CheckCfg) (n n'' : Node) (τ : OTy) :
    check cfg n = .ok n'' τ ↔
      (visit cfg n {}).1 = n'' ∧ (visit cfg n {}).2.1 = τ ∧ CkGood (visit cfg n {}).2.2 ∧
      expectTest cfg.dt cfg.expect τ = none := by
  unfold check CkGood
  rcases hv : visit cfg n {} with ⟨n', t, st⟩
  simp only []
  cases hp : st.panic with
  | some msg => simp
  | none =>
    simp only []
    cases he : st.err with
    | none =>
      cases hx : expectTest cfg.dt cfg.expect t with
      | none =>
        simp only [CheckResult.ok.injEq]
        constructor
        · rintro ⟨rfl, rfl⟩; exact ⟨rfl, rfl, ⟨trivial, trivial⟩, hx⟩
        · rintro ⟨rfl, rfl, _, _⟩; exact ⟨rfl, rfl⟩
      | some f =>
        simp only []
        constructor
        · intro h; exact absurd h (failResult_ne_ok f _ _ _)
        · rintro ⟨_, rfl, _, h⟩; rw [hx] at h; cases h
    | some e =>
      cases hx : expectTest cfg.dt cfg.expect t with
      | none => simp
      | some f =>
        simp only []
        constructor
        · intro h
          exfalso
          split at h
          · exact failResult_ne_ok f _ _ _ h
          · cases h
        · rintro ⟨_, _, ⟨h, _⟩, _⟩; cases h

/-- **Acceptance, completely characterised**: `checker.Check` accepts `n` with type `τ` iff the
compositional rules (same rule flags) give `n` the type `τ` and `τ` satisfies the result directive.
The visitor's state (first error kept, early returns, the collection stack) neither loses a violation
nor invents one. -/
theorem check_accepts_iff (cfg : CheckCfg) (n : Node) (τ : OTy) :
    (∃ n', check cfg n = .ok n' τ) ↔ synth cfg [] n = some τ ∧ expectOk cfg.expect τ := by
  obtain ⟨_, _, hg⟩ := visit_spec cfg n {}
  have hg := hg good_init
  simp only [] at hg
  rw [← expectTest_none_iff cfg.dt]
  constructor
  · rintro ⟨n', h⟩
    obtain ⟨_, ht, hgood, hx⟩ := (check_ok_iff cfg n n' τ).1 h
    cases hs : synth cfg [] n with
    | none => rw [hs] at hg; exact absurd hgood hg
    | some σ =>
      rw [hs] at hg
      have e : τ = σ := ht.symm.trans hg.1
      subst e
      exact ⟨rfl, hx⟩
  · rintro ⟨hs, hx⟩
    rw [hs] at hg
    exact ⟨(visit cfg n {}).1, (check_ok_iff cfg n _ τ).2 ⟨rfl, hg.1, hg.2, hx⟩⟩

/-- the type `Check` reports is the type the rules assign -/
theorem accepted_type_is_synth (cfg : CheckCfg) (n n' : Node) (τ : OTy) (h : check cfg n = .ok n' τ) :
    synth cfg [] n = some τ :=
  ((check_accepts_iff cfg n τ).1 ⟨n', h⟩).1

/-- **Ill-typed expressions are rejected, wherever the violation sits** (documented rule set): if the
reference rules give `n` no type then `Check` does not accept `n` — it returns an error (or, for the two
constructs noted in `TDefects`, panics). -/
theorem check_rejects (cfg : CheckCfg) (n : Node) (hdoc : cfg.dt = .repaired) (hill : ¬ WellTyped cfg n) :
    ∀ n' τ, check cfg n ≠ .ok n' τ := by
  intro n' τ h
  apply hill
  have := accepted_type_is_synth cfg n n' τ h
  refine ⟨τ, ?_⟩
  unfold HasType CheckCfg.reference
  rw [← hdoc]
  exact this

/-- the same for whatever rule flags the code has: ill-typed *by the rules as implemented* ⇒ rejected -/
theorem check_rejects_partial (cfg : CheckCfg) (n : Node) (hill : synth cfg [] n = none) :
    ∀ n' τ, check cfg n ≠ .ok n' τ := by
  intro n' τ h
  rw [accepted_type_is_synth cfg n n' τ h] at hill
  cases hill

/-- conversely a well-typed expression whose type satisfies the result directive is accepted -/
theorem check_accepts (cfg : CheckCfg) (n : Node) (τ : OTy) (hdoc : cfg.dt = .repaired)
    (h : HasType cfg [] n τ) (hx : expectOk cfg.expect τ) : ∃ n', check cfg n = .ok n' τ := by
  apply (check_accepts_iff cfg n τ).2
  refine ⟨?_, hx⟩
  unfold HasType CheckCfg.reference at h
  rw [← hdoc] at h
  exact h

/-- **Result directives at the level of types**: under `AsBool` an accepted expression has a type of
kind exactly bool; under `AsInt64` / `AsFloat64` a numeric (or interface) type — the compiler then
appends the conversion `OpCast`, whose result is exactly int64 / float64 (VM model, C01/C14). -/
theorem as_kind_exact (cfg : CheckCfg) (n n' : Node) (τ : OTy) (h : check cfg n = .ok n' τ) :
    (cfg.expect = .bool → τ.kind = .bool) ∧
    (cfg.expect = .int64 ∨ cfg.expect = .float64 → isNumberT τ = true) := by
  have hx := ((check_accepts_iff cfg n τ).1 ⟨n', h⟩).2
  constructor
  · intro he; rw [he] at hx; exact hx
  · rintro (he | he) <;> rw [he] at hx <;> exact hx

/-- **An error recorded in a sub-visit is never cleared**: from a state that already holds an error
(or a panic), visiting any tree leaves a state that still holds one. -/
theorem error_never_cleared (cfg : CheckCfg) (n : Node) (st : CState) (h : ¬ CkGood st) :
    ¬ CkGood (visit cfg n st).2.2 :=
  (visit_spec cfg n st).2.1 h

/-- the visitor leaves the stack of collection types as it found it -/
theorem colls_balanced (cfg : CheckCfg) (n : Node) (st : CState) : (visit cfg n st).2.2.colls = st.colls :=
  (visit_spec cfg n st).1

/-! ## where the code deviates (or deviated) from the documented rules: witnesses

`TDefects.asIs` are the rule flags of /repo's current code, `TDefects.asWas` those of the pinned snapshot.
Repaired in /repo since the snapshot: literal retyping to any parameter type (6162013), `AsBool` on the nil
type (b6f8e35), closure with a nil-typed body (106fb38), `in` with an unusable key (e2e7046), slicing of a
map (265c5fa), computed map-literal key of a non-string type (a03872c), ConstantNode (911e74d) — their
witnesses are statements about `asWas` (and about `asIs` for the repaired behaviour).
Still present (pinned by /repo's own tests, recorded in known_findings.json): the loose index rule and the
static slice types of `filter` / `map` — their witnesses are statements about `asIs`. -/

def _root_.ExprModel.CheckResult.okType : CheckResult → Option OTy
  | .ok _ τ => some τ
  | _ => none

def _root_.ExprModel.CheckResult.errClass : CheckResult → Option CheckErrClass
  | .error _ c _ => some c
  | _ => none

def _root_.ExprModel.CheckResult.isPanic : CheckResult → Bool
  | .panic _ => true
  | _ => false

def tInt : Ty := .num .int
def fld (n : String) (t : Ty) : Field := .mk n t false true
/-- `struct { Fs func(string) string; MSI map[string]int; Ints []int; I int }` -/
def envTy : Ty := .named "main.E" []
  (.struct [fld "Fs" (.func [.string] false [.string]), fld "MSI" (.map .string tInt), fld "Ints" (.slice tInt),
    fld "I" tInt])

def cfgWith (dt : TDefects) (ex : Expect := .none) : CheckCfg :=
  { types := createTypesTable .asIs id { ty := some envTy }, strict := true, expect := ex, dt := dt }

def ident (n : String) : Node := .ident {} n false
/-- `Fs(1)` -/
def exprFs1 : Node := .func {} "Fs" [.int {} 1] false
/-- `MSI[1]` -/
def exprMsi1 : Node := .index {} (ident "MSI") (.int {} 1)
/-- `Ints["a"]` -/
def exprIntsA : Node := .index {} (ident "Ints") (.str {} "a")
/-- `filter(Ints, {# > 1})` -/
def exprFilter : Node := .builtin {} "filter" [ident "Ints", .closure {} (.binary {} ">" (.pointer {}) (.int {} 1))]
/-- `map(Ints, {nil})` -/
def exprMapNil : Node := .builtin {} "map" [ident "Ints", .closure {} (.nil {})]

/-- `c03:ill-typed-accepted:int-literal-to-non-numeric-param` (fixed by 6162013): at the snapshot `Fs(1)`
with `Fs func(string) string` was accepted with type string (the literal was "retyped" to string; the call
then failed in `reflect.Call`); by the documented rules it is ill typed, and the current checker reports
the argument. -/
theorem retype_witness :
    (check (cfgWith .asWas) exprFs1).okType = some (some .string) ∧
    ¬ WellTyped (cfgWith .asWas) exprFs1 ∧
    (check (cfgWith .asIs) exprFs1).errClass = some .badArgument := by
  decide +kernel

/-- `c03:ill-typed-accepted:bad-index`: an integer index on a string-keyed map and a string index on a
slice are accepted. -/
theorem loose_index_witness :
    (check (cfgWith .asIs) exprMsi1).okType = some (some tInt) ∧
    (check (cfgWith .asIs) exprIntsA).okType = some (some tInt) ∧
    ¬ WellTyped (cfgWith .asIs) exprMsi1 ∧ ¬ WellTyped (cfgWith .asIs) exprIntsA ∧
    (check (cfgWith .repaired) exprMsi1).errClass = some .badIndex ∧
    (check (cfgWith .repaired) exprIntsA).errClass = some .badIndex := by
  decide +kernel

/-- `c03:dynamic-type-differs:filter-static-slice`: `filter(Ints, {# > 1})` is reported as `[]int`; the VM
builds `[]interface{}` (which is what the documented rule set reports). -/
theorem static_slice_witness :
    (check (cfgWith .asIs) exprFilter).okType = some (some (.slice tInt)) ∧
    (check (cfgWith .repaired) exprFilter).okType = some arrayTy := by
  decide +kernel

/-- `c03:asbool-on-nil-type-panics` (fixed by b6f8e35), `c03:closure-with-nil-typed-body-panics` (fixed by
106fb38): two expressions on which `Check` panicked at the snapshot instead of answering. -/
theorem panic_witness :
    (check (cfgWith .asWas .bool) (.nil {})).isPanic = true ∧
    (check (cfgWith .asIs .bool) (.nil {})).errClass = some .expected ∧
    (check (cfgWith .asWas) exprMapNil).isPanic = true ∧
    (check (cfgWith .asIs) exprMapNil).okType = some (some (.slice interfaceType)) := by
  decide +kernel

/-- `(MSI)[:]` -/
def exprSliceMap : Node := .slice {} (ident "MSI") none none
/-- `1.5 in MSI` -/
def exprInMap : Node := .binary {} "in" (.float {} 0) (ident "MSI")
/-- `{(1): 2}` -/
def exprMapKey : Node := .map {} [.pair {} (.int {} 1) (.int {} 2)]

/-- `c03:ill-typed-accepted:slice-of-map` (fixed by 265c5fa), `…:in-map-key` (e2e7046), `…:map-literal-key`
(a03872c): three statically typed expressions the checker accepted at the snapshot and the VM can only
fail on (`cannot slice`, `MapIndex: value of type float64 is not assignable to type string`,
`interface {} is int, not string`); the current checker rejects them, as the documented rules do. -/
theorem accepted_type_errors_witness :
    (check (cfgWith .asWas) exprSliceMap).okType = some (some (.map .string tInt)) ∧
    (check (cfgWith .asWas) exprInMap).okType = some boolTy ∧
    (check (cfgWith .asWas) exprMapKey).okType = some mapTy ∧
    Static (cfgWith .asWas) exprSliceMap ∧ Static (cfgWith .asWas) exprInMap ∧
    (check (cfgWith .asIs) exprSliceMap).errClass = some .notSliceable ∧
    (check (cfgWith .asIs) exprInMap).errClass = some .mismatchBinary ∧
    (check (cfgWith .asIs) exprMapKey).errClass = some .badMapKey := by
  decide +kernel

/-- `Fs2(+I)` where `Fs2 func(float64) float64`-like parameter: here `Ff64(+I)` with an `int` operand -/
def envTy2 : Ty := .named "main.E2" []
  (.struct [fld "Ff" (.func [.num .float64] false [.num .float64]), fld "I" tInt])

def cfgWith2 (dt : TDefects) : CheckCfg :=
  { types := createTypesTable .asIs id { ty := some envTy2 }, strict := true, dt := dt }

/-- `Ff(+I)` -/
def exprFfPlusI : Node := .func {} "Ff" [.unary {} "+" (ident "I")] false

/-- `c03:ill-typed-accepted:retyped-non-literal-argument` (known): an argument that is a unary `+ -` or
a `+ - * /` expression takes the parameter's type even when it contains no integer literal at all:
`Ff(+I)` with `I int`, `Ff func(float64) float64` is accepted (type float64); at run time the `int`
reaches `reflect.Call` ("Call using int as type float64").  The documented rule retypes integer
*literals*. -/
theorem retype_non_literal_witness :
    (check (cfgWith2 .asIs) exprFfPlusI).okType = some (some (.num .float64)) ∧
    ¬ WellTyped (cfgWith2 .asIs) exprFfPlusI ∧
    (check (cfgWith2 .repaired) exprFfPlusI).errClass = some .badArgument := by
  decide +kernel

/-- `Any * 1` in `struct { Any interface{} }` -/
def envTy3 : Ty := .named "main.E3" [] (.struct [fld "Any" interfaceType, fld "I" tInt])

def cfgWith3 (dt : TDefects) : CheckCfg :=
  { types := createTypesTable .asIs id { ty := some envTy3 }, strict := true, dt := dt }

def exprAnyTimes1 : Node := .binary {} "*" (ident "Any") (.int {} 1)

/-- `c03:dynamic-type-differs:arith-with-interface-operand` (known; pinned by /repo's tests): `Any * 1` with
`Any interface{}` is reported as `int` — `combined` gives `interface{}` weight 0 — although the value may be
a float64; under the documented rule set the result type is `interface{}`. -/
theorem combined_iface_witness :
    (check (cfgWith3 .asIs) exprAnyTimes1).okType = some (some tInt) ∧
    (check (cfgWith3 .repaired) exprAnyTimes1).okType = some ifaceTy ∧
    ¬ Static (cfgWith3 .asIs) exprAnyTimes1 := by
  decide +kernel

/-- `c ? 1 : Any` (fixed by 390c455): at the snapshot the type of a conditional whose first branch is
assignable to the second was the first branch's type. -/
theorem cond_type_witness :
    (check (cfgWith3 .asWas) (.cond {} (.bool {} true) (.int {} 1) (ident "Any"))).okType = some (some tInt) ∧
    (check (cfgWith3 .asIs) (.cond {} (.bool {} true) (.int {} 1) (ident "Any"))).okType = some ifaceTy := by
  decide +kernel

/-- the full rejection statement for the code's own flags … -/
def check_rejects_goal (dt : TDefects) : Prop :=
  ∀ (cfg : CheckCfg) (n : Node), cfg.dt = dt → ¬ WellTyped cfg n → ∀ n' τ, check cfg n ≠ .ok n' τ

theorem check_rejects_repaired : check_rejects_goal .repaired :=
  fun cfg n h hill => check_rejects cfg n h hill

/-- … still fails for the current code because of the loose index rule: `MSI[1]` -/
theorem check_rejects_asIs_false : ¬ check_rejects_goal .asIs := by
  intro h
  have hw : ¬ WellTyped (cfgWith .asIs) exprMsi1 := by decide +kernel
  have := h (cfgWith .asIs) exprMsi1 rfl hw
  have hok : ∃ n' τ, check (cfgWith .asIs) exprMsi1 = .ok n' τ := by
    cases hc : check (cfgWith .asIs) exprMsi1 with
    | ok n' τ => exact ⟨n', τ, rfl⟩
    | error l c n' =>
      have : (check (cfgWith .asIs) exprMsi1).okType = some (some tInt) := by decide +kernel
      rw [hc] at this; cases this
    | panic m =>
      have : (check (cfgWith .asIs) exprMsi1).okType = some (some tInt) := by decide +kernel
      rw [hc] at this; cases this
  obtain ⟨n', τ, hc⟩ := hok
  exact this n' τ hc

/-! ## soundness, against an abstract evaluator

The reference semantics (`Spec.run`) lives in `Spec/Eval.lean` (built by the coordinator).  The
statement is given here against any evaluator; `Static` is the hypothesis of the property ("all its
operands are statically typed"): no sub-expression has interface or nil type. -/

/-- what soundness needs from an evaluator -/
structure Evaluator where
  Value : Type
  Environment : Type
  RunError : Type
  /-- `env ⊨ Γ`: the environment value has the environment type the checker was given -/
  conforms : CheckCfg → Environment → Prop
  /-- `⟦τ⟧ v`: `v` is a value of static type `τ` -/
  hasType : Value → OTy → Prop
  /-- failures that depend on values (index out of range, division by zero, nil, bad pattern, budget) -/
  valueDependent : RunError → Prop
  /-- run of the program compiled from the *annotated* tree under the checker's configuration -/
  run : CheckCfg → Environment → Node → Except RunError Value

/-- **Soundness** (the full statement): an accepted, statically typed program never fails for a type
reason, and a successful result has the type the checker reported. -/
def check_sound_goal (E : Evaluator) : Prop :=
  ∀ (cfg : CheckCfg) (n n' : Node) (τ : OTy) (env : E.Environment),
    check cfg n = .ok n' τ → Static cfg n → E.conforms cfg env →
    match E.run cfg env n' with
    | .ok v => E.hasType v τ
    | .error e => E.valueDependent e

/-! ### soundness proved: the scalar fragment, against the reference evaluator `Spec.eval`

`inFrag`: literals, identifiers, `not ! - +`, `and or && ||`, `== != < > <= >=`, `+ - * / %`,
`contains startsWith endsWith`, the conditional.  `scalarTyped`: every sub-expression has a scalar static
type (bool, string, one of the twelve numeric kinds) — the fragment's form of "all its operands are
statically typed".  `EnvConforms`: the environment value holds, under every name the checker types as a
scalar, a value of that type. -/

/-- **Soundness on the scalar fragment** (`check_sound_goal` restricted to `inFrag`): if `Check` accepts
`n` with type `τ`, then evaluating the tree *as the checker annotated it* (`n'`: node types, retyped
literals) with the reference evaluator yields a value of type `τ`, or fails with a division by zero —
never with a type error, whatever the environment's values. -/
theorem check_sound_partial (cfg : CheckCfg) (c : Spec.SCfg) (henv : EnvConforms cfg c.env)
    (n n' : Node) (τ : OTy) (hfrag : inFrag n = true) (hstatic : scalarTyped cfg [] n = true)
    (h : check cfg n = .ok n' τ) (ctx : Spec.Ctx) (s : Spec.SState) :
    match (Spec.eval c ctx n' s).1 with
    | .ok v => ValOfK v τ.kind
    | .error e => e = .divzero := by
  have hs := accepted_type_is_synth cfg n n' τ h
  obtain ⟨hn', _, _, _⟩ := (check_ok_iff cfg n n' τ).1 h
  obtain ⟨_, _, hev⟩ := frag_sound (E := fun e => e = .divzero) (P := fun _ => True) rfl cfg [] c henv n hfrag hstatic τ hs (by have := scalarTyped_self cfg [] n hstatic; rw [hs] at this; exact this) {} rfl
  rw [hn'] at hev
  exact hev ctx trivial s

/-- … and under `AsInt64` / `AsFloat64` the run's result is exactly an `int64` / a `float64`
(`Spec.run` applies the conversion the compiler appends), under `AsBool` exactly a `bool`. -/
theorem as_kind_exact_partial (cfg : CheckCfg) (c : Spec.SCfg) (henv : EnvConforms cfg c.env)
    (n n' : Node) (τ : OTy) (hfrag : inFrag n = true) (hstatic : scalarTyped cfg [] n = true)
    (h : check cfg n = .ok n' τ) :
    (cfg.expect = .bool → match (Spec.run c none n').1 with
      | .ok v => ∃ b, v = .bool b | .error e => e = .divzero) ∧
    (cfg.expect = .int64 → match (Spec.run c (some 0) n').1 with
      | .ok v => ∃ x, v = .int .int64 x | .error e => e = .divzero) ∧
    (cfg.expect = .float64 → match (Spec.run c (some 1) n').1 with
      | .ok v => ∃ x, v = .f64 x | .error e => e = .divzero) := by
  have hev := check_sound_partial cfg c henv n n' τ hfrag hstatic h [] {}
  have hk := as_kind_exact cfg n n' τ h
  have hτs : ScalarT τ := by
    have := scalarTyped_self cfg [] n hstatic
    rw [accepted_type_is_synth cfg n n' τ h] at this
    exact this
  refine ⟨?_, ?_, ?_⟩
  · intro he
    have hb := hk.1 he
    unfold Spec.run
    rcases hr : Spec.eval c [] n' {} with ⟨r, s'⟩
    rw [hr] at hev
    cases r with
    | error e => exact hev
    | ok v => simp only [] at hev ⊢; rw [hb] at hev; exact hev
  · intro he
    obtain ⟨k, hkk⟩ := (isNumberT_scalar hτs).1 (hk.2 (Or.inl he))
    unfold Spec.run
    rcases hr : Spec.eval c [] n' {} with ⟨r, s'⟩
    rw [hr] at hev
    cases r with
    | error e => exact hev
    | ok v =>
      simp only [] at hev ⊢
      rw [hkk] at hev
      have hv : NumOf v k := hev
      have hc := conv_num .int64 hv
      obtain ⟨x, hx⟩ := hc
      simp only [castV, numOf_kind hv, hx]
      exact ⟨x, rfl⟩
  · intro he
    obtain ⟨k, hkk⟩ := (isNumberT_scalar hτs).1 (hk.2 (Or.inr he))
    unfold Spec.run
    rcases hr : Spec.eval c [] n' {} with ⟨r, s'⟩
    rw [hr] at hev
    cases r with
    | error e => exact hev
    | ok v =>
      simp only [] at hev ⊢
      rw [hkk] at hev
      have hv : NumOf v k := hev
      have hc := conv_num .float64 hv
      obtain ⟨x, hx⟩ := hc
      simp only [castV, toFloat64Val, numOf_kind hv, hx]
      exact ⟨x, rfl⟩

/-! ### soundness proved: the extended fragment (collections), against `Spec.eval`

`inFrag2` adds to the scalar fragment: the closure variable `#`, `in` / `not in` on a slice, the range
`..`, `**`, indexing and slicing a slice by integers, `len`, array literals (a `[]interface{}` of which only
the shape is claimed: usable under `in` and `len`), the conditional with branches of one value type, the
predicate builtins `all none any one count` with a closure, member access `x.f` / `x?.f` on values of
struct or pointer-to-struct type (name resolution of the current code, `cfg.dn = NDefects.asIs`; value typing
`Conf`: every member the checker resolves can be fetched and conforms, so pointers typed as structs are
not nil), slices of structs (index, `#`, the builtins with closures over struct elements), `map[string]interface{}` values (member, index, `in`, `len`; the result an `interface{}`, of
which nothing is claimed but that the access does not fail), indexing a `[]interface{}`, `in` on structs,
map literals, and — behind hypotheses on the world, switched on by the flags `FragOpts` of `inFrag2` — calls of
environment functions (`WorldConforms`) and `matches` (`RegexTotal`: EVERY pattern compiles — stronger than a faithful regexp
world offers, where `"("` does not compile; `Spec.eval` reports a pattern that does not compile in the type
class, so the theorem assumes that failure away rather than tolerating it: a limitation, see the report) and
method calls `x.m(…)` on struct-typed receivers (`MethodsConform`).  `typed2` is "every operand has a static type the construct's rule is sound for": scalar
operands for the scalar operators and the predicate's body, a slice of scalars (`[]int`, `[]string`, …)
where a collection is expected, an integer (not `interface{}`) index.  This excludes, explicitly, the constructs
behind the known findings: the loose index rule (index typed `interface{}`), `filter`/`map` with the static
slice type `[]T` (it differs from the run-time `[]interface{}`: they are in the fragment exactly when
`cfg.dt.staticSliceOf = false`, the documented rule, and then yield a `[]interface{}`), arithmetic on
`interface{}` operands, calls with retyped non-literal arguments.  `EnvConforms2`: the environment holds, under every name the checker types as a scalar or a
slice of scalars, a value of that type (for a slice: the element tag and every element).  The tolerated
failures are the value-dependent ones, `ValueDep`: division by zero, index out of range, memory budget. -/

/-- **Soundness on the extended fragment**: if `Check` accepts `n` with type `τ` — any type `vtyOf`
classifies: a scalar, a slice of scalars (then with the static element tag and all elements of the element
type), a `[]interface{}`, a struct or pointer to struct (members conform, `Conf`), a slice of structs, a
`map[string]interface{}`, or an interface (then nothing is claimed of the value) — evaluating the annotated
tree with the reference evaluator yields a value of that type or fails with a value-dependent error; never
with a type error. -/
theorem check_sound_collections_partial (cfg : CheckCfg) (c : Spec.SCfg) (henv : EnvConforms2 cfg c.env)
    (hdn : cfg.dn = NDefects.asIs)
    (n n' : Node) (τ : OTy) (V : VTy) (hfrag : inFrag2 {} n = true) (hstatic : typed2 cfg [] n = true)
    (h : check cfg n = .ok n' τ) (hV : vtyOf τ = some V) (ctx : Spec.Ctx) (s : Spec.SState) :
    match (Spec.eval c ctx n' s).1 with
    | .ok v => ValOfV v V
    | .error e => ValueDep e := by
  have hs := accepted_type_is_synth cfg n n' τ h
  obtain ⟨hn', _, _, _⟩ := (check_ok_iff cfg n n' τ).1 h
  obtain ⟨_, _, hev⟩ := frag2_sound (E := ValueDep) (Or.inl rfl) (Or.inr (Or.inl rfl)) (Or.inr (Or.inr rfl))
    cfg c henv hdn {} (fun h => by cases h) (fun h => by cases h) (fun h => by cases h) n [] hfrag hstatic τ V hs hV {} rfl
  rw [hn'] at hev
  exact hev ctx trivial s

/-- **Soundness with calls of environment functions**, behind the hypothesis on the world
(`WorldConforms`): a function of the environment, called with arguments of its parameter types, returns
a value of its declared result type or fails with a tolerated class — here the value-dependent ones and
`ErrClass.call`, a panic inside the function.  Arguments (`argOK`): an expression whose type is the
parameter's value type and which the checker does not retype, or a tree of integer literals retyped to a
numeric parameter (`Ff(1)`, `Ff(-(1 + 2))`); the retyped non-literal arguments of the known finding
(`Ff(+I)`, `Fi(F64 + 1)`) are excluded by this predicate. -/
theorem check_sound_calls_partial (cfg : CheckCfg) (c : Spec.SCfg) (henv : EnvConforms2 cfg c.env)
    (hdn : cfg.dn = NDefects.asIs)
    (fo : FragOpts) (hworld : fo.calls = true → WorldConforms (fun e => ValueDep e ∨ e = .call) cfg c)
    (hregex : fo.regex = true → RegexTotal c)
    (hmeth : fo.methods = true → MethodsConform (fun e => ValueDep e ∨ e = .call) cfg c)
    (n n' : Node) (τ : OTy) (V : VTy) (hfrag : inFrag2 fo n = true) (hstatic : typed2 cfg [] n = true)
    (h : check cfg n = .ok n' τ) (hV : vtyOf τ = some V) (ctx : Spec.Ctx) (s : Spec.SState) :
    match (Spec.eval c ctx n' s).1 with
    | .ok v => ValOfV v V
    | .error e => ValueDep e ∨ e = .call := by
  have hs := accepted_type_is_synth cfg n n' τ h
  obtain ⟨hn', _, _, _⟩ := (check_ok_iff cfg n n' τ).1 h
  obtain ⟨_, _, hev⟩ := frag2_sound (E := fun e => ValueDep e ∨ e = .call) (Or.inl (Or.inl rfl))
    (Or.inl (Or.inr (Or.inl rfl))) (Or.inl (Or.inr (Or.inr rfl)))
    cfg c henv hdn fo hworld hregex hmeth n [] hfrag hstatic τ V hs hV {} rfl
  rw [hn'] at hev
  exact hev ctx trivial s

/-- from "the evaluation yields a value of the accepted scalar type" to the result directives for whole
programs (`Spec.run`: evaluate, then the conversion the compiler appends for `AsInt64` / `AsFloat64`) -/
private theorem as_kind_of_eval (E : ErrClass → Prop) (cfg : CheckCfg) (c : Spec.SCfg) (n n' : Node) (τ : OTy)
    (h : check cfg n = .ok n' τ) (hτs : ScalarT τ)
    (hev0 : match (Spec.eval c [] n' {}).1 with
      | .ok v => ValOfK v τ.kind
      | .error e => E e) :
    (cfg.expect = .bool → match (Spec.run c none n').1 with
      | .ok v => ∃ b, v = .bool b | .error e => E e) ∧
    (cfg.expect = .int64 → match (Spec.run c (some 0) n').1 with
      | .ok v => ∃ x, v = .int .int64 x | .error e => E e) ∧
    (cfg.expect = .float64 → match (Spec.run c (some 1) n').1 with
      | .ok v => ∃ x, v = .f64 x | .error e => E e) := by
  have hk := as_kind_exact cfg n n' τ h
  have key : ∀ k, τ.kind = k →
      match (Spec.eval c [] n' {}).1 with
      | .ok v => ValOfK v k
      | .error e => E e := by
    intro k hkk
    rw [hkk] at hev0
    exact hev0
  refine ⟨?_, ?_, ?_⟩
  · intro he
    have hev := key .bool (hk.1 he)
    unfold Spec.run
    rcases hr : Spec.eval c [] n' {} with ⟨r, s'⟩
    rw [hr] at hev
    cases r with
    | error e => exact hev
    | ok v => exact hev
  · intro he
    have hnum := hk.2 (Or.inl he)
    obtain ⟨k, hkk⟩ := (isNumberT_scalar hτs).1 hnum
    have hev := key (.num k) hkk
    unfold Spec.run
    rcases hr : Spec.eval c [] n' {} with ⟨r, s'⟩
    rw [hr] at hev
    cases r with
    | error e => exact hev
    | ok v =>
      simp only [] at hev ⊢
      have hv : NumOf v k := hev
      obtain ⟨x, hx⟩ := conv_num .int64 hv
      simp only [castV, numOf_kind hv, hx]
      exact ⟨x, rfl⟩
  · intro he
    have hnum := hk.2 (Or.inr he)
    obtain ⟨k, hkk⟩ := (isNumberT_scalar hτs).1 hnum
    have hev := key (.num k) hkk
    unfold Spec.run
    rcases hr : Spec.eval c [] n' {} with ⟨r, s'⟩
    rw [hr] at hev
    cases r with
    | error e => exact hev
    | ok v =>
      simp only [] at hev ⊢
      have hv : NumOf v k := hev
      obtain ⟨x, hx⟩ := conv_num .float64 hv
      simp only [castV, toFloat64Val, numOf_kind hv, hx]
      exact ⟨x, rfl⟩

/-- … and for whole programs (`Spec.run`: evaluate, then the conversion the compiler appends for
`AsInt64` / `AsFloat64`): under `AsBool` the result is exactly a `bool`, under `AsInt64` exactly an
`int64`, under `AsFloat64` exactly a `float64`, or the run fails with a value-dependent error (`τ` scalar: not an
`interface{}`-typed result, which the directives also allow). -/
theorem as_kind_exact_collections_partial (cfg : CheckCfg) (c : Spec.SCfg) (henv : EnvConforms2 cfg c.env)
    (hdn : cfg.dn = NDefects.asIs)
    (n n' : Node) (τ : OTy) (hfrag : inFrag2 {} n = true) (hstatic : typed2 cfg [] n = true)
    (h : check cfg n = .ok n' τ) (hτs : ScalarT τ) :
    (cfg.expect = .bool → match (Spec.run c none n').1 with
      | .ok v => ∃ b, v = .bool b | .error e => ValueDep e) ∧
    (cfg.expect = .int64 → match (Spec.run c (some 0) n').1 with
      | .ok v => ∃ x, v = .int .int64 x | .error e => ValueDep e) ∧
    (cfg.expect = .float64 → match (Spec.run c (some 1) n').1 with
      | .ok v => ∃ x, v = .f64 x | .error e => ValueDep e) :=
  as_kind_of_eval ValueDep cfg c n n' τ h hτs
    (check_sound_collections_partial cfg c henv hdn n n' τ (.sc τ.kind) hfrag hstatic h (vtyOf_scalar hτs) [] {})

/-- the same with calls of environment functions (hypothesis `WorldConforms`) -/
theorem as_kind_exact_calls_partial (cfg : CheckCfg) (c : Spec.SCfg) (henv : EnvConforms2 cfg c.env)
    (hdn : cfg.dn = NDefects.asIs)
    (fo : FragOpts) (hworld : fo.calls = true → WorldConforms (fun e => ValueDep e ∨ e = .call) cfg c)
    (hregex : fo.regex = true → RegexTotal c)
    (hmeth : fo.methods = true → MethodsConform (fun e => ValueDep e ∨ e = .call) cfg c)
    (n n' : Node) (τ : OTy) (hfrag : inFrag2 fo n = true) (hstatic : typed2 cfg [] n = true)
    (h : check cfg n = .ok n' τ) (hτs : ScalarT τ) :
    (cfg.expect = .bool → match (Spec.run c none n').1 with
      | .ok v => ∃ b, v = .bool b | .error e => ValueDep e ∨ e = .call) ∧
    (cfg.expect = .int64 → match (Spec.run c (some 0) n').1 with
      | .ok v => ∃ x, v = .int .int64 x | .error e => ValueDep e ∨ e = .call) ∧
    (cfg.expect = .float64 → match (Spec.run c (some 1) n').1 with
      | .ok v => ∃ x, v = .f64 x | .error e => ValueDep e ∨ e = .call) :=
  as_kind_of_eval (fun e => ValueDep e ∨ e = .call) cfg c n n' τ h hτs
    (check_sound_calls_partial cfg c henv hdn fo hworld hregex hmeth n n' τ (.sc τ.kind) hfrag hstatic h (vtyOf_scalar hτs) [] {})

-- the hypotheses are satisfiable and not vacuous
example : WellTyped (cfgWith .repaired) (.binary {} "+" (ident "I") (.int {} 2)) ∧
    ¬ WellTyped (cfgWith .repaired) (.binary {} "+" (ident "I") (.str {} "a")) ∧
    Static (cfgWith .repaired) (.binary {} "+" (ident "I") (.int {} 2)) ∧
    inFrag (.binary {} "+" (ident "I") (.int {} 2)) = true ∧
    scalarTyped (cfgWith .asIs) [] (.binary {} "+" (ident "I") (.int {} 2)) = true := by
  decide +kernel

/-- `all(Ints, {# in 1..I}) and len(Ints) > Ints[0]` -/
def exprColl : Node :=
  .binary {} "and"
    (.builtin {} "all" [ident "Ints", .closure {} (.binary {} "in" (.pointer {}) (.binary {} ".." (.int {} 1) (ident "I")))])
    (.binary {} ">" (.builtin {} "len" [ident "Ints"]) (.index {} (ident "Ints") (.int {} 0)))

/-- `Ff(-(1 + 2))`: integer literals retyped to the float64 parameter -/
def exprFfLit : Node := .func {} "Ff" [.unary {} "-" (.binary {} "+" (.int {} 1) (.int {} 2))] false
/-- `Fs(Ints[1:2][0] > I ? "a" : "b")` over `envTy` -/
def exprFsCond : Node :=
  .func {} "Fs" [.cond {} (.binary {} ">" (.index {} (.slice {} (ident "Ints") (some (.int {} 1)) (some (.int {} 2))) (.int {} 0))
    (ident "I")) (.str {} "a") (.str {} "b")] false

/-- `I in [1, 2, I + 1] and len((I > 1 ? Ints : 1..3)[0:1]) == 1` -/
def exprArr : Node :=
  .binary {} "and"
    (.binary {} "in" (ident "I") (.array {} [.int {} 1, .int {} 2, .binary {} "+" (ident "I") (.int {} 1)]))
    (.binary {} "==" (.builtin {} "len" [.slice {} (.cond {} (.binary {} ">" (ident "I") (.int {} 1)) (ident "Ints")
      (.binary {} ".." (.int {} 1) (.int {} 3))) (some (.int {} 0)) (some (.int {} 1))]) (.int {} 1))

example : inFrag2 {} exprArr = true ∧ typed2 (cfgWith .asIs) [] exprArr = true ∧
    (check (cfgWith .asIs) exprArr).okType = some boolTy := by
  decide +kernel

example : inFrag2 {} exprColl = true ∧ typed2 (cfgWith .asIs) [] exprColl = true ∧
    (check (cfgWith .asIs) exprColl).okType = some boolTy ∧
    inFrag2 { calls := true } exprFfLit = true ∧ typed2 (cfgWith2 .asIs) [] exprFfLit = true ∧
    (check (cfgWith2 .asIs) exprFfLit).okType = some (some (.num .float64)) ∧
    inFrag2 { calls := true } exprFsCond = true ∧ typed2 (cfgWith .asIs) [] exprFsCond = true ∧
    (check (cfgWith .asIs) exprFsCond).okType = some (some .string) ∧
    -- the excluded constructs are outside the predicates
    -- `filter`: in the fragment under the documented rule (`[]interface{}`), not under the code's (`[]T`)
    typed2 (cfgWith .asIs) [] exprFilter = false ∧ typed2 (cfgWith .repaired) [] exprFilter = true ∧
    inFrag2 {} exprFilter = true ∧ typed2 (cfgWith .asIs) [] exprFs1 = false ∧
    typed2 (cfgWith2 .asIs) [] exprFfPlusI = false ∧
    typed2 (cfgWith3 .asIs) [] exprAnyTimes1 = false ∧ typed2 (cfgWith .asIs) [] exprIntsA = false := by
  decide +kernel

def sampleWorld : World := { call := fun _ _ => .ok (.f64 0), regexMatch := fun _ _ => none, pow := fun _ _ => 0 }
def sampleSCfg : Spec.SCfg :=
  { world := sampleWorld, env := .struct "main.E2" false [("Ff", .fn "Ff"), ("I", .int .int 1)], budget := 1000 }

def sampleTable : Table := [("I", { ty := some tInt }), ("Ff", { ty := some (.func [.num .float64] false [.num .float64]) })]

private theorem sample_types : (cfgWith2 .asIs).types = some sampleTable := by decide +kernel

private theorem sample_get (name : String) :
    sampleTable.get? name = if name = "I" then some { ty := some tInt }
      else if name = "Ff" then some { ty := some (.func [.num .float64] false [.num .float64]) } else none := by
  simp only [sampleTable, Table.get?]
  by_cases h1 : name = "I"
  · subst h1; rfl
  · by_cases h2 : name = "Ff"
    · subst h2; rfl
    · have h1' : ¬ "I" = name := fun h => h1 h.symm
      have h2' : ¬ "Ff" = name := fun h => h2 h.symm
      simp [h1, h2, h1', h2']

private theorem sample_env : EnvConforms2 (cfgWith2 .asIs) sampleSCfg.env := by
  intro name ns τ V hr hV
  unfold identRule at hr
  rw [sample_types] at hr
  simp only [sample_get] at hr
  by_cases h1 : name = "I"
  · subst h1
    simp (config := {decide := true}) only [if_true, if_false] at hr
    cases hr
    have : V = .sc (.num .int) := by
      have : vtyOf (some tInt) = some (.sc (.num .int)) := by decide
      rw [this] at hV; cases hV; rfl
    subst this
    exact ⟨.int .int 1, rfl, 1, rfl⟩
  · by_cases h2 : name = "Ff"
    · subst h2
      simp (config := {decide := true}) only [if_true, if_false] at hr
      cases hr
      have : vtyOf (some (.func [.num .float64] false [.num .float64])) = none := by decide
      rw [this] at hV; cases hV
    · simp only [h1, h2, if_false] at hr
      simp (config := {decide := true}) only [cfgWith2, if_false] at hr
      cases ns <;> simp at hr
      cases hr
      have : vtyOf none = none := by decide
      rw [this] at hV; cases hV

private theorem sample_world (E : ErrClass → Prop) : WorldConforms E (cfgWith2 .asIs) sampleSCfg := by
  intro name fn im ins variadic numIn offset out vs V hft hfp hconf hV
  unfold funcTargetC at hft
  rw [sample_types] at hft
  simp only [Option.bind, sample_get] at hft
  by_cases h1 : name = "I"
  · subst h1
    simp (config := {decide := true}) only [if_true] at hft
    have : isFuncType (some tInt) = none := by decide
    simp [this] at hft
  · by_cases h2 : name = "Ff"
    · subst h2
      simp (config := {decide := true}) only [if_true, if_false] at hft
      have : isFuncType (some (.func [.num .float64] false [.num .float64])) = some (.func [.num .float64] false [.num .float64]) := by
        decide +kernel
      simp only [this, Option.map, Option.some.injEq, Prod.mk.injEq] at hft
      obtain ⟨rfl, rfl⟩ := hft
      -- the result type is float64, the call returns a float64
      have hout : out = .num .float64 := by
        unfold funcPlan at hfp
        simp (config := {decide := true}) [Ty.funcParts, Ty.core] at hfp
        split at hfp <;> (try split at hfp) <;> (try split at hfp) <;> simp at hfp
        exact hfp.2.2.2.2.symm
      subst hout
      have : V = .sc (.num .float64) := by
        have : vtyOf (some (.num .float64)) = some (.sc (.num .float64)) := by decide
        rw [this] at hV; cases hV; rfl
      subst this
      exact ⟨0, rfl⟩
    · simp [h1, h2] at hft

/-- the hypotheses of the soundness theorems are satisfiable — an environment value and a world for
`envTy2` (`I int`, `Ff func(float64) float64`) — and the theorem applies: `Ff(-(1 + 2))`, accepted with
type float64, evaluates to a float64 or fails with a tolerated class. -/
theorem sound_hypotheses_witness :
    EnvConforms2 (cfgWith2 .asIs) sampleSCfg.env ∧
    WorldConforms (fun e => ValueDep e ∨ e = .call) (cfgWith2 .asIs) sampleSCfg ∧
    ∀ n' τ, check (cfgWith2 .asIs) exprFfLit = .ok n' τ → ∀ ctx s,
      match (Spec.eval sampleSCfg ctx n' s).1 with
      | .ok v => ∃ x, v = .f64 x
      | .error e => ValueDep e ∨ e = .call := by
  refine ⟨sample_env, sample_world _, ?_⟩
  intro n' τ h ctx s
  have hτ : τ = some (.num .float64) := by
    have : (check (cfgWith2 .asIs) exprFfLit).okType = some (some (.num .float64)) := by decide +kernel
    rw [h] at this
    simpa [CheckResult.okType] using this
  subst hτ
  exact check_sound_calls_partial (cfgWith2 .asIs) sampleSCfg sample_env rfl { calls := true } (fun _ => sample_world _)
    (fun h => by cases h) (fun h => by cases h) exprFfLit n' _
    (.sc (.num .float64)) (by decide +kernel) (by decide +kernel) h (by decide) ctx s

/-! ### members of struct-typed values -/

def tZA : Ty := .named "main.ZA" [] (.struct [fld "X" tInt, fld "Y" .string])
/-- `struct { St ZA; PSt *ZA; I int; Sts []ZA }` -/
def envTy4 : Ty := .named "main.E4" [] (.struct [fld "St" tZA, fld "PSt" (.ptr tZA), fld "I" tInt, fld "Sts" (.slice tZA)])
def cfgWith4 (dt : TDefects) : CheckCfg :=
  { types := createTypesTable .asIs id { ty := some envTy4 }, strict := true, dt := dt }

/-- `St.X + PSt.X > I and PSt?.Y == "a"` -/
def exprMembers : Node :=
  .binary {} "and"
    (.binary {} ">" (.binary {} "+" (.prop {} (ident "St") "X" false) (.prop {} (ident "PSt") "X" false)) (ident "I"))
    (.binary {} "==" (.prop {} (ident "PSt") "Y" true) (.str {} "a"))

example : inFrag2 {} exprMembers = true ∧ typed2 (cfgWith4 .asIs) [] exprMembers = true ∧
    (check (cfgWith4 .asIs) exprMembers).okType = some boolTy ∧
    -- a member of an interface-typed or map-typed receiver is outside the predicate
    typed2 (cfgWith3 .asIs) [] (.prop {} (ident "Any") "x" false) = false ∧
    typed2 (cfgWith .asIs) [] (.prop {} (ident "MSI") "k" false) = false := by
  decide +kernel

/-- `struct { MA map[string]interface{}; Anys []interface{}; St ZA; Str string }` -/
def envTy5 : Ty := .named "main.E5" [] (.struct [fld "MA" (.map .string interfaceType), fld "Anys" (.slice interfaceType),
  fld "St" tZA, fld "Str" .string])
def cfgWith5 (dt : TDefects) : CheckCfg :=
  { types := createTypesTable .asIs id { ty := some envTy5 }, strict := true, dt := dt }

/-- `Str in MA and "X" in St and len({a: MA.k, "b": Anys[0], c: MA["k"]}) == len(MA)` -/
def exprMaps : Node :=
  .binary {} "and" (.binary {} "and" (.binary {} "in" (ident "Str") (ident "MA")) (.binary {} "in" (.str {} "X") (ident "St")))
    (.binary {} "==" (.builtin {} "len" [.map {} [.pair {} (.str {} "a") (.prop {} (ident "MA") "k" false),
        .pair {} (.str {} "b") (.index {} (ident "Anys") (.int {} 0)), .pair {} (.str {} "c") (.index {} (ident "MA") (.str {} "k"))]])
      (.builtin {} "len" [ident "MA"]))

example : inFrag2 {} exprMaps = true ∧ typed2 (cfgWith5 .asIs) [] exprMaps = true ∧
    (check (cfgWith5 .asIs) exprMaps).okType = some boolTy ∧
    -- an interface-typed value under an operator stays outside; so does a member of a typed map (`MSI.k`: the
    -- model's value universe yields nil, not the element's zero value, for a missing key)
    typed2 (cfgWith5 .asIs) [] (.binary {} "+" (.index {} (ident "Anys") (.int {} 0)) (.int {} 1)) = false ∧
    typed2 (cfgWith .asIs) [] (.index {} (ident "MSI") (.str {} "k")) = false := by
  decide +kernel

/-- `Str matches "^a" and not (St.Y matches Str)` over `envTy5` -/
def exprMatches : Node :=
  .binary {} "and" (.matches {} true (ident "Str") (.str {} "^a"))
    (.unary {} "not" (.matches {} false (.prop {} (ident "St") "Y" false) (ident "Str")))

example : inFrag2 { regex := true } exprMatches = true ∧ inFrag2 {} exprMatches = false ∧
    typed2 (cfgWith5 .asIs) [] exprMatches = true ∧
    (check (cfgWith5 .asIs) exprMatches).okType = some boolTy := by
  decide +kernel

/-- `type ZM struct { N int }` with `func (ZM) Add(a, b int) int` and a function-typed field -/
def tZM : Ty := .named "main.ZM" [.mk "Add" (.func [tInt, tInt] false [tInt]) false]
  (.struct [fld "N" tInt, fld "F" (.func [.string] false [.string])])
/-- `struct { M ZM; PM *ZM; I int }` -/
def envTy6 : Ty := .named "main.E6" [] (.struct [fld "M" tZM, fld "PM" (.ptr tZM), fld "I" tInt])
def cfgWith6 (dt : TDefects) : CheckCfg :=
  { types := createTypesTable .asIs id { ty := some envTy6 }, strict := true, dt := dt }

/-- `M.Add(I, 2) + PM.Add(1, M.N) > 0 and M.F("a") == "a"` -/
def exprMethods : Node :=
  .binary {} "and"
    (.binary {} ">" (.binary {} "+" (.method {} (ident "M") "Add" [ident "I", .int {} 2] false)
      (.method {} (ident "PM") "Add" [.int {} 1, .prop {} (ident "M") "N" false] false)) (.int {} 0))
    (.binary {} "==" (.method {} (ident "M") "F" [.str {} "a"] false) (.str {} "a"))

example : inFrag2 { methods := true } exprMethods = true ∧ inFrag2 {} exprMethods = false ∧
    typed2 (cfgWith6 .asIs) [] exprMethods = true ∧
    (check (cfgWith6 .asIs) exprMethods).okType = some boolTy ∧
    -- a wrong argument type or an unknown method is outside
    typed2 (cfgWith6 .asIs) [] (.method {} (ident "M") "Add" [.str {} "a", .int {} 2] false) = false ∧
    typed2 (cfgWith6 .asIs) [] (.method {} (ident "I") "Add" [] false) = false := by
  decide +kernel

/-- `all(Sts, {#.X > I}) and Sts[0].Y == "a" and len(Sts) > count(Sts, {any(Sts, {#.X > 1}) and #.Y != ""})` over `envTy4` -/
def exprSts : Node :=
  let hX : Node := .prop {} (.pointer {}) "X" false
  let hY : Node := .prop {} (.pointer {}) "Y" false
  .binary {} "and"
    (.binary {} "and"
      (.builtin {} "all" [ident "Sts", .closure {} (.binary {} ">" hX (ident "I"))])
      (.binary {} "==" (.prop {} (.index {} (ident "Sts") (.int {} 0)) "Y" false) (.str {} "a")))
    (.binary {} ">" (.builtin {} "len" [ident "Sts"])
      (.builtin {} "count" [ident "Sts", .closure {} (.binary {} "and"
        (.builtin {} "any" [ident "Sts", .closure {} (.binary {} ">" hX (.int {} 1))])
        (.binary {} "!=" hY (.str {} "")))]))

/-- `len(map(Sts, {#.Y})) == len(filter(Sts, {#.X > 0}))` -/
def exprStsFM : Node :=
  .binary {} "==" (.builtin {} "len" [.builtin {} "map" [ident "Sts", .closure {} (.prop {} (.pointer {}) "Y" false)]])
    (.builtin {} "len" [.builtin {} "filter" [ident "Sts", .closure {} (.binary {} ">" (.prop {} (.pointer {}) "X" false) (.int {} 0))]])

example : inFrag2 {} exprSts = true ∧ typed2 (cfgWith4 .asIs) [] exprSts = true ∧
    (check (cfgWith4 .asIs) exprSts).okType = some boolTy ∧
    -- `map` / `filter` over structs: in the fragment under the documented result type only
    typed2 (cfgWith4 .asIs) [] (.builtin {} "len" [.slice {} (ident "Sts") (some (.int {} 1)) none]) = true ∧
    inFrag2 {} exprStsFM = true ∧ typed2 (cfgWith4 .repaired) [] exprStsFM = true ∧
    typed2 (cfgWith4 .asIs) [] exprStsFM = false ∧
    (check (cfgWith4 .repaired) exprStsFM).okType = some boolTy := by
  decide +kernel

private theorem zaFields (name : String) :
    fieldTypeT .asIs (some tZA) name = if name = "X" then some tInt else if name = "Y" then some .string else none := by
  by_cases h1 : name = "X"
  · subst h1; decide +kernel
  · by_cases h2 : name = "Y"
    · subst h2; decide +kernel
    · have h1' : ¬ "X" = name := fun h => h1 h.symm
      have h2' : ¬ "Y" = name := fun h => h2 h.symm
      have hdep : tZA.depth = 3 := by decide +kernel
      have hd : tZA.deref = tZA := by decide +kernel
      have hk : tZA.kind = .struct := by decide +kernel
      have l0 : levelFields 0 tZA = [fld "X" tInt, fld "Y" .string] := by decide +kernel
      have l1 : levelFields 1 tZA = [] := by decide +kernel
      have l2 : levelFields 2 tZA = [] := by decide +kernel
      have l3 : levelFields 3 tZA = [] := by decide +kernel
      simp only [fieldTypeT, hdep, h1, h2, if_false]
      rw [C16.fieldType_repaired_succ, hd, hk]
      simp [reflField, hdep, searchLevels, l0, l1, l2, l3, List.filter, fld, Field.name, h1', h2']

private theorem zaMethods (name : String) : methodTarget .asIs (some tZA) name = none := by
  have hms : methodSet tZA = [] := by decide +kernel
  have hdep : tZA.depth = 3 := by decide +kernel
  have hd : tZA.derefOnce = tZA := by decide +kernel
  have hk : tZA.kind = .struct := by decide +kernel
  by_cases h1 : name = "X"
  · subst h1; decide +kernel
  · by_cases h2 : name = "Y"
    · subst h2; decide +kernel
    · have h1' : ¬ "X" = name := fun h => h1 h.symm
      have h2' : ¬ "Y" = name := fun h => h2 h.symm
      have l0 : levelFields 0 tZA = [fld "X" tInt, fld "Y" .string] := by decide +kernel
      have l1 : levelFields 1 tZA = [] := by decide +kernel
      have l2 : levelFields 2 tZA = [] := by decide +kernel
      have l3 : levelFields 3 tZA = [] := by decide +kernel
      simp [methodTarget, methodTypeT, methodType, methodByName, hms, hdep, hd, hk, NDefects.asIs, reflField, searchLevels,
        l0, l1, l2, l3, List.filter, fld, Field.name, h1', h2']

/-- the conformance hypothesis on struct values is satisfiable: a `ZA` value conforms to the type `ZA`
to every depth -/
theorem struct_conforms_witness :
    ValOfV (.struct "main.ZA" false [("X", .int .int 1), ("Y", .str "a")]) (.obj (some tZA)) := by
  intro n
  cases n with
  | zero => trivial
  | succ n =>
    have hV : vtyOf (some tZA) = some (.obj (some tZA)) := by decide +kernel
    simp only [Conf, hV]
    refine ⟨_, _, _, rfl, ?_, ?_⟩
    · intro name τ hf
      rw [zaFields] at hf
      by_cases h1 : name = "X"
      · subst h1
        simp only [if_true] at hf
        cases hf
        refine ⟨.int .int 1, fun ns => by cases ns <;> rfl, ?_⟩
        cases n with
        | zero => trivial
        | succ n =>
          have : vtyOf (some tInt) = some (.sc (.num .int)) := by decide
          simp only [Conf, this]
          exact ⟨1, rfl⟩
      · by_cases h2 : name = "Y"
        · subst h2
          simp (config := {decide := true}) only [if_true, if_false] at hf
          cases hf
          refine ⟨.str "a", fun ns => by cases ns <;> rfl, ?_⟩
          cases n with
          | zero => trivial
          | succ n =>
            have : vtyOf (some Ty.string) = some (.sc .string) := by decide
            simp only [Conf, this]
            exact ⟨"a", rfl⟩
        · simp only [h1, h2, if_false] at hf
          cases hf
    · intro name fn im h
      rw [zaMethods] at h
      cases h

-- `RegexTotal` is satisfiable (a world whose matcher accepts every pattern)
example : RegexTotal { sampleSCfg with world := { sampleWorld with regexMatch := fun _ _ => some false } } :=
  fun _ _ => rfl

/-! ### every hypothesis satisfied: environments, worlds and the theorems instantiated end to end -/

def tbl4 : Table := [("Sts", { ty := some (.slice tZA) }), ("I", { ty := some tInt }), ("PSt", { ty := some (.ptr tZA) }), ("St", { ty := some tZA })]
theorem types4 : (cfgWith4 .asIs).types = some tbl4 := by decide +kernel

def zaV : Val := .struct "main.ZA" false [("X", .int .int 1), ("Y", .str "a")]
def pzaV : Val := .struct "main.ZA" true [("X", .int .int 1), ("Y", .str "a")]
def env4 : Val := .struct "main.E4" false [("St", zaV), ("PSt", pzaV), ("I", .int .int 5), ("Sts", .arr (.other "main.ZA") [zaV, zaV])]
def scfg4 : Spec.SCfg := { world := sampleWorld, env := env4, budget := 1000 }

theorem zaFields' (name : String) :
    fieldTypeT .asIs (some tZA) name = if name = "X" then some tInt else if name = "Y" then some .string else none := by
  by_cases h1 : name = "X"
  · subst h1; decide +kernel
  · by_cases h2 : name = "Y"
    · subst h2; decide +kernel
    · have h1' : ¬ "X" = name := fun h => h1 h.symm
      have h2' : ¬ "Y" = name := fun h => h2 h.symm
      have hdep : tZA.depth = 3 := by decide +kernel
      have hd : tZA.deref = tZA := by decide +kernel
      have hk : tZA.kind = .struct := by decide +kernel
      have l0 : levelFields 0 tZA = [fld "X" tInt, fld "Y" .string] := by decide +kernel
      have l1 : levelFields 1 tZA = [] := by decide +kernel
      have l2 : levelFields 2 tZA = [] := by decide +kernel
      have l3 : levelFields 3 tZA = [] := by decide +kernel
      simp only [fieldTypeT, hdep, h1, h2, if_false]
      rw [C16.fieldType_repaired_succ, hd, hk]
      simp [reflField, hdep, searchLevels, l0, l1, l2, l3, List.filter, fld, Field.name, h1', h2']


theorem pzaFields' (name : String) :
    fieldTypeT .asIs (some (.ptr tZA)) name = if name = "X" then some tInt else if name = "Y" then some .string else none := by
  by_cases h1 : name = "X"
  · subst h1; decide +kernel
  · by_cases h2 : name = "Y"
    · subst h2; decide +kernel
    · have h1' : ¬ "X" = name := fun h => h1 h.symm
      have h2' : ¬ "Y" = name := fun h => h2 h.symm
      have hdep : (Ty.ptr tZA).depth = 4 := by decide +kernel
      have hdep0 : tZA.depth = 3 := by decide +kernel
      have hd : (Ty.ptr tZA).deref = tZA := by decide +kernel
      have hk : tZA.kind = .struct := by decide +kernel
      have l0 : levelFields 0 tZA = [fld "X" tInt, fld "Y" .string] := by decide +kernel
      have l1 : levelFields 1 tZA = [] := by decide +kernel
      have l2 : levelFields 2 tZA = [] := by decide +kernel
      have l3 : levelFields 3 tZA = [] := by decide +kernel
      simp only [fieldTypeT, hdep, h1, h2, if_false]
      rw [C16.fieldType_repaired_succ, hd, hk]
      simp [reflField, hdep0, searchLevels, l0, l1, l2, l3, List.filter, fld, Field.name, h1', h2']

theorem zaMethods' (name : String) : methodTarget .asIs (some tZA) name = none := by
  have hms : methodSet tZA = [] := by decide +kernel
  have hdep : tZA.depth = 3 := by decide +kernel
  have hd : tZA.derefOnce = tZA := by decide +kernel
  have hk : tZA.kind = .struct := by decide +kernel
  by_cases h1 : name = "X"
  · subst h1; decide +kernel
  · by_cases h2 : name = "Y"
    · subst h2; decide +kernel
    · have h1' : ¬ "X" = name := fun h => h1 h.symm
      have h2' : ¬ "Y" = name := fun h => h2 h.symm
      have l0 : levelFields 0 tZA = [fld "X" tInt, fld "Y" .string] := by decide +kernel
      have l1 : levelFields 1 tZA = [] := by decide +kernel
      have l2 : levelFields 2 tZA = [] := by decide +kernel
      have l3 : levelFields 3 tZA = [] := by decide +kernel
      simp [methodTarget, methodTypeT, methodType, methodByName, hms, hdep, hd, hk, NDefects.asIs, reflField, searchLevels,
        l0, l1, l2, l3, List.filter, fld, Field.name, h1', h2']

theorem pzaMethods' (name : String) : methodTarget .asIs (some (.ptr tZA)) name = none := by
  have hms : methodSet (.ptr tZA) = [] := by decide +kernel
  have hdep : (Ty.ptr tZA).depth = 4 := by decide +kernel
  have hdep0 : tZA.depth = 3 := by decide +kernel
  have hd : (Ty.ptr tZA).derefOnce = tZA := by decide +kernel
  have hd0 : tZA.derefOnce = tZA := by decide +kernel
  have hk : tZA.kind = .struct := by decide +kernel
  have hkp : (Ty.ptr tZA).kind = .ptr := by decide +kernel
  by_cases h1 : name = "X"
  · subst h1; decide +kernel
  · by_cases h2 : name = "Y"
    · subst h2; decide +kernel
    · have h1' : ¬ "X" = name := fun h => h1 h.symm
      have h2' : ¬ "Y" = name := fun h => h2 h.symm
      have l0 : levelFields 0 tZA = [fld "X" tInt, fld "Y" .string] := by decide +kernel
      have l1 : levelFields 1 tZA = [] := by decide +kernel
      have l2 : levelFields 2 tZA = [] := by decide +kernel
      have l3 : levelFields 3 tZA = [] := by decide +kernel
      simp [methodTarget, methodTypeT, methodType, methodByName, hms, hdep, hdep0, hd, hd0, hk, hkp, NDefects.asIs, reflField, searchLevels,
        l0, l1, l2, l3, List.filter, fld, Field.name, h1', h2']

theorem confZA (p : Bool) (t : Ty) (hV : vtyOf (some t) = some (.obj (some t)))
    (hf : ∀ name, fieldTypeT .asIs (some t) name = if name = "X" then some tInt else if name = "Y" then some .string else none)
    (hm : ∀ name, methodTarget .asIs (some t) name = none) :
    ValOfV (.struct "main.ZA" p [("X", .int .int 1), ("Y", .str "a")]) (.obj (some t)) := by
  intro n
  cases n with
  | zero => trivial
  | succ n =>
    simp only [Conf, hV]
    refine ⟨_, _, _, rfl, ?_, ?_⟩
    · intro name τ hf'
      rw [hf] at hf'
      by_cases h1 : name = "X"
      · subst h1
        simp only [if_true] at hf'
        cases hf'
        refine ⟨.int .int 1, fun ns => by cases ns <;> rfl, ?_⟩
        cases n with
        | zero => trivial
        | succ n =>
          have : vtyOf (some tInt) = some (.sc (.num .int)) := by decide
          simp only [Conf, this]
          exact ⟨1, rfl⟩
      · by_cases h2 : name = "Y"
        · subst h2
          simp (config := {decide := true}) only [if_true, if_false] at hf'
          cases hf'
          refine ⟨.str "a", fun ns => by cases ns <;> rfl, ?_⟩
          cases n with
          | zero => trivial
          | succ n =>
            have : vtyOf (some Ty.string) = some (.sc .string) := by decide
            simp only [Conf, this]
            exact ⟨"a", rfl⟩
        · simp only [h1, h2, if_false] at hf'
          cases hf'
    · intro name fn im h
      rw [hm] at h
      cases h


def tbl5 : Table := [("Str", { ty := some .string }), ("St", { ty := some tZA }), ("Anys", { ty := some (.slice interfaceType) }), ("MA", { ty := some (.map .string interfaceType) })]
theorem types5 : (cfgWith5 .asIs).types = some tbl5 := by decide +kernel
def env5 : Val := .struct "main.E5" false [("MA", .map [("k", .int .int 1)]), ("Anys", .arr .iface [.str "z"]), ("St", zaV), ("Str", .str "k")]
def scfg5 : Spec.SCfg := { world := { sampleWorld with regexMatch := fun _ _ => some false }, env := env5, budget := 1000 }

theorem get5 (name : String) :
    tbl5.get? name = if name = "Str" then some { ty := some .string }
      else if name = "St" then some { ty := some tZA }
      else if name = "Anys" then some { ty := some (.slice interfaceType) }
      else if name = "MA" then some { ty := some (.map .string interfaceType) } else none := by
  simp only [tbl5, Table.get?]
  by_cases h1 : name = "Str"
  · subst h1; rfl
  by_cases h2 : name = "St"
  · subst h2; rfl
  by_cases h3 : name = "Anys"
  · subst h3; rfl
  by_cases h4 : name = "MA"
  · subst h4; rfl
  have h1' : ¬ "Str" = name := fun h => h1 h.symm
  have h2' : ¬ "St" = name := fun h => h2 h.symm
  have h3' : ¬ "Anys" = name := fun h => h3 h.symm
  have h4' : ¬ "MA" = name := fun h => h4 h.symm
  simp [h1, h2, h3, h4, h1', h2', h3', h4']

theorem env5_conf : EnvConforms2 (cfgWith5 .asIs) scfg5.env := by
  intro name ns τ V hr hV
  unfold identRule at hr
  rw [types5] at hr
  simp only [get5] at hr
  by_cases h1 : name = "Str"
  · subst h1
    simp (config := {decide := true}) only [if_true, if_false] at hr
    cases hr
    have : vtyOf (some Ty.string) = some (.sc .string) := by decide
    rw [this] at hV; cases hV
    exact ⟨.str "k", by cases ns <;> rfl, "k", rfl⟩
  by_cases h2 : name = "St"
  · subst h2
    simp (config := {decide := true}) only [if_true, if_false] at hr
    cases hr
    have hv : vtyOf (some tZA) = some (.obj (some tZA)) := by decide +kernel
    rw [hv] at hV; cases hV
    exact ⟨zaV, by cases ns <;> rfl, confZA false tZA hv zaFields' zaMethods'⟩
  by_cases h3 : name = "Anys"
  · subst h3
    simp (config := {decide := true}) only [if_true, if_false] at hr
    cases hr
    have hv : vtyOf (some (.slice interfaceType)) = some .anys := by decide +kernel
    rw [hv] at hV; cases hV
    exact ⟨_, by cases ns <;> rfl, _, rfl⟩
  by_cases h4 : name = "MA"
  · subst h4
    simp (config := {decide := true}) only [if_true, if_false] at hr
    cases hr
    have hv : vtyOf (some (.map .string interfaceType)) = some .mapAny := by decide +kernel
    rw [hv] at hV; cases hV
    exact ⟨_, by cases ns <;> rfl, _, rfl⟩
  simp only [h1, h2, h3, h4, if_false] at hr
  simp (config := {decide := true}) only [cfgWith5, if_false] at hr
  cases ns <;> simp at hr
  cases hr
  have : vtyOf none = none := by decide
  rw [this] at hV; cases hV

theorem sound_maps_witness : ∀ n' τ, check (cfgWith5 .asIs) exprMaps = .ok n' τ → ∀ ctx s,
      match (Spec.eval scfg5 ctx n' s).1 with
      | .ok v => ∃ b, v = .bool b
      | .error e => ValueDep e := by
  intro n' τ h ctx s
  have hτ : τ = boolTy := by
    have : (check (cfgWith5 .asIs) exprMaps).okType = some boolTy := by decide +kernel
    rw [h] at this
    simpa [CheckResult.okType] using this
  subst hτ
  exact check_sound_collections_partial (cfgWith5 .asIs) scfg5 env5_conf rfl exprMaps n' _
    (.sc .bool) (by decide +kernel) (by decide +kernel) h (by decide) ctx s

theorem sound_matches_witness : ∀ n' τ, check (cfgWith5 .asIs) exprMatches = .ok n' τ → ∀ ctx s,
      match (Spec.eval scfg5 ctx n' s).1 with
      | .ok v => ∃ b, v = .bool b
      | .error e => ValueDep e ∨ e = .call := by
  intro n' τ h ctx s
  have hτ : τ = boolTy := by
    have : (check (cfgWith5 .asIs) exprMatches).okType = some boolTy := by decide +kernel
    rw [h] at this
    simpa [CheckResult.okType] using this
  subst hτ
  exact check_sound_calls_partial (cfgWith5 .asIs) scfg5 env5_conf rfl { regex := true } (fun h => by cases h)
    (fun _ => fun _ _ => rfl) (fun h => by cases h) exprMatches n' _
    (.sc .bool) (by decide +kernel) (by decide +kernel) h (by decide) ctx s

theorem get4 (name : String) :
    tbl4.get? name = if name = "Sts" then some { ty := some (.slice tZA) }
      else if name = "I" then some { ty := some tInt }
      else if name = "PSt" then some { ty := some (.ptr tZA) }
      else if name = "St" then some { ty := some tZA } else none := by
  simp only [tbl4, Table.get?]
  by_cases h1 : name = "Sts"
  · subst h1; rfl
  by_cases h2 : name = "I"
  · subst h2; rfl
  by_cases h3 : name = "PSt"
  · subst h3; rfl
  by_cases h4 : name = "St"
  · subst h4; rfl
  have h1' : ¬ "Sts" = name := fun h => h1 h.symm
  have h2' : ¬ "I" = name := fun h => h2 h.symm
  have h3' : ¬ "PSt" = name := fun h => h3 h.symm
  have h4' : ¬ "St" = name := fun h => h4 h.symm
  simp [h1, h2, h3, h4, h1', h2', h3', h4']

theorem env4_conf : EnvConforms2 (cfgWith4 .asIs) scfg4.env := by
  intro name ns τ V hr hV
  unfold identRule at hr
  rw [types4] at hr
  simp only [get4] at hr
  by_cases h1 : name = "Sts"
  · subst h1
    simp (config := {decide := true}) only [if_true, if_false] at hr
    cases hr
    have : vtyOf (some (.slice tZA)) = some (.slo (some tZA)) := by decide +kernel
    rw [this] at hV; cases hV
    refine ⟨.arr (.other "main.ZA") [zaV, zaV], by cases ns <;> rfl, _, _, rfl, ?_⟩
    intro x hx
    have : x = zaV := by simp at hx; exact hx
    subst this
    exact confZA false tZA (by decide +kernel) zaFields' zaMethods'
  by_cases h2 : name = "I"
  · subst h2
    simp (config := {decide := true}) only [if_true, if_false] at hr
    cases hr
    have : vtyOf (some tInt) = some (.sc (.num .int)) := by decide
    rw [this] at hV; cases hV
    exact ⟨.int .int 5, by cases ns <;> rfl, 5, rfl⟩
  by_cases h3 : name = "PSt"
  · subst h3
    simp (config := {decide := true}) only [if_true, if_false] at hr
    cases hr
    have hv : vtyOf (some (.ptr tZA)) = some (.obj (some (.ptr tZA))) := by decide +kernel
    rw [hv] at hV; cases hV
    exact ⟨pzaV, by cases ns <;> rfl, confZA true (.ptr tZA) hv pzaFields' pzaMethods'⟩
  by_cases h4 : name = "St"
  · subst h4
    simp (config := {decide := true}) only [if_true, if_false] at hr
    cases hr
    have hv : vtyOf (some tZA) = some (.obj (some tZA)) := by decide +kernel
    rw [hv] at hV; cases hV
    exact ⟨zaV, by cases ns <;> rfl, confZA false tZA hv zaFields' zaMethods'⟩
  simp only [h1, h2, h3, h4, if_false] at hr
  simp (config := {decide := true}) only [cfgWith4, if_false] at hr
  cases ns <;> simp at hr
  cases hr
  have : vtyOf none = none := by decide
  rw [this] at hV; cases hV

/-- end to end: exprMembers and exprSts -/
theorem sound_members_witness : ∀ n' τ, check (cfgWith4 .asIs) exprMembers = .ok n' τ → ∀ ctx s,
      match (Spec.eval scfg4 ctx n' s).1 with
      | .ok v => ∃ b, v = .bool b
      | .error e => ValueDep e := by
  intro n' τ h ctx s
  have hτ : τ = boolTy := by
    have : (check (cfgWith4 .asIs) exprMembers).okType = some boolTy := by decide +kernel
    rw [h] at this
    simpa [CheckResult.okType] using this
  subst hτ
  exact check_sound_collections_partial (cfgWith4 .asIs) scfg4 env4_conf rfl exprMembers n' _
    (.sc .bool) (by decide +kernel) (by decide +kernel) h (by decide) ctx s

theorem sound_sts_witness : ∀ n' τ, check (cfgWith4 .asIs) exprSts = .ok n' τ → ∀ ctx s,
      match (Spec.eval scfg4 ctx n' s).1 with
      | .ok v => ∃ b, v = .bool b
      | .error e => ValueDep e := by
  intro n' τ h ctx s
  have hτ : τ = boolTy := by
    have : (check (cfgWith4 .asIs) exprSts).okType = some boolTy := by decide +kernel
    rw [h] at this
    simpa [CheckResult.okType] using this
  subst hτ
  exact check_sound_collections_partial (cfgWith4 .asIs) scfg4 env4_conf rfl exprSts n' _
    (.sc .bool) (by decide +kernel) (by decide +kernel) h (by decide) ctx s

def tFss : Ty := .func [.string] false [.string]
def addSig : Ty := .func [tZM, tInt, tInt] false [tInt]
def addSigP : Ty := .func [.ptr tZM, tInt, tInt] false [tInt]

theorem zmFieldsAt (t : Ty) (hdep : t.depth = tZM.depth ∨ t.depth = tZM.depth + 1) (hd : t.deref = tZM) (name : String) :
    fieldTypeT .asIs (some t) name = if name = "N" then some tInt else if name = "F" then some tFss else none := by
  have hk : tZM.kind = .struct := by decide +kernel
  have l0 : levelFields 0 tZM = [fld "N" tInt, fld "F" tFss] := by decide +kernel
  have l1 : levelFields 1 tZM = [] := by decide +kernel
  have l2 : levelFields 2 tZM = [] := by decide +kernel
  have l3 : levelFields 3 tZM = [] := by decide +kernel
  have l4 : levelFields 4 tZM = [] := by decide +kernel
  have hdz : tZM.depth = 4 := by decide +kernel
  have hfx : ∀ k, fieldType .asIs (k + 1) t name = if name = "N" then some tInt else if name = "F" then some tFss else none := by
    intro k
    rw [C16.fieldType_repaired_succ, hd, hk]
    by_cases h1 : name = "N"
    · subst h1; simp [reflField, hdz, searchLevels, l0, List.filter, fld, Field.name, Field.exported, Field.ty]
    · by_cases h2 : name = "F"
      · subst h2; simp [reflField, hdz, searchLevels, l0, List.filter, fld, Field.name, Field.exported, Field.ty]
      · have h1' : ¬ "N" = name := fun h => h1 h.symm
        have h2' : ¬ "F" = name := fun h => h2 h.symm
        simp [reflField, hdz, searchLevels, l0, l1, l2, l3, l4, List.filter, fld, Field.name, h1, h2, h1', h2']
  simp only [fieldTypeT]
  exact hfx _

theorem zmMethodsAt (t sigT : Ty) (hms : methodSet t = [("Add", sigT)]) (hdo : t.derefOnce = tZM)
    (hki : (t.kind != .iface) = true) (hfs : isFuncType (some sigT) = some sigT) (name : String) :
    methodTarget .asIs (some t) name =
      if name = "Add" then some (sigT, true) else if name = "F" then some (tFss, false) else none := by
  have hk : tZM.kind = .struct := by decide +kernel
  have l0 : levelFields 0 tZM = [fld "N" tInt, fld "F" tFss] := by decide +kernel
  have l1 : levelFields 1 tZM = [] := by decide +kernel
  have l2 : levelFields 2 tZM = [] := by decide +kernel
  have l3 : levelFields 3 tZM = [] := by decide +kernel
  have l4 : levelFields 4 tZM = [] := by decide +kernel
  have hdz : tZM.depth = 4 := by decide +kernel
  have hff : isFuncType (some tFss) = some tFss := by decide +kernel
  have hfi : isFuncType (some tInt) = none := by decide +kernel
  have hmt : ∀ k, methodType .asIs (k + 1) t name =
      if name = "Add" then some (sigT, true) else if name = "F" then some (tFss, false)
      else if name = "N" then some (tInt, false) else none := by
    intro k
    by_cases h0 : name = "Add"
    · subst h0
      simp [methodType, methodByName, hms, hki]
    · have h0' : ¬ "Add" = name := fun h => h0 h.symm
      by_cases h1 : name = "N"
      · subst h1
        simp [methodType, methodByName, hms, hdo, hk, NDefects.asIs, reflField, hdz, searchLevels, l0, List.filter, fld,
          Field.name, Field.exported, Field.ty]
      · by_cases h2 : name = "F"
        · subst h2
          simp [methodType, methodByName, hms, hdo, hk, NDefects.asIs, reflField, hdz, searchLevels, l0, List.filter, fld,
            Field.name, Field.exported, Field.ty]
        · have h1' : ¬ "N" = name := fun h => h1 h.symm
          have h2' : ¬ "F" = name := fun h => h2 h.symm
          simp [methodType, methodByName, hms, hdo, hk, NDefects.asIs, reflField, hdz, searchLevels, l0, l1, l2, l3, l4,
            List.filter, fld, Field.name, h0, h1, h2, h0', h1', h2']
  simp only [methodTarget, methodTypeT, hmt]
  by_cases h0 : name = "Add"
  · subst h0; simp [hfs]
  · by_cases h2 : name = "F"
    · subst h2; simp [hff]
    · by_cases h1 : name = "N"
      · subst h1; simp [hfi]
      · simp [h0, h1, h2]

def zmV (p : Bool) : Val := .struct "main.ZM" p [("N", .int .int 1), ("F", .fn "main.ZM.F"), ("Add", .fn "main.ZM.Add")]
/-- a world in which the two callable members of `ZM` succeed -/
def world6 : World :=
  { call := fun id _ => if id = "main.ZM.Add" then .ok (.int .int 7) else if id = "main.ZM.F" then .ok (.str "a") else .error .call
    regexMatch := fun _ _ => none, pow := fun _ _ => 0 }
def env6 : Val := .struct "main.E6" false [("M", zmV false), ("PM", zmV true), ("I", .int .int 5)]
def scfg6 : Spec.SCfg := { world := world6, env := env6, budget := 1000 }

theorem confZM (p : Bool) (t sigT : Ty) (hV : vtyOf (some t) = some (.obj (some t)))
    (hf : ∀ name, fieldTypeT .asIs (some t) name = if name = "N" then some tInt else if name = "F" then some tFss else none)
    (hm : ∀ name, methodTarget .asIs (some t) name =
      if name = "Add" then some (sigT, true) else if name = "F" then some (tFss, false) else none)
    (hkA : methKey (some t) "Add" = "main.ZM.Add") (hkF : methKey (some t) "F" = "main.ZM.F") :
    ValOfV (zmV p) (.obj (some t)) := by
  intro n
  cases n with
  | zero => trivial
  | succ n =>
    simp only [Conf, hV]
    refine ⟨_, _, _, rfl, ?_, ?_⟩
    · intro name τ hf'
      rw [hf] at hf'
      by_cases h1 : name = "N"
      · subst h1
        simp only [if_true] at hf'
        cases hf'
        refine ⟨.int .int 1, fun ns => by cases ns <;> rfl, ?_⟩
        cases n with
        | zero => trivial
        | succ n =>
          have : vtyOf (some tInt) = some (.sc (.num .int)) := by decide
          simp only [Conf, this]
          exact ⟨1, rfl⟩
      · by_cases h2 : name = "F"
        · subst h2
          simp (config := {decide := true}) only [if_true, if_false] at hf'
          cases hf'
          have hnm : isMethodVal (.fn "main.ZM.F") = false := by decide +kernel
          refine ⟨.fn "main.ZM.F", fun ns => by cases ns <;> simp [zmV, fetchV, lookupKv, hnm], ?_⟩
          cases n with
          | zero => trivial
          | succ n =>
            have : vtyOf (some tFss) = none := by decide +kernel
            simp only [Conf, this]
        · simp only [h1, h2, if_false] at hf'
          cases hf'
    · intro name fn im h
      rw [hm] at h
      by_cases h1 : name = "Add"
      · subst h1; rw [hkA]; rfl
      · by_cases h2 : name = "F"
        · subst h2; rw [hkF]; rfl
        · simp only [h1, h2, if_false] at h
          cases h

theorem zm_conf : ValOfV (zmV false) (.obj (some tZM)) :=
  confZM false tZM addSig (by decide +kernel) (zmFieldsAt tZM (Or.inl rfl) (by decide +kernel))
    (zmMethodsAt tZM addSig (by decide +kernel) (by decide +kernel) (by decide +kernel) (by decide +kernel))
    (by decide +kernel) (by decide +kernel)

theorem pzm_conf : ValOfV (zmV true) (.obj (some (.ptr tZM))) :=
  confZM true (.ptr tZM) addSigP (by decide +kernel) (zmFieldsAt (.ptr tZM) (Or.inr (by decide +kernel)) (by decide +kernel))
    (zmMethodsAt (.ptr tZM) addSigP (by decide +kernel) (by decide +kernel) (by decide +kernel) (by decide +kernel))
    (by decide +kernel) (by decide +kernel)

def tbl6 : Table := [("I", { ty := some tInt }), ("PM", { ty := some (.ptr tZM) }), ("M", { ty := some tZM })]
theorem types6 : (cfgWith6 .asIs).types = some tbl6 := by decide +kernel

theorem get6 (name : String) :
    tbl6.get? name = if name = "I" then some { ty := some tInt }
      else if name = "PM" then some { ty := some (.ptr tZM) }
      else if name = "M" then some { ty := some tZM } else none := by
  simp only [tbl6, Table.get?]
  by_cases h1 : name = "I"
  · subst h1; rfl
  by_cases h2 : name = "PM"
  · subst h2; rfl
  by_cases h3 : name = "M"
  · subst h3; rfl
  have h1' : ¬ "I" = name := fun h => h1 h.symm
  have h2' : ¬ "PM" = name := fun h => h2 h.symm
  have h3' : ¬ "M" = name := fun h => h3 h.symm
  simp [h1, h2, h3, h1', h2', h3']

theorem env6_conf : EnvConforms2 (cfgWith6 .asIs) scfg6.env := by
  intro name ns τ V hr hV
  unfold identRule at hr
  rw [types6] at hr
  simp only [get6] at hr
  by_cases h1 : name = "I"
  · subst h1
    simp (config := {decide := true}) only [if_true, if_false] at hr
    cases hr
    have : vtyOf (some tInt) = some (.sc (.num .int)) := by decide
    rw [this] at hV; cases hV
    exact ⟨.int .int 5, by cases ns <;> rfl, 5, rfl⟩
  by_cases h2 : name = "PM"
  · subst h2
    simp (config := {decide := true}) only [if_true, if_false] at hr
    cases hr
    have hv : vtyOf (some (.ptr tZM)) = some (.obj (some (.ptr tZM))) := by decide +kernel
    rw [hv] at hV; cases hV
    exact ⟨zmV true, by cases ns <;> rfl, pzm_conf⟩
  by_cases h3 : name = "M"
  · subst h3
    simp (config := {decide := true}) only [if_true, if_false] at hr
    cases hr
    have hv : vtyOf (some tZM) = some (.obj (some tZM)) := by decide +kernel
    rw [hv] at hV; cases hV
    exact ⟨zmV false, by cases ns <;> rfl, zm_conf⟩
  simp only [h1, h2, h3, if_false] at hr
  simp (config := {decide := true}) only [cfgWith6, if_false] at hr
  cases ns <;> simp at hr
  cases hr
  have : vtyOf none = none := by decide
  rw [this] at hV; cases hV

/-- the hypothesis on methods holds of `world6` — with calls that succeed -/
theorem methods6 : MethodsConform (fun e => ValueDep e ∨ e = .call) (cfgWith6 .asIs) scfg6 := by
  intro t ht name fn im ins variadic numIn offset out vs V hVt hmt hfp _ hV
  have hdn : (cfgWith6 .asIs).dn = NDefects.asIs := rfl
  rw [hdn] at hmt
  -- the receiver types of the environment that are struct types: ZM and *ZM
  have hcases : t = some tZM ∨ t = some (.ptr tZM) := by
    have hl : recvTys (cfgWith6 .asIs) = [some tInt, some (.ptr tZM), some tZM, some tZM, some tInt, some tFss, some tInt, some tFss,
        some tInt, some tFss] ∨ True := Or.inr trivial
    clear hl
    have hmem : ∀ x ∈ recvTys (cfgWith6 .asIs), vtyOf x = some (.obj x) → x = some tZM ∨ x = some (.ptr tZM) := by
      decide +kernel
    exact hmem t ht hVt
  have key : ∀ (sigT : Ty) (hm : methodTarget .asIs t name =
        if name = "Add" then some (sigT, true) else if name = "F" then some (tFss, false) else none)
      (hkA : methKey t "Add" = "main.ZM.Add") (hkF : methKey t "F" = "main.ZM.F")
      (hplanA : ∀ n q, funcPlan sigT true n = .inr q → q.2.2.2.2 = tInt),
      ROK (fun e => ValueDep e ∨ e = .call) (fun v => ValOfV v V) (scfg6.world.call (methKey t name) vs) := by
    intro sigT hm hkA hkF hplanA
    rw [hm] at hmt
    by_cases h1 : name = "Add"
    · subst h1
      simp only [if_true, Option.some.injEq, Prod.mk.injEq] at hmt
      obtain ⟨rfl, rfl⟩ := hmt
      have hout : out = tInt := hplanA _ _ hfp
      subst hout
      have : V = .sc (.num .int) := by
        have : vtyOf (some tInt) = some (.sc (.num .int)) := by decide
        rw [this] at hV; cases hV; rfl
      subst this
      rw [hkA]
      exact ⟨7, rfl⟩
    · by_cases h2 : name = "F"
      · subst h2
        simp (config := {decide := true}) only [if_false, if_true, Option.some.injEq, Prod.mk.injEq] at hmt
        obtain ⟨rfl, rfl⟩ := hmt
        have hout : out = .string := by
          unfold funcPlan at hfp
          simp (config := {decide := true}) [tFss, Ty.funcParts, Ty.core] at hfp
          split at hfp <;> (try split at hfp) <;> (try split at hfp) <;> simp at hfp
          exact hfp.2.2.2.2.symm
        subst hout
        have : V = .sc .string := by
          have : vtyOf (some Ty.string) = some (.sc .string) := by decide
          rw [this] at hV; cases hV; rfl
        subst this
        rw [hkF]
        exact ⟨"a", rfl⟩
      · simp only [h1, h2, if_false] at hmt
        cases hmt
  have planOut : ∀ (sigT : Ty), sigT.funcParts = some ([tZM, tInt, tInt], false, [tInt]) ∨ sigT.funcParts = some ([.ptr tZM, tInt, tInt], false, [tInt]) →
      (sigT.kind == .iface) = false → ∀ n q, funcPlan sigT true n = .inr q → q.2.2.2.2 = tInt := by
    intro sigT hp hk n q h
    unfold funcPlan at h
    rcases hp with hp | hp <;> simp [hp, hk] at h <;>
      (split at h <;> (try split at h) <;> (try split at h) <;> simp at h <;> rw [← h])
  rcases hcases with rfl | rfl
  · exact key addSig (zmMethodsAt tZM addSig (by decide +kernel) (by decide +kernel) (by decide +kernel) (by decide +kernel) name)
      (by decide +kernel) (by decide +kernel) (planOut addSig (Or.inl (by decide +kernel)) (by decide +kernel))
  · exact key addSigP (zmMethodsAt (.ptr tZM) addSigP (by decide +kernel) (by decide +kernel) (by decide +kernel) (by decide +kernel) name)
      (by decide +kernel) (by decide +kernel) (planOut addSigP (Or.inr (by decide +kernel)) (by decide +kernel))


/-- end to end, with successful method calls: `M.Add(I, 2) + PM.Add(1, M.N) > 0 and M.F("a") == "a"` over an
environment and a world that satisfy every hypothesis (`Add` returns 7, `F` returns "a") -/
theorem sound_methods_witness : ∀ n' τ, check (cfgWith6 .asIs) exprMethods = .ok n' τ → ∀ ctx s,
      match (Spec.eval scfg6 ctx n' s).1 with
      | .ok v => ∃ b, v = .bool b
      | .error e => ValueDep e ∨ e = .call := by
  intro n' τ h ctx s
  have hτ : τ = boolTy := by
    have : (check (cfgWith6 .asIs) exprMethods).okType = some boolTy := by decide +kernel
    rw [h] at this
    simpa [CheckResult.okType] using this
  subst hτ
  exact check_sound_calls_partial (cfgWith6 .asIs) scfg6 env6_conf rfl { methods := true } (fun h => by cases h)
    (fun h => by cases h) (fun _ => methods6) exprMethods n' _ (.sc .bool) (by decide +kernel) (by decide +kernel) h
    (by decide) ctx s


end ExprModel.C03
