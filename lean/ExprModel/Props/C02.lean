import ExprModel.Proofs.OptInRange
import ExprModel.Proofs.OptReject
import ExprModel.Proofs.OptAnnot
import ExprModel.Proofs.CheckerAnnot
import ExprModel.Opt.ObsEq
import ExprModel.Gen.Pipeline
/-
C02 — The optimizer is observationally transparent.

Model: `ExprModel/Opt/*` (the five passes of optimizer/*.go as `Exit`-only rules over the bottom-up
traversal of ast.Walk, the driver loop of `optimizer.Optimize`, one switch per reproduced deviation).
Tie: `Gen.Pipeline` (pass order, loop limits, thresholds, operator sets, stage order of expr.Compile —
regenerated from the source on every run) and the correspondence of harness/c02.go.

What is proved, against the reference evaluator `Spec.eval`:
* one local soundness lemma per rewrite rule, with the guard that makes it true as a hypothesis;
* the congruence theorem: a node-local rewrite that is sound in every context stays sound under the
  bottom-up traversal, the repetition loop and the composition of passes (`walk_congruence`, …);
* `optimize_transparent_partial`: if every rewrite that fired satisfied its guard, the optimised tree
  evaluates to the same result as the original unless the original runs out of budget;
* for every reproduced deviation of the unchanged code a `…_witness` on the model;
* the full-strength statement `optimize_transparent_goal` is *refuted* for the code as it is and also
  for the repaired switches (literal arrays become `[]int`, observable through `==`).
-/
namespace ExprModel.C02
open ExprModel ExprModel.Spec ExprModel.Opt ExprModel.OptProofs

/-! ## Observational equality -/

/-- numbers equal in kind and value, sequences element by element, maps key by key -/
def ObsEq (a b : Val) : Prop := obsEqB a b = true

/-- both fail, or both succeed with observationally equal values -/
def ObsRes (a b : R Val) : Prop :=
  match a, b with
  | .ok x, .ok y => ObsEq x y
  | .error _, .error _ => True
  | _, _ => False

/-! ## The pipeline as the source states it (translator facts) -/

def Pass.goName : Pass → String
  | .inArray => "inArray" | .fold => "fold" | .constExpr => "constExpr" | .inRange => "inRange" | .constRange => "constRange"

/-- `optimizer.Optimize` runs the passes in the order of the model -/
theorem pass_order_pinned : Gen.Pipeline.optimizePasses.map (·.1) = passOrder.map Pass.goName := by decide

/-- `for limit := 1000; limit >= 0; limit--`: at most 1001 walks of `fold`; 101 of `constExpr`, and only
    when functions are registered; the other passes are single walks -/
theorem loop_limits_pinned :
    Gen.Pipeline.optimizePasses.map (fun p => (p.2.1, p.2.2.1)) =
      [(none, ""), (some (foldWalks - 1), ">="), (some (constExprWalks - 1), ">="), (none, ""), (none, "")] ∧
    Gen.Pipeline.optimizePasses.map (·.2.2.2) =
      ["", "", "config != nil && len(config.ConstExprFns) > 0", "", ""] := by decide

/-- `if size < 1` / `if size > 1e6` in const_range.go -/
theorem const_range_limit_pinned :
    Gen.Pipeline.constRangeMaxSize = constRangeMax ∧ Gen.Pipeline.constRangeMinSize = 1 ∧
    -- fix 426e727: emptiness is decided on the bounds; a size that wraps below 1 skips the fold
    Gen.Pipeline.constRangeEmptyTest = "max.Value < min.Value" ∧
    Gen.Pipeline.constRangeSkipTest = "size < 1 || size > 1e6" := by decide

/-- the operators each pass compares `Operator` with -/
theorem operator_sets_pinned :
    Gen.Pipeline.foldUnaryOps = ["-", "+"] ∧ Gen.Pipeline.foldBinaryOps = ["+", "-", "*", "/", "%", "**"] ∧
    Gen.Pipeline.inArrayOps = ["in", "not in"] ∧ Gen.Pipeline.inRangeOps = ["in", "not in"] ∧
    Gen.Pipeline.inRangeInnerOps = [".."] ∧ Gen.Pipeline.constRangeOps = [".."] := by decide

/-- expr.Compile: Check, PatchOperators, visitors, Check, Optimize (only under `config.Optimize`), Compile -/
theorem compile_stage_order_pinned :
    Gen.Pipeline.compileStages = ["config.Check", "parser.Parse", "checker.Check", "compiler.PatchOperators", "ast.Walk",
      "checker.Check", "optimizer.Optimize", "compiler.Compile"] ∧ Gen.Pipeline.optimizeGuard = "config.Optimize" := by decide

/-- the visitors are built as the model assumes: `inRange` is told whether a config (a type-checked tree) is present -/
theorem visitor_fields_pinned :
    Gen.Pipeline.optimizeVisitorFields =
      [("inArray", ""), ("fold", ""), ("constExpr", "fns: config.ConstExprFns"), ("inRange", "typed: config != nil"),
       ("constRange", "")] := by decide

/-- in_range.go (fix 072d9f0): the kinds `rangeKind` admits are the model's `rangeKd`, a nil type is refused when
    the tree is typed, `simpleNode` admits what `simpleLeft` admits, and both are conjoined as in `inRangeRule` -/
theorem in_range_guards_pinned :
    (Kind.all.all fun k => rangeKd (.num k) == Gen.Pipeline.inRangeKinds.contains k.name) = true ∧
    Gen.Pipeline.inRangeNilTypeAdmitted = false ∧ rangeKd .invalid = false ∧
    Gen.Pipeline.inRangeSimpleLeaves = ["IdentifierNode", "PointerNode", "IntegerNode"] ∧
    Gen.Pipeline.inRangeSimpleThrough = ["PropertyNode"] ∧
    Gen.Pipeline.inRangeGuard = "(v.typed && !rangeKind(n.Left.Type())) || !simpleNode(n.Left)" := by decide

/-- `simpleLeft` is `simpleNode`: the listed leaves, and property access through a simple operand -/
theorem simpleLeft_spec (n : Node) :
    simpleLeft n = true ↔
      n.kindName ∈ Gen.Pipeline.inRangeSimpleLeaves ∨ (∃ m x name ns, n = .prop m x name ns ∧ simpleLeft x = true) := by
  cases n <;> simp [simpleLeft, Node.kindName, Gen.Pipeline.inRangeSimpleLeaves]
  case prop m x name ns => exact ⟨fun h => ⟨m, x, ⟨rfl, rfl⟩, h⟩, fun ⟨_, _, ⟨_, hx⟩, h⟩ => hx ▸ h⟩

/-- fold.go (fix 9249c3a): `plain` = no type or kind `int` (the model's `plainKd`), required of every literal of the
    unary signs and of `+ - * /`, and of none of `%`, `**` -/
theorem fold_plain_pinned :
    Gen.Pipeline.foldPlainCond = "t == nil || t.Kind() == reflect.Int" ∧
    Gen.Pipeline.foldPlainGuarded = ["unary -", "unary +", "binary +", "binary -", "binary *", "binary /"] ∧
    plainKd .invalid = true ∧ (Kind.all.all fun k => plainKd (.num k) == (k == .int)) = true ∧ plainKd .string = false := by
  decide

/-- in_array.go (fix f3d7630): the integer-set rewrite asks for kind `int`, the string-set rewrite for kind `string` -/
theorem in_array_guards_pinned :
    Gen.Pipeline.inArrayIntSkip = "t == nil || t.Kind() != reflect.Int" ∧
    Gen.Pipeline.inArrayStrSkip = "t == nil || t.Kind() != reflect.String" := by decide

/-- const_expr.go (fix 69d5a9a): an integer literal is converted at every numeric kind other than `int` -/
theorem const_expr_convert_pinned :
    Gen.Pipeline.constExprConvertKinds =
      ["int8", "int16", "int32", "int64", "uint", "uint8", "uint16", "uint32", "uint64", "float32", "float64"] := by
  decide

/-- every kind is converted or is `int` -/
theorem const_expr_convert_complete :
    (Kind.all.all fun k => k == .int || Gen.Pipeline.constExprConvertKinds.contains k.name) = true := by decide

/-- the model's rule for `fold` reacts to no binary operator outside the source's list -/
theorem fold_ignores_other_operators (fl : Flags) (w : World) (m ma mb : Meta) (op : String) (a b : Int) (st : St)
    (h : op ∉ Gen.Pipeline.foldBinaryOps) :
    foldRule fl w (.binary m op (.int ma a) (.int mb b)) st = (.binary m op (.int ma a) (.int mb b), st) := by
  simp only [Gen.Pipeline.foldBinaryOps, List.mem_cons, List.not_mem_nil, or_false, not_or] at h
  obtain ⟨h1, h2, h3, h4, h5, h6⟩ := h
  simp only [foldRule, beq_eq_false_iff_ne.mpr h1, beq_eq_false_iff_ne.mpr h2, beq_eq_false_iff_ne.mpr h3,
    beq_eq_false_iff_ne.mpr h4, beq_eq_false_iff_ne.mpr h5, beq_eq_false_iff_ne.mpr h6, Bool.or_self,
    Bool.false_eq_true, if_false]


/-! ## Local soundness of the rewrite rules (for all operands, environments, contexts, states)

`IntLitOK m v`: the literal is a Go `int` (64 bit) whose annotation is `int` or absent — what the parser
and checker produce except for literals retyped for a function parameter (deviation #10). -/

variable {c : SCfg}

theorem fold_add_int (ctx : Ctx) (m ma mb : Meta) (a b : Int) (ha : IntLitOK ma a) (hb : IntLitOK mb b) :
    eval c ctx (.int ⟨m.loc, ma.kd⟩ (wrap .int (a + b))) = eval c ctx (.binary m "+" (.int ma a) (.int mb b)) := by
  rw [eval_int, intConst_plain ha.1 (wrap_inRange _), eval_arith_ints ctx m ma mb "+" .add a b rfl (by decide) ha hb]; rfl

theorem fold_sub_int (ctx : Ctx) (m ma mb : Meta) (a b : Int) (ha : IntLitOK ma a) (hb : IntLitOK mb b) :
    eval c ctx (.int ⟨m.loc, ma.kd⟩ (wrap .int (a - b))) = eval c ctx (.binary m "-" (.int ma a) (.int mb b)) := by
  rw [eval_int, intConst_plain ha.1 (wrap_inRange _), eval_arith_ints ctx m ma mb "-" .subtract a b rfl (by decide) ha hb]; rfl

theorem fold_mul_int (ctx : Ctx) (m ma mb : Meta) (a b : Int) (ha : IntLitOK ma a) (hb : IntLitOK mb b) :
    eval c ctx (.int ⟨m.loc, ma.kd⟩ (wrap .int (a * b))) = eval c ctx (.binary m "*" (.int ma a) (.int mb b)) := by
  rw [eval_int, intConst_plain ha.1 (wrap_inRange _), eval_arith_ints ctx m ma mb "*" .multiply a b rfl (by decide) ha hb]; rfl

/-- Go's truncated division; the divisor is not zero (a zero divisor is rejected at compile time) -/
theorem fold_div_int (ctx : Ctx) (m ma mb : Meta) (a b : Int) (ha : IntLitOK ma a) (hb : IntLitOK mb b) (hz : b ≠ 0) :
    eval c ctx (.int ⟨m.loc, ma.kd⟩ (wrap .int (Int.tdiv a b))) = eval c ctx (.binary m "/" (.int ma a) (.int mb b)) := by
  rw [eval_int, intConst_plain ha.1 (wrap_inRange _), eval_arith_ints ctx m ma mb "/" .divide a b rfl (by decide) ha hb]
  simp [binHelper, refSem, armTypeOf, Helper.noFloat, Kind.maxRank, applyOp, Helper.op, hz, lift_ok]

theorem fold_mod_int (ctx : Ctx) (m ma mb : Meta) (a b : Int) (ha : IntLitOK ma a) (hb : IntLitOK mb b) (hz : b ≠ 0)
    (hm : plainKd m.kd = true) :
    eval c ctx (.int m (wrap .int (Int.tmod a b))) = eval c ctx (.binary m "%" (.int ma a) (.int mb b)) := by
  rw [eval_int, intConst_plain hm (wrap_inRange _), eval_arith_ints ctx m ma mb "%" .modulo a b rfl (by decide) ha hb]
  simp [binHelper, refSem, armTypeOf, Helper.noFloat, Kind.maxRank, applyOp, Helper.op, hz, lift_ok, Kind.isFloat]

theorem fold_neg (ctx : Ctx) (m mi : Meta) (i : Int) (hi : IntLitOK mi i) :
    eval c ctx (.int ⟨m.loc, mi.kd⟩ (wrap .int (-i))) = eval c ctx (.unary m "-" (.int mi i)) := by
  rw [eval_int, intConst_plain hi.1 (wrap_inRange _), eval]
  simp only [eval_int, intConst_plain hi.1 hi.2, pure_bind, String.reduceBEq, Bool.or_self, Bool.false_eq_true, if_false, if_true]
  rfl

theorem fold_pos (ctx : Ctx) (m mi : Meta) (i : Int) (hi : IntLitOK mi i) :
    eval c ctx (.int ⟨m.loc, mi.kd⟩ i) = eval c ctx (.unary m "+" (.int mi i)) := by
  rw [eval_int, intConst_plain hi.1 hi.2, eval]
  simp only [eval_int, intConst_plain hi.1 hi.2, pure_bind, String.reduceBEq, Bool.or_self, Bool.false_eq_true, if_false, if_true]

theorem fold_str_concat (ctx : Ctx) (m ma mb : Meta) (a b : String) :
    eval c ctx (.str m (a ++ b)) = eval c ctx (.binary m "+" (.str ma a) (.str mb b)) := by
  rw [eval, eval]
  simp only [String.reduceBEq, Bool.or_self, Bool.false_eq_true, if_false]
  rw [eval, eval]
  simp only [pure_bind]
  rfl

theorem obsEq_ints (vs : List Int) : obsEqListB (vs.map (Val.int .int)) (vs.map (Val.int .int)) = true := by
  induction vs with
  | nil => rfl
  | cons v vs ih => simp [obsEqListB, obsEqB, Val.deepEq, ih]

theorem obsEq_strs (ss : List String) : obsEqListB (ss.map Val.str) (ss.map Val.str) = true := by
  induction ss with
  | nil => rfl
  | cons v vs ih => simp [obsEqListB, obsEqB, Val.deepEq, ih]

/-- a literal array of integer literals: the folded constant is a `[]int` with the same elements — equal
    only *observationally* (the original is a `[]interface{}`), and it is not counted against the budget -/
theorem fold_int_array (ctx : Ctx) (m : Meta) (xs : List Node) (vs : List Int) (h : allInts xs = some vs) (hok : IntLitsOK xs) :
    eval c ctx (.array m xs) =
      (SM.allocAfter c.budget xs.length xs.length >>= fun _ => pure (.arr .iface (vs.map (Val.int .int)))) ∧
    eval c ctx (.const m (.arr (.num .int) (vs.map (Val.int .int)))) = pure (.arr (.num .int) (vs.map (Val.int .int))) ∧
    ObsEq (.arr (.num .int) (vs.map (Val.int .int))) (.arr .iface (vs.map (Val.int .int))) := by
  refine ⟨?_, by rw [eval], by simp [ObsEq, obsEqB, obsEq_ints]⟩
  have hl : vs.length = xs.length := by
    clear hok
    induction xs generalizing vs with
    | nil => simp [allInts] at h; subst h; rfl
    | cons x rest ih =>
      cases x <;> simp only [allInts] at h <;> try cases h
      cases hr : allInts rest with
      | none => simp [hr] at h
      | some vr => simp [hr] at h; subst h; simp [ih vr hr]
  rw [eval, evalList_ints ctx xs vs h hok]
  simp only [pure_bind, List.length_map, hl]

theorem fold_str_array (ctx : Ctx) (m : Meta) (xs : List Node) (ss : List String) (h : allStrs xs = some ss) :
    eval c ctx (.array m xs) =
      (SM.allocAfter c.budget xs.length xs.length >>= fun _ => pure (.arr .iface (ss.map Val.str))) ∧
    eval c ctx (.const m (.arr .str (ss.map Val.str))) = pure (.arr .str (ss.map Val.str)) ∧
    ObsEq (.arr .str (ss.map Val.str)) (.arr .iface (ss.map Val.str)) := by
  refine ⟨?_, by rw [eval], by simp [ObsEq, obsEqB, obsEq_strs]⟩
  have hl : ss.length = xs.length := by
    induction xs generalizing ss with
    | nil => simp [allStrs] at h; subst h; rfl
    | cons x rest ih =>
      cases x <;> simp only [allStrs] at h <;> try cases h
      cases hr : allStrs rest with
      | none => simp [hr] at h
      | some vr => simp [hr] at h; subst h; simp [ih vr hr]
  rw [eval, evalList_strs ctx xs ss h]
  simp only [pure_bind, List.length_map, hl]

/-- membership in a literal array of integers, for a left operand that is dynamically an `int`:
    the constant-set lookup simulates the scan of the array (which also allocates it) -/
theorem inArray_int_equiv (ctx : Ctx) (m ma mc : Meta) (l : Node) (xs : List Node) (vs : List Int)
    (hd : DynInt c l) (hx : allInts xs = some vs) (hok : IntLitsOK xs) :
    RelM (eval c ctx (.binary m "in" l (.const mc (intSet vs)))) (eval c ctx (.binary m "in" l (.array ma xs))) ∧
    RelM (eval c ctx (.binary m "not in" l (.const mc (intSet vs)))) (eval c ctx (.binary m "not in" l (.array ma xs))) := by
  rw [eval_in, eval_in, eval_notin, eval_notin]
  exact ⟨inArray_int_core ctx false l ma mc xs vs hd hx hok, inArray_int_core ctx true l ma mc xs vs hd hx hok⟩

/-- the string-set rewrite is sound when the left operand is dynamically a string (the code does not ask: #8) -/
theorem inArray_str_equiv (ctx : Ctx) (m ma mc : Meta) (l : Node) (xs : List Node) (ss : List String)
    (hd : DynStr c l) (hx : allStrs xs = some ss) :
    RelM (eval c ctx (.binary m "in" l (.const mc (strSet ss)))) (eval c ctx (.binary m "in" l (.array ma xs))) ∧
    RelM (eval c ctx (.binary m "not in" l (.const mc (strSet ss)))) (eval c ctx (.binary m "not in" l (.array ma xs))) := by
  rw [eval_in, eval_in, eval_notin, eval_notin]
  exact ⟨inArray_str_core ctx false l ma mc xs ss hd hx, inArray_str_core ctx true l ma mc xs ss hd hx⟩

/-- `x in a..b` ⇝ `x >= a and x <= b` for a left operand that is integer-kinded (`int`, `int64` or an unsigned kind)
    and can be evaluated twice (`RangeLeftOK`: no calls, no allocation; the code asks for neither: #9) -/
theorem inRange_equiv (fl : Flags) (m mr mf mt : Meta) (op : String) (l : Node) (a b : Int) (st : St)
    (_hop : op = "in" ∨ op = "not in") (ha : IntLitOK mf a) (hb : IntLitOK mt b) (hl : RangeLeftOK c l)
    (hs : c.rangeSizeSigned = true → a ≤ b + 1) (ctx : Ctx) :
    RelM (eval c ctx (inRangeRule fl (.binary m op l (.binary mr ".." (.int mf a) (.int mt b))) st).1)
         (eval c ctx (.binary m op l (.binary mr ".." (.int mf a) (.int mt b)))) :=
  (inRange_sound fl _ (by simp only [InRangeOK]; exact fun _ _ => ⟨ha, hb, fun _ _ => hl, hs⟩) st).ev ctx

/-- the kinds the repaired in_range guard admits (`Opt.rangeKd`) are exactly the kinds of `inRange_equiv` -/
theorem rangeKd_iff (k : Kind) : rangeKd (.num k) = true ↔ RangeK k := by
  cases k <;> simp [rangeKd, RangeK, Kind.rank]

/-- a literal range becomes the constant with the same elements; only the allocation differs -/
theorem constRange_equiv (fl : Flags) (m ma mb : Meta) (lo hi : Int) (st : St) (ha : IntLitOK ma lo) (hb : IntLitOK mb hi)
    (hsz : fl.constRangeNoOverflow = false → inRange .int (hi - lo + 1)) (hs : c.rangeSizeSigned = true → lo ≤ hi + 1) (ctx : Ctx) :
    RelM (eval c ctx (constRangeRule fl (.binary m ".." (.int ma lo) (.int mb hi)) st).1)
         (eval c ctx (.binary m ".." (.int ma lo) (.int mb hi))) :=
  (constRange_sound fl _ (by simp only [ConstRangeOK]; exact fun _ => ⟨ha, hb, hsz, hs⟩) st).ev ctx

/-- a ConstExpr call whose compile-time evaluation succeeds is replaced by its result: sound when the
    arguments evaluate to the values passed (#11) and the registered function is the environment's -/
theorem constExpr_equiv (fl : Flags) (fns : ConstFns) (m : Meta) (name : String) (args : List Node) (fast : Bool) (st : St)
    (hg : ConstExprOK c fl fns (.func m name args fast)) (ctx : Ctx) :
    RelM (eval c ctx (constExprRule fl fns c.world (.func m name args fast) st).1) (eval c ctx (.func m name args fast)) :=
  (constExpr_sound fl fns _ hg st).ev ctx

/-- the syntactic reason for the first half of `ConstExprOK`: literal arguments evaluate to what is passed -/
theorem constArgs_eval (fl : Flags) (ctx : Ctx) : ∀ (args : List Node) (vs : List Val),
    (fl.constExprConvert = true ∨ IntLitsOK args) → constArgs fl args = some vs → evalList c ctx args = pure vs
  | [], vs, _, h => by simp only [constArgs] at h; cases h; simp only [evalList]
  | a :: rest, vs, hk, h => by
    simp only [constArgs] at h
    cases ha : constArg fl a with
    | none => simp [ha] at h
    | some v =>
      cases hr : constArgs fl rest with
      | none => simp [ha, hr] at h
      | some vr =>
        simp only [ha, hr, Option.some.injEq] at h
        subst h
        have ih := constArgs_eval fl ctx rest vr (hk.imp id (fun h x hx => h x (List.mem_cons_of_mem _ hx))) hr
        have hv : eval c ctx a = pure v ∧ isPair a = false := by
          cases a
          case int m i =>
            simp only [constArg, Option.some.injEq] at ha
            subst ha
            refine ⟨?_, rfl⟩
            rw [eval_int]
            rcases hk with hk | hk
            · simp [hk]
            · have := hk (.int m i) List.mem_cons_self m i rfl
              rw [intConst_plain this.1 this.2]
              split <;> rfl
          all_goals (simp only [constArg, Option.some.injEq] at ha <;> try cases ha)
          all_goals (try subst ha)
          all_goals exact ⟨by rw [eval], rfl⟩
        rw [evalList_cons_nonpair _ _ _ _ hv.2, hv.1, ih]
        rfl


/-! ## Congruence: from node-local soundness to the traversal, the loop and the pipeline -/

/-- A node-local rewrite whose result simulates the node it replaces, in every context, is preserved by
    the bottom-up traversal (`ast.Walk` with an `Exit`-only visitor), whatever the visitor's state.
    `reOK`: a `matches` node with a pre-compiled regexp has a literal pattern (parser invariant). -/
theorem walk_congruence (ws : Bool) (rule : Opt.Rule) (hrule : ∀ N st, Sim c (rule N st).1 N)
    (n : Node) (hn : reOK n = true) (st : St) : Sim c (walk ws rule n st).1 n :=
  walk_sim ws rule hrule n hn st

theorem walkList_congruence (ws : Bool) (rule : Opt.Rule) (hrule : ∀ N st, Sim c (rule N st).1 N)
    (ns : List Node) (hn : reOKList ns = true) (st : St) : SimL c (walkList ws rule ns st).1 ns :=
  walkList_sim ws rule hrule ns hn st

theorem walkOpt_congruence (ws : Bool) (rule : Opt.Rule) (hrule : ∀ N st, Sim c (rule N st).1 N)
    (o : Option Node) (hn : reOKOpt o = true) (st : St) : SimO c (walkOpt ws rule o st).1 o :=
  walkOpt_sim ws rule hrule o hn st

/-- … and by the `for limit …` loop, for every number of iterations -/
theorem repeat_congruence (ws : Bool) (rule : Opt.Rule) (hrule : ∀ N st, Sim c (rule N st).1 N)
    (k : Nat) (n n' : Node) (hn : reOK n = true) (h : repeatPass ws rule k n = .ok n') : Sim c n' n :=
  repeatPass_sim ws rule hrule k n n' hn h

/-- evaluation is monotone in the budget counter (the reflexive case of the congruence) -/
theorem eval_monotone_in_memory (n : Node) (ctx : Ctx) : RelM (eval c ctx n) (eval c ctx n) :=
  (sim_refl c n).ev ctx

/-- the guards of the five passes: what has to hold at a node for the rewrite firing there to be sound -/
def GuardOK (c : SCfg) (fl : Flags) (fns : ConstFns) : Pass → Node → Prop
  | .inArray, N => InArrayOK c fl N
  | .fold, N => FoldOKf fl N
  | .constExpr, N => ConstExprOK c fl fns N
  | .inRange, N => InRangeOK c fl N
  | .constRange, N => ConstRangeOK c fl N

/-- the composition of the passes, from the soundness of each rule at the sites the filter lets through -/
theorem optimizeWith_sim_core (fl : Flags) (fns : ConstFns) (g : Guard)
    (h1 : ∀ N st, g .inArray N = true → Sim c (inArrayRule fl N st).1 N)
    (h2 : ∀ N st, g .fold N = true → Sim c (foldRule fl c.world N st).1 N)
    (h3 : ∀ N st, g .constExpr N = true → Sim c (constExprRule fl fns c.world N st).1 N)
    (h4 : ∀ N st, g .inRange N = true → Sim c (inRangeRule fl N st).1 N)
    (h5 : ∀ N st, g .constRange N = true → Sim c (constRangeRule fl N st).1 N)
    (n n' : Node) (hn : reOK n = true)
    (h : optimizeWith g fl fns c.world n = .ok n') : Sim c n' n := by
  have s1 := walk_sim (c := c) fl.walkSliceNode (guarded g .inArray (inArrayRule fl))
    (guarded_sim g .inArray _ h1) n hn {}
  unfold optimizeWith at h
  simp only [bind, Except.bind, pure, Except.pure] at h
  split at h
  · cases h
  · rename_i n2 e2
    have s2 := repeatPass_sim (c := c) fl.walkSliceNode (guarded g .fold (foldRule fl c.world))
      (guarded_sim g .fold _ h2) _ _ _ (s1.re hn) e2
    have s12 := s2.trans s1
    have tail : ∀ n3, Sim c n3 n →
        Sim c (walk fl.walkSliceNode (guarded g .constRange (constRangeRule fl))
          (walk fl.walkSliceNode (guarded g .inRange (inRangeRule fl)) n3 {}).1 {}).1 n := by
      intro n3 s123
      have s4 := walk_sim (c := c) fl.walkSliceNode (guarded g .inRange (inRangeRule fl))
        (guarded_sim g .inRange _ h4) n3 (s123.re hn) {}
      have s1234 := s4.trans s123
      have s5 := walk_sim (c := c) fl.walkSliceNode (guarded g .constRange (constRangeRule fl))
        (guarded_sim g .constRange _ h5) _ (s1234.re hn) {}
      exact s5.trans s1234
    split at h
    · cases h; exact tail n2 s12
    · split at h
      · cases h
      · rename_i n3 e3
        have s3 := repeatPass_sim (c := c) fl.walkSliceNode (guarded g .constExpr (constExprRule fl fns c.world))
          (guarded_sim g .constExpr _ h3) _ _ _ (s12.re hn) e3
        cases h
        exact tail n3 (s3.trans s12)

/-- the optimizer restricted to rewrite sites that satisfy their guards produces a tree that simulates
    the original one -/
theorem optimizeWith_sim (fl : Flags) (fns : ConstFns) (g : Guard)
    (hg : ∀ p N, g p N = true → GuardOK c fl fns p N) (n n' : Node) (hn : reOK n = true)
    (h : optimizeWith g fl fns c.world n = .ok n') : Sim c n' n :=
  optimizeWith_sim_core fl fns g
    (fun N st hN => inArray_sound fl N (hg _ _ hN) st) (fun N st hN => fold_sound_f fl c.world N (hg _ _ hN) st)
    (fun N st hN => constExpr_sound fl fns N (hg _ _ hN) st) (fun N st hN => inRange_sound fl N (hg _ _ hN) st)
    (fun N st hN => constRange_sound fl N (hg _ _ hN) st) n n' hn h

/-- **Transparency, under the guards.**  Let `g` select rewrite sites at which the guards hold
    (`hg`), and suppose the optimizer did not rewrite anywhere else on `n` (`hrun`: the restricted and the
    real optimizer agree on `n`).  If `optimizer.Optimize` accepts `n`, then running the optimised tree
    gives exactly the result (value or failure class) of running `n` — unless the run of `n` exceeds
    the memory budget (the optimised tree allocates less; then nothing is claimed). -/
theorem optimize_transparent_partial (fl : Flags) (fns : ConstFns) (g : Guard)
    (hg : ∀ p N, g p N = true → GuardOK c fl fns p N) (n n' : Node) (hn : reOK n = true)
    (hrun : optimizeWith g fl fns c.world n = optimize fl fns c.world n)
    (h : optimize fl fns c.world n = .ok n') (cast : Option Nat) :
    (Spec.run c cast n).1 = .error .budget ∨ (Spec.run c cast n').1 = (Spec.run c cast n).1 := by
  have hs := optimizeWith_sim fl fns g hg n n' hn (hrun.trans h)
  have h0 := hs.ev [] {} {} (Int.le_refl _)
  simp only [Spec.run]
  rcases hu : eval c [] n {} with ⟨r, t⟩
  rcases ho : eval c [] n' {} with ⟨r', t'⟩
  rw [hu, ho] at h0
  rcases h0 with h0 | ⟨h0, _⟩
  · simp only at h0; subst h0; exact .inl rfl
  · simp only at h0; subst h0
    right
    cases r' with
    | error e => rfl
    | ok v => cases cast <;> rfl

/-- the same with the property's observational equality -/
theorem optimize_transparent_partial_obs (fl : Flags) (fns : ConstFns) (g : Guard)
    (hg : ∀ p N, g p N = true → GuardOK c fl fns p N) (n n' : Node) (hn : reOK n = true)
    (hrun : optimizeWith g fl fns c.world n = optimize fl fns c.world n)
    (h : optimize fl fns c.world n = .ok n') (v : Val) (hv : (Spec.run c none n).1 = .ok v) :
    (Spec.run c none n').1 = .ok v := by
  rcases optimize_transparent_partial fl fns g hg n n' hn hrun h none with hb | he
  · rw [hv] at hb; cases hb
  · rw [he, hv]

/-! ## What the optimizer may reject -/

/-- `fold` sets its error only at a constant integer division or modulo by zero -/
theorem fold_rejects_only_divzero (fl : Flags) (w : World) (N : Node) (st : St)
    (h : (foldRule fl w N st).2.err ≠ st.err) :
    ∃ m op ma a mb, N = .binary m op (.int ma a) (.int mb 0) ∧ (op = "/" ∨ op = "%") := by
  unfold foldRule at h
  split at h
  · exfalso; revert h
    repeat' split
    all_goals simp [applied]
  · rename_i m op ma a mb b
    by_cases hb : b = 0
    · subst hb
      by_cases h1 : op = "/"
      · exact ⟨m, op, ma, a, mb, rfl, .inl h1⟩
      · by_cases h2 : op = "%"
        · exact ⟨m, op, ma, a, mb, rfl, .inr h2⟩
        · exfalso
          have e1 : (op == "/") = false := by simpa using h1
          have e2 : (op == "%") = false := by simpa using h2
          revert h
          simp only [e1, e2, Bool.or_false, Bool.false_eq_true, if_false]
          repeat' split
          all_goals simp_all [applied]
    · exfalso
      have e0 : (b == 0) = false := by simpa using hb
      revert h
      simp only [e0, Bool.false_eq_true, if_false]
      repeat' split
      all_goals simp [applied]
  · exfalso; revert h; split <;> simp [applied]
  · exfalso; revert h
    repeat' split
    all_goals simp [applied]
  · exact absurd rfl h

/-- … and there it reports the location of that node -/
theorem fold_divzero_location (fl : Flags) (w : World) (m ma mb : Meta) (op : String) (a : Int) (st : St)
    (hop : op = "/" ∨ op = "%") (hp : fl.foldPlainOnly = false) :
    (foldRule fl w (.binary m op (.int ma a) (.int mb 0)) st).2.err = some m.loc := by
  rcases hop with rfl | rfl <;>
    simp [foldRule, hp, Node.loc, Node.getMeta]

/-- `in_array`, `in_range` and `const_range` never reject -/
theorem other_passes_never_reject (fl : Flags) (N : Node) (st : St) :
    (inArrayRule fl N st).2 = st ∧ (inRangeRule fl N st).2 = st ∧ (constRangeRule fl N st).2 = st := by
  refine ⟨?_, ?_, ?_⟩
  · unfold inArrayRule
    split
    · split
      · simp only []
        split
        · rfl
        · split
          · rfl
          · split <;> rfl
      · rfl
    · rfl
  · unfold inRangeRule; repeat' split
    all_goals rfl
  · unfold constRangeRule
    split
    · split
      · simp only []
        split
        · split
          · rfl
          · split <;> rfl
        · split
          · rfl
          · split <;> rfl
      · rfl
    · rfl

/-- `const_expr` rejects only when the compile-time call of a registered function on literal arguments fails -/
theorem constExpr_rejects_only_failed_call (fl : Flags) (fns : ConstFns) (w : World) (N : Node) (st : St)
    (h : (constExprRule fl fns w N st).2.err ≠ st.err) :
    ∃ m name args fast id vs e, N = .func m name args fast ∧ fns.lookup name = some id ∧
      constArgs fl args = some vs ∧ w.call id vs = .error e := by
  unfold constExprRule at h
  split at h
  · rename_i m name args fast
    split at h
    · exact absurd rfl h
    · rename_i id hid
      split at h
      · exact absurd rfl h
      · rename_i vs hvs
        split at h
        · exact absurd rfl h
        · rename_i e he
          exact ⟨m, name, args, fast, id, vs, e, rfl, hid, hvs, he⟩
  · exact absurd rfl h


/-! ## The full-strength statement, and why it does not hold -/

/-- the registered ConstExpr functions are the environment's functions (what `expr.ConstExpr` sets up) -/
def FnsOfEnv (c : SCfg) (fns : ConstFns) : Prop :=
  ∀ name id, fns.lookup name = some id → ∀ vs, callMember c.world c.env name vs = c.world.call id vs

/-- C02 at full strength for a setting `fl` of the deviation switches: whenever the optimizer accepts a
    tree, the optimised tree and the original one both fail or both yield observationally equal values,
    for every environment, world, budget and result cast. -/
def optimize_transparent_goal (fl : Flags) : Prop :=
  ∀ (c : SCfg) (fns : ConstFns) (n n' : Node) (cast : Option Nat), reOK n = true → FnsOfEnv c fns →
    optimize fl fns c.world n = .ok n' → ObsRes (Spec.run c cast n').1 (Spec.run c cast n).1

/-- the tree contains an integer `/` or `%` whose operands are constant integer expressions (literals, unary
    signs, `+ - * / %`, evaluated in Go's `int`) and whose divisor is zero — `OptProofs.dz`, defined on the
    tree as written, before any folding -/
def HasConstDivZero (n : Node) : Prop := dz n = true

example : HasConstDivZero (.binary {} "+" (.ident {} "x" false) (.binary {} "%" (.int {} 7) (.binary {} "-" (.int {} 1) (.int {} 1)))) := by
  show dz _ = true; rfl

/-- **The only trees the optimizer rejects**: if `optimizer.Optimize` fails, the tree contains a constant integer
    division or modulo by zero, or the compile-time call of a ConstExpr function on literal arguments failed
    (for every setting of the switches, every world, with or without ConstExpr functions). -/
theorem optimize_rejects_only_divzero (fl : Flags) (fns : ConstFns) (w : World) (n : Node) (l : Loc)
    (h : optimize fl fns w n = .error l) :
    HasConstDivZero n ∨
    ∃ name args id vs e, fns.lookup name = some id ∧ constArgs fl args = some vs ∧ w.call id vs = .error e := by
  unfold optimize optimizeWith at h
  simp only [bind, Except.bind, pure, Except.pure] at h
  have hin := walk_back fl.walkSliceNode (guarded Guard.all .inArray (inArrayRule fl))
    (guarded_backward _ _ _ (inArray_backward fl))
    (guarded_err _ _ _ _ (fun N st hh => absurd (by rw [inArray_no_err]) hh)) n {}
  have hfold := repeatPass_back fl.walkSliceNode (guarded Guard.all .fold (foldRule fl w))
    (guarded_backward _ _ _ (fold_backward fl w)) (guarded_err _ _ _ _ (fold_err_dzHere fl w)) foldWalks
    (walk fl.walkSliceNode (guarded Guard.all .inArray (inArrayRule fl)) n {}).1
  split at h
  · rename_i l' h2
    exact .inl (hin.2.1 (hfold.1 _ h2))
  · rename_i n2 h2
    split at h
    · cases h
    · split at h
      · rename_i l' h3
        right
        obtain ⟨N, st, he⟩ := repeatPass_errAt _ _ _ _ _ h3
        have he' : (constExprRule fl fns w N st).2.err ≠ st.err := by
          simp only [guarded, Guard.all, if_true] at he; exact he
        obtain ⟨m, name, args, fast, id, vs, e, _, h1, h2', h3'⟩ := constExpr_rejects_only_failed_call fl fns w N st he'
        exact ⟨name, args, id, vs, e, h1, h2', h3'⟩
      · cases h

/-- without ConstExpr functions: "the only expression the optimizer may reject … is one containing a constant
    integer division or modulo by zero" -/
theorem optimize_rejects_only_divzero_plain (fl : Flags) (w : World) (n : Node) (l : Loc)
    (h : optimize fl [] w n = .error l) : HasConstDivZero n := by
  rcases optimize_rejects_only_divzero fl [] w n l h with h | ⟨_, _, _, _, _, h1, _⟩
  · exact h
  · cases h1

/-! ## Witnesses of the reproduced deviations (model level; harness/c02.go exhibits each on the real code) -/

/-- a world with three environment functions: `I8 : func(int8) int8`, `I64 : func(int64) int64` (identities)
    and `X : func() int` -/
def w0 : World :=
  { call := fun id args => match id, args with
      | "I8", [.int .int8 n] => .ok (.int .int8 n)
      | "I64", [.int .int64 n] => .ok (.int .int64 n)
      | "X", [] => .ok (.int .int 2)
      | _, _ => .error .type_
    regexMatch := fun _ _ => none
    pow := fun x _ => x }

def cfg (env : Val) (budget : Int := 1000000) : SCfg := { world := w0, env := env, budget := budget }

private def mI (col : Nat) : Meta := ⟨⟨1, col⟩, .num .int⟩
private def mB (col : Nat) : Meta := ⟨⟨1, col⟩, .bool⟩
private def mS (col : Nat) : Meta := ⟨⟨1, col⟩, .string⟩
private def mA (col : Nat) : Meta := ⟨⟨1, col⟩, .slice⟩

/-- `1 in ["a"]` -/
def t8 : Node := .binary (mB 2) "in" (.int (mI 0) 1) (.array (mA 5) [.str (mS 6) "a"])
/-- `nil in ["a"]` -/
def t8n : Node := .binary (mB 4) "in" (.nil ⟨⟨1, 0⟩, .invalid⟩) (.array (mA 7) [.str (mS 8) "a"])

/-- (#8) the string-set rewrite ignores the left type: `false` becomes a run-time error -/
theorem in_array_left_type_witness :
    (∃ n', optimize Flags.asWas [] w0 t8 = .ok n' ∧ (Spec.run (cfg (.map [])) none n').1 = .error .type_) ∧
    (Spec.run (cfg (.map [])) none t8).1 = .ok (.bool false) ∧
    (∃ n', optimize Flags.asWas [] w0 t8n = .ok n' ∧ (Spec.run (cfg (.map [])) none n').1 = .error .type_) ∧
    (Spec.run (cfg (.map [])) none t8n).1 = .ok (.bool false) :=
  ⟨⟨_, rfl, rfl⟩, rfl, ⟨_, rfl, rfl⟩, rfl⟩

/-- with the guard `Left.Type().Kind() == reflect.String` the deviation is gone -/
theorem in_array_left_type_repaired :
    ∃ n', optimize Flags.asIs [] w0 t8 = .ok n' ∧ (Spec.run (cfg (.map [])) none n').1 = .ok (.bool false) :=
  ⟨_, rfl, rfl⟩

/-- `S in 1..3` -/
def t9s : Node := .binary (mB 2) "in" (.ident (mS 0) "S" false) (.binary (mA 6) ".." (.int (mI 5) 1) (.int (mI 8) 3))
/-- `I8 in -5..255` -/
def t9i : Node := .binary (mB 3) "in" (.ident ⟨⟨1, 0⟩, .num .int8⟩ "I8" false)
  (.binary (mA 8) ".." (.unary (mI 6) "-" (.int (mI 7) 5)) (.int (mI 10) 255))
/-- `X() in 1..1` -/
def t9x : Node := .binary (mB 4) "in" (.func (mI 0) "X" [] false) (.binary (mA 8) ".." (.int (mI 7) 1) (.int (mI 10) 1))

def env9 : Val := .map [("I8", .int .int8 7), ("S", .str "a"), ("X", .fn "X")]

/-- (#9) the in-range rewrite ignores the left type: a string operand fails instead of `false`; an `int8`
    operand is compared with bounds narrowed to `int8` (`7 in -5..255`: `true` becomes `false`);
    and the left operand is evaluated twice (call log `[X X]` instead of `[X]`) -/
theorem in_range_left_type_witness :
    (∃ n', optimize Flags.asWas [] w0 t9s = .ok n' ∧ (Spec.run (cfg env9) none n').1 = .error .type_) ∧
    (Spec.run (cfg env9) none t9s).1 = .ok (.bool false) ∧
    (∃ n', optimize Flags.asWas [] w0 t9i = .ok n' ∧ (Spec.run (cfg env9) none n').1 = .ok (.bool false)) ∧
    (Spec.run (cfg env9) none t9i).1 = .ok (.bool true) :=
  ⟨⟨_, rfl, rfl⟩, rfl, ⟨_, rfl, rfl⟩, rfl⟩

theorem in_range_left_twice_witness :
    (∃ n', optimize Flags.asWas [] w0 t9x = .ok n' ∧ (Spec.run (cfg env9) none n').2.log.length = 2) ∧
    (Spec.run (cfg env9) none t9x).2.log.length = 1 :=
  ⟨⟨_, rfl, rfl⟩, rfl⟩

theorem in_range_repaired :
    (∃ n', optimize Flags.asIs [] w0 t9s = .ok n' ∧ (Spec.run (cfg env9) none n').1 = .ok (.bool false)) ∧
    (∃ n', optimize Flags.asIs [] w0 t9x = .ok n' ∧ (Spec.run (cfg env9) none n').2.log.length = 1) ∧
    (∃ n', optimize Flags.asIs [] w0 t9i = .ok n' ∧ (Spec.run (cfg env9) none n').1 = .ok (.bool true)) :=
  ⟨⟨_, rfl, rfl⟩, ⟨_, rfl, rfl⟩, ⟨_, rfl, rfl⟩⟩

/-- `I8f(200 / 3)`: the checker has retyped both literals to the parameter type `int8` -/
def t10 : Node := .func ⟨⟨1, 0⟩, .num .int8⟩ "I8f"
  [.binary (mI 8) "/" (.int ⟨⟨1, 4⟩, .num .int8⟩ 200) (.int ⟨⟨1, 10⟩, .num .int8⟩ 3)] false

def env10 : Val := .map [("I64f", .fn "I64"), ("I8f", .fn "I8")]

/-- (#10) literals already retyped for a parameter are folded with `int` arithmetic:
    `int8(200) / int8(3) = -18` becomes `int8(200 / 3) = 66` -/
theorem fold_retyped_witness :
    (∃ n', optimize Flags.asWas [] w0 t10 = .ok n' ∧ (Spec.run (cfg env10) none n').1 = .ok (.int .int8 66)) ∧
    (Spec.run (cfg env10) none t10).1 = .ok (.int .int8 (-18)) :=
  ⟨⟨_, rfl, rfl⟩, rfl⟩

theorem fold_retyped_repaired : optimize Flags.asIs [] w0 t10 = .ok t10 := rfl

/-- `I64f((7 % 2) * 3)`: only the right literal is retyped (`%` is not an arithmetic operation for the checker) -/
def t10m : Node := .func ⟨⟨1, 0⟩, .num .int64⟩ "I64f"
  [.binary (mI 13) "*" (.binary (mI 8) "%" (.int (mI 6) 7) (.int (mI 10) 2)) (.int ⟨⟨1, 15⟩, .num .int64⟩ 3)] false

/-- (#10, found by the search) the folded literal takes the annotation of the *left* operand: `1 * int64(3)`
    becomes the `int` literal 3, which `func(int64)` refuses at run time -/
theorem fold_mixed_annotation_witness :
    (∃ n', optimize Flags.asWas [] w0 t10m = .ok n' ∧ (Spec.run (cfg env10) none n').1 = .error .type_) ∧
    (Spec.run (cfg env10) none t10m).1 = .ok (.int .int64 3) ∧
    (∃ n', optimize Flags.asIs [] w0 t10m = .ok n' ∧ (Spec.run (cfg env10) none n').1 = .ok (.int .int64 3)) :=
  ⟨⟨_, rfl, rfl⟩, rfl, ⟨_, rfl, rfl⟩⟩

/-- `I64f(1)` with `I64f` registered as ConstExpr -/
def t11 : Node := .func ⟨⟨1, 0⟩, .num .int64⟩ "I64f" [.int ⟨⟨1, 5⟩, .num .int64⟩ 1] false

/-- (#11) ConstExpr passes the literal as `int`: the compile-time call fails although the call succeeds at run time -/
theorem const_expr_int_kind_witness :
    optimize Flags.asWas [("I64f", "I64")] w0 t11 = .error ⟨1, 0⟩ ∧
    (Spec.run (cfg env10) none t11).1 = .ok (.int .int64 1) :=
  ⟨rfl, rfl⟩

theorem const_expr_int_kind_repaired :
    ∃ n', optimize Flags.asIs [("I64f", "I64")] w0 t11 = .ok n' ∧ (Spec.run (cfg env10) none n').1 = .ok (.int .int64 1) :=
  ⟨_, rfl, rfl⟩

/-- `[1, 2] == Ints` -/
def t12 : Node := .binary (mB 7) "==" (.array (mA 0) [.int (mI 1) 1, .int (mI 4) 2]) (.ident (mA 10) "Ints" false)
def env12 : Val := .map [("Ints", .arr (.num .int) [.int .int 1, .int .int 2])]

/-- (#12) a literal array becomes a `[]int` constant: `==` (reflect.DeepEqual on different slice types) changes
    from `false` to `true` — for the repaired switches as well -/
theorem array_elem_type_witness :
    (∃ n', optimize Flags.asWas [] w0 t12 = .ok n' ∧ (Spec.run (cfg env12) none n').1 = .ok (.bool true)) ∧
    (∃ n', optimize Flags.asIs [] w0 t12 = .ok n' ∧ (Spec.run (cfg env12) none n').1 = .ok (.bool true)) ∧
    (Spec.run (cfg env12) none t12).1 = .ok (.bool false) :=
  ⟨⟨_, rfl, rfl⟩, ⟨_, rfl, rfl⟩, rfl⟩

/-- `len(1..10)` -/
def t13 : Node := .builtin (mI 0) "len" [.binary (mA 5) ".." (.int (mI 4) 1) (.int (mI 7) 10)]

/-- (#13) a constant range is not counted against the budget: under a budget of 10 elements the original
    fails, the optimised tree succeeds (on the real code: `len(1..1000000)` under the default budget) -/
theorem budget_witness :
    (∃ n', optimize Flags.asWas [] w0 t13 = .ok n' ∧ (Spec.run (cfg (.map []) 10) none n').1 = .ok (.int .int 10)) ∧
    (∃ n', optimize Flags.asIs [] w0 t13 = .ok n' ∧ (Spec.run (cfg (.map []) 10) none n').1 = .ok (.int .int 10)) ∧
    (Spec.run (cfg (.map []) 10) none t13).1 = .error .budget :=
  ⟨⟨_, rfl, rfl⟩, ⟨_, rfl, rfl⟩, rfl⟩

/-- `len(0..9223372036854775807)` -/
def t14 : Node := .builtin (mI 0) "len" [.binary (mA 5) ".." (.int (mI 4) 0) (.int (mI 7) 9223372036854775807)]

/-- (c02:const-range-size-overflow, fixed by 426e727) `size := max - min + 1` wraps below 1 for a range of 2^63
    elements, and const_range.go folded it to the EMPTY constant: `len(0..9223372036854775807)` was 0 when optimised,
    while the range itself exceeds every budget.  With emptiness decided by `max < min` the fold is skipped.
    (On the real VM the deviation was masked while OpRange computed its size with the same overflow.) -/
theorem const_range_overflow_witness :
    (∃ n', optimize { Flags.asIs with constRangeNoOverflow := false } [] w0 t14 = .ok n' ∧
      (Spec.run (cfg (.map [])) none n').1 = .ok (.int .int 0)) ∧
    (Spec.run (cfg (.map [])) none t14).1 = .error .budget ∧
    optimize Flags.asIs [] w0 t14 = .ok t14 :=
  ⟨⟨_, rfl, rfl⟩, rfl, rfl⟩

theorem fnsOfEnv_nil (c : SCfg) : FnsOfEnv c [] := by intro _ _ h; cases h

/-- the full-strength statement is false of the code as it is … -/
theorem optimize_transparent_goal_fails_asWas : ¬ optimize_transparent_goal Flags.asWas := by
  intro h
  obtain ⟨⟨n', h1, h2⟩, h3, _⟩ := in_array_left_type_witness
  have := h (cfg (.map [])) [] t8 n' none rfl (fnsOfEnv_nil _) h1
  rw [h2, h3] at this
  exact this

/-- … and remains false with every proposed repair in place, because of (#12) -/
theorem optimize_transparent_goal_fails_asIs : ¬ optimize_transparent_goal Flags.asIs := by
  intro h
  obtain ⟨_, ⟨n', h1, h2⟩, h3⟩ := array_elem_type_witness
  have := h (cfg env12) [] t12 n' none rfl (fnsOfEnv_nil _) h1
  rw [h2, h3] at this
  simp [ObsRes, ObsEq, obsEqB, Val.deepEq] at this


/-! ## The guards are satisfiable; the repaired in-range guard discharges the purity hypothesis -/

/-- an operand the repaired in_range rewrite accepts (`simpleLeft`) is evaluated without touching the state -/
theorem simpleLeft_pure : ∀ (l : Node), simpleLeft l = true → ∀ ctx, ∃ r : R Val, eval c ctx l = SM.lift r
  | .ident m name ns, _, ctx => ⟨_, by rw [eval]⟩
  | .int m v, _, ctx => ⟨.ok (intConst m.kd v), by rw [eval]; rfl⟩
  | .pointer m, _, ctx => by
    cases ctx with
    | nil => exact ⟨.error .type_, by simp only [eval]; rfl⟩
    | cons p rest =>
      obtain ⟨coll, i⟩ := p
      exact ⟨fetchV coll (.int .int i) false, by simp only [eval]⟩
  | .prop m x name ns, h, ctx => by
    simp only [simpleLeft] at h
    obtain ⟨r, hr⟩ := simpleLeft_pure x h ctx
    cases r with
    | ok v => exact ⟨fetchV v (.str name) ns, by rw [eval, hr]; rfl⟩
    | error e => exact ⟨.error e, by rw [eval, hr]; rfl⟩

example : IntLitOK ⟨⟨1, 0⟩, .num .int⟩ 9223372036854775807 := ⟨rfl, by decide⟩
example : IntLitOK {} (-9223372036854775808) := ⟨rfl, by decide⟩

/-- `I in [1, 2]` with `I : int` in the environment -/
def tEx : Node := .binary (mB 2) "in" (.ident (mI 0) "I" false) (.array (mA 5) [.int (mI 6) 1, .int (mI 9) 2])
def envEx : Val := .map [("I", .int .int 2)]
/-- its optimised form: `I in {1, 2}` (a constant `map[int]struct{}`) -/
def tEx' : Node := .binary (mB 2) "in" (.ident (mI 0) "I" false) (.const {} (.set (.num .int) [.int .int 1, .int .int 2]))

/-- the filter that lets exactly the in_array rewrite of `tEx` through -/
def gEx : Guard := fun p N => match p, N with
  | .inArray, .binary _ "in" (.ident _ "I" false) (.array _ [.int ⟨_, .num .int⟩ 1, .int ⟨_, .num .int⟩ 2]) => true
  | _, _ => false

theorem dynInt_I : DynInt (cfg envEx) (.ident (mI 0) "I" false) := by
  intro ctx s v t h
  rw [eval] at h
  exact ⟨2, by cases h; rfl⟩

/-- the hypotheses of `optimize_transparent_partial` hold for a non-trivial instance (the rewrite fires) -/
example : ∃ n', optimize Flags.asIs [] w0 tEx = .ok n' ∧ (Spec.run (cfg envEx) none n').1 = .ok (.bool true) ∧
    (Spec.run (cfg envEx) none tEx).1 = .ok (.bool true) := by
  have hg : ∀ p N, gEx p N = true → GuardOK (cfg envEx) Flags.asIs [] p N := by
    intro p N h
    unfold gEx at h
    split at h
    · rename_i m1 m2 m3 l1 l2 l3 l4
      simp only [GuardOK, InArrayOK]
      refine ⟨fun _ _ => ⟨?_, ?_⟩, fun h _ => absurd rfl h⟩
      · intro ctx s v t he
        rw [eval] at he
        exact ⟨2, by cases he; rfl⟩
      · intro x hx m v hxv
        simp only [List.mem_cons, List.not_mem_nil, or_false] at hx
        rcases hx with rfl | rfl <;> cases hxv <;> exact ⟨rfl, by decide⟩
    · cases h
  have h1 : optimizeWith gEx Flags.asIs [] w0 tEx = .ok tEx' := rfl
  have h2 : optimize Flags.asIs [] w0 tEx = .ok tEx' := rfl
  refine ⟨tEx', h2, ?_, rfl⟩
  exact optimize_transparent_partial_obs (c := cfg envEx) Flags.asIs [] gEx hg tEx tEx' rfl (h1.trans h2.symm) h2 _ rfl


/-! ## Transparency of the code as it is now (`Flags.asIs`: all five `fix:` commits in place)

What the optimizer checks itself no longer has to be assumed: literals of `+ - * /` and of the unary
signs are un-retyped (9249c3a), the string-set rewrite has a statically-string left operand (f3d7630), the
in-range rewrite has a left operand of kind int / int64 / unsigned that is an identifier, `#`, a literal or
a member chain of those — hence evaluated without touching the state (072d9f0), ConstExpr arguments are
passed at their annotated kind (69d5a9a).  What remains as hypothesis, at the sites where a rewrite fires:

* `KindSound`: the static kind of the left operand of `in` is its dynamic kind (soundness of the checker, C03);
* integer literals are Go `int`s; the annotation of a folded node agrees with its literal (`FoldOKf`); the
  literals of `%` and the bounds of a literal range are annotated `int` (the checker never retypes those);
* the functions registered with ConstExpr are the environment's (`expr.ConstExpr` takes them from `Env`);
* NOT covered (the filter `g` must exclude them, see `hrun`): folding of `**` (IEEE operations are opaque to
  the kernel) and folding of literal arrays (`fold_int_array`: only `ObsEq`, and `==` / function parameters
  observe the difference: `array_elem_type_witness`, known finding c02:array-literal-elem-type);
* the conclusion excuses a run of the ORIGINAL tree that exceeds the budget (`budget_witness`, known finding
  c02:budget-differs): the optimised tree allocates less. -/

/-- static kind = dynamic kind, for the kinds the optimizer consults -/
def KindSound (c : SCfg) (l : Node) : Prop :=
  ∀ ctx s v t, eval c ctx l s = (.ok v, t) →
    (∀ k, l.kd = .num k → k.isInt = true → ∃ x, v = .int k x) ∧ (l.kd = .string → ∃ x, v = .str x)

/-- what is left of the guards for the code as it is now -/
def GuardNow (c : SCfg) (fns : ConstFns) : Pass → Node → Prop
  | .inArray, .binary _ _ l (.array _ xs) => KindSound c l ∧ (allInts xs ≠ none → IntLitsOK xs)
  | .fold, N => FoldOKf Flags.asIs N
  | .constExpr, .func _ name _ _ =>
    ∀ id, fns.lookup name = some id → ∀ vs, callMember c.world c.env name vs = c.world.call id vs
  | .inRange, .binary _ _ l (.binary _ _ (.int mf a) (.int mt b)) =>
    IntLitOK mf a ∧ IntLitOK mt b ∧ KindSound c l ∧ (c.rangeSizeSigned = true → a ≤ b + 1)
  | .constRange, .binary _ op (.int ma lo) (.int mb hi) =>
    op = ".." → IntLitOK ma lo ∧ IntLitOK mb hi ∧ (c.rangeSizeSigned = true → lo ≤ hi + 1)
  | _, _ => True

/-- for the code as it is now the fold guard asks nothing about the annotation of the literals of `+ - * /` -/
theorem foldNow_binary (m ma mb : Meta) (op : String) (a b : Int) (h4 : op = "+" ∨ op = "-" ∨ op = "*" ∨ op = "/") :
    FoldOKf Flags.asIs (.binary m op (.int ma a) (.int mb b)) ↔ inRange .int a ∧ inRange .int b ∧ m.kd = ma.kd := by
  have h1 : op ≠ "**" := by rcases h4 with rfl | rfl | rfl | rfl <;> decide
  have h2 : op ≠ "%" := by rcases h4 with rfl | rfl | rfl | rfl <;> decide
  simp [FoldOKf, h1, h2, Flags.asIs]

theorem foldNow_unary (m mi : Meta) (op : String) (i : Int) :
    FoldOKf Flags.asIs (.unary m op (.int mi i)) ↔ inRange .int i ∧ m.kd = mi.kd := by
  simp [FoldOKf, Flags.asIs]

theorem rangeKd_num {kd : RKind} (h : rangeKd kd = true) : ∃ k, kd = .num k ∧ RangeK k ∧ k.isInt = true := by
  cases kd with
  | num k => exact ⟨k, rfl, (rangeKd_iff k).mp h, by cases k <;> first | rfl | (simp [rangeKd] at h)⟩
  | _ => simp [rangeKd] at h

theorem guardNow_imp (fns : ConstFns) (p : Pass) (N : Node) (h : GuardNow c fns p N) :
    GuardOK c Flags.asIs fns p N := by
  cases p with
  | fold => exact h
  | constRange =>
    simp only [GuardOK]
    unfold ConstRangeOK
    split
    · simp only [GuardNow] at h
      intro hop
      obtain ⟨ha, hb, hs⟩ := h hop
      exact ⟨ha, hb, (fun hf => (by cases hf)), hs⟩
    · trivial
  | inArray =>
    simp only [GuardOK]
    unfold InArrayOK
    split
    · rename_i m op l ma xs
      simp only [GuardNow] at h
      obtain ⟨hk, hx⟩ := h
      refine ⟨fun hkd hai => ⟨fun ctx s v t he => ?_, hx hai⟩, fun _ hstr ctx s v t he => ?_⟩
      · exact (hk ctx s v t he).1 .int hkd rfl
      · exact (hk ctx s v t he).2 (hstr rfl)
    · trivial
  | constExpr =>
    simp only [GuardOK]
    unfold ConstExprOK
    split
    · rename_i m name args fast
      simp only [GuardNow] at h
      intro id vs hid hvs
      exact ⟨fun ctx => constArgs_eval Flags.asIs ctx args vs (.inl rfl) hvs, h id hid vs⟩
    · trivial
  | inRange =>
    simp only [GuardOK]
    unfold InRangeOK
    split
    · rename_i m op l mr rop mf a mt b
      simp only [GuardNow] at h
      obtain ⟨ha, hb, hk, hs⟩ := h
      intro _ _
      refine ⟨ha, hb, fun hkd hsl => ?_, hs⟩
      obtain ⟨k, hkk, hrk, hint⟩ := rangeKd_num (hkd rfl)
      intro ctx
      obtain ⟨r, hr⟩ := simpleLeft_pure (c := c) l (hsl rfl) ctx
      refine ⟨r, hr, fun v hv => ?_⟩
      subst hv
      have he : eval c ctx l {} = (.ok v, {}) := by rw [hr]; rfl
      obtain ⟨x, hx⟩ := (hk ctx {} v {} he).1 k hkk hint
      exact ⟨k, x, hx, hrk⟩
    · trivial

/-- **Transparency of the optimizer as it is now**, under the hypotheses listed above: if `g` selects
    rewrite sites at which `GuardNow` holds and the optimizer rewrote nowhere else on `n` (`hrun`), then the
    optimised tree has exactly the result (value or failure class) of `n`, for every environment, world,
    budget and result cast — unless the run of `n` exceeds the memory budget. -/
theorem optimize_transparent_asIs_partial (fns : ConstFns) (g : Guard)
    (hg : ∀ p N, g p N = true → GuardNow c fns p N) (n n' : Node) (hn : reOK n = true)
    (hrun : optimizeWith g Flags.asIs fns c.world n = optimize Flags.asIs fns c.world n)
    (h : optimize Flags.asIs fns c.world n = .ok n') (cast : Option Nat) :
    (Spec.run c cast n).1 = .error .budget ∨ (Spec.run c cast n').1 = (Spec.run c cast n).1 :=
  optimize_transparent_partial Flags.asIs fns g (fun p N hp => guardNow_imp fns p N (hg p N hp)) n n' hn hrun h cast

/-- a non-trivial instance: `I in 1..3` (`I : int` in the environment) is rewritten to `I >= 1 and I <= 3` by the
    code as it is now, and `GuardNow` holds at that site -/
def tNow : Node := .binary (mB 2) "in" (.ident (mI 0) "I" false) (.binary (mA 6) ".." (.int (mI 5) 1) (.int (mI 8) 3))

def tNow' : Node := .binary (mB 2) "and" (.binary {} ">=" (.ident (mI 0) "I" false) (.int (mI 5) 1))
  (.binary {} "<=" (.ident (mI 0) "I" false) (.int (mI 8) 3))

def gNow : Guard := fun p N => match p, N with
  | .inRange, .binary _ "in" (.ident ⟨_, .num .int⟩ "I" false) (.binary _ ".." (.int ⟨_, .num .int⟩ 1) (.int ⟨_, .num .int⟩ 3)) => true
  | _, _ => false

example : ∃ n', optimize Flags.asIs [] w0 tNow = .ok n' ∧ (Spec.run (cfg envEx) none n').1 = .ok (.bool true) := by
  have hg : ∀ p N, gNow p N = true → GuardNow (cfg envEx) [] p N := by
    intro p N h
    unfold gNow at h
    split at h
    · simp only [GuardNow]
      refine ⟨⟨rfl, by decide⟩, ⟨rfl, by decide⟩, ?_, fun h => by cases h⟩
      intro ctx s v t he
      rw [eval] at he
      cases he
      exact ⟨fun k hk _ => ⟨2, by cases hk; rfl⟩, fun hk => by cases hk⟩
    · cases h
  have h0 : optimizeWith gNow Flags.asIs [] w0 tNow = .ok tNow' := rfl
  have h2 : optimize Flags.asIs [] w0 tNow = .ok tNow' := rfl
  have h1 := h0.trans h2.symm
  refine ⟨tNow', h2, ?_⟩
  rcases optimize_transparent_asIs_partial (c := cfg envEx) [] gNow hg tNow tNow' rfl h1 h2 none with hb | he
  · exact absurd hb (by rw [show (Spec.run (cfg envEx) none tNow).1 = .ok (.bool true) from rfl]; intro h; cases h)
  · rw [he]; rfl


/-! ## Transparency for type-checked trees: the annotation hypotheses discharged

`wa n` (`Proofs/OptAnnot.lean`): integer literals are Go ints and the annotation of a unary sign / of `+ - * /` /
of `%` over `int`-annotated operands agrees with its operand — what the type checker establishes
(`check_wellAnnotated`) and every pass preserves (`walk_wa`, `fold_keepsWA`, `inArray_keepsWA`).  With it the
fold sites need no annotation hypothesis any more. -/

/-- what is still asked at a fold site: no `**` (IEEE), literal operands of `%` annotated `int` (the checker
    never retypes those), no literal-array fold (#12) -/
def FoldRest : Node → Prop
  | .binary _ op (.int ma _) (.int mb _) => op ≠ "**" ∧ (op = "%" → plainKd ma.kd = true ∧ plainKd mb.kd = true)
  | .array _ xs => xs.isEmpty = true ∨ (allInts xs = none ∧ allStrs xs = none)
  | _ => True

theorem fold_sound_wa (fl : Flags) (hf : fl.foldPlainOnly = true) (N : Node) (hw : wa N = true) (hr : FoldRest N) (st : St) :
    Sim c (foldRule fl c.world N st).1 N := by
  have hh := wa_here N hw
  have viaF : FoldOKf fl N → Sim c (foldRule fl c.world N st).1 N := fun h => fold_sound_f fl c.world N h st
  unfold FoldRest at hr
  split at hr
  · -- both operands are integer literals
    rename_i m op ma a mb b
    have ha : inRange .int a := by
      simp only [wa, waHere, Bool.and_eq_true, decide_eq_true_eq] at hw; exact hw.1.2
    have hb : inRange .int b := by
      simp only [wa, waHere, Bool.and_eq_true, decide_eq_true_eq] at hw; exact hw.2
    obtain ⟨hpow, hmod⟩ := hr
    by_cases h5 : op = "%"
    · have pm : plainKd m.kd = true := by
        have := hh
        simp [waHere, arith4, h5, (hmod h5).1, (hmod h5).2, Node.kd, Node.getMeta] at this
        exact this
      exact viaF (by
        simp only [FoldOKf]
        exact ⟨hpow, ha, hb, fun _ => ⟨(hmod h5).1, (hmod h5).2, pm⟩, fun h => absurd h5 h⟩)
    · by_cases hp : plainKd ma.kd = true ∧ plainKd mb.kd = true
      · by_cases h4 : arith4 op = true
        · have hk : m.kd = ma.kd := by
            have := hh
            simp [waHere, h4, hp.1, hp.2, Node.kd, Node.getMeta] at this
            exact this.1
          exact viaF (by
            simp only [FoldOKf]
            exact ⟨hpow, ha, hb, fun h => absurd h h5, fun _ => ⟨hk, fun _ => hp⟩⟩)
        · -- no rewrite for this operator
          have h4' : (op == "+" || op == "-" || op == "*" || op == "/") = false := by simpa [arith4] using h4
          have e5 : (op == "%") = false := by simpa using h5
          have e6 : (op == "**") = false := by simpa using hpow
          simp only [foldRule, h4', e5, e6, Bool.false_eq_true, if_false]
          exact sim_refl c _
      · -- a retyped literal: the rule does not fire
        have hp' : (plainKd ma.kd && plainKd mb.kd) = false := by
          cases h1 : plainKd ma.kd <;> cases h2 : plainKd mb.kd <;> simp_all
        have e5 : (op == "%") = false := by simpa using h5
        have e6 : (op == "**") = false := by simpa using hpow
        simp only [foldRule, hf, hp', Bool.not_false, Bool.and_self, if_true, e5, e6, Bool.false_eq_true, if_false]
        split <;> exact sim_refl c _
  · exact viaF (by simpa only [FoldOKf] using hr)
  · -- not two integer literals, not an array: unary sign, strings, or nothing
    rename_i h1 h2
    cases N with
    | unary m op x =>
      cases x with
      | int mi i =>
        have hi : inRange .int i := by
          simp only [wa, waHere, Bool.and_eq_true, decide_eq_true_eq] at hw; exact hw.2
        by_cases hp : plainKd mi.kd = true
        · by_cases ho : (op == "-" || op == "+") = true
          · have hk : m.kd = mi.kd := by
              have := hh
              simp only [waHere, ho, hp, Bool.not_true, Bool.false_or, Node.kd, Node.getMeta] at this
              simpa using this
            exact viaF (by simp only [FoldOKf]; exact ⟨hi, hk, fun _ => hp⟩)
          · have ho' : (op == "-") = false ∧ (op == "+") = false := by
              cases h1 : (op == "-") <;> cases h2 : (op == "+") <;> simp_all
            simp only [foldRule, hf, hp, Bool.not_true, Bool.and_false, Bool.false_eq_true, if_false, ho'.1, ho'.2]
            exact sim_refl c _
        · have hp' : plainKd mi.kd = false := by simpa using hp
          simp only [foldRule, hf, hp', Bool.not_false, Bool.and_self, if_true]
          exact sim_refl c _
      | _ => exact viaF (by simp only [FoldOKf])
    | binary m op l r => exact viaF (by
        unfold FoldOKf
        split
        · rename_i heq; cases heq
        · rename_i heq; cases heq; exact absurd rfl (h1 _ _ _ _ _ _)
        · rename_i heq; cases heq
        · trivial)
    | array m xs => exact absurd rfl (h2 _ _)
    | _ => exact viaF (by simp only [FoldOKf])

/-- the filter `g`, additionally asking fold sites to be well annotated -/
def withWA (g : Guard) : Guard := fun p N => g p N && (p != .fold || wa N)

theorem withWA_other (g : Guard) (p : Pass) (hp : p ≠ .fold) (r : Opt.Rule) : guarded (withWA g) p r = guarded g p r := by
  funext N st
  have : (p != Pass.fold) = true := by simpa using hp
  simp only [guarded, withWA, this, Bool.true_or, Bool.and_true]

/-- on a well-annotated tree the additional filter changes nothing -/
theorem optimizeWith_withWA (fl : Flags) (hf : fl.foldPlainOnly = true) (fns : ConstFns) (w : World) (g : Guard)
    (n : Node) (hw : wa n = true) : optimizeWith (withWA g) fl fns w n = optimizeWith g fl fns w n := by
  unfold optimizeWith
  simp only [withWA_other g .inArray (by decide), withWA_other g .constExpr (by decide),
    withWA_other g .inRange (by decide), withWA_other g .constRange (by decide)]
  have hw1 := (walk_wa fl.walkSliceNode _ (guarded_keepsWA g .inArray _ (inArray_keepsWA fl)) n {} hw).1
  rw [repeatPass_agree fl.walkSliceNode (guarded (withWA g) .fold (foldRule fl w)) (guarded g .fold (foldRule fl w))
    (guarded_keepsWA g .fold _ (fold_keepsWA fl w hf))
    (fun N st hN => by simp only [guarded, withWA, hN, Bool.or_true, Bool.and_true]) foldWalks _ hw1]

/-- **Transparency of the optimizer as it is now, for well-annotated (type-checked) trees.**
    Hypotheses that remain, at the sites where a rewrite fires (`g`, `hrun`):
    `KindSound` of the left operand of `in` (the checker's soundness, C03), Go-int bounds of literal ranges,
    ConstExpr functions taken from the environment (`GuardNow`, passes other than
    fold); at fold sites only `FoldRest`: no `**`, no literal-array fold (#12), `%` on `int`-annotated literals.
    The conclusion excuses exactly a budget error of the original run (#13). -/
theorem optimize_transparent_checked_partial (fns : ConstFns) (g : Guard)
    (hg : ∀ p N, p ≠ .fold → g p N = true → GuardNow c fns p N)
    (hgf : ∀ N, g .fold N = true → FoldRest N)
    (n n' : Node) (hn : reOK n = true) (hw : wa n = true)
    (hrun : optimizeWith g Flags.asIs fns c.world n = optimize Flags.asIs fns c.world n)
    (h : optimize Flags.asIs fns c.world n = .ok n') (cast : Option Nat) :
    (Spec.run c cast n).1 = .error .budget ∨ (Spec.run c cast n').1 = (Spec.run c cast n).1 := by
  have hopt : optimizeWith (withWA g) Flags.asIs fns c.world n = .ok n' :=
    (optimizeWith_withWA Flags.asIs rfl fns c.world g n hw).trans (hrun.trans h)
  have hG : ∀ p N, p ≠ .fold → withWA g p N = true → GuardOK c Flags.asIs fns p N := by
    intro p N hp hN
    have : g p N = true := by simp only [withWA, Bool.and_eq_true] at hN; exact hN.1
    exact guardNow_imp fns p N (hg p N hp this)
  have hs : Sim c n' n := optimizeWith_sim_core Flags.asIs fns (withWA g)
    (fun N st hN => inArray_sound _ N (hG .inArray N (by decide) hN) st)
    (fun N st hN => by
      simp only [withWA, Bool.and_eq_true, bne_self_eq_false, Bool.false_or] at hN
      exact fold_sound_wa Flags.asIs rfl N hN.2 (hgf N hN.1) st)
    (fun N st hN => constExpr_sound _ fns N (hG .constExpr N (by decide) hN) st)
    (fun N st hN => inRange_sound _ N (hG .inRange N (by decide) hN) st)
    (fun N st hN => constRange_sound _ N (hG .constRange N (by decide) hN) st) n n' hn hopt
  have h0 := hs.ev [] {} {} (Int.le_refl _)
  simp only [Spec.run]
  rcases hu : eval c [] n {} with ⟨r, t⟩
  rcases ho : eval c [] n' {} with ⟨r', t'⟩
  rw [hu, ho] at h0
  rcases h0 with h0 | ⟨h0, _⟩
  · simp only at h0; subst h0; exact .inl rfl
  · simp only at h0; subst h0
    right
    cases r' with
    | error e => rfl
    | ok v => cases cast <;> rfl

/-! ## The bridge to the type checker (C03 ↔ C02) -/

/-- a tree fresh from the parser (no annotations, integer literals are Go ints) is well annotated -/
theorem parser_tree_wellAnnotated (n : Node) (h : CheckerAnnot.fresh n = true) : wa n = true :=
  CheckerAnnot.fresh_wa n h

/-- **`checker.Check` establishes the annotation discipline the optimizer relies on** (for the checker as it
    is since 6162013: literals are retyped for numeric parameters only): the tree it returns for a
    well-annotated input — a parser tree, or the result of a previous check, as in `expr.Compile`, which checks
    twice — is well annotated. -/
theorem check_wellAnnotated (cfg : CheckCfg) (hd : cfg.dt.retypeAnyParam = false) (n n' : Node) (t : OTy)
    (hw : wa n = true) (h : check cfg n = .ok n' t) : wa n' = true :=
  CheckerAnnot.check_wellAnnotated cfg hd n n' t hw h

/-- the checker of /repo as it is satisfies the side condition -/
example : TDefects.asIs.retypeAnyParam = false := rfl

/-- **parse → check → check → optimize**: for a parser tree that the checker accepts (twice, as `expr.Compile`
    does), the optimised tree has exactly the result of the checked tree unless the latter exceeds the budget —
    under the hypotheses of `optimize_transparent_checked_partial` that are not about annotations. -/
theorem compile_pipeline_transparent_partial (cfg : CheckCfg) (hd : cfg.dt.retypeAnyParam = false)
    (fns : ConstFns) (g : Guard) (src n1 n2 n' : Node) (t1 t2 : OTy)
    (hsrc : CheckerAnnot.fresh src = true)
    (hc1 : check cfg src = .ok n1 t1) (hc2 : check cfg n1 = .ok n2 t2)
    (hg : ∀ p N, p ≠ .fold → g p N = true → GuardNow c fns p N)
    (hgf : ∀ N, g .fold N = true → FoldRest N)
    (hn : reOK n2 = true)
    (hrun : optimizeWith g Flags.asIs fns c.world n2 = optimize Flags.asIs fns c.world n2)
    (h : optimize Flags.asIs fns c.world n2 = .ok n') (cast : Option Nat) :
    (Spec.run c cast n2).1 = .error .budget ∨ (Spec.run c cast n').1 = (Spec.run c cast n2).1 :=
  optimize_transparent_checked_partial fns g hg hgf n2 n' hn
    (check_wellAnnotated cfg hd n1 n2 t2 (check_wellAnnotated cfg hd src n1 t1 (parser_tree_wellAnnotated src hsrc) hc1) hc2)
    hrun h cast

end ExprModel.C02
