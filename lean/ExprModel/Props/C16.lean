import ExprModel.Types.SrcDefects
import ExprModel.Proofs.NameRes
/-
C16 — Names the checker accepts are exactly those the VM resolves.

Model: `Types/Table.lean` (conf.CreateTypesTable / FieldsFromStruct, checker fieldType / methodType,
vm fetch / FetchFn at the level of types, docgen's variable set; Spec of Go's selector rule =
`reflField`, `goSelect`, `methodSet`).  The tie (harness/c16.go) compares every one of these functions
with the real code and with `reflect` itself on the type zoo, under `NDefects.asIs` = the flags of
/repo's current HEAD.

History: at the pinned snapshot (`NDefects.asWas`) the code violated the property in several independent
ways; they were repaired in /repo by the `fix:` commits 08b47a6, 56f80b7, 64cd2bb, 2d52c5a, 38357c9, and
`NDefects.asIs` now has every flag repaired.  The full statements below are theorems about `asIs`.  The
statements about `asWas` are kept as documentation of what was wrong and why: `…_witness` (the concrete
failing inputs), `…_asWas_false` (the full statement failed), `…_partial` (what held nevertheless, in
particular: the order-dependent merge loop never recorded a wrong type).

Helper lemmas: `Proofs/TableOrder.lean` (iteration order), `Proofs/Select.lean` (selector Spec),
`Proofs/RawSound.lean` (soundness of the merge loop's non-ambiguous entries), `Proofs/NameRes.lean`.
-/
namespace ExprModel.C16
open ExprModel Table

/-- **The types table does not depend on Go's map iteration order**: whatever order the merge loop
`for name, typ := range FieldsFromStruct(f.Type)` happens to use at each level, the table holds the
same entry for every name. -/
theorem fieldsFrom_perm_invariant (d : NDefects) (σ σ' : Table → Table) (hσ : IsOrder σ)
    (hσ' : IsOrder σ') (t : Ty) (name : String) :
    (fieldsFromStruct d σ t).get? name = (fieldsFromStruct d σ' t).get? name := by
  rw [fieldsFromStruct_get? d σ hσ, fieldsFromStruct_get? d σ' hσ']

theorem createTypesTable_perm_invariant (d : NDefects) (σ σ' : Table → Table) (hσ : IsOrder σ)
    (hσ' : IsOrder σ') (e : Env) (name : String) :
    (createTypesTable d σ e).map (fun t => t.get? name) =
      (createTypesTable d σ' e).map (fun t => t.get? name) := by
  unfold createTypesTable
  cases e.ty with
  | none => rfl
  | some t =>
    simp only []
    cases t.derefOnce.kind <;> simp only [Option.map_some]
    rw [addMethods_get?, addMethods_get?, fieldsFrom_perm_invariant d σ σ' hσ hσ']

example : IsOrder id ∧ IsOrder List.reverse := ⟨isOrder_id, isOrder_reverse⟩

/-- **Accepted ⇒ resolvable, with the assumed type (identifiers, struct environments).**
If the checker accepts `name` as an identifier with type `τ`, then fetching it at run time from a fully
populated environment value succeeds and the slot fetched has static type `τ`. -/
theorem accepted_resolves {e : Env} {t dd : Ty} (h : StructEnv e t dd) (σ : Table → Table)
    (hσ : IsOrder σ) {tbl : Table} (ht : createTypesTable .asIs σ e = some tbl)
    (n : String) (τ : Option Ty) (hacc : identType .asIs tbl n = .ok τ) :
    fetchEnv .asIs e n = some τ := by
  obtain ⟨g, hg, ha, hm, hτ⟩ := identType_ok hacc
  rw [h.entry .asIs σ hσ ht] at hg
  have hmeth : g.method = false := by simpa [NDefects.asIs] using hm
  cases hf : (methodSet t).find? (fun e => e.1 = n) with
  | some m =>
    obtain ⟨g', hg', hm', _⟩ := methodsAt_of_some (methodSet t) n (fieldsAt .asIs dd n) (by rw [hf]; rfl)
    rw [hg] at hg'; cases hg'
    rw [hm'] at hmeth; cases hmeth
  | none =>
    rw [methodsAt_of_none _ _ _ hf] at hg
    obtain ⟨f, hr, hx, hgf⟩ := fieldsAt_repaired_some h.deref hg ha
    rw [h.fetchEnv, hr]
    simp only [hx, if_true]
    rw [← hτ, hgf]

/-- **Resolvable ⇒ accepted (struct environments).**  Every exported field that `reflect` (Go's selector
rule) resolves unambiguously, at whatever depth, and that is not hidden by a method of the environment,
is accepted as an identifier with exactly the field's type. -/
theorem resolves_accepted {e : Env} {t dd : Ty} (h : StructEnv e t dd) (σ : Table → Table)
    (hσ : IsOrder σ) {tbl : Table} (ht : createTypesTable .asIs σ e = some tbl)
    (n : String) (f : Field) (hr : reflField dd n = .found f) (hx : f.exported = true)
    (hnm : methodByName t n = none) :
    identType .asIs tbl n = .ok (some f.ty) := by
  have hentry := h.entry .asIs σ hσ ht n
  have hfind : (methodSet t).find? (fun e => e.1 = n) = none := by
    rw [methodByName_eq] at hnm
    cases hf : (methodSet t).find? (fun e => e.1 = n) with
    | none => rfl
    | some _ => rw [hf] at hnm; cases hnm
  rw [methodsAt_of_none _ _ _ hfind] at hentry
  obtain ⟨k, hk, hn⟩ := reflField_found_mem hr
  have hraw := rawAt_isSome_of_level .asIs n k dd (dd.depth + 1) h.hwf
    (Ty.isPtr_false_of_kind_struct h.hkind) (by have := level_lt_depth hk; omega) f hk
    (by simp [accepts, hx]) hn
  have : fieldsAt .asIs dd n = some { ty := some f.ty } := by
    rw [fieldsAt_repaired, if_pos hraw, h.deref, resolvedTag_repaired, hr]
    simp [hx]
  rw [this] at hentry
  unfold identType
  rw [hentry]
  rfl

/-- … and every method of the method set (`reflect`: promoted through embedded structs, pointer
receivers only when addressable) is accepted as a function name. -/
theorem resolves_accepted_method {e : Env} {t dd : Ty} (h : StructEnv e t dd) (σ : Table → Table)
    (hσ : IsOrder σ) {tbl : Table} (ht : createTypesTable .asIs σ e = some tbl)
    (n : String) (hm : (methodByName t n).isSome) :
    ∃ g, tbl.get? n = some g ∧ g.method = true ∧ g.ambiguous = false :=
  method_entry h .asIs σ hσ ht n hm

/-- **The model variant is the code's**: the five switches regenerated from /repo's current source
(Gen/NameFetch.lean through `Types/SrcDefects.lean`: pointer stripping in `fetch`; interface unwrapping and
`derefFn` in `FetchFn`; the method guard of `IdentifierNode`) are those of `NDefects.asIs`, the flags the
theorems of this file are about and the correspondence (driver variant `asis` = `srcNDefects`) runs with. -/
theorem src_flags_agree : srcNDefects = NDefects.asIs := by decide

/-- **Accepted ⇒ resolvable, with the assumed type (identifiers, map environments)** —
`map[string]interface{}` and typed maps `map[K]V` with a string key type, passed by value: if the checker
accepts `name` as an identifier with type `τ` (the dynamic type of the value the map holds under that
key), fetching it at run time succeeds and yields a slot of that type. -/
theorem accepted_resolves_map {e : Env} {t k v : Ty} (h : MapEnv e t k v) (σ : Table → Table)
    {tbl : Table} (ht : createTypesTable .asIs σ e = some tbl)
    (n : String) (τ : Option Ty) (hacc : identType .asIs tbl n = .ok τ) :
    fetchEnv .asIs e n = some τ := by
  obtain ⟨g, hg, _, hm, hτ⟩ := identType_ok hacc
  have hmeth : g.method = false := by simpa [NDefects.asIs] using hm
  have hnp : t.isPtr = false := by simp [Ty.isPtr, h.hcore]
  have hkind : t.kind = .map := by simp [Ty.kind, h.hcore]
  have hdo : t.derefOnce = t := by
    unfold Ty.derefOnce
    rw [h.hcore]
  -- the table: the map's entries, then the methods
  unfold createTypesTable at ht
  rw [h.hty] at ht
  simp only [hdo, hkind] at ht
  cases ht
  rw [addMethods_get?] at hg
  cases hf : (methodSet t).find? (fun e => e.1 = n) with
  | some m =>
    obtain ⟨g', hg', hm', _⟩ := methodsAt_of_some (methodSet t) n
      (Table.get? (e.entries.foldl (fun (acc : Table) kv => Table.set acc kv.1 { ty := kv.2 }) ([] : Table)) n) (by rw [hf]; rfl)
    rw [hg] at hg'; cases hg'
    rw [hm'] at hmeth; cases hmeth
  | none =>
    rw [methodsAt_of_none _ _ _ hf, entries_get? e.entries h.hnodup n []] at hg
    cases hfe : e.entries.find? (fun kv => kv.1 = n) with
    | none => rw [hfe] at hg; cases hg
    | some kv =>
      rw [hfe] at hg
      simp only [Option.some.injEq] at hg
      have hkv : kv.2 = τ := by rw [← hτ, ← hg]
      unfold ExprModel.fetchEnv
      rw [h.hty]
      simp only []
      split
      · simp only [hfe, hkv]
      · rw [fetchBase_repaired, Ty.deref_of_not_isPtr hnp, h.hcore]
        simp only [h.hkey, if_true, hfe, hkv]

-- the hypothesis is satisfiable: a `map[string]interface{}` and a typed map `map[string]int`
example : MapEnv { ty := some (.map .string interfaceType), entries := [("a", some (.num .int)), ("s", some .string)] }
    (.map .string interfaceType) .string interfaceType ∧
    MapEnv { ty := some (.map .string (.num .int)), entries := [("a", some (.num .int))] }
    (.map .string (.num .int)) .string (.num .int) :=
  ⟨⟨rfl, rfl, by decide +kernel, by decide⟩, ⟨rfl, rfl, by decide +kernel, by decide⟩⟩

/-- **Accepted ⇒ callable (function names, struct environments).**  If the checker accepts `name(…)`
(the table holds a callable entry) then `FetchFn` finds something `reflect` can call: the method, or the
exported field holding a function — directly, behind pointers (`*func`, since 547c103), in an interface, or in
an interface behind pointers (`*interface{}`, since 72281b1). -/
theorem accepted_call_resolves {e : Env} {t dd : Ty} (h : StructEnv e t dd) (σ : Table → Table)
    (hσ : IsOrder σ) {tbl : Table} (ht : createTypesTable .asIs σ e = some tbl)
    (n : String) (fn : Ty) (m : Bool) (hacc : funcTarget tbl n = some (fn, m)) :
    ∃ ft, fetchFnTy .asIs t e.entries n = some (ft, m) := by
  unfold funcTarget at hacc
  cases hg : tbl.get? n with
  | none => rw [hg] at hacc; cases hacc
  | some g =>
    rw [hg] at hacc
    simp only [Option.map_eq_some_iff] at hacc
    obtain ⟨fn', hfn, heq⟩ := hacc
    cases heq
    have hentry := h.entry .asIs σ hσ ht n
    rw [hg] at hentry
    unfold fetchFnTy
    rw [methodByName_eq]
    cases hf : (methodSet t).find? (fun e => e.1 = n) with
    | some mm =>
      obtain ⟨g', hg', hm', _⟩ := methodsAt_of_some (methodSet t) n (fieldsAt .asIs dd n) (by rw [hf]; rfl)
      rw [← hentry] at hg'; cases hg'
      exact ⟨mm.2, by simp [hm']⟩
    | none =>
      rw [methodsAt_of_none _ _ _ hf] at hentry
      cases hamb : g.ambiguous with
      | true =>
        -- an ambiguous tag has no type: not callable
        exfalso
        rw [fieldsAt_repaired] at hentry
        split at hentry
        · rw [h.deref, resolvedTag_repaired] at hentry
          cases hr : reflField dd n with
          | notFound => rw [hr] at hentry; cases hentry
          | ambiguous => rw [hr] at hentry; cases hentry; simp [isFuncType] at hfn
          | found f =>
            rw [hr] at hentry
            by_cases hx : f.exported = true
            · simp [hx] at hentry; rw [hentry] at hamb; cases hamb
            · simp [hx] at hentry
        · cases hentry
      | false =>
        obtain ⟨f, hr, hx, hgf⟩ := fieldsAt_repaired_some h.deref hentry.symm hamb
        have hgty : g.ty = some f.ty := by rw [hgf]
        rw [hgty] at hfn
        have hmf : g.method = false := by rw [hgf]
        obtain ⟨fs, hc⟩ := Ty.kind_struct_iff.1 h.hkind
        simp only [Option.map_none, ← h.hdd, hc, hr, hx, hmf]
        rcases isFuncType_some_deref hfn with hk | hk
        · -- a function, possibly behind pointers
          by_cases hk0 : f.ty.kind = .func
          · exact ⟨f.ty, by simp [hk0]⟩
          · exact ⟨f.ty, by simp [hk0, hk, NDefects.asIs]⟩
        · -- an interface, possibly behind pointers
          by_cases hk0 : f.ty.kind = .func
          · exact ⟨f.ty, by simp [hk0]⟩
          · exact ⟨f.ty, by simp [hk0, hk, NDefects.asIs]⟩

/-- **The checker's member type is Go's**: on a struct (through any number of pointers) the asIs
`fieldType` accepts exactly the exported fields `reflect.FieldByName` resolves, with their types. -/
theorem fieldType_agrees_with_go (k : Nat) (t : Ty) (n : String) (τ : Ty)
    (hs : t.deref.kind = .struct) :
    fieldType .asIs (k + 1) t n = some τ ↔
      ∃ f, reflField t.deref n = .found f ∧ f.exported = true ∧ f.ty = τ := by
  rw [fieldType_repaired_succ, hs]
  simp only []
  cases hr : reflField t.deref n with
  | notFound => simp
  | ambiguous => simp
  | found f =>
    by_cases hx : f.exported = true
    · simp [hx]
    · simp [hx]

/-- **Accepted member ⇒ fetchable with the assumed type**, for every receiver whose static type is not an
interface (an interface-typed receiver carries no static claim: every name is accepted). -/
theorem member_accepted_resolves (k : Nat) (t : Ty) (n : String) (τ : Ty)
    (hacc : fieldType .asIs (k + 1) t n = some τ) (hstatic : t.deref.kind ≠ .iface) :
    fetchTy .asIs t n = some τ := by
  rw [fieldType_repaired_succ] at hacc
  unfold fetchTy
  simp only [fetchBase_repaired]
  cases hk : t.deref.kind <;> rw [hk] at hacc <;> simp only [] at hacc <;> try (cases hacc)
  · exact absurd hk hstatic
  · -- map
    obtain ⟨kt, vt, hc⟩ := Ty.kind_map_iff.1 hk
    simp only [hc]
    simp only [Ty.mapKey?, Ty.elem?, hc, Option.map_some, Option.getD_some] at hacc
    by_cases hok : stringKeyOk .asIs kt = true
    · simpa [hok] using hacc
    · simp [hok] at hacc
  · -- struct
    obtain ⟨fs, hc⟩ := Ty.kind_struct_iff.1 hk
    simp only [hc]
    cases hr : reflField t.deref n with
    | notFound => rw [hr] at hacc; cases hacc
    | ambiguous => rw [hr] at hacc; cases hacc
    | found f =>
      rw [hr] at hacc
      simp only [] at hacc ⊢
      exact hacc

/-- **Accepted method ⇒ callable** (receiver a struct or a pointer to one): what the asIs
`methodType` accepts — a method of the receiver's method set, or an exported field that `reflect`
resolves and that holds a function, directly or behind pointers — is what `FetchFn` finds. -/
theorem method_accepted_resolves (k : Nat) (t : Ty) (n : String) (fn : Ty) (m : Bool)
    (hacc : methodType .asIs (k + 1) t n = some (fn, m))
    (hs : t.derefOnce.kind = .struct) (hni : t.kind ≠ .iface) (hfn : fn.deref.kind = .func) :
    fetchFnTy .asIs t [] n = some (fn, m) := by
  unfold methodType at hacc
  unfold fetchFnTy
  cases hm : methodByName t n with
  | some mt =>
    rw [hm] at hacc
    simp only [Option.some.injEq, Prod.mk.injEq] at hacc
    obtain ⟨h1, h2⟩ := hacc
    have : m = true := by rw [← h2]; simpa using hni
    simp [h1, this]
  | none =>
    rw [hm] at hacc
    simp only [hs, NDefects.asIs] at hacc
    obtain ⟨fs, hc⟩ := Ty.kind_struct_iff.1 hs
    simp only [hc]
    cases hr : reflField t.derefOnce n with
    | notFound => rw [hr] at hacc; simp at hacc
    | ambiguous => rw [hr] at hacc; simp at hacc
    | found f =>
      rw [hr] at hacc
      by_cases hx : f.exported = true
      · simp [hx] at hacc
        obtain ⟨h1, h2⟩ := hacc
        subst h1; subst h2
        by_cases hk0 : f.ty.kind = .func
        · simp [hx, hk0]
        · simp [hx, hk0, hfn, NDefects.asIs]
      · simp [hx] at hacc

/-- **`docgen.CreateDoc` lists exactly the accepted top-level names** (plus the four word operators and
the builtins). Holds for the code as it is and for the asIs code. -/
theorem doc_lists_accepted (d : NDefects) (tbl : Table) (hn : NodupKeys tbl) (n : String) :
    n ∈ docVars (some tbl) ↔ acceptedTop d tbl n ∨ n ∈ docOperators ∨ n ∈ docBuiltins := by
  rw [acceptedTop_iff]
  unfold docVars
  simp only [Option.getD_some, List.mem_append, List.mem_map, List.mem_filter, or_assoc]
  apply or_congr_left
  constructor
  · rintro ⟨⟨k, g⟩, ⟨hm, ha⟩, rfl⟩
    exact ⟨g, (Table.get?_eq_some_iff_mem hn k g).2 hm, by simpa using ha⟩
  · rintro ⟨g, hg, ha⟩
    exact ⟨(n, g), ⟨(Table.get?_eq_some_iff_mem hn n g).1 hg, by simp [ha]⟩, rfl⟩

/-! ## the code as it was at the snapshot (`NDefects.asWas`) -/

/-- **Accepted ⇒ resolvable, at the snapshot** — for every name that is not a method of the
environment (excludes `c16:method-accepted-as-identifier`, `c16:method-shadows-promoted-field`) and whose
field is exported (excludes `c16:unexported-field-accepted`).  In particular the merge loop of
`FieldsFromStruct`, although order dependent, never records a wrong type: a non-ambiguous entry is always
the field Go's depth rule selects. -/
theorem accepted_resolves_partial {e : Env} {t dd : Ty} (h : StructEnv e t dd) (hnames : NamesWF dd)
    (σ : Table → Table) (hσ : IsOrder σ) {tbl : Table} (ht : createTypesTable .asWas σ e = some tbl)
    (n : String) (τ : Option Ty) (hacc : identType .asWas tbl n = .ok τ)
    (hnomethod : methodByName t n = none)
    (hexported : ∀ f, reflField dd n = .found f → f.exported = true) :
    fetchEnv .asWas e n = some τ := by
  obtain ⟨g, hg, ha, _, hτ⟩ := identType_ok hacc
  rw [h.entry .asWas σ hσ ht] at hg
  have hfind : (methodSet t).find? (fun e => e.1 = n) = none := by
    rw [methodByName_eq] at hnomethod
    cases hf : (methodSet t).find? (fun e => e.1 = n) with
    | none => rfl
    | some _ => rw [hf] at hnomethod; cases hnomethod
  rw [methodsAt_of_none _ _ _ hfind] at hg
  have hraw : rawAt .asWas (dd.depth + 1) dd n = some g := hg
  obtain ⟨f, hr, hgf⟩ := rawAt_sound_reflField .asWas n dd g h.hwf hnames
    (Ty.isPtr_false_of_kind_struct h.hkind) (allAccepted_asIs dd n) hraw ha
  rw [h.fetchEnv, hr]
  simp only [hexported f hr, if_true]
  rw [← hτ, hgf]

/-- **Resolvable ⇒ accepted, at the snapshot** — whenever the table does not (spuriously) mark
the name ambiguous (excludes `c16:outer-field-shadowing-embedded-marked-ambiguous`,
`c16:shallower-embedded-field-marked-ambiguous`). -/
theorem resolves_accepted_partial {e : Env} {t dd : Ty} (h : StructEnv e t dd) (hnames : NamesWF dd)
    (σ : Table → Table) (hσ : IsOrder σ) {tbl : Table} (ht : createTypesTable .asWas σ e = some tbl)
    (n : String) (f : Field) (hr : reflField dd n = .found f)
    (hnm : methodByName t n = none)
    (hnotamb : ∀ g, tbl.get? n = some g → g.ambiguous = false) :
    identType .asWas tbl n = .ok (some f.ty) := by
  have hentry := h.entry .asWas σ hσ ht n
  have hfind : (methodSet t).find? (fun e => e.1 = n) = none := by
    rw [methodByName_eq] at hnm
    cases hf : (methodSet t).find? (fun e => e.1 = n) with
    | none => rfl
    | some _ => rw [hf] at hnm; cases hnm
  rw [methodsAt_of_none _ _ _ hfind] at hentry
  obtain ⟨k, hk, hn⟩ := reflField_found_mem hr
  have hraw := rawAt_isSome_of_level .asWas n k dd (dd.depth + 1) h.hwf
    (Ty.isPtr_false_of_kind_struct h.hkind) (by have := level_lt_depth hk; omega) f hk rfl hn
  cases hg : rawAt .asWas (dd.depth + 1) dd n with
  | none => rw [hg] at hraw; cases hraw
  | some g =>
    have hget : tbl.get? n = some g := by rw [hentry]; exact hg
    have ha := hnotamb g hget
    obtain ⟨f', hr', hgf⟩ := rawAt_sound_reflField .asWas n dd g h.hwf hnames
      (Ty.isPtr_false_of_kind_struct h.hkind) (allAccepted_asIs dd n) hg ha
    rw [hr] at hr'; cases hr'
    unfold identType
    rw [hget, hgf]
    rfl

/-- **Members, at the snapshot**: on a struct without embedded fields the depth-first
`fieldType` is Go's rule (excludes `c16:member-type-depth-first-differs-from-go`,
`c16:ambiguous-member-accepted`), reached the way `fetch` reaches it, i.e. through at most one pointer
(`hderef`, excludes `c16:member-through-pointer-not-fetchable`), for exported fields. -/
theorem member_accepted_resolves_partial (k : Nat) (t : Ty) (n : String) (τ : Ty)
    (hacc : fieldType .asWas (k + 1) t n = some τ)
    (hderef : t.fetchBase .asWas = t.deref) (hs : t.deref.kind = .struct)
    (hnoemb : t.deref.embedded = []) (hnames : (t.deref.fields.map Field.name).Nodup)
    (hexported : ∀ f ∈ t.deref.fields, f.name = n → f.exported = true) :
    fetchTy .asWas t n = some τ := by
  unfold fieldType at hacc
  simp only [NDefects.asWas, if_true, hs, Bool.true_or, Bool.and_true] at hacc
  have hemb : List.filter (fun x => x.anon) t.deref.fields = [] := hnoemb
  rw [hemb] at hacc
  cases hfind : t.deref.fields.find? (fun f => decide (f.name = n)) with
  | none => rw [hfind] at hacc; simp [firstSome] at hacc
  | some f =>
    rw [hfind] at hacc
    simp only [Option.some.injEq] at hacc
    have hmem := List.mem_of_find?_eq_some hfind
    have hname : f.name = n := by simpa using List.find?_some hfind
    have hocc : occAt 0 t.deref n = [f] := by
      rw [occAt_zero]; exact filter_name_eq_singleton n _ f hnames hmem hname
    have hr : reflField t.deref n = .found f :=
      (reflField_found_iff _ n f).2 ⟨0, fun j hj => absurd hj (Nat.not_lt_zero j), hocc⟩
    obtain ⟨fs, hc⟩ := Ty.kind_struct_iff.1 hs
    unfold fetchTy
    simp only [hderef, hc, hr, hexported f hmem hname, if_true]
    rw [hacc]

/-! ## witnesses: the concrete failing inputs on the model of the snapshot (`asWas`), and their repair (`asIs`)

Each mirrors a type of the harness zoo (`harness/zoo.go`); the harness reproduces the same verdicts on
the real library and reports them under the key quoted. -/

deriving instance DecidableEq for Except

def tInt : Ty := .num .int
def tFloat : Ty := .num .float64
def fld (n : String) (t : Ty) : Field := .mk n t false true
def emb (n : String) (t : Ty) : Field := .mk n t true true
def priv (n : String) (t : Ty) : Field := .mk n t false false
def envOf (t : Ty) : Env := { ty := some t }
def tableOf (d : NDefects) (t : Ty) : Table := (createTypesTable d id (envOf t)).getD []

def ZA : Ty := .named "main.ZA" [] (.struct [fld "X" tInt, fld "Y" .string])
def ZB : Ty := .named "main.ZB" [] (.struct [fld "X" tFloat, fld "Z" .bool])
def ZDeep : Ty := .named "main.ZDeep" [] (.struct [fld "X" .string, fld "W" tInt])
def ZMid : Ty := .named "main.ZMid" [] (.struct [emb "ZDeep" ZDeep, fld "V" tInt])
/-- `type EnvShadowBefore struct { X int; ZA }` -/
def EnvShadowBefore : Ty := .named "main.EnvShadowBefore" [] (.struct [fld "X" tInt, emb "ZA" ZA])
/-- `type EnvShadowAfter struct { ZA; X int }` -/
def EnvShadowAfter : Ty := .named "main.EnvShadowAfter" [] (.struct [emb "ZA" ZA, fld "X" tInt])
/-- `type EnvDepth struct { ZMid; ZB }`: `X` at depth 1 (ZB) and depth 2 (ZMid.ZDeep) -/
def EnvDepth : Ty := .named "main.EnvDepth" [] (.struct [emb "ZMid" ZMid, emb "ZB" ZB])
/-- `type EnvAmbig struct { ZA; ZB }`: `X` genuinely ambiguous -/
def EnvAmbig : Ty := .named "main.EnvAmbig" [] (.struct [emb "ZA" ZA, emb "ZB" ZB])
/-- `type EnvUnexported struct { priv int; Pub string }` -/
def EnvUnexported : Ty := .named "main.EnvUnexported" [] (.struct [priv "priv" tInt, fld "Pub" .string])
def sigAdd : Ty := .func [tInt, tInt] false [tInt]
/-- `type EnvMeth struct { Base int }` with `func (EnvMeth) Add(a, b int) int` -/
def EnvMeth : Ty := .named "main.EnvMeth" [.mk "Add" sigAdd false] (.struct [fld "Base" tInt])
def fnIntInt : Ty := .func [tInt] false [tInt]
/-- `type EnvFuncs struct { F func(int) int; IFn interface{} }` -/
def EnvFuncs : Ty := .named "main.EnvFuncs" [] (.struct [fld "F" fnIntInt, fld "IFn" interfaceType])
def ZMyStr : Ty := .named "main.ZMyStr" [] .string
def EnvNested : Ty := .named "main.EnvNested" []
  (.struct [fld "A" EnvDepth, fld "B" EnvAmbig, fld "PP" (.ptr (.ptr ZA)), fld "MI" (.map tInt .string)])

/-- `c16:outer-field-shadowing-embedded-marked-ambiguous`: with `struct { X int; ZA }` (ZA has a field X)
the checker says "ambiguous identifier X", although Go resolves the outer `X` and the VM fetches it;
declared the other way round (`struct { ZA; X int }`) the same name is accepted. -/
theorem outer_field_shadowing_witness :
    identType .asWas (tableOf .asWas EnvShadowBefore) "X" = .error .ambiguous ∧
    reflField EnvShadowBefore "X" = .found (fld "X" tInt) ∧
    fetchEnv .asWas (envOf EnvShadowBefore) "X" = some (some tInt) ∧
    identType .asWas (tableOf .asWas EnvShadowAfter) "X" = .ok (some tInt) ∧
    identType .asIs (tableOf .asIs EnvShadowBefore) "X" = .ok (some tInt) := by
  decide +kernel

/-- `c16:shallower-embedded-field-marked-ambiguous`: `struct { ZMid; ZB }` — Go selects `ZB.X`
(depth 1) over `ZMid.ZDeep.X` (depth 2); the table marks `X` ambiguous. -/
theorem shallower_field_witness :
    identType .asWas (tableOf .asWas EnvDepth) "X" = .error .ambiguous ∧
    reflField EnvDepth "X" = .found (fld "X" tFloat) ∧
    identType .asIs (tableOf .asIs EnvDepth) "X" = .ok (some tFloat) := by
  decide +kernel

/-- `c16:unexported-field-accepted`: the unexported field is accepted by the checker and not
fetchable at run time (`CanInterface` is false). -/
theorem unexported_field_witness :
    identType .asWas (tableOf .asWas EnvUnexported) "priv" = .ok (some tInt) ∧
    fetchEnv .asWas (envOf EnvUnexported) "priv" = none ∧
    identType .asIs (tableOf .asIs EnvUnexported) "priv" = .error .unknown := by
  decide +kernel

/-- `c16:method-accepted-as-identifier`: a method of the environment is accepted as a plain identifier
(type `func(EnvMeth, int, int) int`), but `fetch` only looks for fields. -/
theorem method_as_value_witness :
    identType .asWas (tableOf .asWas EnvMeth) "Add" = .ok (some (.func [EnvMeth, tInt, tInt] false [tInt])) ∧
    fetchEnv .asWas (envOf EnvMeth) "Add" = none ∧
    identType .asIs (tableOf .asIs EnvMeth) "Add" = .error .methodValue ∧
    (fetchFnTy .asIs EnvMeth [] "Add").isSome = true := by
  decide +kernel

/-- `c16:func-in-interface-field-not-callable`: `IFn()` with `IFn interface{}` is accepted as a call
(`isFuncType` admits interfaces) but `FetchFn` hands the interface-kinded field to `reflect.Call`. -/
theorem iface_field_call_witness :
    funcTarget (tableOf .asWas EnvFuncs) "IFn" = some (interfaceType, false) ∧
    fetchFnTy .asWas EnvFuncs [] "IFn" = none ∧
    fetchFnTy .asIs EnvFuncs [] "IFn" = some (interfaceType, false) ∧
    fetchFnTy .asWas EnvFuncs [] "F" = some (fnIntInt, false) := by
  decide +kernel

/-- `type EnvPtrFn struct { PF *func(int) int; PIFn *interface{} }` -/
def EnvPtrFn : Ty := .named "main.EnvPtrFn" [] (.struct [fld "PF" (.ptr fnIntInt), fld "PIFn" (.ptr interfaceType)])

/-- `c16:accepted-not-resolvable:pointer-to-func` (fixed by 547c103): `PF(1)` with `PF *func(int) int` is
accepted (`isFuncType` dereferences) but `FetchFn` handed the pointer to `reflect.Call`; also for a map
environment holding `&f`. -/
theorem ptr_func_witness :
    funcTarget (tableOf .asWas EnvPtrFn) "PF" = some (fnIntInt, false) ∧
    fetchFnTy .asWas EnvPtrFn [] "PF" = none ∧
    fetchFnTy .asIs EnvPtrFn [] "PF" = some (.ptr fnIntInt, false) ∧
    (let e : Env := { ty := some (.map .string interfaceType), entries := [("pf", some (.ptr fnIntInt))] }
     funcTarget ((createTypesTable .asIs id e).getD []) "pf" = some (fnIntInt, false) ∧
     fetchFnTy .asWas (.map .string interfaceType) e.entries "pf" = none ∧
     fetchFnTy .asIs (.map .string interfaceType) e.entries "pf" = some (.ptr fnIntInt, false)) := by
  decide +kernel

/-- `c16:accepted-not-resolvable:pointer-to-interface-holding-func` (fixed by 72281b1): `PIFn(1)` with
`PIFn *interface{}` is accepted — `isFuncType` dereferences to the interface — but `FetchFn` stopped at the
interface value (the flag `ptrIfaceFuncNotFetched`); the current code follows it. -/
theorem ptr_iface_func_witness :
    funcTarget (tableOf .asIs EnvPtrFn) "PIFn" = some (interfaceType, false) ∧
    fetchFnTy { NDefects.asIs with ptrIfaceFuncNotFetched := true } EnvPtrFn [] "PIFn" = none ∧
    fetchFnTy .asWas EnvPtrFn [] "PIFn" = none ∧
    fetchFnTy .asIs EnvPtrFn [] "PIFn" = some (.ptr interfaceType, false) := by
  decide +kernel

/-- `c16:func-in-typed-map-not-callable`, `c16:defined-string-key-map-env`: map environments. -/
theorem map_env_witness :
    (let e : Env := { ty := some (.map .string fnIntInt), entries := [("f", some fnIntInt)] }
     funcTarget ((createTypesTable .asWas id e).getD []) "f" = some (fnIntInt, false) ∧
     fetchFnTy .asWas (.map .string fnIntInt) e.entries "f" = none ∧
     fetchFnTy .asIs (.map .string fnIntInt) e.entries "f" = some (fnIntInt, false)) ∧
    (let e : Env := { ty := some (.map ZMyStr tInt), entries := [("a", some tInt)] }
     identType .asWas ((createTypesTable .asWas id e).getD []) "a" = .ok (some tInt) ∧
     fetchEnv .asWas e "a" = none ∧
     fetchEnv .asIs e "a" = some (some tInt)) := by
  decide +kernel

/-- `c16:member-type-depth-first-differs-from-go`, `c16:ambiguous-member-accepted`,
`c16:member-through-pointer-not-fetchable`, `c16:member-of-non-string-keyed-map-accepted`:
nested members `A.X`, `B.X`, `PP.X`, `MI.k`. -/
theorem member_witness :
    -- depth-first picks ZMid.ZDeep.X : string, Go and the VM pick ZB.X : float64
    fieldType .asWas 10 EnvDepth "X" = some .string ∧ fetchTy .asWas EnvDepth "X" = some tFloat ∧
    fieldType .asIs 10 EnvDepth "X" = some tFloat ∧
    -- genuinely ambiguous: accepted with ZA.X's type, not fetchable
    fieldType .asWas 10 EnvAmbig "X" = some tInt ∧ fetchTy .asWas EnvAmbig "X" = none ∧
    fieldType .asIs 10 EnvAmbig "X" = none ∧
    -- **struct
    fieldType .asWas 10 (.ptr (.ptr ZA)) "X" = some tInt ∧ fetchTy .asWas (.ptr (.ptr ZA)) "X" = none ∧
    fetchTy .asIs (.ptr (.ptr ZA)) "X" = some tInt ∧
    -- map[int]string
    fieldType .asWas 10 (.map tInt .string) "k" = some .string ∧ fetchTy .asWas (.map tInt .string) "k" = none ∧
    fieldType .asIs 10 (.map tInt .string) "k" = none := by
  decide +kernel

/-! ## the full statements: theorems for the current code, false at the snapshot -/

/-- accepted (identifier) ⇒ resolvable with the assumed type, for all struct environments -/
def accepted_resolves_goal (d : NDefects) : Prop :=
  ∀ (e : Env) (t dd : Ty), StructEnv e t dd → NamesWF dd →
    ∀ (σ : Table → Table), IsOrder σ → ∀ tbl, createTypesTable d σ e = some tbl →
      ∀ (n : String) (τ : Option Ty), identType d tbl n = .ok τ → fetchEnv d e n = some τ

/-- every exported field Go resolves, not hidden by a method, is accepted with its type -/
def resolves_accepted_goal (d : NDefects) : Prop :=
  ∀ (e : Env) (t dd : Ty), StructEnv e t dd → NamesWF dd →
    ∀ (σ : Table → Table), IsOrder σ → ∀ tbl, createTypesTable d σ e = some tbl →
      ∀ (n : String) (f : Field), reflField dd n = .found f → f.exported = true →
        methodByName t n = none → identType d tbl n = .ok (some f.ty)

/-- accepted member ⇒ fetchable with the assumed type (receiver not of interface type) -/
def member_accepted_resolves_goal (d : NDefects) : Prop :=
  ∀ (k : Nat) (t : Ty) (n : String) (τ : Ty), fieldType d (k + 1) t n = some τ →
    t.deref.kind ≠ .iface → fetchTy d t n = some τ

theorem accepted_resolves_repaired : accepted_resolves_goal .asIs :=
  fun _ _ _ h _ σ hσ _ ht n τ hacc => accepted_resolves h σ hσ ht n τ hacc

theorem resolves_accepted_repaired : resolves_accepted_goal .asIs :=
  fun _ _ _ h _ σ hσ _ ht n f hr hx hnm => resolves_accepted h σ hσ ht n f hr hx hnm

theorem member_accepted_resolves_repaired : member_accepted_resolves_goal .asIs :=
  fun k t n τ hacc hst => member_accepted_resolves k t n τ hacc hst

private theorem structEnv_unexported : StructEnv (envOf EnvUnexported) EnvUnexported EnvUnexported ∧ NamesWF EnvUnexported := by
  have hdeep := levelTys_nil_of_le EnvUnexported 1 (by decide +kernel)
  refine ⟨⟨rfl, by decide +kernel, by decide +kernel, ?_⟩, ?_⟩
  · apply embWF_of_levels _ 1 hdeep
    intro d hd
    have : d = 0 := by omega
    subst this; decide +kernel
  · apply namesWF_of_levels _ 1 hdeep
    intro d hd
    have : d = 0 := by omega
    subst this; decide +kernel

private theorem structEnv_shadowBefore :
    StructEnv (envOf EnvShadowBefore) EnvShadowBefore EnvShadowBefore ∧ NamesWF EnvShadowBefore := by
  have hdeep := levelTys_nil_of_le EnvShadowBefore 2 (by decide +kernel)
  have small : ∀ d, d < 2 → d = 0 ∨ d = 1 := by omega
  refine ⟨⟨rfl, by decide +kernel, by decide +kernel, ?_⟩, ?_⟩
  · apply embWF_of_levels _ 2 hdeep
    intro d hd
    rcases small d hd with rfl | rfl <;> decide +kernel
  · apply namesWF_of_levels _ 2 hdeep
    intro d hd
    rcases small d hd with rfl | rfl <;> decide +kernel

/-- at the snapshot the checker accepted a name the VM cannot resolve (`priv`) -/
theorem accepted_resolves_asIs_false : ¬ accepted_resolves_goal .asWas := by
  intro h
  have := h (envOf EnvUnexported) EnvUnexported EnvUnexported structEnv_unexported.1 structEnv_unexported.2
    id isOrder_id (tableOf .asWas EnvUnexported) (by decide +kernel) "priv" (some tInt) (by decide +kernel)
  revert this
  decide +kernel

/-- at the snapshot the checker rejected a name Go resolves (`X` in `struct { X int; ZA }`) -/
theorem resolves_accepted_asIs_false : ¬ resolves_accepted_goal .asWas := by
  intro h
  have := h (envOf EnvShadowBefore) EnvShadowBefore EnvShadowBefore structEnv_shadowBefore.1
    structEnv_shadowBefore.2 id isOrder_id (tableOf .asWas EnvShadowBefore) (by decide +kernel)
    "X" (fld "X" tInt) (by decide +kernel) rfl (by decide +kernel)
  revert this
  decide +kernel

/-- at the snapshot the checker's member type could differ from what the VM fetches (`A.X` on `struct { ZMid; ZB }`) -/
theorem member_accepted_resolves_asIs_false : ¬ member_accepted_resolves_goal .asWas := by
  intro h
  have := h 9 EnvDepth "X" .string (by decide +kernel) (by decide +kernel)
  revert this
  decide +kernel

-- the hypotheses of the partial theorems are satisfiable on a non-trivial environment
example : ∃ tbl, createTypesTable .asWas id (envOf EnvShadowAfter) = some tbl ∧
    identType .asWas tbl "Y" = .ok (some .string) ∧ methodByName EnvShadowAfter "Y" = none ∧
    reflField EnvShadowAfter "Y" = .found (fld "Y" .string) :=
  ⟨tableOf .asWas EnvShadowAfter, by decide +kernel⟩

end ExprModel.C16
