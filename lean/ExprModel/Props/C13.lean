import ExprModel.Proofs.SourcePos
import ExprModel.Gen.SetLocation
import ExprModel.Proofs.LocMap
/-
C13 — Errors point at the offending source position.

Part 1 (this section): `file.Source` / `Error.Bind` for ALL sources (multi-line, non-ASCII, tabs):
the snippet of line L is the L-th line; no slice or index expression of source.go can panic;
positions produced by the lexer's rule lie inside the source and the snippet of their line carries
the rune they denote; the caret of the indicator line is under the column on ASCII lines; on a line
with a multi-byte rune at or before the column the code draws NO indicator line (but the snippet is
still the line — observed on the real code, see harness/c13.go `bind`).
-/
namespace ExprModel.C13
open ExprModel ExprModel.Src

/-! ## Source.Snippet -/

/-- **No panic**: every index and slice expression of `findLineOffset`/`Snippet` is in range, for
    every source and every (also negative or huge) line number. -/
theorem snippet_total (src : List Char) (line : Int) : snippet src line ≠ .panic := by
  by_cases hs : src = []
  · subst hs; rw [snippet_empty_source]; intro h; cases h
  · by_cases h : line ≤ 0 ∨ (numLines src : Int) < line
    · rw [snippet_out_of_range src line h]; intro h; cases h
    · have h1 : 1 ≤ line := by omega
      have h2 : line ≤ numLines src := by omega
      have : line = ((line - 1).toNat : Int) + 1 := by omega
      rw [this, snippet_line_core src hs (line - 1).toNat (by unfold numLines at h2; omega)]
      intro h; cases h

/-- **The snippet is the line it names**: for a non-empty source and every line number L in range
    (1-based), `Snippet(L)` is found and is exactly the text between the (L-1)-th and the L-th
    newline (`nthLine`, defined without reference to the offsets table). -/
theorem snippet_is_line (src : List Char) (hs : src ≠ []) (L : Nat) (h1 : 1 ≤ L) (h2 : L ≤ numLines src) :
    ∃ l, nthLine src (L - 1) = some l ∧ snippet src (L : Int) = .ok (l, true) := by
  have hlt : L - 1 < (splitLines src).length := by unfold numLines at h2; omega
  refine ⟨(splitLines src)[L - 1], ?_, ?_⟩
  · rw [← splitLines_getElem?]; exact List.getElem?_eq_getElem hlt
  · have : (L : Int) = ((L - 1 : Nat) : Int) + 1 := by omega
    rw [this]; exact snippet_line_core src hs (L - 1) hlt

/-- `found = false` exactly when the source is empty or L is outside `1 … numLines` -/
theorem snippet_found_iff (src : List Char) (line : Int) :
    (∃ l, snippet src line = .ok (l, true)) ↔ (src ≠ [] ∧ 1 ≤ line ∧ line ≤ numLines src) := by
  constructor
  · rintro ⟨l, hl⟩
    by_cases hs : src = []
    · subst hs; rw [snippet_empty_source] at hl; cases hl
    · refine ⟨hs, ?_⟩
      by_cases h : line ≤ 0 ∨ (numLines src : Int) < line
      · rw [snippet_out_of_range src line h] at hl; cases hl
      · omega
  · rintro ⟨hs, h1, h2⟩
    have : line = ((line - 1).toNat : Int) + 1 := by omega
    exact ⟨_, by rw [this]; exact snippet_line_core src hs (line - 1).toNat (by unfold numLines at h2; omega)⟩

/-- not found ⇒ the empty string is returned -/
theorem snippet_not_found (src : List Char) (line : Int) (l : List Char) (h : snippet src line = .ok (l, false)) :
    l = [] ∧ (src = [] ∨ line < 1 ∨ (numLines src : Int) < line) := by
  by_cases hs : src = []
  · subst hs; rw [snippet_empty_source] at h; cases h; exact ⟨rfl, Or.inl rfl⟩
  · by_cases hr : line ≤ 0 ∨ (numLines src : Int) < line
    · rw [snippet_out_of_range src line hr] at h; cases h
      exact ⟨rfl, Or.inr (by omega)⟩
    · have : line = ((line - 1).toNat : Int) + 1 := by omega
      rw [this, snippet_line_core src hs (line - 1).toNat (by unfold numLines at hr; omega)] at h
      cases h

/-- the number of lines is one more than the number of newlines, and a line never contains one -/
theorem numLines_eq (src : List Char) : numLines src = src.count '\n' + 1 := by
  unfold numLines
  induction src with
  | nil => simp [splitLines]
  | cons c cs ih =>
    by_cases h : c = '\n'
    · subst h; simp [splitLines, ih]
    · have hne := splitLines_ne_nil cs
      simp only [splitLines, h, if_false]
      cases hsp : splitLines cs with
      | nil => exact absurd hsp hne
      | cons l ls =>
        rw [hsp] at ih
        rw [List.count_cons]
        simp only [List.length_cons] at ih ⊢
        have : (c == '\n') = false := by simpa using h
        simp [this, ih]

theorem line_has_no_newline (src : List Char) (n : Nat) (l : List Char) (h : nthLine src n = some l) : '\n' ∉ l :=
  nthLine_no_nl src n l h

/-- the lines, joined by newlines, are the source: nothing is lost or invented by `updateOffsets` -/
theorem lines_rebuild_source (src : List Char) : joinLines (splitLines src) = src := join_split src

/-! ## Locations computed by the lexer's rule lie inside the source -/

/-- **Every location the lexer's rule can produce lies inside the source.** -/
theorem loc_in_source (src : List Char) (k : Nat) (hk : k ≤ src.length) : InSource src (posOf src k) := by
  obtain ⟨m, ln, h1, h2, h3, h4, _⟩ := posOfAux_spec src k 1 0 hk
  have hb : (if m = 0 then 0 else 0) = 0 := by split <;> rfl
  rw [hb] at h4
  refine ⟨by simp [posOf, h1], ln, ?_, by simpa [posOf] using h4⟩
  simp only [posOf, h1]
  rw [show 1 + m - 1 = m by omega]; exact h2

/-- … and the line it names carries, at the column it names, exactly the rune at offset `k`
    (for the newline itself: the column is the end of that line). -/
theorem loc_names_rune (src : List Char) (k : Nat) (ch : Char) (hk : src[k]? = some ch) :
    ∃ l, nthLine src ((posOf src k).line - 1) = some l ∧
      (ch ≠ '\n' → l[(posOf src k).col]? = some ch) ∧ (ch = '\n' → (posOf src k).col = l.length) := by
  have hlt : k < src.length := by
    rcases Nat.lt_or_ge k src.length with h | h
    · exact h
    · rw [List.getElem?_eq_none h] at hk; cases hk
  obtain ⟨m, ln, h1, h2, _, _, h5⟩ := posOfAux_spec src k 1 0 (Nat.le_of_lt hlt)
  have hb : (if m = 0 then 0 else 0) = 0 := by split <;> rfl
  rw [hb] at h5
  obtain ⟨ha, hb'⟩ := h5 ch hk
  refine ⟨ln, ?_, ?_, ?_⟩
  · simp only [posOf, h1]; rw [show 1 + m - 1 = m by omega]; exact h2
  · intro e; simpa [posOf] using hb' e
  · intro e; simpa [posOf] using ha e

/-- hence the snippet rendered for that location contains the offending rune at the reported column -/
theorem snippet_contains_rune (src : List Char) (k : Nat) (ch : Char) (hk : src[k]? = some ch) (hnl : ch ≠ '\n') :
    ∃ l, snippet src ((posOf src k).line : Int) = .ok (l, true) ∧ l[(posOf src k).col]? = some ch := by
  have hlt : k < src.length := by
    rcases Nat.lt_or_ge k src.length with h | h
    · exact h
    · rw [List.getElem?_eq_none h] at hk; cases hk
  have hs : src ≠ [] := by intro e; subst e; simp at hlt
  obtain ⟨l, hl, hc, _⟩ := loc_names_rune src k ch hk
  obtain ⟨h1, l', hl', _⟩ := loc_in_source src k (Nat.le_of_lt hlt)
  have hrange : (posOf src k).line ≤ numLines src := by
    unfold numLines
    rcases Nat.lt_or_ge ((posOf src k).line - 1) (splitLines src).length with h | h
    · omega
    · have := splitLines_getElem? src ((posOf src k).line - 1)
      rw [List.getElem?_eq_none h, hl] at this; cases this
  obtain ⟨l2, hl2, hsn⟩ := snippet_is_line src hs (posOf src k).line h1 hrange
  rw [hl] at hl2; cases hl2
  exact ⟨l, hsn, hc hnl⟩

/-- closed form of the lexer's rule (DESIGN Appendix D): line = 1 + number of newlines before
    offset `k`, column = runes since the last newline. -/
theorem posOf_closed_form (src : List Char) (k : Nat) (hk : k ≤ src.length) :
    posOf src k = { line := 1 + (src.take k).count '\n', col := colSince (src.take k) } := by
  unfold posOf
  rw [posOfAux_closed src k 1 0 hk]
  by_cases hm : '\n' ∈ src.take k
  · simp [hm]
  · simp only [hm, if_false, Nat.zero_add]
    congr 1
    unfold colSince
    have hall : ∀ x ∈ (src.take k).reverse, (fun c : Char => decide (c ≠ '\n')) x = true := by
      intro x hx
      have hx' : x ∈ src.take k := by simpa using hx
      have : x ≠ '\n' := fun e => hm (e ▸ hx')
      simpa using this
    have := takeWhile_append_of_all _ (src.take k).reverse [] hall
    simp only [List.append_nil, List.takeWhile_nil] at this
    rw [this]; simp [hk]

/-! ## Error.Bind -/

/-- `Bind` cannot panic -/
theorem bind_total (src : List Char) (e : FileError) : bind src e ≠ .panic := by
  unfold Src.bind
  cases h : snippet src e.line with
  | panic => exact absurd h (snippet_total src e.line)
  | ok p =>
    obtain ⟨s, b⟩ := p
    cases b
    · simp
    · simp only
      split <;> simp

/-- `Bind` changes nothing but the snippet -/
theorem bind_keeps_location (src : List Char) (e e' : FileError) (h : bind src e = .ok e') :
    e'.line = e.line ∧ e'.col = e.col ∧ e'.msg = e.msg := by
  unfold Src.bind at h
  split at h
  · cases h
  · cases h; exact ⟨rfl, rfl, rfl⟩
  · simp only at h
    split at h <;> (cases h; exact ⟨rfl, rfl, rfl⟩)

/-- **The rendered snippet is the source line the error names** (tabs shown as spaces): for every
    source and every error whose line exists, the snippet is `"\n | " ++ line`, optionally followed
    by an indicator line of dots and one caret. -/
theorem bind_snippet_is_line (src : List Char) (e : FileError) (hs : src ≠ []) (h1 : 1 ≤ e.line)
    (h2 : e.line ≤ numLines src) :
    ∃ l e', nthLine src (e.line - 1).toNat = some l ∧ bind src e = .ok e' ∧
      (e'.snippet = gutter ++ tabsToSpaces l ∨
       e'.snippet = gutter ++ tabsToSpaces l ++ gutter ++
          (List.replicate (min e.col.toNat l.length) '.' ++ ['^'])) := by
  obtain ⟨l, hl, hsn⟩ := snippet_is_line src hs e.line.toNat (by omega) (by omega)
  rw [show ((e.line.toNat : Nat) : Int) = e.line by omega] at hsn
  rw [show e.line.toNat - 1 = (e.line - 1).toNat by omega] at hl
  unfold Src.bind
  rw [hsn]
  simp only
  cases hi : indicator (tabsToSpaces l) e.col.toNat with
  | none => exact ⟨l, _, hl, rfl, Or.inl rfl⟩
  | some ind =>
    refine ⟨l, _, hl, rfl, Or.inr ?_⟩
    have := indicator_some _ _ _ hi
    rw [tabsToSpaces_length] at this
    simp [this]

/-- a line without tabs is rendered verbatim -/
theorem rendered_line_verbatim (l : List Char) (h : '\t' ∉ l) : tabsToSpaces l = l := tabsToSpaces_id l h

/-- **Caret under the column** on ASCII-only lines: the indicator line has the same 4-rune gutter as
    the source line, then exactly `col` dots, then the caret. -/
theorem bind_indicator (src : List Char) (e : FileError) (l : List Char) (hs : src ≠ []) (h1 : 1 ≤ e.line)
    (h2 : e.line ≤ numLines src) (hl : nthLine src (e.line - 1).toNat = some l)
    (hascii : ∀ c ∈ l, isMulti c = false) (hc0 : 0 ≤ e.col) (hc : e.col ≤ l.length) :
    bind src e = .ok { e with snippet := gutter ++ tabsToSpaces l ++ gutter ++ (List.replicate e.col.toNat '.' ++ ['^']) } := by
  obtain ⟨l', hl', hsn⟩ := snippet_is_line src hs e.line.toNat (by omega) (by omega)
  rw [show ((e.line.toNat : Nat) : Int) = e.line by omega] at hsn
  rw [show e.line.toNat - 1 = (e.line - 1).toNat by omega, hl] at hl'
  cases hl'
  unfold Src.bind
  rw [hsn]
  simp only
  rw [indicator_ascii _ _ (tabsToSpaces_ascii l hascii), tabsToSpaces_length]
  simp only
  rw [show min e.col.toNat l.length = e.col.toNat by omega]

/-- **Multi-byte quirk, as the code behaves**: when the named line has a rune ≥ U+0080 at or before
    the column, `Bind` jumps to `noind:` — the snippet is the bare source line, with no indicator line
    (so nothing marks the column), but it *is* still set and still the line it names. -/
theorem bind_no_indicator_on_multibyte (src : List Char) (e : FileError) (l : List Char) (hs : src ≠ [])
    (h1 : 1 ≤ e.line) (h2 : e.line ≤ numLines src) (hl : nthLine src (e.line - 1).toNat = some l)
    (i : Nat) (c : Char) (hi : (i : Int) ≤ e.col) (hc : l[i]? = some c) (hm : isMulti c = true) :
    bind src e = .ok { e with snippet := gutter ++ tabsToSpaces l } := by
  obtain ⟨l', hl', hsn⟩ := snippet_is_line src hs e.line.toNat (by omega) (by omega)
  rw [show ((e.line.toNat : Nat) : Int) = e.line by omega] at hsn
  rw [show e.line.toNat - 1 = (e.line - 1).toNat by omega, hl] at hl'
  cases hl'
  unfold Src.bind
  rw [hsn]
  simp only
  have : indicator (tabsToSpaces l) e.col.toNat = none :=
    (indicator_none_iff _ _).mpr ⟨i, c, by omega, tabsToSpaces_multi l i c hc hm, hm⟩
  rw [this]

/-- witness of the quirk: `é+` with an error at column 1 (the `+`) gets the line but no caret;
    the same error in `e+` gets `.^`. -/
theorem bind_multibyte_witness :
    bind "é+\nx".toList { line := 1, col := 1, msg := "m".toList } =
      .ok { line := 1, col := 1, msg := "m".toList, snippet := "\n | é+".toList } ∧
    bind "e+\nx".toList { line := 1, col := 1, msg := "m".toList } =
      .ok { line := 1, col := 1, msg := "m".toList, snippet := "\n | e+\n | .^".toList } := by
  decide

/-- a line that does not exist (or an empty source) leaves the error without snippet -/
theorem bind_line_missing (src : List Char) (e : FileError)
    (h : src = [] ∨ e.line < 1 ∨ (numLines src : Int) < e.line) : bind src e = .ok e := by
  have : snippet src e.line = .ok ([], false) := by
    rcases h with h | h | h
    · subst h; exact snippet_empty_source _
    · exact snippet_out_of_range _ _ (Or.inl (by omega))
    · exact snippet_out_of_range _ _ (Or.inr h)
  unfold Src.bind; rw [this]

/-- `format`: an empty location (0:0) prints the bare message — nothing points into the source -/
theorem format_empty_location (msg snip : List Char) :
    format { line := 0, col := 0, msg := msg, snippet := snip } = msg := by
  simp [format, locEmpty]

/-- non-vacuity of the hypotheses above on a 3-line, non-ASCII, tabbed source -/
example : let src := "a\t+ 'é'\n  b.c\n".toList
    src ≠ [] ∧ numLines src = 3 ∧ nthLine src 1 = some "  b.c".toList ∧ nthLine src 2 = some [] ∧
    posOf src 8 = { line := 2, col := 0 } ∧ posOf src 12 = { line := 2, col := 4 } ∧
    snippet src 2 = .ok ("  b.c".toList, true) ∧ snippet src 3 = .ok ([], true) ∧
    snippet src 4 = .ok ([], false) ∧ snippet src 0 = .ok ([], false) ∧ snippet src (-1) = .ok ([], false) := by
  decide

/-! ## Part 2 — where locations come from: facts regenerated from /repo on every run

`Gen.Loc.*` is rewritten by translator/locsites.go from the current Go source; each theorem below is a
kernel-checked comparison with the table the property relies on.  A constructor that stops calling
`SetLocation`, passes another token, a new unlocated error site, `emit` recording another node or the
VM reading another offset makes the corresponding `decide` fail. -/

open ExprModel.LocFacts

/-- **Node location table**: for every node constructor of parser/parser.go, which token's location the
    node receives.  Operator token for unary / binary / `matches`; the literal's own token for
    bool / nil / number / string; the name token for identifier / function / builtin; the member name
    after `.` for property / method; the `[` for index / slice; the opening bracket for array / map /
    closure, and also for map pairs and bare map keys; `#` for the pointer; the `?` for a conditional
    (since fix 4de6c8c; before it `ConditionalNode` was the one constructor without `SetLocation`). -/
theorem node_loc_table :
    Gen.Loc.parserSites.map (fun s => (s.node, roleOf s)) =
      [("MatchesNode", .binaryOp), ("BinaryNode", .binaryOp), ("UnaryNode", .unaryOp), ("PointerNode", .pointerTok),
       ("ConditionalNode", .questionOp),
       ("BoolNode", .ownToken), ("BoolNode", .ownToken), ("NilNode", .ownToken), ("IntegerNode", .ownToken),
       ("FloatNode", .ownToken), ("IntegerNode", .ownToken), ("StringNode", .ownToken),
       ("BuiltinNode", .nameToken), ("FunctionNode", .nameToken), ("IdentifierNode", .nameToken),
       ("ClosureNode", .openBracket), ("ArrayNode", .openBracket),
       ("StringNode", .openBracket), ("PairNode", .openBracket), ("MapNode", .openBracket),
       ("MethodNode", .memberName), ("PropertyNode", .memberName),
       ("SliceNode", .indexBracket), ("SliceNode", .indexBracket), ("IndexNode", .indexBracket)] := by
  decide +kernel

/-- every `SetLocation` call of parser.go directly follows a constructor and is counted above; no
    constructor is left without one -/
theorem parser_unlocated_constructors :
    (Gen.Loc.parserSites.filter (fun s => s.locArg == "")).map (·.node) = [] ∧
    (Gen.Loc.parserSites.filter (fun s => s.locArg != "")).length = Gen.Loc.parserSetLocationCalls ∧
    Gen.Loc.parserSites.all (fun s => s.locArg == "" || s.locArg == "token.Location") = true := by
  decide +kernel

/-- the parameter `token` of `parseIdentifierExpression` / `parseArrayExpression` / `parseMapExpression`
    is the token captured at the entry of `parsePrimaryExpression` (an Identifier, resp. `[`, `{`) -/
theorem token_parameters_are_entry_tokens :
    Gen.Loc.tokenPasses =
      [{ caller := "parsePrimaryExpression", callee := "parseIdentifierExpression", args := "token, p.current",
         guards := ["switch token.Kind", "case Identifier", "switch token.Value", "default"] },
       { caller := "parsePrimaryExpression", callee := "parseArrayExpression", args := "token",
         guards := ["switch token.Kind", "default", "token.Is(Bracket, \"[\")"] },
       { caller := "parsePrimaryExpression", callee := "parseMapExpression", args := "token",
         guards := ["switch token.Kind", "default", "else", "token.Is(Bracket, \"{\")"] }] ∧
    Gen.Loc.parserFirstStmt.lookup "parsePrimary" = some "token := p.current" ∧
    Gen.Loc.parserFirstStmt.lookup "parseClosure" = some "token := p.current" ∧
    Gen.Loc.parserFirstStmt.lookup "parsePostfixExpression" = some "token := p.current" := by
  decide +kernel

/-- `ast.Patch` copies type and location of the replaced node; the patch closures of the optimizer
    passes go through it -/
theorem patch_copies_location :
    Gen.Loc.astPatchBody = ["newNode.SetType((*node).Type())", "newNode.SetLocation((*node).Location())", "*node = newNode"] ∧
    Gen.Loc.baseSetLocationBody = ["n.loc = loc"] ∧ Gen.Loc.baseLocationBody = ["return n.loc"] ∧
    Gen.Loc.foldPatchBody = ["fold.applied = true", "Patch(node, newNode)"] ∧
    Gen.Loc.foldPatchWithTypeBody = ["patch(newNode)", "newNode.SetType(leafType)"] ∧
    Gen.Loc.constExprPatchBody = ["c.applied = true", "Patch(node, newNode)"] := by
  decide +kernel

/-- **Nodes created by rewrites**: every node literal of optimizer/*.go and compiler/patcher.go is either
    handed to `Patch` (and inherits the location of the node it replaces) or sits in a field of another
    new node and is never located.  The unlocated ones, exactly: the `ConstantNode` sets of the in-array
    rewrite (they cannot fail on their own) and the two comparison nodes of the in-range rewrite.  Those
    could fail (`x >= 1` on a non-number, reported at 0:0: `c13:inrange-rewrite-no-location`) until fix
    072d9f0 restricted the rewrite to integer-typed, call-free left operands; they remain unlocated,
    which is now unobservable. -/
theorem created_nodes_table :
    Gen.Loc.createdNodes.map (fun c => (c.file, c.node, c.how)) =
      [("optimizer/const_expr.go", "ConstantNode", "patch-var:patch"),
       ("optimizer/const_range.go", "ConstantNode", "patch-arg:Patch"),
       ("optimizer/const_range.go", "ConstantNode", "patch-arg:Patch"),
       ("optimizer/fold.go", "IntegerNode", "patch-arg:patchWithType"),
       ("optimizer/fold.go", "IntegerNode", "patch-arg:patchWithType"),
       ("optimizer/fold.go", "IntegerNode", "patch-arg:patchWithType"),
       ("optimizer/fold.go", "StringNode", "patch-arg:patch"),
       ("optimizer/fold.go", "IntegerNode", "patch-arg:patchWithType"),
       ("optimizer/fold.go", "IntegerNode", "patch-arg:patchWithType"),
       ("optimizer/fold.go", "IntegerNode", "patch-arg:patchWithType"),
       ("optimizer/fold.go", "IntegerNode", "patch-arg:patch"),
       ("optimizer/fold.go", "FloatNode", "patch-arg:patch"),
       ("optimizer/fold.go", "ConstantNode", "patch-arg:patch"),
       ("optimizer/fold.go", "ConstantNode", "patch-arg:patch"),
       ("optimizer/in_array.go", "BinaryNode", "patch-arg:Patch"),
       ("optimizer/in_array.go", "ConstantNode", "field:Right of BinaryNode"),
       ("optimizer/in_array.go", "BinaryNode", "patch-arg:Patch"),
       ("optimizer/in_array.go", "ConstantNode", "field:Right of BinaryNode"),
       ("optimizer/in_range.go", "BinaryNode", "patch-arg:Patch"),
       ("optimizer/in_range.go", "BinaryNode", "field:Left of BinaryNode"),
       ("optimizer/in_range.go", "BinaryNode", "field:Right of BinaryNode"),
       ("optimizer/in_range.go", "UnaryNode", "patch-arg:Patch"),
       ("compiler/patcher.go", "FunctionNode", "patch-var:ast.Patch")] := by
  decide +kernel

theorem unlocated_created_nodes :
    (Gen.Loc.createdNodes.filter (fun c => hasSub c.how "field:")).map (fun c => (c.file, c.node)) =
      [("optimizer/in_array.go", "ConstantNode"), ("optimizer/in_array.go", "ConstantNode"),
       ("optimizer/in_range.go", "BinaryNode"), ("optimizer/in_range.go", "BinaryNode")] := by
  decide +kernel

/-- same elements, whatever the order and multiplicity (so that a second site of an already listed
    kind in an already listed function does not disturb the table) -/
def sameSet {α : Type} [BEq α] (xs ys : List α) : Bool := xs.all (ys.contains ·) && ys.all (xs.contains ·)

/-- the forms a located error's `Location` expression takes, per file: the node at hand (by value or through the
    `*Node` the visitor gets), the parser's current token, the lexer's position, the VM's location table -/
def locatedForms : List (String × String) :=
  [("checker/checker.go", "node.Location()"),
   ("optimizer/const_expr.go", "(*node).Location()"), ("optimizer/const_expr.go", "node.Location()"),
   ("optimizer/fold.go", "(*node).Location()"), ("optimizer/fold.go", "node.Location()"),
   ("parser/parser.go", "p.current.Location"),
   ("parser/lexer/lexer.go", "l.loc"),
   ("vm/vm.go", "program.Locations[vm.pp]")]

/-- **Every error site is located, except the listed ones.**  Stated without function names (a helper extracted
    from `Check` or from `(*fold).Exit` keeps the property; the earlier statement pinned (file, function) pairs and
    raised a false alarm on exactly such refactorings — section 10 of DESIGN.md): every located construction uses
    one of the location forms of its file and each of the six files has one; the *set* of (file, kind) of the unlocated
    constructions is the listed one (multiplicities are left to the single-fault oracle on the real code: a helper may
    merge two identical messages).
    Unlocated: the misuse check of `Eval`, the two `expect` errors of the checker, the recover of
    `compiler.Compile`, the option checks of conf/config.go, `vm.Run(nil)` — all plain `fmt.Errorf` — and ONE
    `file.Error` literal without `Location`: the default branch of `checker.visit` ("undefined node type", since
    b1d37f1 an error instead of a panic), reachable only with a malformed tree produced by a user visitor, for which
    no source position exists.  The `fmt.Errorf` of lexer/utils.go are re-raised by `root` through the located
    `l.error("%v", err)`. -/
theorem every_error_site_is_located :
    (Gen.Loc.errSites.filter (fun e => e.loc != "")).all (fun e => locatedForms.contains (e.file, e.loc)) = true ∧
    (locatedForms.map (·.1)).all (fun f => Gen.Loc.errSites.any (fun e => e.file == f && e.loc != "")) = true ∧
    sameSet ((Gen.Loc.errSites.filter (fun e => e.loc == "" && e.file != "parser/lexer/utils.go")).map
        (fun e => (e.file, e.kind)))
      [("expr.go", "fmt.Errorf"), ("checker/checker.go", "fmt.Errorf"), ("checker/checker.go", "file.Error"),
       ("compiler/compiler.go", "fmt.Errorf"), ("conf/config.go", "fmt.Errorf"), ("vm/vm.go", "fmt.Errorf")] = true ∧
    (Gen.Loc.errSites.filter (fun e => e.file == "parser/lexer/utils.go")).all
        (fun e => e.kind == "fmt.Errorf" && e.loc == "") = true ∧
    Gen.Loc.unescapeErrorWrapped = true ∧
    (Gen.Loc.errSites.filter (fun e => e.kind == "file.Error" && e.loc == "")).map (fun e => e.file) =
      ["checker/checker.go"] := by
  decide +kernel

/-- the node whose location each `v.error(node, …)` of the checker uses: the node being checked,
    except (exactly these, as a set) slice bounds (`node.From` / `node.To`), call arguments (`arg`),
    builtin arguments, the condition of a conditional (`node.Cond`) and the computed key of a map
    pair (`node.Key`) -/
theorem checker_error_nodes :
    sameSet (Gen.Loc.checkerErrorArgs.filter (fun p => p.2 != "node"))
      [("SliceNode", "node.From"), ("SliceNode", "node.To"), ("checkFunc", "arg"),
       ("BuiltinNode", "node.Arguments[0]"), ("BuiltinNode", "node.Arguments[1]"),
       ("ConditionalNode", "node.Cond"), ("PairNode", "node.Key")] = true := by
  decide +kernel

/-- `checker.Check` returns the located first error BEFORE the unlocated `expect` error (since fix
    76735a9; the other order masked the location: `c13:expect-masks-located-error`) -/
theorem check_returns_located_error_first :
    Gen.Loc.checkTail.head? = some "if v.err != nil { return t, v.err.Bind(tree.Source) }" ∧
    Gen.Loc.checkTail.getLast? = some "return t, nil" := by
  decide +kernel

/-- lexer and parser bind their first error to the source they were given -/
theorem lex_parse_bind :
    Gen.Loc.lexReturns = ["return nil, l.err.Bind(source)", "return l.tokens, nil"] ∧
    Gen.Loc.parseReturns = ["return nil, err", "return nil, p.err.Bind(source)", "return &Tree{ Node: node, Source: source, }, nil"] := by
  decide +kernel

/-- the lexer's position bookkeeping is the rule `posOfAux` models: newline ⇒ line+1, column 0;
    otherwise column+1; `backup` restores the previous location -/
theorem lexer_rule_is_posOf :
    Gen.Loc.lexerNextBody =
      ["if l.end >= len(l.input) { l.width = 0 return eof }", "r, w := utf8.DecodeRuneInString(l.input[l.end:])",
       "l.width = w", "l.end += w", "l.prev = l.loc",
       "if r == '\\n' { l.loc.Line++ l.loc.Column = 0 } else { l.loc.Column++ }", "return r"] ∧
    Gen.Loc.lexerBackupBody = ["l.end -= l.width", "l.loc = l.prev"] := by
  decide +kernel

/-- **Compiler**: `emit` stores, under the offset of the opcode byte it has just appended
    (`current-1`), the location of the node on top of the node stack; `compile` pushes the node it is
    compiling and pops it on return; nothing else writes `locations` or `nodes`; the program carries
    that map and the source. -/
theorem emit_records_top_node :
    Gen.Loc.emitBody =
      ["c.bytecode = append(c.bytecode, op)", "current := len(c.bytecode)", "c.bytecode = append(c.bytecode, b...)",
       "var loc file.Location", "if len(c.nodes) > 0 { loc = c.nodes[len(c.nodes)-1].Location() }",
       "c.locations[current-1] = loc", "return current"] ∧
    Gen.Loc.compilePrologue = ["c.nodes = append(c.nodes, node)", "defer func() { c.nodes = c.nodes[:len(c.nodes)-1] }()"] ∧
    Gen.Loc.locationsWrites = ["emit: c.locations[current-1] = loc"] ∧
    Gen.Loc.nodesWrites = ["compile: c.nodes = append(c.nodes, node)", "compile: c.nodes = c.nodes[:len(c.nodes)-1]"] ∧
    Gen.Loc.programLiteral = ["Source: tree.Source", "Locations: c.locations", "Constants: c.constants", "Bytecode: c.bytecode"] := by
  decide +kernel

/-- **VM**: `pp` is the offset of the opcode being executed (set at the loop head, nowhere else), and
    the recover handler reports `program.Locations[vm.pp]` bound to `program.Source` -/
theorem vm_reports_location_of_current_opcode :
    Gen.Loc.vmLoopHead = ["if vm.debug { <-vm.step }", "vm.pp = vm.ip", "vm.ip++", "op := vm.bytecode[vm.pp]"] ∧
    Gen.Loc.vmPpWrites = ["Run: vm.pp = 0", "Run: vm.pp = vm.ip"] ∧
    Gen.Loc.vmRunDefer =
      "defer func() { if r := recover(); r != nil { f := &file.Error{ Location: program.Locations[vm.pp], Message: fmt.Sprintf(\"%v\", r), } err = f.Bind(program.Source) } }()" := by
  decide +kernel

/-! ## Part 3 — the location map of compiler and VM, for every compile script

`LocMap` abstracts `compile`/`emit` from what is compiled (a node = its location + a script of `emit`s
and child compilations); the Go statements it mirrors are pinned by `emit_records_top_node` and
`vm_reports_location_of_current_opcode` above. -/

open ExprModel.LocMap

/-- **Every opcode is keyed by its own offset and carries the location of the innermost node being
    compiled when it was emitted** — for every tree of compile scripts, at any depth; the node stack
    is left as it was found. -/
theorem emit_location_is_innermost_node (s : Script) :
    (compile s { pc := 0, nodes := [], locs := [] }).locs = (expScript s 0).1 ∧
    (compile s { pc := 0, nodes := [], locs := [] }).nodes = [] ∧
    (compile s { pc := 0, nodes := [], locs := [] }).pc = (expScript s 0).2 := by
  rw [compile_spec]; simp

/-- offsets are written once each, in increasing order (so the Go map holds exactly these entries) -/
theorem location_keys_strictly_increase (s : Script) :
    ((compile s { pc := 0, nodes := [], locs := [] }).locs).Pairwise (fun a b => a.1 < b.1) := by
  rw [(emit_location_is_innermost_node s).1]
  exact (expScript_sorted s 0).2.2

/-- **A run that fails at opcode offset `pp` is reported at the location of the node whose own
    `emit` produced that opcode** (`program.Locations[vm.pp]`). -/
theorem vm_report_is_emitting_node (s : Script) (pp : Nat) (l : Loc) (h : (pp, l) ∈ (expScript s 0).1) :
    report (compile s { pc := 0, nodes := [], locs := [] }).locs pp = l := by
  rw [(emit_location_is_innermost_node s).1]
  have hs := (expScript_sorted s 0).2.2
  have hd : ((expScript s 0).1.reverse).Pairwise (fun a b => a.1 ≠ b.1) := by
    rw [List.pairwise_reverse]
    exact hs.imp (fun hab => by omega)
  unfold report
  rw [lookup_of_mem_distinct _ hd pp l (by simpa using h)]

/-- `ConditionalNode` as compiled (`compile(Cond); JumpIfFalse; Pop; compile(Exp1); Jump; Pop;
    compile(Exp2)`) with the node located at its `?` (fix 4de6c8c): a failure at its `JumpIfFalse`
    (offset 3 here: after a 3-byte `Push`) is reported at the `?`, the failures inside the operands
    keep their own locations. -/
theorem conditional_reports_question_mark :
    let c : Script := .node { line := 1, col := 0 } [.emit 2]
    let a : Script := .node { line := 1, col := 4 } [.emit 2]
    let b : Script := .node { line := 1, col := 8 } [.emit 2]
    let cond : Script := .node { line := 1, col := 2 } [.sub c, .emit 2, .emit 0, .sub a, .emit 2, .emit 0, .sub b]
    report (compile cond { pc := 0, nodes := [], locs := [] }).locs 3 = { line := 1, col := 2 } ∧
    report (compile cond { pc := 0, nodes := [], locs := [] }).locs 0 = { line := 1, col := 0 } ∧
    report (compile cond { pc := 0, nodes := [], locs := [] }).locs 7 = { line := 1, col := 4 } := by
  decide

/-- as it was before the fix (the node unlocated): the same failure was reported at 0:0 -/
theorem conditional_unlocated_reported_zero_witness :
    let c : Script := .node { line := 1, col := 0 } [.emit 2]
    let a : Script := .node { line := 1, col := 4 } [.emit 2]
    let b : Script := .node { line := 1, col := 8 } [.emit 2]
    let cond : Script := .node {} [.sub c, .emit 2, .emit 0, .sub a, .emit 2, .emit 0, .sub b]
    report (compile cond { pc := 0, nodes := [], locs := [] }).locs 3 = { line := 0, col := 0 } := by
  decide

/-! ## The end-to-end statement

The composition of the layers above with the lexer (C12), parser (C11) and compiler / VM (C01) models
is in `Props/C13Pipeline.lean`: `token_locations_in_source`, `parse_locs_from_tokens`,
`node_locations_in_source`, `compile_locations`, `error_location_is_a_node`,
`runtime_error_location_in_source`, `runtime_error_location_partial`, `runtime_error_innermost_partial`;
what is left is stated there (`runtime_error_innermost_goal`). -/

end ExprModel.C13
