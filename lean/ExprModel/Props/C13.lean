import ExprModel.Proofs.SourcePos
/-
C13 — Errors point at the offending source position.

Part 1 (this section): `file.Source` / `Error.Bind` for ALL sources (multi-line, non-ASCII, tabs):
the snippet of line L is the L-th line; no slice or index expression of source.go can panic;
positions produced by the lexer's rule lie inside the source and the snippet of their line carries
the rune they denote; the caret of the indicator line is under the column on ASCII lines; on a line
with a multi-byte rune at or before the column the code draws NO indicator line (but the snippet is
still the line — observed on the real code, see harness/c13.go `bind`).
-/
namespace ExprModel.C13
open ExprModel ExprModel.Src

/-! ## Source.Snippet -/

/-- **No panic**: every index and slice expression of `findLineOffset`/`Snippet` is in range, for
    every source and every (also negative or huge) line number. -/
theorem snippet_total (src : List Char) (line : Int) : snippet src line ≠ .panic := by
  by_cases hs : src = []
  · subst hs; rw [snippet_empty_source]; intro h; cases h
  · by_cases h : line ≤ 0 ∨ (numLines src : Int) < line
    · rw [snippet_out_of_range src line h]; intro h; cases h
    · have h1 : 1 ≤ line := by omega
      have h2 : line ≤ numLines src := by omega
      have : line = ((line - 1).toNat : Int) + 1 := by omega
      rw [this, snippet_line_core src hs (line - 1).toNat (by unfold numLines at h2; omega)]
      intro h; cases h

/-- **The snippet is the line it names**: for a non-empty source and every line number L in range
    (1-based), `Snippet(L)` is found and is exactly the text between the (L-1)-th and the L-th
    newline (`nthLine`, defined without reference to the offsets table). -/
theorem snippet_is_line (src : List Char) (hs : src ≠ []) (L : Nat) (h1 : 1 ≤ L) (h2 : L ≤ numLines src) :
    ∃ l, nthLine src (L - 1) = some l ∧ snippet src (L : Int) = .ok (l, true) := by
  have hlt : L - 1 < (splitLines src).length := by unfold numLines at h2; omega
  refine ⟨(splitLines src)[L - 1], ?_, ?_⟩
  · rw [← splitLines_getElem?]; exact List.getElem?_eq_getElem hlt
  · have : (L : Int) = ((L - 1 : Nat) : Int) + 1 := by omega
    rw [this]; exact snippet_line_core src hs (L - 1) hlt

/-- `found = false` exactly when the source is empty or L is outside `1 … numLines` -/
theorem snippet_found_iff (src : List Char) (line : Int) :
    (∃ l, snippet src line = .ok (l, true)) ↔ (src ≠ [] ∧ 1 ≤ line ∧ line ≤ numLines src) := by
  constructor
  · rintro ⟨l, hl⟩
    by_cases hs : src = []
    · subst hs; rw [snippet_empty_source] at hl; cases hl
    · refine ⟨hs, ?_⟩
      by_cases h : line ≤ 0 ∨ (numLines src : Int) < line
      · rw [snippet_out_of_range src line h] at hl; cases hl
      · omega
  · rintro ⟨hs, h1, h2⟩
    have : line = ((line - 1).toNat : Int) + 1 := by omega
    exact ⟨_, by rw [this]; exact snippet_line_core src hs (line - 1).toNat (by unfold numLines at h2; omega)⟩

/-- not found ⇒ the empty string is returned -/
theorem snippet_not_found (src : List Char) (line : Int) (l : List Char) (h : snippet src line = .ok (l, false)) :
    l = [] ∧ (src = [] ∨ line < 1 ∨ (numLines src : Int) < line) := by
  by_cases hs : src = []
  · subst hs; rw [snippet_empty_source] at h; cases h; exact ⟨rfl, Or.inl rfl⟩
  · by_cases hr : line ≤ 0 ∨ (numLines src : Int) < line
    · rw [snippet_out_of_range src line hr] at h; cases h
      exact ⟨rfl, Or.inr (by omega)⟩
    · have : line = ((line - 1).toNat : Int) + 1 := by omega
      rw [this, snippet_line_core src hs (line - 1).toNat (by unfold numLines at hr; omega)] at h
      cases h

/-- the number of lines is one more than the number of newlines, and a line never contains one -/
theorem numLines_eq (src : List Char) : numLines src = src.count '\n' + 1 := by
  unfold numLines
  induction src with
  | nil => simp [splitLines]
  | cons c cs ih =>
    by_cases h : c = '\n'
    · subst h; simp [splitLines, ih]
    · have hne := splitLines_ne_nil cs
      simp only [splitLines, h, if_false]
      cases hsp : splitLines cs with
      | nil => exact absurd hsp hne
      | cons l ls =>
        rw [hsp] at ih
        rw [List.count_cons]
        simp only [List.length_cons] at ih ⊢
        have : (c == '\n') = false := by simpa using h
        simp [this, ih]

theorem line_has_no_newline (src : List Char) (n : Nat) (l : List Char) (h : nthLine src n = some l) : '\n' ∉ l :=
  nthLine_no_nl src n l h

/-- the lines, joined by newlines, are the source: nothing is lost or invented by `updateOffsets` -/
theorem lines_rebuild_source (src : List Char) : joinLines (splitLines src) = src := join_split src

/-! ## Locations computed by the lexer's rule lie inside the source -/

/-- **Every location the lexer's rule can produce lies inside the source.** -/
theorem loc_in_source (src : List Char) (k : Nat) (hk : k ≤ src.length) : InSource src (posOf src k) := by
  obtain ⟨m, ln, h1, h2, h3, h4, _⟩ := posOfAux_spec src k 1 0 hk
  have hb : (if m = 0 then 0 else 0) = 0 := by split <;> rfl
  rw [hb] at h4
  refine ⟨by simp [posOf, h1], ln, ?_, by simpa [posOf] using h4⟩
  simp only [posOf, h1]
  rw [show 1 + m - 1 = m by omega]; exact h2

/-- … and the line it names carries, at the column it names, exactly the rune at offset `k`
    (for the newline itself: the column is the end of that line). -/
theorem loc_names_rune (src : List Char) (k : Nat) (ch : Char) (hk : src[k]? = some ch) :
    ∃ l, nthLine src ((posOf src k).line - 1) = some l ∧
      (ch ≠ '\n' → l[(posOf src k).col]? = some ch) ∧ (ch = '\n' → (posOf src k).col = l.length) := by
  have hlt : k < src.length := by
    rcases Nat.lt_or_ge k src.length with h | h
    · exact h
    · rw [List.getElem?_eq_none h] at hk; cases hk
  obtain ⟨m, ln, h1, h2, _, _, h5⟩ := posOfAux_spec src k 1 0 (Nat.le_of_lt hlt)
  have hb : (if m = 0 then 0 else 0) = 0 := by split <;> rfl
  rw [hb] at h5
  obtain ⟨ha, hb'⟩ := h5 ch hk
  refine ⟨ln, ?_, ?_, ?_⟩
  · simp only [posOf, h1]; rw [show 1 + m - 1 = m by omega]; exact h2
  · intro e; simpa [posOf] using hb' e
  · intro e; simpa [posOf] using ha e

/-- hence the snippet rendered for that location contains the offending rune at the reported column -/
theorem snippet_contains_rune (src : List Char) (k : Nat) (ch : Char) (hk : src[k]? = some ch) (hnl : ch ≠ '\n') :
    ∃ l, snippet src ((posOf src k).line : Int) = .ok (l, true) ∧ l[(posOf src k).col]? = some ch := by
  have hlt : k < src.length := by
    rcases Nat.lt_or_ge k src.length with h | h
    · exact h
    · rw [List.getElem?_eq_none h] at hk; cases hk
  have hs : src ≠ [] := by intro e; subst e; simp at hlt
  obtain ⟨l, hl, hc, _⟩ := loc_names_rune src k ch hk
  obtain ⟨h1, l', hl', _⟩ := loc_in_source src k (Nat.le_of_lt hlt)
  have hrange : (posOf src k).line ≤ numLines src := by
    unfold numLines
    rcases Nat.lt_or_ge ((posOf src k).line - 1) (splitLines src).length with h | h
    · omega
    · have := splitLines_getElem? src ((posOf src k).line - 1)
      rw [List.getElem?_eq_none h, hl] at this; cases this
  obtain ⟨l2, hl2, hsn⟩ := snippet_is_line src hs (posOf src k).line h1 hrange
  rw [hl] at hl2; cases hl2
  exact ⟨l, hsn, hc hnl⟩

/-- closed form of the lexer's rule (DESIGN Appendix D): line = 1 + number of newlines before
    offset `k`, column = runes since the last newline. -/
theorem posOf_closed_form (src : List Char) (k : Nat) (hk : k ≤ src.length) :
    posOf src k = { line := 1 + (src.take k).count '\n', col := colSince (src.take k) } := by
  unfold posOf
  rw [posOfAux_closed src k 1 0 hk]
  by_cases hm : '\n' ∈ src.take k
  · simp [hm]
  · simp only [hm, if_false, Nat.zero_add]
    congr 1
    unfold colSince
    have hall : ∀ x ∈ (src.take k).reverse, (fun c : Char => decide (c ≠ '\n')) x = true := by
      intro x hx
      have hx' : x ∈ src.take k := by simpa using hx
      have : x ≠ '\n' := fun e => hm (e ▸ hx')
      simpa using this
    have := takeWhile_append_of_all _ (src.take k).reverse [] hall
    simp only [List.append_nil, List.takeWhile_nil] at this
    rw [this]; simp [hk]

/-! ## Error.Bind -/

/-- `Bind` cannot panic -/
theorem bind_total (src : List Char) (e : FileError) : bind src e ≠ .panic := by
  unfold Src.bind
  cases h : snippet src e.line with
  | panic => exact absurd h (snippet_total src e.line)
  | ok p =>
    obtain ⟨s, b⟩ := p
    cases b
    · simp
    · simp only
      split <;> simp

/-- `Bind` changes nothing but the snippet -/
theorem bind_keeps_location (src : List Char) (e e' : FileError) (h : bind src e = .ok e') :
    e'.line = e.line ∧ e'.col = e.col ∧ e'.msg = e.msg := by
  unfold Src.bind at h
  split at h
  · cases h
  · cases h; exact ⟨rfl, rfl, rfl⟩
  · simp only at h
    split at h <;> (cases h; exact ⟨rfl, rfl, rfl⟩)

/-- **The rendered snippet is the source line the error names** (tabs shown as spaces): for every
    source and every error whose line exists, the snippet is `"\n | " ++ line`, optionally followed
    by an indicator line of dots and one caret. -/
theorem bind_snippet_is_line (src : List Char) (e : FileError) (hs : src ≠ []) (h1 : 1 ≤ e.line)
    (h2 : e.line ≤ numLines src) :
    ∃ l e', nthLine src (e.line - 1).toNat = some l ∧ bind src e = .ok e' ∧
      (e'.snippet = gutter ++ tabsToSpaces l ∨
       e'.snippet = gutter ++ tabsToSpaces l ++ gutter ++
          (List.replicate (min e.col.toNat l.length) '.' ++ ['^'])) := by
  obtain ⟨l, hl, hsn⟩ := snippet_is_line src hs e.line.toNat (by omega) (by omega)
  rw [show ((e.line.toNat : Nat) : Int) = e.line by omega] at hsn
  rw [show e.line.toNat - 1 = (e.line - 1).toNat by omega] at hl
  unfold Src.bind
  rw [hsn]
  simp only
  cases hi : indicator (tabsToSpaces l) e.col.toNat with
  | none => exact ⟨l, _, hl, rfl, Or.inl rfl⟩
  | some ind =>
    refine ⟨l, _, hl, rfl, Or.inr ?_⟩
    have := indicator_some _ _ _ hi
    rw [tabsToSpaces_length] at this
    simp [this]

/-- a line without tabs is rendered verbatim -/
theorem rendered_line_verbatim (l : List Char) (h : '\t' ∉ l) : tabsToSpaces l = l := tabsToSpaces_id l h

/-- **Caret under the column** on ASCII-only lines: the indicator line has the same 4-rune gutter as
    the source line, then exactly `col` dots, then the caret. -/
theorem bind_indicator (src : List Char) (e : FileError) (l : List Char) (hs : src ≠ []) (h1 : 1 ≤ e.line)
    (h2 : e.line ≤ numLines src) (hl : nthLine src (e.line - 1).toNat = some l)
    (hascii : ∀ c ∈ l, isMulti c = false) (hc0 : 0 ≤ e.col) (hc : e.col ≤ l.length) :
    bind src e = .ok { e with snippet := gutter ++ tabsToSpaces l ++ gutter ++ (List.replicate e.col.toNat '.' ++ ['^']) } := by
  obtain ⟨l', hl', hsn⟩ := snippet_is_line src hs e.line.toNat (by omega) (by omega)
  rw [show ((e.line.toNat : Nat) : Int) = e.line by omega] at hsn
  rw [show e.line.toNat - 1 = (e.line - 1).toNat by omega, hl] at hl'
  cases hl'
  unfold Src.bind
  rw [hsn]
  simp only
  rw [indicator_ascii _ _ (tabsToSpaces_ascii l hascii), tabsToSpaces_length]
  simp only
  rw [show min e.col.toNat l.length = e.col.toNat by omega]

/-- **Multi-byte quirk, as the code behaves**: when the named line has a rune ≥ U+0080 at or before
    the column, `Bind` jumps to `noind:` — the snippet is the bare source line, with no indicator line
    (so nothing marks the column), but it *is* still set and still the line it names. -/
theorem bind_no_indicator_on_multibyte (src : List Char) (e : FileError) (l : List Char) (hs : src ≠ [])
    (h1 : 1 ≤ e.line) (h2 : e.line ≤ numLines src) (hl : nthLine src (e.line - 1).toNat = some l)
    (i : Nat) (c : Char) (hi : (i : Int) ≤ e.col) (hc : l[i]? = some c) (hm : isMulti c = true) :
    bind src e = .ok { e with snippet := gutter ++ tabsToSpaces l } := by
  obtain ⟨l', hl', hsn⟩ := snippet_is_line src hs e.line.toNat (by omega) (by omega)
  rw [show ((e.line.toNat : Nat) : Int) = e.line by omega] at hsn
  rw [show e.line.toNat - 1 = (e.line - 1).toNat by omega, hl] at hl'
  cases hl'
  unfold Src.bind
  rw [hsn]
  simp only
  have : indicator (tabsToSpaces l) e.col.toNat = none :=
    (indicator_none_iff _ _).mpr ⟨i, c, by omega, tabsToSpaces_multi l i c hc hm, hm⟩
  rw [this]

/-- witness of the quirk: `é+` with an error at column 1 (the `+`) gets the line but no caret;
    the same error in `e+` gets `.^`. -/
theorem bind_multibyte_witness :
    bind "é+\nx".toList { line := 1, col := 1, msg := "m".toList } =
      .ok { line := 1, col := 1, msg := "m".toList, snippet := "\n | é+".toList } ∧
    bind "e+\nx".toList { line := 1, col := 1, msg := "m".toList } =
      .ok { line := 1, col := 1, msg := "m".toList, snippet := "\n | e+\n | .^".toList } := by
  decide

/-- a line that does not exist (or an empty source) leaves the error without snippet -/
theorem bind_line_missing (src : List Char) (e : FileError)
    (h : src = [] ∨ e.line < 1 ∨ (numLines src : Int) < e.line) : bind src e = .ok e := by
  have : snippet src e.line = .ok ([], false) := by
    rcases h with h | h | h
    · subst h; exact snippet_empty_source _
    · exact snippet_out_of_range _ _ (Or.inl (by omega))
    · exact snippet_out_of_range _ _ (Or.inr h)
  unfold Src.bind; rw [this]

/-- `format`: an empty location (0:0) prints the bare message — nothing points into the source -/
theorem format_empty_location (msg snip : List Char) :
    format { line := 0, col := 0, msg := msg, snippet := snip } = msg := by
  simp [format, locEmpty]

/-- non-vacuity of the hypotheses above on a 3-line, non-ASCII, tabbed source -/
example : let src := "a\t+ 'é'\n  b.c\n".toList
    src ≠ [] ∧ numLines src = 3 ∧ nthLine src 1 = some "  b.c".toList ∧ nthLine src 2 = some [] ∧
    posOf src 8 = { line := 2, col := 0 } ∧ posOf src 12 = { line := 2, col := 4 } ∧
    snippet src 2 = .ok ("  b.c".toList, true) ∧ snippet src 3 = .ok ([], true) ∧
    snippet src 4 = .ok ([], false) ∧ snippet src 0 = .ok ([], false) ∧ snippet src (-1) = .ok ([], false) := by
  decide

end ExprModel.C13
