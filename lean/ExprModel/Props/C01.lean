import ExprModel.Proofs.RefineTop
import ExprModel.Proofs.RefineLoopAll
import ExprModel.Proofs.RefineExample
/-
C01 — Compiled evaluation conforms to the language definition.

Models: `compileNode` / `compileProgram` (Code/Compile.lean), byte-level `step` / `run` (VM/Step.lean), the
reference evaluator `Spec.eval` / `Spec.run` (Spec/Eval.lean); all three are compared with the real code on
every run (harness/c01.go).  Here: the refinement theorem between them, for every construct including the
seven loop builtins with nested closures, value and failure direction.

`Conforms c P k len ctx n`: from *any* VM state whose instruction pointer is at byte offset `k` (any stack,
the scope stack matching the closure context, any counters), running the program reaches offset `k + len`
with exactly the Spec's value pushed on the untouched stack, scopes untouched, and memory/created/call-log
equal to the Spec's — or reaches a failing step of exactly the Spec's error class with the Spec's
memory/created/call-log.  Equality of call logs is "every evaluated call exactly once, left to right";
connectives and conditionals evaluating only what they need is part of `Spec.eval`'s definition.
The Spec is taken at `specOf c`: the two deviations of the unchanged code that the Spec can mirror are
mirrored (slice evaluates its upper bound first — C01 finding 19; `OpRange`'s signed count — C06).
-/
set_option linter.unusedVariables false
namespace ExprModel.C01
open ExprModel
open ExprModel.Refine
open ExprModel.Spec

/-- the statement of conformance for the code of one node placed at byte offset `k` (length `len`) -/
def Conforms (c : Cfg) (P : Prog) (k len : Nat) (ctx : Ctx) (n : Node) : Prop :=
  ∀ (s : VM), s.ip = k → s.limit = c.budget → ScopesOK ctx s.scopes →
    ∀ (r : R Val) (σ' : SState), eval (specOf c) ctx n (obs s) = (r, σ') →
      match r with
      | .ok v => ∃ t, Steps c P s t ∧ t.ip = k + len ∧ t.stack = v :: s.stack ∧ t.scopes = s.scopes ∧
          t.limit = s.limit ∧ obs t = σ'
      | .error e => ∃ s1 s2, Steps c P s s1 ∧ s1.ip < P.code.size ∧ step c P s1 = .error (e, s2) ∧ obs s2 = σ'

theorem conforms_of_sim {c : Cfg} {P : Prog} {k : Nat} {code : List LInstr} {ctx : Ctx} {n : Node}
    (hcode : CodeAt P k code) (h : Sim c P ctx n code) : Conforms c P k (lsize code) ctx n := by
  intro s hip hlim hsc r σ' hev
  have hs : noPP (vm k s.stack s.scopes (obs s) c.budget) = noPP s := by
    obtain ⟨st, scs, ip, pp, mem, lim, cr, lg⟩ := s
    simp only at hip hlim
    subst hip hlim
    rfl
  have hrun := (h k s.stack s.scopes (obs s) r σ' hcode hsc hev).congr_noPP hs
  cases r with
  | ok v =>
    obtain ⟨t, ht, htt⟩ := hrun
    refine ⟨t, ht, ?_⟩
    have e1 := congrArg VM.ip htt
    have e2 := congrArg VM.stack htt
    have e3 := congrArg VM.scopes htt
    have e4 := congrArg VM.limit htt
    have e5 := congrArg obs htt
    exact ⟨e1, e2, e3, e4.trans hlim.symm, e5⟩
  | error e => exact hrun

/-! ### the statements at full strength -/

/-- Full strength: only well-formedness of the tree (`Good`: pair nodes exactly inside map literals, loop
    collections of fewer than 2^63 elements) and `EnvOK` (a `mapEnv` compilation runs on a map). -/
def compile_correct_goal : Prop :=
  ∀ (n : Node) (cfg : CompCfg) (code : List LInstr) (pool' : Pool), compileNode cfg n {} = .ok (code, pool') →
  ∀ (P : Prog) (pre post : List LInstr), P.code = (encodeAll ((pre ++ code ++ post).map (·.instr))).toArray →
    PoolExt pool' P.consts →
  ∀ (c : Cfg), EnvOK c cfg → Good (SmallColl c) n → ∀ (ctx : Ctx), Conforms c P (lsize pre) (lsize code) ctx n

def run_conforms_goal : Prop :=
  ∀ (cfg : CompCfg) (n : Node) (cp : Compiled) (c : Cfg), compileProgram cfg n = .ok cp → EnvOK c cfg →
    Good (SmallColl c) n →
    ∃ N, ∀ fuel, N ≤ fuel → RunAgrees (run c (progOf cp) fuel) (Spec.run (specOf c) cfg.cast n)

/-! ### what is proved: all constructs, value and failure, under two exclusions

  * `FitsU16 code` — every operand fits 16 bits: the code's own limit; beyond it `patchJump` truncates (C05,
    finding 18, reproduced);
  * `AliasFree F` with `FloatsIn F n` (and `PoolInv F pool` for a non-empty initial pool) — `makeConstant`
    de-duplicates through a Go map keyed by the constant, i.e. compares float constants with `==`: two
    *different* float constants of one program that are `==` (`+0.0` and `-0.0`) would share one pool slot.
    `F` is any set of values containing the tree's float constants on which the key equality is exact. -/

theorem compile_correct_partial (n : Node) : ∀ (cfg : CompCfg) (pool pool' : Pool) (code : List LInstr) (F : Val → Prop),
    compileNode cfg n pool = .ok (code, pool') → AliasFree F → PoolInv F pool → FloatsIn F n →
    ∀ (P : Prog) (pre post : List LInstr), P.code = (encodeAll ((pre ++ code ++ post).map (·.instr))).toArray →
      PoolExt pool' P.consts → FitsU16 code →
    ∀ (c : Cfg), EnvOK c cfg → Good (SmallColl c) n → ∀ (ctx : Ctx), Conforms c P (lsize pre) (lsize code) ctx n := by
  intro cfg pool pool' code F hc hF hinv hfl P pre post hP hK hfit c henv hg ctx
  exact conforms_of_sim (codeAt_of_layout hP hfit)
    (compile_sim hc hF hinv hfl hg hK henv (loopCase_holds c P) ctx)

/-- C05's balance statement is the shape of the success case: the stack found plus one value, the scope
    stack found — for every construct, loops included. -/
theorem compile_balanced_partial (n : Node) (cfg : CompCfg) (pool pool' : Pool) (code : List LInstr) (F : Val → Prop)
    (hc : compileNode cfg n pool = .ok (code, pool')) (hF : AliasFree F) (hinv : PoolInv F pool) (hfl : FloatsIn F n)
    (P : Prog) (pre post : List LInstr)
    (hP : P.code = (encodeAll ((pre ++ code ++ post).map (·.instr))).toArray) (hK : PoolExt pool' P.consts)
    (hfit : FitsU16 code) (c : Cfg) (henv : EnvOK c cfg) (hg : Good (SmallColl c) n) (ctx : Ctx) (s : VM)
    (hip : s.ip = lsize pre) (hlim : s.limit = c.budget) (hsc : ScopesOK ctx s.scopes) (v : Val) (σ' : SState)
    (hev : eval (specOf c) ctx n (obs s) = (.ok v, σ')) :
    ∃ t, Steps c P s t ∧ t.ip = lsize pre + lsize code ∧ t.stack.length = s.stack.length + 1 ∧
      t.stack.tail = s.stack ∧ t.scopes = s.scopes := by
  obtain ⟨t, ht, h1, h2, h3, _, _⟩ :=
    compile_correct_partial n cfg pool pool' code F hc hF hinv hfl P pre post hP hK hfit c henv hg ctx s hip hlim hsc _ _ hev
  exact ⟨t, ht, h1, by simp [h2], by simp [h2], h3⟩

/-- whole programs: for enough fuel `run` returns the Spec's result (value or error class), the Spec's
    memory/created/call-log, and on success an empty stack and no open scope; `cast` epilogue included -/
theorem run_conforms_partial (cfg : CompCfg) (n : Node) (cp : Compiled) (F : Val → Prop) (c : Cfg)
    (hc : compileProgram cfg n = .ok cp) (hF : AliasFree F) (hfl : FloatsIn F n) (hfit : FitsU16 cp.code)
    (henv : EnvOK c cfg) (hg : Good (SmallColl c) n) :
    ∃ N, ∀ fuel, N ≤ fuel → RunAgrees (run c (progOf cp) fuel) (Spec.run (specOf c) cfg.cast n) :=
  run_conforms_gen hc hF hfl hg hfit henv (loopCase_holds c _)

/-- the hypotheses are satisfiable on a tree with a loop, a closure, `#`, `and`, an identifier and `==`:
    `all(1..3, {# > 0 and I == 1})`, in every world, environment and budget -/
example (c : Cfg) : ∃ N, ∀ fuel, N ≤ fuel →
    RunAgrees (run c (progOf exCompiled) fuel) (Spec.run (specOf c) none exTree) :=
  run_conforms_partial {} exTree exCompiled (fun _ => False) c ex_compiles (fun _ _ h => h.elim) ex_floats
    ex_fits (fun h => by cases h) (ex_good c)

example (c : Cfg) (ctx : Ctx) : Conforms c (progOf exCompiled) 0 (lsize exCompiled.code) ctx exTree := by
  have hc : compileNode {} exTree {} = .ok (exCompiled.code, ⟨exCompiled.consts, []⟩) := rfl
  exact compile_correct_partial exTree {} {} _ _ (fun _ => False) hc (fun _ _ h => h.elim)
    ⟨fun i w h => by simp at h, fun o h => by cases h⟩ ex_floats (progOf exCompiled) [] []
    (by simp [progOf, Compiled.bytes]) (PoolExt.refl _) ex_fits c (fun h => by cases h) (ex_good c) ctx

/-- a successful run never pops an empty stack and leaves stack and scopes empty (`final_stack_singleton`,
    `final_scopes_empty` of C05), and a failing run fails with a class the Spec produces -/
theorem run_result_partial (cfg : CompCfg) (n : Node) (cp : Compiled) (F : Val → Prop) (c : Cfg)
    (hc : compileProgram cfg n = .ok cp) (hF : AliasFree F) (hfl : FloatsIn F n) (hfit : FitsU16 cp.code)
    (henv : EnvOK c cfg) (hg : Good (SmallColl c) n) :
    ∃ N, ∀ fuel, N ≤ fuel → (run c (progOf cp) fuel).1 = (Spec.run (specOf c) cfg.cast n).1 :=
  let ⟨N, h⟩ := run_conforms_partial cfg n cp F c hc hF hfl hfit henv hg
  ⟨N, fun fuel hf => (h fuel hf).1⟩

/-! ### Stage A alone (no loop builtin): no size hypothesis on collections -/

theorem compile_correct_stageA (n : Node) : ∀ (cfg : CompCfg) (pool pool' : Pool) (code : List LInstr) (F : Val → Prop),
    compileNode cfg n pool = .ok (code, pool') → AliasFree F → PoolInv F pool → FloatsIn F n → Good (fun _ => False) n →
    ∀ (P : Prog) (pre post : List LInstr), P.code = (encodeAll ((pre ++ code ++ post).map (·.instr))).toArray →
      PoolExt pool' P.consts → FitsU16 code →
    ∀ (c : Cfg), EnvOK c cfg → ∀ (ctx : Ctx), Conforms c P (lsize pre) (lsize code) ctx n := by
  intro cfg pool pool' code F hc hF hinv hfl hg P pre post hP hK hfit c henv ctx
  exact conforms_of_sim (codeAt_of_layout hP hfit)
    (compile_sim hc hF hinv hfl hg hK henv (fun _ _ _ _ _ _ _ _ _ _ _ _ h => h.elim) ctx)

theorem run_conforms_stageA (cfg : CompCfg) (n : Node) (cp : Compiled) (F : Val → Prop) (c : Cfg)
    (hc : compileProgram cfg n = .ok cp) (hF : AliasFree F) (hfl : FloatsIn F n) (hg : Good (fun _ => False) n)
    (hfit : FitsU16 cp.code) (henv : EnvOK c cfg) :
    ∃ N, ∀ fuel, N ≤ fuel → RunAgrees (run c (progOf cp) fuel) (Spec.run (specOf c) cfg.cast n) :=
  run_conforms_gen hc hF hfl hg hfit henv (fun _ _ _ _ _ _ _ _ _ _ _ _ h => h.elim)

example (c : Cfg) : ∃ N, ∀ fuel, N ≤ fuel →
    RunAgrees (run c (progOf exCompiledA) fuel) (Spec.run (specOf c) none exTreeA) :=
  run_conforms_stageA {} exTreeA exCompiledA (fun _ => False) c exA_compiles (fun _ _ h => h.elim) exA_floats
    exA_good exA_fits (fun h => by cases h)

end ExprModel.C01
