import ExprModel.Proofs.RefineTop
/-
C01 — Compiled evaluation conforms to the language definition.

Models: `compileNode` / `compileProgram` (Code/Compile.lean), byte-level `step` / `run` (VM/Step.lean), the
reference evaluator `Spec.eval` / `Spec.run` (Spec/Eval.lean); all three are compared with the real code on
every run (harness/c01.go).  Here: the refinement theorem between them.

`Conforms c P k len ctx n`: from *any* VM state whose instruction pointer is at byte offset `k` (any stack,
the scope stack matching the closure context, any counters), running the program reaches offset `k + len`
with exactly the Spec's value pushed on the untouched stack, scopes untouched, and memory/created/call-log
equal to the Spec's — or reaches a failing step of exactly the Spec's error class with the Spec's
memory/created/call-log.  Equality of call logs is "every evaluated call exactly once, left to right";
connectives and conditionals evaluating only what they need is part of `Spec.eval`'s definition.
-/
set_option linter.unusedVariables false
namespace ExprModel.C01
open ExprModel
open ExprModel.Refine
open ExprModel.Spec

/-- the statement of conformance for the code of one node placed at byte offset `k` (length `len`) -/
def Conforms (c : Cfg) (P : Prog) (k len : Nat) (ctx : Ctx) (n : Node) : Prop :=
  ∀ (s : VM), s.ip = k → s.limit = c.budget → ScopesOK ctx s.scopes →
    ∀ (r : R Val) (σ' : SState), eval (specOf c) ctx n (obs s) = (r, σ') →
      match r with
      | .ok v => ∃ t, Steps c P s t ∧ t.ip = k + len ∧ t.stack = v :: s.stack ∧ t.scopes = s.scopes ∧
          t.limit = s.limit ∧ obs t = σ'
      | .error e => ∃ s1 s2, Steps c P s s1 ∧ s1.ip < P.code.size ∧ step c P s1 = .error (e, s2) ∧ obs s2 = σ'

theorem conforms_of_sim {c : Cfg} {P : Prog} {k : Nat} {code : List LInstr} {ctx : Ctx} {n : Node}
    (hcode : CodeAt P k code) (h : Sim c P ctx n code) : Conforms c P k (lsize code) ctx n := by
  intro s hip hlim hsc r σ' hev
  have hs : noPP (vm k s.stack s.scopes (obs s) c.budget) = noPP s := by
    obtain ⟨st, scs, ip, pp, mem, lim, cr, lg⟩ := s
    simp only at hip hlim
    subst hip hlim
    rfl
  have hrun := (h k s.stack s.scopes (obs s) r σ' hcode hsc hev).congr_noPP hs
  cases r with
  | ok v =>
    obtain ⟨t, ht, htt⟩ := hrun
    refine ⟨t, ht, ?_⟩
    have e1 := congrArg VM.ip htt
    have e2 := congrArg VM.stack htt
    have e3 := congrArg VM.scopes htt
    have e4 := congrArg VM.limit htt
    have e5 := congrArg obs htt
    exact ⟨e1, e2, e3, e4.trans hlim.symm, e5⟩
  | error e => exact hrun

/-! ### Stage A: every construct except the seven loop builtins -/

/-- Hypotheses, all visible:
  * `Good (fun _ => False) n` — well-formed tree (pair nodes exactly as elements of map literals), no loop builtin;
  * `AliasFree F`, `FloatsIn F n`, `PoolInv F pool` — the constant pool's de-duplication compares float
    constants with `==`; no two *different* float constants of the tree (or the initial pool) may be equal
    under it (in IEEE terms: `+0.0` and `-0.0` both occurring);
  * `FitsU16 code` — every operand fits 16 bits (the code's own limit, C05);
  * `EnvOK c cfg` — with `mapEnv` the environment really is a map. -/
theorem compile_correct_stageA (n : Node) : ∀ (cfg : CompCfg) (pool pool' : Pool) (code : List LInstr) (F : Val → Prop),
    compileNode cfg n pool = .ok (code, pool') → AliasFree F → PoolInv F pool → FloatsIn F n → Good (fun _ => False) n →
    ∀ (P : Prog) (pre post : List LInstr), P.code = (encodeAll ((pre ++ code ++ post).map (·.instr))).toArray →
      PoolExt pool' P.consts → FitsU16 code →
    ∀ (c : Cfg), EnvOK c cfg → ∀ (ctx : Ctx), Conforms c P (lsize pre) (lsize code) ctx n := by
  intro cfg pool pool' code F hc hF hinv hfl hg P pre post hP hK hfit c henv ctx
  exact conforms_of_sim (codeAt_of_layout hP hfit)
    (compile_sim hc hF hinv hfl hg hK henv (fun _ _ _ _ _ _ _ _ _ _ _ _ h => h.elim) ctx)

/-- C05's balance statement is the shape of the success case: the stack found plus one value, the scope stack found. -/
theorem compile_balanced_stageA (n : Node) (cfg : CompCfg) (pool pool' : Pool) (code : List LInstr) (F : Val → Prop)
    (hc : compileNode cfg n pool = .ok (code, pool')) (hF : AliasFree F) (hinv : PoolInv F pool) (hfl : FloatsIn F n)
    (hg : Good (fun _ => False) n) (P : Prog) (pre post : List LInstr)
    (hP : P.code = (encodeAll ((pre ++ code ++ post).map (·.instr))).toArray) (hK : PoolExt pool' P.consts)
    (hfit : FitsU16 code) (c : Cfg) (henv : EnvOK c cfg) (ctx : Ctx) (s : VM) (hip : s.ip = lsize pre)
    (hlim : s.limit = c.budget) (hsc : ScopesOK ctx s.scopes) (v : Val) (σ' : SState)
    (hev : eval (specOf c) ctx n (obs s) = (.ok v, σ')) :
    ∃ t, Steps c P s t ∧ t.ip = lsize pre + lsize code ∧ t.stack.length = s.stack.length + 1 ∧
      t.stack.tail = s.stack ∧ t.scopes = s.scopes := by
  obtain ⟨t, ht, h1, h2, h3, _, _⟩ :=
    compile_correct_stageA n cfg pool pool' code F hc hF hinv hfl hg P pre post hP hK hfit c henv ctx s hip hlim hsc _ _ hev
  exact ⟨t, ht, h1, by simp [h2], by simp [h2], h3⟩

/-- whole programs: for enough fuel `run` returns the Spec's result (value or error class), the Spec's
    memory/created/call-log, and on success an empty stack and no open scope; `cast` epilogue included -/
theorem run_conforms_stageA (cfg : CompCfg) (n : Node) (cp : Compiled) (F : Val → Prop) (c : Cfg)
    (hc : compileProgram cfg n = .ok cp) (hF : AliasFree F) (hfl : FloatsIn F n) (hg : Good (fun _ => False) n)
    (hfit : FitsU16 cp.code) (henv : EnvOK c cfg) :
    ∃ N, ∀ fuel, N ≤ fuel → RunAgrees (run c (progOf cp) fuel) (Spec.run (specOf c) cfg.cast n) :=
  run_conforms_gen hc hF hfl hg hfit henv (fun _ _ _ _ _ _ _ _ _ _ _ _ h => h.elim)

end ExprModel.C01
