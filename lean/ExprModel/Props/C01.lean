import ExprModel.Proofs.FitsGuard
import ExprModel.Proofs.RefineTop
import ExprModel.Proofs.RefineLoopAll
import ExprModel.Proofs.RefineExample
import ExprModel.Proofs.RefineFloats
import ExprModel.Api.Pipeline
import ExprModel.Proofs.RefineBenignAll
import ExprModel.Props.C02
/-
C01 — Compiled evaluation conforms to the language definition.

Models: `compileNode` / `compileProgram` (Code/Compile.lean), byte-level `step` / `run` (VM/Step.lean), the
reference evaluator `Spec.eval` / `Spec.run` (Spec/Eval.lean); all three are compared with the real code on
every run (harness/c01.go).  Here: the refinement theorem between them, for every construct including the
seven loop builtins with nested closures, value and failure direction.

`Conforms c P k len ctx n`: from *any* VM state whose instruction pointer is at byte offset `k` (any stack,
the scope stack matching the closure context, any counters), running the program reaches offset `k + len`
with exactly the Spec's value pushed on the untouched stack, scopes untouched, and memory/created/call-log
equal to the Spec's — or reaches a failing step of exactly the Spec's error class with the Spec's
memory/created/call-log.  Equality of call logs is "every evaluated call exactly once, left to right";
connectives and conditionals evaluating only what they need is part of `Spec.eval`'s definition.
The Spec is taken at `specOf c`: the two deviations of the unchanged code that the Spec can mirror are
mirrored (slice evaluates its upper bound first — C01 finding 19; `OpRange`'s signed count — C06).
-/
set_option linter.unusedVariables false
namespace ExprModel.C01
open ExprModel
open ExprModel.Refine
open ExprModel.Spec

/-- the statement of conformance for the code of one node placed at byte offset `k` (length `len`) -/
def Conforms (c : Cfg) (P : Prog) (k len : Nat) (ctx : Ctx) (n : Node) : Prop :=
  ∀ (s : VM), s.ip = k → s.limit = c.budget → ScopesOK ctx s.scopes →
    ∀ (r : R Val) (σ' : SState), eval (specOf c) ctx n (obs s) = (r, σ') →
      match r with
      | .ok v => ∃ t, Steps c P s t ∧ t.ip = k + len ∧ t.stack = v :: s.stack ∧ t.scopes = s.scopes ∧
          t.limit = s.limit ∧ obs t = σ'
      | .error e => ∃ s1 s2, Steps c P s s1 ∧ s1.ip < P.code.size ∧ step c P s1 = .error (e, s2) ∧ obs s2 = σ'

theorem conforms_of_sim {c : Cfg} {P : LProg} {k : Nat} {code : List LInstr} {ctx : Ctx} {n : Node}
    (hcode : CodeAt P k code) (hbl : ∀ e l, P.blame e l) (h : Sim c P ctx n code) :
    Conforms c P.prog k (lsize code) ctx n := by
  intro s hip hlim hsc r σ' hev
  have hs : noPP (vm k s.stack s.scopes (obs s) c.budget) = noPP s := by
    obtain ⟨st, scs, ip, pp, mem, lim, cr, lg⟩ := s
    simp only at hip hlim
    subst hip hlim
    rfl
  have hrun := (h k s.stack s.scopes (obs s) r σ' hcode hsc hev (fun e l _ _ => hbl e l)).congr_noPP hs
  cases r with
  | ok v =>
    obtain ⟨t, ht, htt⟩ := hrun
    refine ⟨t, ht, ?_⟩
    have e1 := congrArg VM.ip htt
    have e2 := congrArg VM.stack htt
    have e3 := congrArg VM.scopes htt
    have e4 := congrArg VM.limit htt
    have e5 := congrArg obs htt
    exact ⟨e1, e2, e3, e4.trans hlim.symm, e5⟩
  | error e =>
    obtain ⟨s1, s2, h1, h2, h3, h4, _⟩ := hrun
    exact ⟨s1, s2, h1, h2, h3, h4⟩

/-! ### the statements at full strength -/

/-- Full strength: only well-formedness of the tree (`Good`: pair nodes exactly inside map literals, loop
    collections of fewer than 2^63 elements) and `EnvOK` (a `mapEnv` compilation runs on a map). -/
def compile_correct_goal : Prop :=
  ∀ (n : Node) (cfg : CompCfg) (code : List LInstr) (pool' : Pool), compileNode cfg n {} = .ok (code, pool') →
  ∀ (P : Prog) (pre post : List LInstr), P.code = (encodeAll ((pre ++ code ++ post).map (·.instr))).toArray →
    PoolExt pool' P.consts →
  ∀ (c : Cfg), EnvOK c cfg → Good (SmallColl c) n → ∀ (ctx : Ctx), Conforms c P (lsize pre) (lsize code) ctx n

def run_conforms_goal : Prop :=
  ∀ (cfg : CompCfg) (n : Node) (cp : Compiled) (c : Cfg), compileProgram cfg n = .ok cp → EnvOK c cfg →
    Good (SmallColl c) n →
    ∃ N, ∀ fuel, N ≤ fuel → RunAgrees (run c (progOf cp) fuel) (Spec.run (specOf c) cfg.cast n)

/-! ### what is proved: all constructs, value and failure, under two exclusions

  * `FitsU16 code` — every operand fits 16 bits: the code's own limit; beyond it `patchJump` truncates (C05,
    finding 18, reproduced);
  * `AliasFree F` with `FloatsIn F n` (and `PoolInv F pool` for a non-empty initial pool) — `makeConstant`
    de-duplicates through a Go map keyed by the constant, i.e. compares float constants with `==`: two
    *different* float constants of one program that are `==` (`+0.0` and `-0.0`) would share one pool slot.
    `F` is any set of values containing the tree's float constants on which the key equality is exact. -/

theorem compile_correct_partial (n : Node) : ∀ (cfg : CompCfg) (pool pool' : Pool) (code : List LInstr) (F : Val → Prop),
    compileNode cfg n pool = .ok (code, pool') → AliasFree F → PoolInv F pool → FloatsIn F n →
    ∀ (P : Prog) (pre post : List LInstr), P.code = (encodeAll ((pre ++ code ++ post).map (·.instr))).toArray →
      PoolExt pool' P.consts → FitsU16 code →
    ∀ (c : Cfg), EnvOK c cfg → Good (SmallColl c) n → ∀ (ctx : Ctx), Conforms c P (lsize pre) (lsize code) ctx n := by
  intro cfg pool pool' code F hc hF hinv hfl P pre post hP hK hfit c henv hg ctx
  let L : LProg := ⟨P, pre ++ code ++ post, hP, fun _ _ => True⟩
  exact conforms_of_sim (P := L) (codeAt_of_layout rfl hfit) (fun _ _ => trivial)
    (compile_sim hc hF hinv hfl hg hK henv (loopCase_holds c L) ctx)

/-- C05's balance statement is the shape of the success case: the stack found plus one value, the scope
    stack found — for every construct, loops included. -/
theorem compile_balanced_partial (n : Node) (cfg : CompCfg) (pool pool' : Pool) (code : List LInstr) (F : Val → Prop)
    (hc : compileNode cfg n pool = .ok (code, pool')) (hF : AliasFree F) (hinv : PoolInv F pool) (hfl : FloatsIn F n)
    (P : Prog) (pre post : List LInstr)
    (hP : P.code = (encodeAll ((pre ++ code ++ post).map (·.instr))).toArray) (hK : PoolExt pool' P.consts)
    (hfit : FitsU16 code) (c : Cfg) (henv : EnvOK c cfg) (hg : Good (SmallColl c) n) (ctx : Ctx) (s : VM)
    (hip : s.ip = lsize pre) (hlim : s.limit = c.budget) (hsc : ScopesOK ctx s.scopes) (v : Val) (σ' : SState)
    (hev : eval (specOf c) ctx n (obs s) = (.ok v, σ')) :
    ∃ t, Steps c P s t ∧ t.ip = lsize pre + lsize code ∧ t.stack.length = s.stack.length + 1 ∧
      t.stack.tail = s.stack ∧ t.scopes = s.scopes := by
  obtain ⟨t, ht, h1, h2, h3, _, _⟩ :=
    compile_correct_partial n cfg pool pool' code F hc hF hinv hfl P pre post hP hK hfit c henv hg ctx s hip hlim hsc _ _ hev
  exact ⟨t, ht, h1, by simp [h2], by simp [h2], h3⟩

/-- whole programs: for enough fuel `run` returns the Spec's result (value or error class), the Spec's
    memory/created/call-log, and on success an empty stack and no open scope; `cast` epilogue included -/
theorem run_conforms_partial (cfg : CompCfg) (n : Node) (cp : Compiled) (F : Val → Prop) (c : Cfg)
    (hc : compileProgram cfg n = .ok cp) (hF : AliasFree F) (hfl : FloatsIn F n) (hfit : FitsU16 cp.code)
    (henv : EnvOK c cfg) (hg : Good (SmallColl c) n) :
    ∃ N, ∀ fuel, N ≤ fuel → RunAgrees (run c (progOf cp) fuel) (Spec.run (specOf c) cfg.cast n) :=
  run_conforms_gen hc hF hfl hg hfit henv (loopCase_holds c _)

/-- the hypotheses are satisfiable on a tree with a loop, a closure, `#`, `and`, an identifier and `==`:
    `all(1..3, {# > 0 and I == 1})`, in every world, environment and budget -/
example (c : Cfg) : ∃ N, ∀ fuel, N ≤ fuel →
    RunAgrees (run c (progOf exCompiled) fuel) (Spec.run (specOf c) none exTree) :=
  run_conforms_partial {} exTree exCompiled (fun _ => False) c ex_compiles (fun _ _ h => h.elim) ex_floats
    ex_fits (fun h => by cases h) (ex_good c)

example (c : Cfg) (ctx : Ctx) : Conforms c (progOf exCompiled) 0 (lsize exCompiled.code) ctx exTree := by
  have hc : compileNode {} exTree {} = .ok (exCompiled.code, ⟨exCompiled.consts, []⟩) := rfl
  exact compile_correct_partial exTree {} {} _ _ (fun _ => False) hc (fun _ _ h => h.elim)
    ⟨fun i w h => by simp at h, fun o h => by cases h⟩ ex_floats (progOf exCompiled) [] []
    (by simp [progOf, Compiled.bytes]) (PoolExt.refl _) ex_fits c (fun h => by cases h) (ex_good c) ctx

/-- The same with the float hypotheses as one *computable* check on the tree: `floatsOK n` — float constants
    arise from float literals only (no float `ConstantNode`, no float-typed integer literal), and no two literals
    with different bit patterns are `==` (not `0.0` together with `-0.0`).  Every tree the parser produces from
    source text without ConstExpr substitutions can be tested with it by evaluation. -/
theorem run_conforms_checked (cfg : CompCfg) (n : Node) (cp : Compiled) (c : Cfg)
    (hc : compileProgram cfg n = .ok cp) (hfl : floatsOK n = true) (hfit : FitsU16 cp.code)
    (henv : EnvOK c cfg) (hg : Good (SmallColl c) n) :
    ∃ N, ∀ fuel, N ≤ fuel → RunAgrees (run c (progOf cp) fuel) (Spec.run (specOf c) cfg.cast n) :=
  run_conforms_partial cfg n cp _ c hc (floatsOK_spec hfl).1 (floatsOK_spec hfl).2 hfit henv hg

example : floatsOK exTree = true := by decide

/-! ### why `AliasFree` is there: the constant pool identifies floats that are `==`

Known finding `c01:negative-zero-constant-aliased` (exhibited on the real code by harness/c01.go: a ConstExpr
function returning `-0.0` next to a literal `0.0`).  Lean's `Float` operations are opaque to the kernel, so the
IEEE fact `0.0 == -0.0` enters as the hypothesis `(a == b) = true`: whenever it holds the compiled program
pushes constant 0 twice — the run yields `[a, a]` — while the language definition yields `[a, b]`. -/

/-- the tree `[a, b]` of two float constants (as a ConstExpr function leaves them) -/
def twoFloats (a b : Float) : Node := .array {} [.const {} (.f64 a), .const {} (.f64 b)]

theorem negzero_alias_witness (a b : Float) (hab : (a == b) = true) :
    compileProgram {} (twoFloats a b) =
      .ok ⟨[li {} .push 0, li {} .push 0, li {} .push 1, li {} .array], #[.f64 a, .int .int 2]⟩ ∧
    ∀ sc : SCfg, 2 < sc.budget → (Spec.run sc none (twoFloats a b)).1 = .ok (.arr .iface [.f64 a, .f64 b]) := by
  constructor
  · have h1 : mkConst (.f64 a) {} = .ok (0, ⟨#[.f64 a], []⟩) := rfl
    have h2 : mkConst (.f64 b) ⟨#[.f64 a], []⟩ = .ok (0, ⟨#[.f64 a], []⟩) := by
      simp [mkConst, hashable, Pool.findIdx, constKeyEq, hab, List.range, List.range.loop]
    have h3 : mkConst (.int .int 2) ⟨#[.f64 a], []⟩ = .ok (1, ⟨#[.f64 a, .int .int 2], []⟩) := by
      simp [mkConst, hashable, Pool.findIdx, constKeyEq, List.range, List.range.loop]
    simp [compileProgram, twoFloats, compileNode_array, compileList_cons, compileList_nil, compileNode_const, h1, h2, h3,
      bind, Except.bind, pure, Except.pure]
  · intro sc hb
    have he : eval sc [] (twoFloats a b) {} =
        (.ok (.arr .iface [.f64 a, .f64 b]), ⟨2, 2, []⟩) := by
      unfold twoFloats
      rw [eval_array, SM.bind_apply, evalList_cons _ _ _ _ rfl, SM.bind_apply, eval_const, SM.pure_apply]
      simp only []
      rw [SM.bind_apply, evalList_cons _ _ _ _ rfl, SM.bind_apply, eval_const, SM.pure_apply]
      simp only []
      rw [SM.bind_apply, evalList_nil, SM.pure_apply]
      simp only [SM.pure_apply]
      have := alloc_tail sc.budget 2 (.arr .iface [.f64 a, .f64 b]) {}
      simp only [List.length_cons, List.length_nil] at this ⊢
      rw [this]
      have hlt : ¬ ((allocd {} ((2 : Nat) : Int) 2).memory ≥ sc.budget) := by
        show ¬ ((0 : Int) + ((2 : Nat) : Int) ≥ sc.budget)
        omega
      rw [if_neg hlt]
      rfl
    rw [specRun_eq _ _ _ _ _ he]
    rfl

/-- … and then no `F` containing both constants is alias-free unless they are the same float -/
theorem negzero_not_aliasfree (a b : Float) (hab : (a == b) = true) (hne : a ≠ b) (F : Val → Prop)
    (ha : F (.f64 a)) (hb : F (.f64 b)) : ¬ AliasFree F := by
  intro hF
  have := hF (.f64 a) (.f64 b) ha hb (by simpa [constKeyEq] using hab)
  exact hne (by injection this)

/-- a successful run never pops an empty stack and leaves stack and scopes empty (`final_stack_singleton`,
    `final_scopes_empty` of C05), and a failing run fails with a class the Spec produces -/
theorem run_result_partial (cfg : CompCfg) (n : Node) (cp : Compiled) (F : Val → Prop) (c : Cfg)
    (hc : compileProgram cfg n = .ok cp) (hF : AliasFree F) (hfl : FloatsIn F n) (hfit : FitsU16 cp.code)
    (henv : EnvOK c cfg) (hg : Good (SmallColl c) n) :
    ∃ N, ∀ fuel, N ≤ fuel → (run c (progOf cp) fuel).1 = (Spec.run (specOf c) cfg.cast n).1 :=
  let ⟨N, h⟩ := run_conforms_partial cfg n cp F c hc hF hfl hfit henv hg
  ⟨N, fun fuel hf => (h fuel hf).1⟩

/-! ### Stage A alone (no loop builtin): no size hypothesis on collections -/

theorem compile_correct_stageA (n : Node) : ∀ (cfg : CompCfg) (pool pool' : Pool) (code : List LInstr) (F : Val → Prop),
    compileNode cfg n pool = .ok (code, pool') → AliasFree F → PoolInv F pool → FloatsIn F n → Good (fun _ => False) n →
    ∀ (P : Prog) (pre post : List LInstr), P.code = (encodeAll ((pre ++ code ++ post).map (·.instr))).toArray →
      PoolExt pool' P.consts → FitsU16 code →
    ∀ (c : Cfg), EnvOK c cfg → ∀ (ctx : Ctx), Conforms c P (lsize pre) (lsize code) ctx n := by
  intro cfg pool pool' code F hc hF hinv hfl hg P pre post hP hK hfit c henv ctx
  let L : LProg := ⟨P, pre ++ code ++ post, hP, fun _ _ => True⟩
  exact conforms_of_sim (P := L) (codeAt_of_layout rfl hfit) (fun _ _ => trivial)
    (compile_sim hc hF hinv hfl hg hK henv (fun _ _ _ _ _ _ _ _ _ _ _ _ h => h.elim) ctx)

theorem run_conforms_stageA (cfg : CompCfg) (n : Node) (cp : Compiled) (F : Val → Prop) (c : Cfg)
    (hc : compileProgram cfg n = .ok cp) (hF : AliasFree F) (hfl : FloatsIn F n) (hg : Good (fun _ => False) n)
    (hfit : FitsU16 cp.code) (henv : EnvOK c cfg) :
    ∃ N, ∀ fuel, N ≤ fuel → RunAgrees (run c (progOf cp) fuel) (Spec.run (specOf c) cfg.cast n) :=
  run_conforms_gen hc hF hfl hg hfit henv (fun _ _ _ _ _ _ _ _ _ _ _ _ h => h.elim)

example (c : Cfg) : ∃ N, ∀ fuel, N ≤ fuel →
    RunAgrees (run c (progOf exCompiledA) fuel) (Spec.run (specOf c) none exTreeA) :=
  run_conforms_stageA {} exTreeA exCompiledA (fun _ => False) c exA_compiles (fun _ _ h => h.elim) exA_floats
    exA_good exA_fits (fun h => by cases h)

/-! ### C05: a compiled program never pops an empty stack and never runs off its code

`Benign e`: `e` is one of the language's own failure classes (type, index, divzero, budget, call).  The VM
model has three more — `underflow` (pop of an empty stack, missing scope), `badop` (unknown opcode, operand or
jump outside the program) and `fuel` — and a run of a compiled program never ends in one of them: the run
fails exactly when the language definition does, and the definition has no such failure (`eval_benign`).
`WorldOK`: environment functions themselves fail with a language class (a panic inside one is `call`). -/

theorem spec_run_benign (cfg : CompCfg) (n : Node) (cp : Compiled) (c : Cfg)
    (hc : compileProgram cfg n = .ok cp) (hfl : floatsOK n = true) (hg : Good (SmallColl c) n)
    (hw : WorldOK c.world) : ∀ e, (Spec.run (specOf c) cfg.cast n).1 = .error e → Benign e := by
  unfold compileProgram at hc
  rw [bind_ok] at hc
  obtain ⟨⟨code, p⟩, hcn, _⟩ := hc
  have hinv : PoolInv (LitIn (floatBits n)) {} := ⟨fun i w h => by simp at h, fun o h => by cases h⟩
  have hcomp := (compile_compiles cfg _ (floatsOK_spec hfl).1 n {} code p hcn hinv (floatsOK_spec hfl).2).comp
    p.consts (PoolExt.refl p)
  have hb := eval_benign (sc := specOf c) hw rfl n code [] hcomp hg
  intro e he
  cases hev : eval (specOf c) [] n {} with
  | mk r σ' =>
  rw [specRun_eq _ _ _ _ _ hev] at he
  cases r with
  | error e' =>
    have : e' = e := by cases hcast : cfg.cast <;> (rw [hcast] at he; cases he; rfl)
    subst this
    exact hb _ _ _ hev
  | ok v =>
    cases hcast : cfg.cast with
    | none => rw [hcast] at he; cases he
    | some t => rw [hcast] at he; exact castV_benign t v e he

theorem no_underflow (cfg : CompCfg) (n : Node) (cp : Compiled) (c : Cfg)
    (hc : compileProgram cfg n = .ok cp) (hfl : floatsOK n = true) (hfit : FitsU16 cp.code)
    (henv : EnvOK c cfg) (hg : Good (SmallColl c) n) (hw : WorldOK c.world) :
    ∃ N, ∀ fuel, N ≤ fuel → ∀ e, (run c (progOf cp) fuel).1 = .error e →
      Benign e ∧ e ≠ .underflow ∧ e ≠ .badop ∧ e ≠ .fuel := by
  obtain ⟨N, hN⟩ := run_conforms_checked cfg n cp c hc hfl hfit henv hg
  refine ⟨N, fun fuel hf e he => ?_⟩
  have hb := spec_run_benign cfg n cp c hc hfl hg hw e (by rw [← (hN fuel hf).1]; exact he)
  refine ⟨hb, ?_, ?_, ?_⟩ <;> (rintro rfl; rcases hb with h | h | h | h | h <;> cases h)

example : WorldOK { call := fun id _ => if id == "Fail" then .error .call else .ok .nil,
                    regexMatch := fun _ _ => none, pow := fun a _ => a } := by
  intro id args e h
  dsimp only at h
  split at h <;> cases h
  exact .inr (.inr (.inr (.inr rfl)))

example (c : Cfg) (hw : WorldOK c.world) : ∃ N, ∀ fuel, N ≤ fuel → ∀ e, (run c (progOf exCompiled) fuel).1 = .error e →
    Benign e ∧ e ≠ .underflow ∧ e ≠ .badop ∧ e ≠ .fuel :=
  no_underflow {} exTree exCompiled c ex_compiles (by decide) ex_fits (fun h => by cases h) (ex_good c) hw

/-! ### `expr.Eval`: source text to result through every model stage

`Api.evalSource` = lexer model, parser model, `compileProgram F.compCfg` (no types, no optimiser), `run`.  Whenever the
text lexes and parses (to `n`) and `n` compiles, evaluating the source is evaluating `n` by the language
definition — under the exclusions of `run_conforms_checked`, now all but `SmallColl` decidable on the parsed
tree / compiled program. -/

theorem eval_source_conforms (F : Api.Front) (c : Cfg) (src : String) (ts : List Token) (n : Node) (cp : Compiled)
    (hlex : Lex.lex F.cc F.tables src = .ok ts) (hparse : Parser.parse F.pcfg ts = .ok n)
    (hcomp : compileProgram F.compCfg n = .ok cp) (hfl : floatsOK n = true) (hfit : FitsU16 cp.code)
    (hg : Good (SmallColl c) n) :
    ∃ N, ∀ fuel, N ≤ fuel → ∃ res final, Api.evalSource F c fuel src = .ran res final ∧
      RunAgrees (res, final) (Spec.run (specOf c) none n) := by
  obtain ⟨N, hN⟩ := run_conforms_checked F.compCfg n cp c hcomp hfl hfit (fun h => by cases h) hg
  refine ⟨N, fun fuel hf => ⟨_, _, ?_, hN fuel hf⟩⟩
  simp only [Api.evalSource, hlex, hparse, hcomp]
  rfl

/-- the failing stages are reported as such, in order -/
theorem eval_source_stages (F : Api.Front) (c : Cfg) (fuel : Nat) (src : String) :
    (∀ e, Lex.lex F.cc F.tables src = .error e → Api.evalSource F c fuel src = .lexError e) ∧
    (∀ ts e, Lex.lex F.cc F.tables src = .ok ts → Parser.parse F.pcfg ts = .error e →
      Api.evalSource F c fuel src = .parseError e) ∧
    (∀ ts n e, Lex.lex F.cc F.tables src = .ok ts → Parser.parse F.pcfg ts = .ok n → compileProgram F.compCfg n = .error e →
      Api.evalSource F c fuel src = .compileError e) := by
  refine ⟨fun e h => ?_, fun ts e h1 h2 => ?_, fun ts n e h1 h2 h3 => ?_⟩ <;> simp only [Api.evalSource, *]

/-! ### the compiler as it is now: no hypothesis about 16-bit operands

Since fix ba2f082 the compiler rejects a jump offset that does not fit the encoding (regenerated fact
`Gen.jumpGuard`, which the driver hands to the model).  Then every program it returns has all operands below
65536 (`Refine.fitsU16_of_guard`: constant indices by the pool limit, jump offsets by the guard), and the
`FitsU16` hypothesis of the theorems above disappears. -/

theorem run_conforms_guarded (cfg : CompCfg) (hcfg : Bc.CompCfgOk cfg) (hguard : cfg.jumpGuard = true) (n : Node)
    (cp : Compiled) (c : Cfg) (hc : compileProgram cfg n = .ok cp) (hfl : floatsOK n = true)
    (henv : EnvOK c cfg) (hg : Good (SmallColl c) n) :
    ∃ N, ∀ fuel, N ≤ fuel → RunAgrees (run c (progOf cp) fuel) (Spec.run (specOf c) cfg.cast n) :=
  run_conforms_checked cfg n cp c hc hfl (fitsU16_of_guard cfg hcfg hguard n cp hc) henv hg

/-- `expr.Eval` on the current code: whenever the text lexes, parses and compiles, evaluating the source is
    evaluating the parsed tree by the language definition — left are `floatsOK` (no literal pair ±0.0, the
    listed finding) and `Good` (tree shape; collection sizes below 2^63). -/
theorem eval_source_conforms_guarded (F : Api.Front) (hguard : F.jumpGuard = true) (c : Cfg) (src : String)
    (ts : List Token) (n : Node) (cp : Compiled)
    (hlex : Lex.lex F.cc F.tables src = .ok ts) (hparse : Parser.parse F.pcfg ts = .ok n)
    (hcomp : compileProgram F.compCfg n = .ok cp) (hfl : floatsOK n = true) (hg : Good (SmallColl c) n) :
    ∃ N, ∀ fuel, N ≤ fuel → ∃ res final, Api.evalSource F c fuel src = .ran res final ∧
      RunAgrees (res, final) (Spec.run (specOf c) none n) :=
  eval_source_conforms F c src ts n cp hlex hparse hcomp hfl
    (fitsU16_of_guard F.compCfg (fun t h => by cases h) hguard n cp hcomp) hg

/-! ### `expr.Compile` + `expr.Run` with a typed environment: every model stage in a row

`Api.compileSource` = `Config.Check`, lexer, parser, checker, `PatchOperators`, checker again, optimizer (when
on), compiler with `MapEnv` and the result directive; `Api.runSource` adds `run`.  Compared stage by stage
and end to end with the real `expr.Compile(src, Env(env), Optimize(..), As…)` + `expr.Run` on every run
(harness/c01.go `CompileSourceCorrespondence`; operators: the empty table, where `patchOperators` is the
identity by definition). -/

/-- what a successful `middle` went through -/
theorem middle_ok_inv {T : Api.TypedCfg} {w : World} {n : Node} {cp : Compiled} {checked final : Node}
    (h : Api.middle T w n = .ok cp checked final) :
    ∃ n1 t1 n2 t3, check T.check n = .ok n1 t1 ∧ patchOperators T.walkTbl T.opTable T.tyOf n1 = some n2 ∧
      check T.check n2 = .ok checked t3 ∧
      (if T.optimize then Opt.optimize T.optFlags T.constFns w checked else .ok checked) = .ok final ∧
      compileProgram T.compCfg final = .ok cp := by
  unfold Api.middle at h
  split at h
  · cases h
  · cases h
  · rename_i n1 t1 h1
    split at h
    · cases h
    · rename_i n2 h2
      split at h
      · cases h
      · cases h
      · rename_i n3 t3 h3
        dsimp only at h
        split at h
        · cases h
        · rename_i n4 h4
          split at h
          · cases h
          · rename_i cp' h5
            cases h
            exact ⟨n1, t1, n2, t3, h1, h2, h3, h4, h5⟩

/-- what a successful `compileSource` went through -/
theorem compileSource_ok_inv {F : Api.Front} {T : Api.TypedCfg} {w : World} {src : String} {cp : Compiled}
    {checked final : Node} (h : Api.compileSource F T w src = .ok cp checked final) :
    configCheck T.fnTags T.operators = .ok ∧
    ∃ ts n n1 t1 n2 t3, Lex.lex F.cc F.tables src = .ok ts ∧ Parser.parse F.pcfg ts = .ok n ∧
      check T.check n = .ok n1 t1 ∧ patchOperators T.walkTbl T.opTable T.tyOf n1 = some n2 ∧
      check T.check n2 = .ok checked t3 ∧
      (if T.optimize then Opt.optimize T.optFlags T.constFns w checked else .ok checked) = .ok final ∧
      compileProgram T.compCfg final = .ok cp := by
  unfold Api.compileSource at h
  split at h
  · rename_i hcc
    refine ⟨hcc, ?_⟩
    split at h
    · cases h
    · rename_i ts hl
      split at h
      · cases h
      · rename_i n hp
        unfold Api.middle at h
        split at h
        · cases h
        · cases h
        · rename_i n1 t1 h1
          split at h
          · cases h
          · rename_i n2 h2
            split at h
            · cases h
            · cases h
            · rename_i n3 t3 h3
              dsimp only at h
              split at h
              · cases h
              · rename_i n4 h4
                split at h
                · cases h
                · rename_i cp' h5
                  cases h
                  exact ⟨ts, n, n1, t1, n2, t3, hl, hp, h1, h2, h3, h4, h5⟩
  · cases h

/-- **The typed pipeline conforms.**  If every stage of `expr.Compile` succeeds, the run of the compiled
    program agrees (value or error class, memory / created / call log, empty stack and scopes on success) with
    the language definition on `final`, the checked-and-optimised tree handed to the compiler, under the result
    directive.  Remaining hypotheses, all about `final` / the compiled program and all but `SmallColl`
    computable: `floatsOK`, `FitsU16`, `Good`; `EnvOK`: with `MapEnv` the run-time environment is a map. -/
theorem middle_conforms (T : Api.TypedCfg) (c : Cfg) (n : Node) (cp : Compiled) (checked final : Node)
    (h : Api.middle T c.world n = .ok cp checked final)
    (hfl : floatsOK final = true) (hfit : FitsU16 cp.code) (henv : EnvOK c T.compCfg)
    (hg : Good (SmallColl c) final) :
    ∃ N, ∀ fuel, N ≤ fuel →
      RunAgrees (run c (Api.progOfCompiled cp) fuel) (Spec.run (specOf c) (Api.castOf T.check.expect) final) := by
  obtain ⟨_, _, _, _, _, _, _, _, hcomp⟩ := middle_ok_inv h
  exact run_conforms_checked T.compCfg final cp c hcomp hfl hfit henv hg

/-- the hypotheses are satisfiable: `struct { I int; B bool }`, `AsBool`, optimizer on, the tree of
    `I in 1..3 and not B` — checked, rewritten by `in_range` to `I >= 1 and I <= 3 and not B`, compiled -/
example (c : Cfg) (hw : c.world = w0) : ∃ N, ∀ fuel, N ≤ fuel →
    RunAgrees (run c (Api.progOfCompiled (exTyped w0).1) fuel) (Spec.run (specOf c) none exFinal) := by
  have h := middle_conforms exT c exParsed _ _ _ (hw ▸ exTyped_ok) exTyped_floats exTyped_fits (fun h => by cases h)
    (exTyped_final ▸ exFinal_good _)
  rw [exTyped_final] at h
  exact h

theorem compile_source_conforms (F : Api.Front) (T : Api.TypedCfg) (c : Cfg) (src : String) (cp : Compiled)
    (checked final : Node) (h : Api.compileSource F T c.world src = .ok cp checked final)
    (hfl : floatsOK final = true) (hfit : FitsU16 cp.code) (henv : EnvOK c T.compCfg)
    (hg : Good (SmallColl c) final) :
    ∃ N, ∀ fuel, N ≤ fuel → ∃ res fin, Api.runSource F T c fuel src = .ran cp res fin ∧
      RunAgrees (res, fin) (Spec.run (specOf c) (Api.castOf T.check.expect) final) := by
  obtain ⟨_, ts, n, n1, t1, n2, t3, _, _, _, _, _, _, hcomp⟩ := compileSource_ok_inv h
  obtain ⟨N, hN⟩ := run_conforms_checked T.compCfg final cp c hcomp hfl hfit henv hg
  refine ⟨N, fun fuel hf => ⟨_, _, ?_, hN fuel hf⟩⟩
  simp only [Api.runSource, h]
  rfl

/-- the same for the compiler as it is now (offset guard): no `FitsU16` hypothesis -/
theorem compile_source_conforms_guarded (F : Api.Front) (T : Api.TypedCfg) (hguard : T.jumpGuard = true) (c : Cfg)
    (src : String) (cp : Compiled) (checked final : Node)
    (h : Api.compileSource F T c.world src = .ok cp checked final)
    (hfl : floatsOK final = true) (henv : EnvOK c T.compCfg) (hg : Good (SmallColl c) final) :
    ∃ N, ∀ fuel, N ≤ fuel → ∃ res fin, Api.runSource F T c fuel src = .ran cp res fin ∧
      RunAgrees (res, fin) (Spec.run (specOf c) (Api.castOf T.check.expect) final) := by
  obtain ⟨_, ts, n, n1, t1, n2, t3, _, _, _, _, _, _, hcomp⟩ := compileSource_ok_inv h
  have hcfg : Bc.CompCfgOk T.compCfg := by
    intro t ht
    simp only [Api.TypedCfg.compCfg] at ht
    unfold Api.castOf at ht
    split at ht <;> first | (cases ht; omega) | cases ht
  exact compile_source_conforms F T c src cp checked final h hfl
    (fitsU16_of_guard T.compCfg hcfg hguard final cp hcomp) henv hg

/-- … and, through C02, with the language definition on `checked`, the tree the checker accepted (annotated,
    not yet optimised) — for the optimizer as it is now (`Flags.asIs`), under C02's hypotheses: `g` selects
    rewrite sites at which the guards `GuardNow` hold, the optimizer rewrote nowhere else (`hrun`), constant
    regexps are string literals (`reOK`); nothing is claimed when the run of `checked` exceeds the memory budget
    (the optimised tree allocates less).  What relates `checked` to the *parsed* tree is C03 / C15: the kinds
    the checker annotates are the dynamic kinds (then the kind-directed `==` and integer literals mean the same). -/
theorem compile_source_conforms_checked (F : Api.Front) (T : Api.TypedCfg) (c : Cfg) (src : String) (cp : Compiled)
    (checked final : Node) (h : Api.compileSource F T c.world src = .ok cp checked final)
    (hfl : floatsOK final = true) (hfit : FitsU16 cp.code) (henv : EnvOK c T.compCfg)
    (hg : Good (SmallColl c) final)
    (hflags : T.optFlags = Opt.Flags.asIs) (g : Opt.Guard)
    (hguard : ∀ p N, g p N = true → C02.GuardNow (specOf c) T.constFns p N) (hre : OptProofs.reOK checked = true)
    (hrun : Opt.optimizeWith g Opt.Flags.asIs T.constFns c.world checked =
      Opt.optimize Opt.Flags.asIs T.constFns c.world checked) :
    ∃ N, ∀ fuel, N ≤ fuel → ∃ res fin, Api.runSource F T c fuel src = .ran cp res fin ∧
      ((Spec.run (specOf c) (Api.castOf T.check.expect) checked).1 = .error .budget ∨
       res = (Spec.run (specOf c) (Api.castOf T.check.expect) checked).1) := by
  obtain ⟨N, hN⟩ := compile_source_conforms F T c src cp checked final h hfl hfit henv hg
  obtain ⟨_, ts, n, n1, t1, n2, t3, _, _, _, _, _, hopt, _⟩ := compileSource_ok_inv h
  refine ⟨N, fun fuel hf => ?_⟩
  obtain ⟨res, fin, hr, hagree⟩ := hN fuel hf
  refine ⟨res, fin, hr, ?_⟩
  have hres : res = (Spec.run (specOf c) (Api.castOf T.check.expect) final).1 := hagree.1
  by_cases ho : T.optimize = true
  · rw [if_pos ho, hflags] at hopt
    rcases C02.optimize_transparent_asIs_partial (c := specOf c) T.constFns g hguard checked final hre hrun hopt
      (Api.castOf T.check.expect) with hb | he
    · exact .inl hb
    · exact .inr (hres.trans he)
  · rw [if_neg ho] at hopt
    cases hopt
    exact .inr hres

/-- the stages fail in order, each reported as such -/
theorem compile_source_stages (F : Api.Front) (T : Api.TypedCfg) (w : World) (src : String) :
    (∀ r, configCheck T.fnTags T.operators = r → r ≠ .ok → Api.compileSource F T w src = .configError r) ∧
    (configCheck T.fnTags T.operators = .ok →
      (∀ e, Lex.lex F.cc F.tables src = .error e → Api.compileSource F T w src = .lexError e) ∧
      (∀ ts e, Lex.lex F.cc F.tables src = .ok ts → Parser.parse F.pcfg ts = .error e →
        Api.compileSource F T w src = .parseError e) ∧
      (∀ ts n, Lex.lex F.cc F.tables src = .ok ts → Parser.parse F.pcfg ts = .ok n →
        Api.compileSource F T w src = Api.middle T w n)) ∧
    (∀ n loc cl n', check T.check n = .error loc cl n' → Api.middle T w n = .checkError loc cl) ∧
    (∀ n n1 t1 n2 loc cl n', check T.check n = .ok n1 t1 → patchOperators T.walkTbl T.opTable T.tyOf n1 = some n2 →
      check T.check n2 = .error loc cl n' → Api.middle T w n = .checkError loc cl) ∧
    (∀ n n1 t1 n2 n3 t3 loc, check T.check n = .ok n1 t1 → patchOperators T.walkTbl T.opTable T.tyOf n1 = some n2 →
      check T.check n2 = .ok n3 t3 → T.optimize = true → Opt.optimize T.optFlags T.constFns w n3 = .error loc →
      Api.middle T w n = .optimizeError loc) := by
  refine ⟨fun r hr hne => ?_, fun hc => ⟨fun e h => ?_, fun ts e h1 h2 => ?_, fun ts n h1 h2 => ?_⟩,
    fun n loc cl n' h => ?_, fun n n1 t1 n2 loc cl n' h1 h2 h3 => ?_, fun n n1 t1 n2 n3 t3 loc h1 h2 h3 ho h4 => ?_⟩
  · unfold Api.compileSource
    rw [hr]
    cases r <;> first | exact absurd rfl hne | rfl
  · simp only [Api.compileSource, hc, h]
  · simp only [Api.compileSource, hc, h1, h2]
  · simp only [Api.compileSource, hc, h1, h2]
  · simp only [Api.middle, h]
  · simp only [Api.middle, h1, h2, h3]
  · simp only [Api.middle, h1, h2, h3, ho, if_true, h4]

/-! ### typed maps: `Val.tmap zero isNil kvs` is a `map[string]T` for `T` other than `interface{}`

Nothing in the refinement theorems depends on the shape of the values (member access, `in`, `len`, `==`
are the same run-time functions `fetchV`, `inV`, `lengthV`, `equalV` on both sides), so they cover typed
maps as they are.  What the run-time library does with them — checked against `vm/runtime.go` by the
correspondence over the members `MI`, `MS`, `MN` of the harness environment: -/

/-- `fetch`: a missing key reads as `reflect.Zero(v.Type().Elem())`, nil-safe or not, nil map or not
    (`MI.nope + 1 == 1`, `MS["nope"] + "x" == "x"`) — not as `nil`, as for `map[string]interface{}` -/
theorem typed_map_missing_key_zero (z : Val) (isNil : Bool) (kvs : List (String × Val)) (k : String) (nilsafe : Bool)
    (h : lookupKv k kvs = none) : fetchV (.tmap z isNil kvs) (.str k) nilsafe = .ok z := by
  simp [fetchV, h]

theorem typed_map_present_key (z v : Val) (isNil : Bool) (kvs : List (String × Val)) (k : String) (nilsafe : Bool)
    (h : lookupKv k kvs = some v) : fetchV (.tmap z isNil kvs) (.str k) nilsafe = .ok v := by
  simp [fetchV, h]

/-- `in` and `len` look at the entries only; a key that is not a string is a `reflect` panic -/
theorem typed_map_in_len (z : Val) (isNil : Bool) (kvs : List (String × Val)) (k : String) :
    inV (.str k) (.tmap z isNil kvs) = .ok (lookupKv k kvs).isSome ∧
    inV (.int .int 1) (.tmap z isNil kvs) = .error .type_ ∧ inV .nil (.tmap z isNil kvs) = .error .type_ ∧
    fetchV (.tmap z isNil kvs) (.int .int 1) false = .error .type_ ∧
    lengthV (.tmap z isNil kvs) = .ok kvs.length :=
  ⟨rfl, rfl, rfl, rfl, rfl⟩

/-- `==`: the nil map equals `nil` (`runtime.isNil`), the empty one does not, and neither equals a
    `map[string]interface{}` with the same entries (`reflect.DeepEqual` compares the types) -/
theorem typed_map_equal (z : Val) (kvs : List (String × Val)) :
    equalV (.tmap z true kvs) .nil = true ∧ equalV .nil (.tmap z true kvs) = true ∧
    equalV (.tmap z false kvs) .nil = false ∧ equalV (.tmap z false kvs) (.map kvs) = false ∧
    equalV (.tmap z true []) (.tmap z false []) = false :=
  ⟨rfl, rfl, rfl, rfl, by simp [equalV, refSem, armTypeOf, Val.isNilRef, Val.deepEq]⟩

/-- `MI.nope + 1` over `MI : map[string]int{"a": 1}`: compiled run and language definition agree on 1 -/
example :
    let w : World := { call := fun _ _ => .ok .nil, regexMatch := fun _ _ => none, pow := fun a _ => a }
    let c : Cfg := { world := w, env := .struct "Env" true [("MI", .tmap (.int .int 0) false [("a", .int .int 1)])],
                     budget := 1000, defects := Defects.none }
    let tree : Node := .binary {} "+" (.prop {} (.ident {} "MI" false) "nope" false) (.int {} 1)
    (match compileProgram {} tree with
     | .ok cp =>
       (match (run c (Refine.progOf cp) 50).1, (Spec.eval (Refine.specOf c) [] tree {}).1 with
        | .ok (.int .int 1), .ok (.int .int 1) => true | _, _ => false)
     | .error _ => false) = true := by decide

end ExprModel.C01
