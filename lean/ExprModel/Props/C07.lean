import ExprModel.VM.SrcDefects
/-
C07 — A reused VM behaves like a fresh one.

"For every sequence of runs performed on one VM value - of any programs and environments, including runs
that fail midway or exhaust the memory budget - each run returns what a fresh VM returns for the same
program and environment."

Model: `runOn c p fuel s` = `(*VM).Run` on an existing VM value `s` = `prologue` (what the code
re-initialises) followed by the dispatch loop; `run` = `runOn` on `vm.VM{}`.

Tie (Gen/VMReset.lean, regenerated from vm/vm.go on every run): the fields of `type VM struct`, the fields
assigned on every path of the prologue with the class of value stored, the fields the loop / epilogue /
helper methods read and write.  `relevant_subset_reset` fails by `decide`, naming nothing but failing
deterministically, as soon as a prologue assignment of a field the loop reads is missing.
The model's switch `memoryNotReset` is *derived* from these facts (`srcDefects`, VM/SrcDefects.lean).

The claim is for VM values as the documentation creates them (`vm.VM{}`): the debugger's channel fields
`debug, step, curr` are set only by `vm.Debug()` and never written by `Run`; they are outside `Relevant`.
-/
namespace ExprModel.C07
open ExprModel

/-! ### the source facts -/

/-- the fields of the real `VM` that the dispatch loop reads and that persist from one run to the next -/
def Relevant : List String := ["stack", "scopes", "ip", "pp", "memory", "limit", "bytecode", "constants"]

/-- the debugger's fields: `false` / `nil` in every `vm.VM{}` and never assigned by `Run` -/
def DebuggerOnly : List String := ["debug", "step", "curr"]

/-- every field of `type VM struct` is classified, and nothing else is -/
theorem fields_classified :
    (∀ f ∈ Gen.VMReset.vmFields, f ∈ Relevant ∨ f ∈ DebuggerOnly) ∧
    (∀ f ∈ Relevant ++ DebuggerOnly, f ∈ Gen.VMReset.vmFields) := by decide

/-- `Relevant` is exactly what the loop, the epilogue and the helper methods read, minus the debugger's fields -/
theorem relevant_is_what_run_reads :
    (∀ f ∈ Gen.VMReset.loopReads ++ Gen.VMReset.epilogueReads, f ∈ Relevant ∨ f ∈ DebuggerOnly) ∧
    (∀ f ∈ Relevant, f ∈ Gen.VMReset.loopReads) := by decide

/-- `Run` never assigns a debugger field (so a `vm.VM{}` keeps `debug = false` for ever), and everything
    it does write is among the relevant fields -/
theorem run_writes_only_relevant :
    (∀ f ∈ Gen.VMReset.loopWrites ++ Gen.VMReset.epilogueWrites ++ Gen.VMReset.prologueAssigned, f ∈ Relevant) ∧
    (∀ f ∈ DebuggerOnly, f ∉ Gen.VMReset.loopWrites ++ Gen.VMReset.epilogueWrites ++ Gen.VMReset.prologueAssigned) := by
  decide

/-- the helper methods the loop calls are the analysed ones -/
theorem helpers_analysed :
    ∀ m ∈ Gen.VMReset.loopCalls, m ∈ Gen.VMReset.helperReads.map Prod.fst := by decide

/-- **Every field the loop reads is re-initialised by the prologue** (on every path).
    On a tree whose prologue lacks `vm.memory = 0` this is the theorem that no longer checks. -/
theorem relevant_subset_reset : ∀ f ∈ Relevant, f ∈ Gen.VMReset.prologueAssigned := by decide

/-- what the model's `prologue` stores, field by field, in the vocabulary of the extracted facts -/
def modelStores : List (String × String) :=
  [("limit", "MemoryBudget"), ("memory", "0"), ("ip", "0"), ("pp", "0"), ("stack", "empty"), ("scopes", "empty"),
   ("bytecode", "program.Bytecode"), ("constants", "program.Constants")]

/-- the values the source stores are the values the model's `prologue` stores (`limit := c.budget`,
    counters and positions zero, stack and scopes empty, program parts from the argument) -/
theorem prologue_stores_as_modelled :
    ∀ fv ∈ modelStores, (Gen.VMReset.prologueStores.map fun r => (r.1, r.2.1)).contains fv = true := by decide

/-- the model's flag is by definition the negation of the extracted fact … -/
theorem gen_matches_model :
    srcDefects.memoryNotReset = !(Gen.VMReset.prologueAssigned.contains "memory") := rfl

/-- … and in /repo's current source the prologue does reset the counter -/
theorem source_resets_memory : srcDefects.memoryNotReset = false := by decide

/-! ### the model theorems -/

/-- The prologue forgets the whole previous state: whatever VM value it is applied to, the result is the
    state a fresh VM starts from.  (All eight components of the model state, ghost observables included.) -/
theorem prologue_forgets (c : Cfg) (h : c.defects.memoryNotReset = false) (s : VM) :
    prologue c s = prologue c {} := by
  simp [prologue, h]

/-- … and this is exactly what the flag says: with the counter not reset the prologue does remember. -/
theorem prologue_forgets_iff (c : Cfg) :
    (∀ s, prologue c s = prologue c {}) ↔ c.defects.memoryNotReset = false := by
  constructor
  · intro h
    cases hm : c.defects.memoryNotReset with
    | false => rfl
    | true =>
      have := congrArg VM.memory (h { memory := 1 })
      simp [prologue, hm] at this
  · exact prologue_forgets c

/-- one run on an arbitrary VM value is the run on a fresh VM: result *and* final state -/
theorem runOn_eq_run (c : Cfg) (h : c.defects.memoryNotReset = false) (p : Prog) (fuel : Nat) (s : VM) :
    runOn c p fuel s = run c p fuel := by
  unfold run runOn
  rw [prologue_forgets c h s]

/-- a history: the runs performed so far on one VM value — any configurations (world, environment,
    budget), any programs, any outcome -/
abbrev History := List (Cfg × Prog × Nat)

/-- the VM value left behind by a history -/
def runHistory : History → VM → VM
  | [], s => s
  | (c, p, fuel) :: h, s => runHistory h (runOn c p fuel s).2

/-- what each run of a history returned (result and the state observable afterwards) -/
def historyOutcomes : History → VM → List (R Val × VM)
  | [], _ => []
  | (c, p, fuel) :: h, s => runOn c p fuel s :: historyOutcomes h (runOn c p fuel s).2

/-- **C07.** After *any* history `h` on *any* starting VM value — runs of any programs under any
    configurations, whether they succeeded, failed inside nested loops or exhausted the budget, and even
    if the earlier runs were made by a variant with the defect — a further run returns exactly what a
    fresh VM returns: the value or error and the final observable state (stack, scopes, position of the
    failure, memory counter, elements created, call log). -/
theorem reuse_eq_fresh (h : History) (s₀ : VM) (c : Cfg) (hc : c.defects.memoryNotReset = false)
    (p : Prog) (fuel : Nat) :
    runOn c p fuel (runHistory h s₀) = run c p fuel := by
  induction h generalizing s₀ with
  | nil => exact runOn_eq_run c hc p fuel s₀
  | cons x h ih => obtain ⟨c', p', f'⟩ := x; exact ih _

/-- every run of a history returns what a fresh VM returns for the same program and configuration -/
theorem history_eq_fresh_runs (h : History) (hh : ∀ x ∈ h, x.1.defects.memoryNotReset = false) (s₀ : VM) :
    historyOutcomes h s₀ = h.map fun x => run x.1 x.2.1 x.2.2 := by
  induction h generalizing s₀ with
  | nil => rfl
  | cons x h ih =>
    obtain ⟨c, p, fuel⟩ := x
    have hc : c.defects.memoryNotReset = false := hh (c, p, fuel) (by simp)
    have ih' := ih (fun y hy => hh y (by simp [hy])) (run c p fuel).2
    simp only [historyOutcomes, List.map_cons, runOn_eq_run c hc, ih']

/-- "no amount of earlier successful work makes a later run fail" -/
theorem later_run_not_failed_by_earlier (h : History) (c : Cfg) (hc : c.defects.memoryNotReset = false)
    (p : Prog) (fuel : Nat) (v : Val) (hv : (run c p fuel).1 = .ok v) :
    (runOn c p fuel (runHistory h {})).1 = .ok v := by
  rw [reuse_eq_fresh h {} c hc]; exact hv

/-- the same for the model variant that mirrors /repo's current source (`srcDefects`, derived from the
    regenerated facts): this is the statement about the code as it is now -/
theorem reuse_eq_fresh_source (h : History) (s₀ : VM) (c : Cfg) (hc : c.defects = srcDefects)
    (p : Prog) (fuel : Nat) :
    runOn c p fuel (runHistory h s₀) = run c p fuel :=
  reuse_eq_fresh h s₀ c (by rw [hc]; exact source_resets_memory) p fuel

/-- what remains true for the variant with the defect: a reused VM behaves like a fresh one as long as the
    counter it carries is still zero (no earlier run allocated) -/
theorem reuse_eq_fresh_partial (c : Cfg) (p : Prog) (fuel : Nat) (s : VM) (hs : s.memory = 0) :
    runOn c p fuel s = run c p fuel := by
  unfold run runOn
  have : prologue c s = prologue c {} := by
    simp [prologue, hs]
  rw [this]

/-! ### the defect as it was (`memoryNotReset := true`): a concrete two-run history -/

def wWorld : World := { call := fun _ _ => .error .type_, regexMatch := fun _ _ => none, pow := fun x _ => x }

/-- the bytecode of `[1, 2]` -/
def wProg : Prog :=
  { code := (encodeAll [⟨.push, 0⟩, ⟨.push, 1⟩, ⟨.push, 1⟩, ⟨.array, 0⟩]).toArray
    consts := #[.int .int 1, .int .int 2] }

def wCfg (notReset : Bool) : Cfg :=
  { world := wWorld, env := .nil, budget := 3, defects := { rangeSizeSigned := false, memoryNotReset := notReset } }

def isBudgetErr : R Val → Bool
  | .error .budget => true
  | _ => false

def isOkArr2 : R Val → Bool
  | .ok (.arr .iface [.int .int 1, .int .int 2]) => true
  | _ => false

/-- With the counter not reset, budget 3: the first run of `[1, 2]` succeeds (2 < 3), the same run on the
    same VM fails with "memory budget exceeded" (2 + 2 ≥ 3) although a fresh VM succeeds. -/
theorem reuse_witness_asIs :
    isOkArr2 (run (wCfg true) wProg 10).1 = true ∧
    isBudgetErr (runOn (wCfg true) wProg 10 (run (wCfg true) wProg 10).2).1 = true ∧
    (runOn (wCfg true) wProg 10 (run (wCfg true) wProg 10).2).2.memory = 4 := by
  decide

/-- hence the unrestricted statement is false for that variant -/
theorem reuse_eq_fresh_false_asIs :
    ¬ (∀ (h : History) (c : Cfg) (p : Prog) (fuel : Nat), c.defects.memoryNotReset = true →
        (runOn c p fuel (runHistory h {})).1 = (run c p fuel).1) := by
  intro hall
  have h1 := hall [(wCfg true, wProg, 10)] (wCfg true) wProg 10 rfl
  have h2 := congrArg isBudgetErr h1
  revert h2
  decide

/-! ### non-vacuity: histories with failing and budget-exhausting runs -/

/-- `[1, 2][5]`-like failure: index error in the middle of a run -/
def wFailProg : Prog :=
  { code := (encodeAll [⟨.push, 0⟩, ⟨.push, 1⟩, ⟨.push, 1⟩, ⟨.array, 0⟩, ⟨.push, 2⟩, ⟨.index, 0⟩]).toArray
    consts := #[.int .int 1, .int .int 2, .int .int 5] }

/-- a program that leaves the stack and a scope dirty when it fails: `Begin; Push; Push; Pop-of-scope…` -/
def wDirtyProg : Prog :=
  { code := (encodeAll [⟨.begin_, 0⟩, ⟨.begin_, 0⟩, ⟨.push, 0⟩, ⟨.push, 1⟩, ⟨.true_, 0⟩, ⟨.negate, 0⟩]).toArray
    consts := #[.int .int 1, .int .int 2] }

def wHistory : History :=
  [(wCfg false, wProg, 10), (wCfg false, wFailProg, 10), (wCfg false, wDirtyProg, 10),
   ({ wCfg false with budget := 2 }, wProg, 10), (wCfg false, wProg, 10)]

/-- the history really contains a run failing midway with open scopes and a non-empty stack, and a run
    that exhausts the budget; the VM left behind is dirty -/
example :
    ((historyOutcomes wHistory {}).map fun o => (match o.1 with | .ok _ => "ok" | .error e => e.name, o.2.stack.length, o.2.scopes.length, o.2.memory))
      = [("ok", 0, 0, 2), ("index", 0, 0, 2), ("type", 2, 2, 0), ("budget", 1, 0, 2), ("ok", 0, 0, 2)] := by
  decide

/-- and the theorem applies to it -/
example : isOkArr2 (runOn (wCfg false) wProg 10 (runHistory wHistory {})).1 = true := by
  rw [reuse_eq_fresh wHistory {} (wCfg false) rfl]; decide

end ExprModel.C07
