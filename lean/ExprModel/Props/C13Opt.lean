import ExprModel.Props.C13Pipeline
import ExprModel.Proofs.OptLocs
import ExprModel.Proofs.PatchLocs
import ExprModel.Proofs.CheckerLocs
import ExprModel.Proofs.CheckerErrLocs
import ExprModel.Proofs.PatchOps
/-
C13, locations through the optimizer (closes the gap named in DESIGN.md section 12: "no theorem carries
locations through the optimizer").  `optimizer.Optimize` sits between the checker and the compiler; the
theorems of C13Pipeline speak about the tree handed to the compiler.  Here: whatever holds of every node
location of the tree given to `Optimize` (and of 0:0, the location of the fresh inner nodes of the in-array and
in-range rewrites) holds of every node location of its result, of the compile error it may raise, of every
instruction of the compiled program and of the location every failing run reports.
-/
namespace ExprModel.C13
open ExprModel ExprModel.Src ExprModel.Lex ExprModel.Opt
open ExprModel.LocMap (report)

/-- **`optimize_keeps_locations`**: every node of the optimised tree carries the location of a node of the tree
    given, or 0:0 — for every tree, all five passes, their repetition loops, every flag setting (the code as it
    is and as it was) and every table of constant functions. -/
theorem optimize_keeps_locations (P : Loc → Prop) (h0 : P {}) (fl : Flags) (fns : ConstFns) (w : World)
    (n n' : Node) (hn : n.AllLoc P) (h : optimize fl fns w n = .ok n') : n'.AllLoc P := by
  have := OptProofs.optimizeWith_allLoc h0 Guard.all fl fns w n hn
  unfold optimize at h
  rw [h] at this
  exact this

/-- **`optimize_error_located`**: a compile error raised by the optimizer (integer division or modulo by zero
    met by `fold`, a `ConstExpr` function that fails) is at the location of a node of the tree given. -/
theorem optimize_error_located (P : Loc → Prop) (h0 : P {}) (fl : Flags) (fns : ConstFns) (w : World)
    (n : Node) (l : Loc) (hn : n.AllLoc P) (h : optimize fl fns w n = .error l) : P l := by
  have := OptProofs.optimizeWith_allLoc h0 Guard.all fl fns w n hn
  unfold optimize at h
  rw [h] at this
  exact this

/-- non-vacuity, and the rule at work: in `1 + 2 / 0` (tokens at 1:0, 1:2, 1:4, 1:6, 1:8) `fold` reports the
    division at 1:6, the `/` -/
example :
    let w : World := { call := fun _ _ => .ok .nil, regexMatch := fun _ _ => none, pow := fun a _ => a }
    optimize Flags.asIs [] w
      (.binary ⟨⟨1, 2⟩, .invalid⟩ "+" (.int ⟨⟨1, 0⟩, .invalid⟩ 1)
        (.binary ⟨⟨1, 6⟩, .invalid⟩ "/" (.int ⟨⟨1, 4⟩, .invalid⟩ 2) (.int ⟨⟨1, 8⟩, .invalid⟩ 0))) = .error ⟨1, 6⟩ := rfl

/-- **`optimized_runtime_error_location`**: check, optimise, compile, run.  Whenever the run of the program
    compiled from the *optimised* tree fails, the location the VM reports is the location of a node of the
    tree that was given to the optimizer, or 0:0 (a fresh inner node of a rewrite, or the `OpCast` epilogue). -/
theorem optimized_runtime_error_location (cfg : CompCfg) (hcfg : Bc.CompCfgOk cfg) (fl : Flags) (fns : ConstFns)
    (checked final : Node) (cp : Compiled) (c : Cfg)
    (hopt : optimize fl fns c.world checked = .ok final)
    (hc : compileProgram cfg final = .ok cp) (hfit : Refine.FitsU16 cp.code) (fuel : Nat) (e : ErrClass)
    (s' : VM) (hrun : run c (Refine.progOf cp) fuel = (.error e, s')) (he : e ≠ .fuel)
    (P : Loc → Prop) (h0 : P {}) (hn : checked.AllLoc P) :
    P (report (locTable 0 cp.code) s'.pp) := by
  have hf := optimize_keeps_locations P h0 fl fns c.world checked final hn hopt
  rcases runtime_error_location cfg hcfg final cp hc hfit c fuel e s' hrun he P hf with h | ⟨h, _⟩
  · exact h
  · rw [h]; exact h0

/-- **Source to reported location, optimizer included** (lex, parse, `optimizer.Optimize`, compile without
    cast, run): whatever fails at run time is reported inside the source, at the first rune of the defining token
    of a node of the parsed tree — or at 0:0. -/
theorem optimized_error_location_in_source (cc : CharClass) (hnl : cc.isSpace '\n' = true) (pcfg : Parser.Cfg)
    (src : String) (toks : List Token) (root final : Node) (cfg : CompCfg) (hcast : cfg.cast = none)
    (fl : Flags) (fns : ConstFns) (cp : Compiled) (c : Cfg)
    (hl : Lex.lex cc LexTables.std src = .ok toks) (hp : Parser.parse pcfg toks = .ok root)
    (hopt : optimize fl fns c.world root = .ok final)
    (hc : compileProgram cfg final = .ok cp) (hfit : Refine.FitsU16 cp.code) (fuel : Nat) (e : ErrClass)
    (s' : VM) (hrun : run c (Refine.progOf cp) fuel = (.error e, s')) (he : e ≠ .fuel) :
    (∃ ch, cc.isSpace ch = false ∧ PointsAt src.toList (report (locTable 0 cp.code) s'.pp) ch) ∨
      report (locTable 0 cp.code) s'.pp = {} := by
  have hcfg : Bc.CompCfgOk cfg := by intro t ht; rw [hcast] at ht; cases ht
  have hn := node_locations_in_source cc hnl pcfg src toks root hl hp
  exact optimized_runtime_error_location cfg hcfg fl fns root final cp c hopt hc hfit fuel e s' hrun he
    (fun l => (∃ ch, cc.isSpace ch = false ∧ PointsAt src.toList l ch) ∨ l = {}) (Or.inr rfl)
    (Node.allLoc_mono (fun _ h => Or.inl h) root hn)

/-- … and the optimizer's own compile error is inside the source or at 0:0 -/
theorem optimize_error_in_source (cc : CharClass) (hnl : cc.isSpace '\n' = true) (pcfg : Parser.Cfg)
    (src : String) (toks : List Token) (root : Node) (fl : Flags) (fns : ConstFns) (w : World) (l : Loc)
    (hl : Lex.lex cc LexTables.std src = .ok toks) (hp : Parser.parse pcfg toks = .ok root)
    (hopt : optimize fl fns w root = .error l) :
    (∃ ch, cc.isSpace ch = false ∧ PointsAt src.toList l ch) ∨ l = {} :=
  optimize_error_located (fun l => (∃ ch, cc.isSpace ch = false ∧ PointsAt src.toList l ch) ∨ l = {}) (Or.inr rfl)
    fl fns w root l
    (Node.allLoc_mono (fun _ h => Or.inl h) root (node_locations_in_source cc hnl pcfg src toks root hl hp)) hopt

/-- **`optimize_keeps_locations_exact`**: when the in-array and in-range rewrites did not fire (`hrun`: switching them
    off with the guard `g` does not change what `Optimize` returns), every node of the optimised tree is at the location
    of a node of the tree given — no 0:0 escape: folding, constant ranges and `ConstExpr` results replace a node by a
    literal or constant that takes over its location.  Together with the witness below: the fresh inner nodes of the
    two membership rewrites are the only unlocated nodes the optimizer makes. -/
theorem optimize_keeps_locations_exact (P : Loc → Prop) (g : Guard) (hA : ∀ N, g .inArray N = false)
    (hR : ∀ N, g .inRange N = false) (fl : Flags) (fns : ConstFns) (w : World) (n n' : Node) (hn : n.AllLoc P)
    (hrun : optimizeWith g fl fns w n = optimize fl fns w n) (h : optimize fl fns w n = .ok n') : n'.AllLoc P := by
  have := OptProofs.optimizeWith_allLoc_exact (P := P) g hA hR fl fns w n hn
  rw [hrun, h] at this
  exact this

/-- non-vacuity: `1 + 2 * 3` at 1:0 … 1:8 folds to one literal at the location of the `+` (1:2), with a predicate that
    0:0 does not satisfy, and switching the membership rewrites off changes nothing -/
example :
    let w : World := { call := fun _ _ => .ok .nil, regexMatch := fun _ _ => none, pow := fun a _ => a }
    let g : Guard := fun p _ => p != .inArray && p != .inRange
    let n : Node := .binary ⟨⟨1, 2⟩, .invalid⟩ "+" (.int ⟨⟨1, 0⟩, .invalid⟩ 1)
      (.binary ⟨⟨1, 6⟩, .invalid⟩ "*" (.int ⟨⟨1, 4⟩, .invalid⟩ 2) (.int ⟨⟨1, 8⟩, .invalid⟩ 3))
    optimizeWith g Flags.asIs [] w n = optimize Flags.asIs [] w n ∧
    optimize Flags.asIs [] w n = .ok (.int ⟨⟨1, 2⟩, .invalid⟩ 7) ∧ ¬ (({} : Loc).line = 1) :=
  ⟨rfl, rfl, by decide⟩

/-- the statement without the 0:0 escape -/
def optimize_keeps_locations_goal : Prop :=
  ∀ (P : Loc → Prop) (fl : Flags) (fns : ConstFns) (w : World) (n n' : Node),
    n.AllLoc P → optimize fl fns w n = .ok n' → n'.AllLoc P

/-- … does not hold of the code: the two comparison nodes the in-range rewrite creates are never given a
    location (`ast.Patch` reaches only the outer node), so the optimised tree of `X in 1..3` has nodes at 0:0
    although every node of the parsed tree is on line 1.  Such a node fails at run time only when the
    environment does not have the declared type (`>=` on an `int`-annotated operand). -/
theorem optimize_keeps_locations_goal_witness : ¬ optimize_keeps_locations_goal := by
  intro h
  let w : World := { call := fun _ _ => .ok .nil, regexMatch := fun _ _ => none, pow := fun a _ => a }
  let n : Node := .binary ⟨⟨1, 2⟩, .bool⟩ "in" (.ident ⟨⟨1, 0⟩, .num .int⟩ "X" false)
    (.binary ⟨⟨1, 6⟩, .invalid⟩ ".." (.int ⟨⟨1, 5⟩, .invalid⟩ 1) (.int ⟨⟨1, 8⟩, .invalid⟩ 3))
  have hn : n.AllLoc (fun l => l.line = 1) := by simp [n, Node.AllLoc]
  let x : Node := .ident ⟨⟨1, 0⟩, .num .int⟩ "X" false
  let n' : Node := .binary ⟨⟨1, 2⟩, .bool⟩ "and" (.binary {} ">=" x (.int ⟨⟨1, 5⟩, .invalid⟩ 1))
    (.binary {} "<=" x (.int ⟨⟨1, 8⟩, .invalid⟩ 3))
  have hopt : optimize Flags.asIs [] w n = .ok n' := rfl
  have := h (fun l => l.line = 1) Flags.asIs [] w n n' hn hopt
  simp [n', Node.AllLoc] at this

/-! ### the typed pipeline, end to end -/

/-- **`check_keeps_locations`**: the tree `checker.Check` returns (annotated, call arguments retyped, fast-call flags
    set) has, node for node, the locations of the tree it was given — every checker configuration, every tree. -/
theorem check_keeps_locations (P : Loc → Prop) (cfg : CheckCfg) (n n' : Node) (t : OTy) (hn : n.AllLoc P)
    (h : check cfg n = .ok n' t) : n'.AllLoc P := by
  have := CheckerLocs.check_allLoc (P := P) cfg n hn
  rw [h] at this
  exact this

/-- **`patch_operators_keeps_locations`**: `compiler.PatchOperators` (over the reference walker table, which is the
    table of the source: C10 `walk_table_is_reference`) returns a tree with the locations of the tree given; the call
    that replaces an overloaded occurrence sits at the occurrence's location. -/
theorem patch_operators_keeps_locations (P : Loc → Prop) (ops : OpTable) (tyOf : Node → String) (n n' : Node)
    (hn : n.AllLoc P) (h : patchOperators refSlots ops tyOf n = some n') : n'.AllLoc P := by
  rw [patchOperators_ref] at h
  cases h
  exact explicitCallForm_allLoc ops tyOf n hn

/-- **`typed_error_location_in_source`** — `expr.Compile(src, Env(…), Operator(…), Optimize(…))` + `expr.Run`, every
    stage a model of the code: Config.Check, lexer, parser, checker, PatchOperators, checker, optimizer, compiler, VM.
    Whatever fails at run time is reported at a location that lies inside the source and whose snippet shows the
    first rune of the defining token of a node of the parsed tree — or at 0:0 (a fresh inner node of an optimizer
    rewrite; see `optimize_keeps_locations_goal_witness`).  Hypotheses: the standard lexer tables (pinned to the source
    by C12 `tables_pinned`), line feed is white space, the walker table is the reference one, no `AsInt64` /
    `AsFloat64` epilogue, operands fit 16 bits (guaranteed by the compiler's guard: C05 `compiled_fits_code`). -/
theorem typed_error_location_in_source (F : Api.Front) (T : Api.TypedCfg) (c : Cfg) (src : String) (cp : Compiled)
    (checked final : Node) (htab : F.tables = LexTables.std) (hnl : F.cc.isSpace '\n' = true)
    (hw : T.walkTbl = refSlots) (hcast : Api.castOf T.check.expect = none)
    (h : Api.compileSource F T c.world src = .ok cp checked final) (hfit : Refine.FitsU16 cp.code)
    (fuel : Nat) (e : ErrClass) (s' : VM)
    (hrun : run c (Refine.progOf cp) fuel = (.error e, s')) (he : e ≠ .fuel) :
    (∃ ch, F.cc.isSpace ch = false ∧ PointsAt src.toList (report (locTable 0 cp.code) s'.pp) ch) ∨
      report (locTable 0 cp.code) s'.pp = {} := by
  obtain ⟨_, ts, n, n1, t1, n2, t3, hl, hp, h1, h2, h3, hopt, hcomp⟩ := C01.compileSource_ok_inv h
  let P : Loc → Prop := fun l => (∃ ch, F.cc.isSpace ch = false ∧ PointsAt src.toList l ch) ∨ l = {}
  rw [htab] at hl
  have hn : n.AllLoc P :=
    Node.allLoc_mono (fun _ hq => Or.inl hq) n (node_locations_in_source F.cc hnl F.pcfg src ts n hl hp)
  have hn1 := check_keeps_locations P T.check n n1 t1 hn h1
  rw [hw] at h2
  have hn2 := patch_operators_keeps_locations P T.opTable T.tyOf n1 n2 hn1 h2
  have hck := check_keeps_locations P T.check n2 checked t3 hn2 h3
  have hfin : final.AllLoc P := by
    by_cases ho : T.optimize = true
    · rw [if_pos ho] at hopt
      exact optimize_keeps_locations P (Or.inr rfl) T.optFlags T.constFns c.world checked final hck hopt
    · rw [if_neg ho] at hopt
      cases hopt
      exact hck
  have hcfg : Bc.CompCfgOk T.compCfg := by
    intro t ht
    simp only [Api.TypedCfg.compCfg, hcast] at ht
    cases ht
  rcases runtime_error_location T.compCfg hcfg final cp hcomp hfit c fuel e s' hrun he P hfin with hP | ⟨h0, _⟩
  · exact hP
  · exact Or.inr h0

/-- non-vacuity of the chain: C01's example `I in 1..3 and not B` (every parsed node on line 1) goes through check,
    PatchOperators, check and the optimizer (`in_range` fires), and every node of the tree handed to the compiler is
    on line 1 or at 0:0 — obtained from the three theorems, not by evaluation -/
example : (C01.exTyped C01.w0).2.2.AllLoc (fun l => l.line = 1 ∨ l = {}) := by
  obtain ⟨n1, t1, n2, t3, h1, h2, h3, h4, _⟩ := C01.middle_ok_inv C01.exTyped_ok
  have hn : C01.exParsed.AllLoc (fun l => l.line = 1 ∨ l = {}) := by
    simp [C01.exParsed, C01.mkAt, Node.AllLoc]
  have hn1 := check_keeps_locations _ _ _ n1 t1 hn h1
  have hn2 := patch_operators_keeps_locations _ _ _ n1 n2 hn1 h2
  have hck := check_keeps_locations _ _ _ _ t3 hn2 h3
  have h4' : optimize C01.exT.optFlags C01.exT.constFns C01.w0 (C01.exTyped C01.w0).2.1 = .ok (C01.exTyped C01.w0).2.2 := h4
  exact optimize_keeps_locations _ (Or.inr rfl) _ _ _ _ _ hck h4'

/-- … and so is every compile error of the optimizer stage of that pipeline -/
theorem typed_optimize_error_in_source (F : Api.Front) (T : Api.TypedCfg) (w : World) (src : String) (ts : List Token)
    (n n1 n2 checked : Node) (t1 t3 : OTy) (l : Loc)
    (htab : F.tables = LexTables.std) (hnl : F.cc.isSpace '\n' = true) (hw : T.walkTbl = refSlots)
    (hl : Lex.lex F.cc F.tables src = .ok ts) (hp : Parser.parse F.pcfg ts = .ok n)
    (h1 : check T.check n = .ok n1 t1) (h2 : patchOperators T.walkTbl T.opTable T.tyOf n1 = some n2)
    (h3 : check T.check n2 = .ok checked t3)
    (hopt : optimize T.optFlags T.constFns w checked = .error l) :
    (∃ ch, F.cc.isSpace ch = false ∧ PointsAt src.toList l ch) ∨ l = {} := by
  let P : Loc → Prop := fun l => (∃ ch, F.cc.isSpace ch = false ∧ PointsAt src.toList l ch) ∨ l = {}
  rw [htab] at hl
  have hn : n.AllLoc P :=
    Node.allLoc_mono (fun _ hq => Or.inl hq) n (node_locations_in_source F.cc hnl F.pcfg src ts n hl hp)
  have hn1 := check_keeps_locations P T.check n n1 t1 hn h1
  rw [hw] at h2
  have hn2 := patch_operators_keeps_locations P T.opTable T.tyOf n1 n2 hn1 h2
  have hck := check_keeps_locations P T.check n2 checked t3 hn2 h3
  exact optimize_error_located P (Or.inr rfl) T.optFlags T.constFns w checked l hck hopt

/-! ### compile-time type errors -/

/-- **`check_error_located`**: a located error of `checker.Check` is at the location of a node of the tree it was
    given — the node at hand, a visited operand, a call argument, a slice bound, the condition of a conditional, a map
    key (all 22 node kinds, the argument loop, every checker configuration).  The one unlocated checker error is the
    `expected …` error of the result directive (`loc = none`). -/
theorem check_error_located (P : Loc → Prop) (cfg : CheckCfg) (n n' : Node) (l : Loc) (c : CheckErrClass)
    (hn : n.AllLoc P) (h : check cfg n = .error (some l) c n') : P l :=
  CheckerLocs.check_error_located cfg n n' l c hn h

/-- non-vacuity, and the rule at work: `1 + "a"` (tokens at 1:0, 1:2, 1:4) is rejected at 1:2, the `+` -/
example : ∃ c n', check C01.exT.check
    (.binary (C01.mkAt 1 2) "+" (.int (C01.mkAt 1 0) 1) (.str (C01.mkAt 1 4) "a")) = .error (some ⟨1, 2⟩) c n' :=
  ⟨_, _, rfl⟩

/-- **`typed_check_error_in_source`**: in the model of `expr.Compile(src, Env(…), Operator(…))`, a type error the
    compilation stops with — raised by the first check, or by the second check on the tree after `PatchOperators` —
    is located inside the source, at the first rune of the defining token of a node of the parsed tree (no 0:0 escape
    here: nothing before the optimizer creates unlocated nodes). -/
theorem typed_check_error_in_source (F : Api.Front) (T : Api.TypedCfg) (w : World) (src : String) (l : Loc)
    (c : CheckErrClass) (htab : F.tables = LexTables.std) (hnl : F.cc.isSpace '\n' = true) (hw : T.walkTbl = refSlots)
    (h : Api.compileSource F T w src = .checkError (some l) c) :
    ∃ ch, F.cc.isSpace ch = false ∧ PointsAt src.toList l ch := by
  let P : Loc → Prop := fun l => ∃ ch, F.cc.isSpace ch = false ∧ PointsAt src.toList l ch
  unfold Api.compileSource at h
  split at h
  · split at h
    · cases h
    · rename_i ts hl
      split at h
      · cases h
      · rename_i n hp
        rw [htab] at hl
        have hn : n.AllLoc P := node_locations_in_source F.cc hnl F.pcfg src ts n hl hp
        unfold Api.middle at h
        split at h
        · rename_i loc c' n' h1
          simp only [Api.CompileOut.checkError.injEq] at h
          rw [h.1, h.2] at h1
          exact check_error_located P T.check n n' l c hn h1
        · cases h
        · rename_i n1 t1 h1
          have hn1 := check_keeps_locations P T.check n n1 t1 hn h1
          split at h
          · cases h
          · rename_i n2 h2
            rw [hw] at h2
            have hn2 := patch_operators_keeps_locations P T.opTable T.tyOf n1 n2 hn1 h2
            split at h
            · rename_i loc c' n' h3
              simp only [Api.CompileOut.checkError.injEq] at h
              rw [h.1, h.2] at h3
              exact check_error_located P T.check n2 n' l c hn2 h3
            · cases h
            · dsimp only at h
              split at h
              · cases h
              · split at h <;> cases h
  · cases h

end ExprModel.C13
