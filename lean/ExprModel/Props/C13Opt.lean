import ExprModel.Props.C13Pipeline
import ExprModel.Proofs.OptLocs
/-
C13, locations through the optimizer (closes the gap named in DESIGN.md section 12: "no theorem carries
locations through the optimizer").  `optimizer.Optimize` sits between the checker and the compiler; the
theorems of C13Pipeline speak about the tree handed to the compiler.  Here: whatever holds of every node
location of the tree given to `Optimize` (and of 0:0, the location of the fresh inner nodes of the in-array and
in-range rewrites) holds of every node location of its result, of the compile error it may raise, of every
instruction of the compiled program and of the location every failing run reports.
-/
namespace ExprModel.C13
open ExprModel ExprModel.Src ExprModel.Lex ExprModel.Opt
open ExprModel.LocMap (report)

/-- **`optimize_keeps_locations`**: every node of the optimised tree carries the location of a node of the tree
    given, or 0:0 — for every tree, all five passes, their repetition loops, every flag setting (the code as it
    is and as it was) and every table of constant functions. -/
theorem optimize_keeps_locations (P : Loc → Prop) (h0 : P {}) (fl : Flags) (fns : ConstFns) (w : World)
    (n n' : Node) (hn : n.AllLoc P) (h : optimize fl fns w n = .ok n') : n'.AllLoc P := by
  have := OptProofs.optimizeWith_allLoc h0 Guard.all fl fns w n hn
  unfold optimize at h
  rw [h] at this
  exact this

/-- **`optimize_error_located`**: a compile error raised by the optimizer (integer division or modulo by zero
    met by `fold`, a `ConstExpr` function that fails) is at the location of a node of the tree given. -/
theorem optimize_error_located (P : Loc → Prop) (h0 : P {}) (fl : Flags) (fns : ConstFns) (w : World)
    (n : Node) (l : Loc) (hn : n.AllLoc P) (h : optimize fl fns w n = .error l) : P l := by
  have := OptProofs.optimizeWith_allLoc h0 Guard.all fl fns w n hn
  unfold optimize at h
  rw [h] at this
  exact this

/-- non-vacuity, and the rule at work: in `1 + 2 / 0` (tokens at 1:0, 1:2, 1:4, 1:6, 1:8) `fold` reports the
    division at 1:6, the `/` -/
example :
    let w : World := { call := fun _ _ => .ok .nil, regexMatch := fun _ _ => none, pow := fun a _ => a }
    optimize Flags.asIs [] w
      (.binary ⟨⟨1, 2⟩, .invalid⟩ "+" (.int ⟨⟨1, 0⟩, .invalid⟩ 1)
        (.binary ⟨⟨1, 6⟩, .invalid⟩ "/" (.int ⟨⟨1, 4⟩, .invalid⟩ 2) (.int ⟨⟨1, 8⟩, .invalid⟩ 0))) = .error ⟨1, 6⟩ := rfl

/-- **`optimized_runtime_error_location`**: check, optimise, compile, run.  Whenever the run of the program
    compiled from the *optimised* tree fails, the location the VM reports is the location of a node of the
    tree that was given to the optimizer, or 0:0 (a fresh inner node of a rewrite, or the `OpCast` epilogue). -/
theorem optimized_runtime_error_location (cfg : CompCfg) (hcfg : Bc.CompCfgOk cfg) (fl : Flags) (fns : ConstFns)
    (checked final : Node) (cp : Compiled) (c : Cfg)
    (hopt : optimize fl fns c.world checked = .ok final)
    (hc : compileProgram cfg final = .ok cp) (hfit : Refine.FitsU16 cp.code) (fuel : Nat) (e : ErrClass)
    (s' : VM) (hrun : run c (Refine.progOf cp) fuel = (.error e, s')) (he : e ≠ .fuel)
    (P : Loc → Prop) (h0 : P {}) (hn : checked.AllLoc P) :
    P (report (locTable 0 cp.code) s'.pp) := by
  have hf := optimize_keeps_locations P h0 fl fns c.world checked final hn hopt
  rcases runtime_error_location cfg hcfg final cp hc hfit c fuel e s' hrun he P hf with h | ⟨h, _⟩
  · exact h
  · rw [h]; exact h0

/-- **Source to reported location, optimizer included** (lex, parse, `optimizer.Optimize`, compile without
    cast, run): whatever fails at run time is reported inside the source, at the first rune of the defining token
    of a node of the parsed tree — or at 0:0. -/
theorem optimized_error_location_in_source (cc : CharClass) (hnl : cc.isSpace '\n' = true) (pcfg : Parser.Cfg)
    (src : String) (toks : List Token) (root final : Node) (cfg : CompCfg) (hcast : cfg.cast = none)
    (fl : Flags) (fns : ConstFns) (cp : Compiled) (c : Cfg)
    (hl : Lex.lex cc LexTables.std src = .ok toks) (hp : Parser.parse pcfg toks = .ok root)
    (hopt : optimize fl fns c.world root = .ok final)
    (hc : compileProgram cfg final = .ok cp) (hfit : Refine.FitsU16 cp.code) (fuel : Nat) (e : ErrClass)
    (s' : VM) (hrun : run c (Refine.progOf cp) fuel = (.error e, s')) (he : e ≠ .fuel) :
    (∃ ch, cc.isSpace ch = false ∧ PointsAt src.toList (report (locTable 0 cp.code) s'.pp) ch) ∨
      report (locTable 0 cp.code) s'.pp = {} := by
  have hcfg : Bc.CompCfgOk cfg := by intro t ht; rw [hcast] at ht; cases ht
  have hn := node_locations_in_source cc hnl pcfg src toks root hl hp
  exact optimized_runtime_error_location cfg hcfg fl fns root final cp c hopt hc hfit fuel e s' hrun he
    (fun l => (∃ ch, cc.isSpace ch = false ∧ PointsAt src.toList l ch) ∨ l = {}) (Or.inr rfl)
    (Node.allLoc_mono (fun _ h => Or.inl h) root hn)

/-- … and the optimizer's own compile error is inside the source or at 0:0 -/
theorem optimize_error_in_source (cc : CharClass) (hnl : cc.isSpace '\n' = true) (pcfg : Parser.Cfg)
    (src : String) (toks : List Token) (root : Node) (fl : Flags) (fns : ConstFns) (w : World) (l : Loc)
    (hl : Lex.lex cc LexTables.std src = .ok toks) (hp : Parser.parse pcfg toks = .ok root)
    (hopt : optimize fl fns w root = .error l) :
    (∃ ch, cc.isSpace ch = false ∧ PointsAt src.toList l ch) ∨ l = {} :=
  optimize_error_located (fun l => (∃ ch, cc.isSpace ch = false ∧ PointsAt src.toList l ch) ∨ l = {}) (Or.inr rfl)
    fl fns w root l
    (Node.allLoc_mono (fun _ h => Or.inl h) root (node_locations_in_source cc hnl pcfg src toks root hl hp)) hopt

/-- the statement without the 0:0 escape -/
def optimize_keeps_locations_goal : Prop :=
  ∀ (P : Loc → Prop) (fl : Flags) (fns : ConstFns) (w : World) (n n' : Node),
    n.AllLoc P → optimize fl fns w n = .ok n' → n'.AllLoc P

/-- … does not hold of the code: the two comparison nodes the in-range rewrite creates are never given a
    location (`ast.Patch` reaches only the outer node), so the optimised tree of `X in 1..3` has nodes at 0:0
    although every node of the parsed tree is on line 1.  Such a node fails at run time only when the
    environment does not have the declared type (`>=` on an `int`-annotated operand). -/
theorem optimize_keeps_locations_goal_witness : ¬ optimize_keeps_locations_goal := by
  intro h
  let w : World := { call := fun _ _ => .ok .nil, regexMatch := fun _ _ => none, pow := fun a _ => a }
  let n : Node := .binary ⟨⟨1, 2⟩, .bool⟩ "in" (.ident ⟨⟨1, 0⟩, .num .int⟩ "X" false)
    (.binary ⟨⟨1, 6⟩, .invalid⟩ ".." (.int ⟨⟨1, 5⟩, .invalid⟩ 1) (.int ⟨⟨1, 8⟩, .invalid⟩ 3))
  have hn : n.AllLoc (fun l => l.line = 1) := by simp [n, Node.AllLoc]
  let x : Node := .ident ⟨⟨1, 0⟩, .num .int⟩ "X" false
  let n' : Node := .binary ⟨⟨1, 2⟩, .bool⟩ "and" (.binary {} ">=" x (.int ⟨⟨1, 5⟩, .invalid⟩ 1))
    (.binary {} "<=" x (.int ⟨⟨1, 8⟩, .invalid⟩ 3))
  have hopt : optimize Flags.asIs [] w n = .ok n' := rfl
  have := h (fun l => l.line = 1) Flags.asIs [] w n n' hn hopt
  simp [n', Node.AllLoc] at this

end ExprModel.C13
