/-
An abstract machine for C08/C09: N runs (or N Compile calls) over one `Shared` value — the compiled
program with its constants and locations, the memory budget, the environment, the option values —
each owning a `Local` state (the VM record: stack, scopes, ip, pp, memory counter; or for Compile the
config, parser, checker, compiler records and the tree being compiled).

A step of thread `i` is `step : Shared → Local → Shared × Local`: it *may* return a changed shared part.
What the Go code is claimed to do (and what `Gen/Writes.lean` re-establishes from the source on every
run) is `ReadOnly step`: the shared part comes back unchanged.  Core only; no proofs here.

Outside this model: the Go memory model (what unsynchronised *reads* of shared memory observe is only
defined because nobody writes), the race detector, and the internals of regexp / reflect / strings.Replacer
(which synchronise their own caches).
-/
namespace ExprModel.Interleave

/-- the state of all threads: thread ids are natural numbers, so N is arbitrary -/
abbrev Locals (Local : Type) := Nat → Local

def setLocal {Local : Type} (ls : Locals Local) (i : Nat) (l : Local) : Locals Local :=
  fun j => if j = i then l else ls j

/-- one scheduled step of thread `i` -/
def stepThread {Shared Local : Type} (step : Shared → Local → Shared × Local)
    (g : Shared × Locals Local) (i : Nat) : Shared × Locals Local :=
  let r := step g.1 (g.2 i)
  (r.1, setLocal g.2 i r.2)

/-- run a whole schedule (a list of thread ids, any length, any interleaving) -/
def runAll {Shared Local : Type} (step : Shared → Local → Shared × Local) :
    List Nat → Shared × Locals Local → Shared × Locals Local
  | [], g => g
  | i :: rest, g => runAll step rest (stepThread step g i)

/-- `n` steps of one thread executed alone -/
def runAlone {Shared Local : Type} (step : Shared → Local → Shared × Local) (sh : Shared) : Nat → Local → Local
  | 0, l => l
  | n + 1, l => runAlone step sh n (step sh l).2

/-- the step writes nothing shared -/
def ReadOnly {Shared Local : Type} (step : Shared → Local → Shared × Local) : Prop :=
  ∀ sh l, (step sh l).1 = sh

/-- number of steps thread `i` is given by a schedule -/
def steps (i : Nat) (sched : List Nat) : Nat := sched.count i

/-- a read-only step built from a pure transition (the shape `step : Shared → Local → Local` of DESIGN C08) -/
def pureStep {Shared Local : Type} (f : Shared → Local → Local) : Shared → Local → Shared × Local :=
  fun sh l => (sh, f sh l)

end ExprModel.Interleave
