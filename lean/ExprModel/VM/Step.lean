import ExprModel.Code.Instr
import ExprModel.VM.Runtime
/-
The byte-level model of (*VM).Run (vm/vm.go): prologue, dispatch loop, one clause per opcode.
Ghost fields: `created` (collection elements actually built) and `log` (environment calls, newest first).
-/
namespace ExprModel

/-- behaviour of the world outside expr: environment functions, regexp, math.Pow (oracle parameters) -/
structure World where
  call : String → List Val → R Val
  regexMatch : String → String → Option Bool     -- pattern, subject; none = pattern does not compile
  pow : Float → Float → Float

/-- places where the unchanged code is known to deviate from a property, as switches (DESIGN 3.5) -/
structure Defects where
  rangeSizeSigned : Bool    -- OpRange adds the *signed* size max-min+1 to the counter (C06)
  memoryNotReset : Bool     -- the prologue does not reset `memory` (C07)
  deriving Repr, DecidableEq

def Defects.none : Defects := { rangeSizeSigned := false, memoryNotReset := false }

structure Prog where
  code : Array Nat
  consts : Array Val
  deriving Inhabited

abbrev Scope := List (String × Val)

structure VM where
  stack : List Val := []           -- top first
  scopes : List Scope := []        -- innermost first
  ip : Nat := 0
  pp : Nat := 0
  memory : Int := 0
  limit : Int := 0
  created : Nat := 0
  log : List (String × List Val) := []
  deriving Inhabited

structure Cfg where
  world : World
  env : Val
  budget : Int
  defects : Defects

/-- a failing step reports the state it failed in (call log, memory counter and `pp` stay observable) -/
abbrev RV := Except (ErrClass × VM)

def liftR {α} (s : VM) : R α → RV α
  | .ok a => .ok a
  | .error e => .error (e, s)

def failV {α} (e : ErrClass) (s : VM) : RV α := .error (e, s)

namespace VM

def push (s : VM) (v : Val) : VM := { s with stack := v :: s.stack }

def pop (s : VM) : RV (Val × VM) :=
  match s.stack with
  | v :: rest => .ok (v, { s with stack := rest })
  | [] => .error (.underflow, s)

def pop2 (s : VM) : RV (Val × Val × VM) := do
  let (b, s) ← s.pop
  let (a, s) ← s.pop
  pure (a, b, s)

/-- pops `n` values, returning them in push order (deepest first) -/
def popN : Nat → VM → List Val → RV (List Val × VM)
  | 0, s, acc => .ok (acc, s)
  | n + 1, s, acc => do
    let (v, s) ← s.pop
    popN n s (v :: acc)

def current (s : VM) : RV Val :=
  match s.stack with
  | v :: _ => .ok v
  | [] => .error (.underflow, s)

end VM

def scopeSet (k : String) (v : Val) : Scope → Scope
  | [] => [(k, v)]
  | (k', v') :: rest => if k == k' then (k, v) :: rest else (k', v') :: scopeSet k v rest

/-- `arg()`: two operand bytes, little endian; reading past the end is an index panic -/
def readArg (p : Prog) (s : VM) : RV (Nat × VM) :=
  match p.code[s.ip]?, p.code[s.ip + 1]? with
  | some b0, some b1 => .ok (b0 + 256 * b1, { s with ip := s.ip + 2 })
  | _, _ => .error (.badop, s)

def readConst (p : Prog) (s : VM) : RV (Val × VM) := do
  let (a, s) ← readArg p s
  match p.consts[a]? with
  | some c => pure (c, s)
  | none => .error (.badop, s)

def constStr : Val → R String
  | .str x => .ok x
  | _ => .error .type_

/-- `FetchFn(from, name)` followed by the call; members are `fn id` values -/
def callMember (w : World) (fromV : Val) (name : String) (args : List Val) : R Val :=
  let fields : Option (List (String × Val)) := match fromV with
    | .map kvs => some kvs
    | .tmap _ _ kvs => some kvs
    | .struct _ _ fs => some fs
    | _ => none
  match fields with
  | some fs =>
    match lookupKv name fs with
    | some (.fn id) => w.call id args
    | some _ => .error .type_
    | none => .error .type_
  | none => .error .type_

/-- a call that `reflect.Call` refuses (arity or argument type) never enters the function: it is a type
    error and is *not* an evaluated call; a call that enters the function is logged, even if it then panics -/
def callHappened : R Val → Bool
  | .error .type_ => false
  | _ => true

def insertSorted (k : String) (v : Val) : List (String × Val) → List (String × Val)
  | [] => [(k, v)]
  | (k', v') :: rest =>
    if k < k' then (k, v) :: (k', v') :: rest
    else if k == k' then (k, v) :: rest
    else (k', v') :: insertSorted k v rest

/-- builds the map of OpMap from the popped values `k1 v1 … kn vn` (push order): written last-to-first,
    so for duplicate keys the *earlier* pair is the one that stays -/
def buildMap : List Val → R (List (String × Val))
  | [] => .ok []
  | [_] => .error .underflow
  | k :: v :: rest => do
    let m ← buildMap rest
    match k with
    | .str ks => pure (insertSorted ks v m)
    | _ => .error .type_

def binOpOf : Op → Option Helper
  | .less => some .less | .more => some .more | .lessOrEqual => some .lessOrEqual
  | .moreOrEqual => some .moreOrEqual | .add => some .add | .subtract => some .subtract
  | .multiply => some .multiply | .divide => some .divide | .modulo => some .modulo
  | _ => none

/-- One iteration of the dispatch loop at `s.ip < len(bytecode)`. -/
def step (c : Cfg) (p : Prog) (s : VM) : RV VM := do
  let opByte := p.code[s.ip]?.getD 255
  let s := { s with pp := s.ip, ip := s.ip + 1 }
  match Op.ofCode? opByte with
  | none => failV .badop s
  | some op =>
  match op with
  | .push => do let (v, s) ← readConst p s; pure (s.push v)
  | .pop => do let (_, s) ← s.pop; pure s
  | .rot => do let (a, b, s) ← s.pop2; pure ((s.push b).push a)
  | .fetch => do
    let (k, s) ← readConst p s
    pure (s.push (← liftR s (fetchV c.env k false)))
  | .fetchNilSafe => do
    let (k, s) ← readConst p s
    pure (s.push (← liftR s (fetchV c.env k true)))
  | .fetchMap => do
    let (k, s) ← readConst p s
    match c.env, k with
    | .map kvs, .str name => pure (s.push ((lookupKv name kvs).getD .nil))
    | _, _ => failV .type_ s
  | .true_ => pure (s.push (.bool true))
  | .false_ => pure (s.push (.bool false))
  | .nil_ => pure (s.push .nil)
  | .negate => do let (v, s) ← s.pop; pure (s.push (← liftR s (negV v)))
  | .not_ => do let (v, s) ← s.pop; pure (s.push (← liftR s (notV v)))
  | .equal => do let (a, b, s) ← s.pop2; pure (s.push (.bool (equalV a b)))
  | .equalInt => do
    let (a, b, s) ← s.pop2
    match a, b with
    | .int .int x, .int .int y => pure (s.push (.bool (x == y)))
    | _, _ => failV .type_ s
  | .equalString => do
    let (a, b, s) ← s.pop2
    match a, b with
    | .str x, .str y => pure (s.push (.bool (x == y)))
    | _, _ => failV .type_ s
  | .jump => do let (o, s) ← readArg p s; pure { s with ip := s.ip + o }
  | .jumpIfTrue => do
    let (o, s) ← readArg p s
    match ← s.current with
    | .bool true => pure { s with ip := s.ip + o }
    | .bool false => pure s
    | _ => failV .type_ s
  | .jumpIfFalse => do
    let (o, s) ← readArg p s
    match ← s.current with
    | .bool false => pure { s with ip := s.ip + o }
    | .bool true => pure s
    | _ => failV .type_ s
  | .jumpBackward => do
    let (o, s) ← readArg p s
    if o ≤ s.ip then pure { s with ip := s.ip - o } else failV .badop s
  | .in_ => do let (a, b, s) ← s.pop2; pure (s.push (.bool (← liftR s (inV a b))))
  | .less | .more | .lessOrEqual | .moreOrEqual | .add | .subtract | .multiply | .divide | .modulo => do
    let (a, b, s) ← s.pop2
    match binOpOf op with
    | some h => pure (s.push (← liftR s (binHelper h a b)))
    | none => failV .badop s
  | .exponent => do
    let (a, b, s) ← s.pop2
    match toFloat64Val a, toFloat64Val b with
    | some x, some y => pure (s.push (.f64 (c.world.pow x y)))
    | _, _ => failV .type_ s
  | .range => do
    let (a, b, s) ← s.pop2
    let lo ← liftR s (toIntR a)
    let hi ← liftR s (toIntR b)
    let size : Int := hi - lo + 1
    let counted : Int := if c.defects.rangeSizeSigned then size else (if size < 0 then 0 else size)
    if s.memory + counted ≥ s.limit then failV .budget s
    else
      let elems := rangeElems lo hi
      pure { (s.push (.arr (.num .int) elems)) with memory := s.memory + counted, created := s.created + elems.length }
  | .matches_ => do
    let (a, b, s) ← s.pop2
    match a, b with
    | .str subj, .str pat =>
      match c.world.regexMatch pat subj with
      | some r => pure (s.push (.bool r))
      | none => failV .type_ s
    | _, _ => failV .type_ s
  | .matchesConst => do
    let (a, s) ← s.pop
    let (r, s) ← readConst p s
    match a, r with
    | .str subj, .regexp pat =>
      match c.world.regexMatch pat subj with
      | some m => pure (s.push (.bool m))
      | none => failV .type_ s
    | _, _ => failV .type_ s
  | .contains => do let (a, b, s) ← s.pop2; pure (s.push (← liftR s (strOp strContains a b)))
  | .startsWith => do let (a, b, s) ← s.pop2; pure (s.push (← liftR s (strOp strHasPrefix a b)))
  | .endsWith => do let (a, b, s) ← s.pop2; pure (s.push (← liftR s (strOp strHasSuffix a b)))
  | .index => do let (a, b, s) ← s.pop2; pure (s.push (← liftR s (fetchV a b false)))
  | .slice => do
    let (fromV, s) ← s.pop
    let (toV, s) ← s.pop
    let (node, s) ← s.pop
    pure (s.push (← liftR s (sliceV node fromV toV)))
  | .property => do
    let (a, s) ← s.pop
    let (k, s) ← readConst p s
    pure (s.push (← liftR s (fetchV a k false)))
  | .propertyNilSafe => do
    let (a, s) ← s.pop
    let (k, s) ← readConst p s
    pure (s.push (← liftR s (fetchV a k true)))
  | .call | .callFast => do
    let (cv, s) ← readConst p s
    match cv with
    | .call name size =>
      let (args, s) ← VM.popN size s []
      let r := callMember c.world c.env name args
      let s := if callHappened r then { s with log := (name, args) :: s.log } else s
      pure (s.push (← liftR s r))
    | _ => failV .type_ s
  | .method | .methodNilSafe => do
    let (cv, s) ← readConst p s
    match cv with
    | .call name size =>
      let (args, s) ← VM.popN size s []
      let (obj, s) ← s.pop
      if op == .methodNilSafe && obj.isNilLike then pure (s.push .nil)
      else
        let r := callMember c.world obj name args
        let s := if callHappened r then { s with log := (name, args) :: s.log } else s
        pure (s.push (← liftR s r))
    | _ => failV .type_ s
  | .array => do
    let (n, s) ← s.pop
    match n with
    | .int .int size =>
      if size < 0 then failV .index s else
      let (elems, s) ← VM.popN size.toNat s []
      let s := { (s.push (.arr .iface elems)) with memory := s.memory + size, created := s.created + elems.length }
      if s.memory ≥ s.limit then failV .budget s else pure s
    | _ => failV .type_ s
  | .map => do
    let (n, s) ← s.pop
    match n with
    | .int .int size =>
      if size < 0 then failV .index s else
      let (flat, s) ← VM.popN (2 * size.toNat) s []
      let m ← liftR s (buildMap flat)
      let s := { (s.push (.map m)) with memory := s.memory + size, created := s.created + size.toNat }
      if s.memory ≥ s.limit then failV .budget s else pure s
    | _ => failV .type_ s
  | .len => do
    let v ← s.current
    pure (s.push (.int .int (← liftR s (lengthV v))))
  | .cast => do
    let (t, s) ← readArg p s
    if t == 0 || t == 1 then do
      let (v, s) ← s.pop
      pure (s.push (← liftR s (castV t v)))
    else pure s
  | .store => do
    let (k, s) ← readConst p s
    let key ← liftR s (constStr k)
    let (v, s) ← s.pop
    match s.scopes with
    | sc :: rest => pure { s with scopes := scopeSet key v sc :: rest }
    | [] => failV .underflow s
  | .load => do
    let (k, s) ← readConst p s
    let key ← liftR s (constStr k)
    match s.scopes with
    | sc :: _ => pure (s.push ((lookupKv key sc).getD .nil))
    | [] => pure (s.push .nil)
  | .inc => do
    let (k, s) ← readConst p s
    let key ← liftR s (constStr k)
    match s.scopes with
    | sc :: rest =>
      match lookupKv key sc with
      | some (.int .int i) => pure { s with scopes := scopeSet key (.int .int (wrap .int (i + 1))) sc :: rest }
      | _ => failV .type_ s
    | [] => failV .type_ s
  | .begin_ => pure { s with scopes := [] :: s.scopes }
  | .end_ =>
    match s.scopes with
    | _ :: rest => pure { s with scopes := rest }
    | [] => failV .underflow s

/-- the statements of `Run` before the dispatch loop -/
def prologue (c : Cfg) (s : VM) : VM :=
  { s with limit := c.budget, ip := 0, pp := 0, stack := [], scopes := [],
           memory := if c.defects.memoryNotReset then s.memory else 0,
           created := 0, log := [] }     -- ghost observables are per run

/-- the dispatch loop; the result is the popped top of stack (nil when the stack is empty) -/
def loop (c : Cfg) (p : Prog) : Nat → VM → (R Val × VM)
  | 0, s => (.error .fuel, s)
  | fuel + 1, s =>
    if s.ip < p.code.size then
      match step c p s with
      | .ok s' => loop c p fuel s'
      | .error (e, s') => (.error e, s')
    else
      match s.stack with
      | v :: rest => (.ok v, { s with stack := rest })
      | [] => (.ok .nil, s)

/-- `(*VM).Run(program, env)` on an existing VM value -/
def runOn (c : Cfg) (p : Prog) (fuel : Nat) (s : VM) : (R Val × VM) :=
  loop c p fuel (prologue c s)

def run (c : Cfg) (p : Prog) (fuel : Nat) : (R Val × VM) := runOn c p fuel {}

end ExprModel
