import ExprModel.Num.Arith
/-
Run-time library of vm/runtime.go (fetch, slice, in, length, equal, range, casts) over the `Val`
universe, shared by the byte-level VM model and by the reference evaluator.
`reflect` behaviour is modelled by the Go specification's rules and validated by correspondence.
-/
namespace ExprModel

/-- coarse classes of run-time failures (what the harness can classify reliably from panic messages) -/
inductive ErrClass where
  | type_      -- operand of the wrong dynamic type, missing member, not callable …
  | index      -- index / slice bound out of range
  | divzero
  | budget     -- memory budget exceeded
  | call       -- panic inside an environment function
  | underflow  -- pop of an empty stack / missing scope (never produced by the Spec)
  | badop      -- unknown opcode / malformed program
  | fuel       -- model ran out of fuel (reported as a disagreement, never as an error of the code)
  deriving DecidableEq, Repr, Inhabited

def ErrClass.name : ErrClass → String
  | .type_ => "type" | .index => "index" | .divzero => "divzero" | .budget => "budget"
  | .call => "call" | .underflow => "underflow" | .badop => "badop" | .fuel => "fuel"

abbrev R := Except ErrClass

namespace Val

def isNilLike : Val → Bool
  | .nil => true
  | _ => false

/-- `runtime.isNil`: the untyped nil and the nil values of reference kinds the universe can tell apart
    (a nil `map[string]T`) -/
def isNilRef : Val → Bool
  | .nil => true
  | .tmap _ n _ => n
  | _ => false

mutual
/-- `reflect.DeepEqual` on the universe: identical dynamic types and equal contents. -/
def deepEq : Val → Val → Bool
  | .nil, .nil => true
  | .bool a, .bool b => a == b
  | .int k a, .int k' b => k == k' && a == b
  | .f64 a, .f64 b => a == b
  | .f32 a, .f32 b => a == b
  | .str a, .str b => a == b
  | .arr t xs, .arr t' ys => t == t' && deepEqList xs ys
  | .map xs, .map ys => deepEqKvs xs ys
  | .tmap z n xs, .tmap z' n' ys => deepEq z z' && n == n' && deepEqKvs xs ys   -- same element type, both nil or neither
  | .set t xs, .set t' ys => t == t' && deepEqList xs ys
  | .struct n p xs, .struct n' p' ys => n == n' && p == p' && deepEqKvs xs ys
  | .fn _, .fn _ => false           -- DeepEqual on non-nil funcs is false
  | .regexp a, .regexp b => a == b
  | .call n s, .call n' s' => n == n' && s == s'
  | _, _ => false
def deepEqList : List Val → List Val → Bool
  | [], [] => true
  | x :: xs, y :: ys => deepEq x y && deepEqList xs ys
  | _, _ => false
def deepEqKvs : List (String × Val) → List (String × Val) → Bool
  | [], [] => true
  | (k, x) :: xs, (l, y) :: ys => k == l && deepEq x y && deepEqKvs xs ys
  | _, _ => false
end

end Val

/-- `vm.equal`: numeric / string helper arm if there is one, else nil-likeness, else DeepEqual. -/
def equalV (a b : Val) : Bool :=
  match refSem .equal a b with
  | .ok (.bool r) => r
  | _ => (a.isNilRef && b.isNilRef) || Val.deepEq a b

/-- the ordered / arithmetic helpers: a missing arm is a type error -/
def binHelper (h : Helper) (a b : Val) : R Val :=
  match refSem h a b with
  | .ok v => .ok v
  | .error .divZero => .error .divzero
  | .error _ => .error .type_

def toIntR (v : Val) : R Int :=
  match toIntVal v with
  | some n => .ok n
  | none => .error .type_

/-- bytes of a Go string -/
def strBytes (s : String) : List UInt8 := s.toUTF8.toList

def lookupKv (k : String) : List (String × Val) → Option Val
  | [] => none
  | (k', v) :: rest => if k == k' then some v else lookupKv k rest

/-- values stored in a struct under a method marker are not fields -/
def isMethodVal : Val → Bool
  | .fn id => id.startsWith "method:"
  | _ => false

def elemTMatches : ElemT → Val → Bool
  | .iface, _ => true
  | .num k, .int k' _ => k == k'
  | .num .float64, .f64 _ => true
  | .num .float32, .f32 _ => true
  | .str, .str _ => true
  | .bool, .bool _ => true
  | _, _ => false

/-- `runtime.fetch(from, i, nilsafe)` -/
def fetchV (fromV i : Val) (nilsafe : Bool) : R Val :=
  let fallback : R Val := if nilsafe then .ok .nil else .error .type_
  match fromV with
  | .arr _ xs =>
    match toIntR i with
    | .error e => .error e
    | .ok n => if 0 ≤ n ∧ n < xs.length then .ok (xs.getD n.toNat .nil) else .error .index
  | .str s =>
    match toIntR i with
    | .error e => .error e
    | .ok n =>
      let bs := strBytes s
      if 0 ≤ n ∧ n < bs.length then .ok (.int .uint8 (bs.getD n.toNat 0).toNat) else .error .index
  | .map kvs =>
    match i with
    | .str k => .ok ((lookupKv k kvs).getD .nil)
    | _ => .error .type_          -- reflect: key of the wrong type / invalid key
  | .tmap z _ kvs =>
    -- `reflect.Zero(v.Type().Elem())` for a missing key (and for every key of a nil map)
    match i with
    | .str k => .ok ((lookupKv k kvs).getD z)
    | _ => .error .type_
  | .set t _ =>
    -- map[K]struct{}: present or not, the element is the empty struct; a key of another type is a reflect panic
    if elemTMatches t i && !i.isNilLike then .ok (.struct "struct {}" false []) else .error .type_
  | .struct _ _ fs =>
    match i with
    | .str k =>
      match lookupKv k fs with
      | some v => if isMethodVal v then fallback else .ok v
      | none => fallback
    | _ => fallback
  | _ => fallback

/-- `runtime.slice(array, from, to)` (the caller has already evaluated both bounds) -/
def sliceV (a fromV toV : Val) : R Val :=
  match a with
  | .arr t xs =>
    match toIntR fromV, toIntR toV with
    | .ok f, .ok t' =>
      let len : Int := xs.length
      let b := if t' > len then len else t'
      let a' := if f > b then b else f
      if a' < 0 ∨ b < 0 then .error .index
      else .ok (.arr t ((xs.drop a'.toNat).take (b - a').toNat))
    | .error e, _ => .error e
    | _, .error e => .error e
  | .str s =>
    match toIntR fromV, toIntR toV with
    | .ok f, .ok t' =>
      let bs := strBytes s
      let len : Int := bs.length
      let b := if t' > len then len else t'
      let a' := if f > b then b else f
      if a' < 0 ∨ b < 0 then .error .index
      else
        let cut := ByteArray.mk ((bs.drop a'.toNat).take (b - a').toNat).toArray
        if h : cut.IsValidUTF8 then .ok (.str (String.fromUTF8 cut h)) else .ok (.opaque "invalid-utf8")
    | .error e, _ => .error e
    | _, .error e => .error e
  | _ => .error .type_

/-- `runtime.in(needle, array)` -/
def inV (needle array : Val) : R Bool :=
  match array with
  | .nil => .ok false
  | .arr _ xs => .ok (xs.any fun x => equalV x needle)
  | .map kvs =>
    match needle with
    | .str k => .ok ((lookupKv k kvs).isSome)
    | _ => .error .type_
  | .tmap _ _ kvs =>
    match needle with
    | .str k => .ok ((lookupKv k kvs).isSome)
    | _ => .error .type_
  | .set t ks =>
    if elemTMatches t needle && !needle.isNilLike then .ok (ks.any fun k => Val.deepEq k needle)
    else .error .type_
  | .struct _ _ fs =>
    match needle with
    | .str k => .ok ((lookupKv k fs).any fun v => !isMethodVal v)
    | _ => .error .type_
  | _ => .error .type_

def lengthV : Val → R Int
  | .arr _ xs => .ok xs.length
  | .map kvs => .ok kvs.length
  | .tmap _ _ kvs => .ok kvs.length
  | .set _ ks => .ok ks.length
  | .str s => .ok (strBytes s).length
  | _ => .error .type_

/-- `makeRange(min, max)`: the elements actually built -/
def rangeElems (lo hi : Int) : List Val :=
  if hi < lo then [] else (List.range (hi - lo + 1).toNat).map fun (i : Nat) => Val.int .int (lo + (i : Int))

def notV : Val → R Val
  | .bool b => .ok (.bool !b)
  | _ => .error .type_

def negV (v : Val) : R Val :=
  match negateVal v with
  | some r => .ok r
  | none => .error .type_

def castV (t : Nat) (v : Val) : R Val :=
  match t with
  | 0 => match kindOfVal v with
    | some _ => match conv .int64 v with
      | .int _ n => .ok (.int .int64 n)
      | _ => .error .type_
    | none => .error .type_
  | 1 => match toFloat64Val v with
    | some x => .ok (.f64 x)
    | none => .error .type_
  | _ => .ok v      -- `switch t` without a default: other operands push nothing (see VM model)

def strOp (f : String → String → Bool) (a b : Val) : R Val :=
  match a, b with
  | .str x, .str y => .ok (.bool (f x y))
  | _, _ => .error .type_

def isInfixOf (needle hay : List Char) : Bool :=
  match hay with
  | [] => needle.isEmpty
  | _ :: rest => needle.isPrefixOf hay || isInfixOf needle rest

def strContains (a b : String) : Bool := isInfixOf b.toList a.toList
def strHasPrefix (a b : String) : Bool := b.toList.isPrefixOf a.toList
def strHasSuffix (a b : String) : Bool := b.toList.reverse.isPrefixOf a.toList.reverse

end ExprModel
