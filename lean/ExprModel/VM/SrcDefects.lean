import ExprModel.VM.Step
import ExprModel.Gen.VMReset
import ExprModel.Gen.Budget
/-
The defect switches of the VM model as *derived from the source* (Gen facts regenerated from vm/vm.go on
every run): the single place that decides which variant of the model mirrors /repo today.
The harness asks the driver for these flags (`srcdefects` stage), so the same /verif follows the code
before and after a `fix:` commit; Props/C06 and Props/C07 prove what the flags have to be.
-/
namespace ExprModel

/-- the prologue of `(*VM).Run` assigns `vm.memory` on every path -/
def memoryResetInSource : Bool := Gen.VMReset.prologueAssigned.contains "memory"

/-- `OpRange` clamps `size` at zero before the budget test and before `vm.memory += size` -/
def rangeClampedInSource : Bool := Gen.Budget.rangeSite.clamped

def srcDefects : Defects :=
  { rangeSizeSigned := !rangeClampedInSource, memoryNotReset := !memoryResetInSource }

end ExprModel
