import ExprModel.Syntax.Parser
import ExprModel.Lex.Number
/-
The number conversion of the parser model, instantiated with the lexer model's `parseNumber`
(classification chain of parser.go + strconv.ParseInt); `strconv.ParseFloat` stays a parameter.
-/
namespace ExprModel.Parser

def numVia (ncfg : Lex.NumCfg) (parseFloat : String → Option UInt64) (v : String) : Option NumVal :=
  match Lex.parseNumber ncfg v with
  | .ok (.int n) => some (.int n)
  | .ok (.float text) => (parseFloat text).map .float
  | .error _ => none

end ExprModel.Parser
