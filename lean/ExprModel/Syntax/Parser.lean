import ExprModel.Syntax.Ast
import ExprModel.Syntax.Token
/-
Executable model of parser/parser.go (C11, C13, C04): a Pratt parser over the token list, mirrored
function by function.  Recursion is on a fuel argument (every call passes `fuel` to its callees, so
fuel bounds the call *depth*; each loop iteration is one call).

Error-as-state of the Go code (`p.err`, "first error wins", loops test `p.err == nil`, `next()` past the
end sets an error) is modelled by short-circuiting on the first error: after the first `p.error` the Go
code only computes values that are thrown away (`Parse` returns `p.err`), so the observable result is the
first error's location and message.

Parameters (`Cfg`): the binding-power / arity tables (generated from parser.go into `Gen.ParserTables`),
the number conversion (strconv.ParseInt/ParseFloat: C12's subject) and the regexp oracle
(`regexp.Compile` fails).
-/
namespace ExprModel
namespace Parser

inductive Assoc where
  | left | right
  deriving DecidableEq, Repr, Inhabited

structure Tables where
  unary : List (String × Nat × Assoc)
  binary : List (String × Nat × Assoc)
  builtins : List (String × Nat)
  deriving Repr, Inhabited

inductive NumVal where
  | int (v : Int)
  | float (bits : UInt64)
  deriving Repr, Inhabited

structure Cfg where
  tb : Tables
  /-- value of a Number token (after `strings.Replace(_, "_", "")`): `none` = strconv reports an error -/
  num : String → Option NumVal
  /-- `regexp.Compile` rejects the pattern -/
  badRegex : String → Bool := fun _ => false

abbrev Err := Loc × String

/-- result of a parser function: value and remaining tokens (head = `p.current`), first error, or out of fuel -/
inductive Res (α : Type) where
  | ok (a : α) (ts : List Token)
  | err (e : Err)
  | fuel
  deriving Repr, Inhabited

@[inline] def Res.bind {α β : Type} : Res α → (α → List Token → Res β) → Res β
  | .ok a ts, k => k a ts
  | .err e, _ => .err e
  | .fuel, _ => .fuel

@[simp] theorem Res.bind_ok {α β : Type} (a : α) (ts : List Token) (k : α → List Token → Res β) :
    (Res.ok a ts).bind k = k a ts := rfl
@[simp] theorem Res.bind_err {α β : Type} (e : Err) (k : α → List Token → Res β) :
    (Res.err e : Res α).bind k = .err e := rfl
@[simp] theorem Res.bind_fuel {α β : Type} (k : α → List Token → Res β) :
    (Res.fuel : Res α).bind k = .fuel := rfl

def eofTok : Token := { kind := .eof, value := "", loc := {} }

/-- `p.current` -/
def cur : List Token → Token
  | [] => eofTok
  | t :: _ => t

/-- `p.next()`: fails when the current token is the last one -/
def next : List Token → Res Unit
  | _ :: t :: rest => .ok () (t :: rest)
  | ts => .err ((cur ts).loc, "unexpected end of expression")

/-- `p.expect(kind, value)` -/
def expect (k : TokKind) (v : String) (ts : List Token) : Res Unit :=
  if (cur ts).is k v then next ts else .err ((cur ts).loc, "unexpected token")

def mk (l : Loc) : Meta := { loc := l, kd := .invalid }

def isAlphabetic (c : Char) : Bool := c == '_' || c == '$' || c.isAlpha || c.toNat ≥ 128
def isAlphaNumeric (c : Char) : Bool := isAlphabetic c || c.isDigit

/-- `isValidIdentifier` (only ever applied to Operator tokens, whose values are ASCII) -/
def isValidIdentifier (s : String) : Bool :=
  match s.toList with
  | [] => false
  | c :: cs => isAlphabetic c && cs.all isAlphaNumeric

def strLit? : Node → Option String
  | .str _ s => some s
  | _ => none

variable (cfg : Cfg)

/-- `binaryOperators[token.Value]` for an Operator token -/
def binOp (t : Token) : Option (Nat × Assoc) :=
  if t.kind == .operator then cfg.tb.binary.lookup t.value else none

/-- `unaryOperators[token.Value]` for an Operator token (precedence only; associativity is unused) -/
def unOp (t : Token) : Option Nat :=
  if t.kind == .operator then (cfg.tb.unary.lookup t.value).map (·.1) else none

/-- precedence at which the right operand is parsed -/
def rprec (q : Nat) (a : Assoc) : Nat := if a = .left then q + 1 else q

/-- a valid member name token: Identifier, or an Operator spelled like an identifier (`not`, `matches` …) -/
def nameOk (t : Token) : Bool :=
  !(t.kind != .identifier && (t.kind != .operator || !isValidIdentifier t.value))

mutual

/-- `parseExpression(precedence)` at closure depth `d` -/
def parseExpression : Nat → Nat → Nat → List Token → Res Node
  | 0, _, _, _ => .fuel
  | f+1, d, p, ts =>
    (parsePrimary f d ts).bind fun l ts1 =>
    (exprLoop f d p l ts1).bind fun e ts2 =>
    if p = 0 then parseConditional f d e ts2 else .ok e ts2

/-- the `for token.Is(Operator) && p.err == nil` loop of parseExpression -/
def exprLoop : Nat → Nat → Nat → Node → List Token → Res Node
  | 0, _, _, _, _ => .fuel
  | f+1, d, p, l, ts =>
    match binOp cfg (cur ts) with
    | some (q, a) =>
      if q ≥ p then
        (next ts).bind fun _ ts1 =>
        (parseExpression f d (rprec q a) ts1).bind fun r ts2 =>
        if (cur ts).value == "matches" then
          match strLit? r with
          | some s =>
            if cfg.badRegex s then .err ((cur ts2).loc, "error parsing regexp")
            else exprLoop f d p (.matches (mk (cur ts).loc) true l r) ts2
          | none => exprLoop f d p (.matches (mk (cur ts).loc) false l r) ts2
        else exprLoop f d p (.binary (mk (cur ts).loc) (cur ts).value l r) ts2
      else .ok l ts
    | none => .ok l ts

def parsePrimary : Nat → Nat → List Token → Res Node
  | 0, _, _ => .fuel
  | f+1, d, ts =>
    match unOp cfg (cur ts) with
    | some pu =>
      (next ts).bind fun _ ts1 =>
      (parseExpression f d pu ts1).bind fun e ts2 =>
      parsePostfix f d (.unary (mk (cur ts).loc) (cur ts).value e) false ts2
    | none =>
      if (cur ts).is .bracket "(" then
        (next ts).bind fun _ ts1 =>
        (parseExpression f d 0 ts1).bind fun e ts2 =>
        (expect .bracket ")" ts2).bind fun _ ts3 =>
        parsePostfix f d e false ts3
      else if (cur ts).is .operator "#" then
        if d > 0 then
          (next ts).bind fun _ ts1 => parsePostfix f d (.pointer (mk (cur ts).loc)) false ts1
        else .err ((cur ts).loc, "cannot use pointer accessor outside closure")
      else if (cur ts).is .operator "." then
        if d > 0 then parsePostfix f d (.pointer (mk (cur ts).loc)) false ts
        else .err ((cur ts).loc, "cannot use pointer accessor outside closure")
      else parsePrimaryExpression f d ts

/-- the `for p.current.Is(Operator, "?") && p.err == nil` loop of parseConditionalExpression -/
def parseConditional : Nat → Nat → Node → List Token → Res Node
  | 0, _, _, _ => .fuel
  | f+1, d, node, ts =>
    if (cur ts).is .operator "?" then
      (next ts).bind fun _ ts1 =>
      if (cur ts1).is .operator ":" then
        (next ts1).bind fun _ ts2 =>
        (parseExpression f d 0 ts2).bind fun e2 ts3 =>
        parseConditional f d (.cond (mk (cur ts).loc) node node e2) ts3
      else
        (parseExpression f d 0 ts1).bind fun e1 ts2 =>
        (expect .operator ":" ts2).bind fun _ ts3 =>
        (parseExpression f d 0 ts3).bind fun e2 ts4 =>
        parseConditional f d (.cond (mk (cur ts).loc) node e1 e2) ts4
    else .ok node ts

def parsePrimaryExpression : Nat → Nat → List Token → Res Node
  | 0, _, _ => .fuel
  | f+1, d, ts =>
    match (cur ts).kind with
    | .identifier =>
      (next ts).bind fun _ ts1 =>
      if (cur ts).value == "true" then .ok (.bool (mk (cur ts).loc) true) ts1
      else if (cur ts).value == "false" then .ok (.bool (mk (cur ts).loc) false) ts1
      else if (cur ts).value == "nil" then .ok (.nil (mk (cur ts).loc)) ts1
      else
        (parseIdentifierExpression f d (cur ts) ts1).bind fun n ts2 =>
        parsePostfix f d n false ts2
    | .number =>
      (next ts).bind fun _ ts1 =>
      match cfg.num (cur ts).value with
      | some (.int v) => .ok (.int (mk (cur ts).loc) v) ts1
      | some (.float b) => .ok (.float (mk (cur ts).loc) b) ts1
      | none => .err ((cur ts1).loc, "invalid number literal")
    | .string =>
      (next ts).bind fun _ ts1 => .ok (.str (mk (cur ts).loc) (cur ts).value) ts1
    | _ =>
      if (cur ts).is .bracket "[" then
        (parseArray f d ts).bind fun n ts1 => parsePostfix f d n false ts1
      else if (cur ts).is .bracket "{" then
        (parseMap f d ts).bind fun n ts1 => parsePostfix f d n false ts1
      else .err ((cur ts).loc, "unexpected token")

/-- `parseIdentifierExpression(token, next)`; `ts` starts at the token after the identifier -/
def parseIdentifierExpression : Nat → Nat → Token → List Token → Res Node
  | 0, _, _, _ => .fuel
  | f+1, d, tok, ts =>
    if (cur ts).is .bracket "(" then
      match cfg.tb.builtins.lookup tok.value with
      | some ar =>
        (expect .bracket "(" ts).bind fun _ ts1 =>
        (if ar = 1 then
          (parseExpression f d 0 ts1).bind fun a ts2 => .ok [a] ts2
         else if ar = 2 then
          (parseExpression f d 0 ts1).bind fun a ts2 =>
          (expect .operator "," ts2).bind fun _ ts3 =>
          (parseClosure f d ts3).bind fun c ts4 => .ok [a, c] ts4
         else .ok [] ts1).bind fun args ts5 =>
        (expect .bracket ")" ts5).bind fun _ ts6 =>
        .ok (.builtin (mk tok.loc) tok.value args) ts6
      | none =>
        (parseArguments f d ts).bind fun args ts1 =>
        .ok (.func (mk tok.loc) tok.value args false) ts1
    else .ok (.ident (mk tok.loc) tok.value ((cur ts).value == "?.")) ts

def parseClosure : Nat → Nat → List Token → Res Node
  | 0, _, _ => .fuel
  | f+1, d, ts =>
    (expect .bracket "{" ts).bind fun _ ts1 =>
    (parseExpression f (d+1) 0 ts1).bind fun n ts2 =>
    (expect .bracket "}" ts2).bind fun _ ts3 =>
    .ok (.closure (mk (cur ts).loc) n) ts3

def parseArray : Nat → Nat → List Token → Res Node
  | 0, _, _ => .fuel
  | f+1, d, ts =>
    (expect .bracket "[" ts).bind fun _ ts1 =>
    (arrayLoop f d true ts1).bind fun ns ts2 =>
    (expect .bracket "]" ts2).bind fun _ ts3 =>
    .ok (.array (mk (cur ts).loc) ns) ts3

/-- the element loop of parseArrayExpression; `first` = `len(nodes) == 0`; stops at the `end:` label -/
def arrayLoop : Nat → Nat → Bool → List Token → Res (List Node)
  | 0, _, _, _ => .fuel
  | f+1, d, first, ts =>
    if (cur ts).is .bracket "]" then .ok [] ts
    else
      (if first then .ok () ts else expect .operator "," ts).bind fun _ ts1 =>
      if !first && (cur ts1).is .bracket "]" then .ok [] ts1
      else
        (parseExpression f d 0 ts1).bind fun n ts2 =>
        (arrayLoop f d false ts2).bind fun ns ts3 => .ok (n :: ns) ts3

def parseMap : Nat → Nat → List Token → Res Node
  | 0, _, _ => .fuel
  | f+1, d, ts =>
    (expect .bracket "{" ts).bind fun _ ts1 =>
    (mapLoop f d (cur ts).loc true ts1).bind fun ps ts2 =>
    (expect .bracket "}" ts2).bind fun _ ts3 =>
    .ok (.map (mk (cur ts).loc) ps) ts3

/-- the pair loop of parseMapExpression; `l` = location of the opening brace -/
def mapLoop : Nat → Nat → Loc → Bool → List Token → Res (List Node)
  | 0, _, _, _, _ => .fuel
  | f+1, d, l, first, ts =>
    if (cur ts).is .bracket "}" then .ok [] ts
    else
      (if first then .ok () ts else expect .operator "," ts).bind fun _ ts1 =>
      if !first && (cur ts1).is .bracket "}" then .ok [] ts1
      else if !first && (cur ts1).is .operator "," then .err ((cur ts1).loc, "unexpected token")
      else
        (if (cur ts1).kind == .number || (cur ts1).kind == .string || (cur ts1).kind == .identifier then
          (next ts1).bind fun _ ts2 => .ok (Node.str (mk l) (cur ts1).value) ts2
         else if (cur ts1).is .bracket "(" then parseExpression f d 0 ts1
         else .err ((cur ts1).loc, "a map key must be a quoted string, a number, a identifier, or an expression enclosed in parentheses")).bind fun key ts2 =>
        (expect .operator ":" ts2).bind fun _ ts3 =>
        (parseExpression f d 0 ts3).bind fun v ts4 =>
        (mapLoop f d l false ts4).bind fun ps ts5 => .ok (.pair (mk l) key v :: ps) ts5

/-- the loop of parsePostfixExpression; `ns` = the sticky `nilsafe` variable -/
def parsePostfix : Nat → Nat → Node → Bool → List Token → Res Node
  | 0, _, _, _, _ => .fuel
  | f+1, d, node, ns, ts =>
    if (cur ts).kind == .operator || (cur ts).kind == .bracket then
      if (cur ts).value == "." || (cur ts).value == "?." then
        (next ts).bind fun _ ts1 =>
        (next ts1).bind fun _ ts2 =>
        if !nameOk (cur ts1) then .err ((cur ts2).loc, "expected name")
        else if (cur ts2).is .bracket "(" then
          (parseArguments f d ts2).bind fun args ts3 =>
          parsePostfix f d (.method (mk (cur ts1).loc) node (cur ts1).value args (ns || (cur ts).value == "?."))
            (ns || (cur ts).value == "?.") ts3
        else
          parsePostfix f d (.prop (mk (cur ts1).loc) node (cur ts1).value (ns || (cur ts).value == "?."))
            (ns || (cur ts).value == "?.") ts2
      else if (cur ts).value == "[" then
        (next ts).bind fun _ ts1 =>
        if (cur ts1).is .operator ":" then
          (next ts1).bind fun _ ts2 =>
          (if (cur ts2).is .bracket "]" then .ok none ts2
           else (parseExpression f d 0 ts2).bind fun e ts3 => .ok (some e) ts3).bind fun to ts3 =>
          (expect .bracket "]" ts3).bind fun _ ts4 =>
          parsePostfix f d (.slice (mk (cur ts).loc) node none to) ns ts4
        else
          (parseExpression f d 0 ts1).bind fun fr ts2 =>
          if (cur ts2).is .operator ":" then
            (next ts2).bind fun _ ts3 =>
            (if (cur ts3).is .bracket "]" then .ok none ts3
             else (parseExpression f d 0 ts3).bind fun e ts4 => .ok (some e) ts4).bind fun to ts4 =>
            (expect .bracket "]" ts4).bind fun _ ts5 =>
            parsePostfix f d (.slice (mk (cur ts).loc) node (some fr) to) ns ts5
          else
            (expect .bracket "]" ts2).bind fun _ ts3 =>
            parsePostfix f d (.index (mk (cur ts).loc) node fr) ns ts3
      else .ok node ts
    else .ok node ts

def parseArguments : Nat → Nat → List Token → Res (List Node)
  | 0, _, _ => .fuel
  | f+1, d, ts =>
    (expect .bracket "(" ts).bind fun _ ts1 =>
    (argsLoop f d true ts1).bind fun ns ts2 =>
    (expect .bracket ")" ts2).bind fun _ ts3 => .ok ns ts3

/-- the loop of parseArguments (no trailing comma: after `,` an expression is parsed unconditionally) -/
def argsLoop : Nat → Nat → Bool → List Token → Res (List Node)
  | 0, _, _, _ => .fuel
  | f+1, d, first, ts =>
    if (cur ts).is .bracket ")" then .ok [] ts
    else
      (if first then .ok () ts else expect .operator "," ts).bind fun _ ts1 =>
      (parseExpression f d 0 ts1).bind fun n ts2 =>
      (argsLoop f d false ts2).bind fun ns ts3 => .ok (n :: ns) ts3

end

inductive Outcome where
  | ok (n : Node)
  | error (e : Err)
  | outOfFuel
  deriving Repr, Inhabited

/-- `parser.Parse` after lexing: parse at precedence 0, then require EOF -/
def parseFuel (fuel : Nat) (ts : List Token) : Outcome :=
  match parseExpression cfg fuel 0 0 ts with
  | .ok n rest =>
    if (cur rest).kind == .eof then .ok n else .error ((cur rest).loc, "unexpected token")
  | .err e => .error e
  | .fuel => .outOfFuel

/-- call depth never exceeds a small multiple of the number of tokens -/
def fuelFor (ts : List Token) : Nat := 12 * ts.length + 16

def parse (ts : List Token) : Except Err Node :=
  match parseFuel cfg (fuelFor ts) ts with
  | .ok n => .ok n
  | .error e => .error e
  | .outOfFuel => .error ({}, "out of fuel")

end Parser
end ExprModel
