import ExprModel.Syntax.Parser
/-
The reference printer of C11 (DESIGN Appendix B): prints a syntax tree as a token list with only the
parentheses the documented precedence/associativity rules require, plus any number of redundant pairs
chosen by a `ParenChoice` (a function from the path of a subtree to the number of extra pairs).
Each defining token carries the location of the node it defines, so that `parse (print t) = t` can be
stated exactly.  Also: `canon`, the decidable predicate "t is in the image of the parser".
-/
namespace ExprModel
namespace Parser

/-- how number literals are written (the inverse of `Cfg.num`, an assumption of the round trip) -/
structure NumShow where
  showInt : Nat → String
  showFloat : UInt64 → String

/-- number of redundant parenthesis pairs around the subtree at a path (child indices, innermost first) -/
abbrev ParenChoice := List Nat → Nat

def tok (k : TokKind) (v : String) (l : Loc := {}) : Token := { kind := k, value := v, loc := l }

def lparen : Token := tok .bracket "("
def rparen : Token := tok .bracket ")"
def comma : Token := tok .operator ","
def colon : Token := tok .operator ":"
def questAt (l : Loc) : Token := tok .operator "?" l

def wrap : Nat → List Token → List Token
  | 0, b => b
  | k+1, b => lparen :: (wrap k b ++ [rparen])

variable (cfg : Cfg) (sh : NumShow) (pc : ParenChoice)

def lprec (q : Nat) (a : Assoc) : Nat := if a = .left then q else q + 1

/-- the documented omission rule: must `t` be parenthesised where an expression is parsed at precedence
    `m` and the token `fw` follows? -/
def needParens (m : Nat) (fw : Token) : Node → Bool
  | .binary _ op _ _ =>
    match cfg.tb.binary.lookup op with
    | some (q, _) => q < m
    | none => false
  | .matches _ _ _ _ =>
    match cfg.tb.binary.lookup "matches" with
    | some (q, _) => q < m
    | none => false
  | .unary _ op _ =>
    match cfg.tb.unary.lookup op, binOp cfg fw with
    | some (pu, _), some (q, _) => q ≥ pu
    | _, _ => false
  | .cond _ _ _ _ => !(m == 0 && (binOp cfg fw).isNone && !(fw.is .operator "?"))
  | _ => false

/-- bare or parenthesised (`k` redundant pairs; at least one when needed) -/
def parenthesize (k : Nat) (need : Bool) (body : Nat → Token → List Token) (m : Nat) (fw : Token) : List Token :=
  if k = 0 ∧ need = false then body m fw else wrap (max k 1) (body 0 rparen)

/-- primaries that the postfix operators may follow directly -/
def chainable : Node → Bool
  | .ident .. | .func .. | .builtin .. | .array .. | .map .. | .pointer ..
  | .prop .. | .method .. | .index .. | .slice .. => true
  | _ => false

/-- the sticky nil-safe state in force after the text of a node printed bare as a postfix chain -/
def chainSt : List Nat → Node → Bool
  | _, .prop _ _ _ s => s
  | _, .method _ _ _ _ s => s
  | π, .index _ x _ => pc (0 :: π) == 0 && chainSt (0 :: π) x
  | π, .slice _ x _ _ => pc (0 :: π) == 0 && chainSt (0 :: π) x
  | _, _ => false

/-- is the object `x` of a postfix link printed bare?  `member`/`s`: the link is `.name` with nil-safe flag `s`.
    A nil-safe identifier is never parenthesised (see `paren_ident_nilsafe_witness` in Props/C11). -/
def baseBare (π : List Nat) (member s : Bool) : Node → Bool
  | .ident _ _ true => true
  | .ident _ _ false => pc π == 0 && !(member && s)
  | x => chainable x && pc π == 0 && !(member && chainSt pc π x && !s)

def baseSt (π : List Nat) (member s : Bool) (x : Node) : Bool := baseBare pc π member s x && chainSt pc π x

def wrapBase (k : Nat) (bare : Bool) (body : Nat → Token → List Token) : List Token :=
  if bare then body 0 rparen else wrap (max k 1) (body 0 rparen)

mutual
/-- the text of `t` itself (no parentheses around it) in context (`m`, `fw`) -/
def body : List Nat → Nat → Token → Node → List Token
  | _, _, _, .nil mt => [tok .identifier "nil" mt.loc]
  | _, _, _, .bool mt b => [tok .identifier (if b then "true" else "false") mt.loc]
  | _, _, _, .int mt v => [tok .number (sh.showInt v.toNat) mt.loc]
  | _, _, _, .float mt b => [tok .number (sh.showFloat b) mt.loc]
  | _, _, _, .str mt s => [tok .string s mt.loc]
  | _, _, _, .ident mt n _ => [tok .identifier n mt.loc]
  | _, _, _, .pointer mt => [tok .operator "#" mt.loc]
  | _, _, _, .const _ _ => []
  | π, _, fw, .unary mt op x =>
    let pu := match cfg.tb.unary.lookup op with | some (pu, _) => pu | none => 0
    tok .operator op mt.loc ::
      parenthesize (pc (0 :: π)) (needParens cfg pu fw x) (fun m' fw' => body (0 :: π) m' fw' x) pu fw
  | π, _, fw, .binary mt op l r =>
    let qa := match cfg.tb.binary.lookup op with | some qa => qa | none => (0, .left)
    let o := tok .operator op mt.loc
    parenthesize (pc (0 :: π)) (needParens cfg (lprec qa.1 qa.2) o l) (fun m' fw' => body (0 :: π) m' fw' l) (lprec qa.1 qa.2) o
      ++ o :: parenthesize (pc (1 :: π)) (needParens cfg (rprec qa.1 qa.2) fw r) (fun m' fw' => body (1 :: π) m' fw' r) (rprec qa.1 qa.2) fw
  | π, _, fw, .matches mt _ l r =>
    let qa := match cfg.tb.binary.lookup "matches" with | some qa => qa | none => (0, .left)
    let o := tok .operator "matches" mt.loc
    parenthesize (pc (0 :: π)) (needParens cfg (lprec qa.1 qa.2) o l) (fun m' fw' => body (0 :: π) m' fw' l) (lprec qa.1 qa.2) o
      ++ o :: parenthesize (pc (1 :: π)) (needParens cfg (rprec qa.1 qa.2) fw r) (fun m' fw' => body (1 :: π) m' fw' r) (rprec qa.1 qa.2) fw
  | π, _, fw, .cond mt c a b =>
    parenthesize (pc (0 :: π)) (needParens cfg 0 (questAt mt.loc) c) (fun m' fw' => body (0 :: π) m' fw' c) 0 (questAt mt.loc)
      ++ questAt mt.loc :: (parenthesize (pc (1 :: π)) (needParens cfg 0 colon a) (fun m' fw' => body (1 :: π) m' fw' a) 0 colon
      ++ colon :: parenthesize (pc (2 :: π)) (needParens cfg 0 fw b) (fun m' fw' => body (2 :: π) m' fw' b) 0 fw)
  | π, _, _, .prop mt x name s =>
    wrapBase (pc (0 :: π)) (baseBare pc (0 :: π) true s x) (fun m' fw' => body (0 :: π) m' fw' x)
      ++ [tok .operator (if s then "?." else "."), tok .identifier name mt.loc]
  | π, _, _, .method mt x name args s =>
    wrapBase (pc (0 :: π)) (baseBare pc (0 :: π) true s x) (fun m' fw' => body (0 :: π) m' fw' x)
      ++ tok .operator (if s then "?." else ".") :: tok .identifier name mt.loc :: lparen ::
        (listP π 1 rparen args ++ [rparen])
  | π, _, _, .index mt x i =>
    wrapBase (pc (0 :: π)) (baseBare pc (0 :: π) false false x) (fun m' fw' => body (0 :: π) m' fw' x)
      ++ tok .bracket "[" mt.loc ::
        (parenthesize (pc (1 :: π)) (needParens cfg 0 (tok .bracket "]") i) (fun m' fw' => body (1 :: π) m' fw' i) 0 (tok .bracket "]")
          ++ [tok .bracket "]"])
  | π, _, _, .slice mt x fr to =>
    wrapBase (pc (0 :: π)) (baseBare pc (0 :: π) false false x) (fun m' fw' => body (0 :: π) m' fw' x)
      ++ tok .bracket "[" mt.loc :: (optP π 1 colon fr ++ colon :: (optP π 2 (tok .bracket "]") to ++ [tok .bracket "]"]))
  | π, _, _, .func mt name args _ =>
    tok .identifier name mt.loc :: lparen :: (listP π 0 rparen args ++ [rparen])
  | π, _, _, .builtin mt name args =>
    tok .identifier name mt.loc :: lparen :: (builtinP π args ++ [rparen])
  | π, _, _, .closure mt x =>
    tok .bracket "{" mt.loc ::
      (parenthesize (pc (0 :: π)) (needParens cfg 0 (tok .bracket "}") x) (fun m' fw' => body (0 :: π) m' fw' x) 0 (tok .bracket "}")
        ++ [tok .bracket "}"])
  | π, _, _, .array mt xs =>
    tok .bracket "[" mt.loc :: (listP π 0 (tok .bracket "]") xs ++ [tok .bracket "]"])
  | π, _, _, .map mt ps =>
    tok .bracket "{" mt.loc :: (pairsP π 0 mt.loc ps ++ [tok .bracket "}"])
  | _, _, _, .pair _ _ _ => []

/-- comma-separated expressions; `close` is the token after the last one; children are numbered from `i` -/
def listP : List Nat → Nat → Token → List Node → List Token
  | _, _, _, [] => []
  | π, i, close, [a] =>
    parenthesize (pc (i :: π)) (needParens cfg 0 close a) (fun m' fw' => body (i :: π) m' fw' a) 0 close
  | π, i, close, a :: b :: rest =>
    parenthesize (pc (i :: π)) (needParens cfg 0 comma a) (fun m' fw' => body (i :: π) m' fw' a) 0 comma
      ++ comma :: listP π (i+1) close (b :: rest)

/-- the arguments of a builtin: one expression, or an expression and a closure -/
def builtinP : List Nat → List Node → List Token
  | π, [a] =>
    parenthesize (pc (0 :: π)) (needParens cfg 0 rparen a) (fun m' fw' => body (0 :: π) m' fw' a) 0 rparen
  | π, [a, c] =>
    parenthesize (pc (0 :: π)) (needParens cfg 0 comma a) (fun m' fw' => body (0 :: π) m' fw' a) 0 comma
      ++ comma :: body (1 :: π) 0 rparen c
  | _, _ => []

/-- an optional slice bound -/
def optP : List Nat → Nat → Token → Option Node → List Token
  | _, _, _, none => []
  | π, i, close, some e =>
    parenthesize (pc (i :: π)) (needParens cfg 0 close e) (fun m' fw' => body (i :: π) m' fw' e) 0 close

/-- the pairs of a map literal: a string key carrying the brace's location is printed as a string token,
    any other key as a parenthesised expression; pair `j` has children `2j` (key) and `2j+1` (value) -/
def pairsP : List Nat → Nat → Loc → List Node → List Token
  | _, _, _, [] => []
  | π, j, l, p :: rest =>
    (match p with
     | .pair _ k v =>
       (match k with
        | .str mk s =>
          if mk.loc = l ∧ pc ((2*j) :: π) = 0 then [tok .string s]
          else wrap (max (pc ((2*j) :: π)) 1) (body ((2*j) :: π) 0 rparen k)
        | _ => wrap (max (pc ((2*j) :: π)) 1) (body ((2*j) :: π) 0 rparen k))
       ++ colon ::
        (match rest with
         | [] => parenthesize (pc ((2*j+1) :: π)) (needParens cfg 0 (tok .bracket "}") v)
                   (fun m' fw' => body ((2*j+1) :: π) m' fw' v) 0 (tok .bracket "}")
         | _ :: _ => parenthesize (pc ((2*j+1) :: π)) (needParens cfg 0 comma v)
                   (fun m' fw' => body ((2*j+1) :: π) m' fw' v) 0 comma)
     | _ => [])
    ++ (match rest with
        | [] => []
        | _ :: _ => comma :: pairsP π (j+1) l rest)
end

/-! ### Canonical trees: the image of the parser (DESIGN Appendix B) -/

/-- the bit patterns a float literal can denote: sign bit clear and exponent field not all ones (finite,
    non-negative) — `1e999` is an error, `-1.5` is a unary minus applied to `1.5`, NaN has no spelling -/
def floatLit (b : UInt64) : Bool := decide (b.toNat < 0x7FF0000000000000)

def reserved (n : String) : Bool := n == "true" || n == "false" || n == "nil"

/-- the parser attaches no type: `kd` is the zero value -/
def inv (m : Meta) : Bool := m.kd == .invalid

/-- the object of a postfix link: an identifier may carry `NilSafe` only directly before `?.` -/
def canonBaseWith (r : Bool) (s : Bool) : Node → Bool
  | .ident mi n ns => inv mi && !reserved n && (!ns || s)
  | _ => r

mutual
/-- `canon d t`: `t` is a tree the parser can produce at closure depth `d` -/
def canon (d : Nat) : Node → Bool
  | .nil m => inv m
  | .bool m _ => inv m
  | .int m v => inv m && decide (0 ≤ v ∧ v < 9223372036854775808)
  | .float m b => inv m && floatLit b
  | .str m _ => inv m
  | .ident m n ns => inv m && !ns && !reserved n
  | .const _ _ => false
  | .unary m op x => inv m && (cfg.tb.unary.lookup op).isSome && canon d x
  | .binary m op l r =>
    inv m && (cfg.tb.binary.lookup op).isSome && op != "matches" && canon d l && canon d r
  | .matches m h l r =>
    inv m && (cfg.tb.binary.lookup "matches").isSome && h == (strLit? r).isSome &&
      (match strLit? r with | some s => !cfg.badRegex s | none => true) && canon d l && canon d r
  | .prop m x _ s => inv m && canonBaseWith (canon d x) s x
  | .method m x _ args s => inv m && canonBaseWith (canon d x) s x && canonList d args
  | .index m x i => inv m && canonBaseWith (canon d x) false x && canon d i
  | .slice m x fr to => inv m && canonBaseWith (canon d x) false x && canonOpt d fr && canonOpt d to
  | .func m n args fast =>
    inv m && !fast && !reserved n && (cfg.tb.builtins.lookup n).isNone && canonList d args
  | .builtin m n args =>
    inv m && (match cfg.tb.builtins.lookup n, args with
      | some ar, [a] => ar == 1 && canon d a
      | some ar, [a, .closure mc b] => ar == 2 && canon d a && inv mc && canon (d+1) b
      | _, _ => false)
  | .closure _ _ => false
  | .pointer m => inv m && decide (0 < d)
  | .cond m c a b => inv m && canon d c && canon d a && canon d b
  | .array m xs => inv m && canonList d xs
  | .map m ps => inv m && canonPairs d m.loc ps
  | .pair _ _ _ => false
def canonList (d : Nat) : List Node → Bool
  | [] => true
  | a :: rest => canon d a && canonList d rest
def canonOpt (d : Nat) : Option Node → Bool
  | none => true
  | some e => canon d e
def canonPairs (d : Nat) (l : Loc) : List Node → Bool
  | [] => true
  | .pair m k v :: rest => decide (m = mk l) && canon d k && canon d v && canonPairs d l rest
  | _ :: _ => false
end

/-- `t` in an expression context: parsed at precedence `m`, followed by `fw` -/
def pr (π : List Nat) (m : Nat) (fw : Token) (t : Node) : List Token :=
  parenthesize (pc π) (needParens cfg m fw t) (fun m' fw' => body cfg sh pc π m' fw' t) m fw

/-- `x` as the object of a postfix link -/
def prBase (π : List Nat) (member s : Bool) (x : Node) : List Token :=
  wrapBase (pc π) (baseBare pc π member s x) (fun m' fw' => body cfg sh pc π m' fw' x)

/-- the printed token list of a whole expression (without the EOF token) -/
def print (t : Node) : List Token := pr cfg sh pc [] 0 eofTok t

end Parser
end ExprModel
