import ExprModel.Base.Val
/- Tokens of parser/lexer/token.go -/
namespace ExprModel

inductive TokKind where
  | identifier | number | string | operator | bracket | eof
  deriving DecidableEq, Repr, Inhabited

structure Token where
  kind : TokKind
  value : String
  loc : Loc := {}
  deriving DecidableEq, Repr, Inhabited

namespace TokKind
def name : TokKind → String
  | identifier => "Identifier" | number => "Number" | string => "String"
  | operator => "Operator" | bracket => "Bracket" | eof => "EOF"
def ofName? : String → Option TokKind
  | "Identifier" => some identifier | "Number" => some number | "String" => some string
  | "Operator" => some operator | "Bracket" => some bracket | "EOF" => some eof
  | _ => none
end TokKind

namespace Token
def toSexp (t : Token) : Sexp :=
  .list [.atom t.kind.name, Sexp.str t.value, Sexp.nat t.loc.line, Sexp.nat t.loc.col]
def ofSexp : Sexp → Option Token
  | .list [.atom k, v, l, c] => do
    pure { kind := ← TokKind.ofName? k, value := ← v.asStr, loc := ⟨← l.asNat, ← c.asNat⟩ }
  | _ => none
/-- `Token.Is(kind, values...)` -/
def is (t : Token) (k : TokKind) (v : String) : Bool := t.kind == k && t.value == v
end Token
end ExprModel
