import ExprModel.Base.Val
/-
The syntax tree of ast/node.go: 22 node kinds.  Every node carries `Meta` = (location, reflect.Kind of
the type the checker attached).  `List Node` is used directly (nested inductive); functions and
theorems over trees are written as `mutual` structural recursions over `Node` / `List Node`.
-/
namespace ExprModel

/-- `reflect.Kind` of the type attached to a node, as far as compiler and optimizer look at it. -/
inductive RKind where
  | invalid                -- nil type / not set
  | bool | num (k : Kind) | string | iface
  | slice | array | map | struct | ptr | func | other
  deriving DecidableEq, Repr, Inhabited

structure Meta where
  loc : Loc := {}
  kd : RKind := .invalid
  deriving DecidableEq, Repr, Inhabited

inductive Node where
  | nil (m : Meta)
  | ident (m : Meta) (name : String) (nilsafe : Bool)
  | int (m : Meta) (v : Int)
  | float (m : Meta) (bits : UInt64)
  | bool (m : Meta) (b : Bool)
  | str (m : Meta) (s : String)
  | const (m : Meta) (v : Val)
  | unary (m : Meta) (op : String) (x : Node)
  | binary (m : Meta) (op : String) (l r : Node)
  | matches (m : Meta) (hasRe : Bool) (l r : Node)
  | prop (m : Meta) (x : Node) (name : String) (nilsafe : Bool)
  | index (m : Meta) (x i : Node)
  | slice (m : Meta) (x : Node) (from_ to : Option Node)
  | method (m : Meta) (x : Node) (name : String) (args : List Node) (nilsafe : Bool)
  | func (m : Meta) (name : String) (args : List Node) (fast : Bool)
  | builtin (m : Meta) (name : String) (args : List Node)
  | closure (m : Meta) (x : Node)
  | pointer (m : Meta)
  | cond (m : Meta) (c a b : Node)
  | array (m : Meta) (xs : List Node)
  | map (m : Meta) (pairs : List Node)
  | pair (m : Meta) (k v : Node)
  deriving Repr, Inhabited

namespace Node

def getMeta : Node → Meta
  | nil m | ident m _ _ | int m _ | float m _ | bool m _ | str m _ | const m _
  | unary m _ _ | binary m _ _ _ | «matches» m _ _ _ | prop m _ _ _ | index m _ _
  | slice m _ _ _ | method m _ _ _ _ | func m _ _ _ | builtin m _ _ | closure m _
  | pointer m | cond m _ _ _ | array m _ | map m _ | pair m _ _ => m

def withMeta (m : Meta) : Node → Node
  | nil _ => nil m | ident _ a b => ident m a b | int _ v => int m v | float _ v => float m v
  | bool _ b => bool m b | str _ s => str m s | const _ v => const m v
  | unary _ o x => unary m o x | binary _ o l r => binary m o l r
  | «matches» _ h l r => «matches» m h l r | prop _ x n s => prop m x n s
  | index _ x i => index m x i | slice _ x f t => slice m x f t
  | method _ x n a s => method m x n a s | func _ n a f => func m n a f
  | builtin _ n a => builtin m n a | closure _ x => closure m x | pointer _ => pointer m
  | cond _ c a b => cond m c a b | array _ xs => array m xs | map _ ps => map m ps
  | pair _ k v => pair m k v

def loc (n : Node) : Loc := n.getMeta.loc
def kd (n : Node) : RKind := n.getMeta.kd

/-- Go type name of the node kind, as `ast.Dump` / `%T` shows it -/
def kindName : Node → String
  | nil _ => "NilNode" | ident .. => "IdentifierNode" | int .. => "IntegerNode"
  | float .. => "FloatNode" | bool .. => "BoolNode" | str .. => "StringNode"
  | const .. => "ConstantNode" | unary .. => "UnaryNode" | binary .. => "BinaryNode"
  | «matches» .. => "MatchesNode" | prop .. => "PropertyNode" | index .. => "IndexNode"
  | slice .. => "SliceNode" | method .. => "MethodNode" | func .. => "FunctionNode"
  | builtin .. => "BuiltinNode" | closure .. => "ClosureNode" | pointer .. => "PointerNode"
  | cond .. => "ConditionalNode" | array .. => "ArrayNode" | map .. => "MapNode"
  | pair .. => "PairNode"

end Node

/-- the value of an integer literal whose node the checker annotated with a numeric kind
    (`IntegerNode` in compiler.go: `int8(node.Value)`, `float64(node.Value)` …; plain `int` otherwise) -/
def intConst (kd : RKind) (v : Int) : Val :=
  match kd with
  | .num .float32 => .f32 (Float32.ofInt v)
  | .num .float64 => .f64 (Float.ofInt v)
  | .num k => .int k (wrap k v)
  | _ => .int .int v

/-! ### S-expression encoding (driver only) -/

def RKind.toAtom : RKind → String
  | .invalid => "_" | .bool => "bool" | .num k => k.name | .string => "string" | .iface => "any"
  | .slice => "slice" | .array => "array" | .map => "map" | .struct => "struct" | .ptr => "ptr"
  | .func => "func" | .other => "other"

def RKind.ofAtom (s : String) : RKind :=
  match s with
  | "_" => .invalid | "bool" => .bool | "string" => .string | "any" => .iface
  | "slice" => .slice | "array" => .array | "map" => .map | "struct" => .struct | "ptr" => .ptr
  | "func" => .func
  | s => match Kind.ofName? s with
    | some k => .num k
    | none => .other

def Meta.toSexp (m : Meta) : Sexp :=
  .list [.atom "@", Sexp.nat m.loc.line, Sexp.nat m.loc.col, .atom m.kd.toAtom]

def Meta.ofSexp : Sexp → Option Meta
  | .list [.atom "@", l, c, .atom k] => do
      pure { loc := ⟨← l.asNat, ← c.asNat⟩, kd := RKind.ofAtom k }
  | _ => none

namespace Node

mutual
def toSexp : Node → Sexp
  | nil m => .list [.atom "nil", m.toSexp]
  | ident m n s => .list [.atom "id", m.toSexp, Sexp.str n, Sexp.bool s]
  | int m v => .list [.atom "int", m.toSexp, Sexp.int v]
  | float m b => .list [.atom "float", m.toSexp, Sexp.nat b.toNat]
  | bool m b => .list [.atom "bool", m.toSexp, Sexp.bool b]
  | str m s => .list [.atom "str", m.toSexp, Sexp.str s]
  | const m v => .list [.atom "const", m.toSexp, v.toSexp]
  | unary m o x => .list [.atom "un", m.toSexp, Sexp.str o, toSexp x]
  | binary m o l r => .list [.atom "bin", m.toSexp, Sexp.str o, toSexp l, toSexp r]
  | «matches» m h l r => .list [.atom "matches", m.toSexp, Sexp.bool h, toSexp l, toSexp r]
  | prop m x n s => .list [.atom "prop", m.toSexp, toSexp x, Sexp.str n, Sexp.bool s]
  | index m x i => .list [.atom "index", m.toSexp, toSexp x, toSexp i]
  | slice m x f t => .list [.atom "slice", m.toSexp, toSexp x, optToSexp f, optToSexp t]
  | method m x n a s => .list (.atom "method" :: m.toSexp :: toSexp x :: Sexp.str n :: Sexp.bool s :: listToSexp a)
  | func m n a f => .list (.atom "call" :: m.toSexp :: Sexp.str n :: Sexp.bool f :: listToSexp a)
  | builtin m n a => .list (.atom "builtin" :: m.toSexp :: Sexp.str n :: listToSexp a)
  | closure m x => .list [.atom "closure", m.toSexp, toSexp x]
  | pointer m => .list [.atom "ptr", m.toSexp]
  | cond m c a b => .list [.atom "cond", m.toSexp, toSexp c, toSexp a, toSexp b]
  | array m xs => .list (.atom "array" :: m.toSexp :: listToSexp xs)
  | map m ps => .list (.atom "map" :: m.toSexp :: listToSexp ps)
  | pair m k v => .list [.atom "pair", m.toSexp, toSexp k, toSexp v]
def optToSexp : Option Node → Sexp
  | none => .atom "_"
  | some n => toSexp n
def listToSexp : List Node → List Sexp
  | [] => []
  | n :: ns => toSexp n :: listToSexp ns
end

partial def ofSexp : Sexp → Option Node
  | .list [.atom "nil", m] => do pure (nil (← Meta.ofSexp m))
  | .list [.atom "id", m, n, s] => do pure (ident (← Meta.ofSexp m) (← n.asStr) (← s.asBool))
  | .list [.atom "int", m, v] => do pure (int (← Meta.ofSexp m) (← v.asInt))
  | .list [.atom "float", m, b] => do pure (float (← Meta.ofSexp m) (UInt64.ofNat (← b.asNat)))
  | .list [.atom "bool", m, b] => do pure (bool (← Meta.ofSexp m) (← b.asBool))
  | .list [.atom "str", m, s] => do pure (str (← Meta.ofSexp m) (← s.asStr))
  | .list [.atom "const", m, v] => do pure (const (← Meta.ofSexp m) (← Val.ofSexp v))
  | .list [.atom "un", m, o, x] => do pure (unary (← Meta.ofSexp m) (← o.asStr) (← ofSexp x))
  | .list [.atom "bin", m, o, l, r] => do
      pure (binary (← Meta.ofSexp m) (← o.asStr) (← ofSexp l) (← ofSexp r))
  | .list [.atom "matches", m, h, l, r] => do
      pure («matches» (← Meta.ofSexp m) (← h.asBool) (← ofSexp l) (← ofSexp r))
  | .list [.atom "prop", m, x, n, s] => do
      pure (prop (← Meta.ofSexp m) (← ofSexp x) (← n.asStr) (← s.asBool))
  | .list [.atom "index", m, x, i] => do pure (index (← Meta.ofSexp m) (← ofSexp x) (← ofSexp i))
  | .list [.atom "slice", m, x, f, t] => do
      let opt : Sexp → Option (Option Node) := fun
        | .atom "_" => some none
        | s => (ofSexp s).map some
      pure (slice (← Meta.ofSexp m) (← ofSexp x) (← opt f) (← opt t))
  | .list (.atom "method" :: m :: x :: n :: s :: a) => do
      pure (method (← Meta.ofSexp m) (← ofSexp x) (← n.asStr) (← a.mapM ofSexp) (← s.asBool))
  | .list (.atom "call" :: m :: n :: f :: a) => do
      pure (func (← Meta.ofSexp m) (← n.asStr) (← a.mapM ofSexp) (← f.asBool))
  | .list (.atom "builtin" :: m :: n :: a) => do
      pure (builtin (← Meta.ofSexp m) (← n.asStr) (← a.mapM ofSexp))
  | .list [.atom "closure", m, x] => do pure (closure (← Meta.ofSexp m) (← ofSexp x))
  | .list [.atom "ptr", m] => do pure (pointer (← Meta.ofSexp m))
  | .list [.atom "cond", m, c, a, b] => do
      pure (cond (← Meta.ofSexp m) (← ofSexp c) (← ofSexp a) (← ofSexp b))
  | .list (.atom "array" :: m :: xs) => do pure (array (← Meta.ofSexp m) (← xs.mapM ofSexp))
  | .list (.atom "map" :: m :: xs) => do pure (map (← Meta.ofSexp m) (← xs.mapM ofSexp))
  | .list [.atom "pair", m, k, v] => do pure (pair (← Meta.ofSexp m) (← ofSexp k) (← ofSexp v))
  | _ => none

end Node
end ExprModel
