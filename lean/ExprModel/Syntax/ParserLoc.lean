import ExprModel.Syntax.Parser
/-
Forgetting locations: of tokens and of syntax trees.  (C11 at the text level: white space moves every
token, so the tree is the same only up to locations.)
-/
namespace ExprModel

def Meta.noLoc (m : Meta) : Meta := { m with loc := {} }

namespace Node
mutual
/-- the tree with every location reset -/
def eraseLoc : Node → Node
  | nil m => nil m.noLoc
  | ident m n s => ident m.noLoc n s
  | int m v => int m.noLoc v
  | float m b => float m.noLoc b
  | bool m b => bool m.noLoc b
  | str m s => str m.noLoc s
  | const m v => const m.noLoc v
  | unary m o x => unary m.noLoc o (eraseLoc x)
  | binary m o l r => binary m.noLoc o (eraseLoc l) (eraseLoc r)
  | «matches» m h l r => «matches» m.noLoc h (eraseLoc l) (eraseLoc r)
  | prop m x n s => prop m.noLoc (eraseLoc x) n s
  | index m x i => index m.noLoc (eraseLoc x) (eraseLoc i)
  | slice m x f t => slice m.noLoc (eraseLoc x) (eraseLocO f) (eraseLocO t)
  | method m x n a s => method m.noLoc (eraseLoc x) n (eraseLocL a) s
  | func m n a f => func m.noLoc n (eraseLocL a) f
  | builtin m n a => builtin m.noLoc n (eraseLocL a)
  | closure m x => closure m.noLoc (eraseLoc x)
  | pointer m => pointer m.noLoc
  | cond m c a b => cond m.noLoc (eraseLoc c) (eraseLoc a) (eraseLoc b)
  | array m xs => array m.noLoc (eraseLocL xs)
  | map m ps => map m.noLoc (eraseLocL ps)
  | pair m k v => pair m.noLoc (eraseLoc k) (eraseLoc v)
def eraseLocO : Option Node → Option Node
  | none => none
  | some n => some (eraseLoc n)
def eraseLocL : List Node → List Node
  | [] => []
  | n :: ns => eraseLoc n :: eraseLocL ns
end
end Node

namespace Parser

def Token.noLoc (t : Token) : Token := { t with loc := {} }

/-- the token list with every location reset -/
def noLocs (ts : List Token) : List Token := ts.map Token.noLoc

end Parser
end ExprModel
