import ExprModel.Spec.Eval
/-
The reference evaluator instrumented with the *location of the offending occurrence* (property C13:
"errors are located at the offending occurrence").  `evalLoc` is `eval` clause by clause; the only
difference is that a failure carries the location of the node that RAISES it: the node whose own rule
fails while every sub-evaluation it needed has succeeded.  A failure of a sub-evaluation is passed on
unchanged — an enclosing node never re-labels it.  `Proofs/EvalLocErase.lean` proves that forgetting the
locations gives `eval` back (for every tree, context and state).

What raises where (first the readings the language definition and the property text give, then the
places where they are silent and the choice made here — in each of those the compiler's `Locations`
table is mirrored, i.e. the location of the instruction that performs the check):

* an operator applied to operands of the wrong dynamic type, a division by zero, `matches` with a bad
  pattern or a non-string, `in`/`..`/`**` with unusable operands: the operator node;
* an unknown name / missing member / index out of range / slice out of range: the identifier, member,
  index or slice node (not the container expression, which evaluated fine);
* a call that `reflect` refuses (arity, argument type) or a function that panics: the call / method node
  (the arguments evaluated fine; the definition does not single out an argument);
* the memory budget: the node that allocates (array / map literal, range, `filter`, `map`);
* `#` outside a closure: the pointer node;
* silent in the definition, compiler mirrored:
  - a non-boolean condition of `c ? a : b`, a non-boolean left operand of `and`/`or`: the conditional /
    the `and`/`or` node (it is that node which needs a boolean), not the operand;
  - loop builtins: a failure inside the predicate is raised by the node inside the predicate; a predicate
    that *returns* a non-boolean, a collection that has no length, the element read of `filter`, the
    budget of the result: the builtin node;
  - `a[from:to]`: the bounds are sub-evaluations (they keep their own locations); under `sliceToFirst`
    (the listed finding `c01:slice-bounds-evaluated-right-to-left`) `to` is evaluated first, so of two
    failing bounds it is `to` that is reported; the slicing itself and `len` of the operand (for an omitted
    `to`) are raised by the slice node;
  - the result directive of `expr.AsInt64()`/`AsFloat64()` (`runLoc` only): not a node — location `0:0`.
-/
namespace ExprModel
namespace Spec

/-- a failure and the location of the node that raised it -/
abbrev LErr := ErrClass × Loc

/-- `SM` with located failures -/
def SML (α : Type) := SState → (Except LErr α × SState)

namespace SML
@[inline] def pure' {α} (a : α) : SML α := fun s => (.ok a, s)
@[inline] def bind' {α β} (m : SML α) (f : α → SML β) : SML β := fun s =>
  match m s with
  | (.ok a, s') => f a s'
  | (.error e, s') => (.error e, s')
instance : Monad SML where
  pure := pure'
  bind := bind'
/-- a piece of the plain evaluator that belongs to the node at `l` itself: what fails in it is raised at `l` -/
def raisedAt {α} (l : Loc) (m : SM α) : SML α := fun s =>
  match m s with
  | (.ok a, s') => (.ok a, s')
  | (.error e, s') => (.error (e, l), s')
/-- forget the locations -/
def erase {α} (m : SML α) : SM α := fun s =>
  match m s with
  | (.ok a, s') => (.ok a, s')
  | (.error e, s') => (.error e.1, s')
end SML

/-- `loopIdx` over located failures -/
def loopIdxL {α} (body : Nat → α → SML (α ⊕ Val)) : Nat → Nat → α → SML (α ⊕ Val)
  | 0, _, acc => pure (.inl acc)
  | fuel + 1, i, acc => do
    match ← body i acc with
    | .inl acc' => loopIdxL body fuel (i + 1) acc'
    | .inr v => pure (.inr v)

open SML in
mutual
def evalLoc (c : SCfg) (ctx : Ctx) : Node → SML Val
  | .nil _ => pure .nil
  | .ident m name nilsafe => raisedAt m.loc (SM.lift (fetchV c.env (.str name) nilsafe))
  | .int m v => pure (intConst m.kd v)
  | .float _ bits => pure (.f64 (Float.ofBits bits))
  | .bool _ b => pure (.bool b)
  | .str _ s => pure (.str s)
  | .const _ v => pure v
  | .unary m op x => do
    let v ← evalLoc c ctx x
    raisedAt m.loc (
      if op == "!" || op == "not" then SM.lift (notV v)
      else if op == "-" then SM.lift (negV v)
      else if op == "+" then pure v
      else SM.fail .badop)
  | .binary m op l r => do
    if op == "and" || op == "&&" then
      let a ← evalLoc c ctx l
      if ← raisedAt m.loc (asBool a) then evalLoc c ctx r else pure (.bool false)
    else if op == "or" || op == "||" then
      let a ← evalLoc c ctx l
      if ← raisedAt m.loc (asBool a) then pure (.bool true) else evalLoc c ctx r
    else
      let a ← evalLoc c ctx l
      let b ← evalLoc c ctx r
      raisedAt m.loc (
        if op == "==" then
          if l.kd == r.kd && l.kd == .num .int then
            match a, b with
            | .int .int x, .int .int y => pure (.bool (x == y))
            | _, _ => SM.fail .type_
          else if l.kd == r.kd && l.kd == .string then
            match a, b with
            | .str x, .str y => pure (.bool (x == y))
            | _, _ => SM.fail .type_
          else pure (.bool (equalV a b))
        else if op == "!=" then pure (.bool (!equalV a b))
        else if op == "in" then do pure (.bool (← SM.lift (inV a b)))
        else if op == "not in" then do pure (.bool (!(← SM.lift (inV a b))))
        else if op == "**" then
          match toFloat64Val a, toFloat64Val b with
          | some x, some y => pure (.f64 (c.world.pow x y))
          | _, _ => SM.fail .type_
        else if op == ".." then do
          let lo ← SM.lift (toIntR a)
          let hi ← SM.lift (toIntR b)
          let size : Int := hi - lo + 1
          let counted : Int := if c.rangeSizeSigned then size else (if size < 0 then 0 else size)
          let elems := rangeElems lo hi
          SM.allocBefore c.budget counted elems.length
          pure (.arr (.num .int) elems)
        else if op == "contains" then SM.lift (strOp strContains a b)
        else if op == "startsWith" then SM.lift (strOp strHasPrefix a b)
        else if op == "endsWith" then SM.lift (strOp strHasSuffix a b)
        else match binArith op with
          | some h => SM.lift (binHelper h a b)
          | none => SM.fail .badop)
  | .matches m hasRe l r => do
    let a ← evalLoc c ctx l
    if hasRe then
      raisedAt m.loc (
        let pat := match r with
          | .str _ s => s
          | _ => ""
        match a with
        | .str subj => match c.world.regexMatch pat subj with
          | some m => pure (.bool m)
          | none => SM.fail .type_
        | _ => SM.fail .type_)
    else
      let b ← evalLoc c ctx r
      raisedAt m.loc (
        match a, b with
        | .str subj, .str pat => match c.world.regexMatch pat subj with
          | some m => pure (.bool m)
          | none => SM.fail .type_
        | _, _ => SM.fail .type_)
  | .prop m x name nilsafe => do
    let v ← evalLoc c ctx x
    raisedAt m.loc (SM.lift (fetchV v (.str name) nilsafe))
  | .index m x i => do
    let a ← evalLoc c ctx x
    let b ← evalLoc c ctx i
    raisedAt m.loc (SM.lift (fetchV a b false))
  | .slice m x f t => do
    let a ← evalLoc c ctx x
    if c.sliceToFirst then
      let tv ← match t with
        | some t => evalLoc c ctx t
        | none => raisedAt m.loc (do pure (.int .int (← SM.lift (lengthV a))))
      let fv ← match f with
        | some f => evalLoc c ctx f
        | none => pure (.int .int 0)
      raisedAt m.loc (SM.lift (sliceV a fv tv))
    else
      let fv ← match f with
        | some f => evalLoc c ctx f
        | none => pure (.int .int 0)
      let tv ← match t with
        | some t => evalLoc c ctx t
        | none => raisedAt m.loc (do pure (.int .int (← SM.lift (lengthV a))))
      raisedAt m.loc (SM.lift (sliceV a fv tv))
  | .method m x name args nilsafe => do
    let obj ← evalLoc c ctx x
    let vs ← evalListLoc c ctx args
    raisedAt m.loc (
      if nilsafe && obj.isNilLike then pure .nil
      else do
        let r := callMember c.world obj name vs
        if callHappened r then SM.logCall name vs
        SM.lift r)
  | .func m name args _ => do
    let vs ← evalListLoc c ctx args
    raisedAt m.loc (do
      let r := callMember c.world c.env name vs
      if callHappened r then SM.logCall name vs
      SM.lift r)
  | .builtin m name args =>
    match name, args with
    | "len", [a] => do
      let v ← evalLoc c ctx a
      raisedAt m.loc (do pure (.int .int (← SM.lift (lengthV v))))
    | name, [a, b] =>
      if builtinNames.contains name then do
        let coll ← evalLoc c ctx a
        let n ← raisedAt m.loc (SM.lift (lengthV coll))
        let body : Nat → SML Val := fun i => evalLoc c ((coll, (i : Int)) :: ctx) b
        if name == "all" then do
          let r ← loopIdxL (fun i (_ : Unit) => do
              let v ← body i
              raisedAt m.loc (do if ← asBool v then pure (.inl ()) else pure (.inr (.bool false)))) n.toNat 0 ()
          raisedAt m.loc (match r with
            | .inl _ => pure (.bool true)
            | .inr v => pure v)
        else if name == "none" then do
          let r ← loopIdxL (fun i (_ : Unit) => do
              let v ← body i
              raisedAt m.loc (do if ← asBool v then pure (.inr (.bool false)) else pure (.inl ()))) n.toNat 0 ()
          raisedAt m.loc (match r with
            | .inl _ => pure (.bool true)
            | .inr v => pure v)
        else if name == "any" then do
          let r ← loopIdxL (fun i (_ : Unit) => do
              let v ← body i
              raisedAt m.loc (do if ← asBool v then pure (.inr (.bool true)) else pure (.inl ()))) n.toNat 0 ()
          raisedAt m.loc (match r with
            | .inl _ => pure (.bool false)
            | .inr v => pure v)
        else if name == "one" || name == "count" then do
          let r ← loopIdxL (fun i (k : Int) => do
              let v ← body i
              raisedAt m.loc (do if ← asBool v then pure (.inl (k + 1)) else pure (.inl k))) n.toNat 0 (0 : Int)
          raisedAt m.loc (match r with
            | .inl k => if name == "one" then pure (.bool (k == 1)) else pure (.int .int k)
            | .inr v => pure v)
        else if name == "filter" then do
          let r ← loopIdxL (fun i (acc : List Val) => do
              let v ← body i
              raisedAt m.loc (do
                if ← asBool v then do
                  let el ← SM.lift (fetchV coll (.int .int i) false)
                  pure (.inl (el :: acc))
                else pure (.inl acc))) n.toNat 0 ([] : List Val)
          raisedAt m.loc (match r with
            | .inl acc => do
              SM.allocAfter c.budget acc.length acc.length
              pure (.arr .iface acc.reverse)
            | .inr v => pure v)
        else do -- map
          let r ← loopIdxL (fun i (acc : List Val) => do
              let v ← body i
              pure (.inl (v :: acc))) n.toNat 0 ([] : List Val)
          raisedAt m.loc (match r with
            | .inl acc => do
              SM.allocAfter c.budget n acc.length
              pure (.arr .iface acc.reverse)
            | .inr v => pure v)
      else raisedAt m.loc (SM.fail .badop)
    | _, _ => raisedAt m.loc (SM.fail .badop)
  | .closure _ x => evalLoc c ctx x
  | .pointer m =>
    raisedAt m.loc (match ctx with
      | (coll, i) :: _ => SM.lift (fetchV coll (.int .int i) false)
      | [] => SM.fail .type_)
  | .cond m cnd a b => do
    let v ← evalLoc c ctx cnd
    if ← raisedAt m.loc (asBool v) then evalLoc c ctx a else evalLoc c ctx b
  | .array m xs => do
    let vs ← evalListLoc c ctx xs
    raisedAt m.loc (do
      SM.allocAfter c.budget vs.length vs.length
      pure (.arr .iface vs))
  | .map m ps => do
    let flat ← evalListLoc c ctx ps
    raisedAt m.loc (do
      let mp ← SM.lift (buildMap flat)
      SM.allocAfter c.budget ps.length ps.length
      pure (.map mp))
  | .pair m _ _ => raisedAt m.loc (SM.fail .badop)
def evalListLoc (c : SCfg) (ctx : Ctx) : List Node → SML (List Val)
  | [] => pure []
  | .pair _ k v :: rest => do
    let kv ← evalLoc c ctx k
    let vv ← evalLoc c ctx v
    let vs ← evalListLoc c ctx rest
    pure (kv :: vv :: vs)
  | n :: rest => do
    let v ← evalLoc c ctx n
    let vs ← evalListLoc c ctx rest
    pure (v :: vs)
end

/-- `Spec.run` with the location of the failure; a failing result directive is not a node (`0:0`) -/
def runLoc (c : SCfg) (cast : Option Nat) (n : Node) : Except LErr Val × SState :=
  match evalLoc c [] n {} with
  | (.ok v, s) =>
    match cast with
    | some t =>
      match castV t v with
      | .ok v' => (.ok v', s)
      | .error e => (.error (e, {}), s)
    | none => (.ok v, s)
  | r => r

end Spec
end ExprModel
