import ExprModel.Syntax.Ast
import ExprModel.VM.Step
/-
The reference evaluator (Spec): what docs/Language-Definition.md assigns to an expression, as a
big-step function on the (annotated) syntax tree — value or failure class, the log of environment
calls in evaluation order, and the running total of allocated collection elements under the budget.
Written from the language definition and the property text (DESIGN Appendix A); where the documentation
is silent it follows the code as probed and says so.  It does not mention bytecode.
-/
namespace ExprModel
namespace Spec

structure SState where
  memory : Int := 0                       -- elements counted against the budget
  created : Nat := 0                      -- elements actually built
  log : List (String × List Val) := []    -- newest first
  deriving Inhabited

/-- state-passing evaluation; the state survives a failure (the call log of a failing run is observable) -/
def SM (α : Type) := SState → (R α × SState)

namespace SM
@[inline] def pure' {α} (a : α) : SM α := fun s => (.ok a, s)
@[inline] def bind' {α β} (m : SM α) (f : α → SM β) : SM β := fun s =>
  match m s with
  | (.ok a, s') => f a s'
  | (.error e, s') => (.error e, s')
instance : Monad SM where
  pure := pure'
  bind := bind'
def fail {α} (e : ErrClass) : SM α := fun s => (.error e, s)
def lift {α} : R α → SM α
  | .ok a => pure' a
  | .error e => fail e
def logCall (name : String) (args : List Val) : SM Unit := fun s => (.ok (), { s with log := (name, args) :: s.log })
/-- account `counted` elements against the budget *after* building `built` of them (array/map literal, builtin result) -/
def allocAfter (limit : Int) (counted : Int) (built : Nat) : SM Unit := fun s =>
  let s' := { s with memory := s.memory + counted, created := s.created + built }
  if s'.memory ≥ limit then (.error .budget, s') else (.ok (), s')
/-- refuse *before* building when the total would reach the budget (ranges) -/
def allocBefore (limit : Int) (counted : Int) (built : Nat) : SM Unit := fun s =>
  if s.memory + counted ≥ limit then (.error .budget, s)
  else (.ok (), { s with memory := s.memory + counted, created := s.created + built })
end SM

structure SCfg where
  world : World
  env : Val
  budget : Int
  /-- deviations of the unchanged code that the Spec can be asked to mirror (for refinement proofs);
      `Defects.none`-like values give the semantics the properties require -/
  rangeSizeSigned : Bool := false
  sliceToFirst : Bool := false

/-- closure context: (collection, index) of the enclosing builtins, innermost first -/
abbrev Ctx := List (Val × Int)

/-- one loop over the indices `i, i+1, …`; the body either continues with a new accumulator or decides the result -/
def loopIdx {α} (body : Nat → α → SM (α ⊕ Val)) : Nat → Nat → α → SM (α ⊕ Val)
  | 0, _, acc => pure (.inl acc)
  | fuel + 1, i, acc => do
    match ← body i acc with
    | .inl acc' => loopIdx body fuel (i + 1) acc'
    | .inr v => pure (.inr v)

def asBool : Val → SM Bool
  | .bool b => pure b
  | _ => SM.fail .type_

def binArith : String → Option Helper
  | "<" => some .less | ">" => some .more | "<=" => some .lessOrEqual | ">=" => some .moreOrEqual
  | "+" => some .add | "-" => some .subtract | "*" => some .multiply | "/" => some .divide
  | "%" => some .modulo
  | _ => none

def builtinNames : List String := ["all", "none", "any", "one", "filter", "map", "count"]

mutual
def eval (c : SCfg) (ctx : Ctx) : Node → SM Val
  | .nil _ => pure .nil
  | .ident _ name nilsafe => SM.lift (fetchV c.env (.str name) nilsafe)
  | .int m v => pure (intConst m.kd v)
  | .float _ bits => pure (.f64 (Float.ofBits bits))
  | .bool _ b => pure (.bool b)
  | .str _ s => pure (.str s)
  | .const _ v => pure v
  | .unary _ op x => do
    let v ← eval c ctx x
    if op == "!" || op == "not" then SM.lift (notV v)
    else if op == "-" then SM.lift (negV v)
    else if op == "+" then pure v
    else SM.fail .badop
  | .binary _ op l r => do
    if op == "and" || op == "&&" then
      let a ← eval c ctx l
      if ← asBool a then eval c ctx r else pure (.bool false)
    else if op == "or" || op == "||" then
      let a ← eval c ctx l
      if ← asBool a then pure (.bool true) else eval c ctx r
    else
      let a ← eval c ctx l
      let b ← eval c ctx r
      if op == "==" then
        -- the compiler specialises `==` when both operands are statically `int` / `string`
        if l.kd == r.kd && l.kd == .num .int then
          match a, b with
          | .int .int x, .int .int y => pure (.bool (x == y))
          | _, _ => SM.fail .type_
        else if l.kd == r.kd && l.kd == .string then
          match a, b with
          | .str x, .str y => pure (.bool (x == y))
          | _, _ => SM.fail .type_
        else pure (.bool (equalV a b))
      else if op == "!=" then pure (.bool (!equalV a b))
      else if op == "in" then do pure (.bool (← SM.lift (inV a b)))
      else if op == "not in" then do pure (.bool (!(← SM.lift (inV a b))))
      else if op == "**" then
        match toFloat64Val a, toFloat64Val b with
        | some x, some y => pure (.f64 (c.world.pow x y))
        | _, _ => SM.fail .type_
      else if op == ".." then do
        let lo ← SM.lift (toIntR a)
        let hi ← SM.lift (toIntR b)
        let size : Int := hi - lo + 1
        let counted : Int := if c.rangeSizeSigned then size else (if size < 0 then 0 else size)
        let elems := rangeElems lo hi
        SM.allocBefore c.budget counted elems.length
        pure (.arr (.num .int) elems)
      else if op == "contains" then SM.lift (strOp strContains a b)
      else if op == "startsWith" then SM.lift (strOp strHasPrefix a b)
      else if op == "endsWith" then SM.lift (strOp strHasSuffix a b)
      else match binArith op with
        | some h => SM.lift (binHelper h a b)
        | none => SM.fail .badop
  | .matches _ hasRe l r => do
    let a ← eval c ctx l
    if hasRe then
      let pat := match r with
        | .str _ s => s
        | _ => ""
      match a with
      | .str subj => match c.world.regexMatch pat subj with
        | some m => pure (.bool m)
        | none => SM.fail .type_
      | _ => SM.fail .type_
    else
      let b ← eval c ctx r
      match a, b with
      | .str subj, .str pat => match c.world.regexMatch pat subj with
        | some m => pure (.bool m)
        | none => SM.fail .type_
      | _, _ => SM.fail .type_
  | .prop _ x name nilsafe => do
    let v ← eval c ctx x
    SM.lift (fetchV v (.str name) nilsafe)
  | .index _ x i => do
    let a ← eval c ctx x
    let b ← eval c ctx i
    SM.lift (fetchV a b false)
  | .slice _ x f t => do
    let a ← eval c ctx x
    if c.sliceToFirst then
      let tv ← match t with
        | some t => eval c ctx t
        | none => do pure (.int .int (← SM.lift (lengthV a)))
      let fv ← match f with
        | some f => eval c ctx f
        | none => pure (.int .int 0)
      SM.lift (sliceV a fv tv)
    else
      let fv ← match f with
        | some f => eval c ctx f
        | none => pure (.int .int 0)
      let tv ← match t with
        | some t => eval c ctx t
        | none => do pure (.int .int (← SM.lift (lengthV a)))
      SM.lift (sliceV a fv tv)
  | .method _ x name args nilsafe => do
    let obj ← eval c ctx x
    let vs ← evalList c ctx args
    if nilsafe && obj.isNilLike then pure .nil
    else
      let r := callMember c.world obj name vs
      if callHappened r then SM.logCall name vs
      SM.lift r
  | .func _ name args _ => do
    let vs ← evalList c ctx args
    let r := callMember c.world c.env name vs
    if callHappened r then SM.logCall name vs
    SM.lift r
  | .builtin _ name args =>
    match name, args with
    | "len", [a] => do
      let v ← eval c ctx a
      pure (.int .int (← SM.lift (lengthV v)))
    | name, [a, b] =>
      if builtinNames.contains name then do
        let coll ← eval c ctx a
        let n ← SM.lift (lengthV coll)
        let body : Nat → SM Val := fun i => eval c ((coll, (i : Int)) :: ctx) b
        if name == "all" then do
          match ← loopIdx (fun i (_ : Unit) => do
              if ← asBool (← body i) then pure (.inl ()) else pure (.inr (.bool false))) n.toNat 0 () with
          | .inl _ => pure (.bool true)
          | .inr v => pure v
        else if name == "none" then do
          match ← loopIdx (fun i (_ : Unit) => do
              if ← asBool (← body i) then pure (.inr (.bool false)) else pure (.inl ())) n.toNat 0 () with
          | .inl _ => pure (.bool true)
          | .inr v => pure v
        else if name == "any" then do
          match ← loopIdx (fun i (_ : Unit) => do
              if ← asBool (← body i) then pure (.inr (.bool true)) else pure (.inl ())) n.toNat 0 () with
          | .inl _ => pure (.bool false)
          | .inr v => pure v
        else if name == "one" || name == "count" then do
          match ← loopIdx (fun i (k : Int) => do
              if ← asBool (← body i) then pure (.inl (k + 1)) else pure (.inl k)) n.toNat 0 (0 : Int) with
          | .inl k => if name == "one" then pure (.bool (k == 1)) else pure (.int .int k)
          | .inr v => pure v
        else if name == "filter" then do
          match ← loopIdx (fun i (acc : List Val) => do
              if ← asBool (← body i) then do
                let el ← SM.lift (fetchV coll (.int .int i) false)
                pure (.inl (el :: acc))
              else pure (.inl acc)) n.toNat 0 ([] : List Val) with
          | .inl acc =>
            SM.allocAfter c.budget acc.length acc.length
            pure (.arr .iface acc.reverse)
          | .inr v => pure v
        else do -- map
          match ← loopIdx (fun i (acc : List Val) => do
              let r ← body i
              pure (.inl (r :: acc))) n.toNat 0 ([] : List Val) with
          | .inl acc =>
            SM.allocAfter c.budget n acc.length
            pure (.arr .iface acc.reverse)
          | .inr v => pure v
      else SM.fail .badop
    | _, _ => SM.fail .badop
  | .closure _ x => eval c ctx x
  | .pointer _ =>
    match ctx with
    | (coll, i) :: _ => SM.lift (fetchV coll (.int .int i) false)
    | [] => SM.fail .type_
  | .cond _ cnd a b => do
    let v ← eval c ctx cnd
    if ← asBool v then eval c ctx a else eval c ctx b
  | .array _ xs => do
    let vs ← evalList c ctx xs
    SM.allocAfter c.budget vs.length vs.length
    pure (.arr .iface vs)
  | .map _ ps => do
    let flat ← evalList c ctx ps
    let m ← SM.lift (buildMap flat)
    SM.allocAfter c.budget ps.length ps.length
    pure (.map m)
  | .pair _ _ _ => SM.fail .badop      -- pairs only occur inside map literals (see `evalList`)
def evalList (c : SCfg) (ctx : Ctx) : List Node → SM (List Val)
  | [] => pure []
  | .pair _ k v :: rest => do
    let kv ← eval c ctx k
    let vv ← eval c ctx v
    let vs ← evalList c ctx rest
    pure (kv :: vv :: vs)
  | n :: rest => do
    let v ← eval c ctx n
    let vs ← evalList c ctx rest
    pure (v :: vs)
end

/-- `expr.Run(expr.Compile(…))` at the language level: evaluate, then apply the result directive -/
def run (c : SCfg) (cast : Option Nat) (n : Node) : R Val × SState :=
  match eval c [] n {} with
  | (.ok v, s) =>
    match cast with
    | some t => (castV t v, s)
    | none => (.ok v, s)
  | r => r

end Spec
end ExprModel
