import ExprModel.Base.Sexp
import ExprModel.Num.Kind
import ExprModel.Syntax.Ast
/-
A closed model of Go types as `reflect.Type` presents them to the library (DESIGN 3.1), sufficient for
the name-resolution property (C16) and the static typing property (C03).

* `Ty.named name methods under` is a defined type (`type Name under`) with the methods *declared on it*
  (promoted methods are computed by the Spec of Go's selector rule in `Types/Table.lean`).
* `Ty.struct fields`, `Field = (name, type, anonymous (embedded), exported)`.
* `Ty.iface methods`: interface type; `iface []` is `interface{}`.
* `Ty.ref name`: back-reference to an enclosing defined type (recursive types are cut there by the
  harness serialiser); opaque to every model function.
* `Ty.other desc`: kinds the library never looks into (chan, complex, uintptr, unsafe.Pointer).

`List Field` / `List Method` / `List Ty` are nested occurrences; model functions that must recurse
through member types take a fuel argument bounded by `Ty.depth` (so proofs are ordinary inductions on
`Nat` and on lists).  Only `depth`, equality and the S-expression encoding recurse structurally.
-/
namespace ExprModel

mutual
inductive Ty where
  | bool
  | string
  | num (k : Kind)
  | iface (methods : List Method)
  | ptr (t : Ty)
  | slice (t : Ty)
  | array (n : Nat) (t : Ty)
  | map (k v : Ty)
  | func (ins : List Ty) (variadic : Bool) (outs : List Ty)
  | struct (fields : List Field)
  | named (name : String) (methods : List Method) (under : Ty)
  | ref (name : String)
  | other (desc : String)
inductive Field where
  | mk (name : String) (ty : Ty) (anon : Bool) (exported : Bool)
inductive Method where
  | mk (name : String) (sig : Ty) (ptrRecv : Bool)
end

instance : Inhabited Ty := ⟨.bool⟩
instance : Inhabited Field := ⟨.mk "" .bool false false⟩
instance : Inhabited Method := ⟨.mk "" .bool false⟩

namespace Field
def name : Field → String | mk n _ _ _ => n
def ty : Field → Ty | mk _ t _ _ => t
def anon : Field → Bool | mk _ _ a _ => a
def exported : Field → Bool | mk _ _ _ e => e
end Field

namespace Method
def name : Method → String | mk n _ _ => n
def sig : Method → Ty | mk _ s _ => s
def ptrRecv : Method → Bool | mk _ _ p => p
end Method

/-! ### decidable equality (the deriving handler does not support nested inductives) -/

mutual
def Ty.beq : Ty → Ty → Bool
  | .bool, .bool => true
  | .string, .string => true
  | .num a, .num b => a == b
  | .iface a, .iface b => Method.beqList a b
  | .ptr a, .ptr b => Ty.beq a b
  | .slice a, .slice b => Ty.beq a b
  | .array n a, .array m b => n == m && Ty.beq a b
  | .map k v, .map k' v' => Ty.beq k k' && Ty.beq v v'
  | .func i v o, .func i' v' o' => Ty.beqList i i' && v == v' && Ty.beqList o o'
  | .struct a, .struct b => Field.beqList a b
  | .named n ms u, .named n' ms' u' => n == n' && Method.beqList ms ms' && Ty.beq u u'
  | .ref a, .ref b => a == b
  | .other a, .other b => a == b
  | _, _ => false
def Ty.beqList : List Ty → List Ty → Bool
  | [], [] => true
  | a :: as, b :: bs => Ty.beq a b && Ty.beqList as bs
  | _, _ => false
def Field.beq : Field → Field → Bool
  | .mk n t a e, .mk n' t' a' e' => n == n' && Ty.beq t t' && a == a' && e == e'
def Field.beqList : List Field → List Field → Bool
  | [], [] => true
  | a :: as, b :: bs => Field.beq a b && Field.beqList as bs
  | _, _ => false
def Method.beq : Method → Method → Bool
  | .mk n s p, .mk n' s' p' => n == n' && Ty.beq s s' && p == p'
def Method.beqList : List Method → List Method → Bool
  | [], [] => true
  | a :: as, b :: bs => Method.beq a b && Method.beqList as bs
  | _, _ => false
end

mutual
theorem Ty.beq_iff : ∀ a b : Ty, Ty.beq a b = true ↔ a = b
  | .bool, b => by cases b <;> simp [Ty.beq]
  | .string, b => by cases b <;> simp [Ty.beq]
  | .num _, b => by cases b <;> simp [Ty.beq]
  | .iface a, b => by cases b <;> simp [Ty.beq, Method.beqList_iff a]
  | .ptr a, b => by cases b <;> simp [Ty.beq, Ty.beq_iff a]
  | .slice a, b => by cases b <;> simp [Ty.beq, Ty.beq_iff a]
  | .array _ a, b => by cases b <;> simp [Ty.beq, Ty.beq_iff a]
  | .map k v, b => by cases b <;> simp [Ty.beq, Ty.beq_iff k, Ty.beq_iff v]
  | .func i _ o, b => by cases b <;> simp [Ty.beq, Ty.beqList_iff i, Ty.beqList_iff o, and_assoc]
  | .struct a, b => by cases b <;> simp [Ty.beq, Field.beqList_iff a]
  | .named _ ms u, b => by cases b <;> simp [Ty.beq, Method.beqList_iff ms, Ty.beq_iff u, and_assoc]
  | .ref _, b => by cases b <;> simp [Ty.beq]
  | .other _, b => by cases b <;> simp [Ty.beq]
theorem Ty.beqList_iff : ∀ a b : List Ty, Ty.beqList a b = true ↔ a = b
  | [], b => by cases b <;> simp [Ty.beqList]
  | x :: xs, b => by cases b <;> simp [Ty.beqList, Ty.beq_iff x, Ty.beqList_iff xs]
theorem Field.beq_iff : ∀ a b : Field, Field.beq a b = true ↔ a = b
  | .mk _ t _ _, b => by cases b; simp [Field.beq, Ty.beq_iff t, and_assoc]
theorem Field.beqList_iff : ∀ a b : List Field, Field.beqList a b = true ↔ a = b
  | [], b => by cases b <;> simp [Field.beqList]
  | x :: xs, b => by cases b <;> simp [Field.beqList, Field.beq_iff x, Field.beqList_iff xs]
theorem Method.beq_iff : ∀ a b : Method, Method.beq a b = true ↔ a = b
  | .mk _ s _, b => by cases b; simp [Method.beq, Ty.beq_iff s, and_assoc]
theorem Method.beqList_iff : ∀ a b : List Method, Method.beqList a b = true ↔ a = b
  | [], b => by cases b <;> simp [Method.beqList]
  | x :: xs, b => by cases b <;> simp [Method.beqList, Method.beq_iff x, Method.beqList_iff xs]
end

instance : DecidableEq Ty := fun a b =>
  if h : Ty.beq a b = true then isTrue ((Ty.beq_iff a b).1 h)
  else isFalse (fun e => h ((Ty.beq_iff a b).2 e))
instance : DecidableEq Field := fun a b =>
  if h : Field.beq a b = true then isTrue ((Field.beq_iff a b).1 h)
  else isFalse (fun e => h ((Field.beq_iff a b).2 e))
instance : DecidableEq Method := fun a b =>
  if h : Method.beq a b = true then isTrue ((Method.beq_iff a b).1 h)
  else isFalse (fun e => h ((Method.beq_iff a b).2 e))

/-! ### size measure used as fuel -/

mutual
def Ty.depth : Ty → Nat
  | .iface ms => 1 + Method.depthList ms
  | .ptr t | .slice t | .array _ t => 1 + Ty.depth t
  | .map k v => 1 + max (Ty.depth k) (Ty.depth v)
  | .func i _ o => 1 + max (Ty.depthList i) (Ty.depthList o)
  | .struct fs => 1 + Field.depthList fs
  | .named _ ms u => 1 + max (Method.depthList ms) (Ty.depth u)
  | _ => 1
def Ty.depthList : List Ty → Nat
  | [] => 0
  | t :: ts => max (Ty.depth t) (Ty.depthList ts)
def Field.depthList : List Field → Nat
  | [] => 0
  | .mk _ t _ _ :: fs => max (Ty.depth t) (Field.depthList fs)
def Method.depthList : List Method → Nat
  | [] => 0
  | .mk _ s _ :: ms => max (Ty.depth s) (Method.depthList ms)
end

theorem Field.depth_lt_of_mem {f : Field} {fs : List Field} (h : f ∈ fs) :
    f.ty.depth ≤ Field.depthList fs := by
  induction fs with
  | nil => cases h
  | cons g gs ih =>
    cases g with
    | mk n t a e =>
      rcases List.mem_cons.1 h with rfl | h
      · simp [Field.depthList, Field.ty]; omega
      · have := ih h; simp [Field.depthList]; omega

namespace Ty

/-! ### views used by the library's kind tests -/

/-- the type with defined-type wrappers removed (what `Kind()`, `Elem()`, `Field(i)` look at) -/
def core : Ty → Ty
  | .named _ _ u => core u
  | t => t

/-- `reflect.Kind` as far as the library distinguishes kinds -/
def kind (t : Ty) : RKind :=
  match t.core with
  | .bool => .bool | .string => .string | .num k => .num k | .iface _ => .iface
  | .ptr _ => .ptr | .slice _ => .slice | .array _ _ => .array | .map _ _ => .map
  | .func _ _ _ => .func | .struct _ => .struct
  | .named _ _ _ => .other | .ref _ => .other | .other _ => .other

def isPtr (t : Ty) : Bool := match t.core with | .ptr _ => true | _ => false

/-- `Elem()` of pointer, slice, array, map -/
def elem? (t : Ty) : Option Ty :=
  match t.core with
  | .ptr u | .slice u | .array _ u | .map _ u => some u
  | _ => none

/-- `dereference` of conf/types_table.go, checker/types.go, docgen.go: strip every pointer level;
a non-pointer defined type is returned with its name and methods. -/
def deref : Ty → Ty
  | .ptr u => deref u
  | .named n ms u => if (Ty.named n ms u).isPtr then deref u else .named n ms u
  | t => t

/-- the direct fields when the type's kind is struct -/
def fields (t : Ty) : List Field := match t.core with | .struct fs => fs | _ => []

/-- methods declared on the type itself (for interface types: the interface's methods) -/
def declMethods : Ty → List Method
  | .named _ ms u => ms ++ (match u.core with | .iface ims => ims | _ => [])
  | .iface ims => ims
  | _ => []

def isEmptyIface (t : Ty) : Bool := match t.core with | .iface [] => true | _ => false

end Ty

/-! ### S-expression encoding (driver only) -/

mutual
def Ty.toSexp : Ty → Sexp
  | .bool => .atom "bool"
  | .string => .atom "string"
  | .num k => .atom k.name
  | .iface [] => .atom "any"
  | .iface ms => .list (.atom "iface" :: Method.listToSexp ms)
  | .ptr t => .list [.atom "ptr", Ty.toSexp t]
  | .slice t => .list [.atom "slice", Ty.toSexp t]
  | .array n t => .list [.atom "array", Sexp.nat n, Ty.toSexp t]
  | .map k v => .list [.atom "map", Ty.toSexp k, Ty.toSexp v]
  | .func i v o => .list [.atom "func", Sexp.bool v, .list (Ty.listToSexp i), .list (Ty.listToSexp o)]
  | .struct fs => .list (.atom "struct" :: Field.listToSexp fs)
  | .named n ms u => .list [.atom "named", Sexp.str n, .list (Method.listToSexp ms), Ty.toSexp u]
  | .ref n => .list [.atom "ref", Sexp.str n]
  | .other d => .list [.atom "other", Sexp.str d]
def Ty.listToSexp : List Ty → List Sexp
  | [] => []
  | t :: ts => Ty.toSexp t :: Ty.listToSexp ts
def Field.listToSexp : List Field → List Sexp
  | [] => []
  | .mk n t a e :: fs => .list [Sexp.str n, Ty.toSexp t, Sexp.bool a, Sexp.bool e] :: Field.listToSexp fs
def Method.listToSexp : List Method → List Sexp
  | [] => []
  | .mk n s p :: ms => .list [Sexp.str n, Ty.toSexp s, Sexp.bool p] :: Method.listToSexp ms
end

mutual
partial def Ty.ofSexp : Sexp → Option Ty
  | .atom "bool" => some .bool
  | .atom "string" => some .string
  | .atom "any" => some (.iface [])
  | .atom a => (Kind.ofName? a).map .num
  | .list (.atom "iface" :: ms) => do pure (.iface (← ms.mapM Method.ofSexp))
  | .list [.atom "ptr", t] => do pure (.ptr (← Ty.ofSexp t))
  | .list [.atom "slice", t] => do pure (.slice (← Ty.ofSexp t))
  | .list [.atom "array", n, t] => do pure (.array (← n.asNat) (← Ty.ofSexp t))
  | .list [.atom "map", k, v] => do pure (.map (← Ty.ofSexp k) (← Ty.ofSexp v))
  | .list [.atom "func", v, .list i, .list o] => do
      pure (.func (← i.mapM Ty.ofSexp) (← v.asBool) (← o.mapM Ty.ofSexp))
  | .list (.atom "struct" :: fs) => do pure (.struct (← fs.mapM Field.ofSexp))
  | .list [.atom "named", n, .list ms, u] => do
      pure (.named (← n.asStr) (← ms.mapM Method.ofSexp) (← Ty.ofSexp u))
  | .list [.atom "ref", n] => do pure (.ref (← n.asStr))
  | .list [.atom "other", d] => do pure (.other (← d.asStr))
  | _ => none
partial def Field.ofSexp : Sexp → Option Field
  | .list [n, t, a, e] => do pure (.mk (← n.asStr) (← Ty.ofSexp t) (← a.asBool) (← e.asBool))
  | _ => none
partial def Method.ofSexp : Sexp → Option Method
  | .list [n, s, p] => do pure (.mk (← n.asStr) (← Ty.ofSexp s) (← p.asBool))
  | _ => none
end

/-- optional type: `reflect.Type` may be nil (the type of `nil`, of an ambiguous tag) -/
def Ty.optToSexp : Option Ty → Sexp
  | none => .atom "_"
  | some t => t.toSexp

def Ty.optOfSexp : Sexp → Option (Option Ty)
  | .atom "_" => some none
  | s => (Ty.ofSexp s).map some

end ExprModel
