import ExprModel.Types.Table
import ExprModel.Gen.NameFetch
/-
Switches of the name-resolution model (`NDefects`) as *derived from the source*: Gen/NameFetch.lean is
regenerated from vm/runtime.go (fetch, FetchFn, derefFn) and checker/checker.go (IdentifierNode) on every
run.  The driver's model variant `asis` is `srcNDefects`, so the correspondence follows the code before
and after a `fix:` commit; Props/C16 (`src_flags_agree`) proves that the derived flags are the ones the
theorems about `NDefects.asIs` speak of.  The five other flags are not derived (they concern
conf/types_table.go and checker/types.go) and are taken from `NDefects.asIs`.
-/
namespace ExprModel
open Gen.NameFetch

/-- does a function-valued member reach `reflect.Call` through `derefFn`, in both branches of `FetchFn`? -/
def fetchFnDerefs : Bool := fetchFnMapReturn == "derefFn(value)" && fetchFnStructReturn == "derefFn(value)"

def ptrFuncNotFetchedInSource : Bool := !(fetchFnDerefs && derefFnFollowsPtr)
def ptrIfaceFuncNotFetchedInSource : Bool := !(fetchFnDerefs && derefFnFollowsPtr && derefFnFollowsIface)
/-- an interface-kinded value is unwrapped: explicitly, or by a `derefFn` that follows interfaces -/
def fetchFnNoUnwrapInSource : Bool :=
  !((fetchFnMapUnwrapsIface && fetchFnStructUnwrapsIface) || (fetchFnDerefs && derefFnFollowsIface))
def fetchDerefOnceInSource : Bool := !fetchDerefLoop
def methodAsValueInSource : Bool := !identRejectsMethod

def srcNDefects : NDefects :=
  { NDefects.asIs with
    ptrFuncNotFetched := ptrFuncNotFetchedInSource
    ptrIfaceFuncNotFetched := ptrIfaceFuncNotFetchedInSource
    fetchFnNoUnwrap := fetchFnNoUnwrapInSource
    fetchDerefOnce := fetchDerefOnceInSource
    methodAsValue := methodAsValueInSource }

end ExprModel
