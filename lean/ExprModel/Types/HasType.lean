import ExprModel.Types.Checker
/-
The reference typing rules (DESIGN appendix C) in compositional form: `synth cfg colls n` is the type of
`n` in the environment described by `cfg` (types table, strictness) inside closures over collections of
types `colls`, or `none` when `n` violates a rule *anywhere*.  No state, no traversal order, no "first
error": every sub-expression must be well typed, and the local rules of `Types/Checker.lean` are applied
to the types of the children.

`HasType` is `synth` with the documented rule set (`TDefects.repaired`: an integer literal is retyped only
to a numeric parameter type, an index must fit the container, `filter`/`map` yield `[]interface{}`).
-/
namespace ExprModel

def Except.toOption' {ε α : Type} : Except ε α → Option α
  | .ok a => some a
  | .error _ => none

mutual

def synth (cfg : CheckCfg) : List OTy → Node → Option OTy
  | _, .nil _ => some none
  | _, .ident _ name nilsafe => Except.toOption' (identRule cfg name nilsafe)
  | _, .int _ _ => some intTy
  | _, .float _ _ => some floatTy
  | _, .bool _ _ => some boolTy
  | _, .str _ _ => some stringTy
  | _, .const _ v => if cfg.dt.constNodePanic then none else some (typeOfVal v)
  | cs, .unary _ op x =>
    match synth cfg cs x with
    | some t => Except.toOption' (unaryRule op t)
    | none => none
  | cs, .binary _ op l r =>
    match synth cfg cs l, synth cfg cs r with
    | some lt, some rt => Except.toOption' (binaryRule cfg.dt op lt rt)
    | _, _ => none
  | cs, .matches _ _ l r =>
    match synth cfg cs l, synth cfg cs r with
    | some lt, some rt => Except.toOption' (matchesRule lt rt)
    | _, _ => none
  | cs, .prop _ x name nilsafe =>
    match synth cfg cs x with
    | some t => Except.toOption' (propRule cfg.dn t name nilsafe)
    | none => none
  | cs, .index _ x i =>
    match synth cfg cs x, synth cfg cs i with
    | some t, some it => Except.toOption' (indexRule cfg.dt t it)
    | _, _ => none
  | cs, .slice _ x from_ to =>
    match synth cfg cs x with
    | some t =>
      if sliceable cfg.dt t && synthBound cfg cs from_ && synthBound cfg cs to then some (sliceResult cfg.dt t) else none
    | none => none
  | cs, .method _ x name args nilsafe =>
    match synth cfg cs x with
    | some t =>
      match methodTarget cfg.dn t name with
      | some (fn, isMethod) =>
        match funcPlan fn isMethod args.length with
        | .inl rule => Except.toOption' rule
        | .inr (ins, variadic, numIn, offset, out) =>
          if synthArgs cfg cs ins variadic numIn offset 0 args then some (some out) else none
      | none => if !nilsafe then none else some none
    | none => none
  | cs, .func _ name args _ =>
    match funcTargetC cfg name with
    | some (fn, isMethod) =>
      match funcPlan fn isMethod args.length with
      | .inl rule => Except.toOption' rule
      | .inr (ins, variadic, numIn, offset, out) =>
        if synthArgs cfg cs ins variadic numIn offset 0 args then some (some out) else none
    | none => if !cfg.strict then some (defaultOr cfg) else none
  | cs, .builtin _ name args =>
    match args with
    | [a] =>
      if name == "len" then
        match synth cfg cs a with
        | some pt => Except.toOption' (lenRule pt)
        | none => none
      else none
    | [a, c] =>
      if isCollBuiltin name then
        match synth cfg cs a with
        | some coll =>
          if !isArrayT coll then none
          else
            match synth cfg (coll :: cs) c with
            | some closure => Except.toOption' (collBuiltinRule cfg.dt name coll closure)
            | none => none
        | none => none
      else none
    | _ => none
  | cs, .closure _ x =>
    match synth cfg cs x with
    | some (some bt) => some (closureType bt)
    | some none => if cfg.dt.closureNilPanic then none else some (closureType interfaceType)
    | none => none
  | cs, .pointer _ => Except.toOption' (pointerRule cs)
  | cs, .cond _ c a b =>
    match synth cfg cs c with
    | some ct =>
      if !isBoolT ct then none
      else
        match synth cfg cs a, synth cfg cs b with
        | some t1, some t2 => some (condType cfg.dt t1 t2)
        | _, _ => none
    | none => none
  | cs, .array _ xs => if synthList cfg cs xs then some arrayTy else none
  | cs, .map _ ps => if synthList cfg cs ps then some mapTy else none
  | cs, .pair _ k v =>
    match synth cfg cs k, synth cfg cs v with
    | some kt, some _ => if (Except.toOption' (pairKeyRule cfg.dt kt)).isSome then some none else none
    | _, _ => none

/-- a slice bound, when present, is a well-typed integer expression -/
def synthBound (cfg : CheckCfg) : List OTy → Option Node → Bool
  | _, none => true
  | cs, some n =>
    match synth cfg cs n with
    | some t => isIntegerT t
    | none => false

def synthList (cfg : CheckCfg) : List OTy → List Node → Bool
  | _, [] => true
  | cs, n :: ns => (synth cfg cs n).isSome && synthList cfg cs ns

/-- every argument is well typed and fits its parameter -/
def synthArgs (cfg : CheckCfg) (cs : List OTy) (ins : List Ty) (variadic : Bool) (numIn offset : Nat) :
    Nat → List Node → Bool
  | _, [] => true
  | i, a :: rest =>
    match synth cfg cs a with
    | some t0 =>
      let inT := paramFor ins variadic numIn offset i
      argFits (argType cfg.dt a t0 inT) inT && synthArgs cfg cs ins variadic numIn offset (i + 1) rest
    | none => false

end

/-- the documented rule set -/
def CheckCfg.reference (cfg : CheckCfg) : CheckCfg := { cfg with dt := .repaired }

/-- `n` has type `τ` by the reference typing rules -/
def HasType (cfg : CheckCfg) (colls : List OTy) (n : Node) (τ : OTy) : Prop :=
  synth cfg.reference colls n = some τ

/-- `n` is well typed by the reference rules -/
def WellTyped (cfg : CheckCfg) (n : Node) : Prop := ∃ τ, HasType cfg [] n τ

instance (cfg : CheckCfg) (n : Node) : Decidable (WellTyped cfg n) := by
  unfold WellTyped HasType
  cases h : synth cfg.reference [] n with
  | none => exact isFalse (by rintro ⟨τ, hτ⟩; cases hτ)
  | some τ => exact isTrue ⟨τ, rfl⟩

/-! ### "all its operands are statically typed" -/

/-- a defined scalar type (`type MyInt int`): outside the property's quantifier ("every numeric kind,
strings, bools, structs, slices, maps, functions and methods") -/
def Ty.isDefinedScalar : Ty → Bool
  | .named _ _ u => (match u.core with | .num _ | .string | .bool => true | _ => false)
  | _ => false

/-- every sub-expression has a static (non-interface, non-nil, non-defined-scalar) type -/
def staticTy (t : Option OTy) : Bool :=
  match t with
  | some (some ty) => ty.kind != .iface && !ty.isDefinedScalar
  | _ => false

mutual
def staticNode (cfg : CheckCfg) : List OTy → Node → Bool
  | cs, .unary m op x => staticTy (synth cfg cs (.unary m op x)) && staticNode cfg cs x
  | cs, .binary m op l r => staticTy (synth cfg cs (.binary m op l r)) && staticNode cfg cs l && staticNode cfg cs r
  | cs, .matches m h l r => staticTy (synth cfg cs (.matches m h l r)) && staticNode cfg cs l && staticNode cfg cs r
  | cs, .prop m x n s => staticTy (synth cfg cs (.prop m x n s)) && staticNode cfg cs x
  | cs, .index m x i => staticTy (synth cfg cs (.index m x i)) && staticNode cfg cs x && staticNode cfg cs i
  | cs, .slice m x f t =>
    staticTy (synth cfg cs (.slice m x f t)) && staticNode cfg cs x && staticOpt cfg cs f && staticOpt cfg cs t
  | cs, .method m x n args s =>
    staticTy (synth cfg cs (.method m x n args s)) && staticNode cfg cs x && staticList cfg cs args
  | cs, .func m n args f => staticTy (synth cfg cs (.func m n args f)) && staticList cfg cs args
  | cs, .builtin m n [a] => staticTy (synth cfg cs (.builtin m n [a])) && staticNode cfg cs a
  | cs, .builtin m n [a, c] =>
    staticTy (synth cfg cs (.builtin m n [a, c])) && staticNode cfg cs a &&
      (match synth cfg cs a with | some coll => staticNode cfg (coll :: cs) c | none => false)
  | _, .builtin _ _ _ => false
  | cs, .closure _ x => staticNode cfg cs x
  | cs, .cond m c a b =>
    staticTy (synth cfg cs (.cond m c a b)) && staticNode cfg cs c && staticNode cfg cs a && staticNode cfg cs b
  | cs, .array _ xs => staticList cfg cs xs
  | cs, .map _ ps => staticList cfg cs ps
  | cs, .pair _ k v => staticNode cfg cs k && staticNode cfg cs v
  | cs, n => staticTy (synth cfg cs n)
def staticOpt (cfg : CheckCfg) : List OTy → Option Node → Bool
  | _, none => true
  | cs, some n => staticNode cfg cs n
def staticList (cfg : CheckCfg) : List OTy → List Node → Bool
  | _, [] => true
  | cs, n :: ns => staticNode cfg cs n && staticList cfg cs ns
end

/-- the hypothesis "all its operands are statically typed" -/
def Static (cfg : CheckCfg) (n : Node) : Prop := staticNode cfg [] n = true

instance (cfg : CheckCfg) (n : Node) : Decidable (Static cfg n) := by unfold Static; exact inferInstance


end ExprModel
