import ExprModel.Types.Table
/-
The type checker of checker/checker.go, clause by clause, over the syntax tree of `Syntax/Ast.lean`.

* `reflect.Type` values are `OTy = Option Ty` (`none` = the nil type of `nil`, of a nil-safe miss, …).
* The visitor's state is `CState`: the first error (kept: `v.error` only records when none is recorded
  yet), the stack of collection types for `#`, and a `panic` slot: the places where the Go code would
  panic (nil `reflect.Type` `.Kind()`, `reflect.FuncOf` with a nil result type, an unknown node type)
  set it, and the outcome of `check` is then `panic`.
* `visit` returns the *annotated* node too (every visited node gets `Meta.kd` = kind of its type —
  `node.SetType(t)` — and integer literals in call arguments are retyped to the parameter's type —
  `setTypeForIntegers`), because compiler and optimizer read those annotations.
* Operator overloading (`conf.OperatorsTable`) is C17's subject and not modelled here: the operators
  table is empty.
* Error messages are abstracted to classes (`CheckErrClass`); the harness maps the real messages to the same
  classes by their fixed prefixes.
-/
namespace ExprModel

abbrev OTy := Option Ty

/-- deviations of the checker from the reference typing rules (DESIGN section 6 #14-16) -/
structure TDefects where
  /-- integer literals (and `+ - * /`, unary `+ -` over them) in call arguments are retyped to the
      parameter type whatever it is: `Fs(1)` with `func(string)` is accepted -/
  retypeAnyParam : Bool
  /-- `a[i]` accepts any integer or string index whatever the container: an integer index on a
      string-keyed map, a string index on a slice -/
  looseIndex : Bool
  /-- `AsBool()` on a nil-typed expression calls `.Kind()` on a nil `reflect.Type` -/
  nilKindPanic : Bool
  /-- `Check` tests the result directive (unlocated "expected …" error) before it looks at the located
      error recorded during the visit (repaired in /repo by 76735a9) -/
  expectFirst : Bool
  /-- `filter` / `map` report the static type `[]T` (element type of the collection / result type of
      the closure) although the VM always builds `[]interface{}` -/
  staticSliceOf : Bool
  /-- a closure whose body has the nil type (`map(xs, {nil})`) reaches `reflect.FuncOf` with a nil
      result type, which panics -/
  closureNilPanic : Bool
  /-- `a[f:t]` is accepted for every indexable `a`, maps included (the VM cannot slice a map) -/
  sliceOfMap : Bool
  /-- `x in m` is accepted for a map `m` whatever the type of `x` (the VM's `MapIndex` needs a key
      assignable to the map's key type) -/
  inMapAnyKey : Bool
  /-- a computed key `(e)` of a map literal may have any type (the VM asserts it to be a string) -/
  mapKeyUnchecked : Bool
  /-- `visit` has no case for `ConstantNode` (inserted by the optimizer or a Patch visitor): a second
      check of such a tree panics ("undefined node type") -/
  constNodePanic : Bool
  /-- the retyping of call arguments applies to every `+ - * /` / unary `+ -` expression, also when its
      operands are not integer literals: `Ff(+U64)`, `Fi(F64 + 1)` are accepted with the parameter's type
      although the value keeps its own kind (`reflect: Call using uint64 as type float64`) -/
  retypeNonLiteral : Bool
  /-- `c ? a : b` with `a`'s type assignable to `b`'s reports `a`'s type (`c ? 1 : Any` : int) although
      the value may be whatever `b` yields; repaired by 390c455 (reports `b`'s type) -/
  condFirstBranchType : Bool
  /-- `combined(a, b)` ranks `interface{}` below every numeric kind (`typeWeight` 0): `Any * 1`, `Any + I`
      are reported as `int` although the value may be a float64 (or anything numeric); pinned by /repo's
      own tests (TestVisitor_FunctionNode) -/
  combinedIgnoresIface : Bool
  /-- `a[f:t]` on an array `[n]T` is reported with the array's type `[n]T`; slicing yields `[]T` -/
  arraySliceKeepsArrayType : Bool
  /-- an integer literal in a call argument is retyped also to an `interface{}` parameter (`isNumber`
      holds of `interface{}`): `Fa(0)` annotates the literal `interface{}`; repaired by 57c7777 (the
      literal keeps `int`; found through operator overloading, C17) -/
  retypeIfaceParam : Bool
  /-- `FunctionNode.Fast` is set for every variadic function whose only parameter is `...X` and whose
      result is `Y` with `X`, `Y` merely of interface *kind* (`...error`, `error`), and for named func
      types; the VM's `OpCallFast` asserts exactly `func(...interface{}) interface{}` and panics with an
      interface conversion.  Repaired by 6ec68be -/
  fastInexact : Bool
  /-- `p[f:t]` on a pointer to a slice (`*[]int`) is reported with the pointer type although the VM's
      `slice` dereferences and yields a `[]int` -/
  slicePtrKeepsPtr : Bool
  deriving DecidableEq, Repr

/-- the pinned snapshot -/
def TDefects.asWas : TDefects := ⟨true, true, true, true, true, true, true, true, true, true, true, true, true, true, true, true, true⟩
/-- /repo's current HEAD: after the `fix:` commits 76735a9 (located error first), b6f8e35 (`AsBool` on the
nil type), 6162013 (numeric-only literal retyping), 106fb38 (closure with a nil-typed body), e2e7046 (`in`
needs a usable key), 265c5fa (no slicing of maps), a03872c (computed map-literal key must be a string),
911e74d (ConstantNode), 390c455 (type of a conditional), f1ac5c8 (slicing an array), 57c7777 (no retyping to an
`interface{}` parameter), 6ec68be (`Fast` only for exactly `func(...interface{}) interface{}`), d970c37 (a slice through a pointer has the pointed-to type; `len` dereferences).  The loose index rule and the static slice types of `filter`/`map` are pinned by
/repo's own tests and remain, as does `combined` on interface operands. -/
def TDefects.asIs : TDefects := ⟨false, true, false, false, true, false, false, false, false, false, true, false, true, false, false, false, false⟩
def TDefects.repaired : TDefects := ⟨false, false, false, false, false, false, false, false, false, false, false, false, false, false, false, false, false⟩
/-- intermediate flag sets used for self-tests against partially patched copies of the repository -/
def TDefects.safeFix : TDefects := ⟨false, true, false, false, true, false, true, true, true, true, true, true, true, true, true, true, true⟩
def TDefects.safeFix2 : TDefects := ⟨false, true, false, false, true, false, false, false, false, true, true, true, true, true, true, true, true⟩

inductive Expect where
  | none | bool | int64 | float64
  deriving DecidableEq, Repr

structure CheckCfg where
  types : Option Table          -- `config.Types`; `none` when no environment was given
  strict : Bool
  defaultType : OTy := none
  expect : Expect := .none
  dn : NDefects := .asIs
  dt : TDefects := .asIs

inductive CheckErrClass where
  | ambiguousIdent | unknownName | methodValue | unknownOperator | mismatchUnary | mismatchBinary
  | mismatchMatches | noField | badIndex | notIndexable | badSliceIndex | notSliceable
  | unknownFunc | noMethod | noResult | manyResults | tooMany | notEnough | badArgument
  | badLen | notArray | closureNotBool | badClosure | unknownBuiltin | pointerOutside | pointerNotArray
  | nonBoolCond | expected | badMapKey | builtinArity
  deriving DecidableEq, Repr

def CheckErrClass.name : CheckErrClass → String
  | .ambiguousIdent => "ambiguous-identifier" | .unknownName => "unknown-name"
  | .methodValue => "method-value" | .unknownOperator => "unknown-operator"
  | .mismatchUnary => "mismatch-unary" | .mismatchBinary => "mismatch-binary"
  | .mismatchMatches => "mismatch-matches" | .noField => "no-field" | .badIndex => "bad-index"
  | .notIndexable => "not-indexable" | .badSliceIndex => "bad-slice-index" | .notSliceable => "not-sliceable"
  | .unknownFunc => "unknown-func" | .noMethod => "no-method" | .noResult => "no-result"
  | .manyResults => "many-results" | .tooMany => "too-many" | .notEnough => "not-enough"
  | .badArgument => "bad-argument" | .badLen => "bad-len" | .notArray => "not-array"
  | .closureNotBool => "closure-not-bool" | .badClosure => "bad-closure" | .unknownBuiltin => "unknown-builtin"
  | .pointerOutside => "pointer-outside" | .pointerNotArray => "pointer-not-array"
  | .nonBoolCond => "non-bool-cond" | .expected => "expected" | .badMapKey => "bad-map-key"
  | .builtinArity => "builtin-arity"

structure CState where
  err : Option (Loc × CheckErrClass) := none
  colls : List OTy := []
  panic : Option String := none

/-- `v.error(node, …)`: record the error unless one is recorded already; the result type is `interface{}` -/
def CState.fail (st : CState) (loc : Loc) (c : CheckErrClass) : CState :=
  match st.err with
  | none => { st with err := some (loc, c) }
  | some _ => st

def CState.setPanic (st : CState) (msg : String) : CState :=
  match st.panic with
  | none => { st with panic := some msg }
  | some _ => st

/-! ### the predicates of checker/types.go on possibly-nil types -/

def OTy.deref : OTy → OTy
  | none => none
  | some t => some t.deref

def OTy.kind : OTy → RKind
  | none => .invalid
  | some t => t.kind

def RKind.isIntKind : RKind → Bool
  | .num k => k.isInt
  | _ => false
def RKind.isFloatKind : RKind → Bool
  | .num k => k.isFloat
  | _ => false

def isInterfaceT (t : OTy) : Bool := t.deref.kind == .iface
def isIntegerT (t : OTy) : Bool := t.deref.kind.isIntKind || t.deref.kind == .iface
def isFloatT (t : OTy) : Bool := t.deref.kind.isFloatKind || t.deref.kind == .iface
def isNumberT (t : OTy) : Bool := isIntegerT t || isFloatT t
def isBoolT (t : OTy) : Bool := t.deref.kind == .bool || t.deref.kind == .iface
def isStringT (t : OTy) : Bool := t.deref.kind == .string || t.deref.kind == .iface
def isArrayT (t : OTy) : Bool :=
  t.deref.kind == .slice || t.deref.kind == .array || t.deref.kind == .iface
def isMapT (t : OTy) : Bool := t.deref.kind == .map || t.deref.kind == .iface
def isStructT (t : OTy) : Bool := t.deref.kind == .struct
def isFuncT (t : OTy) : Bool := t.deref.kind == .func

def isComparableT (l r : OTy) : Bool :=
  match l.deref, r.deref with
  | none, _ => true
  | _, none => true
  | some a, some b => a.kind == b.kind || a.kind == .iface || b.kind == .iface

/-- `typeWeight` (on the type's own kind, pointers are not followed) -/
def typeWeight (t : OTy) : Nat :=
  match t.kind with
  | .num k => k.rank + 1
  | _ => 0

def combinedT (a b : OTy) : OTy := if typeWeight a > typeWeight b then a else b

def boolTy : OTy := some .bool
def intTy : OTy := some (.num .int)
def floatTy : OTy := some (.num .float64)
def stringTy : OTy := some .string
def ifaceTy : OTy := some interfaceType
def arrayTy : OTy := some (.slice interfaceType)
def mapTy : OTy := some (.map .string interfaceType)

/-- `indexType` -/
def indexTypeT (t : OTy) : Option OTy :=
  match t.deref with
  | none => none
  | some u =>
    match u.kind with
    | .iface => some ifaceTy
    | .map | .array | .slice => some u.elem?
    | _ => none

/-- `fieldType` / `methodType` on possibly-nil types -/
def fieldTypeT (d : NDefects) (t : OTy) (name : String) : Option Ty :=
  match t with
  | none => none
  | some u => fieldType d (u.depth + 1) u name

def methodTypeT (d : NDefects) (t : OTy) (name : String) : Option (Ty × Bool) :=
  match t with
  | none => none
  | some u => methodType d (u.depth + 1) u name

/-! ### `reflect.Type.AssignableTo` (Go's assignability between types) -/

def Ty.isNamedType : Ty → Bool
  | .named _ _ _ | .bool | .string | .num _ | .ref _ | .other _ => true
  | _ => false

def Ty.ifaceMethods (t : Ty) : List Method := match t.core with | .iface ms => ms | _ => []

/-- does `t` have every method of the interface type `u` (signatures without receiver)? -/
def implementsT (t u : Ty) : Bool :=
  u.ifaceMethods.all fun m =>
    match methodByName t m.name with
    | some mt =>
      if t.kind == .iface then mt == m.sig
      else match mt, m.sig with
        | .func (_ :: ins) v outs, .func ins' v' outs' => ins == ins' && v == v' && outs == outs'
        | _, _ => false
    | none => false

def assignableTo (t u : Ty) : Bool :=
  t == u ||
  (t.core == u.core && (!t.isNamedType || !u.isNamedType) && t.kind != .iface) ||
  (u.kind == .iface && implementsT t u)

/-! ### literal retyping in call arguments -/

def isIntegerOrArith : Node → Bool
  | .int _ _ => true
  | .unary _ op _ => op == "+" || op == "-"
  | .binary _ op _ _ => op == "+" || op == "/" || op == "-" || op == "*"
  | _ => false

/-- `setTypeForIntegers`: only the integer literals are re-annotated -/
def setTypeForIntegers (k : RKind) : Node → Node
  | .int m v => .int { m with kd := k } v
  | .unary m op x => if op == "+" || op == "-" then .unary m op (setTypeForIntegers k x) else .unary m op x
  | .binary m op l r =>
    if op == "+" || op == "/" || op == "-" || op == "*"
    then .binary m op (setTypeForIntegers k l) (setTypeForIntegers k r) else .binary m op l r
  | n => n

def setKd (n : Node) (t : OTy) : Node := n.withMeta { n.getMeta with kd := t.kind }

/-! ### function signatures -/

def Ty.funcParts (t : Ty) : Option (List Ty × Bool × List Ty) :=
  match t.core with
  | .func ins v outs => some (ins, v, outs)
  | _ => none

/-- the parameter type argument `i` is checked against (`numIn` = parameters without receiver) -/
def paramFor (ins : List Ty) (variadic : Bool) (numIn offset i : Nat) : OTy :=
  if variadic && i ≥ numIn - 1 then
    match ins.getLast? with
    | some last => (indexTypeT (some last)).getD none
    | none => none
  else ins[i + offset]?

/-- may an integer literal be retyped to this parameter type?  At the snapshot: always. -/
def retypeOk (dt : TDefects) (inT : OTy) : Bool :=
  dt.retypeAnyParam || (isNumberT inT && (dt.retypeIfaceParam || !isInterfaceT inT))

/-- an expression built from integer literals only (with `+ - * /` and unary `+ -`) -/
def intLiteralTree : Node → Bool
  | .int _ _ => true
  | .unary _ op x => (op == "+" || op == "-") && intLiteralTree x
  | .binary _ op l r => (op == "+" || op == "/" || op == "-" || op == "*") && intLiteralTree l && intLiteralTree r
  | _ => false

/-- is the argument `a` given the parameter's type `inT` ("retyped")? -/
def retypes (dt : TDefects) (a : Node) (inT : OTy) : Bool :=
  isIntegerOrArith a && retypeOk dt inT && (dt.retypeNonLiteral || intLiteralTree a)

/-- the `Fast` flag of `FunctionNode` -/
def Ty.isDefined : Ty → Bool
  | .named _ _ _ | .ref _ => true
  | _ => false

def fastCall (dt : TDefects) (fn : Ty) (method : Bool) : Bool :=
  match fn.funcParts with
  | some (ins, v, outs) =>
    fn.kind != .iface && v && ins.length == (if method then 2 else 1) && outs.length == 1 &&
    (if dt.fastInexact then
      (match outs with | [o] => o.kind == .iface | _ => false) &&
      (match ins.getLast? with
        | some rest => rest.kind == .slice && (rest.elem?.map Ty.kind) == some .iface
        | none => false)
     else
      -- exactly `func(...interface{}) interface{}`, not a defined func type
      (match outs with | [o] => o == interfaceType | _ => false) && !fn.isDefined &&
      (match ins.getLast? with
        | some rest => rest.kind == .slice && rest.elem? == some interfaceType
        | none => false))
  | none => false

def isIndexOk (dt : TDefects) (container i : OTy) : Bool :=
  if dt.looseIndex then isIntegerT i || isStringT i
  else
    match container.deref with
    | some u =>
      match u.core with
      | .map k _ => isInterfaceT i || (match i with | some it => assignableTo it k | none => false)
      | .iface _ => isIntegerT i || isStringT i
      | _ => isIntegerT i
    | none => false

/-! ### the local typing rules

Each clause of the visitor is: visit the children, then apply a *local rule* to their types.  The rules
are pure (`Except CheckErrClass OTy`: the type, or the class of the error `v.error` records); the visitor
below threads the state through them (`orFail`), and the compositional reference rules
(`Types/HasType.lean`) apply the very same rules without any state. -/

abbrev Rule := Except CheckErrClass OTy

/-- `return v.error(node, …)` when the rule fails (the result type is then `interface{}`) -/
def orFail (r : Rule) (loc : Loc) (st : CState) : OTy × CState :=
  match r with
  | .ok t => (t, st)
  | .error c => (ifaceTy, st.fail loc c)

def defaultOr (cfg : CheckCfg) : OTy := match cfg.defaultType with | some d => some d | none => ifaceTy

/-- `IdentifierNode` -/
def identRule (cfg : CheckCfg) (name : String) (nilsafe : Bool) : Rule :=
  match cfg.types with
  | none => .ok ifaceTy
  | some tbl =>
    match tbl.get? name with
    | some g =>
      if g.ambiguous then .error .ambiguousIdent
      else if g.method && !cfg.dn.methodAsValue then .error .methodValue
      else .ok g.ty
    | none =>
      if !cfg.strict then .ok (defaultOr cfg)
      else if !nilsafe then .error .unknownName
      else .ok none

/-- `UnaryNode` -/
def unaryRule (op : String) (t : OTy) : Rule :=
  if op == "!" || op == "not" then
    if isBoolT t then .ok boolTy else .error .mismatchUnary
  else if op == "+" || op == "-" then
    if isNumberT t then .ok t else .error .mismatchUnary
  else .error .unknownOperator

/-- can a value of type `l` be looked up in the map (or interface) `r`? -/
def mapKeyFits (l r : OTy) : Bool :=
  match r.deref with
  | some m =>
    if m.kind == .map then
      isInterfaceT l || (match l, m.mapKey? with | some lt, some k => assignableTo lt k | _, _ => false)
    else true
  | none => false

/-- the result type of an arithmetic operator: `combined`, except that the documented rule set gives
`interface{}` when an operand is of interface type -/
def combinedR (dt : TDefects) (l r : OTy) : OTy :=
  if !dt.combinedIgnoresIface && (isInterfaceT l || isInterfaceT r) then ifaceTy else combinedT l r

/-- `BinaryNode` (no operator overloading) -/
def binaryRule (dt : TDefects) (op : String) (l r : OTy) : Rule :=
  let bad : Rule := .error .mismatchBinary
  if op == "==" || op == "!=" then
    if (isNumberT l && isNumberT r) || isComparableT l r then .ok boolTy else bad
  else if op == "or" || op == "||" || op == "and" || op == "&&" then
    if isBoolT l && isBoolT r then .ok boolTy else bad
  else if op == "in" || op == "not in" then
    if (isStringT l && isStructT r) || (isMapT r && (dt.inMapAnyKey || mapKeyFits l r)) || isArrayT r
    then .ok boolTy else bad
  else if op == "<" || op == ">" || op == ">=" || op == "<=" then
    if (isNumberT l && isNumberT r) || (isStringT l && isStringT r) then .ok boolTy else bad
  else if op == "/" || op == "-" || op == "*" then
    if isNumberT l && isNumberT r then .ok (combinedR dt l r) else bad
  else if op == "**" then
    if isNumberT l && isNumberT r then .ok floatTy else bad
  else if op == "%" then
    if isIntegerT l && isIntegerT r then .ok (combinedR dt l r) else bad
  else if op == "+" then
    if isNumberT l && isNumberT r then .ok (combinedR dt l r)
    else if isStringT l && isStringT r then .ok stringTy else bad
  else if op == "contains" || op == "startsWith" || op == "endsWith" then
    if isStringT l && isStringT r then .ok boolTy else bad
  else if op == ".." then
    if isIntegerT l && isIntegerT r then .ok (some (.slice (.num .int))) else bad
  else .error .unknownOperator

def matchesRule (l r : OTy) : Rule :=
  if isStringT l && isStringT r then .ok boolTy else .error .mismatchMatches

/-- `PropertyNode` -/
def propRule (dn : NDefects) (t : OTy) (name : String) (nilsafe : Bool) : Rule :=
  match fieldTypeT dn t name with
  | some ft => .ok (some ft)
  | none => if !nilsafe then .error .noField else .ok none

/-- `IndexNode` -/
def indexRule (dt : TDefects) (t i : OTy) : Rule :=
  match indexTypeT t with
  | some et => if !isIndexOk dt t i then .error .badIndex else .ok et
  | none => .error .notIndexable

def sliceable (dt : TDefects) (t : OTy) : Bool :=
  if dt.sliceOfMap then (indexTypeT t).isSome || isStringT t else isArrayT t || isStringT t

/-- the type of `a[f:t]`: the operand's type; the documented rule set gives `[]T` for an array `[n]T` -/
def sliceResult (dt : TDefects) (t : OTy) : OTy :=
  if dt.arraySliceKeepsArrayType then t
  else match t.deref with
    | some u => if u.kind == .array then u.elem?.map Ty.slice else if dt.slicePtrKeepsPtr then t else some u
    | none => t

/-- /repo HEAD plus the proposed patch /tmp/w/types/c03-fixes-3.patch (array slicing) -/
def TDefects.safeFix3 : TDefects := { TDefects.asIs with arraySliceKeepsArrayType := false }
/-- /repo HEAD plus the proposed patch /tmp/w/types/c03-fixes-4.patch (slicing through a pointer) -/
def TDefects.safeFix4 : TDefects := { TDefects.asIs with slicePtrKeepsPtr := false }

/-- the key of a map-literal pair -/
def pairKeyRule (dt : TDefects) (kt : OTy) : Rule :=
  if dt.mapKeyUnchecked || isStringT kt then .ok none else .error .badMapKey

/-- the callable a `MethodNode` resolves to: (function type, has a receiver parameter) -/
def methodTarget (dn : NDefects) (t : OTy) (name : String) : Option (Ty × Bool) :=
  (methodTypeT dn t name).bind fun fm => (isFuncType (some fm.1)).map fun fn => (fn, fm.2)

/-- the callable a `FunctionNode` resolves to -/
def funcTargetC (cfg : CheckCfg) (name : String) : Option (Ty × Bool) :=
  (cfg.types.bind fun tbl => tbl.get? name).bind fun g => (isFuncType g.ty).map fun fn => (fn, g.method)

/-- the part of `checkFunc` before the argument loop: a result at once (`inl`), or the data the
argument loop needs (`inr`: parameters, variadic, number of parameters without receiver, offset, result) -/
def funcPlan (fn : Ty) (method : Bool) (nargs : Nat) :
    Rule ⊕ (List Ty × Bool × Nat × Nat × Ty) :=
  if fn.kind == .iface then .inl (.ok ifaceTy)
  else
    match fn.funcParts with
    | none => .inl (.ok ifaceTy)
    | some (ins, variadic, outs) =>
      match outs with
      | [] => .inl (.error .noResult)
      | [out] =>
        let numIn := if method then ins.length - 1 else ins.length
        if variadic && nargs < numIn - 1 then .inl (.error .notEnough)
        else if !variadic && nargs > numIn then .inl (.error .tooMany)
        else if !variadic && nargs < numIn then .inl (.error .notEnough)
        else .inr (ins, variadic, numIn, (if method then 1 else 0), out)
      | _ => .inl (.error .manyResults)

/-- one argument of a call: the type it is checked with (integer literals take the parameter's type)
and whether it fits; `none` = nil-typed argument, skipped -/
def argType (dt : TDefects) (a : Node) (t0 inT : OTy) : OTy :=
  if retypes dt a inT then inT else t0

def argFits (t inT : OTy) : Bool :=
  match t with
  | none => true
  | some tt => (match inT with | some it => assignableTo tt it | none => false) || tt.kind == .iface

def lenRule (pt : OTy) : Rule :=
  if isArrayT pt || isMapT pt || isStringT pt then .ok intTy else .error .badLen

def isCollBuiltin (bname : String) : Bool :=
  bname == "all" || bname == "none" || bname == "any" || bname == "one" || bname == "filter" ||
  bname == "map" || bname == "count"

/-- the result of `all none any one filter map count` from the collection's and the closure's type -/
def collBuiltinRule (dt : TDefects) (bname : String) (coll closure : OTy) : Rule :=
  let shape : Option Ty :=    -- the closure's result type when it has the expected shape
    match closure with
    | some (.func [inT] false [o]) => if inT.kind == .iface then some o else none
    | _ => none
  match shape with
  | some o =>
    if bname == "map" then .ok (if dt.staticSliceOf then some (.slice o) else arrayTy)
    else if !isBoolT (some o) then .error .closureNotBool
    else if bname == "filter" then
      .ok (if isInterfaceT coll || !dt.staticSliceOf then arrayTy else
        (match coll with | some ct => (ct.elem?.map Ty.slice) | none => none))
    else if bname == "count" then .ok intTy
    else .ok boolTy
  | none => .error .badClosure

/-- `PointerNode` -/
def pointerRule (colls : List OTy) : Rule :=
  match colls with
  | [] => .error .pointerOutside
  | coll :: _ =>
    match indexTypeT coll with
    | some et => .ok et
    | none => .error .pointerNotArray

/-- `ConditionalNode`: the result type from the branches' types -/
def condType (dt : TDefects) (t1 t2 : OTy) : OTy :=
  match t1, t2 with
  | none, some y => some y
  | some x, none => some x
  | none, none => none
  | some x, some y =>
    if assignableTo x y then (if dt.condFirstBranchType then some x else some y) else ifaceTy

def closureType (bt : Ty) : OTy := some (.func [interfaceType] false [bt])

/-- `reflect.TypeOf(n.Value)` for the value of a `ConstantNode`, as far as the value universe tells -/
def typeOfVal : Val → OTy
  | .nil => none
  | .bool _ => boolTy
  | .int k _ => some (.num k)
  | .f64 _ => floatTy
  | .f32 _ => some (.num .float32)
  | .str _ => stringTy
  | .arr et _ =>
    some (.slice (match et with
      | .iface => interfaceType | .num k => .num k | .str => .string | .bool => .bool
      | .other n => .ref n))
  | .map _ => mapTy
  | .tmap z _ _ => some (.map .string ((typeOfVal z).getD interfaceType))
  | .set et _ =>
    some (.map (match et with
      | .iface => interfaceType | .num k => .num k | .str => .string | .bool => .bool
      | .other n => .ref n) (.struct []))
  | .struct n isPtr _ => some (if isPtr then .ptr (.ref n) else .ref n)
  | .fn id => some (.other ("func:" ++ id))
  | .regexp _ => some (.ptr (.ref "regexp.Regexp"))
  | .call _ _ => some (.ref "vm.Call")
  | .opaque d => some (.other d)

/-! ### the visitor -/

mutual

/-- `visitor.visit`: annotated node, its type, the state -/
def visit (cfg : CheckCfg) : Node → CState → Node × OTy × CState
  | .nil m, st => (setKd (.nil m) none, none, st)
  | .ident m name nilsafe, st =>
    let (t, st) := orFail (identRule cfg name nilsafe) m.loc st
    (setKd (.ident m name nilsafe) t, t, st)
  | .int m v, st => (setKd (.int m v) intTy, intTy, st)
  | .float m b, st => (setKd (.float m b) floatTy, floatTy, st)
  | .bool m b, st => (setKd (.bool m b) boolTy, boolTy, st)
  | .str m s, st => (setKd (.str m s) stringTy, stringTy, st)
  | .const m v, st =>
    if cfg.dt.constNodePanic then
      -- no case for ConstantNode in `visit`: panic("undefined node type")
      (.const m v, none, st.setPanic "undefined node type (*ast.ConstantNode)")
    else (setKd (.const m v) (typeOfVal v), typeOfVal v, st)
  | .unary m op x, st =>
    let (x', t, st) := visit cfg x st
    let (r, st) := orFail (unaryRule op t) m.loc st
    (setKd (.unary m op x') r, r, st)
  | .binary m op l r, st =>
    let (l', lt, st) := visit cfg l st
    let (r', rt, st) := visit cfg r st
    let (t, st) := orFail (binaryRule cfg.dt op lt rt) m.loc st
    (setKd (.binary m op l' r') t, t, st)
  | .matches m hasRe l r, st =>
    let (l', lt, st) := visit cfg l st
    let (r', rt, st) := visit cfg r st
    let (t, st) := orFail (matchesRule lt rt) m.loc st
    (setKd (.matches m hasRe l' r') t, t, st)
  | .prop m x name nilsafe, st =>
    let (x', t, st) := visit cfg x st
    let (r, st) := orFail (propRule cfg.dn t name nilsafe) m.loc st
    (setKd (.prop m x' name nilsafe) r, r, st)
  | .index m x i, st =>
    let (x', t, st) := visit cfg x st
    let (i', it, st) := visit cfg i st
    let (r, st) := orFail (indexRule cfg.dt t it) m.loc st
    (setKd (.index m x' i') r, r, st)
  | .slice m x from_ to, st =>
    let (x', t, st) := visit cfg x st
    if sliceable cfg.dt t then
      let (from', fromOk, st) := visitBound cfg from_ st
      -- a non-integer `from` returns at once: `to` is not visited
      if !fromOk then (setKd (.slice m x' from' to) ifaceTy, ifaceTy, st)
      else
        let (to', toOk, st) := visitBound cfg to st
        if !toOk then (setKd (.slice m x' from' to') ifaceTy, ifaceTy, st)
        else (setKd (.slice m x' from' to') (sliceResult cfg.dt t), sliceResult cfg.dt t, st)
    else
      let st := st.fail m.loc .notSliceable
      (setKd (.slice m x' from_ to) ifaceTy, ifaceTy, st)
  | .method m x name args nilsafe, st =>
    let (x', t, st) := visit cfg x st
    match methodTarget cfg.dn t name with
    | some (fn, isMethod) =>
      match funcPlan fn isMethod args.length with
      | .inl rule =>
        let (r, st) := orFail rule m.loc st
        (setKd (.method m x' name args nilsafe) r, r, st)
      | .inr (ins, variadic, numIn, offset, out) =>
        let (args', ok, st) := checkArgs cfg ins variadic numIn offset 0 args st
        let r : OTy := if ok then some out else ifaceTy
        (setKd (.method m x' name args' nilsafe) r, r, st)
    | none =>
      let (r, st) := orFail (if !nilsafe then .error .noMethod else .ok none) m.loc st
      (setKd (.method m x' name args nilsafe) r, r, st)
  | .func m name args fast, st =>
    match funcTargetC cfg name with
    | some (fn, isMethod) =>
      let fast' := fastCall cfg.dt fn isMethod
      match funcPlan fn isMethod args.length with
      | .inl rule =>
        let (r, st) := orFail rule m.loc st
        (setKd (.func m name args fast') r, r, st)
      | .inr (ins, variadic, numIn, offset, out) =>
        let (args', ok, st) := checkArgs cfg ins variadic numIn offset 0 args st
        let r : OTy := if ok then some out else ifaceTy
        (setKd (.func m name args' fast') r, r, st)
    | none =>
      let (r, st) := orFail (if !cfg.strict then .ok (defaultOr cfg) else .error .unknownFunc) m.loc st
      (setKd (.func m name args fast) r, r, st)
  | .builtin m name args, st =>
    -- first the argument count: `len` takes one argument, the other builtins two
    match args with
    | [a] =>
      if name == "len" then
        let (a', pt, st) := visit cfg a st
        let (r, st) := orFail (lenRule pt) m.loc st
        (setKd (.builtin m name [a']) r, r, st)
      else
        let st := st.fail m.loc .builtinArity
        (setKd (.builtin m name args) ifaceTy, ifaceTy, st)
    | [a, c] =>
      if isCollBuiltin name then
        let (a', coll, st) := visit cfg a st
        if !isArrayT coll then
          let st := st.fail a'.loc .notArray
          (setKd (.builtin m name [a', c]) ifaceTy, ifaceTy, st)
        else
          let st := { st with colls := coll :: st.colls }
          let (c', closure, st) := visit cfg c st
          let st := { st with colls := st.colls.tail }
          let (r, st) := orFail (collBuiltinRule cfg.dt name coll closure) c'.loc st
          (setKd (.builtin m name [a', c']) r, r, st)
      else
        let st := st.fail m.loc (if name == "len" then .builtinArity else .unknownBuiltin)
        (setKd (.builtin m name args) ifaceTy, ifaceTy, st)
    | _ =>
      let st := st.fail m.loc .builtinArity
      (setKd (.builtin m name args) ifaceTy, ifaceTy, st)
  | .closure m x, st =>
    let (x', t, st) := visit cfg x st
    match t with
    | some bt => (setKd (.closure m x') (closureType bt), closureType bt, st)
    | none =>
      if cfg.dt.closureNilPanic then
        -- reflect.FuncOf with a nil result type panics
        (.closure m x', none, st.setPanic "reflect.FuncOf: nil result type")
      else (setKd (.closure m x') (closureType interfaceType), closureType interfaceType, st)
  | .pointer m, st =>
    let (r, st) := orFail (pointerRule st.colls) m.loc st
    (setKd (.pointer m) r, r, st)
  | .cond m c a b, st =>
    let (c', ct, st) := visit cfg c st
    if !isBoolT ct then
      -- returns without visiting the branches
      let st := st.fail c'.loc .nonBoolCond
      (setKd (.cond m c' a b) ifaceTy, ifaceTy, st)
    else
      let (a', t1, st) := visit cfg a st
      let (b', t2, st) := visit cfg b st
      (setKd (.cond m c' a' b') (condType cfg.dt t1 t2), condType cfg.dt t1 t2, st)
  | .array m xs, st =>
    let (xs', st) := visitList cfg xs st
    (setKd (.array m xs') arrayTy, arrayTy, st)
  | .map m ps, st =>
    let (ps', st) := visitList cfg ps st
    (setKd (.map m ps') mapTy, mapTy, st)
  | .pair m k v, st =>
    let (k', kt, st) := visit cfg k st
    let (_, st) := orFail (pairKeyRule cfg.dt kt) k'.loc st
    let (v', _, st) := visit cfg v st
    (setKd (.pair m k' v') none, none, st)

/-- a bound of a slice expression: visited when present; must be an integer -/
def visitBound (cfg : CheckCfg) : Option Node → CState → Option Node × Bool × CState
  | none, st => (none, true, st)
  | some n, st =>
    let (n', t, st) := visit cfg n st
    if !isIntegerT t then (some n', false, st.fail n'.loc .badSliceIndex) else (some n', true, st)

def visitList (cfg : CheckCfg) : List Node → CState → List Node × CState
  | [], st => ([], st)
  | n :: ns, st =>
    let (n', _, st) := visit cfg n st
    let (ns', st) := visitList cfg ns st
    (n' :: ns', st)

/-- the argument loop of `checkFunc`: `i` is the index of the next argument; stops at the first
argument that does not fit (the remaining ones are not visited) -/
def checkArgs (cfg : CheckCfg) (ins : List Ty) (variadic : Bool) (numIn offset : Nat) :
    Nat → List Node → CState → List Node × Bool × CState
  | _, [], st => ([], true, st)
  | i, a :: rest, st =>
    let (a', t0, st) := visit cfg a st
    let inT := paramFor ins variadic numIn offset i
    let retype := retypes cfg.dt a inT
    let a'' := if retype then setTypeForIntegers inT.kind a' else a'
    if !argFits (argType cfg.dt a t0 inT) inT then (a'' :: rest, false, st.fail a''.loc .badArgument)
    else
      let (rest', ok, st) := checkArgs cfg ins variadic numIn offset (i + 1) rest st
      (a'' :: rest', ok, st)

end

/-- outcome of `checker.Check` -/
inductive CheckResult where
  | ok (n : Node) (t : OTy)
  | error (loc : Option Loc) (c : CheckErrClass) (n : Node)
  | panic (msg : String)

inductive ExpectFail where
  | mismatch      -- "expected …, but got …" (unlocated)
  | panic         -- `.Kind()` on a nil `reflect.Type`
  deriving DecidableEq, Repr

/-- the test of the result directive (`AsBool`: the kind is exactly bool; `AsInt64`/`AsFloat64`: a
number); `none` = satisfied -/
def expectTest (dt : TDefects) (e : Expect) (t : OTy) : Option ExpectFail :=
  match e with
  | .none => none
  | .int64 | .float64 => if isNumberT t then none else some .mismatch
  | .bool =>
    match t with
    | none => if dt.nilKindPanic then some .panic else some .mismatch
    | some tt => if tt.kind == .bool then none else some .mismatch

def ExpectFail.result (n' : Node) : ExpectFail → CheckResult
  | .mismatch => .error none .expected n'
  | .panic => .panic "nil Type.Kind()"

/-- `checker.Check`: visit, then the located error and the test of the result directive (at the
snapshot the directive was tested first, `expectFirst`) -/
def check (cfg : CheckCfg) (n : Node) : CheckResult :=
  let (n', t, st) := visit cfg n {}
  match st.panic with
  | some msg => .panic msg
  | none =>
    match st.err, expectTest cfg.dt cfg.expect t with
    | none, none => .ok n' t
    | some e, none => .error (some e.1) e.2 n'
    | none, some f => f.result n'
    | some e, some f => if cfg.dt.expectFirst then f.result n' else .error (some e.1) e.2 n'

end ExprModel
