import ExprModel.Types.Table
/-
The type checker of checker/checker.go, clause by clause, over the syntax tree of `Syntax/Ast.lean`.

* `reflect.Type` values are `OTy = Option Ty` (`none` = the nil type of `nil`, of a nil-safe miss, …).
* The visitor's state is `CState`: the first error (kept: `v.error` only records when none is recorded
  yet), the stack of collection types for `#`, and a `panic` slot: the places where the Go code would
  panic (nil `reflect.Type` `.Kind()`, `reflect.FuncOf` with a nil result type, an unknown node type)
  set it, and the outcome of `check` is then `panic`.
* `visit` returns the *annotated* node too (every visited node gets `Meta.kd` = kind of its type —
  `node.SetType(t)` — and integer literals in call arguments are retyped to the parameter's type —
  `setTypeForIntegers`), because compiler and optimizer read those annotations.
* Operator overloading (`conf.OperatorsTable`) is C17's subject and not modelled here: the operators
  table is empty.
* Error messages are abstracted to classes (`CheckErrClass`); the harness maps the real messages to the same
  classes by their fixed prefixes.
-/
namespace ExprModel

abbrev OTy := Option Ty

/-- deviations of the checker from the reference typing rules (DESIGN section 6 #14-16) -/
structure TDefects where
  /-- integer literals (and `+ - * /`, unary `+ -` over them) in call arguments are retyped to the
      parameter type whatever it is: `Fs(1)` with `func(string)` is accepted -/
  retypeAnyParam : Bool
  /-- `a[i]` accepts any integer or string index whatever the container: an integer index on a
      string-keyed map, a string index on a slice -/
  looseIndex : Bool
  /-- `AsBool()` on a nil-typed expression calls `.Kind()` on a nil `reflect.Type` -/
  nilKindPanic : Bool
  /-- `Check` tests the result directive (unlocated "expected …" error) before it looks at the located
      error recorded during the visit (repaired in /repo by 76735a9) -/
  expectFirst : Bool
  deriving DecidableEq, Repr

/-- the pinned snapshot -/
def TDefects.asWas : TDefects := ⟨true, true, true, true⟩
/-- /repo's current HEAD -/
def TDefects.asIs : TDefects := ⟨true, true, true, false⟩
def TDefects.repaired : TDefects := ⟨false, false, false, false⟩

inductive Expect where
  | none | bool | int64 | float64
  deriving DecidableEq, Repr

structure CheckCfg where
  types : Option Table          -- `config.Types`; `none` when no environment was given
  strict : Bool
  defaultType : OTy := none
  expect : Expect := .none
  dn : NDefects := .asIs
  dt : TDefects := .asIs

inductive CheckErrClass where
  | ambiguousIdent | unknownName | methodValue | unknownOperator | mismatchUnary | mismatchBinary
  | mismatchMatches | noField | badIndex | notIndexable | badSliceIndex | notSliceable
  | unknownFunc | noMethod | noResult | manyResults | tooMany | notEnough | badArgument
  | badLen | notArray | closureNotBool | badClosure | unknownBuiltin | pointerOutside | pointerNotArray
  | nonBoolCond | expected
  deriving DecidableEq, Repr

def CheckErrClass.name : CheckErrClass → String
  | .ambiguousIdent => "ambiguous-identifier" | .unknownName => "unknown-name"
  | .methodValue => "method-value" | .unknownOperator => "unknown-operator"
  | .mismatchUnary => "mismatch-unary" | .mismatchBinary => "mismatch-binary"
  | .mismatchMatches => "mismatch-matches" | .noField => "no-field" | .badIndex => "bad-index"
  | .notIndexable => "not-indexable" | .badSliceIndex => "bad-slice-index" | .notSliceable => "not-sliceable"
  | .unknownFunc => "unknown-func" | .noMethod => "no-method" | .noResult => "no-result"
  | .manyResults => "many-results" | .tooMany => "too-many" | .notEnough => "not-enough"
  | .badArgument => "bad-argument" | .badLen => "bad-len" | .notArray => "not-array"
  | .closureNotBool => "closure-not-bool" | .badClosure => "bad-closure" | .unknownBuiltin => "unknown-builtin"
  | .pointerOutside => "pointer-outside" | .pointerNotArray => "pointer-not-array"
  | .nonBoolCond => "non-bool-cond" | .expected => "expected"

structure CState where
  err : Option (Loc × CheckErrClass) := none
  colls : List OTy := []
  panic : Option String := none

/-- `v.error(node, …)`: record the error unless one is recorded already; the result type is `interface{}` -/
def CState.fail (st : CState) (loc : Loc) (c : CheckErrClass) : CState :=
  match st.err with
  | none => { st with err := some (loc, c) }
  | some _ => st

def CState.setPanic (st : CState) (msg : String) : CState :=
  match st.panic with
  | none => { st with panic := some msg }
  | some _ => st

/-! ### the predicates of checker/types.go on possibly-nil types -/

def OTy.deref : OTy → OTy
  | none => none
  | some t => some t.deref

def OTy.kind : OTy → RKind
  | none => .invalid
  | some t => t.kind

def RKind.isIntKind : RKind → Bool
  | .num k => k.isInt
  | _ => false
def RKind.isFloatKind : RKind → Bool
  | .num k => k.isFloat
  | _ => false

def isInterfaceT (t : OTy) : Bool := t.deref.kind == .iface
def isIntegerT (t : OTy) : Bool := t.deref.kind.isIntKind || t.deref.kind == .iface
def isFloatT (t : OTy) : Bool := t.deref.kind.isFloatKind || t.deref.kind == .iface
def isNumberT (t : OTy) : Bool := isIntegerT t || isFloatT t
def isBoolT (t : OTy) : Bool := t.deref.kind == .bool || t.deref.kind == .iface
def isStringT (t : OTy) : Bool := t.deref.kind == .string || t.deref.kind == .iface
def isArrayT (t : OTy) : Bool :=
  t.deref.kind == .slice || t.deref.kind == .array || t.deref.kind == .iface
def isMapT (t : OTy) : Bool := t.deref.kind == .map || t.deref.kind == .iface
def isStructT (t : OTy) : Bool := t.deref.kind == .struct
def isFuncT (t : OTy) : Bool := t.deref.kind == .func

def isComparableT (l r : OTy) : Bool :=
  match l.deref, r.deref with
  | none, _ => true
  | _, none => true
  | some a, some b => a.kind == b.kind || a.kind == .iface || b.kind == .iface

/-- `typeWeight` (on the type's own kind, pointers are not followed) -/
def typeWeight (t : OTy) : Nat :=
  match t.kind with
  | .num k => k.rank + 1
  | _ => 0

def combinedT (a b : OTy) : OTy := if typeWeight a > typeWeight b then a else b

def boolTy : OTy := some .bool
def intTy : OTy := some (.num .int)
def floatTy : OTy := some (.num .float64)
def stringTy : OTy := some .string
def ifaceTy : OTy := some interfaceType
def arrayTy : OTy := some (.slice interfaceType)
def mapTy : OTy := some (.map .string interfaceType)

/-- `indexType` -/
def indexTypeT (t : OTy) : Option OTy :=
  match t.deref with
  | none => none
  | some u =>
    match u.kind with
    | .iface => some ifaceTy
    | .map | .array | .slice => some u.elem?
    | _ => none

/-- `fieldType` / `methodType` on possibly-nil types -/
def fieldTypeT (d : NDefects) (t : OTy) (name : String) : Option Ty :=
  match t with
  | none => none
  | some u => fieldType d (u.depth + 1) u name

def methodTypeT (d : NDefects) (t : OTy) (name : String) : Option (Ty × Bool) :=
  match t with
  | none => none
  | some u => methodType d (u.depth + 1) u name

/-! ### `reflect.Type.AssignableTo` (Go's assignability between types) -/

def Ty.isNamedType : Ty → Bool
  | .named _ _ _ | .bool | .string | .num _ | .ref _ | .other _ => true
  | _ => false

def Ty.ifaceMethods (t : Ty) : List Method := match t.core with | .iface ms => ms | _ => []

/-- does `t` have every method of the interface type `u` (signatures without receiver)? -/
def implementsT (t u : Ty) : Bool :=
  u.ifaceMethods.all fun m =>
    match methodByName t m.name with
    | some mt =>
      if t.kind == .iface then mt == m.sig
      else match mt, m.sig with
        | .func (_ :: ins) v outs, .func ins' v' outs' => ins == ins' && v == v' && outs == outs'
        | _, _ => false
    | none => false

def assignableTo (t u : Ty) : Bool :=
  t == u ||
  (t.core == u.core && (!t.isNamedType || !u.isNamedType) && t.kind != .iface) ||
  (u.kind == .iface && implementsT t u)

/-! ### literal retyping in call arguments -/

def isIntegerOrArith : Node → Bool
  | .int _ _ => true
  | .unary _ op _ => op == "+" || op == "-"
  | .binary _ op _ _ => op == "+" || op == "/" || op == "-" || op == "*"
  | _ => false

/-- `setTypeForIntegers`: only the integer literals are re-annotated -/
def setTypeForIntegers (k : RKind) : Node → Node
  | .int m v => .int { m with kd := k } v
  | .unary m op x => if op == "+" || op == "-" then .unary m op (setTypeForIntegers k x) else .unary m op x
  | .binary m op l r =>
    if op == "+" || op == "/" || op == "-" || op == "*"
    then .binary m op (setTypeForIntegers k l) (setTypeForIntegers k r) else .binary m op l r
  | n => n

def setKd (n : Node) (t : OTy) : Node := n.withMeta { n.getMeta with kd := t.kind }

/-! ### function signatures -/

def Ty.funcParts (t : Ty) : Option (List Ty × Bool × List Ty) :=
  match t.core with
  | .func ins v outs => some (ins, v, outs)
  | _ => none

/-- the parameter type argument `i` is checked against (`numIn` = parameters without receiver) -/
def paramFor (ins : List Ty) (variadic : Bool) (numIn offset i : Nat) : OTy :=
  if variadic && i ≥ numIn - 1 then
    match ins.getLast? with
    | some last => (indexTypeT (some last)).getD none
    | none => none
  else ins[i + offset]?

/-- may an integer literal be retyped to this parameter type?  As written: always. -/
def retypeOk (dt : TDefects) (inT : OTy) : Bool :=
  dt.retypeAnyParam || isNumberT inT

/-- the `Fast` flag of `FunctionNode` -/
def fastCall (fn : Ty) (method : Bool) : Bool :=
  match fn.funcParts with
  | some (ins, v, outs) =>
    fn.kind != .iface && v && ins.length == (if method then 2 else 1) && outs.length == 1 &&
    (match outs with | [o] => o.kind == .iface | _ => false) &&
    (match ins.getLast? with
      | some rest => rest.kind == .slice && (rest.elem?.map Ty.kind) == some .iface
      | none => false)
  | none => false

def isIndexOk (dt : TDefects) (container i : OTy) : Bool :=
  if dt.looseIndex then isIntegerT i || isStringT i
  else
    match container.deref with
    | some u =>
      match u.core with
      | .map k _ => isInterfaceT i || (match i with | some it => assignableTo it k | none => false)
      | .iface _ => isIntegerT i || isStringT i
      | _ => isIntegerT i
    | none => false

/-! ### the visitor -/

/-- the type of a binary operator application (`BinaryNode` after both operands are visited) -/
def binaryType (op : String) (l r : OTy) (loc : Loc) (st : CState) : OTy × CState :=
  let bad : OTy × CState := (ifaceTy, st.fail loc .mismatchBinary)
  if op == "==" || op == "!=" then
    if (isNumberT l && isNumberT r) || isComparableT l r then (boolTy, st) else bad
  else if op == "or" || op == "||" || op == "and" || op == "&&" then
    if isBoolT l && isBoolT r then (boolTy, st) else bad
  else if op == "in" || op == "not in" then
    if (isStringT l && isStructT r) || isMapT r || isArrayT r then (boolTy, st) else bad
  else if op == "<" || op == ">" || op == ">=" || op == "<=" then
    if (isNumberT l && isNumberT r) || (isStringT l && isStringT r) then (boolTy, st) else bad
  else if op == "/" || op == "-" || op == "*" then
    if isNumberT l && isNumberT r then (combinedT l r, st) else bad
  else if op == "**" then
    if isNumberT l && isNumberT r then (floatTy, st) else bad
  else if op == "%" then
    if isIntegerT l && isIntegerT r then (combinedT l r, st) else bad
  else if op == "+" then
    if isNumberT l && isNumberT r then (combinedT l r, st)
    else if isStringT l && isStringT r then (stringTy, st) else bad
  else if op == "contains" || op == "startsWith" || op == "endsWith" then
    if isStringT l && isStringT r then (boolTy, st) else bad
  else if op == ".." then
    if isIntegerT l && isIntegerT r then (some (.slice (.num .int)), st) else bad
  else (ifaceTy, st.fail loc .unknownOperator)

/-- the part of `checkFunc` before the argument loop: either a result at once, or the data the loop needs -/
inductive FuncPlan where
  | done (r : OTy) (st : CState)
  | args (ins : List Ty) (variadic : Bool) (numIn offset : Nat) (out : Ty)

def funcPlan (fn : Ty) (method : Bool) (loc : Loc) (nargs : Nat) (st : CState) : FuncPlan :=
  if fn.kind == .iface then .done ifaceTy st
  else
    match fn.funcParts with
    | none => .done ifaceTy st
    | some (ins, variadic, outs) =>
      match outs with
      | [] => .done ifaceTy (st.fail loc .noResult)
      | [out] =>
        let numIn := if method then ins.length - 1 else ins.length
        if variadic && nargs < numIn - 1 then .done ifaceTy (st.fail loc .notEnough)
        else if !variadic && nargs > numIn then .done ifaceTy (st.fail loc .tooMany)
        else if !variadic && nargs < numIn then .done ifaceTy (st.fail loc .notEnough)
        else .args ins variadic numIn (if method then 1 else 0) out
      | _ => .done ifaceTy (st.fail loc .manyResults)


mutual

/-- `visitor.visit`: annotated node, its type, the state -/
def visit (cfg : CheckCfg) : Node → CState → Node × OTy × CState
  | .nil m, st => (setKd (.nil m) none, none, st)
  | .ident m name nilsafe, st =>
    let n := Node.ident m name nilsafe
    let (t, st) : OTy × CState :=
      match cfg.types with
      | none => (ifaceTy, st)
      | some tbl =>
        match tbl.get? name with
        | some g =>
          if g.ambiguous then (ifaceTy, st.fail m.loc .ambiguousIdent)
          else if g.method && !cfg.dn.methodAsValue then (ifaceTy, st.fail m.loc .methodValue)
          else (g.ty, st)
        | none =>
          if !cfg.strict then ((match cfg.defaultType with | some d => some d | none => ifaceTy), st)
          else if !nilsafe then (ifaceTy, st.fail m.loc .unknownName)
          else (none, st)
    (setKd n t, t, st)
  | .int m v, st => (setKd (.int m v) intTy, intTy, st)
  | .float m b, st => (setKd (.float m b) floatTy, floatTy, st)
  | .bool m b, st => (setKd (.bool m b) boolTy, boolTy, st)
  | .str m s, st => (setKd (.str m s) stringTy, stringTy, st)
  | .const m v, st =>
    -- no case for ConstantNode in `visit`: panic("undefined node type")
    (.const m v, none, st.setPanic "undefined node type (*ast.ConstantNode)")
  | .unary m op x, st =>
    let (x', t, st) := visit cfg x st
    let n := Node.unary m op x'
    let (r, st) : OTy × CState :=
      if op == "!" || op == "not" then
        if isBoolT t then (boolTy, st) else (ifaceTy, st.fail m.loc .mismatchUnary)
      else if op == "+" || op == "-" then
        if isNumberT t then (t, st) else (ifaceTy, st.fail m.loc .mismatchUnary)
      else (ifaceTy, st.fail m.loc .unknownOperator)
    (setKd n r, r, st)
  | .binary m op l r, st =>
    let (l', lt, st) := visit cfg l st
    let (r', rt, st) := visit cfg r st
    let n := Node.binary m op l' r'
    let (t, st) := binaryType op lt rt m.loc st
    (setKd n t, t, st)
  | .matches m hasRe l r, st =>
    let (l', lt, st) := visit cfg l st
    let (r', rt, st) := visit cfg r st
    let n := Node.matches m hasRe l' r'
    let (t, st) : OTy × CState :=
      if isStringT lt && isStringT rt then (boolTy, st) else (ifaceTy, st.fail m.loc .mismatchMatches)
    (setKd n t, t, st)
  | .prop m x name nilsafe, st =>
    let (x', t, st) := visit cfg x st
    let n := Node.prop m x' name nilsafe
    let (r, st) : OTy × CState :=
      match fieldTypeT cfg.dn t name with
      | some ft => (some ft, st)
      | none => if !nilsafe then (ifaceTy, st.fail m.loc .noField) else (none, st)
    (setKd n r, r, st)
  | .index m x i, st =>
    let (x', t, st) := visit cfg x st
    let (i', it, st) := visit cfg i st
    let n := Node.index m x' i'
    let (r, st) : OTy × CState :=
      match indexTypeT t with
      | some et =>
        if !isIndexOk cfg.dt t it then (ifaceTy, st.fail m.loc .badIndex) else (et, st)
      | none => (ifaceTy, st.fail m.loc .notIndexable)
    (setKd n r, r, st)
  | .slice m x from_ to, st =>
    let (x', t, st) := visit cfg x st
    if (indexTypeT t).isSome || isStringT t then
      let (from', fromT, st) := visitOpt cfg from_ st
      -- a non-integer `from` returns at once: `to` is not visited
      match from', fromT with
      | some fnode, some ft =>
        if !isIntegerT ft then
          let st := st.fail fnode.loc .badSliceIndex
          (setKd (.slice m x' from' to) ifaceTy, ifaceTy, st)
        else
          let (to', toT, st) := visitOpt cfg to st
          match to', toT with
          | some tnode, some tt =>
            if !isIntegerT tt then
              let st := st.fail tnode.loc .badSliceIndex
              (setKd (.slice m x' from' to') ifaceTy, ifaceTy, st)
            else (setKd (.slice m x' from' to') t, t, st)
          | _, _ => (setKd (.slice m x' from' to') t, t, st)
      | _, _ =>
        let (to', toT, st) := visitOpt cfg to st
        match to', toT with
        | some tnode, some tt =>
          if !isIntegerT tt then
            let st := st.fail tnode.loc .badSliceIndex
            (setKd (.slice m x' from' to') ifaceTy, ifaceTy, st)
          else (setKd (.slice m x' from' to') t, t, st)
        | _, _ => (setKd (.slice m x' from' to') t, t, st)
    else
      let st := st.fail m.loc .notSliceable
      (setKd (.slice m x' from_ to) ifaceTy, ifaceTy, st)
  | .method m x name args nilsafe, st =>
    let (x', t, st) := visit cfg x st
    match (methodTypeT cfg.dn t name).bind fun fm => (isFuncType (some fm.1)).map fun fn => (fn, fm.2) with
    | some (fn, isMethod) =>
      match funcPlan fn isMethod m.loc args.length st with
      | .done r st => (setKd (.method m x' name args nilsafe) r, r, st)
      | .args ins variadic numIn offset out =>
        let (args', ok, st) := checkArgs cfg ins variadic numIn offset 0 args st
        let r : OTy := if ok then some out else ifaceTy
        (setKd (.method m x' name args' nilsafe) r, r, st)
    | none =>
      let (r, st) : OTy × CState :=
        if !nilsafe then (ifaceTy, st.fail m.loc .noMethod) else (none, st)
      (setKd (.method m x' name args nilsafe) r, r, st)
  | .func m name args fast, st =>
    match (cfg.types.bind fun tbl => tbl.get? name).bind fun g => (isFuncType g.ty).map fun fn => (fn, g.method) with
    | some (fn, isMethod) =>
      let fast' := fastCall fn isMethod
      match funcPlan fn isMethod m.loc args.length st with
      | .done r st => (setKd (.func m name args fast') r, r, st)
      | .args ins variadic numIn offset out =>
        let (args', ok, st) := checkArgs cfg ins variadic numIn offset 0 args st
        let r : OTy := if ok then some out else ifaceTy
        (setKd (.func m name args' fast') r, r, st)
    | none =>
      let (r, st) : OTy × CState :=
        if !cfg.strict then ((match cfg.defaultType with | some d => some d | none => ifaceTy), st)
        else (ifaceTy, st.fail m.loc .unknownFunc)
      (setKd (.func m name args fast) r, r, st)
  | .builtin m name args, st =>
    match name, args with
    | "len", a :: rest =>
      let (a', pt, st) := visit cfg a st
      let (r, st) : OTy × CState :=
        if isArrayT pt || isMapT pt || isStringT pt then (intTy, st) else (ifaceTy, st.fail m.loc .badLen)
      (setKd (.builtin m name (a' :: rest)) r, r, st)
    | bname, a :: c :: rest =>
      if bname == "all" || bname == "none" || bname == "any" || bname == "one" || bname == "filter" ||
         bname == "map" || bname == "count" then
        let (a', coll, st) := visit cfg a st
        if !isArrayT coll then
          let st := st.fail a'.loc .notArray
          (setKd (.builtin m name (a' :: c :: rest)) ifaceTy, ifaceTy, st)
        else
          let st := { st with colls := coll :: st.colls }
          let (c', closure, st) := visit cfg c st
          let st := { st with colls := st.colls.tail }
          let n := Node.builtin m name (a' :: c' :: rest)
          let shape : Option Ty :=    -- the closure's result type when it has the expected shape
            match closure with
            | some (.func [inT] false [o]) => if inT.kind == .iface then some o else none
            | _ => none
          let (r, st) : OTy × CState :=
            match shape with
            | some o =>
              if bname == "map" then (some (.slice o), st)
              else if !isBoolT (some o) then (ifaceTy, st.fail c'.loc .closureNotBool)
              else if bname == "filter" then
                (if isInterfaceT coll then arrayTy else
                  (match coll with | some ct => (ct.elem?.map Ty.slice) | none => none), st)
              else if bname == "count" then (intTy, st)
              else (boolTy, st)
            | none => (ifaceTy, st.fail c'.loc .badClosure)
          (setKd n r, r, st)
      else
        let st := st.fail m.loc .unknownBuiltin
        (setKd (.builtin m name args) ifaceTy, ifaceTy, st)
    | _, _ =>
      let st := st.fail m.loc .unknownBuiltin
      (setKd (.builtin m name args) ifaceTy, ifaceTy, st)
  | .closure m x, st =>
    let (x', t, st) := visit cfg x st
    match t with
    | some bt =>
      let r : OTy := some (.func [interfaceType] false [bt])
      (setKd (.closure m x') r, r, st)
    | none =>
      -- reflect.FuncOf with a nil result type panics
      (.closure m x', none, st.setPanic "reflect.FuncOf: nil result type")
  | .pointer m, st =>
    let (r, st) : OTy × CState :=
      match st.colls with
      | [] => (ifaceTy, st.fail m.loc .pointerOutside)
      | coll :: _ =>
        match indexTypeT coll with
        | some et => (et, st)
        | none => (ifaceTy, st.fail m.loc .pointerNotArray)
    (setKd (.pointer m) r, r, st)
  | .cond m c a b, st =>
    let (c', ct, st) := visit cfg c st
    if !isBoolT ct then
      -- returns without visiting the branches
      let st := st.fail c'.loc .nonBoolCond
      (setKd (.cond m c' a b) ifaceTy, ifaceTy, st)
    else
      let (a', t1, st) := visit cfg a st
      let (b', t2, st) := visit cfg b st
      let r : OTy :=
        match t1, t2 with
        | none, some y => some y
        | some x, none => some x
        | none, none => none
        | some x, some y => if assignableTo x y then some x else ifaceTy
      (setKd (.cond m c' a' b') r, r, st)
  | .array m xs, st =>
    let (xs', _, st) := visitList cfg xs st
    (setKd (.array m xs') arrayTy, arrayTy, st)
  | .map m ps, st =>
    let (ps', _, st) := visitList cfg ps st
    (setKd (.map m ps') mapTy, mapTy, st)
  | .pair m k v, st =>
    let (k', _, st) := visit cfg k st
    let (v', _, st) := visit cfg v st
    (setKd (.pair m k' v') none, none, st)

def visitOpt (cfg : CheckCfg) : Option Node → CState → Option Node × OTy × CState
  | none, st => (none, none, st)
  | some n, st =>
    let (n', t, st) := visit cfg n st
    (some n', t, st)

def visitList (cfg : CheckCfg) : List Node → CState → List Node × List OTy × CState
  | [], st => ([], [], st)
  | n :: ns, st =>
    let (n', t, st) := visit cfg n st
    let (ns', ts, st) := visitList cfg ns st
    (n' :: ns', t :: ts, st)

/-- the argument loop of `checkFunc`: `i` is the index of the next argument; stops at the first
argument that does not fit (the remaining ones are not visited) -/
def checkArgs (cfg : CheckCfg) (ins : List Ty) (variadic : Bool) (numIn offset : Nat) :
    Nat → List Node → CState → List Node × Bool × CState
  | _, [], st => ([], true, st)
  | i, a :: rest, st =>
    let (a', t0, st) := visit cfg a st
    let inT := paramFor ins variadic numIn offset i
    let retype := isIntegerOrArith a && retypeOk cfg.dt inT
    let t : OTy := if retype then inT else t0
    let a'' := if retype then setTypeForIntegers inT.kind a' else a'
    match t with
    | none =>
      let (rest', ok, st) := checkArgs cfg ins variadic numIn offset (i + 1) rest st
      (a'' :: rest', ok, st)
    | some tt =>
      let fits : Bool :=
        (match inT with | some it => assignableTo tt it | none => false) || tt.kind == .iface
      if !fits then (a'' :: rest, false, st.fail a''.loc .badArgument)
      else
        let (rest', ok, st) := checkArgs cfg ins variadic numIn offset (i + 1) rest st
        (a'' :: rest', ok, st)

end

/-- outcome of `checker.Check` -/
inductive CheckResult where
  | ok (n : Node) (t : OTy)
  | error (loc : Option Loc) (c : CheckErrClass) (n : Node)
  | panic (msg : String)

/-- `checker.Check`: visit, then the located error and the `expect` test (as written at the snapshot the
`expect` test came first) -/
def check (cfg : CheckCfg) (n : Node) : CheckResult :=
  let (n', t, st) := visit cfg n {}
  match st.panic with
  | some msg => .panic msg
  | none =>
    let expectErr : Option (Option String) :=     -- some none = mismatch error, some (some m) = panic
      match cfg.expect with
      | .none => none
      | .int64 | .float64 => if !isNumberT t then some none else none
      | .bool =>
        match t with
        | none => if cfg.dt.nilKindPanic then some (some "nil Type.Kind()") else some none
        | some tt => if tt.kind != .bool then some none else none
    let located : Option CheckResult := st.err.map fun e => .error (some e.1) e.2 n'
    let expected : Option CheckResult :=
      match expectErr with
      | some (some m) => some (.panic m)
      | some none => some (.error none .expected n')
      | none => none
    match (if cfg.dt.expectFirst then expected.orElse (fun _ => located) else located.orElse (fun _ => expected)) with
    | some r => r
    | none => .ok n' t

end ExprModel
