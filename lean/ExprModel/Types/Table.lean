import ExprModel.Types.Ty
/-
Name resolution: the type checker's side (conf/types_table.go, checker/types.go `fieldType`/`methodType`),
the run-time side (vm/runtime.go `fetch`/`FetchFn`, which go through `reflect`), the Spec of what
`reflect` / Go itself resolves (the selector rule), and docgen's top-level variable set.

Go maps are association lists with unique keys here (`Table`); wherever the code ranges over a Go map the
model takes the iteration order as a parameter `σ : Table → Table` (a permutation of the entries), and
`Proofs/TableOrder.lean` shows the result does not depend on it.
-/
namespace ExprModel

/-- `conf.Tag` -/
structure Tag where
  ty : Option Ty := none
  method : Bool := false
  ambiguous : Bool := false
  deriving DecidableEq, Inhabited

/-- `conf.TypesTable` (a Go map): association list, keys unique (see `Table.set`) -/
abbrev Table := List (String × Tag)

namespace Table

def get? : Table → String → Option Tag
  | [], _ => none
  | (k, v) :: r, n => if k = n then some v else get? r n

/-- `types[n] = g` -/
def set (t : Table) (n : String) (g : Tag) : Table :=
  (n, g) :: t.filter (fun e => decide (e.1 ≠ n))

def keys (t : Table) : List String := t.map (·.1)

end Table

/-- Places where the code deviated from the property.  `asWas` is the code at the pinned snapshot
(before the `fix:` commits 08b47a6, 56f80b7, 64cd2bb, 2d52c5a in /repo); `asIs` mirrors /repo's current
HEAD, in which every one of these is repaired.  The tie (harness/c16.go) is against `asIs`. -/
structure NDefects where
  /-- conf.FieldsFromStruct resolves clashes between a struct's own fields and the fields of its
      embedded structs by *declaration order* (merge loop) instead of Go's depth rule -/
  declOrderMerge : Bool
  /-- unexported fields are entered in the types table and accepted by `fieldType`/`methodType` -/
  unexportedAccepted : Bool
  /-- checker `fieldType`/`methodType` search embedded structs depth-first, first hit wins -/
  depthFirstMember : Bool
  /-- `IdentifierNode` accepts a method of the environment as a plain value (the VM cannot fetch it) -/
  methodAsValue : Bool
  /-- `FetchFn` calls an interface-kinded struct field as it is and unwraps map values unconditionally:
      a func held in an `interface{}` field, or in a map with a func element type, cannot be called -/
  fetchFnNoUnwrap : Bool
  /-- `fetch` indexes maps with the plain string: a defined string key type (`map[MyStr]T`) fails,
      although `CreateTypesTable` accepts such keys (it tests the kind only) -/
  mapKeyExact : Bool
  /-- checker `fieldType`/`methodType` accept a member of a map whatever its key type -/
  mapMemberAnyKey : Bool
  /-- `fetch` follows one pointer level, and only towards a struct, while the checker's `fieldType`
      dereferences every level (`**struct`, `*map` members are accepted but not fetchable) -/
  fetchDerefOnce : Bool
  /-- `FetchFn` returns a member of type `*func(…)` as the pointer it is (`reflect: call of
      reflect.Value.Call on ptr Value`), although `isFuncType` dereferences and the checker accepts the call;
      repaired by 547c103 (`derefFn`) -/
  ptrFuncNotFetched : Bool
  /-- `FetchFn` unwraps an interface only at the top: a member of type `*interface{}` holding a function
      is accepted (`isFuncType` dereferences to the interface) but `derefFn` stops at the interface value
      (`reflect: call of reflect.Value.Call on interface Value`); repaired by 72281b1 -/
  ptrIfaceFuncNotFetched : Bool
  deriving DecidableEq, Repr

def NDefects.asWas : NDefects := ⟨true, true, true, true, true, true, true, true, true, true⟩
/-- the documented behaviour: no deviation -/
def NDefects.repaired : NDefects := ⟨false, false, false, false, false, false, false, false, false, false⟩
def NDefects.asIs : NDefects := ⟨false, false, false, false, false, false, false, false, false, false⟩

/-! ## Spec: what Go / `reflect` resolve (the selector rule)

`x.f` denotes the field or method `f` at the shallowest depth of the type of `x`, provided there is
exactly one such `f` at that depth; depth 0 holds the fields and methods declared on the type itself,
depth `d+1` those of the embedded fields of the types at depth `d` (through one pointer).
`reflect.Type.FieldByName` applies the same rule to fields only; the method set of a type
(`reflect.Type.NumMethod/Method/MethodByName`) consists of the methods for which the selector is legal,
a pointer-receiver method only when the path to it is addressable (pointer at the root or an embedded
pointer on the path).  Validated against `reflect` by the harness on every run. -/

inductive Resolution (α : Type) where
  | notFound
  | ambiguous
  | found (c : α)
  deriving DecidableEq, Repr

/-- the struct an embedded field `E` / `*E` contributes to the next level -/
def embTarget (f : Field) : Ty :=
  match f.ty.core with
  | .ptr u => u
  | _ => f.ty

/-- … together with addressability: going through `*E` makes the path addressable -/
def embStep (a : Bool) (f : Field) : Ty × Bool := (embTarget f, a || f.ty.isPtr)

/-- the embedded (anonymous) fields of a struct type -/
def Ty.embedded (t : Ty) : List Field := t.fields.filter (·.anon)

/-- the types whose fields are at depth `d` of `t` -/
def levelTys : Nat → Ty → List Ty
  | 0, t => [t]
  | d + 1, t => t.embedded.flatMap fun f => levelTys d (embTarget f)

/-- the same with addressability (needed for pointer-receiver methods) -/
def levelTypes : Nat → Ty × Bool → List (Ty × Bool)
  | 0, ta => [ta]
  | d + 1, ta => ta.1.embedded.flatMap fun f => levelTypes d (embStep ta.2 f)

def levelFields (d : Nat) (t : Ty) : List Field :=
  (levelTys d t).flatMap Ty.fields

/-- shallowest level with a candidate decides; `n` levels are inspected starting at `d` -/
def searchLevels {α : Type} (cands : Nat → List α) : Nat → Nat → Resolution α
  | _, 0 => .notFound
  | d, n + 1 =>
    match cands d with
    | [] => searchLevels cands (d + 1) n
    | [c] => .found c
    | _ => .ambiguous

/-- `reflect.Type.FieldByName` on a struct type (Spec) -/
def reflField (t : Ty) (name : String) : Resolution Field :=
  searchLevels (fun d => (levelFields d t).filter (fun f => f.name = name)) 0 (t.depth + 1)

/-- a member found by the selector search -/
structure Cand where
  name : String
  ty : Ty            -- field type / method signature without receiver
  isMethod : Bool
  exported : Bool
  ptrRecv : Bool
  addr : Bool
  deriving DecidableEq

def membersOf (ua : Ty × Bool) : List Cand :=
  ua.1.fields.map (fun f => ⟨f.name, f.ty, false, f.exported, false, ua.2⟩) ++
  ua.1.declMethods.map (fun m => ⟨m.name, m.sig, true, true, m.ptrRecv, ua.2⟩)

def levelMembers (d : Nat) (ta : Ty × Bool) : List Cand :=
  (levelTypes d ta).flatMap membersOf

/-- Go's selector rule over fields and methods -/
def goSelect (ta : Ty × Bool) (name : String) : Resolution Cand :=
  searchLevels (fun d => (levelMembers d ta).filter (fun c => c.name = name)) 0 (ta.1.depth + 1)

def dedupStr : List String → List String
  | [] => []
  | x :: xs => if xs.contains x then dedupStr xs else x :: dedupStr xs

def allMethodNames (ta : Ty × Bool) : List String :=
  dedupStr ((List.range (ta.1.depth + 1)).flatMap fun d =>
    ((levelMembers d ta).filter (·.isMethod)).map (·.name))

/-- `reflect.Method.Type`: for a non-interface type the receiver is the first parameter -/
def withRecv (recv : Ty) : Ty → Ty
  | .func ins v outs => .func (recv :: ins) v outs
  | t => t

/-- the method set of `t` as `reflect` lists it: (name, Method.Type) -/
def methodSet (t : Ty) : List (String × Ty) :=
  match t.core with
  | .iface ms => ms.map fun m => (m.name, m.sig)
  | _ =>
    let start : Ty × Bool := match t with
      | .ptr u => (u, true)
      | _ => (t, false)
    (allMethodNames start).filterMap fun n =>
      match goSelect start n with
      | .found c => if c.isMethod && (!c.ptrRecv || c.addr) then some (n, withRecv t c.ty) else none
      | _ => none

def methodByName (t : Ty) (name : String) : Option Ty :=
  ((methodSet t).find? (fun e => e.1 = name)).map (·.2)

/-! ## conf/types_table.go as written -/

/-- the merge loop `for name, typ := range FieldsFromStruct(f.Type)` -/
def mergeEmbedded (types emb : Table) : Table :=
  emb.foldl (fun acc e =>
    if (acc.get? e.1).isSome then acc.set e.1 { ambiguous := true } else acc.set e.1 e.2) types

/-- the loop over the fields of one struct; `rec` is the recursive call, `σ` the map iteration order -/
def fieldsLoop (d : NDefects) (σ : Table → Table) (rec : Ty → Table) : List Field → Table → Table
  | [], acc => acc
  | f :: fs, acc =>
    let acc := if f.anon then mergeEmbedded acc (σ (rec f.ty)) else acc
    let acc := if d.unexportedAccepted || f.exported then acc.set f.name { ty := some f.ty } else acc
    fieldsLoop d σ rec fs acc

/-- `FieldsFromStruct` as written (merge loop); fuel bounds the nesting of embedded structs -/
def fieldsRaw (d : NDefects) (σ : Table → Table) : Nat → Ty → Table
  | 0, _ => []
  | n + 1, t =>
    match t.deref.core with
    | .struct fs => fieldsLoop d σ (fieldsRaw d σ n) fs []
    | _ => []

/-- the tag the repaired `FieldsFromStruct` enters for a collected name: what `reflect`'s
`FieldByName` says (the proposed patch) -/
def resolvedTag (d : NDefects) (t : Ty) (n : String) : Option Tag :=
  match reflField t n with
  | .found f => if d.unexportedAccepted || f.exported then some { ty := some f.ty } else none
  | .ambiguous => some { ambiguous := true }
  | .notFound => none

/-- `conf.FieldsFromStruct`; with `declOrderMerge` repaired every collected name is re-resolved by
`reflect`'s `FieldByName` -/
def fieldsFromStruct (d : NDefects) (σ : Table → Table) (t : Ty) : Table :=
  let raw := fieldsRaw d σ (t.depth + 1) t
  if d.declOrderMerge then raw else
    raw.keys.filterMap fun n => (resolvedTag d t.deref n).map fun g => (n, g)

/-- the environment as `CreateTypesTable` sees it: its type, and for a map value the keys of string
kind with the dynamic types of the values -/
structure Env where
  ty : Option Ty
  entries : List (String × Option Ty) := []

def Ty.derefOnce (t : Ty) : Ty := match t.core with | .ptr u => u | _ => t

def addMethods (t : Ty) (tbl : Table) : Table :=
  (methodSet t).foldl (fun acc m => acc.set m.1 { ty := some m.2, method := true }) tbl

/-- `conf.CreateTypesTable`; `none` is the nil table of a nil environment -/
def createTypesTable (d : NDefects) (σ : Table → Table) (e : Env) : Option Table :=
  match e.ty with
  | none => none
  | some t =>
    let dd := t.derefOnce
    match dd.kind with
    | .struct => some (addMethods t (fieldsFromStruct d σ dd))
    | .map =>
      some (addMethods t (e.entries.foldl (fun acc kv => acc.set kv.1 { ty := kv.2 }) []))
    | _ => some []

/-! ## the checker's use of the table and of member types -/

inductive NameErr where
  | ambiguous | unknown | methodValue
  deriving DecidableEq, Repr

/-- `IdentifierNode` in strict mode (what `expr.Env` sets), not nil-safe: the type or the error -/
def identType (d : NDefects) (tbl : Table) (name : String) : Except NameErr (Option Ty) :=
  match tbl.get? name with
  | some g =>
    if g.ambiguous then .error .ambiguous
    else if g.method && !d.methodAsValue then .error .methodValue
    else .ok g.ty
  | none => .error .unknown

def interfaceType : Ty := .iface []

/-- `isFuncType` -/
def isFuncType (t : Option Ty) : Option Ty :=
  match t with
  | none => none
  | some t =>
    match t.deref.kind with
    | .iface => some interfaceType
    | .func => some t.deref
    | _ => none

/-- `FunctionNode`: the callable type and whether it is a method, when the name is accepted -/
def funcTarget (tbl : Table) (name : String) : Option (Ty × Bool) :=
  match tbl.get? name with
  | some g => (isFuncType g.ty).map fun fn => (fn, g.method)
  | none => none

def firstSome {α β : Type} (f : α → Option β) : List α → Option β
  | [] => none
  | x :: xs => match f x with | some y => some y | none => firstSome f xs

/-- can the string constant be used as a key of a map with this key type?
`MapIndex(reflect.ValueOf(name))` needs `string` to be assignable to the key type; the repaired
`fetch` converts the constant to a defined string key type. -/
def stringKeyOk (d : NDefects) (k : Ty) : Bool :=
  k == .string || k.isEmptyIface || (!d.mapKeyExact && k.kind == .string)

def Ty.mapKey? (t : Ty) : Option Ty := match t.core with | .map k _ => some k | _ => none

/-- the value `fetch` looks into: as written, through one pointer when it points to a struct;
repaired, through every pointer level (as the checker assumes) -/
def Ty.fetchBase (d : NDefects) (t : Ty) : Ty :=
  if d.fetchDerefOnce then
    (if t.kind == .ptr && t.derefOnce.kind == .struct then t.derefOnce else t)
  else t.deref

/-- `fieldType` of checker/types.go -/
def fieldType (d : NDefects) : Nat → Ty → String → Option Ty
  | 0, _, _ => none
  | n + 1, t, name =>
    let t := t.deref
    match t.kind with
    | .iface => some interfaceType
    | .map =>
      if d.mapMemberAnyKey || (t.mapKey?.map (stringKeyOk d)).getD false then t.elem? else none
    | .struct =>
      if d.depthFirstMember then
        match t.fields.find? (fun f => f.name = name && (d.unexportedAccepted || f.exported)) with
        | some f => some f.ty
        | none => firstSome (fun f => fieldType d n f.ty name) (t.fields.filter (·.anon))
      else
        match reflField t name with
        | .found f => if d.unexportedAccepted || f.exported then some f.ty else none
        | _ => none
    | _ => none

/-- `methodType` of checker/types.go: (type, is a method with receiver) -/
def methodType (d : NDefects) : Nat → Ty → String → Option (Ty × Bool)
  | 0, _, _ => none
  | n + 1, t, name =>
    match methodByName t name with
    | some m => some (m, t.kind != .iface)
    | none =>
      let dd := t.derefOnce
      match dd.kind with
      | .iface => some (interfaceType, false)
      | .map =>
        if d.mapMemberAnyKey || (dd.mapKey?.map (stringKeyOk d)).getD false then
          dd.elem?.map fun e => (e, false)
        else none
      | .struct =>
        if d.depthFirstMember then
          match dd.fields.find? (fun f => !f.anon && f.name = name && (d.unexportedAccepted || f.exported)) with
          | some f => some (f.ty, false)
          | none => firstSome (fun f => methodType d n f.ty name) (dd.fields.filter (·.anon))
        else
          match reflField dd name with
          | .found f => if d.unexportedAccepted || f.exported then some (f.ty, false) else none
          | _ => none
      | _ => none

/-! ## run time: vm/runtime.go `fetch` / `FetchFn` at the level of types

What a run on a *fully populated* value of the given type does with a name: `some τ` — a value held in
a slot of static type `τ` is produced; `none` — the run fails ("cannot fetch …", a reflect panic). -/

/-- `fetch(from, name)` for a non-environment value of static type `t` -/
def fetchTy (d : NDefects) (t : Ty) (name : String) : Option Ty :=
  let t := t.fetchBase d
  match t.core with
  | .map k v => if stringKeyOk d k then some v else none
  | .struct _ =>
    match reflField t name with
    | .found f => if f.exported then some f.ty else none
    | _ => none
  | _ => none

/-- top-level identifier: `OpFetchMap` for a `map[string]interface{}` environment, `fetch(env, name)` otherwise -/
def fetchEnv (d : NDefects) (e : Env) (name : String) : Option (Option Ty) :=
  match e.ty with
  | none => none
  | some t =>
    if t == .map .string interfaceType then
      match e.entries.find? (fun kv => kv.1 = name) with
      | some kv => some kv.2
      | none => some none
    else
      match (t.fetchBase d).core with
      | .map k v =>
        if stringKeyOk d k then
          match e.entries.find? (fun kv => kv.1 = name) with
          | some kv => some kv.2
          | none => some (some v)
        else none
      | _ => (fetchTy d t name).map some

/-- `FetchFn(from, name)` followed by the call: the callable's type and whether it came from the method
set; `none` — the run fails -/
def fetchFnTy (d : NDefects) (t : Ty) (entries : List (String × Option Ty)) (name : String) :
    Option (Ty × Bool) :=
  match methodByName t name with
  | some m => some (m, true)
  | none =>
    let dd := t.derefOnce
    match dd.core with
    | .map k v =>
      if stringKeyOk d k then
        if v.kind == .iface then
          match entries.find? (fun kv => kv.1 = name) with
          | some (_, some ft) => if d.ptrFuncNotFetched && ft.isPtr && ft.deref.kind == .func then none else some (ft, false)
          | _ => none
        else if d.fetchFnNoUnwrap then none   -- `value.Elem()` on a non-interface value panics
        else if d.ptrFuncNotFetched && v.isPtr && v.deref.kind == .func then none
        else some (v, false)
      else none
    | .struct _ =>
      match reflField dd name with
      | .found f =>
        if !f.exported then none                    -- "Call using value obtained using unexported field"
        else if f.ty.kind == .func then some (f.ty, false)
        else if !d.ptrFuncNotFetched && f.ty.deref.kind == .func then some (f.ty, false)   -- `derefFn`
        else if (f.ty.kind == .iface || (!d.ptrIfaceFuncNotFetched && f.ty.deref.kind == .iface)) && !d.fetchFnNoUnwrap then
          some (f.ty, false)
        else none                                   -- "Call on interface Value"
      | _ => none
    | _ => none

/-! ## docgen.CreateDoc: the top-level variable set -/

def docOperators : List String := ["matches", "contains", "startsWith", "endsWith"]
def docBuiltins : List String :=
  ["true", "false", "len", "all", "none", "any", "one", "filter", "map", "count"]

def docVars (tbl : Option Table) : List String :=
  (((tbl.getD []).filter (fun e => !e.2.ambiguous)).map (·.1)) ++ docOperators ++ docBuiltins

end ExprModel
