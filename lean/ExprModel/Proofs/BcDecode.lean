import ExprModel.Code.WfStatic
/-
C05, part 1: linear decoding inverts encoding for instructions whose operands fit 16 bits.
-/
namespace ExprModel.Bc

theorem instr_size_pos (i : Instr) : 0 < i.size := by
  unfold Instr.size; split <;> omega

theorem instr_size_le_three (i : Instr) : i.size ≤ 3 := by
  unfold Instr.size; split <;> omega

theorem instr_encode_length (i : Instr) : i.encode.length = i.size := by
  unfold Instr.encode Instr.size; split <;> simp

@[simp] theorem codeSize_nil : codeSize [] = 0 := rfl
@[simp] theorem codeSize_cons (i : Instr) (is : List Instr) : codeSize (i :: is) = i.size + codeSize is := rfl

@[simp] theorem codeSize_append (a b : List Instr) : codeSize (a ++ b) = codeSize a + codeSize b := by
  induction a with
  | nil => simp
  | cons x xs ih => simp [ih]; omega

@[simp] theorem encodeAll_nil : encodeAll [] = [] := rfl
@[simp] theorem encodeAll_cons (i : Instr) (is : List Instr) : encodeAll (i :: is) = i.encode ++ encodeAll is := rfl

theorem encodeAll_append (a b : List Instr) : encodeAll (a ++ b) = encodeAll a ++ encodeAll b := by
  induction a with
  | nil => simp
  | cons x xs ih => simp [ih]

/-- the encoded length is the sum of the instruction sizes -/
theorem codeSize_eq_length (is : List Instr) : (encodeAll is).length = codeSize is := by
  induction is with
  | nil => rfl
  | cons i is ih => simp [instr_encode_length, ih]

theorem length_le_codeSize (is : List Instr) : is.length ≤ codeSize is := by
  induction is with
  | nil => simp
  | cons i is ih => have := instr_size_pos i; simp; omega

/-- operands as the code can store them: 16 bits -/
def FitsU16 (is : List Instr) : Prop := ∀ i ∈ is, i.arg < 65536

/-- an instruction without operand is encoded with `arg` dropped: decoding gives `arg = 0` -/
def ArgCanon (is : List Instr) : Prop := ∀ i ∈ is, i.op.hasArg = false → i.arg = 0

theorem decode_encode_fuel (is : List Instr) (hfit : FitsU16 is) (hcan : ArgCanon is) :
    ∀ fuel, is.length ≤ fuel → decodeAll fuel (encodeAll is) = some is := by
  induction is with
  | nil => intro fuel _; cases fuel <;> rfl
  | cons i is ih =>
    intro fuel hfuel
    cases fuel with
    | zero => simp at hfuel
    | succ f =>
      have hi : i.arg < 65536 := hfit i (by simp)
      have ih' := ih (fun j hj => hfit j (by simp [hj])) (fun j hj => hcan j (by simp [hj])) f
        (by simp at hfuel; omega)
      rcases i with ⟨op, arg⟩
      by_cases ha : op.hasArg = true
      · simp only [encodeAll_cons, Instr.encode, ha, if_true, List.cons_append, List.nil_append, decodeAll,
          Op.ofCode_code]
        have h1 : arg % 256 < 256 := Nat.mod_lt _ (by omega)
        have h2 : arg / 256 % 256 < 256 := Nat.mod_lt _ (by omega)
        simp only [h1, h2, and_self, if_true, ih', Option.map_some]
        have : arg % 256 + 256 * (arg / 256 % 256) = arg := by simp at hi; omega
        rw [this]
      · have ha' : op.hasArg = false := by simpa using ha
        have h0 : arg = 0 := hcan ⟨op, arg⟩ (by simp) ha'
        subst h0
        simp only [encodeAll_cons, Instr.encode, ha']
        show decodeAll (f + 1) (op.code :: encodeAll is) = _
        rw [decodeAll]
        simp only [Op.ofCode_code, ha', ih', Option.map_some]
        simp

/-- `decode ∘ encode = id` with the fuel the checker uses (the byte length) -/
theorem decode_encode (is : List Instr) (hfit : FitsU16 is) (hcan : ArgCanon is) :
    decodeAll (encodeAll is).length (encodeAll is) = some is :=
  decode_encode_fuel is hfit hcan _ (by rw [codeSize_eq_length]; exact length_le_codeSize is)

end ExprModel.Bc
