import ExprModel.Proofs.SourcePos
import ExprModel.Proofs.LexLoop
/-
C13 bridge 1: the lexer model's position function (`Lex.posOf pre = foldl Loc.adv ⟨1,0⟩ pre`, C12) is the
source model's `Src.posOf src k` for `k = |pre|`.
-/
namespace ExprModel.Src
open ExprModel

theorem posOfAux_eq_advLoc (pre rest : List Char) (l c : Nat) :
    posOfAux (pre ++ rest) pre.length l c = ((Lex.advLoc ⟨l, c⟩ pre).line, (Lex.advLoc ⟨l, c⟩ pre).col) := by
  induction pre generalizing l c with
  | nil => simp [posOfAux, Lex.advLoc]
  | cons a as ih =>
    simp only [List.cons_append, List.length_cons, posOfAux, Lex.advLoc, List.foldl_cons, Lex.Loc.adv]
    by_cases h : a = '\n'
    · simp only [h, if_true]; exact ih (l + 1) 0
    · simp only [h, if_false]; exact ih l (c + 1)

theorem lexPosOf_eq (pre rest : List Char) : Lex.posOf pre = posOf (pre ++ rest) pre.length := by
  unfold posOf Lex.posOf
  rw [posOfAux_eq_advLoc]

end ExprModel.Src
