import ExprModel.Proofs.BcPool
/-
C05, part 4: `Frag consts code` — the well-formedness invariant of a compiled fragment — and its closure
under concatenation and under the emit schemes of compiler.go (and/or, ?:, emitCond, emitLoop, the
early-exit loops of all/none/any).
-/
namespace ExprModel.Bc

def instrs (xs : List LInstr) : List Instr := xs.map (·.instr)

@[simp] theorem instrs_nil : instrs [] = [] := rfl
@[simp] theorem instrs_cons (x : LInstr) (xs : List LInstr) : instrs (x :: xs) = x.instr :: instrs xs := rfl
@[simp] theorem instrs_append (a b : List LInstr) : instrs (a ++ b) = instrs a ++ instrs b := by simp [instrs]
@[simp] theorem li_instr (l : Loc) (op : Op) (arg : Nat) : (li l op arg).instr = ⟨op, arg⟩ := rfl
theorem lsize_eq (xs : List LInstr) : lsize xs = codeSize (instrs xs) := rfl

/-- an instruction without operand carries `arg = 0` (what decoding its single byte gives back) -/
def canonOk (i : Instr) : Bool := i.op.hasArg || i.arg == 0

structure Frag (consts : Array Val) (code : List LInstr) : Prop where
  args : (instrs code).all (argOk consts) = true
  canon : (instrs code).all canonOk = true
  jumps : JumpsClosed (instrs code)
  nest : NestBal (instrs code)

theorem argOk_mono {c c' : Array Val} (e : PoolExt c c') (i : Instr) (h : argOk c i = true) : argOk c' i = true := by
  unfold argOk at *
  split
  · rename_i hc; simp only [hc] at h
    split at h
    · rename_i v hv; simp [e _ _ hv, h]
    · cases h
  · rename_i hc; simpa [hc] using h
  · rfl

theorem all_argOk_mono {c c' : Array Val} (e : PoolExt c c') (is : List Instr) (h : is.all (argOk c) = true) :
    is.all (argOk c') = true := by
  simp only [List.all_eq_true] at *
  exact fun i hi => argOk_mono e i (h i hi)

theorem Frag.mono {c c' : Array Val} {code : List LInstr} (h : Frag c code) (e : PoolExt c c') : Frag c' code :=
  ⟨all_argOk_mono e _ h.args, h.canon, h.jumps, h.nest⟩

theorem Frag.nil (c : Array Val) : Frag c [] := ⟨rfl, rfl, rfl, NestBal.nil⟩

theorem JumpsClosed.append {a b : List Instr} (ha : JumpsClosed a) (hb : JumpsClosed b) : JumpsClosed (a ++ b) := by
  unfold JumpsClosed
  rw [jumpsOk_append, Bool.and_eq_true]
  exact ⟨ha.place (fun t ht => by bnd_tac), hb.place (fun t ht => by bnd_tac)⟩

theorem Frag.append {c : Array Val} {a b : List LInstr} (ha : Frag c a) (hb : Frag c b) : Frag c (a ++ b) :=
  ⟨by simp [ha.args, hb.args], by simp [ha.canon, hb.canon], by simpa using ha.jumps.append hb.jumps,
   by simpa using ha.nest.append hb.nest⟩

/-- a single instruction that is neither a jump nor Begin/End -/
theorem Frag.one {c : Array Val} (l : Loc) (op : Op) (arg : Nat) (ha : argOk c ⟨op, arg⟩ = true)
    (hc : canonOk ⟨op, arg⟩ = true) (hj : op.isJump = false) (h1 : op ≠ .begin_) (h2 : op ≠ .end_) :
    Frag c [li l op arg] := by
  refine ⟨by simp [ha], by simp [hc], ?_, by simpa using NestBal.plain (i := ⟨op, arg⟩) h1 h2⟩
  unfold JumpsClosed
  simp only [instrs_cons, li_instr, instrs_nil, jumpsOk_cons, jumpsOk_nil, Bool.and_true]
  unfold jumpOk
  simp only [Op.isJump, Bool.or_eq_false_iff, beq_eq_false_iff_ne, ne_eq] at hj
  split
  · rename_i h; exact absurd h hj.1
  · rename_i h; exact absurd h hj.2
  · rfl

/-! ### operand facts for literal instructions -/

theorem argOk_str {c : Array Val} {k : Nat} (h : StrAt c k) (op : Op) (ho : op.argClass = .constant)
    (hc : op.constClass = .str) : argOk c ⟨op, k⟩ = true := by
  obtain ⟨s, hs⟩ := h
  simp [argOk, ho, hs, hc, ConstClass.admits]

theorem argOk_call {c : Array Val} {k : Nat} (h : CallAt c k) (op : Op) (ho : op.argClass = .constant)
    (hc : op.constClass = .call) : argOk c ⟨op, k⟩ = true := by
  obtain ⟨n, s, hs⟩ := h
  simp [argOk, ho, hs, hc, ConstClass.admits]

theorem argOk_re {c : Array Val} {k : Nat} (h : ReAt c k) : argOk c ⟨.matchesConst, k⟩ = true := by
  obtain ⟨s, hs⟩ := h
  simp [argOk, Op.argClass, Op.hasArg, hs, Op.constClass, ConstClass.admits]

theorem argOk_push {c : Array Val} {k : Nat} (h : AnyAt c k) : argOk c ⟨.push, k⟩ = true := by
  obtain ⟨s, hs⟩ := h
  simp [argOk, Op.argClass, Op.hasArg, hs, Op.constClass, ConstClass.admits]

theorem argOk_noarg (c : Array Val) (op : Op) (a : Nat) (h : op.hasArg = false) : argOk c ⟨op, a⟩ = true := by
  have : op.argClass = .none := by cases op <;> simp_all [Op.argClass, Op.hasArg]
  simp [argOk, this]

theorem argOk_jump (c : Array Val) (op : Op) (a : Nat) (h : op.isJump = true) : argOk c ⟨op, a⟩ = true := by
  simp only [Op.isJump, Bool.or_eq_true, beq_iff_eq] at h
  rcases h with h | h <;> simp [argOk, h]

/-- a single operand-less instruction (not Begin/End) -/
theorem Frag.plain {c : Array Val} (l : Loc) (op : Op) (h : op.hasArg = false) (h1 : op ≠ .begin_) (h2 : op ≠ .end_) :
    Frag c [li l op] :=
  Frag.one l op 0 (argOk_noarg c op 0 h) (by simp [canonOk]) (by cases op <;> simp_all [Op.isJump, Op.argClass, Op.hasArg]) h1 h2

end ExprModel.Bc
