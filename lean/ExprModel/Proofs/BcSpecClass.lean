import ExprModel.Proofs.RefineSimAll
/-
C05 (run-time half, via C01): the reference evaluator never fails with the class `underflow` (a pop of an empty
stack / a missing scope) nor `fuel` on a well-formed tree, whatever the environment functions do as long as THEY
do not report those classes.  Together with C01's refinement (run = Spec.run) this gives: no run of a compiled
program pops an empty stack.  Method: a Hoare-style triple over `SM`, one lemma per node kind (the structure of
Proofs/SpecInv.lean), assembled with `Spec.eval.mutual_induct`, `Good` threaded through the motives.
-/
set_option linter.unusedVariables false
namespace ExprModel.Bc
open ExprModel ExprModel.Spec ExprModel.Refine

/-- an error class a run may legitimately end with: anything but an empty-stack pop and the model's fuel -/
def Ordinary (e : ErrClass) : Prop := e ≠ .underflow ∧ e ≠ .fuel

/-- the environment's functions fail only in ordinary ways -/
def WorldOrd (w : World) : Prop := ∀ id args e, w.call id args = .error e → Ordinary e

/-- `m` establishes `Q` on success and fails only with ordinary classes -/
def Ec {α} (m : SM α) (Q : α → Prop) : Prop :=
  ∀ s : SState, (∀ a, (m s).1 = .ok a → Q a) ∧ (∀ e, (m s).1 = .error e → Ordinary e)

abbrev ET {α} : α → Prop := fun _ => True

theorem sm_bind_eq {α β} (m : SM α) (f : α → SM β) : (m >>= f) = SM.bind' m f := rfl
theorem sm_pure_eq {α} (a : α) : (pure a : SM α) = SM.pure' a := rfl

namespace Ec
variable {α β : Type}

theorem mono {m : SM α} {Q Q' : α → Prop} (h : Ec m Q) (hq : ∀ a, Q a → Q' a) : Ec m Q' :=
  fun s => ⟨fun a ha => hq a ((h s).1 a ha), (h s).2⟩

theorem pure {Q : α → Prop} {a : α} (h : Q a) : Ec (Pure.pure a : SM α) Q := by
  intro s
  refine ⟨fun b hb => ?_, fun e he => ?_⟩
  · have : a = b := by simpa [sm_pure_eq, SM.pure'] using hb
    exact this ▸ h
  · simp [sm_pure_eq, SM.pure'] at he

theorem fail {e : ErrClass} (h : Ordinary e) : Ec (SM.fail e : SM α) ET := by
  intro s
  refine ⟨fun _ _ => trivial, fun e' he => ?_⟩
  have : e = e' := by simpa [SM.fail] using he
  exact this ▸ h

theorem bind {m : SM α} {f : α → SM β} {Q : α → Prop} {Q' : β → Prop}
    (hm : Ec m Q) (hf : ∀ a, Q a → Ec (f a) Q') : Ec (m >>= f) Q' := by
  intro s
  obtain ⟨h1, h2⟩ := hm s
  rw [sm_bind_eq]
  unfold SM.bind'
  match hms : m s with
  | (.ok a, s') =>
    rw [hms] at h1
    exact hf a (h1 a rfl) s'
  | (.error e, s') =>
    rw [hms] at h2
    exact ⟨fun b hb => by simp at hb, fun e' he' => by
      have : e = e' := by simpa using he'
      exact this ▸ h2 e rfl⟩

theorem bindT {m : SM α} {f : α → SM β} {Q' : β → Prop} (hm : Ec m ET) (hf : ∀ a, Ec (f a) Q') :
    Ec (m >>= f) Q' := bind hm fun a _ => hf a

theorem lift' (r : R α) (h : ∀ e, r = .error e → Ordinary e) : Ec (SM.lift r) (fun a => r = .ok a) := by
  cases r with
  | ok a => exact pure (Q := fun b => Except.ok a = .ok b) rfl
  | error e =>
    intro s
    exact ⟨fun b hb => by simp [SM.lift, SM.fail] at hb, fun e' he' => by
      have : e = e' := by simpa [SM.lift, SM.fail] using he'
      exact this ▸ h e rfl⟩

theorem lift (r : R α) (h : ∀ e, r = .error e → Ordinary e) : Ec (SM.lift r) ET :=
  mono (lift' r h) fun _ _ => trivial

theorem logCall (name : String) (args : List Val) : Ec (SM.logCall name args) ET :=
  fun s => ⟨fun _ _ => trivial, fun e he => by simp [SM.logCall] at he⟩

theorem asBool (v : Val) : Ec (Spec.asBool v) ET := by
  unfold Spec.asBool
  split
  · exact pure trivial
  · exact fail ⟨by decide, by decide⟩

theorem allocAfter (lim k : Int) (b : Nat) : Ec (SM.allocAfter lim k b) ET := by
  intro s
  unfold SM.allocAfter
  simp only
  split
  · exact ⟨fun _ _ => trivial, fun e he => by
      have : ErrClass.budget = e := by simpa using he
      exact this ▸ ⟨by decide, by decide⟩⟩
  · exact ⟨fun _ _ => trivial, fun e he => by simp at he⟩

theorem allocBefore (lim k : Int) (b : Nat) : Ec (SM.allocBefore lim k b) ET := by
  intro s
  unfold SM.allocBefore
  split
  · exact ⟨fun _ _ => trivial, fun e he => by
      have : ErrClass.budget = e := by simpa using he
      exact this ▸ ⟨by decide, by decide⟩⟩
  · exact ⟨fun _ _ => trivial, fun e he => by simp at he⟩

theorem loopIdxT {σ : Type} {body : Nat → σ → SM (σ ⊕ Val)} (hb : ∀ i acc, Ec (body i acc) ET) :
    ∀ (fuel i : Nat) (acc : σ), Ec (Spec.loopIdx body fuel i acc) ET
  | 0, i, acc => by unfold Spec.loopIdx; exact pure trivial
  | fuel + 1, i, acc => by
    unfold Spec.loopIdx
    refine bindT (hb i acc) fun r => ?_
    cases r with
    | inl acc' => exact loopIdxT hb fuel (i + 1) acc'
    | inr v => exact pure trivial

theorem ite {p : Prop} [Decidable p] {t e : SM α} {Q : α → Prop} (ht : p → Ec t Q) (he : ¬p → Ec e Q) :
    Ec (if p then t else e) Q := by
  split
  · exact ht ‹_›
  · exact he ‹_›

end Ec

/-! ### the run-time library fails only in ordinary ways -/

theorem ord_type : Ordinary .type_ := ⟨by decide, by decide⟩
theorem ord_index : Ordinary .index := ⟨by decide, by decide⟩
theorem ord_badop : Ordinary .badop := ⟨by decide, by decide⟩
theorem ord_divzero : Ordinary .divzero := ⟨by decide, by decide⟩

theorem toIntR_cls (v : Val) : ∀ e, toIntR v = .error e → Ordinary e := by
  intro e h; unfold toIntR at h; split at h <;> cases h; exact ord_type

theorem notV_cls (v : Val) : ∀ e, notV v = .error e → Ordinary e := by
  intro e h; unfold notV at h; split at h <;> cases h; exact ord_type

theorem negV_cls (v : Val) : ∀ e, negV v = .error e → Ordinary e := by
  intro e h; unfold negV at h; split at h <;> cases h; exact ord_type

theorem strOp_cls (f : String → String → Bool) (a b : Val) : ∀ e, strOp f a b = .error e → Ordinary e := by
  intro e h; unfold strOp at h; split at h <;> cases h; exact ord_type

theorem lengthV_cls (v : Val) : ∀ e, lengthV v = .error e → Ordinary e := by
  intro e h; unfold lengthV at h; split at h <;> cases h; exact ord_type

theorem binHelper_cls (hh : Helper) (a b : Val) : ∀ e, binHelper hh a b = .error e → Ordinary e := by
  intro e h; unfold binHelper at h
  split at h
  · cases h
  · cases h; exact ord_divzero
  · cases h; exact ord_type

theorem inV_cls (a b : Val) : ∀ e, inV a b = .error e → Ordinary e := by
  intro e h; unfold inV at h
  repeat' split at h
  all_goals first | (cases h; exact ord_type) | cases h

theorem fetchV_cls (a i : Val) (ns : Bool) : ∀ e, fetchV a i ns = .error e → Ordinary e := by
  intro e h; unfold fetchV at h
  have hfb : ∀ e', (if ns = true then (Except.ok Val.nil : R Val) else .error .type_) = .error e' → Ordinary e' := by
    intro e' h'; split at h' <;> cases h'; exact ord_type
  simp only at h
  repeat' split at h
  all_goals first
    | (cases h; first | exact ord_type | exact ord_index)
    | exact hfb _ h
    | (rename_i h'; cases h; exact toIntR_cls _ _ h')
    | cases h

theorem err_of_ite {α : Type} {c : Prop} [Decidable c] {x : ErrClass} {y : R α} {e : ErrClass}
    (h : (if c then (.error x : R α) else y) = .error e) : e = x ∨ y = .error e := by
  split at h
  · left; cases h; rfl
  · right; exact h

theorem dite_ok_err {α : Type} {c : Prop} [Decidable c] {a : c → α} {b : ¬c → α} {e : ErrClass}
    (h : (if hc : c then (.ok (a hc) : R α) else .ok (b hc)) = .error e) : False := by
  split at h <;> cases h

theorem sliceV_cls (a f t : Val) : ∀ e, sliceV a f t = .error e → Ordinary e := by
  intro e h
  cases hf : toIntR f with
  | error ef =>
    have hof := toIntR_cls _ _ hf
    cases a <;> simp only [sliceV, hf] at h <;> first | (cases h; first | exact hof | exact ord_type) | skip
    all_goals (cases ht : toIntR t <;> simp only [ht] at h <;> cases h <;> exact hof)
  | ok f' =>
    cases ht : toIntR t with
    | error et =>
      have hot := toIntR_cls _ _ ht
      cases a <;> simp only [sliceV, hf, ht] at h <;> cases h <;> first | exact hot | exact ord_type
    | ok t' =>
      cases a <;> simp only [sliceV, hf, ht] at h <;> first | (cases h; exact ord_type) | skip
      all_goals
        rcases err_of_ite h with rfl | h'
        · exact ord_index
        · first | exact (dite_ok_err h').elim | cases h'

theorem callMember_cls {w : World} (hw : WorldOrd w) (obj : Val) (name : String) (args : List Val) :
    ∀ e, callMember w obj name args = .error e → Ordinary e := by
  intro e h; unfold callMember at h
  simp only at h
  repeat' split at h
  all_goals first
    | (cases h; exact ord_type)
    | exact hw _ _ _ h
    | cases h

theorem castV_cls (t : Nat) (v : Val) : ∀ e, castV t v = .error e → Ordinary e := by
  intro e h; unfold castV at h
  repeat' split at h
  all_goals first | (cases h; exact ord_type) | cases h

/-- `buildMap` on a list of even length (what a map literal's pairs evaluate to) fails only with a type error -/
theorem buildMap_cls : ∀ (l : List Val), l.length % 2 = 0 → ∀ e, buildMap l = .error e → Ordinary e
  | [], _, e, h => by simp [buildMap] at h
  | [_], hl, _, _ => by simp at hl
  | k :: v :: rest, hl, e, h => by
    unfold buildMap at h
    have hr : rest.length % 2 = 0 := by simp at hl; omega
    cases hb : buildMap rest with
    | error e' =>
      simp only [hb, bind, Except.bind] at h
      cases h; exact buildMap_cls rest hr _ hb
    | ok m =>
      simp only [hb, bind, Except.bind] at h
      split at h
      · cases h
      · cases h; exact ord_type

-- keep `intro` and `assumption` from looking inside the triple while the node lemmas are assembled
attribute [local irreducible] Ec

macro "cls_tac" : tactic => `(tactic| first
  | exact fetchV_cls _ _ _ | exact notV_cls _ | exact negV_cls _ | exact inV_cls _ _ | exact toIntR_cls _
  | exact strOp_cls _ _ _ | exact binHelper_cls _ _ _ | exact lengthV_cls _ | exact sliceV_cls _ _ _
  | exact callMember_cls (by assumption) _ _ _)

/-- one step of the structural proof of an `Ec … ET` goal -/
macro "ec_step" : tactic => `(tactic| first
  | assumption
  | exact Ec.pure trivial
  | exact Ec.fail ord_type
  | exact Ec.fail ord_badop
  | (refine Ec.lift _ ?_; cls_tac)
  | exact Ec.logCall _ _
  | exact Ec.asBool _
  | exact Ec.allocAfter _ _ _
  | exact Ec.allocBefore _ _ _
  | (refine Ec.bindT ?_ ?_)
  | (refine Ec.loopIdxT ?_ _ _ _)
  | (refine Ec.ite ?_ ?_)
  | intro _
  | split)

macro "ec_auto" : tactic => `(tactic| repeat' ec_step)

section Nodes
variable {c : SCfg} {ctx : Ctx}

theorem ec_unary {m op x} (hx : Ec (eval c ctx x) ET) : Ec (eval c ctx (.unary m op x)) ET := by
  unfold eval; ec_auto

theorem ec_binary {m op l r} (hl : Ec (eval c ctx l) ET) (hr : Ec (eval c ctx r) ET) :
    Ec (eval c ctx (.binary m op l r)) ET := by
  unfold eval; ec_auto

theorem ec_matches {m hasRe l r} (hl : Ec (eval c ctx l) ET) (hr : Ec (eval c ctx r) ET) :
    Ec (eval c ctx (.matches m hasRe l r)) ET := by
  unfold eval
  refine Ec.bindT hl fun a => Ec.ite (fun _ => ?_) (fun _ => ?_)
  · extract_lets pat
    ec_auto
  · ec_auto

theorem ec_prop {m x name nilsafe} (hx : Ec (eval c ctx x) ET) : Ec (eval c ctx (.prop m x name nilsafe)) ET := by
  unfold eval; ec_auto

theorem ec_index {m x i} (hx : Ec (eval c ctx x) ET) (hi : Ec (eval c ctx i) ET) :
    Ec (eval c ctx (.index m x i)) ET := by
  unfold eval; ec_auto

theorem ec_slice {m x f t} (hx : Ec (eval c ctx x) ET) (hf : ∀ n, f = some n → Ec (eval c ctx n) ET)
    (ht : ∀ n, t = some n → Ec (eval c ctx n) ET) : Ec (eval c ctx (.slice m x f t)) ET := by
  unfold eval
  cases f <;> cases t <;> ec_auto <;> first | exact hf _ rfl | exact ht _ rfl

theorem ec_method {m x name args nilsafe} (hw : WorldOrd c.world) (hx : Ec (eval c ctx x) ET)
    (ha : Ec (evalList c ctx args) ET) : Ec (eval c ctx (.method m x name args nilsafe)) ET := by
  unfold eval; ec_auto

theorem ec_func {m name args fast} (hw : WorldOrd c.world) (ha : Ec (evalList c ctx args) ET) :
    Ec (eval c ctx (.func m name args fast)) ET := by
  unfold eval; ec_auto

theorem ec_cond {m cnd a b} (hc : Ec (eval c ctx cnd) ET) (ha : Ec (eval c ctx a) ET) (hb : Ec (eval c ctx b) ET) :
    Ec (eval c ctx (.cond m cnd a b)) ET := by
  unfold eval; ec_auto

theorem ec_array {m xs} (hx : Ec (evalList c ctx xs) ET) : Ec (eval c ctx (.array m xs)) ET := by
  unfold eval; ec_auto

/-- a map literal: its pairs evaluate to a list of even length, on which `buildMap` cannot run dry -/
theorem ec_map {m ps} (hx : Ec (evalList c ctx ps) (fun vs => vs.length % 2 = 0)) : Ec (eval c ctx (.map m ps)) ET := by
  unfold eval
  refine Ec.bind hx fun flat hflat => ?_
  refine Ec.bindT (Ec.lift _ (buildMap_cls flat hflat)) fun mm => ?_
  ec_auto

theorem ec_pointer {m} : Ec (eval c ctx (.pointer m)) ET := by
  unfold eval; ec_auto

theorem ec_builtin_len {m a} (ha : Ec (eval c ctx a) ET) : Ec (eval c ctx (.builtin m "len" [a])) ET := by
  unfold eval
  split
  · rename_i h; cases h; ec_auto
  · rename_i h; cases h
  · exact Ec.fail ord_badop

theorem ec_builtin2 {m name a b} (ha : Ec (eval c ctx a) ET)
    (hb : ∀ (coll : Val) (i : Nat), Ec (eval c ((coll, (i : Int)) :: ctx) b) ET) :
    Ec (eval c ctx (.builtin m name [a, b])) ET := by
  unfold eval
  split
  · rename_i h; cases h
  case h_3 h _ => exact (h _ _ rfl).elim
  rename_i h; cases h
  refine Ec.ite (fun _ => ?_) (fun _ => Ec.fail ord_badop)
  refine Ec.bindT ha fun coll => ?_
  refine Ec.bindT (Ec.lift _ (lengthV_cls _)) fun n => ?_
  have hb' := hb coll
  ec_auto <;> exact hb' _

theorem ec_builtin2_bad {m name a b} (h : ¬builtinNames.contains name = true) :
    Ec (eval c ctx (.builtin m name [a, b])) ET := by
  unfold eval
  split
  · rename_i h'; cases h'
  · rename_i h'; cases h'; rw [if_neg h]; exact Ec.fail ord_badop
  · exact Ec.fail ord_badop

theorem ec_builtin_bad {m name args} (h2 : ∀ a b : Node, args = [a, b] → False)
    (h1 : ∀ a : Node, name = "len" → args = [a] → False) : Ec (eval c ctx (.builtin m name args)) ET := by
  unfold eval
  split
  · exact (h1 _ rfl rfl).elim
  · exact (h2 _ _ rfl).elim
  · exact Ec.fail ord_badop

theorem ec_list_nil : Ec (evalList c ctx []) (fun vs => vs.length % 2 = 0) := by
  unfold evalList; exact Ec.pure rfl

theorem ec_list_pair {m k v rest} {Q : List Val → Prop} (hk : Ec (eval c ctx k) ET) (hv : Ec (eval c ctx v) ET)
    (hr : Ec (evalList c ctx rest) Q) (hQ : ∀ a b vs, Q vs → Q (a :: b :: vs)) :
    Ec (evalList c ctx (.pair m k v :: rest)) Q := by
  unfold evalList
  refine Ec.bindT hk fun kv => Ec.bindT hv fun vv => Ec.bind hr fun vs hvs => Ec.pure (hQ _ _ _ hvs)

theorem ec_list_cons {n rest} (hn : ∀ m k v, n = Node.pair m k v → False) (h : Ec (eval c ctx n) ET)
    (hr : Ec (evalList c ctx rest) ET) : Ec (evalList c ctx (n :: rest)) ET := by
  unfold evalList
  split
  · rename_i h; cases h
  · rename_i h; cases h; exact (hn _ _ _ rfl).elim
  · rename_i h; cases h; ec_auto

end Nodes

/-- every evaluation of a well-formed tree (`Good`: pair nodes exactly inside map literals) fails only in ordinary ways -/
theorem eval_ec_all (c : SCfg) (hw : WorldOrd c.world) (L : Node → Prop) :
    (∀ ctx n, Good L n → Ec (eval c ctx n) ET) ∧
    (∀ ctx ns, (GoodL L ns → Ec (evalList c ctx ns) ET) ∧
               (GoodP L ns → Ec (evalList c ctx ns) (fun vs => vs.length % 2 = 0))) := by
  apply eval.mutual_induct (motive_1 := fun ctx n => Good L n → Ec (eval c ctx n) ET)
    (motive_2 := fun ctx ns => (GoodL L ns → Ec (evalList c ctx ns) ET) ∧
               (GoodP L ns → Ec (evalList c ctx ns) (fun vs => vs.length % 2 = 0)))
  · intro ctx m _; unfold eval; exact Ec.pure trivial
  · intro ctx m name nilsafe _; unfold eval; exact Ec.lift _ (fetchV_cls _ _ _)
  · intro ctx m v _; unfold eval; exact Ec.pure trivial
  · intro ctx m v _; unfold eval; exact Ec.pure trivial
  · intro ctx m v _; unfold eval; exact Ec.pure trivial
  · intro ctx m v _; unfold eval; exact Ec.pure trivial
  · intro ctx m v _; unfold eval; exact Ec.pure trivial
  · intro ctx m op x ih hg; exact ec_unary (ih (by simpa only [Good] using hg))
  · intro ctx m op l r _ hl hr hg
    have hg' : Good L l ∧ Good L r := by simpa only [Good] using hg
    exact ec_binary (hl hg'.1) (hr hg'.2)
  · intro ctx m op l r _ _ hl hr hg
    have hg' : Good L l ∧ Good L r := by simpa only [Good] using hg
    exact ec_binary (hl hg'.1) (hr hg'.2)
  · intro ctx m op l r _ _ hl hr hg
    have hg' : Good L l ∧ Good L r := by simpa only [Good] using hg
    exact ec_binary (hl hg'.1) (hr hg'.2)
  · intro ctx m hasRe l r hl hr hg
    have hg' : Good L l ∧ Good L r := by simpa only [Good] using hg
    exact ec_matches (hl hg'.1) (hr hg'.2)
  · intro ctx m x name nilsafe hx hg; exact ec_prop (hx (by simpa only [Good] using hg))
  · intro ctx m x i hx hi hg
    have hg' : Good L x ∧ Good L i := by simpa only [Good] using hg
    exact ec_index (hx hg'.1) (hi hg'.2)
  · intro ctx m x f t hx hf ht hg
    have hg' : Good L x ∧ GoodO L f ∧ GoodO L t := by simpa only [Good] using hg
    exact ec_slice (hx hg'.1)
      (fun n hn => by subst hn; exact hf (by simpa only [GoodO] using hg'.2.1))
      (fun n hn => by subst hn; exact ht (by simpa only [GoodO] using hg'.2.2))
  · intro ctx m x name args nilsafe hx ha hg
    have hg' : Good L x ∧ GoodL L args := by simpa only [Good] using hg
    exact ec_method hw (hx hg'.1) (ha.1 hg'.2)
  · intro ctx m name args fast ha hg
    exact ec_func hw (ha.1 (by simpa only [Good] using hg))
  · intro ctx m a ha hg
    have hg' : ("len" = "len" ∨ LoopArgs L [a]) ∧ GoodL L [a] := by simpa only [Good] using hg
    have hga : Good L a ∧ True := by simpa only [GoodL] using hg'.2
    exact ec_builtin_len (ha hga.1)
  · intro ctx m name a b _ ha hb hg
    have hg' : (name = "len" ∨ LoopArgs L [a, b]) ∧ GoodL L [a, b] := by simpa only [Good] using hg
    have hgab : Good L a ∧ Good L b ∧ True := by simpa only [GoodL] using hg'.2
    exact ec_builtin2 (ha hgab.1) (fun coll i => hb coll i hgab.2.1)
  · intro ctx m name a b h _; exact ec_builtin2_bad h
  · intro ctx m name args h2 h1 _; exact ec_builtin_bad h2 h1
  · intro ctx m x hx hg; unfold eval; exact hx (by simpa only [Good] using hg)
  · intro m coll i tail _; exact ec_pointer
  · intro m _; exact ec_pointer
  · intro ctx m cnd a b hc ha hb hg
    have hg' : Good L cnd ∧ Good L a ∧ Good L b := by simpa only [Good] using hg
    exact ec_cond (hc hg'.1) (ha hg'.2.1) (hb hg'.2.2)
  · intro ctx m xs hx hg; exact ec_array (hx.1 (by simpa only [Good] using hg))
  · intro ctx m ps hx hg; exact ec_map (hx.2 (by simpa only [Good] using hg))
  · intro ctx m k v hg; exact (by simpa only [Good] using hg : False).elim
  · intro ctx; exact ⟨fun _ => Ec.mono ec_list_nil fun _ _ => trivial, fun _ => ec_list_nil⟩
  · intro ctx m k v rest hk hv hr
    refine ⟨fun hg => ?_, fun hg => ?_⟩
    · have hg' : Good L (.pair m k v) ∧ GoodL L rest := by simpa only [GoodL] using hg
      exact (by simpa only [Good] using hg'.1 : False).elim
    · have hg' : Good L k ∧ Good L v ∧ GoodP L rest := by simpa only [GoodP] using hg
      exact ec_list_pair (hk hg'.1) (hv hg'.2.1) (hr.2 hg'.2.2) (fun a b vs h => by simp only [List.length_cons]; omega)
  · intro ctx n rest hn h hr
    refine ⟨fun hg => ?_, fun hg => ?_⟩
    · have hg' : Good L n ∧ GoodL L rest := by simpa only [GoodL] using hg
      exact ec_list_cons hn (h hg'.1) (hr.1 hg'.2)
    · cases n <;> first | exact (by simpa only [GoodP] using hg : False).elim | exact (hn _ _ _ rfl).elim

attribute [local semireducible] Ec

/-- **The language definition never pops an empty stack**: on a well-formed tree, with environment functions that
    fail in ordinary ways, `Spec.run` fails neither with `underflow` nor with `fuel` -/
theorem spec_run_ordinary (c : SCfg) (hw : WorldOrd c.world) (L : Node → Prop) (cast : Option Nat) (n : Node)
    (hg : Good L n) (e : ErrClass) (h : (Spec.run c cast n).1 = .error e) : Ordinary e := by
  have hev := (eval_ec_all c hw L).1 [] n hg {}
  unfold Spec.run at h
  split at h
  · rename_i v s hev'
    cases cast with
    | some t => exact castV_cls t v e h
    | none => cases h
  · exact hev.2 e h

end ExprModel.Bc
