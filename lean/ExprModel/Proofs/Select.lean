import ExprModel.Proofs.TableOrder
/-
Lemmas about the selector Spec (`levelTys`, `searchLevels`, `reflField`) and its relation to the
pointwise table semantics `rawAt` of `Proofs/TableOrder.lean`.
-/
namespace ExprModel
open Table

/-! ### depth -/

theorem Ty.depth_pos : ∀ t : Ty, 0 < t.depth := by
  intro t; cases t <;> simp [Ty.depth] <;> omega

theorem Ty.core_depth_le : ∀ t : Ty, t.core.depth ≤ t.depth
  | .named _ _ u => by
    have := Ty.core_depth_le u
    simp only [Ty.core, Ty.depth]; omega
  | .bool | .string | .num _ | .iface _ | .ptr _ | .slice _ | .array _ _ | .map _ _
  | .func _ _ _ | .struct _ | .ref _ | .other _ => Nat.le_refl _

theorem Ty.fields_depth_lt {t : Ty} {f : Field} (h : f ∈ t.fields) : f.ty.depth < t.depth := by
  unfold Ty.fields at h
  have hc := Ty.core_depth_le t
  split at h
  · rename_i fs hcore
    have := Field.depth_lt_of_mem h
    rw [hcore] at hc
    simp only [Ty.depth] at hc
    omega
  · cases h

theorem embTarget_depth_le (f : Field) : (embTarget f).depth ≤ f.ty.depth := by
  unfold embTarget
  have hc := Ty.core_depth_le f.ty
  split
  · rename_i u hcore
    rw [hcore] at hc
    simp only [Ty.depth] at hc
    omega
  · exact Nat.le_refl _

theorem mem_embedded {t : Ty} {f : Field} : f ∈ t.embedded ↔ f ∈ t.fields ∧ f.anon = true := by
  unfold Ty.embedded; simp [List.mem_filter]

theorem embTarget_depth_lt {t : Ty} {f : Field} (h : f ∈ t.embedded) :
    (embTarget f).depth < t.depth :=
  Nat.lt_of_le_of_lt (embTarget_depth_le f) (Ty.fields_depth_lt (mem_embedded.1 h).1)

/-! ### levels -/

theorem levelFields_zero (t : Ty) : levelFields 0 t = t.fields := by
  simp [levelFields, levelTys]

theorem levelFields_succ (d : Nat) (t : Ty) :
    levelFields (d + 1) t = t.embedded.flatMap fun f => levelFields d (embTarget f) := by
  simp [levelFields, levelTys, List.flatMap_assoc]

/-- below the nesting depth of the type there is nothing -/
theorem levelFields_eq_nil_of_depth_le : ∀ (d : Nat) (t : Ty), t.depth ≤ d → levelFields d t = []
  | 0, t, h => absurd h (Nat.not_le.2 (Ty.depth_pos t))
  | d + 1, t, h => by
    rw [levelFields_succ]
    apply List.flatMap_eq_nil_iff.2
    intro f hf
    exact levelFields_eq_nil_of_depth_le d _ (by have := embTarget_depth_lt hf; omega)

/-! ### searchLevels -/

theorem searchLevels_found {α : Type} (cands : Nat → List α) (c : α) :
    ∀ (k s n : Nat), (∀ j, j < k → cands (s + j) = []) → cands (s + k) = [c] → k < n →
      searchLevels cands s n = .found c
  | 0, s, n + 1, _, hk, _ => by
    unfold searchLevels
    rw [Nat.add_zero] at hk; rw [hk]
  | k + 1, s, n + 1, h0, hk, hn => by
    unfold searchLevels
    have := h0 0 (Nat.succ_pos k)
    rw [Nat.add_zero] at this; rw [this]
    apply searchLevels_found cands c k (s + 1) n
    · intro j hj
      have := h0 (j + 1) (Nat.succ_lt_succ hj)
      rwa [Nat.add_assoc, Nat.add_comm 1 j]
    · rwa [Nat.add_assoc, Nat.add_comm 1 k]
    · omega

theorem searchLevels_found_inv {α : Type} (cands : Nat → List α) (c : α) :
    ∀ (n s : Nat), searchLevels cands s n = .found c →
      ∃ k, k < n ∧ (∀ j, j < k → cands (s + j) = []) ∧ cands (s + k) = [c]
  | 0, s, h => by simp [searchLevels] at h
  | n + 1, s, h => by
    unfold searchLevels at h
    split at h
    · rename_i he
      obtain ⟨k, hk, h0, hc⟩ := searchLevels_found_inv cands c n (s + 1) h
      refine ⟨k + 1, by omega, ?_, ?_⟩
      · intro j hj
        cases j with
        | zero => simpa using he
        | succ j =>
          have := h0 j (by omega)
          rwa [Nat.add_assoc, Nat.add_comm 1 j] at this
      · rwa [Nat.add_assoc, Nat.add_comm 1 k] at hc
    · rename_i c' he
      cases h
      exact ⟨0, by omega, fun j hj => absurd hj (Nat.not_lt_zero j), by simpa using he⟩
    · cases h

theorem searchLevels_notFound {α : Type} (cands : Nat → List α) :
    ∀ (n s : Nat), (∀ j, j < n → cands (s + j) = []) → searchLevels cands s n = .notFound
  | 0, _, _ => rfl
  | n + 1, s, h => by
    unfold searchLevels
    have := h 0 (Nat.succ_pos n)
    rw [Nat.add_zero] at this; rw [this]
    apply searchLevels_notFound cands n (s + 1)
    intro j hj
    have := h (j + 1) (Nat.succ_lt_succ hj)
    rwa [Nat.add_assoc, Nat.add_comm 1 j]

/-- the fields named `name` at depth `d` -/
def occAt (d : Nat) (t : Ty) (name : String) : List Field :=
  (levelFields d t).filter (fun f => f.name = name)

theorem reflField_def (t : Ty) (name : String) :
    reflField t name = searchLevels (fun d => occAt d t name) 0 (t.depth + 1) := rfl

theorem occAt_zero (t : Ty) (name : String) :
    occAt 0 t name = t.fields.filter (fun f => f.name = name) := by
  simp [occAt, levelFields_zero]

theorem occAt_succ (d : Nat) (t : Ty) (name : String) :
    occAt (d + 1) t name = t.embedded.flatMap fun f => occAt d (embTarget f) name := by
  simp [occAt, levelFields_succ, List.filter_flatMap]

theorem occAt_eq_nil_of_depth_le (d : Nat) (t : Ty) (name : String) (h : t.depth ≤ d) :
    occAt d t name = [] := by
  simp [occAt, levelFields_eq_nil_of_depth_le d t h]

/-- `reflect.FieldByName` finds `f` iff `f` is the only field of that name at the shallowest depth that has one -/
theorem reflField_found_iff (t : Ty) (name : String) (f : Field) :
    reflField t name = .found f ↔
      ∃ k, (∀ j, j < k → occAt j t name = []) ∧ occAt k t name = [f] := by
  rw [reflField_def]
  constructor
  · intro h
    obtain ⟨k, _, h0, hc⟩ := searchLevels_found_inv _ f _ 0 h
    exact ⟨k, fun j hj => by simpa using h0 j hj, by simpa using hc⟩
  · rintro ⟨k, h0, hc⟩
    apply searchLevels_found _ f k 0 (t.depth + 1)
    · intro j hj; simpa using h0 j hj
    · simpa using hc
    · by_cases hk : k < t.depth + 1
      · exact hk
      · have := occAt_eq_nil_of_depth_le k t name (by omega)
        rw [this] at hc; cases hc

theorem reflField_found_mem {t : Ty} {name : String} {f : Field} (h : reflField t name = .found f) :
    ∃ k, f ∈ levelFields k t ∧ f.name = name := by
  obtain ⟨k, _, hc⟩ := (reflField_found_iff t name f).1 h
  have : f ∈ occAt k t name := by rw [hc]; exact List.mem_singleton.2 rfl
  unfold occAt at this
  have := List.mem_filter.1 this
  exact ⟨k, this.1, by simpa using this.2⟩

/-! ### dereferencing -/

theorem Ty.deref_of_not_isPtr {t : Ty} (h : t.isPtr = false) : t.deref = t := by
  cases t <;> simp_all [Ty.deref, Ty.isPtr, Ty.core]

theorem Ty.fields_eq_of_core {t : Ty} {fs : List Field} (h : t.core = .struct fs) : t.fields = fs := by
  simp [Ty.fields, h]

theorem Ty.kind_struct_iff {t : Ty} : t.kind = .struct ↔ ∃ fs, t.core = .struct fs := by
  unfold Ty.kind
  cases h : t.core <;> simp

theorem Ty.isPtr_false_of_kind_struct {t : Ty} (h : t.kind = .struct) : t.isPtr = false := by
  obtain ⟨fs, hc⟩ := Ty.kind_struct_iff.1 h
  simp [Ty.isPtr, hc]

/-! ### every accepted field name reachable through embedding has an entry in the raw table -/

def accepts (d : NDefects) (f : Field) : Bool := d.unexportedAccepted || f.exported

/-- once an entry exists the loop never removes it -/
theorem loopAt_some_of_some (d : NDefects) (R : Ty → String → Option Tag) (name : String) :
    ∀ (fs : List Field) (cur : Option Tag), cur.isSome → (loopAt d R name fs cur).isSome := by
  intro fs
  induction fs with
  | nil => intro cur h; exact h
  | cons f fs ih =>
    intro cur h
    unfold loopAt
    apply ih
    have h1 : (if f.anon then mergeAt cur (R f.ty name) else cur).isSome := by
      split
      · unfold mergeAt; split
        · simp [h]
        · exact h
      · exact h
    split
    · rfl
    · exact h1

theorem loopAt_some_of_own (d : NDefects) (R : Ty → String → Option Tag) (name : String) :
    ∀ (fs : List Field) (cur : Option Tag) (f : Field), f ∈ fs → accepts d f → f.name = name →
      (loopAt d R name fs cur).isSome := by
  intro fs
  induction fs with
  | nil => intro _ _ h; cases h
  | cons g fs ih =>
    intro cur f hf ha hn
    unfold loopAt
    rcases List.mem_cons.1 hf with rfl | hf
    · apply loopAt_some_of_some
      unfold accepts at ha
      simp [ha, hn]
    · exact ih _ f hf ha hn

theorem loopAt_some_of_emb (d : NDefects) (R : Ty → String → Option Tag) (name : String) :
    ∀ (fs : List Field) (cur : Option Tag) (f : Field), f ∈ fs → f.anon → (R f.ty name).isSome →
      (loopAt d R name fs cur).isSome := by
  intro fs
  induction fs with
  | nil => intro _ _ h; cases h
  | cons g fs ih =>
    intro cur f hf ha hr
    unfold loopAt
    rcases List.mem_cons.1 hf with rfl | hf
    · apply loopAt_some_of_some
      have h1 : (mergeAt cur (R f.ty name)).isSome := by
        unfold mergeAt
        cases hR : R f.ty name with
        | none => rw [hR] at hr; cases hr
        | some g => simp only []; split <;> rfl
      rw [if_pos ha]
      split
      · rfl
      · exact h1
    · exact ih _ f hf ha hr

/-- embedded fields are `E` or `*E` with `E` not a pointer type (Go's rule), at every depth -/
def EmbWF (t : Ty) : Prop :=
  ∀ d, ∀ u ∈ levelTys d t, ∀ f ∈ u.embedded, (embTarget f).isPtr = false

theorem EmbWF.sub {t : Ty} (h : EmbWF t) {f : Field} (hf : f ∈ t.embedded) : EmbWF (embTarget f) := by
  intro d u hu
  apply h (d + 1) u
  simp only [levelTys, List.mem_flatMap]
  exact ⟨f, hf, hu⟩

theorem EmbWF.here {t : Ty} (h : EmbWF t) {f : Field} (hf : f ∈ t.embedded) :
    (embTarget f).isPtr = false :=
  h 0 t (by simp [levelTys]) f hf

theorem Ty.core_ptr_deref : ∀ (t : Ty) (u : Ty), t.core = .ptr u → t.deref = u.deref
  | .ptr _, u, h => by simp only [Ty.core] at h; cases h; rfl
  | .named n ms v, u, h => by
    have hc : v.core = .ptr u := by simpa [Ty.core] using h
    have := Ty.core_ptr_deref v u hc
    have hp : (Ty.named n ms v).isPtr = true := by simp [Ty.isPtr, Ty.core, hc]
    simp [Ty.deref, hp, this]
  | .bool, _, h | .string, _, h | .num _, _, h | .iface _, _, h | .slice _, _, h | .array _ _, _, h
  | .map _ _, _, h | .func _ _ _, _, h | .struct _, _, h | .ref _, _, h | .other _, _, h => by
    simp [Ty.core] at h

/-- the recursion of `FieldsFromStruct` (all pointer levels) reaches the struct Go's rule reaches (one level) -/
theorem deref_eq_embTarget {f : Field} (h : (embTarget f).isPtr = false) :
    f.ty.deref = embTarget f := by
  unfold embTarget at h ⊢
  split
  · rename_i u hc
    rw [Ty.core_ptr_deref _ u hc]
    simp only [hc] at h
    exact Ty.deref_of_not_isPtr h
  · rename_i hc
    apply Ty.deref_of_not_isPtr
    split at h
    · rename_i u hc'; exact absurd hc' (hc u)
    · exact h

theorem rawAt_congr (d : NDefects) (n : Nat) {t t' : Ty} (h : t.deref = t'.deref) (name : String) :
    rawAt d n t name = rawAt d n t' name := by
  cases n with
  | zero => rfl
  | succ n => rw [rawAt_succ, rawAt_succ, h]

theorem rawAt_struct (d : NDefects) (n : Nat) {t : Ty} (hp : t.isPtr = false) (name : String) :
    rawAt d (n + 1) t name = loopAt d (rawAt d n) name t.fields none := by
  rw [rawAt_succ, Ty.deref_of_not_isPtr hp]
  unfold Ty.fields
  cases t.core <;> rfl

/-- completeness of the key set: a field the checker may accept, at any depth, has an entry -/
theorem rawAt_isSome_of_level (d : NDefects) (name : String) :
    ∀ (k : Nat) (t : Ty) (fuel : Nat), EmbWF t → t.isPtr = false → k < fuel →
      ∀ f ∈ levelFields k t, accepts d f → f.name = name → (rawAt d fuel t name).isSome
  | 0, t, fuel + 1, _, hp, _, f, hf, ha, hn => by
    rw [rawAt_struct d fuel hp]
    rw [levelFields_zero] at hf
    exact loopAt_some_of_own d _ name _ none f hf ha hn
  | k + 1, t, fuel + 1, hwf, hp, hk, f, hf, ha, hn => by
    rw [rawAt_struct d fuel hp]
    rw [levelFields_succ] at hf
    obtain ⟨e, he, hfe⟩ := List.mem_flatMap.1 hf
    have hpe := hwf.here he
    have ih := rawAt_isSome_of_level d name k (embTarget e) fuel (hwf.sub he) hpe (by omega) f hfe ha hn
    apply loopAt_some_of_emb d _ name _ none e (mem_embedded.1 he).1 (mem_embedded.1 he).2
    rw [rawAt_congr d fuel (t' := embTarget e)]
    · exact ih
    · rw [deref_eq_embTarget hpe, Ty.deref_of_not_isPtr hpe]

theorem Table.mem_keys_of_get?_isSome {t : Table} {n : String} (h : (t.get? n).isSome) : n ∈ t.keys := by
  by_cases hm : n ∈ t.keys
  · exact hm
  · rw [Table.get?_eq_none_of_not_mem hm] at h; cases h

end ExprModel
