import ExprModel.Proofs.ParserErase
/-
The accepted token lists are printings, part 2: primaries, identifiers and calls, closures, postfix chains.
-/
namespace ExprModel.Parser

variable (cfg : Cfg) (sh : NumShow)

theorem era_prim (hy : EraHyp cfg) {f : Nat} (ih : EraAt cfg sh f) : ∀ d ts, Plain cfg sh ts →
    Post (QE sh ts) (parsePrimary cfg (f+1) d ts) := by
  intro d ts hpl
  rw [parsePrimary]
  -- finishing with the postfix loop on a node whose text has been consumed
  have fin : ∀ (node : Node) (b : Bool) (tsk : List Token), Cons ts tsk (flat sh node) →
      Post (QE sh ts) (parsePostfix cfg f d node b tsk) := by
    intro node b tsk hc
    refine (ih.post d node b tsk (hpl.of_cons cfg sh hc)).mono ?_
    intro n ts' ⟨w, hw, hfn⟩
    exact (hc.trans hw).cast hfn.symm
  split
  · next pu hu =>
    obtain ⟨hk, hop⟩ := unOp_lookup cfg hu
    refine Post.bind (post_next' ts) ?_
    intro _ ts1 he
    have hkeep : keepTok (cur ts) = true :=
      keep_of_operator hk (by intro hv; rw [hv, hy.un_hash] at hop; cases hop)
    have hc1 := cons_of_next he hkeep (by rw [hk]; decide)
    refine Post.bind (ih.expr d pu ts1 (hpl.of_cons cfg sh hc1)) ?_
    intro e ts2 he2
    exact fin _ _ ts2 ((hc1.trans he2).cast (by simp [flat]))
  · split
    · next hlp =>
      refine Post.bind (post_next' ts) ?_
      intro _ ts1 he
      have hc1 := cons_of_paren he hlp (Or.inl rfl)
      refine Post.bind (ih.expr d 0 ts1 (hpl.of_cons cfg sh hc1)) ?_
      intro e ts2 he2
      have hc2 := hc1.trans he2
      refine Post.bind (post_expect' _ _ ts2) ?_
      intro _ ts3 ⟨he3, hrp⟩
      have hc3 := hc2.trans (cons_of_paren he3 hrp (Or.inr rfl))
      exact fin e false ts3 (hc3.cast (by simp))
    · split
      · next hh =>
        split
        · refine Post.bind (post_next' ts) ?_
          intro _ ts1 he
          obtain ⟨hkind, hval⟩ := kind_of_is hh
          have hc1 := cons_of_next_drop he (by simp [keepTok, Token.is, hkind, hval]) (by rw [hkind]; decide)
          exact fin _ false ts1 (hc1.cast (by simp [flat]))
        · exact Post.err
      · split
        · split
          · exact fin _ false ts ((Cons.refl ts).cast (by simp [flat]))
          · exact Post.err
        · exact ih.pexp d ts hpl

theorem era_pexp {f : Nat} (ih : EraAt cfg sh f) : ∀ d ts, Plain cfg sh ts →
    Post (QE sh ts) (parsePrimaryExpression cfg (f+1) d ts) := by
  intro d ts hpl
  rw [parsePrimaryExpression]
  have fin : ∀ (node : Node) (b : Bool) (tsk : List Token), Cons ts tsk (flat sh node) →
      Post (QE sh ts) (parsePostfix cfg f d node b tsk) := by
    intro node b tsk hc
    refine (ih.post d node b tsk (hpl.of_cons cfg sh hc)).mono ?_
    intro n ts' ⟨w, hw, hfn⟩
    exact (hc.trans hw).cast hfn.symm
  split
  · next hkind =>
    refine Post.bind (post_next' ts) ?_
    intro _ ts1 he
    have hc1 := cons_of_next he (keep_of_plain_kind (by rw [hkind]; decide) (by rw [hkind]; decide))
      (by rw [hkind]; decide)
    split
    · next hv =>
      have hv' : (cur ts).value = "true" := by simpa using hv
      exact Post.ok (hc1.cast (by simp [flat, hv', nv]))
    · split
      · next hv =>
        have hv' : (cur ts).value = "false" := by simpa using hv
        exact Post.ok (hc1.cast (by simp [flat, hv', nv]))
      · split
        · next hv =>
          have hv' : (cur ts).value = "nil" := by simpa using hv
          exact Post.ok (hc1.cast (by simp [flat, hv', nv]))
        · refine Post.bind (ih.ident d _ ts1 (hpl.of_cons cfg sh hc1)) ?_
          intro n ts2 ⟨w, hw, hfn⟩
          exact fin n false ts2 ((hc1.trans hw).cast (by rw [hfn]; simp))
  · next hkind =>
    refine Post.bind (post_next' ts) ?_
    intro _ ts1 he
    have hc1 := cons_of_next he (keep_of_plain_kind (by rw [hkind]; decide) (by rw [hkind]; decide))
      (by rw [hkind]; decide)
    have hmem : cur ts ∈ ts := by
      have : cur ts ∈ cur ts :: ts1 := by simp
      rwa [← he] at this
    have hnum := hpl.2 _ hmem hkind
    split
    · next v hv =>
      refine Post.ok (hc1.cast ?_)
      rcases hnum with ⟨n, hn, hval⟩ | ⟨b, hb, _⟩
      · rw [hn] at hv; cases hv
        simp [flat, hval]
      · rw [hb] at hv; cases hv
    · next b hb' =>
      refine Post.ok (hc1.cast ?_)
      rcases hnum with ⟨n, hn, _⟩ | ⟨b, hb, hval⟩
      · rw [hn] at hb'; cases hb'
      · rw [hb] at hb'; cases hb'
        simp [flat, hval]
    · exact Post.err
  · next hkind =>
    refine Post.bind (post_next' ts) ?_
    intro _ ts1 he
    have hc1 := cons_of_next he (keep_of_plain_kind (by rw [hkind]; decide) (by rw [hkind]; decide))
      (by rw [hkind]; decide)
    exact Post.ok (hc1.cast (by simp [flat]))
  · split
    · refine Post.bind (ih.arr d ts hpl) ?_
      intro n ts1 hn
      exact fin n false ts1 hn
    · split
      · refine Post.bind (ih.map d ts hpl) ?_
        intro n ts1 hn
        exact fin n false ts1 hn
      · exact Post.err

theorem era_clos {f : Nat} (ih : EraAt cfg sh f) : ∀ d ts, Plain cfg sh ts →
    Post (QE sh ts) (parseClosure cfg (f+1) d ts) := by
  intro d ts hpl
  rw [parseClosure]
  refine Post.bind (post_expect' _ _ ts) ?_
  intro _ ts1 ⟨he, hlb⟩
  have hc1 := cons_of_is he hlb (Or.inr rfl) (by decide) (by decide) (by decide)
  refine Post.bind (ih.expr (d+1) 0 ts1 (hpl.of_cons cfg sh hc1)) ?_
  intro n ts2 hn
  have hc2 := hc1.trans hn
  refine Post.bind (post_expect' _ _ ts2) ?_
  intro _ ts3 ⟨he3, hrb⟩
  have hc3 := hc2.trans (cons_of_is he3 hrb (Or.inr rfl) (by decide) (by decide) (by decide))
  exact Post.ok (hc3.cast (by simp [flat, nv]))

theorem era_ident {f : Nat} (ih : EraAt cfg sh f) : ∀ d tok ts, Plain cfg sh ts →
    Post (fun n ts' => ∃ w, Cons ts ts' w ∧ flat sh n = nv tok.value :: w)
      (parseIdentifierExpression cfg (f+1) d tok ts) := by
  intro d tok ts hpl
  rw [parseIdentifierExpression]
  split
  · next hlp =>
    split
    · next ar hl =>
      refine Post.bind (post_expect' _ _ ts) ?_
      intro _ ts1 ⟨he, hlp'⟩
      have hc1 := cons_of_paren he hlp' (Or.inl rfl)
      refine Post.bind (Q1 := fun args ts5 => Cons ts ts5 (flatB sh args)) ?_ ?_
      · split
        · refine Post.bind (ih.expr d 0 ts1 (hpl.of_cons cfg sh hc1)) ?_
          intro a ts2 ha
          exact Post.ok ((hc1.trans ha).cast (by simp [flatB]))
        · split
          · refine Post.bind (ih.expr d 0 ts1 (hpl.of_cons cfg sh hc1)) ?_
            intro a ts2 ha
            have hc2 := hc1.trans ha
            refine Post.bind (post_expect' _ _ ts2) ?_
            intro _ ts3 ⟨he3, hcm⟩
            have hc3 := hc2.trans (cons_of_is he3 hcm (Or.inl rfl) (by decide) (by decide) (by decide))
            refine Post.bind (ih.clos d ts3 (hpl.of_cons cfg sh hc3)) ?_
            intro c ts4 hc
            exact Post.ok ((hc3.trans hc).cast (by simp [flatB, nv]))
          · exact Post.ok (hc1.cast (by simp [flatB]))
      · intro args ts5 hargs
        refine Post.bind (post_expect' _ _ ts5) ?_
        intro _ ts6 ⟨he6, hrp⟩
        have hc6 := hargs.trans (cons_of_paren he6 hrp (Or.inr rfl))
        exact Post.ok ⟨_, hc6, by simp [flat]⟩
    · refine Post.bind (ih.args d ts hpl) ?_
      intro args ts1 ha
      exact Post.ok ⟨_, ha, by simp [flat]⟩
  · exact Post.ok ⟨[], Cons.refl ts, by simp [flat]⟩

end ExprModel.Parser
