import ExprModel.Lex.Lexer
/-
Token positions (C12, DESIGN Appendix D): every token `lex` emits carries the position of the first
character of its raw text.

`Good L0 w s rest` is the invariant of the lexer inside one token: the token started at location `L0`,
`w` are the runes read since (I1: `word` is that slice; I3: `startLoc = L0`; I2: `loc` is the position
after `w` — *unless the input is exhausted*, where a `backup` after `next = eof` leaves `loc` stale, I5).
Every primitive preserves it (`Ext`); `root_spec` composes them per state function; `lexLoop_laid` runs the
loop.
-/
namespace ExprModel.Lex

def advLoc (l : Loc) (cs : List Char) : Loc := cs.foldl Loc.adv l

@[simp] theorem advLoc_nil (l : Loc) : advLoc l [] = l := rfl
@[simp] theorem advLoc_cons (l : Loc) (c : Char) (cs : List Char) : advLoc l (c :: cs) = advLoc (Loc.adv l c) cs := rfl
theorem advLoc_append (l : Loc) (a b : List Char) : advLoc l (a ++ b) = advLoc (advLoc l a) b := by
  simp [advLoc, List.foldl_append]
theorem advLoc_snoc (l : Loc) (a : List Char) (c : Char) : advLoc l (a ++ [c]) = Loc.adv (advLoc l a) c := by
  simp [advLoc_append]

/-- position of the character that follows the prefix `pre` of the source: line 1-based, column 0-based in runes -/
def posOf (pre : List Char) : Loc := advLoc ⟨1, 0⟩ pre

theorem advLoc_line (l : Loc) (cs : List Char) : (advLoc l cs).line = l.line + cs.count '\n' := by
  induction cs generalizing l with
  | nil => simp
  | cons c cs ih =>
    rw [advLoc_cons, ih]
    by_cases h : c = '\n'
    · subst h; simp [Loc.adv]; omega
    · have : ('\n' == c) = false := by simpa using fun e => h e.symm
      simp [Loc.adv, h, List.count_cons, this]

theorem advLoc_noNL (l : Loc) (cs : List Char) (h : ∀ c ∈ cs, c ≠ '\n') :
    advLoc l cs = ⟨l.line, l.col + cs.length⟩ := by
  induction cs generalizing l with
  | nil => rfl
  | cons c cs ih =>
    have hc : c ≠ '\n' := h c (by simp)
    rw [advLoc_cons, ih _ (fun x hx => h x (by simp [hx]))]
    simp [Loc.adv, hc]; omega

/-- the column is the number of runes since the last line feed -/
theorem advLoc_col_afterNL (l : Loc) (a b : List Char) (h : ∀ c ∈ b, c ≠ '\n') :
    (advLoc l (a ++ '\n' :: b)).col = b.length := by
  rw [advLoc_append, advLoc_cons, advLoc_noNL _ b h]
  simp [Loc.adv]

/-! ### the invariant inside one token -/

structure Good (L0 : Loc) (w : List Char) (s : LState) (rest : List Char) : Prop where
  word : s.word = w.reverse
  start : s.startLoc = L0
  loc : rest ≠ [] → s.loc = advLoc L0 w

/-- the outcome `(s', rest')` of an action started in a state that had read `w` with `rest` ahead -/
def Ext (L0 : Loc) (w rest : List Char) (o : LState × List Char) : Prop :=
  ∃ w1, rest = w1 ++ o.2 ∧ Good L0 (w ++ w1) o.1 o.2

theorem Ext.refl {L0 w s rest} (h : Good L0 w s rest) : Ext L0 w rest (s, rest) :=
  ⟨[], by simp, by simpa using h⟩

theorem Ext.trans {L0 w rest o1 o2} (h1 : Ext L0 w rest o1)
    (h2 : ∀ w', Good L0 w' o1.1 o1.2 → Ext L0 w' o1.2 o2) : Ext L0 w rest o2 := by
  obtain ⟨w1, e1, g1⟩ := h1
  obtain ⟨w2, e2, g2⟩ := h2 _ g1
  exact ⟨w1 ++ w2, by rw [e1, e2]; simp, by simpa [List.append_assoc] using g2⟩

theorem good_adv {L0 w s c cs} (h : Good L0 w s (c :: cs)) : Good L0 (w ++ [c]) (s.adv c) cs :=
  ⟨by simp [LState.adv, h.word], by simp [LState.adv, h.start],
   fun _ => by simp [LState.adv, h.loc (by simp), advLoc_snoc]⟩

theorem ext_adv {L0 w s c cs} (h : Good L0 w s (c :: cs)) : Ext L0 w (c :: cs) (s.adv c, cs) :=
  ⟨[c], rfl, good_adv h⟩

theorem backup_adv (s : LState) (c : Char) (cs : List Char) :
    backup (s.adv c) cs = ({ s with width := 1, prev := s.loc }, c :: cs) := rfl

theorem backup_atEof (s : LState) : backup s.atEof [] = ({ s with width := 0, loc := s.prev }, []) := by
  simp [backup, LState.atEof]

theorem good_unread {L0 w s c cs} (h : Good L0 w s (c :: cs)) :
    Good L0 w { s with width := 1, prev := s.loc } (c :: cs) :=
  ⟨h.word, h.start, h.loc⟩

theorem good_eof {L0 w s} (h : Good L0 w s []) (s' : LState) (hw : s'.word = s.word)
    (hs : s'.startLoc = s.startLoc) : Good L0 w s' [] :=
  ⟨hw ▸ h.word, hs ▸ h.start, fun hne => absurd rfl hne⟩

theorem peek_cons (s : LState) (c : Char) (cs : List Char) :
    peek s (c :: cs) = (some c, { s with width := 1, prev := s.loc }, c :: cs) := rfl

theorem peek_nil (s : LState) : peek s [] = (none, { s with width := 0, loc := s.prev }, []) := by
  simp [peek, next, backup_atEof]

theorem ext_peek {L0 w s rest} (h : Good L0 w s rest) : Ext L0 w rest (peek s rest).2 := by
  cases rest with
  | nil => rw [peek_nil]; exact Ext.refl (good_eof h _ rfl rfl)
  | cons c cs => rw [peek_cons]; exact Ext.refl (good_unread h)

theorem peek_rest (s : LState) (rest : List Char) : (peek s rest).2.2 = rest := by
  cases rest with
  | nil => rw [peek_nil]
  | cons c cs => rw [peek_cons]

theorem peek_fst (s : LState) (rest : List Char) : (peek s rest).1 = rest.head? := by
  cases rest with
  | nil => rw [peek_nil]; rfl
  | cons c cs => rw [peek_cons]; rfl

theorem accept_cons (v : List Char) (s : LState) (c : Char) (cs : List Char) :
    accept v s (c :: cs) =
      if v.contains c then (true, s.adv c, cs) else (false, { s with width := 1, prev := s.loc }, c :: cs) := by
  simp only [accept, next]
  split <;> rfl

theorem accept_nil (v : List Char) (s : LState) :
    accept v s [] = (false, { s with width := 0, loc := s.prev }, []) := by
  simp [accept, next, backup_atEof]

theorem ext_accept {L0 w s rest} (v : List Char) (h : Good L0 w s rest) : Ext L0 w rest (accept v s rest).2 := by
  cases rest with
  | nil => rw [accept_nil]; exact Ext.refl (good_eof h _ rfl rfl)
  | cons c cs =>
    rw [accept_cons]
    split
    · exact ext_adv h
    · exact Ext.refl (good_unread h)

theorem Ext.cons {L0 w c cs o} (h : Ext L0 (w ++ [c]) cs o) : Ext L0 w (c :: cs) o := by
  obtain ⟨w1, e1, g1⟩ := h
  exact ⟨c :: w1, by simp [e1], by simpa [List.append_assoc] using g1⟩

theorem ext_acceptRunP {L0 w s rest} (p : Char → Bool) (h : Good L0 w s rest) :
    Ext L0 w rest (acceptRunP p s rest) := by
  induction rest generalizing w s with
  | nil =>
    simp only [acceptRunP]
    rw [backup_atEof]
    exact Ext.refl (good_eof h _ rfl rfl)
  | cons c cs ih =>
    simp only [acceptRunP]
    split
    · exact Ext.cons (ih (good_adv h))
    · rw [backup_adv]; exact Ext.refl (good_unread h)

theorem ext_acceptRun {L0 w s rest} (v : List Char) (h : Good L0 w s rest) :
    Ext L0 w rest (acceptRun v s rest) := ext_acceptRunP _ h

/-- chaining through the result of an action that also returns a flag -/
theorem Ext.then {L0 w rest o1 o2} (h1 : Ext L0 w rest o1)
    (h2 : ∀ w', Good L0 w' o1.1 o1.2 → Ext L0 w' o1.2 o2) : Ext L0 w rest o2 := Ext.trans h1 h2

/-! ### numbers -/

theorem ext_numberPrefix {L0 w s rest} (T : LexTables) (h : Good L0 w s rest) :
    Ext L0 w rest (numberPrefix T s rest).2 := by
  unfold numberPrefix
  have e2 := ext_accept T.hexMark h
  generalize accept T.hexMark s rest = a2 at *
  obtain ⟨x, s2, r2⟩ := a2
  simp only at e2 ⊢
  split
  · exact e2
  · refine Ext.trans e2 fun w2 g2 => ?_
    have e3 := ext_accept T.octMark g2
    generalize accept T.octMark s2 r2 = a3 at *
    obtain ⟨o, s3, r3⟩ := a3
    simp only at e3 ⊢
    split
    · exact e3
    · refine Ext.trans e3 fun w3 g3 => ?_
      have e4 := ext_accept T.binMark g3
      generalize accept T.binMark s3 r3 = a4 at *
      obtain ⟨b, s4, r4⟩ := a4
      simp only at e4 ⊢
      split <;> exact e4

theorem ext_numberDigits {L0 w s rest} (T : LexTables) (h : Good L0 w s rest) :
    Ext L0 w rest (numberDigits T s rest).2 := by
  unfold numberDigits
  have e1 := ext_accept T.zero h
  generalize accept T.zero s rest = a1 at *
  obtain ⟨z, s1, r1⟩ := a1
  simp only at e1 ⊢
  split
  · exact Ext.trans e1 fun w1 g1 => ext_numberPrefix T g1
  · exact e1

/-- the fraction part either extends the token or asks for the restore -/
theorem ext_numberFraction {L0 w s rest} (T : LexTables) (digits : List Char) (h : Good L0 w s rest)
    (o : LState × List Char) (ho : numberFraction T digits s rest = some o) : Ext L0 w rest o := by
  unfold numberFraction at ho
  have e1 := ext_accept T.dotC h
  generalize accept T.dotC s rest = gen5 at *
  obtain ⟨d, s1, r1⟩ := gen5
  simp only at e1 ho
  split at ho
  · refine Ext.trans e1 fun w1 g1 => ?_
    have e2 := ext_peek g1
    generalize peek s1 r1 = gen6 at *
    obtain ⟨p, s2, r2⟩ := gen6
    simp only at e2 ho
    split at ho
    · cases ho
    · cases ho
      exact Ext.trans e2 fun w2 g2 => ext_acceptRun digits g2
  · cases ho; exact e1

theorem ext_numberExponent {L0 w s rest} (T : LexTables) (digits : List Char) (h : Good L0 w s rest) :
    Ext L0 w rest (numberExponent T digits s rest) := by
  unfold numberExponent
  have e1 := ext_accept T.expMark h
  generalize accept T.expMark s rest = gen7 at *
  obtain ⟨e, s1, r1⟩ := gen7
  simp only at e1 ⊢
  split
  · refine Ext.trans e1 fun w1 g1 => ?_
    have e2 := ext_accept T.signs g1
    generalize accept T.signs s1 r1 = gen8 at *
    obtain ⟨sg, s2, r2⟩ := gen8
    simp only at e2 ⊢
    exact Ext.trans e2 fun w2 g2 => ext_acceptRun digits g2
  · exact e1

theorem ext_next {L0 w s rest} (h : Good L0 w s rest) : Ext L0 w rest (next s rest).2 := by
  cases rest with
  | nil => exact Ext.refl (good_eof h _ rfl rfl)
  | cons c cs => exact ext_adv h

/-- after the digits of a number the lexer never goes back before them -/
theorem ext_scanNumber_after {L0 w s1 r1} (cc : CharClass) (T : LexTables) (digits : List Char)
    (h : Good L0 w s1 r1) :
    Ext L0 w r1 (match numberFraction T digits s1 r1 with
      | none => (true, { s1 with width := 1 }, r1)
      | some (s2, r2) =>
        match numberExponent T digits s2 r2 with
        | (s3, r3) =>
          match peek s3 r3 with
          | (p, s4, r4) =>
            match p with
            | some c => if cc.isAlphaNumeric c then (false, (next s4 r4).2.1, (next s4 r4).2.2) else (true, s4, r4)
            | none => (true, s4, r4)).2 := by
  cases hf : numberFraction T digits s1 r1 with
  | none => exact Ext.refl ⟨h.word, h.start, h.loc⟩
  | some o =>
    obtain ⟨s2, r2⟩ := o
    have e2 := ext_numberFraction T digits h _ hf
    simp only
    refine Ext.trans e2 fun w2 g2 => ?_
    have e3 := ext_numberExponent T digits g2
    generalize numberExponent T digits s2 r2 = gen9 at *
    obtain ⟨s3, r3⟩ := gen9
    simp only at e3 ⊢
    refine Ext.trans e3 fun w3 g3 => ?_
    have e4 := ext_peek g3
    generalize peek s3 r3 = gen10 at *
    obtain ⟨p, s4, r4⟩ := gen10
    simp only at e4 ⊢
    refine Ext.trans e4 fun w4 g4 => ?_
    cases p with
    | none => exact Ext.refl g4
    | some c =>
      simp only
      split
      · exact ext_next g4
      · exact Ext.refl g4

theorem scanNumber_eq (cc : CharClass) (T : LexTables) (s : LState) (rest : List Char) :
    scanNumber cc T s rest =
      (match numberFraction T (numberDigits T s rest).1
          (acceptRun (numberDigits T s rest).1 (numberDigits T s rest).2.1 (numberDigits T s rest).2.2).1
          (acceptRun (numberDigits T s rest).1 (numberDigits T s rest).2.1 (numberDigits T s rest).2.2).2 with
      | none => (true, { (acceptRun (numberDigits T s rest).1 (numberDigits T s rest).2.1 (numberDigits T s rest).2.2).1 with width := 1 },
          (acceptRun (numberDigits T s rest).1 (numberDigits T s rest).2.1 (numberDigits T s rest).2.2).2)
      | some (s2, r2) =>
        match numberExponent T (numberDigits T s rest).1 s2 r2 with
        | (s3, r3) =>
          match peek s3 r3 with
          | (p, s4, r4) =>
            match p with
            | some c => if cc.isAlphaNumeric c then (false, (next s4 r4).2.1, (next s4 r4).2.2) else (true, s4, r4)
            | none => (true, s4, r4)) := by
  unfold scanNumber
  rfl

/-- `scanNumber` only extends the token; `hd` = what its first two actions (prefix, digit run) read -/
theorem ext_scanNumber {L0 w s rest} (cc : CharClass) (T : LexTables) (h : Good L0 w s rest) :
    Ext L0 w rest (scanNumber cc T s rest).2 := by
  rw [scanNumber_eq]
  have e1 := ext_numberDigits T h
  refine Ext.trans e1 fun w1 g1 => ?_
  have e2 := ext_acceptRun (numberDigits T s rest).1 g1
  refine Ext.trans e2 fun w2 g2 => ?_
  exact ext_scanNumber_after cc T _ g2

/-! ### what a state function hands back to `root` -/

/-- the state `root` is entered in: nothing read, `startLoc = loc`, and `loc` is the true position `L`
unless the input is exhausted -/
structure Fresh (s : LState) (L : Loc) (rest : List Char) : Prop where
  word : s.word = []
  start : s.startLoc = s.loc
  loc : rest ≠ [] → s.loc = L

theorem Fresh.good {s L c cs} (h : Fresh s L (c :: cs)) : Good L [] s (c :: cs) :=
  ⟨by simp [h.word], by rw [h.start, h.loc (by simp)], fun _ => by simp [h.loc]⟩

theorem fresh_ignore {L0 w s r} (h : Good L0 w s r) : Fresh s.ignore (advLoc L0 w) r :=
  ⟨rfl, rfl, fun hne => by simp [LState.ignore, h.loc hne]⟩

/-- how the value of a token relates to its raw text -/
def TextOf (cc : CharClass) (T : LexTables) (t : Token) (raw : List Char) : Prop :=
  t.value = String.ofList raw ∨
  (t.kind = .string ∧ ∃ v, unescape T raw = .ok v ∧ t.value = String.ofList v) ∨
  (t.kind = .operator ∧ t.value = "not in" ∧
    ∃ mid, raw = T.notWord.toList ++ mid ++ T.inWord.toList ∧ ∀ c ∈ mid, cc.wordBlank c = true)

/-- outcome of a state function that had read `w` since the token start `L0` with `rest` ahead -/
def StepOK (cc : CharClass) (T : LexTables) (L0 : Loc) (w rest : List Char) : Step → Prop
  | .tok t s1 r1 => ∃ w1, rest = w1 ++ r1 ∧ t.loc = L0 ∧ t.kind ≠ .eof ∧ TextOf cc T t (w ++ w1) ∧
      Fresh s1 (advLoc L0 (w ++ w1)) r1
  | .fail e => e.2 ≠ "fuel"
  | .skip _ _ => False
  | .eof _ => False

theorem StepOK.of_ext {cc T L0 w rest o st} (h : Ext L0 w rest o)
    (h2 : ∀ w', Good L0 w' o.1 o.2 → StepOK cc T L0 w' o.2 st) : StepOK cc T L0 w rest st := by
  obtain ⟨w1, e1, g1⟩ := h
  have := h2 _ g1
  cases st with
  | tok t s1 r1 =>
    obtain ⟨w2, e2, hl, hk, ht, hf⟩ := this
    exact ⟨w1 ++ w2, by rw [e1, e2]; simp, hl, hk, by simpa [List.append_assoc] using ht,
      by simpa [List.append_assoc] using hf⟩
  | fail e => trivial
  | skip _ _ => exact this
  | eof _ => exact this

theorem StepOK.cons {cc T L0 w c cs st} (h : StepOK cc T L0 (w ++ [c]) cs st) : StepOK cc T L0 w (c :: cs) st := by
  cases st with
  | tok t s1 r1 =>
    obtain ⟨w2, e2, hl, hk, ht, hf⟩ := h
    exact ⟨c :: w2, by simp [e2], hl, hk, by simpa [List.append_assoc] using ht,
      by simpa [List.append_assoc] using hf⟩
  | fail e => trivial
  | skip _ _ => exact h
  | eof _ => exact h

theorem text_of_good {L0 w s r} (h : Good L0 w s r) : s.text = w := by
  simp [LState.text, h.word]

theorem stepOK_emit {cc T L0 w s r} (k : TokKind) (hk : k ≠ .eof) (h : Good L0 w s r) :
    StepOK cc T L0 w r (emit k s r) :=
  ⟨[], by simp, h.start, hk, Or.inl (by simp [mkTok, text_of_good h]), by simpa using fresh_ignore h⟩

theorem stepOK_numberState {T L0 w s rest} (cc : CharClass) (h : Good L0 w s rest) :
    StepOK cc T L0 w rest (numberState cc T s rest) := by
  unfold numberState
  have e := ext_scanNumber cc T h
  generalize scanNumber cc T s rest = a at *
  obtain ⟨b, s1, r1⟩ := a
  cases b with
  | false => exact (by decide : ("badnumber" : String) ≠ "fuel")
  | true => exact StepOK.of_ext e fun w' g => stepOK_emit .number (by decide) g

theorem stepOK_dotTail {cc T L0 w s rest} (h : Good L0 w s rest) :
    StepOK cc T L0 w rest (emit .operator (accept T.dotC s rest).2.1 (accept T.dotC s rest).2.2) :=
  StepOK.of_ext (ext_accept T.dotC h) fun _ g2 => stepOK_emit .operator (by decide) g2

theorem stepOK_dotState {T L0 w s c cs} (cc : CharClass) (h : Good L0 w s (c :: cs)) :
    StepOK cc T L0 (w ++ [c]) cs (dotState cc T s (c :: cs)) := by
  unfold dotState
  have g := good_adv h
  cases cs with
  | nil =>
    simp only [next, accept_nil, Bool.false_eq_true, if_false]
    exact stepOK_dotTail (good_eof g _ rfl rfl)
  | cons c2 cs2 =>
    by_cases hd : T.dotDigits.contains c2 = true
    · simp only [next, accept_cons, hd, if_true, backup_adv]
      exact stepOK_numberState cc (good_unread g)
    · simp only [next, accept_cons, hd, Bool.false_eq_true, if_false]
      exact stepOK_dotTail (good_unread g)

theorem stepOK_nilsafeState {cc T L0 w s c cs} (h : Good L0 w s (c :: cs)) :
    StepOK cc T L0 (w ++ [c]) cs (nilsafeState T s (c :: cs)) := by
  unfold nilsafeState
  simp only [next]
  exact StepOK.of_ext (ext_accept T.nilsafeSecond (good_adv h)) fun _ g2 => stepOK_emit .operator (by decide) g2

/-! ### string literals -/

theorem ext_scanString {L0} (T : LexTables) (q : Char) (rest : List Char) :
    ∀ (m : SMode) (s : LState) (w : List Char) (o : LState × List Char), Good L0 w s rest →
      scanString T q m s rest = .ok o → Ext L0 w rest o := by
  induction rest with
  | nil => intro m s w o _ ho; cases m <;> simp [scanString] at ho
  | cons c cs ih =>
    intro m s w o h ho
    have g := good_adv h
    cases m with
    | normal =>
      simp only [scanString] at ho
      split at ho
      · cases ho; exact ext_adv h
      · split at ho
        · cases ho
        · split at ho
          · exact Ext.cons (ih _ _ _ _ g ho)
          · exact Ext.cons (ih _ _ _ _ g ho)
    | esc =>
      simp only [scanString] at ho
      split at ho
      · exact Ext.cons (ih _ _ _ _ g ho)
      · split at ho
        · exact Ext.cons (ih _ _ _ _ g ho)
        · split at ho
          · exact Ext.cons (ih _ _ _ _ g ho)
          · cases ho
    | digits b n =>
      simp only [scanString] at ho
      split at ho
      · exact Ext.cons (ih _ _ _ _ g ho)
      · cases ho

/-! ### identifiers, `not`, `not in` -/

theorem skipSpaces_spec {L0 w s rest} (cc : CharClass) (h : Good L0 w s rest) :
    ∃ mid, (∀ c ∈ mid, cc.wordBlank c = true) ∧ rest = mid ++ (skipSpaces cc s rest).2 ∧
      Good L0 (w ++ mid) (skipSpaces cc s rest).1 (skipSpaces cc s rest).2 := by
  induction rest generalizing w s with
  | nil =>
    refine ⟨[], by simp, ?_, ?_⟩
    · simp [skipSpaces, peek_nil]
    · simp only [skipSpaces, peek_nil, List.append_nil]
      exact good_eof h _ rfl rfl
  | cons c cs ih =>
    simp only [skipSpaces, peek_cons]
    split
    · rename_i hc
      obtain ⟨mid, hm, e, g⟩ := ih (good_adv (good_unread h))
      refine ⟨c :: mid, ?_, ?_, ?_⟩
      · intro x hx
        simp only [List.mem_cons] at hx
        rcases hx with rfl | hx
        · exact hc
        · exact hm x hx
      · simpa using e
      · simpa [List.append_assoc] using g
    · exact ⟨[], by simp, by simp, by simpa using good_unread h⟩

theorem matchWord_spec {L0} (word : List Char) :
    ∀ (s : LState) (rest w : List Char) (o : LState × List Char), Good L0 w s rest →
      matchWord word s rest = some o → rest = word ++ o.2 ∧ Good L0 (w ++ word) o.1 o.2 := by
  induction word with
  | nil => intro s rest w o h ho; simp only [matchWord] at ho; cases ho; exact ⟨by simp, by simpa using h⟩
  | cons ch wd ih =>
    intro s rest w o h ho
    cases rest with
    | nil => simp [matchWord] at ho
    | cons c cs =>
      simp only [matchWord] at ho
      split at ho
      · rename_i hc
        obtain ⟨e, g⟩ := ih _ _ _ _ (good_adv h) ho
        subst hc
        exact ⟨by simp [e], by simpa [List.append_assoc] using g⟩
      · cases ho

theorem good_restore {L0 w s rest} {cur : LState} (h : Good L0 w s rest) (hc : cur.startLoc = L0) :
    Good L0 w { cur with word := s.word, loc := s.loc, prev := s.prev } rest :=
  ⟨h.word, hc, h.loc⟩

theorem acceptWord_spec {L0 w s rest} (cc : CharClass) (word : List Char) (h : Good L0 w s rest) :
    (∀ s' r', acceptWord cc word s rest = (true, s', r') →
      ∃ mid, (∀ c ∈ mid, cc.wordBlank c = true) ∧ rest = mid ++ word ++ r' ∧
        Good L0 (w ++ (mid ++ word)) s' r') ∧
    (∀ s' r', acceptWord cc word s rest = (false, s', r') → r' = rest ∧ Good L0 w s' rest) := by
  unfold acceptWord
  obtain ⟨mid, hm, e1, g1⟩ := skipSpaces_spec cc h
  generalize skipSpaces cc s rest = a1 at *
  obtain ⟨s1, r1⟩ := a1
  simp only at e1 g1 ⊢
  cases hmw : matchWord word s1 r1 with
  | none =>
    simp only
    refine ⟨fun s' r' he => (by cases he), fun s' r' he => ?_⟩
    cases he
    exact ⟨rfl, good_restore h g1.start⟩
  | some o =>
    obtain ⟨s2, r2⟩ := o
    obtain ⟨e2, g2⟩ := matchWord_spec word _ _ _ _ g1 hmw
    simp only at e2 g2 ⊢
    have e3 := ext_peek g2
    have hr3 := peek_rest s2 r2
    generalize peek s2 r2 = a3 at *
    obtain ⟨p, s3, r3⟩ := a3
    simp only at e3 hr3 ⊢
    subst hr3
    obtain ⟨w3, e3', g3⟩ := e3
    have hw3 : w3 = [] := by
      have := congrArg List.length e3'
      simp only [List.length_append] at this
      exact List.eq_nil_of_length_eq_zero (by omega)
    subst hw3
    simp only [List.append_nil] at g3
    have hgood : Good L0 (w ++ (mid ++ word)) s3 r3 := by simpa [List.append_assoc] using g3
    have hrest : rest = mid ++ word ++ r3 := by rw [e1, e2]; simp
    cases p with
    | none =>
      simp only
      exact ⟨fun s' r' he => (by cases he; exact ⟨mid, hm, hrest, hgood⟩), fun s' r' he => (by cases he)⟩
    | some c =>
      simp only
      split
      · exact ⟨fun s' r' he => (by cases he; exact ⟨mid, hm, hrest, hgood⟩), fun s' r' he => (by cases he)⟩
      · refine ⟨fun s' r' he => (by cases he), fun s' r' he => ?_⟩
        cases he
        exact ⟨rfl, good_restore h g3.start⟩

theorem stepOK_emitValue_plain {cc T L0 w s r} (k : TokKind) (hk : k ≠ .eof) (v : List Char) (hv : v = w)
    (h : Good L0 w s r) : StepOK cc T L0 w r (emitValue k v s r) :=
  ⟨[], by simp, h.start, hk, Or.inl (by simp [mkTok, hv]), by simpa using fresh_ignore h⟩

theorem stepOK_notState {cc T L0 w s rest} (hnot : T.notWord = "not") (hw : w = T.notWord.toList)
    (h : Good L0 w s rest) : StepOK cc T L0 w rest (notState cc T s rest) := by
  unfold notState
  obtain ⟨ht, hf⟩ := acceptWord_spec cc T.inWord.toList h
  generalize acceptWord cc T.inWord.toList s rest = a at *
  obtain ⟨b, s1, r1⟩ := a
  cases b with
  | true =>
    obtain ⟨mid, hm, e, g⟩ := ht s1 r1 rfl
    simp only
    have hraw : w ++ (mid ++ T.inWord.toList) = T.notWord.toList ++ mid ++ T.inWord.toList := by
      rw [hw]; simp [List.append_assoc]
    have hval : (mkTok .operator "not in".toList s1.startLoc).value = "not in" := by
      show String.ofList "not in".toList = "not in"
      exact String.ofList_toList
    exact ⟨mid ++ T.inWord.toList, by simpa [List.append_assoc] using e, g.start, (by simp [mkTok]),
      Or.inr (Or.inr ⟨rfl, hval, mid, hraw, hm⟩), by simpa using fresh_ignore g⟩
  | false =>
    obtain ⟨e, g⟩ := hf s1 r1 rfl
    subst e
    simp only
    exact stepOK_emitValue_plain .operator (by decide) _ (by rw [hw, hnot]) g

theorem stepOK_identifierState {T L0 w s c cs} (cc : CharClass) (hnot : T.notWord = "not")
    (hc : cc.isAlphaNumeric c = true) (h : Good L0 w s (c :: cs)) :
    StepOK cc T L0 (w ++ [c]) cs (identifierState cc T s (c :: cs)) := by
  unfold identifierState
  simp only [acceptRunP, hc, if_true]
  have e := ext_acceptRunP cc.isAlphaNumeric (good_adv h)
  generalize acceptRunP cc.isAlphaNumeric (s.adv c) cs = a at *
  obtain ⟨s1, r1⟩ := a
  simp only
  refine StepOK.of_ext e fun w' g => ?_
  simp only
  split
  · rename_i hw
    refine stepOK_notState hnot ?_ g
    have := congrArg String.toList hw
    simpa [text_of_good g] using this
  · split
    · exact stepOK_emit .operator (by decide) g
    · exact stepOK_emit .identifier (by decide) g

/-! ### progress of `number` on an ASCII digit (standard tables) -/

theorem ascii_digit_cases {c : Char} (h : '0' ≤ c ∧ c ≤ '9') :
    c = '0' ∨ c = '1' ∨ c = '2' ∨ c = '3' ∨ c = '4' ∨ c = '5' ∨ c = '6' ∨ c = '7' ∨ c = '8' ∨ c = '9' := by
  have h1 : 48 ≤ c.toNat := by have := Char.le_def.mp h.1; exact this
  have h2 : c.toNat ≤ 57 := by have := Char.le_def.mp h.2; exact this
  have hc : c = Char.ofNat c.toNat := (Char.ofNat_toNat c).symm
  have : c.toNat = 48 ∨ c.toNat = 49 ∨ c.toNat = 50 ∨ c.toNat = 51 ∨ c.toNat = 52 ∨ c.toNat = 53 ∨
      c.toNat = 54 ∨ c.toNat = 55 ∨ c.toNat = 56 ∨ c.toNat = 57 := by omega
  rcases this with e | e | e | e | e | e | e | e | e | e <;> rw [hc, e] <;> decide

theorem decDigits_contains {c : Char} (h : '0' ≤ c ∧ c ≤ '9') : LexTables.std.decDigits.contains c = true := by
  rcases ascii_digit_cases h with rfl | rfl | rfl | rfl | rfl | rfl | rfl | rfl | rfl | rfl <;> decide

theorem zero_contains (c : Char) : LexTables.std.zero.contains c = true ↔ c = '0' := by
  simp [LexTables.std]

/-- on an ASCII digit, prefix and digit run of `scanNumber` read at least that digit -/
theorem ext_number_digit {L0 w s c cs} (hc : '0' ≤ c ∧ c ≤ '9') (h : Good L0 w s (c :: cs)) :
    Ext L0 (w ++ [c]) cs
      (acceptRun (numberDigits LexTables.std s (c :: cs)).1 (numberDigits LexTables.std s (c :: cs)).2.1
        (numberDigits LexTables.std s (c :: cs)).2.2) := by
  unfold numberDigits
  by_cases hz : c = '0'
  · have hz' : LexTables.std.zero.contains c = true := (zero_contains c).mpr hz
    simp only [accept_cons, hz', if_true]
    have e := ext_numberPrefix LexTables.std (good_adv h)
    exact Ext.trans e fun w1 g1 => ext_acceptRun _ g1
  · have hz' : ¬ (LexTables.std.zero.contains c = true) := fun hh => hz ((zero_contains c).mp hh)
    simp only [accept_cons, hz', if_false, Bool.false_eq_true]
    simp only [acceptRun, acceptRunP]
    have hd : LexTables.std.decDigits.contains c = true := decDigits_contains hc
    simp only [hd, if_true]
    exact ext_acceptRunP _ (good_adv (good_unread h))

theorem stepOK_number_digit {L0 w s c cs} (cc : CharClass) (hc : '0' ≤ c ∧ c ≤ '9')
    (h : Good L0 w s (c :: cs)) :
    StepOK cc LexTables.std L0 (w ++ [c]) cs (numberState cc LexTables.std s (c :: cs)) := by
  unfold numberState
  rw [scanNumber_eq]
  have e1 := ext_number_digit hc h
  generalize acceptRun (numberDigits LexTables.std s (c :: cs)).1 (numberDigits LexTables.std s (c :: cs)).2.1
        (numberDigits LexTables.std s (c :: cs)).2.2 = a at *
  obtain ⟨s1, r1⟩ := a
  have e2 : Ext L0 (w ++ [c]) cs _ :=
    Ext.trans e1 fun w1 g1 => ext_scanNumber_after cc LexTables.std (numberDigits LexTables.std s (c :: cs)).1 g1
  simp only at e2 ⊢
  generalize (match numberFraction LexTables.std (numberDigits LexTables.std s (c :: cs)).1 s1 r1 with
      | none => (true, { s1 with width := 1 }, r1)
      | some (s2, r2) =>
        match numberExponent LexTables.std (numberDigits LexTables.std s (c :: cs)).1 s2 r2 with
        | (s3, r3) =>
          match peek s3 r3 with
          | (p, s4, r4) =>
            match p with
            | some c => if cc.isAlphaNumeric c then (false, (next s4 r4).2.1, (next s4 r4).2.2) else (true, s4, r4)
            | none => (true, s4, r4)) = res at *
  obtain ⟨b, s5, r5⟩ := res
  cases b with
  | false => exact (by decide : ("badnumber" : String) ≠ "fuel")
  | true => exact StepOK.of_ext e2 fun w' g => stepOK_emit .number (by decide) g

end ExprModel.Lex
