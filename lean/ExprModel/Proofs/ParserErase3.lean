import ExprModel.Proofs.ParserErase2
/-
The accepted token lists are printings, part 3: collections, argument lists, postfix chains; assembly.
-/
namespace ExprModel.Parser

variable (cfg : Cfg) (sh : NumShow)

/-- the separator step of the element loops -/
theorem post_sep' (first : Bool) (ts : List Token) :
    Post (fun _ ts1 => (first = true ∧ ts1 = ts) ∨
        (first = false ∧ ts = cur ts :: ts1 ∧ (cur ts).is .operator "," = true))
      (if first = true then Res.ok () ts else expect .operator "," ts) := by
  split
  · next h => exact Post.ok (Or.inl ⟨h, rfl⟩)
  · next h =>
    refine (post_expect' .operator "," ts).mono ?_
    intro _ ts1 ⟨he, hc⟩
    exact Or.inr ⟨by simpa using h, he, hc⟩

theorem cons_sep {first : Bool} {ts ts1 : List Token}
    (h : (first = true ∧ ts1 = ts) ∨ (first = false ∧ ts = cur ts :: ts1 ∧ (cur ts).is .operator "," = true)) :
    Cons ts ts1 (if first = true then [] else [","]) := by
  rcases h with ⟨hf, rfl⟩ | ⟨hf, he, hc⟩
  · subst hf; exact Cons.refl _
  · subst hf
    have := cons_of_is he hc (Or.inl rfl) (by decide) (by decide) (by decide)
    simpa [nv] using this

theorem era_arr {f : Nat} (ih : EraAt cfg sh f) : ∀ d ts, Plain cfg sh ts →
    Post (QE sh ts) (parseArray cfg (f+1) d ts) := by
  intro d ts hpl
  rw [parseArray]
  refine Post.bind (post_expect' _ _ ts) ?_
  intro _ ts1 ⟨he, hlb⟩
  have hc1 := cons_of_is he hlb (Or.inr rfl) (by decide) (by decide) (by decide)
  refine Post.bind (ih.arrL d true ts1 (hpl.of_cons cfg sh hc1)) ?_
  intro ns ts2 hns
  have hc2 := hc1.trans hns
  refine Post.bind (post_expect' _ _ ts2) ?_
  intro _ ts3 ⟨he3, hrb⟩
  have hc3 := hc2.trans (cons_of_is he3 hrb (Or.inr rfl) (by decide) (by decide) (by decide))
  exact Post.ok (hc3.cast (by simp [flat, flatLb, nv]))

theorem era_arrL {f : Nat} (ih : EraAt cfg sh f) : ∀ d b ts, Plain cfg sh ts →
    Post (fun ns ts' => Cons ts ts' (flatLb sh b ns)) (arrayLoop cfg (f+1) d b ts) := by
  intro d b ts hpl
  rw [arrayLoop]
  split
  · refine Post.ok ((Cons.refl ts).cast ?_)
    cases b <;> simp [flatLb, flatL, flatL']
  · refine Post.bind (post_sep' b ts) ?_
    intro _ ts1 hsep
    have hc1 := cons_sep hsep
    split
    · next htr =>
      rcases hsep with ⟨hf, _⟩ | ⟨hf, he, hc⟩
      · subst hf; simp at htr
      · have := altFree_comma_close he hc (Or.inl (by simpa [hf] using htr))
        rw [hpl.1] at this; cases this
    · refine Post.bind (ih.expr d 0 ts1 (hpl.of_cons cfg sh hc1)) ?_
      intro n ts2 hn
      have hc2 := hc1.trans hn
      refine Post.bind (ih.arrL d false ts2 (hpl.of_cons cfg sh hc2)) ?_
      intro ns ts3 hns
      refine Post.ok ((hc2.trans hns).cast ?_)
      cases b <;> simp [flatLb, flatL_cons, flatL']

theorem era_args {f : Nat} (ih : EraAt cfg sh f) : ∀ d ts, Plain cfg sh ts →
    Post (fun as ts' => Cons ts ts' (flatL sh as)) (parseArguments cfg (f+1) d ts) := by
  intro d ts hpl
  rw [parseArguments]
  refine Post.bind (post_expect' _ _ ts) ?_
  intro _ ts1 ⟨he, hlp⟩
  have hc1 := cons_of_paren he hlp (Or.inl rfl)
  refine Post.bind (ih.argsL d true ts1 (hpl.of_cons cfg sh hc1)) ?_
  intro ns ts2 hns
  have hc2 := hc1.trans hns
  refine Post.bind (post_expect' _ _ ts2) ?_
  intro _ ts3 ⟨he3, hrp⟩
  have hc3 := hc2.trans (cons_of_paren he3 hrp (Or.inr rfl))
  exact Post.ok (hc3.cast (by simp [flatLb]))

theorem era_argsL {f : Nat} (ih : EraAt cfg sh f) : ∀ d b ts, Plain cfg sh ts →
    Post (fun ns ts' => Cons ts ts' (flatLb sh b ns)) (argsLoop cfg (f+1) d b ts) := by
  intro d b ts hpl
  rw [argsLoop]
  split
  · refine Post.ok ((Cons.refl ts).cast ?_)
    cases b <;> simp [flatLb, flatL, flatL']
  · refine Post.bind (post_sep' b ts) ?_
    intro _ ts1 hsep
    have hc1 := cons_sep hsep
    refine Post.bind (ih.expr d 0 ts1 (hpl.of_cons cfg sh hc1)) ?_
    intro n ts2 hn
    have hc2 := hc1.trans hn
    refine Post.bind (ih.argsL d false ts2 (hpl.of_cons cfg sh hc2)) ?_
    intro ns ts3 hns
    refine Post.ok ((hc2.trans hns).cast ?_)
    cases b <;> simp [flatLb, flatL_cons, flatL']

theorem era_map {f : Nat} (ih : EraAt cfg sh f) : ∀ d ts, Plain cfg sh ts →
    Post (QE sh ts) (parseMap cfg (f+1) d ts) := by
  intro d ts hpl
  rw [parseMap]
  refine Post.bind (post_expect' _ _ ts) ?_
  intro _ ts1 ⟨he, hlb⟩
  have hc1 := cons_of_is he hlb (Or.inr rfl) (by decide) (by decide) (by decide)
  refine Post.bind (ih.mapL d _ true ts1 (hpl.of_cons cfg sh hc1)) ?_
  intro ps ts2 hps
  have hc2 := hc1.trans hps
  refine Post.bind (post_expect' _ _ ts2) ?_
  intro _ ts3 ⟨he3, hrb⟩
  have hc3 := hc2.trans (cons_of_is he3 hrb (Or.inr rfl) (by decide) (by decide) (by decide))
  exact Post.ok (hc3.cast (by simp [flat, flatPb, nv]))

theorem era_mapL {f : Nat} (ih : EraAt cfg sh f) : ∀ d l b ts, Plain cfg sh ts →
    Post (fun ps ts' => Cons ts ts' (flatPb sh b ps)) (mapLoop cfg (f+1) d l b ts) := by
  intro d l b ts hpl
  rw [mapLoop]
  split
  · refine Post.ok ((Cons.refl ts).cast ?_)
    cases b <;> simp [flatPb, flatP, flatP']
  · refine Post.bind (post_sep' b ts) ?_
    intro _ ts1 hsep
    have hc1 := cons_sep hsep
    split
    · next htr =>
      rcases hsep with ⟨hf, _⟩ | ⟨hf, he, hc⟩
      · subst hf; simp at htr
      · have := altFree_comma_close he hc (Or.inr (by simpa [hf] using htr))
        rw [hpl.1] at this; cases this
    · split
      · exact Post.err
      · refine Post.bind (Q1 := fun key ts2 => Cons ts1 ts2 (flat sh key)) ?_ ?_
        · split
          · next hkind =>
            refine Post.bind (post_next' ts1) ?_
            intro _ ts2 he2
            have hk : (cur ts1).kind ≠ .operator ∧ (cur ts1).kind ≠ .bracket ∧ (cur ts1).kind ≠ .eof := by
              simp only [Bool.or_eq_true, beq_iff_eq] at hkind
              rcases hkind with (h | h) | h <;> rw [h] <;> decide
            exact Post.ok ((cons_of_next he2 (keep_of_plain_kind hk.1 hk.2.1) hk.2.2).cast (by simp [flat]))
          · split
            · exact ih.expr d 0 ts1 (hpl.of_cons cfg sh hc1)
            · exact Post.err
        · intro key ts2 hkey
          have hc2 := hc1.trans hkey
          refine Post.bind (post_expect' _ _ ts2) ?_
          intro _ ts3 ⟨he3, hcol⟩
          have hc3 := hc2.trans (cons_of_is he3 hcol (Or.inl rfl) (by decide) (by decide) (by decide))
          refine Post.bind (ih.expr d 0 ts3 (hpl.of_cons cfg sh hc3)) ?_
          intro v ts4 hv
          have hc4 := hc3.trans hv
          refine Post.bind (ih.mapL d l false ts4 (hpl.of_cons cfg sh hc4)) ?_
          intro ps ts5 hps
          refine Post.ok ((hc4.trans hps).cast ?_)
          cases b <;> simp [flatPb, flatLb, flatP_cons, flatP', flat, nv]

theorem isValidIdentifier_hash : isValidIdentifier "#" = false := by decide

theorem era_post {f : Nat} (ih : EraAt cfg sh f) : ∀ d nd b ts, Plain cfg sh ts →
    Post (QA sh ts nd) (parsePostfix cfg (f+1) d nd b ts) := by
  intro d nd b ts hpl
  rw [parsePostfix]
  -- continuing the loop from a node whose text is the old text plus what was consumed
  have fin : ∀ (node : Node) (b' : Bool) (tsk : List Token) (w : List String), Cons ts tsk w →
      flat sh node = flat sh nd ++ w → Post (QA sh ts nd) (parsePostfix cfg f d node b' tsk) := by
    intro node b' tsk w hc hnode
    refine (ih.post d node b' tsk (hpl.of_cons cfg sh hc)).mono ?_
    intro n ts' ⟨w', hw', hfn⟩
    exact ⟨_, hc.trans hw', by rw [hfn, hnode]; simp⟩
  -- the optional upper bound of a slice
  have hto : ∀ (ts3 : List Token), Plain cfg sh ts3 →
      Post (fun (to : Option Node) ts4 => Cons ts3 ts4 (flatO sh to))
        (if (cur ts3).is .bracket "]" = true then Res.ok none ts3
         else (parseExpression cfg f d 0 ts3).bind fun e ts4 => .ok (some e) ts4) := by
    intro ts3 hpl3
    split
    · exact Post.ok ((Cons.refl ts3).cast (by simp [flatO]))
    · refine Post.bind (ih.expr d 0 ts3 hpl3) ?_
      intro e ts4 he
      exact Post.ok (he.cast (by simp [flatO]))
  split
  · next hk =>
    have hkop : (cur ts).kind = .operator ∨ (cur ts).kind = .bracket := by
      simpa [Bool.or_eq_true, beq_iff_eq] using hk
    have hneof : (cur ts).kind ≠ .eof := by rcases hkop with h | h <;> rw [h] <;> decide
    split
    · next hv =>
      have hval : (cur ts).value = "." ∨ (cur ts).value = "?." := by
        simpa [Bool.or_eq_true, beq_iff_eq] using hv
      have hnv : nv (cur ts).value = "." := by rcases hval with h | h <;> simp [h, nv]
      refine Post.bind (post_next' ts) ?_
      intro _ ts1 he
      have hc1 := cons_of_next he (keep_of_value (by rcases hval with h | h <;> rw [h] <;> decide)
        (by rcases hval with h | h <;> rw [h] <;> decide) (by rcases hval with h | h <;> rw [h] <;> decide)) hneof
      rw [hnv] at hc1
      refine Post.bind (post_next' ts1) ?_
      intro _ ts2 he2
      split
      · exact Post.err
      · next hname =>
        have hnm : nameOk (cur ts1) = true := by simpa using hname
        have hkeep : keepTok (cur ts1) = true ∧ (cur ts1).kind ≠ .eof := by
          unfold nameOk at hnm
          by_cases hid : (cur ts1).kind = .identifier
          · exact ⟨keep_of_plain_kind (by rw [hid]; decide) (by rw [hid]; decide), by rw [hid]; decide⟩
          · have hop : (cur ts1).kind = .operator ∧ isValidIdentifier (cur ts1).value = true := by
              simpa [hid] using hnm
            refine ⟨keep_of_operator hop.1 ?_, by rw [hop.1]; decide⟩
            intro hv'
            rw [hv', isValidIdentifier_hash] at hop
            exact absurd hop.2 (by decide)
        have hc2 := hc1.trans (cons_of_next he2 hkeep.1 hkeep.2)
        split
        · refine Post.bind (ih.args d ts2 (hpl.of_cons cfg sh hc2)) ?_
          intro args ts3 ha
          exact fin _ _ ts3 _ (hc2.trans ha) (by simp [flat])
        · exact fin _ _ ts2 _ hc2 (by simp [flat])
    · next hv =>
      split
      · next hlb =>
        have hval : (cur ts).value = "[" := by simpa using hlb
        refine Post.bind (post_next' ts) ?_
        intro _ ts1 he
        have hc1 := cons_of_next he (keep_of_value (by rw [hval]; decide) (by rw [hval]; decide)
          (by rw [hval]; decide)) hneof
        rw [hval] at hc1
        split
        · next hcol =>
          refine Post.bind (post_next' ts1) ?_
          intro _ ts2 he2
          have hc2 := hc1.trans (cons_of_is he2 hcol (Or.inl rfl) (by decide) (by decide) (by decide))
          refine Post.bind (hto ts2 (hpl.of_cons cfg sh hc2)) ?_
          intro to ts3 hto'
          have hc3 := hc2.trans hto'
          refine Post.bind (post_expect' _ _ ts3) ?_
          intro _ ts4 ⟨he4, hrb⟩
          have hc4 := hc3.trans (cons_of_is he4 hrb (Or.inr rfl) (by decide) (by decide) (by decide))
          exact fin _ _ ts4 _ hc4 (by simp [flat, flatO, nv])
        · refine Post.bind (ih.expr d 0 ts1 (hpl.of_cons cfg sh hc1)) ?_
          intro fr ts2 hfr
          have hc2 := hc1.trans hfr
          split
          · next hcol =>
            refine Post.bind (post_next' ts2) ?_
            intro _ ts3 he3
            have hc3 := hc2.trans (cons_of_is he3 hcol (Or.inl rfl) (by decide) (by decide) (by decide))
            refine Post.bind (hto ts3 (hpl.of_cons cfg sh hc3)) ?_
            intro to ts4 hto'
            have hc4 := hc3.trans hto'
            refine Post.bind (post_expect' _ _ ts4) ?_
            intro _ ts5 ⟨he5, hrb⟩
            have hc5 := hc4.trans (cons_of_is he5 hrb (Or.inr rfl) (by decide) (by decide) (by decide))
            exact fin _ _ ts5 _ hc5 (by simp [flat, flatO, nv])
          · refine Post.bind (post_expect' _ _ ts2) ?_
            intro _ ts3 ⟨he3, hrb⟩
            have hc3 := hc2.trans (cons_of_is he3 hrb (Or.inr rfl) (by decide) (by decide) (by decide))
            exact fin _ _ ts3 _ hc3 (by simp [flat, nv])
      · exact Post.ok ⟨[], Cons.refl ts, by simp⟩
  · exact Post.ok ⟨[], Cons.refl ts, by simp⟩

/-- the invariant at every fuel -/
theorem eraAt (hy : EraHyp cfg) : ∀ f, EraAt cfg sh f := by
  intro f
  induction f with
  | zero =>
    constructor <;> intros <;> intro a ts' he
    · rw [parseExpression] at he; cases he
    · rw [exprLoop] at he; cases he
    · rw [parsePrimary] at he; cases he
    · rw [parseConditional] at he; cases he
    · rw [parsePrimaryExpression] at he; cases he
    · rw [parseIdentifierExpression] at he; cases he
    · rw [parseClosure] at he; cases he
    · rw [parseArray] at he; cases he
    · rw [arrayLoop] at he; cases he
    · rw [parseMap] at he; cases he
    · rw [mapLoop] at he; cases he
    · rw [parsePostfix] at he; cases he
    · rw [parseArguments] at he; cases he
    · rw [argsLoop] at he; cases he
  | succ n ih =>
    exact ⟨era_expr cfg sh ih, era_loop cfg sh hy ih, era_prim cfg sh hy ih, era_cond cfg sh ih,
      era_pexp cfg sh ih, era_ident cfg sh ih, era_clos cfg sh ih, era_arr cfg sh ih, era_arrL cfg sh ih,
      era_map cfg sh ih, era_mapL cfg sh ih, era_post cfg sh ih, era_args cfg sh ih, era_argsL cfg sh ih⟩

end ExprModel.Parser
