import ExprModel.Proofs.BcBoundary
/-
C05, part 9: what the static checker's verdict means, stated without the checker; the exactness of a patched
jump below 64 KiB and its failure above.
-/
namespace ExprModel.Bc

theorem op_all_length : Op.all.length = 52 := by decide

theorem op_code_of_ofCode {b : Nat} {op : Op} (h : Op.ofCode? b = some op) : op.code = b := by
  have key : (List.range 52).all (fun b => match Op.ofCode? b with
      | some op => op.code == b
      | none => false) = true := by decide
  rcases Nat.lt_or_ge b 52 with hb | hb
  · have := (List.all_eq_true.1 key) b (List.mem_range.2 hb)
    simp only [h, beq_iff_eq] at this
    exact this
  · unfold Op.ofCode? at h
    rw [List.getElem?_eq_none (by rw [op_all_length]; exact hb)] at h
    cases h

/-- decoding is faithful: the decoded instructions re-encode to the very bytes, their operands fit 16 bits -/
theorem decodeAll_sound : ∀ (fuel : Nat) (bs : List Nat) (is : List Instr),
    decodeAll fuel bs = some is → encodeAll is = bs ∧ FitsU16 is ∧ ArgCanon is
  | fuel, [], is, h => by
    have : is = [] := by cases fuel <;> simp [decodeAll] at h <;> exact h
    subst this
    refine ⟨rfl, ?_, ?_⟩
    · intro _ h; cases h
    · intro _ h; cases h
  | 0, _ :: _, _, h => by simp [decodeAll] at h
  | fuel + 1, b :: rest, is, h => by
    rw [decodeAll] at h
    split at h
    · cases h
    · rename_i op hop
      have hcode := op_code_of_ofCode hop
      split at h
      · rename_i harg
        split at h
        · rename_i lo hi rest'
          split at h
          · rename_i hlh
            cases hd : decodeAll fuel rest' with
            | none => simp [hd] at h
            | some is' =>
              simp only [hd, Option.map_some, Option.some.injEq] at h
              subst h
              obtain ⟨e, f, c⟩ := decodeAll_sound fuel rest' is' hd
              refine ⟨?_, ?_, ?_⟩
              · simp only [encodeAll_cons, Instr.encode, harg, if_true, e, hcode, List.cons_append, List.nil_append]
                have h1 : (lo + 256 * hi) % 256 = lo := by omega
                have h2 : (lo + 256 * hi) / 256 % 256 = hi := by omega
                rw [h1, h2]
              · intro i hi'
                simp only [List.mem_cons] at hi'
                rcases hi' with rfl | hi'
                · show lo + 256 * hi < 65536; omega
                · exact f i hi'
              · intro i hi' hna
                simp only [List.mem_cons] at hi'
                rcases hi' with rfl | hi'
                · simp [harg] at hna
                · exact c i hi' hna
          · cases h
        · cases h
      · rename_i harg
        cases hd : decodeAll fuel rest with
        | none => simp [hd] at h
        | some is' =>
          simp only [hd, Option.map_some, Option.some.injEq] at h
          subst h
          obtain ⟨e, f, c⟩ := decodeAll_sound fuel rest is' hd
          refine ⟨?_, ?_, ?_⟩
          · simp [Instr.encode, harg, e, hcode]
          · intro i hi'
            simp only [List.mem_cons] at hi'
            rcases hi' with rfl | hi'
            · show 0 < 65536; omega
            · exact f i hi'
          · intro i hi' _
            simp only [List.mem_cons] at hi'
            rcases hi' with rfl | hi'
            · rfl
            · exact c i hi' ‹_›

theorem jumpsOk_at {bnd : Nat → Bool} {off : Nat} {pre post : List Instr} {i : Instr}
    (h : jumpsOk bnd off (pre ++ i :: post) = true) : jumpOk bnd (off + codeSize pre) i = true := by
  rw [jumpsOk_append, Bool.and_eq_true, jumpsOk_cons, Bool.and_eq_true] at h
  exact h.2.1

/-- **Meaning of the static checker.**  An accepted program decodes (faithfully, to exactly its end) into
    instructions `is` such that every operand is acceptable (`argOk`: constant index in range and of the class
    the opcode expects, 0/1 for Cast), every forward jump `ip_after + arg` and every backward jump
    `ip_after - arg` is the total size of a prefix `p` of the program (`is = p ++ q`: an instruction boundary
    inside the program, or exactly its end when `q = []`), and Begin/End nest. -/
theorem wfStatic_sound (bytes : List Nat) (consts : Array Val) (h : wfStatic bytes consts = true) :
    ∃ is : List Instr, encodeAll is = bytes ∧ (∀ i ∈ is, argOk consts i = true) ∧
      (∀ pre i post, is = pre ++ i :: post →
        (i.op.argClass = .jumpFwd → ∃ p q, is = p ++ q ∧ codeSize p = codeSize pre + i.size + i.arg) ∧
        (i.op.argClass = .jumpBack → i.arg ≤ codeSize pre + i.size ∧
            ∃ p q, is = p ++ q ∧ codeSize p = codeSize pre + i.size - i.arg)) ∧
      nestOk 0 is = some 0 := by
  unfold wfStatic at h
  split at h
  · rename_i is hd
    obtain ⟨henc, _, _⟩ := decodeAll_sound _ _ _ hd
    unfold wfInstrs at h
    simp only [Bool.and_eq_true, List.all_eq_true, beq_iff_eq] at h
    obtain ⟨⟨ha, hj⟩, hn⟩ := h
    refine ⟨is, henc, ha, ?_, hn⟩
    intro pre i post hsplit
    have hji : jumpOk (instrBoundary is) (0 + codeSize pre) i = true := by
      have := hj; rw [hsplit] at this ⊢
      exact jumpsOk_at (by simpa using this)
    simp only [Nat.zero_add] at hji
    unfold jumpOk at hji
    constructor
    · intro hc
      simp only [hc] at hji
      exact (boundary_iff_prefix _ _).1 hji
    · intro hc
      simp only [hc, Bool.and_eq_true, decide_eq_true_eq] at hji
      exact ⟨hji.1, (boundary_iff_prefix _ _).1 hji.2⟩
  · cases h

/-! ### patchJump: exact below 64 KiB, wrong above -/

theorem decodeAt_encode (pre : List Instr) (j : Instr) (rest : List Instr) :
    decodeAt (encodeAll (pre ++ j :: rest)) (codeSize pre) =
      some ⟨j.op, if j.op.hasArg then j.arg % 65536 else 0⟩ := by
  unfold decodeAt
  have hdrop : (encodeAll (pre ++ j :: rest)).drop (codeSize pre) = j.encode ++ encodeAll rest := by
    rw [encodeAll_append, ← codeSize_eq_length pre, List.drop_left]; rfl
  rw [hdrop]
  by_cases ha : j.op.hasArg = true
  · simp only [Instr.encode, ha, if_true, List.cons_append, List.nil_append, Op.ofCode_code]
    have h1 : j.arg % 256 < 256 := Nat.mod_lt _ (by omega)
    have h2 : j.arg / 256 % 256 < 256 := Nat.mod_lt _ (by omega)
    simp only [h1, h2, and_self, if_true, Option.some.injEq, Instr.mk.injEq, true_and]
    omega
  · have ha' : j.op.hasArg = false := by simpa using ha
    simp [Instr.encode, ha', Op.ofCode_code]

theorem hasArg_of_jump {op : Op} (h : op.argClass = .jumpFwd ∨ op.argClass = .jumpBack) : op.hasArg = true := by
  cases op <;> simp_all [Op.argClass, Op.hasArg]

/-- `patchJump`: a forward jump emitted before `body` with the operand `|body|` (what `len(bytecode) - 2 - placeholder`
    computes), once encoded and decoded again, targets exactly the boundary after `body` — provided `|body| < 65536`. -/
theorem patchJump_exact (pre body post : List Instr) (j : Instr) (hj : j.op.argClass = .jumpFwd)
    (hk : j.arg = codeSize body) (hfit : codeSize body < 65536) :
    ∃ j', decodeAt (encodeAll (pre ++ j :: (body ++ post))) (codeSize pre) = some j' ∧ j'.op = j.op ∧
      codeSize pre + j'.size + j'.arg = codeSize (pre ++ j :: body) := by
  have ha := hasArg_of_jump (Or.inl hj)
  refine ⟨_, decodeAt_encode pre j (body ++ post), rfl, ?_⟩
  simp only [ha, if_true, Instr.size, codeSize_append, codeSize_cons, hk]
  have : codeSize body % 65536 = codeSize body := Nat.mod_eq_of_lt hfit
  omega

/-- `calcBackwardJump`: the backward jump after `loop` with operand `|loop| + 3` returns to the start of `loop` -/
theorem calcBackwardJump_exact (pre loop post : List Instr) (j : Instr) (hj : j.op.argClass = .jumpBack)
    (hk : j.arg = codeSize loop + 3) (hfit : codeSize loop + 3 < 65536) :
    ∃ j', decodeAt (encodeAll (pre ++ loop ++ j :: post)) (codeSize (pre ++ loop)) = some j' ∧ j'.op = j.op ∧
      codeSize (pre ++ loop) + j'.size - j'.arg = codeSize pre := by
  have ha := hasArg_of_jump (Or.inr hj)
  refine ⟨_, decodeAt_encode (pre ++ loop) j post, rfl, ?_⟩
  simp only [ha, if_true, Instr.size, codeSize_append, hk]
  have : (codeSize loop + 3) % 65536 = codeSize loop + 3 := Nat.mod_eq_of_lt hfit
  omega

/-- above 64 KiB the stored operand is `|body| % 65536` and the jump falls short of its target by a multiple of 65536 -/
theorem patchJump_truncates (pre body post : List Instr) (j : Instr) (hj : j.op.argClass = .jumpFwd)
    (hk : j.arg = codeSize body) (hbig : 65536 ≤ codeSize body) :
    ∃ j', decodeAt (encodeAll (pre ++ j :: (body ++ post))) (codeSize pre) = some j' ∧
      j'.arg = codeSize body % 65536 ∧ codeSize pre + j'.size + j'.arg < codeSize (pre ++ j :: body) := by
  have ha := hasArg_of_jump (Or.inl hj)
  refine ⟨_, decodeAt_encode pre j (body ++ post), by simp [ha, hk], ?_⟩
  simp only [ha, if_true, Instr.size, codeSize_append, codeSize_cons, hk]
  have : codeSize body % 65536 < 65536 := Nat.mod_lt _ (by omega)
  omega

theorem codeSize_replicate_pop (n : Nat) : codeSize (List.replicate n ⟨.pop, 0⟩) = n := by
  induction n with
  | zero => rfl
  | succ k ih => simp [List.replicate_succ, ih, Instr.size, Op.hasArg]; omega

end ExprModel.Bc
