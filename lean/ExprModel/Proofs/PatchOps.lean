import ExprModel.Proofs.WalkThm
/- Lemmas for C17: the operator patcher through the walker vs the explicit-call form. -/
namespace ExprModel
open Node

theorem explicitCallFormL_eq_map (ops : OpTable) (tyOf : Node → String) (xs : List Node) :
    explicitCallFormL ops tyOf xs = xs.map (explicitCallForm ops tyOf) := by
  induction xs with
  | nil => simp [explicitCallFormL]
  | cons c cs ih => simp [explicitCallFormL, ih]

theorem patchExit_binary (ops : OpTable) (tyOf : Node → String) (m : Meta) (op : String) (l r : Node) :
    patchExit ops tyOf (.binary m op l r) = callOrOp ops tyOf m op l r := by
  simp only [patchExit, callOrOp]
  cases overloadFor ops tyOf op l r <;> rfl

/-- the explicit-call form obeys the bottom-up recursion equation of the patcher's `Exit` -/
theorem explicitCallForm_eq (ops : OpTable) (tyOf : Node → String) (n : Node) :
    explicitCallForm ops tyOf n =
      patchExit ops tyOf (n.withChildren (n.children.map (explicitCallForm ops tyOf))) := by
  cases n with
  | slice m x f t =>
    rcases f with _ | f <;> rcases t with _ | t <;>
      simp [explicitCallForm, explicitCallFormO, children, withChildren, patchExit]
  | binary m op l r =>
    simp only [explicitCallForm, children, withChildren, List.map_cons, List.map_nil, patchExit_binary]
  | _ => simp [explicitCallForm, explicitCallFormL_eq_map, children, withChildren, patchExit]

theorem explicitCallForm_eq_bottomUp (ops : OpTable) (tyOf : Node → String) (n : Node) :
    explicitCallForm ops tyOf n = bottomUp (patchExit ops tyOf) n := by
  induction n using Node.induction_children with
  | step n ih =>
    rw [explicitCallForm_eq, bottomUp_eq]
    congr 2
    exact List.map_congr_left ih

theorem overloadFor_nil (tyOf : Node → String) (op : String) (l r : Node) : overloadFor [] tyOf op l r = none := rfl

/-- with no operator mapped nothing changes (`PatchOperators` returns at once) -/
theorem explicitCallForm_nil (tyOf : Node → String) (n : Node) : explicitCallForm [] tyOf n = n := by
  induction n using Node.induction_children with
  | step n ih =>
    rw [explicitCallForm_eq]
    have : n.children.map (explicitCallForm [] tyOf) = n.children := by
      conv => rhs; rw [← List.map_id n.children]
      exact List.map_congr_left ih
    rw [this, withChildren_children]
    cases n <;> simp [patchExit, overloadFor_nil]

/-- `PatchOperators` over the walker that visits every child is the explicit-call form -/
theorem patchOperators_ref (ops : OpTable) (tyOf : Node → String) (n : Node) :
    patchOperators refSlots ops tyOf n = some (explicitCallForm ops tyOf n) := by
  unfold patchOperators
  split
  · next h =>
    have : ops = [] := by cases ops <;> simp_all
    rw [this, explicitCallForm_nil]
  · rw [walk_ref_eq_walkU]
    unfold opPatcher
    rw [walkU_onExit _ _ _ (Nat.le_succ _), explicitCallForm_eq_bottomUp]

/-! ### the overload search -/

theorem findOverload_none_iff (cs : List OpCand) (tl tr : String) :
    findOverload cs tl tr = none ↔ ∀ c ∈ cs, (c.l.fits tl && c.r.fits tr) = false := by
  induction cs with
  | nil => simp [findOverload]
  | cons c cs ih =>
    simp only [findOverload, List.mem_cons, forall_eq_or_imp]
    by_cases h : (c.l.fits tl && c.r.fits tr) = true
    · simp [h]
    · simp only [h, Bool.false_eq_true, ↓reduceIte, ih]
      simp

theorem findOverload_first (pre post : List OpCand) (c : OpCand) (tl tr : String)
    (hpre : ∀ d ∈ pre, (d.l.fits tl && d.r.fits tr) = false) (hc : (c.l.fits tl && c.r.fits tr) = true) :
    findOverload (pre ++ c :: post) tl tr = some c.fn := by
  induction pre with
  | nil => simp [findOverload, hc]
  | cons d ds ih =>
    have hd := hpre d List.mem_cons_self
    simp only [List.cons_append, findOverload, hd, Bool.false_eq_true, ↓reduceIte]
    exact ih (fun e he => hpre e (List.mem_cons_of_mem _ he))

theorem findOverload_some (cs : List OpCand) (tl tr fn : String) (h : findOverload cs tl tr = some fn) :
    ∃ c ∈ cs, c.fn = fn ∧ c.l.fits tl = true ∧ c.r.fits tr = true := by
  induction cs with
  | nil => simp [findOverload] at h
  | cons c cs ih =>
    simp only [findOverload] at h
    split at h
    · next hc =>
      simp only [Option.some.injEq] at h
      simp only [Bool.and_eq_true] at hc
      exact ⟨c, List.mem_cons_self, h, hc.1, hc.2⟩
    · obtain ⟨d, hd, r⟩ := ih h
      exact ⟨d, List.mem_cons_of_mem _ hd, r⟩

/-! ### Config.Check -/

theorem checkFn_ok_iff (types : List (String × FnTag)) (op fn : String) :
    checkFn types op fn = .ok ↔ ∃ t, types.lookup fn = some t ∧ t.wellShaped = true := by
  unfold checkFn FnTag.wellShaped
  cases types.lookup fn with
  | none => simp
  | some t =>
    simp only [Option.some.injEq, exists_eq_left']
    by_cases h1 : t.hasType <;> by_cases h2 : t.isFunc <;> simp [h1, h2]

theorem checkFns_ok_iff (types : List (String × FnTag)) (op : String) (fns : List String) :
    checkFns types op fns = .ok ↔ ∀ fn ∈ fns, checkFn types op fn = .ok := by
  induction fns with
  | nil => simp [checkFns]
  | cons fn fns ih =>
    simp only [checkFns, List.mem_cons, forall_eq_or_imp]
    cases h : checkFn types op fn <;> simp [ih]

theorem configCheck_ok_iff (types : List (String × FnTag)) (ops : List (String × List String)) :
    configCheck types ops = .ok ↔ ∀ e ∈ ops, ∀ fn ∈ e.2, ∃ t, types.lookup fn = some t ∧ t.wellShaped = true := by
  induction ops with
  | nil => simp [configCheck]
  | cons e ops ih =>
    rcases e with ⟨op, fns⟩
    simp only [configCheck, List.mem_cons, forall_eq_or_imp]
    cases h : checkFns types op fns with
    | ok =>
      simp only [ih]
      have := (checkFns_ok_iff types op fns).mp h
      constructor
      · intro hr; exact ⟨fun fn hfn => (checkFn_ok_iff _ _ _).mp (this fn hfn), hr⟩
      · intro hr; exact hr.2
    | _ =>
      simp only [reduceCtorEq, false_iff]
      intro hall
      have : checkFns types op fns = .ok :=
        (checkFns_ok_iff types op fns).mpr fun fn hfn => (checkFn_ok_iff _ _ _).mpr (hall.1 fn hfn)
      rw [this] at h; cases h

end ExprModel
