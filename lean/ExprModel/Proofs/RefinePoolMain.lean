import ExprModel.Proofs.RefinePoolLoops
/-
C01 stage 0 (e), main part: `compileNode cfg n p = ok (code, p')` implies `Compiles K cfg n code` for every
constant array `K` that extends `p'` — by mutual structural recursion over `Node` / `List Node`.
-/
set_option linter.unusedVariables false
set_option linter.unusedSimpArgs false
set_option maxHeartbeats 800000
namespace ExprModel.Refine
open ExprModel

mutual
theorem compile_compiles (cfg : CompCfg) (F : Val → Prop) (hF : AliasFree F) :
    ∀ (n : Node) (p : Pool) (code : List LInstr) (p' : Pool), compileNode cfg n p = .ok (code, p') →
      PoolInv F p → FloatsIn F n → CompOK F p p' (fun K => Compiles K cfg n code)
  | .nil m, p, code, p', h, hinv, _ => by
    rw [compileNode_nil] at h; comp_simp at h
    obtain ⟨rfl, rfl⟩ := h
    exact ⟨hinv, PoolExt.refl _, fun K _ => by rw [Compiles_nil]⟩
  | .bool m b, p, code, p', h, hinv, _ => by
    rw [compileNode_bool] at h; comp_simp at h
    obtain ⟨rfl, rfl⟩ := h
    exact ⟨hinv, PoolExt.refl _, fun K _ => by rw [Compiles_bool]⟩
  | .ident m name nilsafe, p, code, p', h, hinv, _ => by
    rw [compileNode_ident] at h; comp_simp at h
    obtain ⟨k, p1, h1, rfl, rfl⟩ := h
    obtain ⟨hk, e1, i1⟩ := mkConst_spec hF hinv (nofloat_str F _) h1
    exact ⟨i1, e1, fun K hK => by rw [Compiles_ident]; exact ⟨k, hK.get hk, rfl⟩⟩
  | .int m v, p, code, p', h, hinv, hfl => by
    rw [compileNode_int] at h; comp_simp at h
    obtain ⟨k, p1, h1, rfl, rfl⟩ := h
    obtain ⟨hk, e1, i1⟩ := mkConst_spec hF hinv hfl h1
    exact ⟨i1, e1, fun K hK => by rw [Compiles_int]; exact ⟨k, hK.get hk, rfl⟩⟩
  | .float m bits, p, code, p', h, hinv, hfl => by
    rw [compileNode_float] at h; comp_simp at h
    obtain ⟨k, p1, h1, rfl, rfl⟩ := h
    obtain ⟨hk, e1, i1⟩ := mkConst_spec hF hinv (fun _ => hfl) h1
    exact ⟨i1, e1, fun K hK => by rw [Compiles_float]; exact ⟨k, hK.get hk, rfl⟩⟩
  | .str m s, p, code, p', h, hinv, _ => by
    rw [compileNode_str] at h; comp_simp at h
    obtain ⟨k, p1, h1, rfl, rfl⟩ := h
    obtain ⟨hk, e1, i1⟩ := mkConst_spec hF hinv (nofloat_str F _) h1
    exact ⟨i1, e1, fun K hK => by rw [Compiles_str]; exact ⟨k, hK.get hk, rfl⟩⟩
  | .const m v, p, code, p', h, hinv, hfl => by
    by_cases hv : v = .nil
    · subst hv
      rw [compileNode_const_nil] at h; comp_simp at h
      obtain ⟨rfl, rfl⟩ := h
      exact ⟨hinv, PoolExt.refl _, fun K _ => by rw [Compiles_const]; exact .inl ⟨rfl, rfl⟩⟩
    · rw [compileNode_const _ _ hv] at h; comp_simp at h
      obtain ⟨k, p1, h1, rfl, rfl⟩ := h
      obtain ⟨hk, e1, i1⟩ := mkConst_spec hF hinv hfl h1
      exact ⟨i1, e1, fun K hK => by rw [Compiles_const]; exact .inr ⟨hv, k, hK.get hk, rfl⟩⟩
  | .unary m op x, p, code, p', h, hinv, hfl => by
    rw [compileNode_unary] at h; comp_simp at h
    obtain ⟨cx, p1, h1, h2⟩ := h
    obtain ⟨i1, e1, c1⟩ := compile_compiles cfg F hF x p cx p1 h1 hinv hfl
    by_cases hc1 : (op == "!" || op == "not") = true
    · simp only [hc1, if_true, pure_ok, Prod.mk.injEq] at h2
      obtain ⟨rfl, rfl⟩ := h2
      exact ⟨i1, e1, fun K hK => by rw [Compiles_unary]; exact ⟨cx, c1 K hK, by simp only [hc1, if_true]⟩⟩
    · by_cases hc2 : (op == "+") = true
      · simp only [hc1, hc2, if_true, if_false, pure_ok, Prod.mk.injEq] at h2
        obtain ⟨rfl, rfl⟩ := h2
        exact ⟨i1, e1, fun K hK => by rw [Compiles_unary]; exact ⟨_, c1 K hK, by simp [hc1, hc2]⟩⟩
      · by_cases hc3 : (op == "-") = true
        · simp only [hc1, hc2, hc3, if_true, if_false, pure_ok, Prod.mk.injEq] at h2
          obtain ⟨rfl, rfl⟩ := h2
          exact ⟨i1, e1, fun K hK => by rw [Compiles_unary]; exact ⟨cx, c1 K hK, by simp [hc1, hc2, hc3]⟩⟩
        · simp [hc1, hc2, hc3] at h2
  | .binary m op l r, p, code, p', h, hinv, hfl => by
    rw [compileNode_binary] at h
    have key : ∀ (rest : List LInstr → List LInstr → List LInstr),
        (do let (cl, p) ← compileNode cfg l p
            let (cr, p) ← compileNode cfg r p
            pure (rest cl cr, p) : CR (List LInstr × Pool)) = .ok (code, p') →
        ∃ cl cr p1, compileNode cfg l p = .ok (cl, p1) ∧ compileNode cfg r p1 = .ok (cr, p') ∧ code = rest cl cr := by
      intro rest hh
      comp_simp at hh
      obtain ⟨cl, p1, h1, cr, p2, h2, rfl, rfl⟩ := hh
      exact ⟨cl, cr, p1, h1, h2, rfl⟩
    have fin : ∀ cl cr p1, compileNode cfg l p = .ok (cl, p1) → compileNode cfg r p1 = .ok (cr, p') →
        (∀ K, Compiles K cfg l cl → Compiles K cfg r cr → Compiles K cfg (.binary m op l r) code) →
        CompOK F p p' (fun K => Compiles K cfg (.binary m op l r) code) := by
      intro cl cr p1 h1 h2 hc
      obtain ⟨i1, e1, c1⟩ := compile_compiles cfg F hF l p cl p1 h1 hinv hfl.1
      obtain ⟨i2, e2, c2⟩ := compile_compiles cfg F hF r p1 cr p' h2 i1 hfl.2
      exact ⟨i2, by pext, fun K hK => hc K (c1 K (by pext)) (c2 K hK)⟩
    by_cases hc1 : (op == "==") = true
    · simp only [hc1, if_true] at h
      obtain ⟨cl, cr, p1, h1, h2, rfl⟩ := key (fun cl cr => cl ++ cr ++ [li m.loc (eqOpOf l r)]) h
      exact fin cl cr p1 h1 h2 fun K k1 k2 => by
        rw [Compiles_binary]; exact ⟨cl, cr, k1, k2, by simp only [hc1, if_true]⟩
    · by_cases hc2 : (op == "or" || op == "||") = true
      · simp only [hc1, hc2, if_true, if_false] at h
        obtain ⟨cl, cr, p1, h1, h2, rfl⟩ :=
          key (fun cl cr => cl ++ [li m.loc .jumpIfTrue (1 + lsize cr), li m.loc .pop] ++ cr) h
        exact fin cl cr p1 h1 h2 fun K k1 k2 => by
          rw [Compiles_binary]; exact ⟨cl, cr, k1, k2, by simp [hc1, hc2]⟩
      · by_cases hc3 : (op == "and" || op == "&&") = true
        · simp only [hc1, hc2, hc3, if_true, if_false] at h
          obtain ⟨cl, cr, p1, h1, h2, rfl⟩ :=
            key (fun cl cr => cl ++ [li m.loc .jumpIfFalse (1 + lsize cr), li m.loc .pop] ++ cr) h
          exact fin cl cr p1 h1 h2 fun K k1 k2 => by
            rw [Compiles_binary]; exact ⟨cl, cr, k1, k2, by simp [hc1, hc2, hc3]⟩
        · simp only [hc1, hc2, hc3, if_false] at h
          cases hops : binSimpleOp op with
          | none => simp [hops] at h
          | some ops =>
            simp only [hops] at h
            obtain ⟨cl, cr, p1, h1, h2, rfl⟩ := key (fun cl cr => cl ++ cr ++ ops.map (fun o => li m.loc o)) h
            exact fin cl cr p1 h1 h2 fun K k1 k2 => by
              rw [Compiles_binary]; exact ⟨cl, cr, k1, k2, by simp [hc1, hc2, hc3, hops]⟩
  | .matches m hasRe l r, p, code, p', h, hinv, hfl => by
    rw [compileNode_matches] at h
    cases hasRe with
    | true =>
      simp only [if_true] at h; comp_simp at h
      obtain ⟨cl, p1, h1, k, p2, h2, rfl, rfl⟩ := h
      obtain ⟨i1, e1, c1⟩ := compile_compiles cfg F hF l p cl p1 h1 hinv hfl.1
      obtain ⟨hk, e2, i2⟩ := mkRegexConst_spec hF i1 h2
      refine ⟨i2, by pext, fun K hK => ?_⟩
      rw [Compiles_matches]
      refine ⟨cl, c1 K (by pext), ?_⟩
      simp only [if_true]
      refine ⟨k, ?_, rfl⟩
      have := hK.get hk
      cases r <;> exact this
    | false =>
      simp only [Bool.false_eq_true, if_false] at h; comp_simp at h
      obtain ⟨cl, p1, h1, cr, p2, h2, rfl, rfl⟩ := h
      obtain ⟨i1, e1, c1⟩ := compile_compiles cfg F hF l p cl p1 h1 hinv hfl.1
      obtain ⟨i2, e2, c2⟩ := compile_compiles cfg F hF r p1 cr p2 h2 i1 hfl.2
      exact ⟨i2, by pext, fun K hK => by
        rw [Compiles_matches]; exact ⟨cl, c1 K (by pext), by simp only [Bool.false_eq_true, if_false]; exact ⟨cr, c2 K hK, rfl⟩⟩⟩
  | .prop m x name nilsafe, p, code, p', h, hinv, hfl => by
    rw [compileNode_prop] at h; comp_simp at h
    obtain ⟨cx, p1, h1, k, p2, h2, rfl, rfl⟩ := h
    obtain ⟨i1, e1, c1⟩ := compile_compiles cfg F hF x p cx p1 h1 hinv hfl
    obtain ⟨hk, e2, i2⟩ := mkConst_spec hF i1 (nofloat_str F _) h2
    exact ⟨i2, by pext, fun K hK => by rw [Compiles_prop]; exact ⟨cx, k, c1 K (by pext), hK.get hk, rfl⟩⟩
  | .index m x i, p, code, p', h, hinv, hfl => by
    rw [compileNode_index] at h; comp_simp at h
    obtain ⟨cx, p1, h1, ci, p2, h2, rfl, rfl⟩ := h
    obtain ⟨i1, e1, c1⟩ := compile_compiles cfg F hF x p cx p1 h1 hinv hfl.1
    obtain ⟨i2, e2, c2⟩ := compile_compiles cfg F hF i p1 ci p2 h2 i1 hfl.2
    exact ⟨i2, by pext, fun K hK => by rw [Compiles_index]; exact ⟨cx, ci, c1 K (by pext), c2 K hK, rfl⟩⟩
  | .slice m x (some f) (some t), p, code, p', h, hinv, hfl => by
    rw [compileNode_slice_ss] at h; comp_simp at h
    obtain ⟨cx, p1, h1, ct, p2, h2, cf, p3, h3, rfl, rfl⟩ := h
    obtain ⟨i1, e1, c1⟩ := compile_compiles cfg F hF x p cx p1 h1 hinv hfl.1
    obtain ⟨i2, e2, c2⟩ := compile_compiles cfg F hF t p1 ct p2 h2 i1 hfl.2.2
    obtain ⟨i3, e3, c3⟩ := compile_compiles cfg F hF f p2 cf p3 h3 i2 hfl.2.1
    exact ⟨i3, by pext, fun K hK => by
      rw [Compiles_slice]; exact ⟨cx, ct, cf, c1 K (by pext), c2 K (by pext), c3 K hK, rfl⟩⟩
  | .slice m x (some f) none, p, code, p', h, hinv, hfl => by
    rw [compileNode_slice_sn] at h; comp_simp at h
    obtain ⟨cx, p1, h1, ct, p2, ⟨rfl, rfl⟩, cf, p3, h3, rfl, rfl⟩ := h
    obtain ⟨i1, e1, c1⟩ := compile_compiles cfg F hF x p cx p1 h1 hinv hfl.1
    obtain ⟨i3, e3, c3⟩ := compile_compiles cfg F hF f p1 cf p3 h3 i1 hfl.2.1
    exact ⟨i3, by pext, fun K hK => by
      rw [Compiles_slice]; exact ⟨cx, _, cf, c1 K (by pext), rfl, c3 K hK, rfl⟩⟩
  | .slice m x none (some t), p, code, p', h, hinv, hfl => by
    rw [compileNode_slice_ns] at h; comp_simp at h
    obtain ⟨cx, p1, h1, ct, p2, h2, k, p3, h3, cf, p4, ⟨rfl, rfl⟩, rfl, rfl⟩ := h
    obtain ⟨i1, e1, c1⟩ := compile_compiles cfg F hF x p cx p1 h1 hinv hfl.1
    obtain ⟨i2, e2, c2⟩ := compile_compiles cfg F hF t p1 ct p2 h2 i1 hfl.2.2
    obtain ⟨hk, e3, i3⟩ := mkConst_spec hF i2 (nofloat_int F _ _) h3
    exact ⟨i3, by pext, fun K hK => by
      rw [Compiles_slice]; exact ⟨cx, ct, _, c1 K (by pext), c2 K (by pext), ⟨k, hK.get hk, rfl⟩, rfl⟩⟩
  | .slice m x none none, p, code, p', h, hinv, hfl => by
    rw [compileNode_slice_nn] at h; comp_simp at h
    obtain ⟨cx, p1, h1, ct, p2, ⟨rfl, rfl⟩, k, p3, h3, cf, p4, ⟨rfl, rfl⟩, rfl, rfl⟩ := h
    obtain ⟨i1, e1, c1⟩ := compile_compiles cfg F hF x p cx p1 h1 hinv hfl.1
    obtain ⟨hk, e3, i3⟩ := mkConst_spec hF i1 (nofloat_int F _ _) h3
    exact ⟨i3, by pext, fun K hK => by
      rw [Compiles_slice]; exact ⟨cx, _, _, c1 K (by pext), rfl, ⟨k, hK.get hk, rfl⟩, rfl⟩⟩
  | .method m x name args nilsafe, p, code, p', h, hinv, hfl => by
    rw [compileNode_method] at h; comp_simp at h
    obtain ⟨cx, p1, h1, ca, p2, h2, k, p3, h3, rfl, rfl⟩ := h
    obtain ⟨i1, e1, c1⟩ := compile_compiles cfg F hF x p cx p1 h1 hinv hfl.1
    obtain ⟨i2, e2, c2⟩ := compileList_compiles cfg F hF args p1 ca p2 h2 i1 hfl.2
    obtain ⟨hk, e3, i3⟩ := mkConst_spec hF i2 (nofloat_call F _ _) h3
    exact ⟨i3, by pext, fun K hK => by
      rw [Compiles_method]; exact ⟨cx, ca, k, c1 K (by pext), c2 K (by pext), hK.get hk, rfl⟩⟩
  | .func m name args fast, p, code, p', h, hinv, hfl => by
    rw [compileNode_func] at h; comp_simp at h
    obtain ⟨ca, p2, h2, k, p3, h3, rfl, rfl⟩ := h
    obtain ⟨i2, e2, c2⟩ := compileList_compiles cfg F hF args p ca p2 h2 hinv hfl
    obtain ⟨hk, e3, i3⟩ := mkConst_spec hF i2 (nofloat_call F _ _) h3
    exact ⟨i3, by pext, fun K hK => by
      rw [Compiles_func]; exact ⟨ca, k, c2 K (by pext), hK.get hk, rfl⟩⟩
  | .builtin m name args, p, code, p', h, hinv, hfl => by
    rcases compileNode_builtin_ok h with ⟨rfl, a, rfl⟩ | ⟨hn, a, b, rfl⟩
    · rw [compileNode_bi_len] at h; comp_simp at h
      obtain ⟨ca, p1, h1, rfl, rfl⟩ := h
      obtain ⟨i1, e1, c1⟩ := compile_compiles cfg F hF a p ca p1 h1 hinv hfl.1
      exact ⟨i1, e1, fun K hK => by rw [Compiles_builtin1]; exact ⟨rfl, ca, c1 K hK, rfl⟩⟩
    · exact compile_builtin2 cfg F hF a b
        (fun p code p' h hi => compile_compiles cfg F hF a p code p' h hi hfl.1)
        (fun p code p' h hi => compile_compiles cfg F hF b p code p' h hi hfl.2.1) m name p code p' hn h hinv
  | .closure m x, p, code, p', h, hinv, hfl => by
    rw [compileNode_closure] at h
    obtain ⟨i1, e1, c1⟩ := compile_compiles cfg F hF x p code p' h hinv hfl
    exact ⟨i1, e1, fun K hK => by rw [Compiles_closure]; exact c1 K hK⟩
  | .pointer m, p, code, p', h, hinv, _ => by
    rw [compileNode_pointer] at h; comp_simp at h
    obtain ⟨car, p1, h1, ci, p2, h2, rfl, rfl⟩ := h
    obtain ⟨hk1, e1, i1⟩ := mkConst_spec hF hinv (nofloat_str F _) h1
    obtain ⟨hk2, e2, i2⟩ := mkConst_spec hF i1 (nofloat_str F _) h2
    exact ⟨i2, by pext, fun K hK => by
      rw [Compiles_pointer]; exact ⟨car, ci, PoolExt.get (by pext) hk1, hK.get hk2, rfl⟩⟩
  | .cond m c a b, p, code, p', h, hinv, hfl => by
    rw [compileNode_cond] at h; comp_simp at h
    obtain ⟨cc, p1, h1, ca, p2, h2, cb, p3, h3, rfl, rfl⟩ := h
    obtain ⟨i1, e1, c1⟩ := compile_compiles cfg F hF c p cc p1 h1 hinv hfl.1
    obtain ⟨i2, e2, c2⟩ := compile_compiles cfg F hF a p1 ca p2 h2 i1 hfl.2.1
    obtain ⟨i3, e3, c3⟩ := compile_compiles cfg F hF b p2 cb p3 h3 i2 hfl.2.2
    exact ⟨i3, by pext, fun K hK => by
      rw [Compiles_cond]; exact ⟨cc, ca, cb, c1 K (by pext), c2 K (by pext), c3 K hK, rfl⟩⟩
  | .array m xs, p, code, p', h, hinv, hfl => by
    rw [compileNode_array] at h; comp_simp at h
    obtain ⟨cx, p1, h1, k, p2, h2, rfl, rfl⟩ := h
    obtain ⟨i1, e1, c1⟩ := compileList_compiles cfg F hF xs p cx p1 h1 hinv hfl
    obtain ⟨hk, e2, i2⟩ := mkConst_spec hF i1 (nofloat_int F _ _) h2
    exact ⟨i2, by pext, fun K hK => by rw [Compiles_array]; exact ⟨cx, k, c1 K (by pext), hK.get hk, rfl⟩⟩
  | .map m ps, p, code, p', h, hinv, hfl => by
    rw [compileNode_map] at h; comp_simp at h
    obtain ⟨cx, p1, h1, k, p2, h2, rfl, rfl⟩ := h
    obtain ⟨i1, e1, c1⟩ := compileList_compiles cfg F hF ps p cx p1 h1 hinv hfl
    obtain ⟨hk, e2, i2⟩ := mkConst_spec hF i1 (nofloat_int F _ _) h2
    exact ⟨i2, by pext, fun K hK => by rw [Compiles_map]; exact ⟨cx, k, c1 K (by pext), hK.get hk, rfl⟩⟩
  | .pair m k v, p, code, p', h, hinv, hfl => by
    rw [compileNode_pair] at h; comp_simp at h
    obtain ⟨ck, p1, h1, cv, p2, h2, rfl, rfl⟩ := h
    obtain ⟨i1, e1, c1⟩ := compile_compiles cfg F hF k p ck p1 h1 hinv hfl.1
    obtain ⟨i2, e2, c2⟩ := compile_compiles cfg F hF v p1 cv p2 h2 i1 hfl.2
    exact ⟨i2, by pext, fun K hK => by rw [Compiles_pair]; exact ⟨ck, cv, c1 K (by pext), c2 K hK, rfl⟩⟩
theorem compileList_compiles (cfg : CompCfg) (F : Val → Prop) (hF : AliasFree F) :
    ∀ (ns : List Node) (p : Pool) (code : List LInstr) (p' : Pool), compileList cfg ns p = .ok (code, p') →
      PoolInv F p → FloatsInL F ns → CompOK F p p' (fun K => CompilesL K cfg ns code)
  | [], p, code, p', h, hinv, _ => by
    rw [compileList_nil] at h; comp_simp at h
    obtain ⟨rfl, rfl⟩ := h
    exact ⟨hinv, PoolExt.refl _, fun K _ => by rw [CompilesL_nil]⟩
  | n :: ns, p, code, p', h, hinv, hfl => by
    rw [compileList_cons] at h; comp_simp at h
    obtain ⟨c1, p1, h1, c2, p2, h2, rfl, rfl⟩ := h
    obtain ⟨i1, e1, k1⟩ := compile_compiles cfg F hF n p c1 p1 h1 hinv hfl.1
    obtain ⟨i2, e2, k2⟩ := compileList_compiles cfg F hF ns p1 c2 p2 h2 i1 hfl.2
    exact ⟨i2, by pext, fun K hK => by rw [CompilesL_cons]; exact ⟨c1, c2, k1 K (by pext), k2 K hK, rfl⟩⟩
end

end ExprModel.Refine
