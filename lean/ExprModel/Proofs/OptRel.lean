import ExprModel.Spec.Eval
/-
C02, part 1: the relation between an optimised and an unoptimised evaluation.

The optimizer removes allocations (constant sets, ranges, folded literals), so the two evaluations
do not run in equal states: the optimised one has counted *less* against the memory budget.
`OutLe a b` relates the outcome `a` of the optimised evaluation to the outcome `b` of the original:
either the original ran out of budget (then nothing is claimed: the budget is outside
transparency, DESIGN section 6 #13), or both have the same result (value or failure class) and the
optimised counter is not above the original one.  The call log is not compared (a ConstExpr call
is made at compile time; purity of such functions is the user's promise).
-/
namespace ExprModel
namespace OptProofs
open Spec

def OutLe {α : Type} (a b : R α × SState) : Prop :=
  b.1 = .error .budget ∨ (a.1 = b.1 ∧ a.2.memory ≤ b.2.memory)

/-- `m'` (optimised) simulates `m` (original) from every pair of states ordered by the counter -/
def RelM {α : Type} (m' m : SM α) : Prop :=
  ∀ s' s : SState, s'.memory ≤ s.memory → OutLe (m' s') (m s)

theorem OutLe.trans {α : Type} {a b c : R α × SState} (h1 : OutLe a b) (h2 : OutLe b c) : OutLe a c := by
  rcases h2 with h2 | ⟨h2, h2m⟩
  · exact .inl h2
  · rcases h1 with h1 | ⟨h1, h1m⟩
    · exact .inl (by rw [← h2]; exact h1)
    · exact .inr ⟨h1.trans h2, Int.le_trans h1m h2m⟩

theorem RelM.trans {α : Type} {m₁ m₂ m₃ : SM α} (h1 : RelM m₁ m₂) (h2 : RelM m₂ m₃) : RelM m₁ m₃ :=
  fun s' s hs => (h1 s' s' (Int.le_refl _)).trans (h2 s' s hs)

theorem bind_eq {α β : Type} (m : SM α) (f : α → SM β) (s : SState) :
    (m >>= f) s = match m s with
      | (.ok a, s') => f a s'
      | (.error e, s') => (.error e, s') := rfl

theorem RelM.bind {α β : Type} {m' m : SM α} {f' f : α → SM β}
    (h : RelM m' m) (hf : ∀ a, RelM (f' a) (f a)) : RelM (m' >>= f') (m >>= f) := by
  intro s' s hs
  have h0 := h s' s hs
  rw [bind_eq, bind_eq]
  rcases hm : m s with ⟨r, t⟩
  rcases hm' : m' s' with ⟨r', t'⟩
  rw [hm, hm'] at h0
  rcases h0 with h0 | ⟨h0, h0m⟩
  · simp only at h0; subst h0; exact .inl rfl
  · simp only at h0 h0m; subst h0
    cases r' with
    | ok a => exact hf a t' t h0m
    | error e => exact .inr ⟨rfl, h0m⟩

theorem RelM.pure {α : Type} (a : α) : RelM (pure a : SM α) (pure a) :=
  fun _ _ hs => .inr ⟨rfl, hs⟩

theorem RelM.fail {α : Type} (e : ErrClass) : RelM (SM.fail e : SM α) (SM.fail e) :=
  fun _ _ hs => .inr ⟨rfl, hs⟩

theorem RelM.lift {α : Type} (r : R α) : RelM (SM.lift r) (SM.lift r) := by
  cases r with
  | ok a => exact RelM.pure a
  | error e => exact RelM.fail e

theorem RelM.logCall (n : String) (as : List Val) : RelM (SM.logCall n as) (SM.logCall n as) :=
  fun _ _ hs => .inr ⟨rfl, hs⟩

theorem RelM.allocAfter (limit counted : Int) (built : Nat) :
    RelM (SM.allocAfter limit counted built) (SM.allocAfter limit counted built) := by
  intro s' s hs
  simp only [SM.allocAfter]
  by_cases h : s.memory + counted ≥ limit
  · exact .inl (by simp [h])
  · have h' : ¬ (s'.memory + counted ≥ limit) := by omega
    refine .inr ⟨by simp [h, h'], ?_⟩
    simp [h, h']; omega

theorem RelM.allocBefore (limit counted : Int) (built : Nat) :
    RelM (SM.allocBefore limit counted built) (SM.allocBefore limit counted built) := by
  intro s' s hs
  simp only [SM.allocBefore]
  by_cases h : s.memory + counted ≥ limit
  · exact .inl (by simp [h])
  · have h' : ¬ (s'.memory + counted ≥ limit) := by omega
    refine .inr ⟨by simp [h, h'], ?_⟩
    simp [h, h']; omega

/-- dropping an allocation of a non-negative number of elements on the optimised side -/
theorem RelM.skip_allocAfter {α : Type} (limit counted : Int) (built : Nat) (hc : 0 ≤ counted) {m' m : SM α}
    (h : RelM m' m) : RelM m' (SM.allocAfter limit counted built >>= fun _ => m) := by
  intro s' s hs
  rw [bind_eq]
  simp only [SM.allocAfter]
  by_cases hb : s.memory + counted ≥ limit
  · exact .inl (by simp [hb])
  · simp only [hb, if_false]
    exact h s' _ (by simp; omega)

theorem RelM.skip_allocBefore {α : Type} (limit counted : Int) (built : Nat) (hc : 0 ≤ counted) {m' m : SM α}
    (h : RelM m' m) : RelM m' (SM.allocBefore limit counted built >>= fun _ => m) := by
  intro s' s hs
  rw [bind_eq]
  simp only [SM.allocBefore]
  by_cases hb : s.memory + counted ≥ limit
  · exact .inl (by simp [hb])
  · simp only [hb, if_false]
    exact h s' _ (by simp; omega)

theorem RelM.ite {α : Type} (b : Bool) {x' x y' y : SM α} (hx : RelM x' x) (hy : RelM y' y) :
    RelM (if b = true then x' else y') (if b = true then x else y) := by
  cases b <;> simp [hx, hy]

theorem RelM.asBool (v : Val) : RelM (asBool v) (asBool v) := by
  cases v <;> first | exact RelM.pure _ | exact RelM.fail _

end OptProofs
end ExprModel
