import ExprModel.Proofs.OptFold
/-
C02, part 6: the annotation discipline the optimizer relies on (`wa`), as a property of trees that the
type checker establishes (`Props/C02.lean: check_wellAnnotated`) and every optimizer pass preserves.

At one node (`waHere`): an integer literal is a Go `int`; the annotation of a unary sign / of `+ - * /` whose
operands are annotated `int` (or not at all) is the annotation of its (left) operand; `%` of such operands
is itself annotated `int` (or not at all).  Literals retyped for a function parameter are not `plain`, so
nothing is asked of the nodes above them — and the optimizer as it is now does not fold those.
-/
namespace ExprModel
namespace OptProofs
open Spec Opt

def arith4 (op : String) : Bool := op == "+" || op == "-" || op == "*" || op == "/"

def waHere : Node → Bool
  | .int _ v => decide (inRange .int v)
  | .unary m op x => !(op == "-" || op == "+") || !plainKd x.kd || m.kd == x.kd
  | .binary m op l r =>
    (!arith4 op || !(plainKd l.kd && plainKd r.kd) || m.kd == l.kd) &&
    (!(op == "%") || !(plainKd l.kd && plainKd r.kd) || plainKd m.kd)
  | _ => true

mutual
/-- `waHere` at every node of the tree -/
def wa : Node → Bool
  | .nil m => true
  | .ident m a b => true
  | .int m v => waHere (.int m v)
  | .float m v => true
  | .bool m v => true
  | .str m v => true
  | .const m v => true
  | .pointer m => true
  | .unary m op x => waHere (.unary m op x) && wa x
  | .binary m op l r => waHere (.binary m op l r) && wa l && wa r
  | .matches _ _ l r => wa l && wa r
  | .prop _ x _ _ => wa x
  | .index _ x i => wa x && wa i
  | .slice _ x f t => wa x && waOpt f && waOpt t
  | .method _ x _ args _ => wa x && waList args
  | .func _ _ args _ => waList args
  | .builtin _ _ args => waList args
  | .closure _ x => wa x
  | .cond _ a b d => wa a && wa b && wa d
  | .array _ xs => waList xs
  | .map _ xs => waList xs
  | .pair _ k v => wa k && wa v
def waList : List Node → Bool
  | [] => true
  | n :: ns => wa n && waList ns
def waOpt : Option Node → Bool
  | none => true
  | some n => wa n
end

theorem wa_here : ∀ n : Node, wa n = true → waHere n = true := by
  intro n h
  cases n <;> simp only [wa, Bool.and_eq_true] at h <;> first | exact h | exact h.1 | exact h.1.1 | rfl

/-- what the traversal needs to know about a rule: on a node that satisfies the discipline, with children
    that do, the result satisfies it and keeps the node's annotation -/
structure KeepsWA (rule : Rule) : Prop where
  keep : ∀ N st, wa N = true → wa (rule N st).1 = true ∧ (rule N st).1.kd = N.kd


theorem waHere_unary_congr (m : Meta) (op : String) {x x' : Node} (h : x'.kd = x.kd) :
    waHere (.unary m op x') = waHere (.unary m op x) := by simp only [waHere, h]

theorem waHere_binary_congr (m : Meta) (op : String) {l l' r r' : Node} (hl : l'.kd = l.kd) (hr : r'.kd = r.kd) :
    waHere (.binary m op l' r') = waHere (.binary m op l r) := by simp only [waHere, hl, hr]

def WAres (n : Node) (r : Node × St) : Prop := wa r.1 = true ∧ r.1.kd = n.kd

section
variable (ws : Bool) (rule : Rule) (hk : KeepsWA rule)
include hk

theorem wa_node (n N' : Node) (st' : St) (hw : wa N' = true) (hkd : N'.kd = n.kd) : WAres n (rule N' st') :=
  ⟨(hk.keep N' st' hw).1, (hk.keep N' st' hw).2.trans hkd⟩

mutual
theorem walk_wa : (n : Node) → (st : St) → wa n = true → WAres n (walk ws rule n st)
  | .nil m, st, h => by simp only [walk]; exact wa_node rule hk _ _ st h rfl
  | .ident m a b, st, h => by simp only [walk]; exact wa_node rule hk _ _ st h rfl
  | .int m v, st, h => by simp only [walk]; exact wa_node rule hk _ _ st h rfl
  | .float m v, st, h => by simp only [walk]; exact wa_node rule hk _ _ st h rfl
  | .bool m v, st, h => by simp only [walk]; exact wa_node rule hk _ _ st h rfl
  | .str m v, st, h => by simp only [walk]; exact wa_node rule hk _ _ st h rfl
  | .const m v, st, h => by simp only [walk]; exact wa_node rule hk _ _ st h rfl
  | .pointer m, st, h => by simp only [walk]; exact wa_node rule hk _ _ st h rfl
  | .unary m op x, st, h => by
    simp only [walk]
    simp only [wa, Bool.and_eq_true] at h
    obtain ⟨w1, k1⟩ := walk_wa x st h.2
    refine wa_node rule hk _ _ _ ?_ rfl
    simp only [wa, Bool.and_eq_true, waHere_unary_congr m op k1]
    exact ⟨h.1, w1⟩
  | .binary m op l r, st, h => by
    simp only [walk]
    simp only [wa, Bool.and_eq_true] at h
    obtain ⟨w1, k1⟩ := walk_wa l st h.1.2
    obtain ⟨w2, k2⟩ := walk_wa r (walk ws rule l st).2 h.2
    refine wa_node rule hk _ _ _ ?_ rfl
    simp only [wa, Bool.and_eq_true, waHere_binary_congr m op k1 k2]
    exact ⟨⟨h.1.1, w1⟩, w2⟩
  | .matches m hre l r, st, h => by
    simp only [walk]
    simp only [wa, Bool.and_eq_true] at h
    obtain ⟨w1, _⟩ := walk_wa l st h.1
    obtain ⟨w2, _⟩ := walk_wa r (walk ws rule l st).2 h.2
    refine wa_node rule hk _ _ _ ?_ rfl
    simp only [wa, Bool.and_eq_true]; exact ⟨w1, w2⟩
  | .prop m x name ns, st, h => by
    simp only [walk]
    simp only [wa] at h
    obtain ⟨w1, _⟩ := walk_wa x st h
    refine wa_node rule hk _ _ _ ?_ rfl
    simp only [wa]; exact w1
  | .index m x i, st, h => by
    simp only [walk]
    simp only [wa, Bool.and_eq_true] at h
    obtain ⟨w1, _⟩ := walk_wa x st h.1
    obtain ⟨w2, _⟩ := walk_wa i (walk ws rule x st).2 h.2
    refine wa_node rule hk _ _ _ ?_ rfl
    simp only [wa, Bool.and_eq_true]; exact ⟨w1, w2⟩
  | .slice m x f t, st, h => by
    simp only [walk]
    simp only [wa, Bool.and_eq_true] at h
    by_cases hws : ws = true
    · rw [if_pos hws]
      obtain ⟨w1, _⟩ := walk_wa x st h.1.1
      have w2 := walkOpt_wa f (walk ws rule x st).2 h.1.2
      have w3 := walkOpt_wa t (walkOpt ws rule f (walk ws rule x st).2).2 h.2
      refine wa_node rule hk _ _ _ ?_ rfl
      simp only [wa, Bool.and_eq_true]; exact ⟨⟨w1, w2⟩, w3⟩
    · rw [if_neg hws]
      have w2 := walkOpt_wa f st h.1.2
      have w3 := walkOpt_wa t (walkOpt ws rule f st).2 h.2
      refine wa_node rule hk _ _ _ ?_ rfl
      simp only [wa, Bool.and_eq_true]; exact ⟨⟨h.1.1, w2⟩, w3⟩
  | .method m x name args ns, st, h => by
    simp only [walk]
    simp only [wa, Bool.and_eq_true] at h
    obtain ⟨w1, _⟩ := walk_wa x st h.1
    have w2 := walkList_wa args (walk ws rule x st).2 h.2
    refine wa_node rule hk _ _ _ ?_ rfl
    simp only [wa, Bool.and_eq_true]; exact ⟨w1, w2⟩
  | .func m name args fast, st, h => by
    simp only [walk]
    simp only [wa] at h
    have w2 := walkList_wa args st h
    refine wa_node rule hk _ _ _ ?_ rfl
    simp only [wa]; exact w2
  | .builtin m name args, st, h => by
    simp only [walk]
    simp only [wa] at h
    have w2 := walkList_wa args st h
    refine wa_node rule hk _ _ _ ?_ rfl
    simp only [wa]; exact w2
  | .closure m x, st, h => by
    simp only [walk]
    simp only [wa] at h
    obtain ⟨w1, _⟩ := walk_wa x st h
    refine wa_node rule hk _ _ _ ?_ rfl
    simp only [wa]; exact w1
  | .cond m a b d, st, h => by
    simp only [walk]
    simp only [wa, Bool.and_eq_true] at h
    obtain ⟨w1, _⟩ := walk_wa a st h.1.1
    obtain ⟨w2, _⟩ := walk_wa b (walk ws rule a st).2 h.1.2
    obtain ⟨w3, _⟩ := walk_wa d (walk ws rule b (walk ws rule a st).2).2 h.2
    refine wa_node rule hk _ _ _ ?_ rfl
    simp only [wa, Bool.and_eq_true]; exact ⟨⟨w1, w2⟩, w3⟩
  | .array m xs, st, h => by
    simp only [walk]
    simp only [wa] at h
    have w2 := walkList_wa xs st h
    refine wa_node rule hk _ _ _ ?_ rfl
    simp only [wa]; exact w2
  | .map m xs, st, h => by
    simp only [walk]
    simp only [wa] at h
    have w2 := walkList_wa xs st h
    refine wa_node rule hk _ _ _ ?_ rfl
    simp only [wa]; exact w2
  | .pair m k v, st, h => by
    simp only [walk]
    simp only [wa, Bool.and_eq_true] at h
    obtain ⟨w1, _⟩ := walk_wa k st h.1
    obtain ⟨w2, _⟩ := walk_wa v (walk ws rule k st).2 h.2
    refine wa_node rule hk _ _ _ ?_ rfl
    simp only [wa, Bool.and_eq_true]; exact ⟨w1, w2⟩
theorem walkList_wa : (ns : List Node) → (st : St) → waList ns = true → waList (walkList ws rule ns st).1 = true
  | [], st, _ => by simp only [walkList, waList]
  | n :: ns, st, h => by
    simp only [walkList]
    simp only [waList, Bool.and_eq_true] at h ⊢
    exact ⟨(walk_wa n st h.1).1, walkList_wa ns _ h.2⟩
theorem walkOpt_wa : (o : Option Node) → (st : St) → waOpt o = true → waOpt (walkOpt ws rule o st).1 = true
  | none, st, _ => by simp only [walkOpt, waOpt]
  | some n, st, h => by
    simp only [walkOpt]
    simp only [waOpt] at h ⊢
    exact (walk_wa n st h).1
end
end

theorem repeatPass_wa (ws : Bool) (rule : Rule) (hk : KeepsWA rule) :
    ∀ (k : Nat) (n n' : Node), wa n = true → repeatPass ws rule k n = .ok n' → wa n' = true := by
  intro k
  induction k with
  | zero => intro n n' h e; simp only [repeatPass] at e; cases e; exact h
  | succ k ih =>
    intro n n' h e
    simp only [repeatPass] at e
    have hw := (walk_wa ws rule hk n {} h).1
    split at e
    · cases e
    · split at e
      · exact ih _ _ hw e
      · cases e; exact hw


/-! two rules that agree on well-annotated nodes traverse well-annotated trees alike -/
section
variable (ws : Bool) (r1 r2 : Rule) (hk : KeepsWA r2) (heq : ∀ N st, wa N = true → r1 N st = r2 N st)
include hk heq

mutual
theorem walk_agree : (n : Node) → (st : St) → wa n = true → walk ws r1 n st = walk ws r2 n st
  | .nil m, st, h => by simp only [walk]; exact heq _ _ h
  | .ident m a b, st, h => by simp only [walk]; exact heq _ _ h
  | .int m v, st, h => by simp only [walk]; exact heq _ _ h
  | .float m v, st, h => by simp only [walk]; exact heq _ _ h
  | .bool m v, st, h => by simp only [walk]; exact heq _ _ h
  | .str m v, st, h => by simp only [walk]; exact heq _ _ h
  | .const m v, st, h => by simp only [walk]; exact heq _ _ h
  | .pointer m, st, h => by simp only [walk]; exact heq _ _ h
  | .unary m op x, st, h => by
    have hw := (walk_wa ws r2 hk (.unary m op x) st h)
    simp only [walk] at hw ⊢
    simp only [wa, Bool.and_eq_true] at h
    rw [walk_agree x st h.2]
    obtain ⟨w1, k1⟩ := walk_wa ws r2 hk x st h.2
    exact heq _ _ (by simp only [wa, Bool.and_eq_true, waHere_unary_congr m op k1]; exact ⟨h.1, w1⟩)
  | .binary m op l r, st, h => by
    simp only [walk]
    simp only [wa, Bool.and_eq_true] at h
    rw [walk_agree l st h.1.2, walk_agree r _ h.2]
    obtain ⟨w1, k1⟩ := walk_wa ws r2 hk l st h.1.2
    obtain ⟨w2, k2⟩ := walk_wa ws r2 hk r (walk ws r2 l st).2 h.2
    exact heq _ _ (by simp only [wa, Bool.and_eq_true, waHere_binary_congr m op k1 k2]; exact ⟨⟨h.1.1, w1⟩, w2⟩)
  | .matches m hre l r, st, h => by
    simp only [walk]
    simp only [wa, Bool.and_eq_true] at h
    rw [walk_agree l st h.1, walk_agree r _ h.2]
    exact heq _ _ (by
      simp only [wa, Bool.and_eq_true]
      exact ⟨(walk_wa ws r2 hk l st h.1).1, (walk_wa ws r2 hk r _ h.2).1⟩)
  | .prop m x name ns, st, h => by
    simp only [walk]
    simp only [wa] at h
    rw [walk_agree x st h]
    exact heq _ _ (by simp only [wa]; exact (walk_wa ws r2 hk x st h).1)
  | .index m x i, st, h => by
    simp only [walk]
    simp only [wa, Bool.and_eq_true] at h
    rw [walk_agree x st h.1, walk_agree i _ h.2]
    exact heq _ _ (by
      simp only [wa, Bool.and_eq_true]
      exact ⟨(walk_wa ws r2 hk x st h.1).1, (walk_wa ws r2 hk i _ h.2).1⟩)
  | .slice m x f t, st, h => by
    simp only [walk]
    simp only [wa, Bool.and_eq_true] at h
    by_cases hws : ws = true
    · rw [if_pos hws, if_pos hws, walk_agree x st h.1.1, walkOpt_agree f _ h.1.2, walkOpt_agree t _ h.2]
      exact heq _ _ (by
        simp only [wa, Bool.and_eq_true]
        exact ⟨⟨(walk_wa ws r2 hk x st h.1.1).1, walkOpt_wa ws r2 hk f _ h.1.2⟩, walkOpt_wa ws r2 hk t _ h.2⟩)
    · rw [if_neg hws, if_neg hws, walkOpt_agree f _ h.1.2, walkOpt_agree t _ h.2]
      exact heq _ _ (by
        simp only [wa, Bool.and_eq_true]
        exact ⟨⟨h.1.1, walkOpt_wa ws r2 hk f _ h.1.2⟩, walkOpt_wa ws r2 hk t _ h.2⟩)
  | .method m x name args ns, st, h => by
    simp only [walk]
    simp only [wa, Bool.and_eq_true] at h
    rw [walk_agree x st h.1, walkList_agree args _ h.2]
    exact heq _ _ (by
      simp only [wa, Bool.and_eq_true]
      exact ⟨(walk_wa ws r2 hk x st h.1).1, walkList_wa ws r2 hk args _ h.2⟩)
  | .func m name args fast, st, h => by
    simp only [walk]
    simp only [wa] at h
    rw [walkList_agree args _ h]
    exact heq _ _ (by simp only [wa]; exact walkList_wa ws r2 hk args _ h)
  | .builtin m name args, st, h => by
    simp only [walk]
    simp only [wa] at h
    rw [walkList_agree args _ h]
    exact heq _ _ (by simp only [wa]; exact walkList_wa ws r2 hk args _ h)
  | .closure m x, st, h => by
    simp only [walk]
    simp only [wa] at h
    rw [walk_agree x st h]
    exact heq _ _ (by simp only [wa]; exact (walk_wa ws r2 hk x st h).1)
  | .cond m a b d, st, h => by
    simp only [walk]
    simp only [wa, Bool.and_eq_true] at h
    rw [walk_agree a st h.1.1, walk_agree b _ h.1.2, walk_agree d _ h.2]
    exact heq _ _ (by
      simp only [wa, Bool.and_eq_true]
      exact ⟨⟨(walk_wa ws r2 hk a st h.1.1).1, (walk_wa ws r2 hk b _ h.1.2).1⟩, (walk_wa ws r2 hk d _ h.2).1⟩)
  | .array m xs, st, h => by
    simp only [walk]
    simp only [wa] at h
    rw [walkList_agree xs _ h]
    exact heq _ _ (by simp only [wa]; exact walkList_wa ws r2 hk xs _ h)
  | .map m xs, st, h => by
    simp only [walk]
    simp only [wa] at h
    rw [walkList_agree xs _ h]
    exact heq _ _ (by simp only [wa]; exact walkList_wa ws r2 hk xs _ h)
  | .pair m k v, st, h => by
    simp only [walk]
    simp only [wa, Bool.and_eq_true] at h
    rw [walk_agree k st h.1, walk_agree v _ h.2]
    exact heq _ _ (by
      simp only [wa, Bool.and_eq_true]
      exact ⟨(walk_wa ws r2 hk k st h.1).1, (walk_wa ws r2 hk v _ h.2).1⟩)
theorem walkList_agree : (ns : List Node) → (st : St) → waList ns = true → walkList ws r1 ns st = walkList ws r2 ns st
  | [], st, _ => by simp only [walkList]
  | n :: ns, st, h => by
    simp only [walkList]
    simp only [waList, Bool.and_eq_true] at h
    rw [walk_agree n st h.1, walkList_agree ns _ h.2]
theorem walkOpt_agree : (o : Option Node) → (st : St) → waOpt o = true → walkOpt ws r1 o st = walkOpt ws r2 o st
  | none, st, _ => by simp only [walkOpt]
  | some n, st, h => by
    simp only [walkOpt]
    simp only [waOpt] at h
    rw [walk_agree n st h]
end
end

theorem repeatPass_agree (ws : Bool) (r1 r2 : Rule) (hk : KeepsWA r2) (heq : ∀ N st, wa N = true → r1 N st = r2 N st) :
    ∀ (k : Nat) (n : Node), wa n = true → repeatPass ws r1 k n = repeatPass ws r2 k n := by
  intro k
  induction k with
  | zero => intro n _; simp only [repeatPass]
  | succ k ih =>
    intro n h
    simp only [repeatPass]
    rw [walk_agree ws r1 r2 hk heq n {} h]
    split
    · rfl
    · split
      · exact ih _ (walk_wa ws r2 hk n {} h).1
      · rfl


/-! ### the rules keep the discipline -/

theorem guarded_keepsWA (g : Guard) (p : Pass) (r : Rule) (h : KeepsWA r) : KeepsWA (guarded g p r) where
  keep := by
    intro N st hw
    simp only [guarded]
    split
    · exact h.keep N st hw
    · exact ⟨hw, rfl⟩

theorem wa_int_wrap (m : Meta) (x : Int) : wa (.int m (wrap .int x)) = true := by
  simp only [wa, waHere, decide_eq_true_eq]; exact wrap_inRange x

theorem inArray_keepsWA (fl : Flags) : KeepsWA (inArrayRule fl) where
  keep := by
    intro N st hw
    unfold inArrayRule
    split
    · rename_i m op l ma xs
      have hl : wa l = true := by simp only [wa, Bool.and_eq_true] at hw; exact hw.1.2
      split
      · rename_i hc
        have hop : op = "in" ∨ op = "not in" := by
          simp only [Bool.and_eq_true, Bool.or_eq_true, beq_iff_eq] at hc; exact hc.1
        have mk : ∀ v : Val, wa (patch (.binary m op l (.array ma xs)) (.binary {} op l (.const {} v))) = true ∧
            (patch (.binary m op l (.array ma xs)) (.binary {} op l (.const {} v))).kd = (Node.binary m op l (.array ma xs)).kd := by
          intro v
          refine ⟨?_, rfl⟩
          simp only [patch, Node.withMeta, Node.getMeta, wa, Bool.and_eq_true, hl, and_true]
          rcases hop with rfl | rfl <;> simp [waHere, arith4]
        simp only []
        split
        · rename_i n' hn'
          split at hn'
          · cases hx : allInts xs with
            | none => rw [hx] at hn'; cases hn'
            | some vs => rw [hx] at hn'; simp only [Option.map_some, Option.some.injEq] at hn'; subst hn'; exact mk _
          · cases hn'
        · split
          · exact ⟨hw, rfl⟩
          · split
            · exact mk _
            · exact ⟨hw, rfl⟩
      · exact ⟨hw, rfl⟩
    · exact ⟨hw, rfl⟩

theorem fold_keepsWA (fl : Flags) (w : World) (hf : fl.foldPlainOnly = true) : KeepsWA (foldRule fl w) where
  keep := by
    intro N st hw
    have hh := wa_here N hw
    unfold foldRule
    split
    · rename_i m op mi i
      have hi : inRange .int i := by
        simp only [wa, waHere, Bool.and_eq_true, decide_eq_true_eq] at hw; exact hw.2
      simp only [hf, Bool.true_and]
      split
      · exact ⟨hw, rfl⟩
      · rename_i hp
        have hp' : plainKd mi.kd = true := by simpa using hp
        split
        · rename_i h; have : op = "-" := by simpa using h
          subst this
          have hk : m.kd = mi.kd := by simpa [waHere, hp', Node.kd, Node.getMeta] using hh
          exact ⟨by simp only [patchWithType, Node.withMeta]; exact wa_int_wrap _ _,
            by simp [patchWithType, Node.withMeta, Node.kd, Node.getMeta, hk]⟩
        · split
          · rename_i _ h; have : op = "+" := by simpa using h
            subst this
            have hk : m.kd = mi.kd := by simpa [waHere, hp', Node.kd, Node.getMeta] using hh
            exact ⟨by simp only [patchWithType, Node.withMeta, wa, waHere, decide_eq_true_eq]; exact hi,
              by simp [patchWithType, Node.withMeta, Node.kd, Node.getMeta, hk]⟩
          · exact ⟨hw, rfl⟩
    · rename_i m op ma a mb b
      have hkd : arith4 op = true → plainKd ma.kd = true → plainKd mb.kd = true → m.kd = ma.kd := by
        intro h4 h1 h2
        have := hh
        simp [waHere, h4, h1, h2, Node.kd, Node.getMeta] at this
        exact this.1
      have res : ∀ v, arith4 op = true → plainKd ma.kd = true → plainKd mb.kd = true →
          wa (patchWithType (.binary m op (.int ma a) (.int mb b)) ma.kd (.int {} (wrap .int v))) = true ∧
          (patchWithType (.binary m op (.int ma a) (.int mb b)) ma.kd (.int {} (wrap .int v))).kd =
            (Node.binary m op (.int ma a) (.int mb b)).kd := by
        intro v h4 h1 h2
        exact ⟨by simp only [patchWithType, Node.withMeta]; exact wa_int_wrap _ _,
          by simp [patchWithType, Node.withMeta, Node.kd, Node.getMeta, hkd h4 h1 h2]⟩
      simp only [hf, Bool.true_and]
      by_cases h4 : arith4 op = true
      · have h4' : (op == "+" || op == "-" || op == "*" || op == "/") = true := by simpa [arith4] using h4
        simp only [h4', if_true]
        split
        · exact ⟨hw, rfl⟩
        · rename_i hp
          have hp' : plainKd ma.kd = true ∧ plainKd mb.kd = true := by
            cases h1 : plainKd ma.kd <;> cases h2 : plainKd mb.kd <;> simp_all
          repeat' split
          all_goals first | exact res _ h4 hp'.1 hp'.2 | exact ⟨hw, rfl⟩
      · have h4' : (op == "+" || op == "-" || op == "*" || op == "/") = false := by simpa [arith4] using h4
        simp only [h4', Bool.false_eq_true, if_false]
        repeat' split
        all_goals first
          | exact ⟨hw, rfl⟩
          | exact ⟨by simp only [patch, Node.withMeta]; exact wa_int_wrap _ _, rfl⟩
          | exact ⟨by simp only [patch, Node.withMeta, wa], rfl⟩
    · split
      · exact ⟨by simp only [patch, Node.withMeta, wa], rfl⟩
      · exact ⟨hw, rfl⟩
    · repeat' split
      all_goals first | exact ⟨hw, rfl⟩ | exact ⟨by simp only [patch, Node.withMeta, wa], rfl⟩
    · exact ⟨hw, rfl⟩

end OptProofs
end ExprModel
