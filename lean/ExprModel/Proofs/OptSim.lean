import ExprModel.Proofs.OptRel
/-
C02, part 2: simulation between syntax trees and its congruence.

`Sim c n' n`: the tree `n'` may stand for `n` in every context — same annotation, same literal-ness
where the evaluator looks at the syntax (regexp patterns, map pairs), and `eval c ctx n'` simulates
`eval c ctx n` (`RelM`) in every closure context.  One congruence lemma per node kind; reflexivity
(`sim_refl`: evaluation is monotone in the budget counter) follows by structural recursion.
-/
namespace ExprModel
namespace OptProofs
open Spec

def strLit : Node → Option String
  | .str _ s => some s
  | _ => none

def isPair : Node → Bool
  | .pair .. => true
  | _ => false

mutual
/-- well-formedness the parser guarantees and the evaluator relies on: a `matches` node carrying a
    pre-compiled regexp has a string literal as its right operand -/
def reOK : Node → Bool
  | .nil _ | .ident .. | .int .. | .float .. | .bool .. | .str .. | .const .. | .pointer _ => true
  | .unary _ _ x => reOK x
  | .binary _ _ l r => reOK l && reOK r
  | .matches _ h l r => (!h || (strLit r).isSome) && reOK l && reOK r
  | .prop _ x _ _ => reOK x
  | .index _ x i => reOK x && reOK i
  | .slice _ x f t => reOK x && reOKOpt f && reOKOpt t
  | .method _ x _ args _ => reOK x && reOKList args
  | .func _ _ args _ => reOKList args
  | .builtin _ _ args => reOKList args
  | .closure _ x => reOK x
  | .cond _ c a b => reOK c && reOK a && reOK b
  | .array _ xs => reOKList xs
  | .map _ ps => reOKList ps
  | .pair _ k v => reOK k && reOK v
def reOKList : List Node → Bool
  | [] => true
  | n :: ns => reOK n && reOKList ns
def reOKOpt : Option Node → Bool
  | none => true
  | some n => reOK n
end

structure Sim (c : SCfg) (n' n : Node) : Prop where
  kd : n'.kd = n.kd
  lit : ∀ s, strLit n = some s → strLit n' = some s
  re : reOK n = true → reOK n' = true
  ev : ∀ ctx, RelM (eval c ctx n') (eval c ctx n)
  head : ∀ ctx (rest' rest : List Node), RelM (evalList c ctx rest') (evalList c ctx rest) →
    RelM (evalList c ctx (n' :: rest')) (evalList c ctx (n :: rest))

inductive SimL (c : SCfg) : List Node → List Node → Prop
  | nil : SimL c [] []
  | cons {n' n : Node} {ns' ns : List Node} : Sim c n' n → SimL c ns' ns → SimL c (n' :: ns') (n :: ns)

inductive SimO (c : SCfg) : Option Node → Option Node → Prop
  | none : SimO c none none
  | some {n' n : Node} : Sim c n' n → SimO c (some n') (some n)

theorem SimL.ev {c : SCfg} {ns' ns : List Node} (h : SimL c ns' ns) :
    ∀ ctx, RelM (evalList c ctx ns') (evalList c ctx ns) := by
  induction h with
  | nil => intro ctx; simp only [evalList]; exact RelM.pure _
  | cons h _ ih => intro ctx; exact h.head ctx _ _ (ih ctx)

theorem SimL.re {c : SCfg} {ns' ns : List Node} (h : SimL c ns' ns) :
    reOKList ns = true → reOKList ns' = true := by
  induction h with
  | nil => intro _; rfl
  | cons h _ ih =>
    simp only [reOKList, Bool.and_eq_true]
    exact fun ⟨a, b⟩ => ⟨h.re a, ih b⟩

theorem SimO.re {c : SCfg} {o' o : Option Node} (h : SimO c o' o) :
    reOKOpt o = true → reOKOpt o' = true := by
  cases h with
  | none => intro _; rfl
  | some h => simpa [reOKOpt] using h.re

theorem evalList_cons_nonpair (c : SCfg) (ctx : Ctx) (n : Node) (rest : List Node) (h : isPair n = false) :
    evalList c ctx (n :: rest) = (do
      let v ← eval c ctx n
      let vs ← evalList c ctx rest
      pure (v :: vs)) := by
  cases n <;> first | (rw [evalList]; intro _ _ _ hh; cases hh) | (simp [isPair] at h)

theorem head_of_ev {c : SCfg} {n' n : Node} (hp' : isPair n' = false) (hp : isPair n = false)
    (h : ∀ ctx, RelM (eval c ctx n') (eval c ctx n)) :
    ∀ ctx (rest' rest : List Node), RelM (evalList c ctx rest') (evalList c ctx rest) →
      RelM (evalList c ctx (n' :: rest')) (evalList c ctx (n :: rest)) := by
  intro ctx rest' rest hr
  rw [evalList_cons_nonpair c ctx n' rest' hp', evalList_cons_nonpair c ctx n rest hp]
  exact (h ctx).bind fun _ => hr.bind fun _ => RelM.pure _


/-! ### a small tactic for goals `RelM m' m` whose two sides have the same shape -/

macro "relm_leaf" : tactic => `(tactic| first
  | assumption
  | exact RelM.lift _ | exact RelM.pure _ | exact RelM.fail _ | exact RelM.asBool _
  | exact RelM.logCall _ _ | exact RelM.allocAfter _ _ _ | exact RelM.allocBefore _ _ _)

theorem RelM.loopIdx {α : Type} {body' body : Nat → α → SM (α ⊕ Val)}
    (h : ∀ i acc, RelM (body' i acc) (body i acc)) :
    ∀ fuel i acc, RelM (loopIdx body' fuel i acc) (loopIdx body fuel i acc) := by
  intro fuel
  induction fuel with
  | zero => intro i acc; simp only [Spec.loopIdx]; exact RelM.pure _
  | succ k ih =>
    intro i acc
    simp only [Spec.loopIdx]
    refine RelM.bind (h i acc) (fun r => ?_)
    cases r with
    | inl a => exact ih _ _
    | inr v => exact RelM.pure _

syntax "relm" : tactic
set_option hygiene false in
macro_rules
  | `(tactic| relm) => `(tactic| first
      | relm_leaf
      | exact hx _ | exact hy _ | exact hz _
      | (refine RelM.loopIdx (fun _ _ => ?_) _ _ _ <;> relm)
      | (refine RelM.bind ?_ (fun _ => ?_) <;> relm)
      | (refine RelM.ite _ ?_ ?_ <;> relm)
      | (split <;> relm))

theorem sim_unary {c : SCfg} {x' x : Node} (m : Meta) (op : String) (h : Sim c x' x) :
    Sim c (.unary m op x') (.unary m op x) := by
  have ev : ∀ ctx, RelM (eval c ctx (.unary m op x')) (eval c ctx (.unary m op x)) := by
    intro ctx
    have hx := h.ev
    rw [eval, eval]
    relm
  exact {
    kd := rfl
    lit := by intro s hs; simp [strLit] at hs
    re := by simpa [reOK] using h.re
    ev := ev
    head := head_of_ev rfl rfl ev }

theorem sim_binary {c : SCfg} {l' l r' r : Node} (m : Meta) (op : String) (hl : Sim c l' l) (hr : Sim c r' r) :
    Sim c (.binary m op l' r') (.binary m op l r) := by
  have ev : ∀ ctx, RelM (eval c ctx (.binary m op l' r')) (eval c ctx (.binary m op l r)) := by
    intro ctx
    have hx := hl.ev
    have hy := hr.ev
    rw [eval, eval, hl.kd, hr.kd]
    relm
  exact {
    kd := rfl
    lit := by intro s hs; simp [strLit] at hs
    re := by simp only [reOK, Bool.and_eq_true]; exact fun ⟨a, b⟩ => ⟨hl.re a, hr.re b⟩
    ev := ev
    head := head_of_ev rfl rfl ev }


def patOf : Node → String
  | .str _ s => s
  | _ => ""

def evalMatchesRe (c : SCfg) (ctx : Ctx) (l : Node) (pat : String) : SM Val := do
  let a ← eval c ctx l
  match a with
  | .str subj => match c.world.regexMatch pat subj with
    | some m => pure (.bool m)
    | none => SM.fail .type_
  | _ => SM.fail .type_

theorem eval_matches_true (c : SCfg) (ctx : Ctx) (m : Meta) (l r : Node) :
    eval c ctx (.matches m true l r) = evalMatchesRe c ctx l (patOf r) := by
  cases r <;> simp only [eval, patOf, evalMatchesRe, if_true] <;> rfl

theorem patOf_of_lit {c : SCfg} {r' r : Node} (h : Sim c r' r) (hs : (strLit r).isSome = true) : patOf r' = patOf r := by
  cases r <;> simp [strLit] at hs
  rename_i mr s
  have := h.lit s rfl
  cases r' <;> simp [strLit] at this
  subst this; rfl

theorem sim_matches {c : SCfg} {l' l r' r : Node} (m : Meta) (h : Bool) (hl : Sim c l' l) (hr : Sim c r' r)
    (hp : h = true → patOf r' = patOf r) : Sim c (.matches m h l' r') (.matches m h l r) := by
  have ev : ∀ ctx, RelM (eval c ctx (.matches m h l' r')) (eval c ctx (.matches m h l r)) := by
    intro ctx
    have hx := hl.ev
    have hy := hr.ev
    cases h with
    | false => simp only [eval, Bool.false_eq_true, if_false]; relm
    | true =>
      rw [eval_matches_true, eval_matches_true, hp rfl]
      simp only [evalMatchesRe]
      relm
  exact {
    kd := rfl
    lit := by intro s hs; simp [strLit] at hs
    re := by
      simp only [reOK, Bool.and_eq_true, Bool.or_eq_true, Bool.not_eq_true']
      rintro ⟨⟨a, b⟩, d⟩
      refine ⟨⟨?_, hl.re b⟩, hr.re d⟩
      rcases a with a | a
      · exact .inl a
      · right
        cases hr' : strLit r with
        | none => simp [hr'] at a
        | some s => simp [hr.lit s hr']
    ev := ev
    head := head_of_ev rfl rfl ev }

theorem sim_prop {c : SCfg} {x' x : Node} (m : Meta) (name : String) (ns : Bool) (h : Sim c x' x) :
    Sim c (.prop m x' name ns) (.prop m x name ns) := by
  have ev : ∀ ctx, RelM (eval c ctx (.prop m x' name ns)) (eval c ctx (.prop m x name ns)) := by
    intro ctx
    have hx := h.ev
    rw [eval, eval]
    relm
  exact {
    kd := rfl
    lit := by intro s hs; simp [strLit] at hs
    re := by simpa [reOK] using h.re
    ev := ev
    head := head_of_ev rfl rfl ev }

theorem sim_index {c : SCfg} {x' x i' i : Node} (m : Meta) (hx : Sim c x' x) (hi : Sim c i' i) :
    Sim c (.index m x' i') (.index m x i) := by
  have ev : ∀ ctx, RelM (eval c ctx (.index m x' i')) (eval c ctx (.index m x i)) := by
    intro ctx
    have hy := hi.ev
    have hx := hx.ev
    rw [eval, eval]
    relm
  exact {
    kd := rfl
    lit := by intro s hs; simp [strLit] at hs
    re := by simp only [reOK, Bool.and_eq_true]; exact fun ⟨a, b⟩ => ⟨hx.re a, hi.re b⟩
    ev := ev
    head := head_of_ev rfl rfl ev }

theorem sim_slice {c : SCfg} {x' x : Node} {f' f t' t : Option Node} (m : Meta) (h : Sim c x' x)
    (hf : SimO c f' f) (ht : SimO c t' t) : Sim c (.slice m x' f' t') (.slice m x f t) := by
  have ev : ∀ ctx, RelM (eval c ctx (.slice m x' f' t')) (eval c ctx (.slice m x f t)) := by
    intro ctx
    have hx := h.ev
    rw [eval, eval]
    cases hf with
    | none =>
      cases ht with
      | none => relm
      | some ht => have hz := ht.ev; relm
    | some hf =>
      have hy := hf.ev
      cases ht with
      | none => relm
      | some ht => have hz := ht.ev; relm
  exact {
    kd := rfl
    lit := by intro s hs; simp [strLit] at hs
    re := by
      simp only [reOK, Bool.and_eq_true]
      exact fun ⟨⟨a, b⟩, d⟩ => ⟨⟨h.re a, hf.re b⟩, ht.re d⟩
    ev := ev
    head := head_of_ev rfl rfl ev }

theorem sim_method {c : SCfg} {x' x : Node} {as' as : List Node} (m : Meta) (name : String) (ns : Bool)
    (h : Sim c x' x) (ha : SimL c as' as) : Sim c (.method m x' name as' ns) (.method m x name as ns) := by
  have ev : ∀ ctx, RelM (eval c ctx (.method m x' name as' ns)) (eval c ctx (.method m x name as ns)) := by
    intro ctx
    have hx := h.ev
    have hy := ha.ev
    rw [eval, eval]
    relm
  exact {
    kd := rfl
    lit := by intro s hs; simp [strLit] at hs
    re := by simp only [reOK, Bool.and_eq_true]; exact fun ⟨a, b⟩ => ⟨h.re a, ha.re b⟩
    ev := ev
    head := head_of_ev rfl rfl ev }

theorem sim_func {c : SCfg} {as' as : List Node} (m : Meta) (name : String) (fast : Bool)
    (ha : SimL c as' as) : Sim c (.func m name as' fast) (.func m name as fast) := by
  have ev : ∀ ctx, RelM (eval c ctx (.func m name as' fast)) (eval c ctx (.func m name as fast)) := by
    intro ctx
    have hy := ha.ev
    rw [eval, eval]
    relm
  exact {
    kd := rfl
    lit := by intro s hs; simp [strLit] at hs
    re := by simpa [reOK] using ha.re
    ev := ev
    head := head_of_ev rfl rfl ev }

theorem sim_closure {c : SCfg} {x' x : Node} (m : Meta) (h : Sim c x' x) :
    Sim c (.closure m x') (.closure m x) := by
  have ev : ∀ ctx, RelM (eval c ctx (.closure m x')) (eval c ctx (.closure m x)) := by
    intro ctx
    rw [eval, eval]
    exact h.ev ctx
  exact {
    kd := rfl
    lit := by intro s hs; simp [strLit] at hs
    re := by simpa [reOK] using h.re
    ev := ev
    head := head_of_ev rfl rfl ev }

theorem sim_cond {c : SCfg} {a' a b' b d' d : Node} (m : Meta) (ha : Sim c a' a) (hb : Sim c b' b) (hd : Sim c d' d) :
    Sim c (.cond m a' b' d') (.cond m a b d) := by
  have ev : ∀ ctx, RelM (eval c ctx (.cond m a' b' d')) (eval c ctx (.cond m a b d)) := by
    intro ctx
    have hx := ha.ev
    have hy := hb.ev
    have hz := hd.ev
    rw [eval, eval]
    relm
  exact {
    kd := rfl
    lit := by intro s hs; simp [strLit] at hs
    re := by
      simp only [reOK, Bool.and_eq_true]
      exact fun ⟨⟨x, y⟩, z⟩ => ⟨⟨ha.re x, hb.re y⟩, hd.re z⟩
    ev := ev
    head := head_of_ev rfl rfl ev }

theorem SimL.length {c : SCfg} {ns' ns : List Node} (h : SimL c ns' ns) : ns'.length = ns.length := by
  induction h with
  | nil => rfl
  | cons _ _ ih => simp [ih]

theorem sim_array {c : SCfg} {xs' xs : List Node} (m : Meta) (h : SimL c xs' xs) :
    Sim c (.array m xs') (.array m xs) := by
  have ev : ∀ ctx, RelM (eval c ctx (.array m xs')) (eval c ctx (.array m xs)) := by
    intro ctx
    have hy := h.ev
    rw [eval, eval]
    relm
  exact {
    kd := rfl
    lit := by intro s hs; simp [strLit] at hs
    re := by simpa [reOK] using h.re
    ev := ev
    head := head_of_ev rfl rfl ev }

theorem sim_map {c : SCfg} {xs' xs : List Node} (m : Meta) (h : SimL c xs' xs) :
    Sim c (.map m xs') (.map m xs) := by
  have ev : ∀ ctx, RelM (eval c ctx (.map m xs')) (eval c ctx (.map m xs)) := by
    intro ctx
    have hy := h.ev
    rw [eval, eval, h.length]
    relm
  exact {
    kd := rfl
    lit := by intro s hs; simp [strLit] at hs
    re := by simpa [reOK] using h.re
    ev := ev
    head := head_of_ev rfl rfl ev }

theorem sim_pair {c : SCfg} {k' k v' v : Node} (m : Meta) (hk : Sim c k' k) (hv : Sim c v' v) :
    Sim c (.pair m k' v') (.pair m k v) where
  kd := rfl
  lit := by intro s hs; simp [strLit] at hs
  re := by simp only [reOK, Bool.and_eq_true]; exact fun ⟨a, b⟩ => ⟨hk.re a, hv.re b⟩
  ev := by intro ctx; rw [eval, eval]; exact RelM.fail _
  head := by
    intro ctx rest' rest hr
    have hx := hk.ev
    have hy := hv.ev
    rw [evalList, evalList]
    relm


theorem eval_builtin_other (c : SCfg) (ctx : Ctx) (m : Meta) (name : String) (as : List Node)
    (h1 : ∀ a, name = "len" → as = [a] → False) (h2 : ∀ a b, as = [a, b] → False) :
    eval c ctx (.builtin m name as) = SM.fail .badop := by
  rw [eval] <;> assumption

theorem sim_builtin {c : SCfg} {as' as : List Node} (m : Meta) (name : String) (h : SimL c as' as) :
    Sim c (.builtin m name as') (.builtin m name as) := by
  have ev : ∀ ctx, RelM (eval c ctx (.builtin m name as')) (eval c ctx (.builtin m name as)) := by
    intro ctx
    cases h with
    | nil =>
      rw [eval_builtin_other _ _ _ _ _ (by intro _ _ h; cases h) (by intro _ _ h; cases h)]
      exact RelM.fail _
    | cons h1 t =>
      have hx := h1.ev
      cases t with
      | nil =>
        by_cases hn : name = "len"
        · subst hn; simp only [eval]; relm
        · rw [eval_builtin_other _ _ _ _ _ (by intro _ h _; exact hn h) (by intro _ _ h; cases h),
              eval_builtin_other _ _ _ _ _ (by intro _ h _; exact hn h) (by intro _ _ h; cases h)]
          exact RelM.fail _
      | cons h2 t2 =>
        have hy := h2.ev
        cases t2 with
        | nil => simp only [eval]; relm
        | cons h3 t3 =>
          rw [eval_builtin_other _ _ _ _ _ (by intro _ _ h; cases h) (by intro _ _ h; cases h),
              eval_builtin_other _ _ _ _ _ (by intro _ _ h; cases h) (by intro _ _ h; cases h)]
          exact RelM.fail _
  exact {
    kd := rfl
    lit := by intro s hs; simp [strLit] at hs
    re := by simpa [reOK] using h.re
    ev := ev
    head := head_of_ev rfl rfl ev }


theorem sim_leaf {c : SCfg} (n : Node) (hp : isPair n = false)
    (hev : ∀ ctx, RelM (eval c ctx n) (eval c ctx n)) : Sim c n n where
  kd := rfl
  lit := fun _ h => h
  re := fun h => h
  ev := hev
  head := head_of_ev hp hp hev

mutual
/-- evaluation is monotone in the budget counter: every tree simulates itself -/
theorem sim_refl (c : SCfg) : (n : Node) → Sim c n n
  | .nil m => sim_leaf _ rfl (by intro ctx; rw [eval]; relm)
  | .ident m a b => sim_leaf _ rfl (by intro ctx; rw [eval]; relm)
  | .int m v => sim_leaf _ rfl (by intro ctx; rw [eval]; relm)
  | .float m v => sim_leaf _ rfl (by intro ctx; rw [eval]; relm)
  | .bool m v => sim_leaf _ rfl (by intro ctx; rw [eval]; relm)
  | .str m v => sim_leaf _ rfl (by intro ctx; rw [eval]; relm)
  | .const m v => sim_leaf _ rfl (by intro ctx; rw [eval]; relm)
  | .pointer m => sim_leaf _ rfl (by
      intro ctx
      cases ctx with
      | nil => simp only [eval]; relm
      | cons p rest => cases p; simp only [eval]; relm)
  | .unary m op x => sim_unary m op (sim_refl c x)
  | .binary m op l r => sim_binary m op (sim_refl c l) (sim_refl c r)
  | .matches m h l r => sim_matches m h (sim_refl c l) (sim_refl c r) (fun _ => rfl)
  | .prop m x name ns => sim_prop m name ns (sim_refl c x)
  | .index m x i => sim_index m (sim_refl c x) (sim_refl c i)
  | .slice m x f t => sim_slice m (sim_refl c x) (simO_refl c f) (simO_refl c t)
  | .method m x name args ns => sim_method m name ns (sim_refl c x) (simL_refl c args)
  | .func m name args fast => sim_func m name fast (simL_refl c args)
  | .builtin m name args => sim_builtin m name (simL_refl c args)
  | .closure m x => sim_closure m (sim_refl c x)
  | .cond m a b d => sim_cond m (sim_refl c a) (sim_refl c b) (sim_refl c d)
  | .array m xs => sim_array m (simL_refl c xs)
  | .map m ps => sim_map m (simL_refl c ps)
  | .pair m k v => sim_pair m (sim_refl c k) (sim_refl c v)
theorem simL_refl (c : SCfg) : (ns : List Node) → SimL c ns ns
  | [] => .nil
  | n :: ns => .cons (sim_refl c n) (simL_refl c ns)
theorem simO_refl (c : SCfg) : (o : Option Node) → SimO c o o
  | none => .none
  | some n => .some (sim_refl c n)
end

theorem Sim.trans {c : SCfg} {a b d : Node} (h1 : Sim c a b) (h2 : Sim c b d) : Sim c a d where
  kd := h1.kd.trans h2.kd
  lit := fun s hs => h1.lit s (h2.lit s hs)
  re := fun h => h1.re (h2.re h)
  ev := fun ctx => (h1.ev ctx).trans (h2.ev ctx)
  head := fun ctx r' r hr => (h1.head ctx r' r' ((simL_refl c r').ev ctx)).trans (h2.head ctx r' r hr)

theorem SimL.trans {c : SCfg} {a b d : List Node} (h1 : SimL c a b) (h2 : SimL c b d) : SimL c a d := by
  induction h1 generalizing d with
  | nil => cases h2; exact .nil
  | cons x _ ih => cases h2 with | cons y t => exact .cons (x.trans y) (ih t)

end OptProofs
end ExprModel
