import ExprModel.Proofs.SoundColl
/-
Soundness against `Spec.eval`: assembly.  The predicate builtins at the level of the checker, the
fragment predicates (`inFrag2`, `typed2`) and the induction over the extended fragment.
-/
namespace ExprModel
open Spec

variable {E : ErrClass → Prop}

theorem evalOKV_closure {P : Ctx → Prop} {c : SCfg} {mc : Meta} {b : Node} {V : VTy}
    (h : EvalOKV E P c b V) : EvalOKV E P c (.closure mc b) V := by
  intro ctx hctx s
  simp only [eval]
  exact h ctx hctx s

def isPredBuiltin (name : String) : Bool :=
  name == "all" || name == "none" || name == "any" || name == "one" || name == "count"

theorem isPredBuiltin_cases {name : String} (h : isPredBuiltin name = true) :
    name = "all" ∨ name = "none" ∨ name = "any" ∨ name = "one" ∨ name = "count" := by
  simpa [isPredBuiltin, or_assoc] using h

/-- `all none any one count` over a slice of scalars with a boolean closure -/
theorem spec2_predBuiltin (cfg : CheckCfg) (c : SCfg) (cs : List OTy) (m mc : Meta) (name : String) (a b : Node)
    (hname : isPredBuiltin name = true)
    (iha : Spec2 E cfg c cs a)
    (ihb : ∀ coll, synth cfg cs a = some coll → Spec2 E cfg c (coll :: cs) b)
    (ha : ∀ t, synth cfg cs a = some t → ∃ k, sliceElemKind t = some k)
    (hb : ∀ coll bt, synth cfg cs a = some coll → synth cfg (coll :: cs) b = some bt → ScalarT bt) :
    Spec2 E cfg c cs (.builtin m name [a, .closure mc b]) := by
  intro τ V hs hV st hst
  have hcb : isCollBuiltin name = true := by
    rcases isPredBuiltin_cases hname with rfl | rfl | rfl | rfl | rfl <;> decide
  simp only [synth, hcb, if_true] at hs
  cases hsa : synth cfg cs a with
  | none => rw [hsa] at hs; cases hs
  | some coll =>
    rw [hsa] at hs
    simp only [] at hs
    obtain ⟨k, hk⟩ := ha coll hsa
    obtain ⟨harr, _⟩ := slice_type_facts hk
    simp only [harr, Bool.not_true, Bool.false_eq_true, if_false] at hs
    cases hsb : synth cfg (coll :: cs) b with
    | none => rw [hsb] at hs; cases hs
    | some bto =>
      have hbs := hb coll bto hsa hsb
      obtain ⟨bt, rfl⟩ := scalar_some hbs
      rw [hsb] at hs
      simp only [] at hs
      have hrule := toOption'_some hs
      -- the closure's result must be boolean
      have hshape : collBuiltinRule cfg.dt name coll (closureType bt) =
          (if !isBoolT (some bt) then Except.error CheckErrClass.closureNotBool
           else if name == "count" then Except.ok intTy else Except.ok boolTy) := by
        rcases isPredBuiltin_cases hname with rfl | rfl | rfl | rfl | rfl <;>
          simp (config := {decide := true}) [collBuiltinRule, closureType, interfaceType, Ty.kind, Ty.core]
      rw [hshape] at hrule
      by_cases hbool : isBoolT (some bt) = true
      · simp only [hbool, Bool.not_true, Bool.false_eq_true, if_false] at hrule
        have hbk : OTy.kind (some bt) = .bool := (isBoolT_scalar hbs).1 hbool
        -- visit
        obtain ⟨e1, _, ev1⟩ := iha coll (.sl k) hsa (vtyOf_slice_of hk) st hst
        have hst1 := visit_colls cfg a st
        rcases hav : visit cfg a st with ⟨a', coll', st1⟩
        rw [hav] at e1 ev1 hst1
        simp only [] at e1 ev1 hst1
        subst e1
        have hpush : ({ st1 with colls := coll' :: st1.colls } : CState).colls = coll' :: cs := by
          simp only [hst1, hst]
        obtain ⟨e2, _, ev2⟩ := ihb coll' hsa (some bt) (.sc .bool) hsb
          (by rw [vtyOf_scalar hbs, hbk]) { st1 with colls := coll' :: st1.colls } hpush
        rcases hbv : visit cfg b { st1 with colls := coll' :: st1.colls } with ⟨b', bt', st2⟩
        rw [hbv] at e2 ev2
        simp only [] at e2 ev2
        subst e2
        have hrule' : collBuiltinRule cfg.dt name coll' (closureType bt) = .ok τ := by
          rw [hshape]; simp only [hbool, Bool.not_true, Bool.false_eq_true, if_false]; exact hrule
        simp only [visit, hcb, if_true, hav, harr, Bool.not_true, Bool.false_eq_true, if_false, hbv, hrule', orFail_ok]
        refine ⟨trivial, setKd_kd _ _, ?_⟩
        have evb : EvalOKV E (CtxFor (coll' :: cs)) c (.closure { mc with kd := OTy.kind (closureType bt) } b') (.sc .bool) :=
          evalOKV_closure ev2
        intro ctx hctx s
        rcases isPredBuiltin_cases hname with rfl | rfl | rfl | rfl | rfl
        · simp (config := {decide := true}) only [if_false] at hrule
          cases hrule
          have : V = .sc .bool := by
            have : vtyOf boolTy = some (.sc .bool) := by decide
            rw [this] at hV; cases hV; rfl
          subst this
          show ResOK E isBoolVal (eval c ctx (.builtin _ "all" [a', .closure _ b']) s).1
          rw [eval_all]
          exact evalPredLoop_spec c a' _ _ _ _ (by intro v h; cases h) (by intro v h; cases h; exact ⟨_, rfl⟩) ⟨_, rfl⟩
            hk ev1 evb ctx hctx s
        · simp (config := {decide := true}) only [if_false] at hrule
          cases hrule
          have : V = .sc .bool := by
            have : vtyOf boolTy = some (.sc .bool) := by decide
            rw [this] at hV; cases hV; rfl
          subst this
          show ResOK E isBoolVal (eval c ctx (.builtin _ "none" [a', .closure _ b']) s).1
          rw [eval_none]
          exact evalPredLoop_spec c a' _ _ _ _ (by intro v h; cases h; exact ⟨_, rfl⟩) (by intro v h; cases h) ⟨_, rfl⟩
            hk ev1 evb ctx hctx s
        · simp (config := {decide := true}) only [if_false] at hrule
          cases hrule
          have : V = .sc .bool := by
            have : vtyOf boolTy = some (.sc .bool) := by decide
            rw [this] at hV; cases hV; rfl
          subst this
          show ResOK E isBoolVal (eval c ctx (.builtin _ "any" [a', .closure _ b']) s).1
          rw [eval_any]
          exact evalPredLoop_spec c a' _ _ _ _ (by intro v h; cases h; exact ⟨_, rfl⟩) (by intro v h; cases h) ⟨_, rfl⟩
            hk ev1 evb ctx hctx s
        · simp (config := {decide := true}) only [if_false] at hrule
          cases hrule
          have : V = .sc .bool := by
            have : vtyOf boolTy = some (.sc .bool) := by decide
            rw [this] at hV; cases hV; rfl
          subst this
          show ResOK E isBoolVal (eval c ctx (.builtin _ "one" [a', .closure _ b']) s).1
          rw [eval_one]
          exact evalCountLoop_spec c a' _ true hk ev1 evb ctx hctx s
        · simp (config := {decide := true}) only [if_true] at hrule
          cases hrule
          have : V = .sc (.num .int) := by
            have : vtyOf intTy = some (.sc (.num .int)) := by decide
            rw [this] at hV; cases hV; rfl
          subst this
          show ResOK E (fun v => ValOfK v (.num .int)) (eval c ctx (.builtin _ "count" [a', .closure _ b']) s).1
          rw [eval_count]
          exact evalCountLoop_spec c a' _ false hk ev1 evb ctx hctx s
      · simp only [hbool] at hrule
        simp at hrule

end ExprModel
