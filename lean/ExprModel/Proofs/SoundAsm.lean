import ExprModel.Proofs.SoundCall
/-
Soundness against `Spec.eval`: assembly.  The predicate builtins at the level of the checker, the
fragment predicates (`inFrag2`, `typed2`) and the induction over the extended fragment.
-/
namespace ExprModel
open Spec

variable {E : ErrClass → Prop}

theorem evalOKV_closure {P : Ctx → Prop} {c : SCfg} {mc : Meta} {b : Node} {V : VTy}
    (h : EvalOKV E P c b V) : EvalOKV E P c (.closure mc b) V := by
  intro ctx hctx s
  simp only [eval]
  exact h ctx hctx s

def isPredBuiltin (name : String) : Bool :=
  name == "all" || name == "none" || name == "any" || name == "one" || name == "count"

theorem isPredBuiltin_cases {name : String} (h : isPredBuiltin name = true) :
    name = "all" ∨ name = "none" ∨ name = "any" ∨ name = "one" ∨ name = "count" := by
  simpa [isPredBuiltin, or_assoc] using h

/-- `all none any one count` over a slice of scalars with a boolean closure -/
theorem spec2_predBuiltin (cfg : CheckCfg) (c : SCfg) (cs : List OTy) (m mc : Meta) (name : String) (a b : Node)
    (hname : isPredBuiltin name = true)
    (iha : Spec2 E cfg c cs a)
    (ihb : ∀ coll, synth cfg cs a = some coll → Spec2 E cfg c (coll :: cs) b)
    (ha : ∀ t, synth cfg cs a = some t → ∃ Va, vtyOf t = some Va ∧ Va.isColl = true)
    (hb : ∀ coll bt, synth cfg cs a = some coll → synth cfg (coll :: cs) b = some bt → ScalarT bt) :
    Spec2 E cfg c cs (.builtin m name [a, .closure mc b]) := by
  intro τ V hs hV st hst
  have hcb : isCollBuiltin name = true := by
    rcases isPredBuiltin_cases hname with rfl | rfl | rfl | rfl | rfl <;> decide
  simp only [synth, hcb, if_true] at hs
  cases hsa : synth cfg cs a with
  | none => rw [hsa] at hs; cases hs
  | some coll =>
    rw [hsa] at hs
    simp only [] at hs
    obtain ⟨Va, hk, hVa⟩ := ha coll hsa
    have harr := coll_isArrayT hk hVa
    simp only [harr, Bool.not_true, Bool.false_eq_true, if_false] at hs
    cases hsb : synth cfg (coll :: cs) b with
    | none => rw [hsb] at hs; cases hs
    | some bto =>
      have hbs := hb coll bto hsa hsb
      obtain ⟨bt, rfl⟩ := scalar_some hbs
      rw [hsb] at hs
      simp only [] at hs
      have hrule := toOption'_some hs
      -- the closure's result must be boolean
      have hshape : collBuiltinRule cfg.dt name coll (closureType bt) =
          (if !isBoolT (some bt) then Except.error CheckErrClass.closureNotBool
           else if name == "count" then Except.ok intTy else Except.ok boolTy) := by
        rcases isPredBuiltin_cases hname with rfl | rfl | rfl | rfl | rfl <;>
          simp (config := {decide := true}) [collBuiltinRule, closureType, interfaceType, Ty.kind, Ty.core]
      rw [hshape] at hrule
      by_cases hbool : isBoolT (some bt) = true
      · simp only [hbool, Bool.not_true, Bool.false_eq_true, if_false] at hrule
        have hbk : OTy.kind (some bt) = .bool := (isBoolT_scalar hbs).1 hbool
        -- visit
        obtain ⟨e1, _, ev1⟩ := iha coll Va hsa hk st hst
        have hst1 := visit_colls cfg a st
        rcases hav : visit cfg a st with ⟨a', coll', st1⟩
        rw [hav] at e1 ev1 hst1
        simp only [] at e1 ev1 hst1
        subst e1
        have hpush : ({ st1 with colls := coll' :: st1.colls } : CState).colls = coll' :: cs := by
          simp only [hst1, hst]
        obtain ⟨e2, _, ev2⟩ := ihb coll' hsa (some bt) (.sc .bool) hsb
          (by rw [vtyOf_scalar hbs, hbk]) { st1 with colls := coll' :: st1.colls } hpush
        rcases hbv : visit cfg b { st1 with colls := coll' :: st1.colls } with ⟨b', bt', st2⟩
        rw [hbv] at e2 ev2
        simp only [] at e2 ev2
        subst e2
        have hrule' : collBuiltinRule cfg.dt name coll' (closureType bt) = .ok τ := by
          rw [hshape]; simp only [hbool, Bool.not_true, Bool.false_eq_true, if_false]; exact hrule
        simp only [visit, hcb, if_true, hav, harr, Bool.not_true, Bool.false_eq_true, if_false, hbv, hrule', orFail_ok]
        refine ⟨trivial, setKd_kd _ _, ?_⟩
        have evb : EvalOKV E (CtxFor (coll' :: cs)) c (.closure { mc with kd := OTy.kind (closureType bt) } b') (.sc .bool) :=
          evalOKV_closure ev2
        intro ctx hctx s
        rcases isPredBuiltin_cases hname with rfl | rfl | rfl | rfl | rfl
        · simp (config := {decide := true}) only [if_false] at hrule
          cases hrule
          have : V = .sc .bool := by
            have : vtyOf boolTy = some (.sc .bool) := by decide
            rw [this] at hV; cases hV; rfl
          subst this
          show ResOK E isBoolVal (eval c ctx (.builtin _ "all" [a', .closure _ b']) s).1
          rw [eval_all]
          exact evalPredLoop_spec c a' _ _ _ _ (by intro v h; cases h) (by intro v h; cases h; exact ⟨_, rfl⟩) ⟨_, rfl⟩
            hk hVa ev1 evb ctx hctx s
        · simp (config := {decide := true}) only [if_false] at hrule
          cases hrule
          have : V = .sc .bool := by
            have : vtyOf boolTy = some (.sc .bool) := by decide
            rw [this] at hV; cases hV; rfl
          subst this
          show ResOK E isBoolVal (eval c ctx (.builtin _ "none" [a', .closure _ b']) s).1
          rw [eval_none]
          exact evalPredLoop_spec c a' _ _ _ _ (by intro v h; cases h; exact ⟨_, rfl⟩) (by intro v h; cases h) ⟨_, rfl⟩
            hk hVa ev1 evb ctx hctx s
        · simp (config := {decide := true}) only [if_false] at hrule
          cases hrule
          have : V = .sc .bool := by
            have : vtyOf boolTy = some (.sc .bool) := by decide
            rw [this] at hV; cases hV; rfl
          subst this
          show ResOK E isBoolVal (eval c ctx (.builtin _ "any" [a', .closure _ b']) s).1
          rw [eval_any]
          exact evalPredLoop_spec c a' _ _ _ _ (by intro v h; cases h; exact ⟨_, rfl⟩) (by intro v h; cases h) ⟨_, rfl⟩
            hk hVa ev1 evb ctx hctx s
        · simp (config := {decide := true}) only [if_false] at hrule
          cases hrule
          have : V = .sc .bool := by
            have : vtyOf boolTy = some (.sc .bool) := by decide
            rw [this] at hV; cases hV; rfl
          subst this
          show ResOK E isBoolVal (eval c ctx (.builtin _ "one" [a', .closure _ b']) s).1
          rw [eval_one]
          exact evalCountLoop_spec c a' _ true hk hVa ev1 evb ctx hctx s
        · simp (config := {decide := true}) only [if_true] at hrule
          cases hrule
          have : V = .sc (.num .int) := by
            have : vtyOf intTy = some (.sc (.num .int)) := by decide
            rw [this] at hV; cases hV; rfl
          subst this
          show ResOK E (fun v => ValOfK v (.num .int)) (eval c ctx (.builtin _ "count" [a', .closure _ b']) s).1
          rw [eval_count]
          exact evalCountLoop_spec c a' _ false hk hVa ev1 evb ctx hctx s
      · simp only [hbool] at hrule
        simp at hrule

/-! ### `filter` and `map` under the documented rule (`[]interface{}`) -/

theorem rok_fetch (hi : E .index) {tag : ElemT} {xs : List Val} {b : Val} {ki : Kind} (hb : NumOf b ki) :
    ROK E (fun _ : Val => True) (fetchV (.arr tag xs) b false) := by
  have h0 := fetchV_arr_gen (E := E) (tag := tag) (xs := xs) (fun _ => True) hi (fun _ _ => trivial) hb
  revert h0
  generalize fetchV (.arr tag xs) b false = r
  intro h0
  cases r with
  | ok v => trivial
  | error e => exact h0

/-- a loop step: continue with any accumulator, never decide -/
def StepAny {α : Type} (r : α ⊕ Val) : Prop :=
  match r with
  | .inl _ => True
  | .inr _ => False

theorem smok_loopIdx {α : Type} (body : Nat → α → SM (α ⊕ Val))
    (hbody : ∀ i acc, SMOK E StepAny (body i acc)) :
    ∀ fuel i acc, SMOK E StepAny (loopIdx body fuel i acc)
  | 0, _, _ => smok_pure (Q := StepAny) trivial
  | fuel + 1, i, acc => by
    simp only [loopIdx]
    refine smok_bind (hbody i acc) ?_
    intro r hr
    cases r with
    | inl acc' => exact smok_loopIdx body hbody fuel (i + 1) acc'
    | inr v => exact absurd hr id

/-- `filter(xs, {p})` and `map(xs, {e})` when the checker reports `[]interface{}` for them (the documented
rule, `staticSliceOf = false`): the value is a `[]interface{}`.  With the rule of the code as it is
(`[]T`, known finding) the static type claims an element tag the value does not have. -/
theorem spec2_filterMap (hi : E .index) (hbud : E .budget) (cfg : CheckCfg) (c : SCfg) (cs : List OTy) (m mc : Meta)
    (name : String) (a b : Node) (hname : name = "filter" ∨ name = "map")
    (hdt : cfg.dt.staticSliceOf = false)
    (iha : Spec2 E cfg c cs a)
    (ihb : ∀ coll, synth cfg cs a = some coll → Spec2 E cfg c (coll :: cs) b)
    (ha : ∀ t, synth cfg cs a = some t → ∃ Va, vtyOf t = some Va ∧ Va.isColl = true)
    (hb : ∀ coll bt, synth cfg cs a = some coll → synth cfg (coll :: cs) b = some bt →
      (∃ Vb, vtyOf bt = some Vb) ∧ (name = "filter" → ScalarT bt)) :
    Spec2 E cfg c cs (.builtin m name [a, .closure mc b]) := by
  intro τ V hs hV st hst
  have hcb : isCollBuiltin name = true := by
    rcases hname with rfl | rfl <;> decide
  simp only [synth, hcb, if_true] at hs
  cases hsa : synth cfg cs a with
  | none => rw [hsa] at hs; cases hs
  | some coll =>
    rw [hsa] at hs
    simp only [] at hs
    obtain ⟨Va, hk, hVa⟩ := ha coll hsa
    have harr := coll_isArrayT hk hVa
    simp only [harr, Bool.not_true, Bool.false_eq_true, if_false] at hs
    cases hsb : synth cfg (coll :: cs) b with
    | none => rw [hsb] at hs; cases hs
    | some bto =>
      obtain ⟨⟨Vb, hVb⟩, hfs⟩ := hb coll bto hsa hsb
      have hbsome : ∃ bt, bto = some bt := by
        cases bto with
        | none => simp [vtyOf, OTy.kind, RKind.isScalar, sliceElemKind, isAnySlice, sloElem, isObjT, isMapAnyT, OTy.deref] at hVb
        | some bt => exact ⟨bt, rfl⟩
      obtain ⟨bt, rfl⟩ := hbsome
      rw [hsb] at hs
      simp only [] at hs
      have hrule := toOption'_some hs
      -- the result type is `[]interface{}`; for `filter` the closure's result is boolean
      have hshape : collBuiltinRule cfg.dt name coll (closureType bt) =
          (if name == "map" then Except.ok arrayTy
           else if !isBoolT (some bt) then Except.error CheckErrClass.closureNotBool else Except.ok arrayTy) := by
        rcases hname with rfl | rfl <;>
          simp (config := {decide := true}) [collBuiltinRule, closureType, interfaceType, Ty.kind, Ty.core, hdt]
      have hτ : τ = arrayTy ∧ (name = "filter" → OTy.kind (some bt) = .bool) := by
        rw [hshape] at hrule
        rcases hname with rfl | rfl
        · simp (config := {decide := true}) only [if_false] at hrule
          by_cases hbool : isBoolT (some bt) = true
          · simp only [hbool, Bool.not_true, Bool.false_eq_true, if_false] at hrule
            cases hrule
            exact ⟨rfl, fun _ => (isBoolT_scalar (hfs rfl)).1 hbool⟩
          · simp only [hbool] at hrule
            simp at hrule
        · simp (config := {decide := true}) only [if_true] at hrule
          cases hrule
          exact ⟨rfl, fun h => absurd h (by decide)⟩
      obtain ⟨rfl, hfk⟩ := hτ
      have : V = .anys := by
        have : vtyOf arrayTy = some .anys := by decide
        rw [this] at hV; cases hV; rfl
      subst this
      -- visit
      obtain ⟨e1, _, ev1⟩ := iha coll Va hsa hk st hst
      have hst1 := visit_colls cfg a st
      rcases hav : visit cfg a st with ⟨a', coll', st1⟩
      rw [hav] at e1 ev1 hst1
      simp only [] at e1 ev1 hst1
      subst e1
      have hpush : ({ st1 with colls := coll' :: st1.colls } : CState).colls = coll' :: cs := by
        simp only [hst1, hst]
      obtain ⟨e2, _, ev2⟩ := ihb coll' hsa (some bt) Vb hsb hVb { st1 with colls := coll' :: st1.colls } hpush
      rcases hbv : visit cfg b { st1 with colls := coll' :: st1.colls } with ⟨b', bt', st2⟩
      rw [hbv] at e2 ev2
      simp only [] at e2 ev2
      subst e2
      simp only [visit, hcb, if_true, hav, harr, Bool.not_true, Bool.false_eq_true, if_false, hbv, hrule, orFail_ok]
      refine ⟨trivial, setKd_kd _ _, ?_⟩
      apply smok_evalOKV
      intro ctx hctx
      have hX := evalOKV_smok ev1 ctx hctx
      -- the closure's body at an element of the collection
      have hbody : ∀ (collv : Val), ValOfV collv Va → ∀ i : Nat,
          SMOK E (fun v => ValOfV v Vb) (eval c ((collv, (i : Int)) :: ctx) (.closure { mc with kd := OTy.kind (closureType bt) } b')) := by
        intro collv hcv i
        simp only [eval]
        exact evalOKV_smok ev2 ((collv, (i : Int)) :: ctx) ⟨Va, hk, hVa, hcv⟩
      rcases hname with rfl | rfl
      · -- filter
        have hVbool : Vb = .sc .bool := by
          have := hfk rfl
          rw [vtyOf_scalar (hfs rfl), this] at hVb
          cases hVb; rfl
        subst hVbool
        show SMOK E (fun v => ∃ ys, v = .arr .iface ys) (eval c ctx (.builtin _ "filter" [a', .closure _ b']))
        simp (config := {decide := true}) only [eval, builtinNames, List.contains, List.elem, if_true, if_false]
        refine smok_bind hX ?_
        intro collv hcv
        obtain ⟨et, xs, hshape⟩ := arr_of_collV hVa hcv
        subst hshape
        refine smok_bind (Qa := fun _ => True) (smok_lift trivial) ?_
        intro n _
        refine smok_bind (smok_loopIdx _ ?_ _ _ _) ?_
        · intro i acc
          have hb' := hbody _ hcv i
          simp only [eval] at hb'
          refine smok_bind hb' ?_
          intro v hv
          refine smok_bind (smok_asBool hv (fun _ => True) (fun _ => trivial)) ?_
          intro bv _
          cases bv
          · exact smok_pure (Q := StepAny) trivial
          · simp only [if_true]
            have hnum : NumOf (Val.int Kind.int (i : Int)) Kind.int := ⟨(i : Int), rfl⟩
            revert hnum
            generalize Val.int Kind.int (i : Int) = bidx
            intro hnum
            have hfetch := smok_lift (E := E) (rok_fetch (E := E) (tag := et) (xs := xs) hi hnum)
            exact smok_bind hfetch (fun el _ => smok_pure (Q := StepAny) trivial)
        · intro r hr
          cases r with
          | inr v => exact absurd hr id
          | inl acc =>
            refine smok_bind (smok_allocAfter hbud _ _ _) ?_
            intro _ _
            exact smok_pure ⟨_, rfl⟩
      · -- map
        show SMOK E (fun v => ∃ ys, v = .arr .iface ys) (eval c ctx (.builtin _ "map" [a', .closure _ b']))
        simp (config := {decide := true}) only [eval, builtinNames, List.contains, List.elem, if_true, if_false]
        refine smok_bind hX ?_
        intro collv hcv
        obtain ⟨et, xs, hshape⟩ := arr_of_collV hVa hcv
        subst hshape
        refine smok_bind (Qa := fun _ => True) (smok_lift trivial) ?_
        intro n _
        refine smok_bind (smok_loopIdx _ ?_ _ _ _) ?_
        · intro i acc
          have hb' := hbody _ hcv i
          simp only [eval] at hb'
          refine smok_bind hb' ?_
          intro v _
          exact smok_pure (Q := StepAny) trivial
        · intro r hr
          cases r with
          | inr v => exact absurd hr id
          | inl acc =>
            refine smok_bind (smok_allocAfter hbud _ _ _) ?_
            intro _ _
            exact smok_pure ⟨_, rfl⟩

/-! ### the extended fragment -/

/-- the constructs that need a hypothesis on the world: calls of environment functions, `matches`, method calls -/
structure FragOpts where
  calls : Bool := false
  regex : Bool := false
  methods : Bool := false
  deriving DecidableEq


mutual
/-- literals, identifiers, `#`, the operators of the scalar fragment, `in` / `not in` / `..` / `**`, indexing,
`len`, slicing, array and map literals, member access, the conditional, `all none any one count filter map`
with their closures (`filter` / `map` are admitted by `typed2` only under the documented result type
`[]interface{}`: the code's `[]T` is the known finding) and — behind the flags of `FragOpts` — calls of
environment functions, `matches`, method calls. -/
def inFrag2 (fo : FragOpts) : Node → Bool
  | .bool _ _ | .str _ _ | .int _ _ | .float _ _ | .ident _ _ _ | .pointer _ => true
  | .unary _ op x => fragUnary op && inFrag2 fo x
  | .binary _ op l r => (fragBinary op || op == "in" || op == "not in" || op == ".." || op == "**") && inFrag2 fo l && inFrag2 fo r
  | .cond _ c a b => inFrag2 fo c && inFrag2 fo a && inFrag2 fo b
  | .index _ x i => inFrag2 fo x && inFrag2 fo i
  | .slice _ x none none => inFrag2 fo x
  | .slice _ x (some f) none => inFrag2 fo x && inFrag2 fo f
  | .slice _ x none (some t) => inFrag2 fo x && inFrag2 fo t
  | .slice _ x (some f) (some t) => inFrag2 fo x && inFrag2 fo f && inFrag2 fo t
  | .builtin _ name [a] => name == "len" && inFrag2 fo a
  | .builtin _ name [a, .closure _ b] =>
    (isPredBuiltin name || name == "filter" || name == "map") && inFrag2 fo a && inFrag2 fo b
  | .func _ _ args _ => fo.calls && inFrag2L fo args
  | .array _ xs => inFrag2L fo xs
  | .prop _ x _ _ => inFrag2 fo x
  | .map _ ps => inFrag2P fo ps
  | .method _ x _ args _ => fo.methods && inFrag2 fo x && inFrag2L fo args
  | .matches _ _ l r => fo.regex && inFrag2 fo l && inFrag2 fo r
  | _ => false
def inFrag2L (fo : FragOpts) : List Node → Bool
  | [] => true
  | a :: rest => inFrag2 fo a && inFrag2L fo rest
/-- the pairs of a map literal -/
def inFrag2P (fo : FragOpts) : List Node → Bool
  | [] => true
  | .pair _ k v :: rest => inFrag2 fo k && inFrag2 fo v && inFrag2P fo rest
  | _ :: _ => false
end

def sliceOK (t : Option OTy) : Bool :=
  match t with
  | some τ => (sliceElemKind τ).isSome
  | none => false

/-- an integer of scalar type (excludes the loose index rule: a string index on a slice) -/
def intOK (t : Option OTy) : Bool :=
  match t with
  | some τ => τ.kind.isScalar && isIntegerT τ
  | none => false

def lenOK (t : Option OTy) : Bool :=
  match t with
  | some τ =>
    (match vtyOf τ with
      | some V => V == .sc .string || V.isSlice || V == .mapAny
      | none => false)
  | none => false

/-- a slice of scalars or a `[]interface{}` -/
def sliceVOK (t : Option OTy) : Bool :=
  match t with
  | some τ =>
    (match vtyOf τ with
      | some V => V.isSlice
      | none => false)
  | none => false

/-- the right operand of `in`: a slice, or — for a string on the left — a string-keyed map of interfaces or
a struct -/
def inOK (l r : Option OTy) : Bool :=
  match l, r with
  | some lt, some rt =>
    (match vtyOf lt, vtyOf rt with
      | some Vl, some Vr => Vr.isSlice || (Vl == .sc .string && (Vr == .mapAny || Vr == .obj rt))
      | _, _ => false)
  | _, _ => false

/-- indexing a `[]interface{}` by a number or a `map[string]interface{}` by a string: an `interface{}` -/
def idxAnyV : VTy → VTy → VTy → Bool
  | .anys, .sc (.num _), .any => true
  | .mapAny, .sc .string, .any => true
  | .slo et, .sc (.num _), .obj et' => et == et'
  | _, _, _ => false

theorem idxAnyV_cases {Vx Vi Vr : VTy} (h : idxAnyV Vx Vi Vr = true) :
    (Vx = .anys ∧ (∃ k, Vi = .sc (.num k)) ∧ Vr = .any) ∨ (Vx = .mapAny ∧ Vi = .sc .string ∧ Vr = .any) ∨
    (∃ et, Vx = .slo et ∧ (∃ k, Vi = .sc (.num k)) ∧ Vr = .obj et) := by
  unfold idxAnyV at h
  split at h
  · exact Or.inl ⟨rfl, ⟨_, rfl⟩, rfl⟩
  · exact Or.inr (Or.inl ⟨rfl, rfl, rfl⟩)
  · have := eq_of_beq h
    subst this
    exact Or.inr (Or.inr ⟨_, rfl, ⟨_, rfl⟩, rfl⟩)
  · cases h

theorem fetch_slo (hi : E .index) {a b : Val} {et : OTy} {ki : Kind} (ha : ValOfV a (.slo et)) (hb : NumOf b ki) :
    ROK E (fun v => ValOfV v (.obj et)) (fetchV a b false) := by
  obtain ⟨tag, xs, rfl, hall⟩ := ha
  have h0 := fetchV_arr_gen (E := E) (tag := tag) (fun v => ∀ n, Conf n v et) hi hall hb
  revert h0
  generalize fetchV (.arr tag xs) b false = r
  intro h0
  cases r with
  | ok v => exact h0
  | error e => exact h0

def idxAnyOK (x i r : Option OTy) : Bool :=
  match x, i, r with
  | some tx, some ti, some τ =>
    (match vtyOf tx, vtyOf ti, vtyOf τ with
      | some Vx, some Vi, some Vr => idxAnyV Vx Vi Vr
      | _, _, _ => false)
  | _, _, _ => false

/-- a member of a `map[string]interface{}`: an `interface{}` -/
def propMapOK (x r : Option OTy) : Bool :=
  match x, r with
  | some tx, some τ => vtyOf tx == some .mapAny && vtyOf τ == some .any
  | _, _ => false

def strOK (t : Option OTy) : Bool :=
  match t with
  | some τ => vtyOf τ == some (.sc .string)
  | none => false

/-- a collection with typed elements: a slice of scalars or of structs -/
def collOK (t : Option OTy) : Bool :=
  match t with
  | some τ =>
    (match vtyOf τ with
      | some V => V.isColl
      | none => false)
  | none => false

theorem collOK_elim {o : Option OTy} (h : collOK o = true) :
    ∀ t, o = some t → ∃ Va, vtyOf t = some Va ∧ Va.isColl = true := by
  intro t ht
  rw [ht] at h
  simp only [collOK] at h
  cases hv : vtyOf t with
  | none => rw [hv] at h; cases h
  | some V => rw [hv] at h; exact ⟨V, rfl, h⟩

/-- the receiver's type is one of the environment's (`recvTys`): `MethodsConform` speaks of these -/
def recvOK (cfg : CheckCfg) (t : Option OTy) : Bool :=
  match t with
  | some τ => (recvTys cfg).contains τ
  | none => false

/-- a struct or pointer-to-struct type -/
def objOK (t : Option OTy) : Bool :=
  match t with
  | some τ => vtyOf τ == some (.obj τ)
  | none => false

/-- both branches and the conditional have one value type -/
def condOK (dt : TDefects) (a b : Option OTy) : Bool :=
  match a, b with
  | some t1, some t2 => (vtyOf t1).isSome && vtyOf t2 == vtyOf t1 && vtyOf (condType dt t1 t2) == vtyOf t1
  | _, _ => false

mutual
/-- "all its operands are statically typed", for the extended fragment: every operand of a scalar operator
has a scalar type, collections are slices of scalars, indices are integers, closure bodies are scalar -/
def typed2 (cfg : CheckCfg) : List OTy → Node → Bool
  | cs, .unary m op x => scalarOK (synth cfg cs (.unary m op x)) && scalarOK (synth cfg cs x) && typed2 cfg cs x
  | cs, .binary m op l r =>
    (if fragBinary op then
        scalarOK (synth cfg cs (.binary m op l r)) && scalarOK (synth cfg cs l) && scalarOK (synth cfg cs r)
     else if op == "in" || op == "not in" then inOK (synth cfg cs l) (synth cfg cs r)
     else scalarOK (synth cfg cs l) && scalarOK (synth cfg cs r)) &&
    typed2 cfg cs l && typed2 cfg cs r
  | cs, .cond _ c a b =>
    scalarOK (synth cfg cs c) && condOK cfg.dt (synth cfg cs a) (synth cfg cs b) &&
      typed2 cfg cs c && typed2 cfg cs a && typed2 cfg cs b
  | cs, .index m x i =>
    ((sliceOK (synth cfg cs x) && intOK (synth cfg cs i)) ||
      idxAnyOK (synth cfg cs x) (synth cfg cs i) (synth cfg cs (.index m x i))) && typed2 cfg cs x && typed2 cfg cs i
  | cs, .slice _ x none none => collOK (synth cfg cs x) && typed2 cfg cs x
  | cs, .slice _ x (some f) none => collOK (synth cfg cs x) && typed2 cfg cs x && intOK (synth cfg cs f) && typed2 cfg cs f
  | cs, .slice _ x none (some t) => collOK (synth cfg cs x) && typed2 cfg cs x && intOK (synth cfg cs t) && typed2 cfg cs t
  | cs, .slice _ x (some f) (some t) =>
    collOK (synth cfg cs x) && typed2 cfg cs x && intOK (synth cfg cs f) && typed2 cfg cs f &&
      intOK (synth cfg cs t) && typed2 cfg cs t
  | cs, .builtin _ _ [a] => lenOK (synth cfg cs a) && typed2 cfg cs a
  | cs, .builtin _ name [a, .closure _ b] =>
    collOK (synth cfg cs a) && typed2 cfg cs a &&
    -- `filter` / `map`: only under the documented rule (result `[]interface{}`); the code's `[]T` is the known finding
    (isPredBuiltin name || !cfg.dt.staticSliceOf) &&
    (match synth cfg cs a with
      | some coll =>
        (if name == "map" then vtyOK (synth cfg (coll :: cs) b) else scalarOK (synth cfg (coll :: cs) b)) &&
          typed2 cfg (coll :: cs) b
      | none => false)
  | cs, .func _ name args _ =>
    (match funcTargetC cfg name with
      | some (fn, im) =>
        (match funcPlan fn im args.length with
          | .inr (ins, variadic, numIn, offset, _) => typed2A cfg cs ins variadic numIn offset 0 args
          | .inl _ => false)
      | none => false)
  | cs, .array _ xs => typed2L cfg cs xs
  | cs, .prop m x name ns =>
    (objOK (synth cfg cs x) || propMapOK (synth cfg cs x) (synth cfg cs (.prop m x name ns))) && typed2 cfg cs x
  | cs, .map _ ps => typed2P cfg cs ps
  | cs, .method _ x name args _ =>
    objOK (synth cfg cs x) && recvOK cfg (synth cfg cs x) && typed2 cfg cs x &&
    (match synth cfg cs x with
      | some t =>
        (match methodTarget cfg.dn t name with
          | some (fn, im) =>
            (match funcPlan fn im args.length with
              | .inr (ins, variadic, numIn, offset, _) => typed2A cfg cs ins variadic numIn offset 0 args
              | .inl _ => false)
          | none => false)
      | none => false)
  | cs, .matches _ _ l r => strOK (synth cfg cs l) && strOK (synth cfg cs r) && typed2 cfg cs l && typed2 cfg cs r
  | _, _ => true
/-- the elements of an array literal: each has a value type of the fragment -/
def typed2L (cfg : CheckCfg) : List OTy → List Node → Bool
  | _, [] => true
  | cs, a :: rest => vtyOK (synth cfg cs a) && typed2 cfg cs a && typed2L cfg cs rest
/-- the pairs of a map literal: string keys, values of a value type of the fragment -/
def typed2P (cfg : CheckCfg) : List OTy → List Node → Bool
  | _, [] => true
  | cs, .pair _ k v :: rest =>
    strOK (synth cfg cs k) && vtyOK (synth cfg cs v) && typed2 cfg cs k && typed2 cfg cs v && typed2P cfg cs rest
  | _, _ :: _ => false
/-- the arguments of a call: each fits its parameter in the fragment's sense (`argOK`) -/
def typed2A (cfg : CheckCfg) : List OTy → List Ty → Bool → Nat → Nat → Nat → List Node → Bool
  | _, _, _, _, _, _, [] => true
  | cs, ins, variadic, numIn, offset, i, a :: rest =>
    argOK cfg a (synth cfg cs a) (paramFor ins variadic numIn offset i) && typed2 cfg cs a &&
      typed2A cfg cs ins variadic numIn offset (i + 1) rest
end

theorem envConforms_of2 {cfg : CheckCfg} {env : Val} (h : EnvConforms2 cfg env) : EnvConforms cfg env := by
  intro name ns τ hr hs
  obtain ⟨v, hv, hk⟩ := h name ns τ (.sc τ.kind) hr (vtyOf_scalar hs)
  exact ⟨v, hv, hk⟩

theorem sliceOK_elim {o : Option OTy} (h : sliceOK o = true) :
    ∀ t, o = some t → ∃ k, sliceElemKind t = some k := by
  intro t ht
  rw [ht] at h
  simp only [sliceOK, Option.isSome_iff_exists] at h
  exact h

theorem intOK_elim {o : Option OTy} (h : intOK o = true) :
    ∀ it, o = some it → ScalarT it ∧ isIntegerT it = true := by
  intro it hit
  rw [hit] at h
  simp only [intOK, Bool.and_eq_true] at h
  exact ⟨h.1, h.2⟩

mutual
/-- **Soundness on the extended fragment**, by recursion over the tree. -/
theorem frag2_sound (hd : E .divzero) (hi : E .index) (hbud : E .budget) (cfg : CheckCfg) (c : SCfg)
    (henv : EnvConforms2 cfg c.env) (hdn : cfg.dn = NDefects.asIs) (fo : FragOpts) (hw : fo.calls = true → WorldConforms E cfg c)
    (hre : fo.regex = true → RegexTotal c) (hm : fo.methods = true → MethodsConform E cfg c) :
    ∀ (n : Node) (cs : List OTy), inFrag2 fo n = true → typed2 cfg cs n = true → Spec2 E cfg c cs n
  | .bool m b, cs, _, _ =>
    frag_to_spec2 (frag_sound hd cfg cs c (envConforms_of2 henv) (.bool m b) rfl rfl)
      (fun τ h => by simp only [synth, Option.some.injEq] at h; subst h; rfl)
  | .str m x, cs, _, _ =>
    frag_to_spec2 (frag_sound hd cfg cs c (envConforms_of2 henv) (.str m x) rfl rfl)
      (fun τ h => by simp only [synth, Option.some.injEq] at h; subst h; rfl)
  | .int m v, cs, _, _ =>
    frag_to_spec2 (frag_sound hd cfg cs c (envConforms_of2 henv) (.int m v) rfl rfl)
      (fun τ h => by simp only [synth, Option.some.injEq] at h; subst h; rfl)
  | .float m x, cs, _, _ =>
    frag_to_spec2 (frag_sound hd cfg cs c (envConforms_of2 henv) (.float m x) rfl rfl)
      (fun τ h => by simp only [synth, Option.some.injEq] at h; subst h; rfl)
  | .ident m name ns, cs, _, _ => spec2_ident cfg c cs henv m name ns
  | .pointer m, cs, _, _ => spec2_pointer hi cfg c cs m
  | .unary m op x, cs, hf, ht => by
    simp only [inFrag2, Bool.and_eq_true] at hf
    simp only [typed2, Bool.and_eq_true] at ht
    have ihx := frag2_sound hd hi hbud cfg c henv hdn fo hw hre hm x cs hf.2 ht.2
    refine frag_to_spec2 (frag_unary cfg cs c m op x hf.1 ht.1.1 ht.1.2 (spec2_to_frag ihx)) ?_
    intro τ h
    have := ht.1.1
    rw [h] at this; exact this
  | .cond m cn a b, cs, hf, ht => by
    simp only [inFrag2, Bool.and_eq_true] at hf
    simp only [typed2, Bool.and_eq_true] at ht
    obtain ⟨⟨⟨⟨h0, h1⟩, t1⟩, t2⟩, t3⟩ := ht
    refine spec2_cond cfg c cs m cn a b (frag2_sound hd hi hbud cfg c henv hdn fo hw hre hm cn cs hf.1.1 t1)
      (frag2_sound hd hi hbud cfg c henv hdn fo hw hre hm a cs hf.1.2 t2)
      (frag2_sound hd hi hbud cfg c henv hdn fo hw hre hm b cs hf.2 t3) ?_ ?_
    · intro ct h
      rw [h] at h0; exact h0
    · intro ta tb ha hb
      rw [ha, hb] at h1
      simp only [condOK, Bool.and_eq_true, beq_iff_eq] at h1
      obtain ⟨V, hV⟩ := Option.isSome_iff_exists.1 h1.1.1
      exact ⟨V, hV, by rw [h1.1.2, hV], by rw [h1.2, hV]⟩
  | .binary m op l r, cs, hf, ht => by
    simp only [inFrag2, Bool.and_eq_true] at hf
    simp only [typed2, Bool.and_eq_true] at ht
    obtain ⟨⟨hop, hfl⟩, hfr⟩ := hf
    obtain ⟨⟨hcls, htl⟩, htr⟩ := ht
    have ihl := frag2_sound hd hi hbud cfg c henv hdn fo hw hre hm l cs hfl htl
    have ihr := frag2_sound hd hi hbud cfg c henv hdn fo hw hre hm r cs hfr htr
    by_cases hfb : fragBinary op = true
    · simp only [hfb, if_true, Bool.and_eq_true] at hcls
      refine frag_to_spec2 (frag_binary hd cfg cs c m op l r hfb hcls.1.2 hcls.2 (spec2_to_frag ihl)
        (spec2_to_frag ihr)) ?_
      intro τ h
      have := hcls.1.1
      rw [h] at this; exact this
    · simp only [hfb, Bool.false_eq_true, if_false, Bool.false_or] at hcls hop
      by_cases hin : (op == "in" || op == "not in") = true
      · simp only [hin, if_true] at hcls
        have hop' : op = "in" ∨ op = "not in" := by simpa using hin
        refine spec2_in cfg c cs m op l r hop' ihl ihr ?_
        intro lt rt h1 h2
        rw [h1, h2] at hcls
        simp only [inOK] at hcls
        cases hvl : vtyOf lt with
        | none => rw [hvl] at hcls; cases hcls
        | some Vl =>
          cases hvr : vtyOf rt with
          | none => rw [hvl, hvr] at hcls; cases hcls
          | some Vr =>
            rw [hvl, hvr] at hcls
            simp only [Bool.or_eq_true, Bool.and_eq_true, beq_iff_eq] at hcls
            refine ⟨Vl, Vr, rfl, rfl, fun a b ha hb => inV_ok ?_ ha hb⟩
            rcases hcls with h | ⟨h1', h2' | h2'⟩
            · exact Or.inl h
            · exact Or.inr ⟨h1', Or.inl h2'⟩
            · exact Or.inr ⟨h1', Or.inr ⟨rt, h2', by rw [hvr, h2']⟩⟩
      · simp only [hin, Bool.false_eq_true, if_false] at hcls
        simp only [Bool.and_eq_true] at hcls
        have hop' : op = ".." ∨ op = "**" := by
          simp only [Bool.or_eq_true, beq_iff_eq] at hop hin
          rcases hop with ((h | h) | h) | h
          · exact absurd (Or.inl h) hin
          · exact absurd (Or.inr h) hin
          · exact Or.inl h
          · exact Or.inr h
        have h1 : ∀ t, synth cfg cs l = some t → ScalarT t := by
          intro t h
          have := hcls.1; rw [h] at this; exact this
        have h2 : ∀ t, synth cfg cs r = some t → ScalarT t := by
          intro t h
          have := hcls.2; rw [h] at this; exact this
        rcases hop' with rfl | rfl
        · exact spec2_range hbud cfg c cs m l r ihl ihr h1 h2
        · exact spec2_pow cfg c cs m l r ihl ihr h1 h2
  | .index m x i, cs, hf, ht => by
    simp only [inFrag2, Bool.and_eq_true] at hf
    simp only [typed2, Bool.and_eq_true] at ht
    obtain ⟨⟨hcase, htx⟩, hti⟩ := ht
    have ihx := frag2_sound hd hi hbud cfg c henv hdn fo hw hre hm x cs hf.1 htx
    have ihi := frag2_sound hd hi hbud cfg c henv hdn fo hw hre hm i cs hf.2 hti
    by_cases hsl : (sliceOK (synth cfg cs x) && intOK (synth cfg cs i)) = true
    · simp only [Bool.and_eq_true] at hsl
      exact spec2_index hi cfg c cs m x i ihx ihi (sliceOK_elim hsl.1) (intOK_elim hsl.2)
    · simp only [hsl, Bool.false_or] at hcase
      refine spec2_index_gen cfg c cs m x i ihx ihi ?_
      intro t it h1 h2
      rw [h1, h2] at hcase
      cases hr : synth cfg cs (.index m x i) with
      | none => rw [hr] at hcase; simp [idxAnyOK] at hcase
      | some τ0 =>
        rw [hr] at hcase
        simp only [idxAnyOK] at hcase
        cases hvx : vtyOf t with
        | none => rw [hvx] at hcase; cases hcase
        | some Vx =>
          cases hvi : vtyOf it with
          | none => rw [hvx, hvi] at hcase; cases hcase
          | some Vi =>
            cases hvr : vtyOf τ0 with
            | none => rw [hvx, hvi, hvr] at hcase; cases hcase
            | some Vr =>
              rw [hvx, hvi, hvr] at hcase
              simp only [] at hcase
              refine ⟨Vx, Vi, rfl, rfl, ?_⟩
              intro τ V a b hτ hV ha hb
              cases hτ
              rw [hvr] at hV
              cases hV
              rcases idxAnyV_cases hcase with ⟨rfl, ⟨k, rfl⟩, rfl⟩ | ⟨rfl, rfl, rfl⟩ | ⟨et, rfl, ⟨k, rfl⟩, rfl⟩
              · exact fetch_anys hi ha hb
              · exact fetch_mapAny false ha hb
              · exact fetch_slo hi ha hb
  | .slice m x none none, cs, hf, ht => by
    simp only [inFrag2] at hf
    simp only [typed2, Bool.and_eq_true] at ht
    refine spec2_slice hi cfg c cs m x none none (frag2_sound hd hi hbud cfg c henv hdn fo hw hre hm x cs hf ht.2)
      (fun n h => by cases h) (fun n h => by cases h) (collOK_elim ht.1)
      (fun n it h => by cases h) (fun n it h => by cases h)
  | .slice m x (some f) none, cs, hf, ht => by
    simp only [inFrag2, Bool.and_eq_true] at hf
    simp only [typed2, Bool.and_eq_true] at ht
    obtain ⟨⟨⟨h1, h2⟩, h3⟩, h4⟩ := ht
    refine spec2_slice hi cfg c cs m x (some f) none (frag2_sound hd hi hbud cfg c henv hdn fo hw hre hm x cs hf.1 h2)
      (fun n h => by cases h; exact frag2_sound hd hi hbud cfg c henv hdn fo hw hre hm f cs hf.2 h4) (fun n h => by cases h)
      (collOK_elim h1) (fun n it h => by cases h; exact intOK_elim h3 it) (fun n it h => by cases h)
  | .slice m x none (some t), cs, hf, ht => by
    simp only [inFrag2, Bool.and_eq_true] at hf
    simp only [typed2, Bool.and_eq_true] at ht
    obtain ⟨⟨⟨h1, h2⟩, h3⟩, h4⟩ := ht
    refine spec2_slice hi cfg c cs m x none (some t) (frag2_sound hd hi hbud cfg c henv hdn fo hw hre hm x cs hf.1 h2)
      (fun n h => by cases h) (fun n h => by cases h; exact frag2_sound hd hi hbud cfg c henv hdn fo hw hre hm t cs hf.2 h4)
      (collOK_elim h1) (fun n it h => by cases h) (fun n it h => by cases h; exact intOK_elim h3 it)
  | .slice m x (some f) (some t), cs, hf, ht => by
    simp only [inFrag2, Bool.and_eq_true] at hf
    simp only [typed2, Bool.and_eq_true] at ht
    obtain ⟨⟨⟨⟨⟨h1, h2⟩, h3⟩, h4⟩, h5⟩, h6⟩ := ht
    refine spec2_slice hi cfg c cs m x (some f) (some t) (frag2_sound hd hi hbud cfg c henv hdn fo hw hre hm x cs hf.1.1 h2)
      (fun n h => by cases h; exact frag2_sound hd hi hbud cfg c henv hdn fo hw hre hm f cs hf.1.2 h4)
      (fun n h => by cases h; exact frag2_sound hd hi hbud cfg c henv hdn fo hw hre hm t cs hf.2 h6)
      (collOK_elim h1) (fun n it h => by cases h; exact intOK_elim h3 it) (fun n it h => by cases h; exact intOK_elim h5 it)
  | .builtin m name [a], cs, hf, ht => by
    simp only [inFrag2, Bool.and_eq_true, beq_iff_eq] at hf
    simp only [typed2, Bool.and_eq_true] at ht
    obtain ⟨rfl, hfa⟩ := hf
    refine spec2_len cfg c cs m a (frag2_sound hd hi hbud cfg c henv hdn fo hw hre hm a cs hfa ht.2) ?_
    intro t h
    have hl := ht.1
    rw [h] at hl
    simp only [lenOK] at hl
    cases hv : vtyOf t with
    | none => rw [hv] at hl; cases hl
    | some V =>
      rw [hv] at hl
      simp only [Bool.or_eq_true, beq_iff_eq] at hl
      refine ⟨V, rfl, ?_⟩
      rcases hl with (h | h) | h
      · exact Or.inl h
      · exact Or.inr (Or.inl h)
      · exact Or.inr (Or.inr h)
  | .builtin m name [a, .closure mc b], cs, hf, ht => by
    simp only [inFrag2, Bool.and_eq_true] at hf
    simp only [typed2, Bool.and_eq_true] at ht
    obtain ⟨⟨hname, hfa⟩, hfb⟩ := hf
    obtain ⟨⟨⟨hsa, hta⟩, hdt⟩, hbody⟩ := ht
    have iha := frag2_sound hd hi hbud cfg c henv hdn fo hw hre hm a cs hfa hta
    have ihb : ∀ coll, synth cfg cs a = some coll → Spec2 E cfg c (coll :: cs) b := by
      intro coll hc
      rw [hc] at hbody
      simp only [Bool.and_eq_true] at hbody
      exact frag2_sound hd hi hbud cfg c henv hdn fo hw hre hm b (coll :: cs) hfb hbody.2
    by_cases hp : isPredBuiltin name = true
    · refine spec2_predBuiltin cfg c cs m mc name a b hp iha ihb (collOK_elim hsa) ?_
      intro coll bt hc hb'
      rw [hc] at hbody
      simp only [Bool.and_eq_true] at hbody
      have hnm : (name == "map") = false := by
        rcases isPredBuiltin_cases hp with rfl | rfl | rfl | rfl | rfl <;> decide
      have := hbody.1
      rw [hnm, hb'] at this
      exact this
    · have hfm : name = "filter" ∨ name = "map" := by
        simp only [hp, Bool.false_or, Bool.or_eq_true, beq_iff_eq] at hname
        exact hname
      have hdt' : cfg.dt.staticSliceOf = false := by
        simp only [hp, Bool.false_or] at hdt
        simpa using hdt
      refine spec2_filterMap hi hbud cfg c cs m mc name a b hfm hdt' iha ihb (collOK_elim hsa) ?_
      intro coll bt hc hb'
      rw [hc] at hbody
      simp only [Bool.and_eq_true] at hbody
      have h1 := hbody.1
      rw [hb'] at h1
      rcases hfm with rfl | rfl
      · simp (config := {decide := true}) only [if_false] at h1
        exact ⟨⟨_, vtyOf_scalar h1⟩, fun _ => h1⟩
      · simp (config := {decide := true}) only [if_true] at h1
        exact ⟨Option.isSome_iff_exists.1 h1, fun h => absurd h (by decide)⟩
  | .func m name args fast, cs, hf, ht => by
    simp only [inFrag2, Bool.and_eq_true] at hf
    obtain ⟨hcalls, hfa⟩ := hf
    simp only [typed2] at ht
    cases hft : funcTargetC cfg name with
    | none => rw [hft] at ht; cases ht
    | some p =>
      obtain ⟨fn, im⟩ := p
      rw [hft] at ht
      simp only [] at ht
      refine spec2_func hd cfg c (hw hcalls) cs m name args fast (by rw [hft]; rfl) ?_ ?_
      · intro fn' im' rule h1 h2
        rw [hft] at h1
        cases h1
        rw [h2] at ht
        cases ht
      intro fn' im' ins variadic numIn offset out h1 h2
      rw [hft] at h1
      cases h1
      rw [h2] at ht
      simp only [] at ht
      exact frag2_args hd hi hbud cfg c henv hdn fo hw hre hm args cs ins variadic numIn offset 0 hfa ht
  | .prop m x name ns, cs, hf, ht => by
    simp only [inFrag2] at hf
    simp only [typed2, Bool.and_eq_true] at ht
    have ihx := frag2_sound hd hi hbud cfg c henv hdn fo hw hre hm x cs hf ht.2
    by_cases hobj : objOK (synth cfg cs x) = true
    · refine spec2_prop cfg c cs hdn m x name ns ihx ?_
      intro t h
      rw [h] at hobj
      simpa [objOK] using hobj
    · have hcase := ht.1
      simp only [hobj, Bool.false_or] at hcase
      refine spec2_prop_gen cfg c cs m x name ns ihx ?_
      intro t h
      rw [h] at hcase
      cases hr : synth cfg cs (.prop m x name ns) with
      | none => rw [hr] at hcase; cases hcase
      | some τ0 =>
        rw [hr] at hcase
        simp only [propMapOK, Bool.and_eq_true, beq_iff_eq] at hcase
        refine ⟨.mapAny, hcase.1, ?_⟩
        intro τ V a hτ hV ha
        cases hτ
        rw [hcase.2] at hV
        cases hV
        obtain ⟨kvs, rfl⟩ := ha
        simp only [fetchV]
        trivial
  | .matches m hasRe l r, cs, hf, ht => by
    simp only [inFrag2, Bool.and_eq_true] at hf
    simp only [typed2, Bool.and_eq_true] at ht
    obtain ⟨⟨⟨h1, h2⟩, h3⟩, h4⟩ := ht
    refine spec2_matches cfg c (hre hf.1.1) cs m hasRe l r
      (frag2_sound hd hi hbud cfg c henv hdn fo hw hre hm l cs hf.1.2 h3)
      (frag2_sound hd hi hbud cfg c henv hdn fo hw hre hm r cs hf.2 h4) ?_ ?_
    · intro t h
      rw [h] at h1
      simpa [strOK] using h1
    · intro t h
      rw [h] at h2
      simpa [strOK] using h2
  | .method m x name args ns, cs, hf, ht => by
    simp only [inFrag2, Bool.and_eq_true] at hf
    simp only [typed2, Bool.and_eq_true] at ht
    obtain ⟨⟨⟨hobj, hrecv⟩, htx⟩, hrest⟩ := ht
    refine spec2_method hd cfg c hdn (hm hf.1.1) cs m x name args ns
      (frag2_sound hd hi hbud cfg c henv hdn fo hw hre hm x cs hf.1.2 htx) ?_ ?_ ?_
    · intro t h
      rw [h] at hobj
      simpa [objOK] using hobj
    · intro t h
      rw [h] at hrecv
      simpa [recvOK] using hrecv
    · intro t fn im h1 h2
      rw [h1] at hrest
      simp only [] at hrest
      rw [h2] at hrest
      simp only [] at hrest
      cases hfp : funcPlan fn im args.length with
      | inl rule => rw [hfp] at hrest; cases hrest
      | inr q =>
        obtain ⟨ins, variadic, numIn, offset, out⟩ := q
        rw [hfp] at hrest
        simp only [] at hrest
        exact ⟨ins, variadic, numIn, offset, out, rfl,
          frag2_args hd hi hbud cfg c henv hdn fo hw hre hm args cs ins variadic numIn offset 0 hf.2 hrest⟩
  | .map m ps, cs, hf, ht => by
    simp only [inFrag2] at hf
    simp only [typed2] at ht
    exact spec2_mapLit hbud cfg c cs m ps (frag2_pairs hd hi hbud cfg c henv hdn fo hw hre hm ps cs hf ht)
  | .array m xs, cs, hf, ht => by
    simp only [inFrag2] at hf
    simp only [typed2] at ht
    exact spec2_array hbud cfg c cs m xs (frag2_elems hd hi hbud cfg c henv hdn fo hw hre hm xs cs hf ht)
  | .nil _, _, hf, _ | .const _ _, _, hf, _
  | .closure _ _, _, hf, _ | .pair _ _ _, _, hf, _ => by
    simp [inFrag2] at hf
  | .builtin _ _ [], _, hf, _ => by simp [inFrag2] at hf
  | .builtin _ _ (_ :: _ :: _ :: _), _, hf, _ => by simp [inFrag2] at hf
  | .builtin _ _ [_, .nil _], _, hf, _ => by simp [inFrag2] at hf

theorem frag2_elems (hd : E .divzero) (hi : E .index) (hbud : E .budget) (cfg : CheckCfg) (c : SCfg)
    (henv : EnvConforms2 cfg c.env) (hdn : cfg.dn = NDefects.asIs) (fo : FragOpts) (hw : fo.calls = true → WorldConforms E cfg c)
    (hre : fo.regex = true → RegexTotal c) (hm : fo.methods = true → MethodsConform E cfg c) :
    ∀ (xs : List Node) (cs : List OTy), inFrag2L fo xs = true → typed2L cfg cs xs = true →
      ElemsOK E cfg c cs xs
  | [], _, _, _ => trivial
  | a :: rest, cs, hf, ht => by
    simp only [inFrag2L, Bool.and_eq_true] at hf
    simp only [typed2L, Bool.and_eq_true] at ht
    refine ⟨⟨?_, frag2_sound hd hi hbud cfg c henv hdn fo hw hre hm a cs hf.1 ht.1.2, ht.1.1⟩,
      frag2_elems hd hi hbud cfg c henv hdn fo hw hre hm rest cs hf.2 ht.2⟩
    cases a <;> first | rfl | (simp [inFrag2] at hf)

theorem frag2_pairs (hd : E .divzero) (hi : E .index) (hbud : E .budget) (cfg : CheckCfg) (c : SCfg)
    (henv : EnvConforms2 cfg c.env) (hdn : cfg.dn = NDefects.asIs) (fo : FragOpts) (hw : fo.calls = true → WorldConforms E cfg c)
    (hre : fo.regex = true → RegexTotal c) (hm : fo.methods = true → MethodsConform E cfg c) :
    ∀ (ps : List Node) (cs : List OTy), inFrag2P fo ps = true → typed2P cfg cs ps = true →
      PairsOK E cfg c cs ps
  | [], _, _, _ => trivial
  | .pair m k v :: rest, cs, hf, ht => by
    simp only [inFrag2P, Bool.and_eq_true] at hf
    simp only [typed2P, Bool.and_eq_true] at ht
    obtain ⟨⟨⟨⟨h1, h2⟩, h3⟩, h4⟩, h5⟩ := ht
    refine ⟨⟨frag2_sound hd hi hbud cfg c henv hdn fo hw hre hm k cs hf.1.1 h3,
      frag2_sound hd hi hbud cfg c henv hdn fo hw hre hm v cs hf.1.2 h4, ?_, h2⟩,
      frag2_pairs hd hi hbud cfg c henv hdn fo hw hre hm rest cs hf.2 h5⟩
    intro kt hk
    rw [hk] at h1
    simpa [strOK] using h1
  | .nil _ :: _, _, h, _ | .ident _ _ _ :: _, _, h, _ | .int _ _ :: _, _, h, _ | .float _ _ :: _, _, h, _
  | .bool _ _ :: _, _, h, _ | .str _ _ :: _, _, h, _ | .const _ _ :: _, _, h, _ | .unary _ _ _ :: _, _, h, _
  | .binary _ _ _ _ :: _, _, h, _ | .matches _ _ _ _ :: _, _, h, _ | .prop _ _ _ _ :: _, _, h, _
  | .index _ _ _ :: _, _, h, _ | .slice _ _ _ _ :: _, _, h, _ | .method _ _ _ _ _ :: _, _, h, _
  | .func _ _ _ _ :: _, _, h, _ | .builtin _ _ _ :: _, _, h, _ | .closure _ _ :: _, _, h, _
  | .pointer _ :: _, _, h, _ | .cond _ _ _ _ :: _, _, h, _ | .array _ _ :: _, _, h, _ | .map _ _ :: _, _, h, _ => by
    simp [inFrag2P] at h

theorem frag2_args (hd : E .divzero) (hi : E .index) (hbud : E .budget) (cfg : CheckCfg) (c : SCfg)
    (henv : EnvConforms2 cfg c.env) (hdn : cfg.dn = NDefects.asIs) (fo : FragOpts) (hw : fo.calls = true → WorldConforms E cfg c)
    (hre : fo.regex = true → RegexTotal c) (hm : fo.methods = true → MethodsConform E cfg c) :
    ∀ (args : List Node) (cs : List OTy) (ins : List Ty) (variadic : Bool) (numIn offset i : Nat),
      inFrag2L fo args = true → typed2A cfg cs ins variadic numIn offset i args = true →
      ArgsOK E cfg c cs ins variadic numIn offset i args
  | [], _, _, _, _, _, _, _, _ => trivial
  | a :: rest, cs, ins, variadic, numIn, offset, i, hf, ht => by
    simp only [inFrag2L, Bool.and_eq_true] at hf
    simp only [typed2A, Bool.and_eq_true] at ht
    refine ⟨⟨?_, frag2_sound hd hi hbud cfg c henv hdn fo hw hre hm a cs hf.1 ht.1.2, ht.1.1⟩,
      frag2_args hd hi hbud cfg c henv hdn fo hw hre hm rest cs ins variadic numIn offset (i + 1) hf.2 ht.2⟩
    cases a <;> first | rfl | (simp [inFrag2] at hf)
end

end ExprModel
