import ExprModel.Syntax.Printer
/-
The image of the parser is canonical — definitions for the invariant.
A parser function may return a tree whose *right edge* is an identifier that was marked `NilSafe`
because the next token has the value `?.` although that token is not an operator/bracket (so no postfix
production takes it).  Such a result is "pending": every caller then fails on that token.  `canonX p`
is `canon` up to such a pending right-edge identifier (allowed iff `p`).
-/
namespace ExprModel.Parser

/-- the right edge of the tree is an identifier with `NilSafe` set -/
def rightPend : Node → Bool
  | .ident _ _ ns => ns
  | .unary _ _ x => rightPend x
  | .binary _ _ _ r => rightPend r
  | .matches _ _ _ r => rightPend r
  | .cond _ _ _ b => rightPend b
  | _ => false

/-- clear the `NilSafe` flag of the right-edge identifier -/
def clearR : Node → Node
  | .ident m n _ => .ident m n false
  | .unary m op x => .unary m op (clearR x)
  | .binary m op l r => .binary m op l (clearR r)
  | .matches m h l r => .matches m h l (clearR r)
  | .cond m c a b => .cond m c a (clearR b)
  | n => n

variable (cfg : Cfg)

def canonX (p : Bool) (d : Nat) (n : Node) : Bool := canon cfg d (clearR n) && (!rightPend n || p)

/-- the current token has the value `?.` but is neither an operator nor a bracket -/
def pendB (ts : List Token) : Bool :=
  (cur ts).value == "?." && (cur ts).kind != .operator && (cur ts).kind != .bracket

/-- what the postfix loop is entered with: an identifier whose flag says whether `?.` follows, or a
    tree that is canonical up to a pending right edge -/
def baseOK (d : Nat) (n : Node) (ts : List Token) : Bool :=
  canonBaseWith (canonX cfg (pendB ts) d n) ((cur ts).value == "?.") n

theorem clear_of_not_pend : (n : Node) → rightPend n = false → clearR n = n
  | .ident _ _ ns, h => by simp only [rightPend] at h; subst h; rfl
  | .unary _ _ x, h => by simp only [rightPend] at h; simp only [clearR, clear_of_not_pend x h]
  | .binary _ _ _ r, h => by simp only [rightPend] at h; simp only [clearR, clear_of_not_pend r h]
  | .matches _ _ _ r, h => by simp only [rightPend] at h; simp only [clearR, clear_of_not_pend r h]
  | .cond _ _ _ b, h => by simp only [rightPend] at h; simp only [clearR, clear_of_not_pend b h]
  | .nil _, _ | .int _ _, _ | .float _ _, _ | .bool _ _, _ | .str _ _, _ | .const _ _, _
  | .prop _ _ _ _, _ | .index _ _ _, _ | .slice _ _ _ _, _ | .method _ _ _ _ _, _ | .func _ _ _ _, _
  | .builtin _ _ _, _ | .closure _ _, _ | .pointer _, _ | .array _ _, _ | .map _ _, _ | .pair _ _ _, _ => rfl

theorem not_pend_of_canon : (n : Node) → (d : Nat) → canon cfg d n = true → rightPend n = false
  | .ident _ _ ns, d, h => by
    simp only [canon, Bool.and_eq_true, Bool.not_eq_true'] at h
    simp [rightPend, h.1.2]
  | .unary _ _ x, d, h => by
    simp only [canon, Bool.and_eq_true] at h
    simp only [rightPend]; exact not_pend_of_canon x d h.2
  | .binary _ _ _ r, d, h => by
    simp only [canon, Bool.and_eq_true] at h
    simp only [rightPend]; exact not_pend_of_canon r d h.2
  | .matches _ _ _ r, d, h => by
    simp only [canon, Bool.and_eq_true] at h
    simp only [rightPend]; exact not_pend_of_canon r d h.2
  | .cond _ _ _ b, d, h => by
    simp only [canon, Bool.and_eq_true] at h
    simp only [rightPend]; exact not_pend_of_canon b d h.2
  | .nil _, _, _ | .int _ _, _, _ | .float _ _, _, _ | .bool _ _, _, _ | .str _ _, _, _ | .const _ _, _, _
  | .prop _ _ _ _, _, _ | .index _ _ _, _, _ | .slice _ _ _ _, _, _ | .method _ _ _ _ _, _, _
  | .func _ _ _ _, _, _ | .builtin _ _ _, _, _ | .closure _ _, _, _ | .pointer _, _, _ | .array _ _, _, _
  | .map _ _, _, _ | .pair _ _ _, _, _ => rfl

theorem canonX_of_canon {d : Nat} {n : Node} (h : canon cfg d n = true) (p : Bool) : canonX cfg p d n = true := by
  have hp := not_pend_of_canon cfg n d h
  simp [canonX, clear_of_not_pend n hp, h, hp]

theorem canon_of_canonX_false {d : Nat} {n : Node} (h : canonX cfg false d n = true) : canon cfg d n = true := by
  simp only [canonX, Bool.and_eq_true, Bool.or_false, Bool.not_eq_true'] at h
  rw [clear_of_not_pend n h.2] at h
  exact h.1

theorem canonX_eq_canon {n : Node} (h : rightPend n = false) (p : Bool) (d : Nat) :
    canonX cfg p d n = canon cfg d n := by
  simp [canonX, clear_of_not_pend n h, h]

theorem strLit_clearR (r : Node) : strLit? (clearR r) = strLit? r := by
  cases r <;> rfl

theorem canonX_ident {p : Bool} {d : Nat} {m : Meta} {n : String} {ns : Bool}
    (hm : inv m = true) (hr : reserved n = false) (hns : ns = true → p = true) :
    canonX cfg p d (.ident m n ns) = true := by
  cases ns <;> simp_all [canonX, clearR, rightPend, canon]

theorem canonX_unary {p : Bool} {d : Nat} {m : Meta} {op : String} {x : Node}
    (hm : inv m = true) (hop : (cfg.tb.unary.lookup op).isSome = true) (hx : canonX cfg p d x = true) :
    canonX cfg p d (.unary m op x) = true := by
  simp only [canonX, Bool.and_eq_true] at hx ⊢
  simp [clearR, rightPend, canon, hm, hop, hx.1, hx.2]

theorem canonX_binary {p : Bool} {d : Nat} {m : Meta} {op : String} {l r : Node}
    (hm : inv m = true) (hop : (cfg.tb.binary.lookup op).isSome = true) (hne : op ≠ "matches")
    (hl : canon cfg d l = true) (hr : canonX cfg p d r = true) :
    canonX cfg p d (.binary m op l r) = true := by
  simp only [canonX, Bool.and_eq_true] at hr ⊢
  simp [clearR, rightPend, canon, hm, hop, hne, hl, hr.1, hr.2]

theorem canonX_matches {p : Bool} {d : Nat} {m : Meta} {l r : Node}
    (hm : inv m = true) (hop : (cfg.tb.binary.lookup "matches").isSome = true)
    (hbad : ∀ s, strLit? r = some s → cfg.badRegex s = false)
    (hl : canon cfg d l = true) (hr : canonX cfg p d r = true) :
    canonX cfg p d (.matches m (strLit? r).isSome l r) = true := by
  simp only [canonX, Bool.and_eq_true] at hr ⊢
  simp only [clearR, rightPend, canon, strLit_clearR, hm, hop, hl, hr.1, hr.2, beq_self_eq_true, Bool.true_and,
    Bool.and_true, and_true]
  cases hs : strLit? r with
  | none => rfl
  | some s => simp [hbad s hs]

theorem canonX_cond {p : Bool} {d : Nat} {m : Meta} {c a b : Node}
    (hm : inv m = true) (hc : canon cfg d c = true) (ha : canon cfg d a = true) (hb : canonX cfg p d b = true) :
    canonX cfg p d (.cond m c a b) = true := by
  simp only [canonX, Bool.and_eq_true] at hb ⊢
  simp [clearR, rightPend, canon, hm, hc, ha, hb.1, hb.2]

theorem baseOK_of_canonX {d : Nat} {n : Node} {ts : List Token} (h : canonX cfg (pendB ts) d n = true)
    (hni : ∀ m s ns, n ≠ .ident m s ns) : baseOK cfg d n ts = true := by
  unfold baseOK
  cases n <;> first | exact h | exact absurd rfl (hni _ _ _)

theorem baseOK_of_canon {d : Nat} {n : Node} (ts : List Token) (h : canon cfg d n = true) : baseOK cfg d n ts = true := by
  unfold baseOK
  cases n <;> first | exact canonX_of_canon cfg h _ | skip
  simp only [canon, Bool.and_eq_true, Bool.not_eq_true'] at h
  simp [canonBaseWith, h.1.1, h.1.2, h.2]

theorem inv_mk (l : Loc) : inv (mk l) = true := by simp [inv, mk]

end ExprModel.Parser
