import ExprModel.Types.Table
/-
Pointwise semantics of the types table and independence of Go's map iteration order.

`conf.FieldsFromStruct` ranges over a Go map (`for name, typ := range FieldsFromStruct(f.Type)`); the
model takes the iteration order as a parameter `σ`.  Here: for every `σ` that only permutes entries,
the entry the table holds for a name is `rawAt … name`, a function that does not mention `σ`
(`fieldsRaw_get?`), hence `fieldsFrom_perm_invariant` (used by C16 and C09).
-/
namespace ExprModel

namespace Table

@[simp] theorem get?_nil (n : String) : get? [] n = none := rfl

theorem get?_cons (k : String) (v : Tag) (r : Table) (n : String) :
    get? ((k, v) :: r) n = if k = n then some v else get? r n := rfl

theorem filter_cons_eq (k : String) (v : Tag) (r : Table) (n : String) (h : k = n) :
    List.filter (fun e => decide (e.1 ≠ n)) ((k, v) :: r) = List.filter (fun e => decide (e.1 ≠ n)) r := by
  simp [List.filter_cons, h]

theorem filter_cons_ne (k : String) (v : Tag) (r : Table) (n : String) (h : ¬ k = n) :
    List.filter (fun e => decide (e.1 ≠ n)) ((k, v) :: r) =
      (k, v) :: List.filter (fun e => decide (e.1 ≠ n)) r := by
  simp [List.filter_cons, h]

theorem get?_filter_ne (t : Table) (n m : String) (h : m ≠ n) :
    get? (t.filter (fun e => decide (e.1 ≠ n))) m = get? t m := by
  induction t with
  | nil => rfl
  | cons e r ih =>
    obtain ⟨k, v⟩ := e
    by_cases hk : k = n
    · rw [filter_cons_eq k v r n hk, ih, get?_cons]
      have : ¬ (k = m) := fun e => h (hk ▸ e.symm)
      simp [this]
    · rw [filter_cons_ne k v r n hk, get?_cons, get?_cons, ih]

theorem get?_filter_self (t : Table) (n : String) :
    get? (t.filter (fun e => decide (e.1 ≠ n))) n = none := by
  induction t with
  | nil => rfl
  | cons e r ih =>
    obtain ⟨k, v⟩ := e
    by_cases hk : k = n
    · rw [filter_cons_eq k v r n hk, ih]
    · rw [filter_cons_ne k v r n hk, get?_cons, ih]; simp [hk]

theorem get?_set (t : Table) (n : String) (g : Tag) (m : String) :
    (t.set n g).get? m = if n = m then some g else t.get? m := by
  unfold set
  rw [get?_cons]
  by_cases h : n = m
  · simp [h]
  · simp only [h, if_false]
    exact get?_filter_ne t n m (fun e => h e.symm)

/-- the invariant of a Go map: keys are unique -/
def NodupKeys (t : Table) : Prop := t.keys.Nodup

theorem nodupKeys_nil : NodupKeys [] := List.nodup_nil

theorem keys_filter_sublist (t : Table) (p : String × Tag → Bool) :
    (keys (t.filter p)).Sublist (keys t) := by
  unfold keys
  exact (List.filter_sublist (l := t)).map _

theorem not_mem_keys_filter (t : Table) (n : String) :
    n ∉ keys (t.filter (fun e => decide (e.1 ≠ n))) := by
  unfold keys
  intro h
  rcases List.mem_map.1 h with ⟨e, he, rfl⟩
  have := (List.mem_filter.1 he).2
  simp at this

theorem nodupKeys_set {t : Table} (h : NodupKeys t) (n : String) (g : Tag) :
    NodupKeys (t.set n g) := by
  unfold NodupKeys set keys
  rw [List.map_cons, List.nodup_cons]
  exact ⟨not_mem_keys_filter t n, h.sublist (keys_filter_sublist t _)⟩

theorem get?_eq_none_of_not_mem {t : Table} {n : String} (h : n ∉ t.keys) : t.get? n = none := by
  induction t with
  | nil => rfl
  | cons e r ih =>
    obtain ⟨k, v⟩ := e
    simp only [keys, List.map_cons, List.mem_cons, not_or] at h
    rw [get?_cons]
    have : ¬ k = n := fun e => h.1 e.symm
    simp only [this, if_false]
    exact ih h.2

theorem get?_eq_some_iff_mem {t : Table} (h : NodupKeys t) (n : String) (g : Tag) :
    t.get? n = some g ↔ (n, g) ∈ t := by
  induction t with
  | nil => simp
  | cons e r ih =>
    obtain ⟨k, v⟩ := e
    have hn : k ∉ keys r ∧ NodupKeys r := by
      simpa [NodupKeys, keys, List.nodup_cons] using h
    rw [get?_cons]
    by_cases hk : k = n
    · subst hk
      simp only [if_true, List.mem_cons, Prod.mk.injEq, true_and]
      constructor
      · intro e; cases e; exact Or.inl rfl
      · rintro (e | hm)
        · rw [e]
        · exact absurd (List.mem_map.2 ⟨(k, g), hm, rfl⟩) hn.1
    · simp only [hk, if_false, List.mem_cons, Prod.mk.injEq]
      rw [ih hn.2]
      constructor
      · exact Or.inr
      · rintro (⟨e, _⟩ | hm)
        · exact absurd e.symm hk
        · exact hm

theorem NodupKeys.perm {t t' : Table} (p : t'.Perm t) (h : NodupKeys t) : NodupKeys t' := by
  unfold NodupKeys keys at *
  exact (p.map _).nodup_iff.2 h

/-- looking a name up does not depend on the order of the entries of a Go map -/
theorem get?_perm {t t' : Table} (p : t'.Perm t) (h : NodupKeys t) (n : String) :
    t'.get? n = t.get? n := by
  have h' := NodupKeys.perm p h
  cases hg : t.get? n with
  | some g =>
    rw [get?_eq_some_iff_mem h] at hg
    exact (get?_eq_some_iff_mem h' n g).2 (p.mem_iff.2 hg)
  | none =>
    cases hg' : t'.get? n with
    | none => rfl
    | some g =>
      rw [get?_eq_some_iff_mem h'] at hg'
      have := (get?_eq_some_iff_mem h n g).2 (p.mem_iff.1 hg')
      rw [hg] at this; cases this

end Table

open Table

def ambTag : Tag := { ambiguous := true }

/-- what the merge loop does to the entry of one name -/
def mergeAt (cur emb : Option Tag) : Option Tag :=
  match emb with
  | some g => if cur.isSome then some ambTag else some g
  | none => cur

theorem mergeStep_nodup {acc : Table} (h : NodupKeys acc) (e : String × Tag) :
    NodupKeys (if (acc.get? e.1).isSome then acc.set e.1 { ambiguous := true } else acc.set e.1 e.2) := by
  split <;> exact nodupKeys_set h _ _

theorem mergeEmbedded_nodup (emb : Table) : ∀ {types : Table}, NodupKeys types →
    NodupKeys (mergeEmbedded types emb) := by
  induction emb with
  | nil => intro types h; exact h
  | cons e r ih =>
    intro types h
    unfold mergeEmbedded
    rw [List.foldl_cons]
    exact ih (mergeStep_nodup h e)

theorem mergeEmbedded_get?_not_mem (emb : Table) (n : String) (hn : n ∉ emb.keys) :
    ∀ types : Table, (mergeEmbedded types emb).get? n = types.get? n := by
  induction emb with
  | nil => intro types; rfl
  | cons e r ih =>
    intro types
    simp only [keys, List.map_cons, List.mem_cons, not_or] at hn
    unfold mergeEmbedded
    rw [List.foldl_cons]
    have := ih hn.2 (if (types.get? e.1).isSome then types.set e.1 { ambiguous := true } else types.set e.1 e.2)
    unfold mergeEmbedded at this
    rw [this]
    have hne : ¬ e.1 = n := fun h => hn.1 h.symm
    split <;> simp [get?_set, hne]

/-- the merge loop, pointwise -/
theorem mergeEmbedded_get? (emb : Table) (h : NodupKeys emb) (n : String) :
    ∀ types : Table, (mergeEmbedded types emb).get? n = mergeAt (types.get? n) (emb.get? n) := by
  induction emb with
  | nil => intro types; rfl
  | cons e r ih =>
    intro types
    obtain ⟨k, v⟩ := e
    have hn : k ∉ keys r ∧ NodupKeys r := by
      simpa [NodupKeys, keys, List.nodup_cons] using h
    by_cases hk : k = n
    · subst hk
      have := mergeEmbedded_get?_not_mem r k hn.1
        (if (types.get? k).isSome then types.set k { ambiguous := true } else types.set k v)
      unfold mergeEmbedded at this ⊢
      rw [List.foldl_cons, this, get?_cons]
      simp only [if_true, mergeAt]
      split <;> simp [get?_set, ambTag]
    · have := ih hn.2 (if (types.get? k).isSome then types.set k { ambiguous := true } else types.set k v)
      unfold mergeEmbedded at this ⊢
      rw [List.foldl_cons, this, get?_cons]
      simp only [hk, if_false]
      congr 1
      split <;> simp [get?_set, hk]

/-- the entry for `name` after the loop over a struct's fields; `R` is the recursive call, pointwise -/
def loopAt (d : NDefects) (R : Ty → String → Option Tag) (name : String) :
    List Field → Option Tag → Option Tag
  | [], cur => cur
  | f :: fs, cur =>
    let cur := if f.anon then mergeAt cur (R f.ty name) else cur
    let cur := if (d.unexportedAccepted || f.exported) && f.name = name
      then some { ty := some f.ty } else cur
    loopAt d R name fs cur

/-- the entry of `conf.FieldsFromStruct(t)` (as written) for `name`; no iteration order involved -/
def rawAt (d : NDefects) : Nat → Ty → String → Option Tag
  | 0, _, _ => none
  | n + 1, t, name =>
    match t.deref.core with
    | .struct fs => loopAt d (rawAt d n) name fs none
    | _ => none

/-- `σ` models an iteration order: it only permutes the entries -/
def IsOrder (σ : Table → Table) : Prop := ∀ t, (σ t).Perm t

theorem isOrder_id : IsOrder id := fun _ => List.Perm.refl _
theorem isOrder_reverse : IsOrder List.reverse := fun t => List.reverse_perm t

theorem fieldsLoop_spec (d : NDefects) (σ : Table → Table) (hσ : IsOrder σ) (rec : Ty → Table)
    (hrec : ∀ t, NodupKeys (rec t)) (name : String) :
    ∀ (fs : List Field) (acc : Table), NodupKeys acc →
      NodupKeys (fieldsLoop d σ rec fs acc) ∧
      (fieldsLoop d σ rec fs acc).get? name =
        loopAt d (fun t n => (rec t).get? n) name fs (acc.get? name) := by
  intro fs
  induction fs with
  | nil => intro acc h; exact ⟨h, rfl⟩
  | cons f fs ih =>
    intro acc h
    unfold fieldsLoop loopAt
    -- first step: merge
    have h1 : NodupKeys (if f.anon then mergeEmbedded acc (σ (rec f.ty)) else acc) := by
      split
      · exact mergeEmbedded_nodup _ h
      · exact h
    have g1 : (if f.anon then mergeEmbedded acc (σ (rec f.ty)) else acc).get? name =
        (if f.anon then mergeAt (acc.get? name) ((rec f.ty).get? name) else acc.get? name) := by
      split
      · rw [mergeEmbedded_get? _ (NodupKeys.perm (hσ _) (hrec _)), get?_perm (hσ _) (hrec _)]
      · rfl
    -- second step: own field
    generalize (if f.anon then mergeEmbedded acc (σ (rec f.ty)) else acc) = acc1 at h1 g1 ⊢
    have h2 : NodupKeys (if d.unexportedAccepted || f.exported then acc1.set f.name { ty := some f.ty } else acc1) := by
      split
      · exact nodupKeys_set h1 _ _
      · exact h1
    have g2 : (if d.unexportedAccepted || f.exported then acc1.set f.name { ty := some f.ty } else acc1).get? name =
        (if (d.unexportedAccepted || f.exported) && f.name = name then some { ty := some f.ty } else acc1.get? name) := by
      by_cases hx : (d.unexportedAccepted || f.exported) = true
      · by_cases hn : f.name = name <;> simp [hx, get?_set, hn]
      · simp [hx]
    have := ih _ h2
    refine ⟨this.1, ?_⟩
    rw [this.2, g2, g1]

theorem fieldsRaw_succ (d : NDefects) (σ : Table → Table) (n : Nat) (t : Ty) :
    fieldsRaw d σ (n + 1) t =
      match t.deref.core with
      | .struct fs => fieldsLoop d σ (fieldsRaw d σ n) fs []
      | _ => [] := rfl

theorem rawAt_succ (d : NDefects) (n : Nat) (t : Ty) (name : String) :
    rawAt d (n + 1) t name =
      match t.deref.core with
      | .struct fs => loopAt d (rawAt d n) name fs none
      | _ => none := rfl

theorem fieldsRaw_spec (d : NDefects) (σ : Table → Table) (hσ : IsOrder σ) :
    ∀ (n : Nat) (t : Ty), NodupKeys (fieldsRaw d σ n t) ∧
      ∀ name, (fieldsRaw d σ n t).get? name = rawAt d n t name := by
  intro n
  induction n with
  | zero => intro t; exact ⟨nodupKeys_nil, fun _ => rfl⟩
  | succ n ih =>
    intro t
    have hfun : (fun t m => (fieldsRaw d σ n t).get? m) = rawAt d n := by
      funext t m; exact (ih t).2 m
    rw [fieldsRaw_succ]
    constructor
    · cases t.deref.core with
      | struct fs => exact (fieldsLoop_spec d σ hσ _ (fun t => (ih t).1) "" fs [] nodupKeys_nil).1
      | _ => exact nodupKeys_nil
    · intro name
      rw [rawAt_succ]
      cases t.deref.core with
      | struct fs =>
        show (fieldsLoop d σ (fieldsRaw d σ n) fs []).get? name = loopAt d (rawAt d n) name fs none
        rw [(fieldsLoop_spec d σ hσ _ (fun t => (ih t).1) name fs [] nodupKeys_nil).2, hfun]
        rfl
      | _ => rfl

/-- `FieldsFromStruct` (as written), pointwise -/
theorem fieldsRaw_get? (d : NDefects) (σ : Table → Table) (hσ : IsOrder σ) (n : Nat) (t : Ty)
    (name : String) : (fieldsRaw d σ n t).get? name = rawAt d n t name :=
  (fieldsRaw_spec d σ hσ n t).2 name

theorem fieldsRaw_nodup (d : NDefects) (σ : Table → Table) (hσ : IsOrder σ) (n : Nat) (t : Ty) :
    NodupKeys (fieldsRaw d σ n t) := (fieldsRaw_spec d σ hσ n t).1

/-- The entry `FieldsFromStruct` computes for a name does not depend on the order in which Go
happens to iterate over the intermediate maps. -/
theorem fieldsRaw_perm_invariant (d : NDefects) (σ σ' : Table → Table) (hσ : IsOrder σ)
    (hσ' : IsOrder σ') (n : Nat) (t : Ty) (name : String) :
    (fieldsRaw d σ n t).get? name = (fieldsRaw d σ' n t).get? name := by
  rw [fieldsRaw_get? d σ hσ, fieldsRaw_get? d σ' hσ']

end ExprModel
