import ExprModel.Code.Compile
/-
C01: unfolding equations of `compileNode` / `compileList`, all by `rfl`, stated once (generating Lean's
own equation lemmas for this large mutual definition costs about half a minute in every file that asks
for them); and the dispatch lemma for builtin calls.
-/
set_option linter.unusedVariables false
namespace ExprModel.Refine
open ExprModel

theorem compileNode_nil (cfg : CompCfg) {m} (p : Pool) :
    compileNode cfg (.nil m) p = (.ok ([li m.loc .nil_], p)) := rfl

theorem compileNode_ident (cfg : CompCfg) {m} {name} {nilsafe} (p : Pool) :
    compileNode cfg (.ident m name nilsafe) p = (do
    let (k, p) ← mkConst (.str name) p
    let op := if cfg.mapEnv then Op.fetchMap else if nilsafe then .fetchNilSafe else .fetch
    pure ([li m.loc op k], p)) := rfl

theorem compileNode_int (cfg : CompCfg) {m} {v} (p : Pool) :
    compileNode cfg (.int m v) p = (do
    let (k, p) ← mkConst (intConst m.kd v) p
    pure ([li m.loc .push k], p)) := rfl

theorem compileNode_float (cfg : CompCfg) {m} {bits} (p : Pool) :
    compileNode cfg (.float m bits) p = (do
    let (k, p) ← mkConst (.f64 (Float.ofBits bits)) p
    pure ([li m.loc .push k], p)) := rfl

theorem compileNode_bool (cfg : CompCfg) {m} {b} (p : Pool) :
    compileNode cfg (.bool m b) p = (.ok ([li m.loc (if b then .true_ else .false_)], p)) := rfl

theorem compileNode_str (cfg : CompCfg) {m} {s} (p : Pool) :
    compileNode cfg (.str m s) p = (do
    let (k, p) ← mkConst (.str s) p
    pure ([li m.loc .push k], p)) := rfl

theorem compileNode_const_nil (cfg : CompCfg) {m} (p : Pool) :
    compileNode cfg (.const m .nil) p = .ok ([li m.loc .nil_], p) := rfl

theorem compileNode_const (cfg : CompCfg) {m} {v} (p : Pool) (h : v ≠ .nil) :
    compileNode cfg (.const m v) p = (do
    let (k, p) ← mkConst v p
    pure ([li m.loc .push k], p)) := by
  cases v <;> first | rfl | exact absurd rfl h

theorem compileNode_unary (cfg : CompCfg) {m} {op} {x} (p : Pool) :
    compileNode cfg (.unary m op x) p = (do
    let (cx, p) ← compileNode cfg x p
    if op == "!" || op == "not" then pure (cx ++ [li m.loc .not_], p)
    else if op == "+" then pure (cx, p)
    else if op == "-" then pure (cx ++ [li m.loc .negate], p)
    else .error (.unknownOperator op)) := rfl

theorem compileNode_binary (cfg : CompCfg) {m} {op} {l} {r} (p : Pool) :
    compileNode cfg (.binary m op l r) p = (do
    if op == "==" then
      let (cl, p) ← compileNode cfg l p
      let (cr, p) ← compileNode cfg r p
      let e := if l.kd == r.kd && l.kd == .num .int then Op.equalInt
               else if l.kd == r.kd && l.kd == .string then .equalString else .equal
      pure (cl ++ cr ++ [li m.loc e], p)
    else if op == "or" || op == "||" then
      let (cl, p) ← compileNode cfg l p
      let (cr, p) ← compileNode cfg r p
      pure (cl ++ [li m.loc .jumpIfTrue (1 + lsize cr), li m.loc .pop] ++ cr, p)
    else if op == "and" || op == "&&" then
      let (cl, p) ← compileNode cfg l p
      let (cr, p) ← compileNode cfg r p
      pure (cl ++ [li m.loc .jumpIfFalse (1 + lsize cr), li m.loc .pop] ++ cr, p)
    else match binSimpleOp op with
      | some ops => do
        let (cl, p) ← compileNode cfg l p
        let (cr, p) ← compileNode cfg r p
        pure (cl ++ cr ++ ops.map (fun o => li m.loc o), p)
      | none => .error (.unknownOperator op)) := rfl

theorem compileNode_matches (cfg : CompCfg) {m} {hasRe} {l} {r} (p : Pool) :
    compileNode cfg (.matches m hasRe l r) p = (do
    if hasRe then
      let (cl, p) ← compileNode cfg l p
      let pat := match r with
        | .str _ s => s
        | _ => ""
      let (k, p) ← mkRegexConst m.loc pat p
      pure (cl ++ [li m.loc .matchesConst k], p)
    else
      let (cl, p) ← compileNode cfg l p
      let (cr, p) ← compileNode cfg r p
      pure (cl ++ cr ++ [li m.loc .matches_], p)) := rfl

theorem compileNode_prop (cfg : CompCfg) {m} {x} {name} {nilsafe} (p : Pool) :
    compileNode cfg (.prop m x name nilsafe) p = (do
    let (cx, p) ← compileNode cfg x p
    let (k, p) ← mkConst (.str name) p
    pure (cx ++ [li m.loc (if nilsafe then .propertyNilSafe else .property) k], p)) := rfl

theorem compileNode_index (cfg : CompCfg) {m} {x} {i} (p : Pool) :
    compileNode cfg (.index m x i) p = (do
    let (cx, p) ← compileNode cfg x p
    let (ci, p) ← compileNode cfg i p
    pure (cx ++ ci ++ [li m.loc .index], p)) := rfl

theorem compileNode_slice_ss (cfg : CompCfg) (m : Meta) (x f t : Node) (p : Pool) :
    compileNode cfg (.slice m x (some f) (some t)) p = (do
    let (cx, p) ← compileNode cfg x p
    let (ct, p) ← compileNode cfg t p
    let (cf, p) ← compileNode cfg f p
    pure (cx ++ ct ++ cf ++ [li m.loc .slice], p)) := rfl

theorem compileNode_slice_sn (cfg : CompCfg) (m : Meta) (x f : Node) (p : Pool) :
    compileNode cfg (.slice m x (some f) none) p = (do
    let (cx, p) ← compileNode cfg x p
    let (ct, p) ← (pure ([li m.loc .len], p) : CR (List LInstr × Pool))
    let (cf, p) ← compileNode cfg f p
    pure (cx ++ ct ++ cf ++ [li m.loc .slice], p)) := rfl

theorem compileNode_slice_ns (cfg : CompCfg) (m : Meta) (x t : Node) (p : Pool) :
    compileNode cfg (.slice m x none (some t)) p = (do
    let (cx, p) ← compileNode cfg x p
    let (ct, p) ← compileNode cfg t p
    let (k, p) ← mkConst (.int .int 0) p
    let (cf, p) ← (pure ([li m.loc .push k], p) : CR (List LInstr × Pool))
    pure (cx ++ ct ++ cf ++ [li m.loc .slice], p)) := rfl

theorem compileNode_slice_nn (cfg : CompCfg) (m : Meta) (x : Node) (p : Pool) :
    compileNode cfg (.slice m x none none) p = (do
    let (cx, p) ← compileNode cfg x p
    let (ct, p) ← (pure ([li m.loc .len], p) : CR (List LInstr × Pool))
    let (k, p) ← mkConst (.int .int 0) p
    let (cf, p) ← (pure ([li m.loc .push k], p) : CR (List LInstr × Pool))
    pure (cx ++ ct ++ cf ++ [li m.loc .slice], p)) := rfl

theorem compileNode_method (cfg : CompCfg) {m} {x} {name} {args} {nilsafe} (p : Pool) :
    compileNode cfg (.method m x name args nilsafe) p = (do
    let (cx, p) ← compileNode cfg x p
    let (ca, p) ← compileList cfg args p
    let (k, p) ← mkConst (.call name args.length) p
    pure (cx ++ ca ++ [li m.loc (if nilsafe then .methodNilSafe else .method) k], p)) := rfl

theorem compileNode_func (cfg : CompCfg) {m} {name} {args} {fast} (p : Pool) :
    compileNode cfg (.func m name args fast) p = (do
    let (ca, p) ← compileList cfg args p
    let (k, p) ← mkConst (.call name args.length) p
    pure (ca ++ [li m.loc (if fast then .callFast else .call) k], p)) := rfl

theorem compileNode_bi_len (cfg : CompCfg) (m : Meta) (a : Node) (p : Pool) :
    compileNode cfg (.builtin m "len" [a]) p = ( do
      let (ca, p) ← compileNode cfg a p
      pure (ca ++ [li m.loc .len, li m.loc .rot, li m.loc .pop], p)) := rfl

theorem compileNode_bi_all (cfg : CompCfg) (m : Meta) (a b : Node) (p : Pool) :
    compileNode cfg (.builtin m "all" [a, b]) p = ( do
      let (ca, p) ← compileNode cfg a p
      let (ci, p) ← mkConst (.str "i") p
      let (cs, p) ← mkConst (.str "size") p
      let (car, p) ← mkConst (.str "array") p
      let (c0, p) ← mkConst (.int .int 0) p
      let (cb, p) ← compileNode cfg b p
      
      let rest := [li m.loc .pop, li m.loc .inc ci, li m.loc .jumpBackward 0, li m.loc .pop, li m.loc .true_]
      let body := cb ++ [li m.loc .jumpIfFalse (lsize rest), li m.loc .pop]
      pure (ca ++ [li m.loc .begin_] ++ emitLoop m.loc ci cs car c0 body ++ [li m.loc .true_, li m.loc .end_], p)) := rfl

theorem compileNode_bi_none (cfg : CompCfg) (m : Meta) (a b : Node) (p : Pool) :
    compileNode cfg (.builtin m "none" [a, b]) p = ( do
      let (ca, p) ← compileNode cfg a p
      let (ci, p) ← mkConst (.str "i") p
      let (cs, p) ← mkConst (.str "size") p
      let (car, p) ← mkConst (.str "array") p
      let (c0, p) ← mkConst (.int .int 0) p
      let (cb, p) ← compileNode cfg b p
      let rest := [li m.loc .pop, li m.loc .inc ci, li m.loc .jumpBackward 0, li m.loc .pop, li m.loc .true_]
      let body := cb ++ [li m.loc .not_, li m.loc .jumpIfFalse (lsize rest), li m.loc .pop]
      pure (ca ++ [li m.loc .begin_] ++ emitLoop m.loc ci cs car c0 body ++ [li m.loc .true_, li m.loc .end_], p)) := rfl

theorem compileNode_bi_any (cfg : CompCfg) (m : Meta) (a b : Node) (p : Pool) :
    compileNode cfg (.builtin m "any" [a, b]) p = ( do
      let (ca, p) ← compileNode cfg a p
      let (ci, p) ← mkConst (.str "i") p
      let (cs, p) ← mkConst (.str "size") p
      let (car, p) ← mkConst (.str "array") p
      let (c0, p) ← mkConst (.int .int 0) p
      let (cb, p) ← compileNode cfg b p
      let rest := [li m.loc .pop, li m.loc .inc ci, li m.loc .jumpBackward 0, li m.loc .pop, li m.loc .false_]
      let body := cb ++ [li m.loc .jumpIfTrue (lsize rest), li m.loc .pop]
      pure (ca ++ [li m.loc .begin_] ++ emitLoop m.loc ci cs car c0 body ++ [li m.loc .false_, li m.loc .end_], p)) := rfl

theorem compileNode_bi_one (cfg : CompCfg) (m : Meta) (a b : Node) (p : Pool) :
    compileNode cfg (.builtin m "one" [a, b]) p = ( do
      let (cc, p) ← mkConst (.str "count") p
      let (ca, p) ← compileNode cfg a p
      let (c0, p) ← mkConst (.int .int 0) p
      let (ci, p) ← mkConst (.str "i") p
      let (cs, p) ← mkConst (.str "size") p
      let (car, p) ← mkConst (.str "array") p
      let (cb, p) ← compileNode cfg b p
      let body := cb ++ emitCond m.loc [li m.loc .inc cc]
      let (c1, p) ← mkConst (.int .int 1) p
      pure (ca ++ [li m.loc .begin_, li m.loc .push c0, li m.loc .store cc] ++ emitLoop m.loc ci cs car c0 body ++
            [li m.loc .load cc, li m.loc .push c1, li m.loc .equal, li m.loc .end_], p)) := rfl

theorem compileNode_bi_filter (cfg : CompCfg) (m : Meta) (a b : Node) (p : Pool) :
    compileNode cfg (.builtin m "filter" [a, b]) p = ( do
      let (cc, p) ← mkConst (.str "count") p
      let (ca, p) ← compileNode cfg a p
      let (c0, p) ← mkConst (.int .int 0) p
      let (ci, p) ← mkConst (.str "i") p
      let (cs, p) ← mkConst (.str "size") p
      let (car, p) ← mkConst (.str "array") p
      let (cb, p) ← compileNode cfg b p
      let body := cb ++ emitCond m.loc [li m.loc .inc cc, li m.loc .load car, li m.loc .load ci, li m.loc .index]
      pure (ca ++ [li m.loc .begin_, li m.loc .push c0, li m.loc .store cc] ++ emitLoop m.loc ci cs car c0 body ++
            [li m.loc .load cc, li m.loc .end_, li m.loc .array], p)) := rfl

theorem compileNode_bi_map (cfg : CompCfg) (m : Meta) (a b : Node) (p : Pool) :
    compileNode cfg (.builtin m "map" [a, b]) p = ( do
      let (ca, p) ← compileNode cfg a p
      let (ci, p) ← mkConst (.str "i") p
      let (cs, p) ← mkConst (.str "size") p
      let (car, p) ← mkConst (.str "array") p
      let (c0, p) ← mkConst (.int .int 0) p
      let (cb, p) ← compileNode cfg b p
      pure (ca ++ [li m.loc .begin_] ++ emitLoop m.loc ci cs car c0 cb ++ [li m.loc .load cs, li m.loc .end_, li m.loc .array], p)) := rfl

theorem compileNode_bi_count (cfg : CompCfg) (m : Meta) (a b : Node) (p : Pool) :
    compileNode cfg (.builtin m "count" [a, b]) p = ( do
      let (cc, p) ← mkConst (.str "count") p
      let (ca, p) ← compileNode cfg a p
      let (c0, p) ← mkConst (.int .int 0) p
      let (ci, p) ← mkConst (.str "i") p
      let (cs, p) ← mkConst (.str "size") p
      let (car, p) ← mkConst (.str "array") p
      let (cb, p) ← compileNode cfg b p
      let body := cb ++ emitCond m.loc [li m.loc .inc cc]
      pure (ca ++ [li m.loc .begin_, li m.loc .push c0, li m.loc .store cc] ++ emitLoop m.loc ci cs car c0 body ++
            [li m.loc .load cc, li m.loc .end_], p)) := rfl

theorem compileNode_closure (cfg : CompCfg) {m} {x} (p : Pool) :
    compileNode cfg (.closure m x) p = (compileNode cfg x p) := rfl

theorem compileNode_pointer (cfg : CompCfg) {m} (p : Pool) :
    compileNode cfg (.pointer m) p = (do
    let (car, p) ← mkConst (.str "array") p
    let (ci, p) ← mkConst (.str "i") p
    pure ([li m.loc .load car, li m.loc .load ci, li m.loc .index], p)) := rfl

theorem compileNode_cond (cfg : CompCfg) {m} {c} {a} {b} (p : Pool) :
    compileNode cfg (.cond m c a b) p = (do
    let (cc, p) ← compileNode cfg c p
    let (ca, p) ← compileNode cfg a p
    let (cb, p) ← compileNode cfg b p
    
    pure (cc ++ [li m.loc .jumpIfFalse (1 + lsize ca + 3), li m.loc .pop] ++ ca ++
          [li m.loc .jump (1 + lsize cb), li m.loc .pop] ++ cb, p)) := rfl

theorem compileNode_array (cfg : CompCfg) {m} {xs} (p : Pool) :
    compileNode cfg (.array m xs) p = (do
    let (cx, p) ← compileList cfg xs p
    let (k, p) ← mkConst (.int .int xs.length) p
    pure (cx ++ [li m.loc .push k, li m.loc .array], p)) := rfl

theorem compileNode_map (cfg : CompCfg) {m} {ps} (p : Pool) :
    compileNode cfg (.map m ps) p = (do
    let (cx, p) ← compileList cfg ps p
    let (k, p) ← mkConst (.int .int ps.length) p
    pure (cx ++ [li m.loc .push k, li m.loc .map], p)) := rfl

theorem compileNode_pair (cfg : CompCfg) {m} {k} {v} (p : Pool) :
    compileNode cfg (.pair m k v) p = (do
    let (ck, p) ← compileNode cfg k p
    let (cv, p) ← compileNode cfg v p
    pure (ck ++ cv, p)) := rfl

theorem compileList_nil (cfg : CompCfg) (p : Pool) : compileList cfg [] p = .ok ([], p) := rfl
theorem compileList_cons (cfg : CompCfg) (n : Node) (ns : List Node) (p : Pool) :
    compileList cfg (n :: ns) p = (do
      let (c1, p) ← compileNode cfg n p
      let (c2, p) ← compileList cfg ns p
      pure (c1 ++ c2, p)) := rfl

/-- a builtin call compiles only in one of the eight shapes -/
theorem compileNode_builtin_ok {cfg : CompCfg} {m : Meta} {name : String} {args : List Node} {p : Pool}
    {r : List LInstr × Pool} (h : compileNode cfg (.builtin m name args) p = .ok r) :
    (name = "len" ∧ ∃ a, args = [a]) ∨
    ((name = "all" ∨ name = "none" ∨ name = "any" ∨ name = "one" ∨ name = "filter" ∨ name = "map" ∨ name = "count") ∧
      ∃ a b, args = [a, b]) := by
  unfold compileNode at h
  split at h
  all_goals first
    | cases h; done
    | exact .inl ⟨rfl, _, rfl⟩
    | exact .inr ⟨by simp, _, _, rfl⟩

end ExprModel.Refine
