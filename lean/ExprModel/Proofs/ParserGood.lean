import ExprModel.Proofs.RefineSimAll
import ExprModel.Proofs.ParserCanonAll2
import ExprModel.Gen.ParserTables
/-
What the parser returns satisfies the well-formedness `Refine.Good` that the compile-correctness theorems
of C01 assume about the tree: pair nodes exactly as the elements of map literals, closures as the second
argument of the loop builtins, `len` the only one-argument builtin.  The only part of `Good L` that is not a
fact about the parser is `L` itself (a run-time condition on the collection argument of a loop builtin);
it is collected by `LoopsOK L`.
-/
namespace ExprModel.Parser
open ExprModel ExprModel.Refine

mutual
/-- the collection argument of every loop builtin in the tree satisfies `L` -/
def LoopsOK (L : Node → Prop) : Node → Prop
  | .nil _ | .ident .. | .int .. | .float .. | .bool .. | .str .. | .const .. | .pointer _ => True
  | .unary _ _ x => LoopsOK L x
  | .binary _ _ l r => LoopsOK L l ∧ LoopsOK L r
  | .matches _ _ l r => LoopsOK L l ∧ LoopsOK L r
  | .prop _ x _ _ => LoopsOK L x
  | .index _ x i => LoopsOK L x ∧ LoopsOK L i
  | .slice _ x f t => LoopsOK L x ∧ LoopsOKO L f ∧ LoopsOKO L t
  | .method _ x _ args _ => LoopsOK L x ∧ LoopsOKL L args
  | .func _ _ args _ => LoopsOKL L args
  | .builtin _ name args => (name = "len" ∨ LoopArgs L args) ∧ LoopsOKL L args
  | .closure _ x => LoopsOK L x
  | .cond _ c a b => LoopsOK L c ∧ LoopsOK L a ∧ LoopsOK L b
  | .array _ xs => LoopsOKL L xs
  | .map _ ps => LoopsOKL L ps
  | .pair _ k v => LoopsOK L k ∧ LoopsOK L v
def LoopsOKO (L : Node → Prop) : Option Node → Prop
  | none => True
  | some n => LoopsOK L n
def LoopsOKL (L : Node → Prop) : List Node → Prop
  | [] => True
  | n :: ns => LoopsOK L n ∧ LoopsOKL L ns
end

variable (cfg : Cfg)

theorem good_of_base {L : Node → Prop} {d : Nat} {s : Bool} {x : Node}
    (ih : canon cfg d x = true → Good L x) (h : canonBaseWith (canon cfg d x) s x = true) : Good L x := by
  cases x <;> first
    | exact ih h
    | trivial

mutual
theorem good_of_canon {L : Node → Prop} (hlen : ∀ n, cfg.tb.builtins.lookup n = some 1 → n = "len") :
    (t : Node) → (d : Nat) → canon cfg d t = true → LoopsOK L t → Good L t
  | .nil _, _, _, _ | .ident _ _ _, _, _, _ | .int _ _, _, _, _ | .float _ _, _, _, _ | .bool _ _, _, _, _
  | .str _ _, _, _, _ | .pointer _, _, _, _ => trivial
  | .const _ _, _, h, _ => by simp [canon] at h
  | .closure _ _, _, h, _ => by simp [canon] at h
  | .pair _ _ _, _, h, _ => by simp [canon] at h
  | .unary _ _ x, d, h, hl => by
    simp only [canon, Bool.and_eq_true] at h
    exact good_of_canon hlen x d h.2 hl
  | .binary _ _ l r, d, h, hl => by
    simp only [canon, Bool.and_eq_true] at h
    exact ⟨good_of_canon hlen l d h.1.2 hl.1, good_of_canon hlen r d h.2 hl.2⟩
  | .matches _ _ l r, d, h, hl => by
    simp only [canon, Bool.and_eq_true] at h
    exact ⟨good_of_canon hlen l d h.1.2 hl.1, good_of_canon hlen r d h.2 hl.2⟩
  | .cond _ c a b, d, h, hl => by
    simp only [canon, Bool.and_eq_true] at h
    exact ⟨good_of_canon hlen c d h.1.1.2 hl.1, good_of_canon hlen a d h.1.2 hl.2.1,
      good_of_canon hlen b d h.2 hl.2.2⟩
  | .prop _ x _ _, d, h, hl => by
    simp only [canon, Bool.and_eq_true] at h
    show Good L x
    exact good_of_base cfg (fun hc => good_of_canon hlen x d hc hl) h.2
  | .method _ x _ args _, d, h, hl => by
    simp only [canon, Bool.and_eq_true] at h
    exact ⟨good_of_base cfg (fun hc => good_of_canon hlen x d hc hl.1) h.1.2,
      goodL_of_canon hlen args d h.2 hl.2⟩
  | .index _ x i, d, h, hl => by
    simp only [canon, Bool.and_eq_true] at h
    exact ⟨good_of_base cfg (fun hc => good_of_canon hlen x d hc hl.1) h.1.2, good_of_canon hlen i d h.2 hl.2⟩
  | .slice _ x fr to, d, h, hl => by
    simp only [canon, Bool.and_eq_true] at h
    exact ⟨good_of_base cfg (fun hc => good_of_canon hlen x d hc hl.1) h.1.1.2,
      goodO_of_canon hlen fr d h.1.2 hl.2.1, goodO_of_canon hlen to d h.2 hl.2.2⟩
  | .func _ _ args _, d, h, hl => by
    simp only [canon, Bool.and_eq_true] at h
    exact goodL_of_canon hlen args d h.2 hl
  | .array _ xs, d, h, hl => by
    simp only [canon, Bool.and_eq_true] at h
    exact goodL_of_canon hlen xs d h.2 hl
  | .map m ps, d, h, hl => by
    simp only [canon, Bool.and_eq_true] at h
    exact goodP_of_canon hlen ps d m.loc h.2 hl
  | .builtin _ name [a], d, h, hl => by
    cases hlk : cfg.tb.builtins.lookup name with
    | none => simp [canon, hlk] at h
    | some ar =>
      simp [canon, hlk] at h
      obtain ⟨_, har, hca⟩ := h
      subst har
      exact ⟨Or.inl (hlen name hlk), good_of_canon hlen a d hca hl.2.1, trivial⟩
  | .builtin _ name [a, .closure mc b], d, h, hl => by
    cases hlk : cfg.tb.builtins.lookup name with
    | none => simp [canon, hlk] at h
    | some ar =>
      simp [canon, hlk] at h
      obtain ⟨_, ⟨⟨_, hca⟩, _⟩, hcb⟩ := h
      exact ⟨hl.1, good_of_canon hlen a d hca hl.2.1, good_of_canon hlen b (d+1) hcb hl.2.2.1, trivial⟩
  | .builtin _ name [], d, h, _ => by
    cases hlk : cfg.tb.builtins.lookup name <;> simp [canon, hlk] at h
  | .builtin _ name (_ :: _ :: _ :: _), d, h, _ => by
    cases hlk : cfg.tb.builtins.lookup name <;> simp [canon, hlk] at h
  | .builtin _ name [_, .nil _], d, h, _ | .builtin _ name [_, .ident _ _ _], d, h, _
  | .builtin _ name [_, .int _ _], d, h, _ | .builtin _ name [_, .float _ _], d, h, _
  | .builtin _ name [_, .bool _ _], d, h, _ | .builtin _ name [_, .str _ _], d, h, _
  | .builtin _ name [_, .const _ _], d, h, _ | .builtin _ name [_, .unary _ _ _], d, h, _
  | .builtin _ name [_, .binary _ _ _ _], d, h, _ | .builtin _ name [_, .matches _ _ _ _], d, h, _
  | .builtin _ name [_, .prop _ _ _ _], d, h, _ | .builtin _ name [_, .index _ _ _], d, h, _
  | .builtin _ name [_, .slice _ _ _ _], d, h, _ | .builtin _ name [_, .method _ _ _ _ _], d, h, _
  | .builtin _ name [_, .func _ _ _ _], d, h, _ | .builtin _ name [_, .builtin _ _ _], d, h, _
  | .builtin _ name [_, .pointer _], d, h, _ | .builtin _ name [_, .cond _ _ _ _], d, h, _
  | .builtin _ name [_, .array _ _], d, h, _ | .builtin _ name [_, .map _ _], d, h, _
  | .builtin _ name [_, .pair _ _ _], d, h, _ => by
    cases hlk : cfg.tb.builtins.lookup name <;> simp [canon, hlk] at h

theorem goodL_of_canon {L : Node → Prop} (hlen : ∀ n, cfg.tb.builtins.lookup n = some 1 → n = "len") :
    (xs : List Node) → (d : Nat) → canonList cfg d xs = true → LoopsOKL L xs → GoodL L xs
  | [], _, _, _ => trivial
  | x :: xs, d, h, hl => by
    simp only [canonList, Bool.and_eq_true] at h
    exact ⟨good_of_canon hlen x d h.1 hl.1, goodL_of_canon hlen xs d h.2 hl.2⟩

theorem goodO_of_canon {L : Node → Prop} (hlen : ∀ n, cfg.tb.builtins.lookup n = some 1 → n = "len") :
    (o : Option Node) → (d : Nat) → canonOpt cfg d o = true → LoopsOKO L o → GoodO L o
  | none, _, _, _ => trivial
  | some x, d, h, hl => good_of_canon hlen x d h hl

theorem goodP_of_canon {L : Node → Prop} (hlen : ∀ n, cfg.tb.builtins.lookup n = some 1 → n = "len") :
    (ps : List Node) → (d : Nat) → (l : Loc) → canonPairs cfg d l ps = true → LoopsOKL L ps → GoodP L ps
  | [], _, _, _, _ => trivial
  | .pair _ k v :: ps, d, l, h, hl => by
    simp only [canonPairs, Bool.and_eq_true] at h
    exact ⟨good_of_canon hlen k d h.1.1.2 hl.1.1, good_of_canon hlen v d h.1.2 hl.1.2,
      goodP_of_canon hlen ps d l h.2 hl.2⟩
  | .nil _ :: _, _, _, h, _ | .ident _ _ _ :: _, _, _, h, _ | .int _ _ :: _, _, _, h, _
  | .float _ _ :: _, _, _, h, _ | .bool _ _ :: _, _, _, h, _ | .str _ _ :: _, _, _, h, _
  | .const _ _ :: _, _, _, h, _ | .unary _ _ _ :: _, _, _, h, _ | .binary _ _ _ _ :: _, _, _, h, _
  | .matches _ _ _ _ :: _, _, _, h, _ | .prop _ _ _ _ :: _, _, _, h, _ | .index _ _ _ :: _, _, _, h, _
  | .slice _ _ _ _ :: _, _, _, h, _ | .method _ _ _ _ _ :: _, _, _, h, _ | .func _ _ _ _ :: _, _, _, h, _
  | .builtin _ _ _ :: _, _, _, h, _ | .closure _ _ :: _, _, _, h, _ | .pointer _ :: _, _, _, h, _
  | .cond _ _ _ _ :: _, _, _, h, _ | .array _ _ :: _, _, _, h, _ | .map _ _ :: _, _, _, h, _ => by
    simp [canonPairs] at h
end

/-- **parse_good**: a tree returned by the parser model is `Good L` as soon as the collection arguments of
    its loop builtins satisfy `L` — the pair-placement / closure-placement part of `Good` is a theorem about
    the parser, not a hypothesis on the tree. -/
theorem parse_good {L : Node → Prop} (hy : ImgHyp cfg)
    (hlen : ∀ n, cfg.tb.builtins.lookup n = some 1 → n = "len")
    (ts : List Token) (hE : EofPlain ts) (t : Node) (h : parse cfg ts = .ok t) (hl : LoopsOK L t) : Good L t := by
  have hc : canon cfg 0 t = true := by
    unfold parse at h
    cases hp : parseFuel cfg (fuelFor ts) ts with
    | ok n => rw [hp] at h; cases h; exact parseFuel_canonical cfg hy _ ts hE t hp
    | error e => rw [hp] at h; cases h
    | outOfFuel => rw [hp] at h; cases h
  exact good_of_canon cfg hlen t 0 hc hl

private theorem mem_of_lookup' {β : Type} : ∀ (l : List (String × β)) (k : String) (v : β),
    l.lookup k = some v → (k, v) ∈ l
  | [], _, _, h => by cases h
  | (k', v') :: rest, k, v, h => by
    rw [List.lookup] at h
    split at h
    · next heq =>
      have : k = k' := by simpa using heq
      cases h; subst this; simp
    · exact List.mem_cons_of_mem _ (mem_of_lookup' rest k v h)

/-- in the table generated from parser.go, `len` is the only builtin of arity 1, and arities are 1 or 2 -/
theorem gen_builtin_facts :
    (∀ n, Gen.parserTables.builtins.lookup n = some 1 → n = "len") ∧
    (∀ n ar, Gen.parserTables.builtins.lookup n = some ar → ar = 1 ∨ ar = 2) := by
  have hall : Gen.parserTables.builtins.all (fun x => (x.2 == 1 && x.1 == "len") || x.2 == 2) = true := by
    decide +kernel
  constructor
  · intro n h
    have := List.all_eq_true.mp hall _ (mem_of_lookup' _ _ _ h)
    simpa using this
  · intro n ar h
    have := List.all_eq_true.mp hall _ (mem_of_lookup' _ _ _ h)
    simp only [Bool.or_eq_true, Bool.and_eq_true, beq_iff_eq] at this
    rcases this with h1 | h2
    · exact Or.inl h1.1
    · exact Or.inr h2

/-- `parse_good` for a parser configuration with the generated tables (the form Props/C01 can use: `cfg` is
    `F.pcfg` of the pipeline, `ts` the lexer's output, whose only EOF token has the empty value) -/
theorem parse_good_gen {L : Node → Prop} (hT : cfg.tb = Gen.parserTables)
    (hnum : ∀ s v, cfg.num s = some (.int v) → 0 ≤ v ∧ v < 9223372036854775808)
    (hfloat : ∀ s b, cfg.num s = some (.float b) → floatLit b = true)
    (ts : List Token) (hE : EofPlain ts) (t : Node) (h : parse cfg ts = .ok t) (hl : LoopsOK L t) : Good L t :=
  parse_good cfg ⟨hnum, hfloat, by rw [hT]; exact gen_builtin_facts.2⟩ (by rw [hT]; exact gen_builtin_facts.1) ts hE t h hl

end ExprModel.Parser
